import ParsecVerif.Model.Dist
/-! Helper lemmas for C20 (block-cyclic index arithmetic). Core only. -/
namespace ParsecVerif.Dist

theorem mod_lt2 (a n : Nat) (h : a < 2 * n) : a % n = if a < n then a else a - n := by
  split
  · exact Nat.mod_eq_of_lt ‹_›
  · rw [Nat.mod_eq_sub_mod (by omega)]
    exact Nat.mod_eq_of_lt (by omega)

/-! ### one dimension: decomposition `g = q*(k*P) + a*k + d` -/

theorem rem_lt (k P g : Nat) (hk : 0 < k) (hP : 0 < P) : g % (k * P) < k * P :=
  Nat.mod_lt _ (Nat.mul_pos hk hP)

theorem a_lt (k P g : Nat) (hk : 0 < k) (hP : 0 < P) : (g % (k * P)) / k < P :=
  Nat.div_lt_of_lt_mul (rem_lt k P g hk hP)

theorem g_eq (k P g : Nat) :
    g = (g / (k * P)) * (k * P) + ((g % (k * P)) / k) * k + (g % (k * P)) % k := by
  have h1 := Nat.div_add_mod g (k * P)
  have h2 := Nat.div_add_mod (g % (k * P)) k
  rw [Nat.mul_comm] at h1 h2
  omega

theorem loc1_div (k P g : Nat) (hk : 0 < k) : loc1 k P g / k = g / (k * P) := by
  unfold loc1
  rw [Nat.mul_comm, Nat.mul_add_div hk, Nat.div_eq_of_lt (Nat.mod_lt _ hk)]
  omega

theorem loc1_mod (k P g : Nat) (_hk : 0 < k) : loc1 k P g % k = (g % (k * P)) % k := by
  unfold loc1
  rw [Nat.mul_comm, Nat.mul_add_mod, Nat.mod_mod]

/-- an index that passes the locality assertion of grid coordinate `r` is recovered from its local index -/
theorem glob1_loc1 (k P r g : Nat) (hk : 0 < k) (h : mine1 k P r g) :
    glob1 k P r (loc1 k P g) = g := by
  unfold glob1
  rw [loc1_div k P g hk, loc1_mod k P g hk]
  unfold mine1 at h
  have := g_eq k P g
  rw [h] at this
  omega

/-- the kcyclic locality assertion says `(g / k) % P = r` -/
theorem mine1_iff (k P r g : Nat) : mine1 k P r g ↔ (g / k) % P = r := by
  unfold mine1
  rw [Nat.mod_mul_right_div_self]

theorem glob1_div (k P r l : Nat) (hk : 0 < k) (hP : 0 < P) (hr : r < P) :
    glob1 k P r l / (k * P) = l / k ∧ glob1 k P r l % (k * P) = r * k + l % k := by
  have hS : 0 < k * P := Nat.mul_pos hk hP
  have hd : l % k < k := Nat.mod_lt _ hk
  have hlt : r * k + l % k < k * P := by
    have : (r + 1) * k ≤ P * k := Nat.mul_le_mul_right k hr
    rw [Nat.add_mul, Nat.mul_comm P k] at this
    omega
  rw [Nat.div_mod_unique hS]
  refine ⟨?_, hlt⟩
  unfold glob1
  rw [Nat.mul_comm (k * P) (l / k)]
  omega

theorem glob1_mine (k P r l : Nat) (hk : 0 < k) (hP : 0 < P) (hr : r < P) :
    mine1 k P r (glob1 k P r l) := by
  unfold mine1
  rw [(glob1_div k P r l hk hP hr).2]
  have hd : l % k < k := Nat.mod_lt _ hk
  rw [Nat.mul_comm r k, Nat.mul_add_div hk, Nat.div_eq_of_lt hd]
  omega

theorem loc1_glob1 (k P r l : Nat) (hk : 0 < k) (hP : 0 < P) (hr : r < P) :
    loc1 k P (glob1 k P r l) = l := by
  unfold loc1
  rw [(glob1_div k P r l hk hP hr).1, (glob1_div k P r l hk hP hr).2]
  rw [Nat.mul_comm r k, Nat.mul_add_mod, Nat.mod_mod]
  have := Nat.div_add_mod l k
  rw [Nat.mul_comm] at this
  omega

/-! ### the counting loop of parsec_matrix_block_cyclic_init -/

/-- every index `temp + s*step + d` (`d < k`) below `L` is counted: its local index `s*k + d`
    is below the loop's result -/
theorem cntLoop_bound (k step L : Nat) (hk : 0 < k) (hstep : k ≤ step) :
    ∀ (f temp s d : Nat), L < temp + f → d < k → temp + s * step + d < L →
      s * k + d < cntLoop k step L f temp := by
  intro f
  induction f with
  | zero => intro temp s d hf hd h; omega
  | succ f ih =>
    intro temp s d hf hd h
    have hs : s * step ≤ s * step := Nat.le_refl _
    have htl : temp < L := by omega
    unfold cntLoop
    rw [if_pos htl]
    cases s with
    | zero =>
      split
      · omega
      · omega
    | succ s =>
      have e1 : (s + 1) * step = s * step + step := Nat.succ_mul s step
      have e2 : (s + 1) * k = s * k + k := Nat.succ_mul s k
      split
      · have := ih (temp + step) s d (by omega) hd (by omega)
        omega
      · omega

/-- exactness: every local index below the loop's result is the local index of an index below `L` -/
theorem cntLoop_exact (k step L : Nat) (hk : 0 < k) :
    ∀ (f temp l : Nat), l < cntLoop k step L f temp → temp + (l / k) * step + l % k < L := by
  intro f
  induction f with
  | zero => intro temp l h; unfold cntLoop at h; omega
  | succ f ih =>
    intro temp l h
    unfold cntLoop at h
    split at h
    · split at h
      · by_cases hl : l < k
        · rw [Nat.div_eq_of_lt hl, Nat.mod_eq_of_lt hl]; omega
        · have hl' : l - k < cntLoop k step L f (temp + step) := by omega
          have := ih (temp + step) (l - k) hl'
          have e : l = (l - k) + k := by omega
          have e1 : l / k = (l - k) / k + 1 := by
            conv => lhs; rw [e]
            exact Nat.add_div_right _ hk
          have e2 : l % k = (l - k) % k := by
            conv => lhs; rw [e]
            exact Nat.add_mod_right _ _
          rw [e1, e2, Nat.succ_mul]
          omega
      · have hl : l < k := by omega
        rw [Nat.div_eq_of_lt hl, Nat.mod_eq_of_lt hl]; omega
    · omega

theorem loc1_lt_nbElem (k P L r g : Nat) (hk : 0 < k) (hP : 0 < P)
    (hmine : mine1 k P r g) (hg : g < L) : loc1 k P g < nbElem k P L r := by
  unfold nbElem loc1
  have hstep : k ≤ P * k := Nat.le_mul_of_pos_left k hP
  have hd : (g % (k * P)) % k < k := Nat.mod_lt _ hk
  apply cntLoop_bound k (P * k) L hk hstep (L + 1) (r * k) (g / (k * P)) ((g % (k * P)) % k) (by omega) hd
  have := g_eq k P g
  unfold mine1 at hmine
  rw [hmine, Nat.mul_comm k P] at this
  rw [Nat.mul_comm k P]
  omega

theorem glob1_lt (k P L r l : Nat) (hk : 0 < k) (h : l < nbElem k P L r) : glob1 k P r l < L := by
  unfold nbElem at h
  have := cntLoop_exact k (P * k) L hk (L + 1) (r * k) l h
  unfold glob1
  rw [Nat.mul_comm k P]
  omega

/-! ### grid coordinates and owners -/

theorem shift_iff (P ip a pr : Nat) (ha : a < P) (hip : ip < P) (hpr : pr < P) :
    (a + ip) % P = pr ↔ a = (pr + (P - ip)) % P := by
  rw [mod_lt2 (a + ip) P (by omega), mod_lt2 (pr + (P - ip)) P (by omega)]
  split <;> split <;> omega

theorem own1_lt (k P ip g : Nat) (hP : 0 < P) : own1 k P ip g < P := Nat.mod_lt _ hP

/-- the owner coordinate is `pr` iff the index passes the locality assertion of the process whose
    shifted coordinate is `(pr + (P - ip)) % P` -/
theorem own1_eq_iff (k P ip g pr : Nat) (hP : 0 < P) (hip : ip < P) (hpr : pr < P) :
    own1 k P ip g = pr ↔ mine1 k P ((pr + (P - ip)) % P) g := by
  rw [mine1_iff]
  unfold own1
  exact shift_iff P ip _ pr (Nat.mod_lt _ hP) hip hpr

theorem rank_split (Q rank rr cr : Nat) (hQ : 0 < Q) (hcr : cr < Q) :
    rr * Q + cr = rank ↔ rank / Q = rr ∧ rank % Q = cr := by
  rw [Nat.div_mod_unique hQ, Nat.mul_comm Q rr]
  constructor
  · intro h; exact ⟨by omega, hcr⟩
  · intro h; omega

theorem pair_lt (P Q rr cr : Nat) (hrr : rr < P) (hcr : cr < Q) : rr * Q + cr < P * Q := by
  have : (rr + 1) * Q ≤ P * Q := Nat.mul_le_mul_right Q hrr
  rw [Nat.add_mul] at this
  omega

theorem rank_div_lt (P Q rank : Nat) (h : rank < P * Q) : rank / Q < P := by
  rw [Nat.mul_comm] at h
  exact Nat.div_lt_of_lt_mul h

/-! ### plain accessors = kcyclic accessors with k = 1 -/

theorem own1_one (P ip g : Nat) : own1 1 P ip g = own1p P ip g := by
  unfold own1 own1p; rw [Nat.div_one]

theorem loc1_one (P g : Nat) : loc1 1 P g = loc1p P g := by
  unfold loc1 loc1p; rw [Nat.one_mul, Nat.mul_one, Nat.mod_one, Nat.add_zero]

theorem mine1_one (P r g : Nat) : mine1 1 P r g ↔ mine1p P r g := by
  unfold mine1 mine1p; rw [Nat.one_mul, Nat.div_one]

namespace BC
theorem rowOwner_eq (b : BC) (m : Nat) : b.rowOwner m = own1 b.g.kp b.g.P b.g.ip (b.gm m) := by
  unfold rowOwner; split
  · rename_i h; rw [h.1, own1_one]
  · rfl
theorem colOwner_eq (b : BC) (n : Nat) : b.colOwner n = own1 b.g.kq b.g.Q b.g.jq (b.gn n) := by
  unfold colOwner; split
  · rename_i h; rw [h.2, own1_one]
  · rfl
theorem localM_eq (b : BC) (m : Nat) : b.localM m = loc1 b.g.kp b.g.P (b.gm m) := by
  unfold localM; split
  · rename_i h; rw [h.1, loc1_one]
  · rfl
theorem localN_eq (b : BC) (n : Nat) : b.localN n = loc1 b.g.kq b.g.Q (b.gn n) := by
  unfold localN; split
  · rename_i h; rw [h.2, loc1_one]
  · rfl
theorem isLocal_iff (b : BC) (rank m n : Nat) :
    b.isLocal rank m n ↔ mine1 b.g.kp b.g.P (b.g.rrank rank) (b.gm m) ∧ mine1 b.g.kq b.g.Q (b.g.crank rank) (b.gn n) := by
  unfold isLocal; split
  · rename_i h; rw [h.1, h.2, mine1_one, mine1_one]
  · exact Iff.rfl
end BC

/-! ### two dimensions -/

theorem pos_inj (R a b a' b' : Nat) (ha : a < R) (ha' : a' < R) (h : R * b + a = R * b' + a') :
    a = a' ∧ b = b' := by
  have hR : 0 < R := by omega
  have h1 := congrArg (· / R) h
  have h2 := congrArg (· % R) h
  simp only [Nat.mul_add_div hR, Nat.mul_add_mod, Nat.div_eq_of_lt ha, Nat.div_eq_of_lt ha',
    Nat.mod_eq_of_lt ha, Nat.mod_eq_of_lt ha'] at h1 h2
  omega

theorem pos_lt (R C a b : Nat) (ha : a < R) (hb : b < C) : R * b + a < R * C := by
  have : R * (b + 1) ≤ R * C := Nat.mul_le_mul_left R hb
  rw [Nat.mul_add] at this
  omega

/-! ### tiled matrix sizes and keys -/

theorem lt_ceilDiv (x lm mb : Nat) (hmb : 0 < mb) (h : x < lm) : x / mb < ceilDiv lm mb := by
  unfold ceilDiv
  rw [Nat.div_lt_iff_lt_mul hmb]
  split
  · rename_i h0
    have := Nat.div_add_mod lm mb
    rw [h0, Nat.mul_comm] at this
    omega
  · have := Nat.lt_mul_div_succ lm hmb
    rw [Nat.mul_comm] at this
    omega

namespace TM
/-- the API precondition of the init functions used by every theorem -/
structure WF (t : TM) : Prop where
  mb : 0 < t.mb
  nb : 0 < t.nb
  m : 0 < t.m
  n : 0 < t.n
  im : t.i + t.m ≤ t.lm
  jn : t.j + t.n ≤ t.ln

theorem gm_lt (t : TM) (h : t.WF) (m : Nat) (hm : m < t.mt) : m + t.oi < t.lmt := by
  unfold mt at hm
  unfold oi lmt
  have h1 : t.i / t.mb ≤ (t.i + t.m - 1) / t.mb := Nat.div_le_div_right (by have := h.m; omega)
  have h2 : (t.i + t.m - 1) / t.mb < ceilDiv t.lm t.mb :=
    lt_ceilDiv _ _ _ h.mb (by have := h.m; have := h.im; omega)
  omega

theorem gn_lt (t : TM) (h : t.WF) (n : Nat) (hn : n < t.nt) : n + t.oj < t.lnt := by
  unfold nt at hn
  unfold oj lnt
  have h1 : t.j / t.nb ≤ (t.j + t.n - 1) / t.nb := Nat.div_le_div_right (by have := h.n; omega)
  have h2 : (t.j + t.n - 1) / t.nb < ceilDiv t.ln t.nb :=
    lt_ceilDiv _ _ _ h.nb (by have := h.n; have := h.jn; omega)
  omega

theorem key_mod (t : TM) (m n : Nat) (h : m + t.oi < t.lmt) : t.key m n % t.lmt = m + t.oi := by
  unfold key
  rw [Nat.mul_comm, Nat.mul_add_mod, Nat.mod_eq_of_lt h]

theorem key_div (t : TM) (m n : Nat) (h : m + t.oi < t.lmt) : t.key m n / t.lmt = n + t.oj := by
  unfold key
  rw [Nat.mul_comm, Nat.mul_add_div (by omega), Nat.div_eq_of_lt h, Nat.add_zero]
end TM

/-! ### the virtual-process grid -/

theorem csqrtLoop_bounds (n : Nat) (hn : 1 ≤ n) :
    ∀ (f q : Nat), q ≤ n → q ≤ csqrtLoop n f q ∧ csqrtLoop n f q ≤ n := by
  intro f
  induction f with
  | zero => intro q hq; unfold csqrtLoop; omega
  | succ f ih =>
    intro q hq
    unfold csqrtLoop
    split
    · omega
    · rename_i hlt
      have hq' : q + 1 ≤ n := by
        by_cases hqn : q = n
        · exfalso
          apply hlt
          subst hqn
          exact Nat.le_mul_of_pos_left q hn
        · omega
      have := ih (q + 1) hq'
      omega

theorem csqrt_bounds (n : Nat) (hn : 1 ≤ n) : 1 ≤ csqrt n ∧ csqrt n ≤ n := by
  unfold csqrt
  have h0 : csqrtLoop n (n + 1) 0 = csqrtLoop n n 1 := by
    conv => lhs; unfold csqrtLoop
    rw [if_neg (by omega)]
  rw [h0]
  have := csqrtLoop_bounds n hn n 1 hn
  omega

theorem vpqLoop_spec (pq : Nat) :
    ∀ (f q : Nat), 1 ≤ q → q ≤ pq → pq < q + f →
      (pq / vpqLoop pq f q) * vpqLoop pq f q = pq ∧ 1 ≤ vpqLoop pq f q := by
  intro f
  induction f with
  | zero => intro q h1 h2 h3; omega
  | succ f ih =>
    intro q h1 h2 h3
    unfold vpqLoop
    split
    · rename_i h; exact ⟨h, h1⟩
    · rename_i h
      have hq : q < pq := by
        by_cases hq : q = pq
        · exfalso; apply h; subst hq; rw [Nat.div_self (by omega), Nat.one_mul]
        · omega
      exact ih (q + 1) (by omega) (by omega) (by omega)

theorem vpP_mul_vpQ (pq : Nat) (h : 1 ≤ pq) : vpP pq * vpQ pq = pq ∧ 1 ≤ vpQ pq := by
  unfold vpP vpQ
  have hs := csqrt_bounds pq h
  exact vpqLoop_spec pq (pq + 1) (csqrt pq) hs.1 hs.2 (by omega)

theorem vpidOf_lt (nbvp lm ln : Nat) (h : 1 ≤ nbvp) : vpidOf nbvp lm ln < nbvp := by
  unfold vpidOf
  split
  · omega
  · have hpq := vpP_mul_vpQ nbvp h
    have hp : 0 < vpP nbvp := by
      rcases Nat.eq_zero_or_pos (vpP nbvp) with h0 | h0
      · rw [h0, Nat.zero_mul] at hpq; omega
      · exact h0
    have h1 : ln % vpQ nbvp < vpQ nbvp := Nat.mod_lt _ (by omega)
    have h2 : lm % vpP nbvp < vpP nbvp := Nat.mod_lt _ hp
    have h3 := pair_lt (vpQ nbvp) (vpP nbvp) _ _ h1 h2
    rw [Nat.mul_comm (vpQ nbvp)] at h3
    omega



theorem succ_divmod (P x : Nat) (hP : 0 < P) :
    (x % P + 1 = P → (x + 1) / P = x / P + 1 ∧ (x + 1) % P = 0) ∧
    (x % P + 1 ≠ P → (x + 1) / P = x / P ∧ (x + 1) % P = x % P + 1) := by
  have hx := Nat.div_add_mod x P
  have hs : x % P < P := Nat.mod_lt _ hP
  constructor
  · intro h
    rw [Nat.div_mod_unique hP, Nat.mul_add, Nat.mul_one]
    omega
  · intro h
    rw [Nat.div_mod_unique hP]
    omega

theorem cntBelow_add_period (P r x : Nat) (hP : 0 < P) : cntBelow P r (x + P) = cntBelow P r x + 1 := by
  unfold cntBelow; rw [Nat.add_div_right x hP, Nat.add_mod_right]; omega

theorem cntBelow_succ (P r x : Nat) (hP : 0 < P) (hr : r < P) :
    cntBelow P r (x + 1) = cntBelow P r x + (if x % P = r then 1 else 0) := by
  have h := succ_divmod P x hP
  have hs : x % P < P := Nat.mod_lt _ hP
  unfold cntBelow
  by_cases hc : x % P + 1 = P
  · rw [(h.1 hc).1, (h.1 hc).2]
    split <;> split <;> split <;> omega
  · rw [(h.2 hc).1, (h.2 hc).2]
    split <;> split <;> split <;> omega

theorem cntBelow_mono (P r x d : Nat) (hP : 0 < P) (hr : r < P) : cntBelow P r x ≤ cntBelow P r (x + d) := by
  induction d with
  | zero => exact Nat.le_refl _
  | succ d ih =>
    rw [← Nat.add_assoc, cntBelow_succ P r (x + d) hP hr]
    omega

theorem cntBelow_le (P r x y : Nat) (hP : 0 < P) (hr : r < P) (h : x ≤ y) : cntBelow P r x ≤ cntBelow P r y := by
  have := cntBelow_mono P r x (y - x) hP hr
  rw [Nat.add_sub_cancel' h] at this
  exact this

theorem cntBelow_add_mul (P r x t : Nat) (hP : 0 < P) : cntBelow P r (x + t * P) = cntBelow P r x + t := by
  induction t with
  | zero => simp
  | succ t ih => rw [Nat.succ_mul, ← Nat.add_assoc, cntBelow_add_period _ _ _ hP, ih]; omega

/-- the offset of a stored tile inside its column is smaller than the number of local tiles of that column -/
theorem low_off_lt (P r L gm gn : Nat) (hP : 0 < P) (hr : r < P) (hm : gm % P = r) (hle : gn ≤ gm) (hL : gm < L) :
    (gm - gn) / P + cntBelow P r gn < cntBelow P r L := by
  have h1 : (gm - gn) / P * P ≤ gm - gn := Nat.div_mul_le_self _ _
  have h2 := cntBelow_add_mul P r gn ((gm - gn) / P) hP
  have h3 := cntBelow_le P r (gn + (gm - gn) / P * P) gm hP hr (by omega)
  have h4 := cntBelow_succ P r gm hP hr
  rw [if_pos hm] at h4
  have h5 := cntBelow_le P r (gm + 1) L hP hr (by omega)
  omega

theorem same_col_inj (P gn gm gm' : Nat) (hP : 0 < P) (h1 : gn ≤ gm) (h2 : gn ≤ gm')
    (hm : gm % P = gm' % P) (hq : (gm - gn) / P = (gm' - gn) / P) : gm = gm' := by
  have key : ∀ a b : Nat, gn ≤ b → b ≤ a → a % P = b % P → (a - gn) / P = (b - gn) / P → a = b := by
    intro a b hb hba hmod hdiv
    have d := Nat.dvd_of_mod_eq_zero (Nat.sub_mod_eq_zero_of_mod_eq hmod)
    obtain ⟨k, hk⟩ := d
    have e : a - gn = (b - gn) + P * k := by omega
    rw [e, Nat.add_mul_div_left _ _ hP] at hdiv
    have : k = 0 := by omega
    subst this
    omega
  rcases Nat.le_total gm' gm with h | h
  · exact key gm gm' h2 h hm hq
  · exact (key gm' gm h1 h hm.symm hq.symm).symm


/-! ### prefix sums of the symmetric distribution -/

/-- LOWER: tiles stored by the process in the first `t` local columns starting at `col` -/
def lowSum (P Q r L : Nat) : Nat → Nat → Nat
  | 0, _ => 0
  | t+1, col => (cntBelow P r L - cntBelow P r col) + lowSum P Q r L t (col + Q)

/-- UPPER: same, a column `κ` holds the rows `≤ κ` -/
def upSum (P Q r : Nat) : Nat → Nat → Nat
  | 0, _ => 0
  | t+1, col => cntBelow P r (col + 1) + upSum P Q r t (col + Q)

theorem lowSum_succ_end (P Q r L : Nat) : ∀ (t col : Nat),
    lowSum P Q r L (t + 1) col = lowSum P Q r L t col + (cntBelow P r L - cntBelow P r (col + t * Q)) := by
  intro t
  induction t with
  | zero => intro col; simp [lowSum]
  | succ t ih =>
    intro col
    rw [lowSum, ih (col + Q), lowSum]
    have : col + Q + t * Q = col + (t + 1) * Q := by rw [Nat.succ_mul]; omega
    rw [this]; omega

theorem lowSum_le (P Q r L : Nat) : ∀ (t d col : Nat), lowSum P Q r L t col ≤ lowSum P Q r L (t + d) col := by
  intro t
  induction t with
  | zero => intro d col; simp [lowSum]
  | succ t ih =>
    intro d col
    have : t + 1 + d = (t + d) + 1 := by omega
    rw [this, lowSum, lowSum]
    have := ih d (col + Q)
    omega

theorem upSum_succ_end (P Q r : Nat) : ∀ (t col : Nat),
    upSum P Q r (t + 1) col = upSum P Q r t col + cntBelow P r (col + t * Q + 1) := by
  intro t
  induction t with
  | zero => intro col; simp [upSum]
  | succ t ih =>
    intro col
    rw [upSum, ih (col + Q), upSum]
    have : col + Q + t * Q = col + (t + 1) * Q := by rw [Nat.succ_mul]; omega
    rw [this]; omega

theorem upSum_le (P Q r : Nat) : ∀ (t d col : Nat), upSum P Q r t col ≤ upSum P Q r (t + d) col := by
  intro t
  induction t with
  | zero => intro d col; simp [upSum]
  | succ t ih =>
    intro d col
    have : t + 1 + d = (t + d) + 1 := by omega
    rw [this, upSum, upSum]
    have := ih d (col + Q)
    omega

theorem lowPrefix_eq (P Q r L : Nat) (hP : 0 < P) (hr : r < P) (hQ : 0 < Q) :
    ∀ (t f col : Nat), t < f → col + t * Q ≤ L →
      Sym.lowPrefix P Q r L (col + t * Q) f col = some ((lowSum P Q r L t col : Nat) : Int) := by
  intro t
  induction t with
  | zero =>
    intro f col hf _
    cases f with
    | zero => omega
    | succ f => simp [Sym.lowPrefix, lowSum]
  | succ t ih =>
    intro f col hf hL
    cases f with
    | zero => omega
    | succ f =>
      have e : (t + 1) * Q = t * Q + Q := Nat.succ_mul t Q
      have hne : ¬ (col = col + (t + 1) * Q) := by omega
      unfold Sym.lowPrefix
      rw [if_neg hne]
      have e2 : col + (t + 1) * Q = (col + Q) + t * Q := by omega
      rw [e2, ih f (col + Q) (by omega) (by omega)]
      have hc := cntBelow_le P r col L hP hr (by omega)
      simp only [Option.map_some, lowSum]
      congr 1
      omega

theorem upPrefix_eq (P Q r : Nat) (hQ : 0 < Q) :
    ∀ (t f col : Nat), t < f →
      Sym.upPrefix P Q r (col + t * Q) f col = some (upSum P Q r t col) := by
  intro t
  induction t with
  | zero =>
    intro f col hf
    cases f with
    | zero => omega
    | succ f => simp [Sym.upPrefix, upSum]
  | succ t ih =>
    intro f col hf
    cases f with
    | zero => omega
    | succ f =>
      have e : (t + 1) * Q = t * Q + Q := Nat.succ_mul t Q
      have hne : ¬ (col = col + (t + 1) * Q) := by omega
      unfold Sym.upPrefix
      rw [if_neg hne]
      have e2 : col + (t + 1) * Q = (col + Q) + t * Q := by omega
      rw [e2, ih f (col + Q) (by omega)]
      simp only [Option.map_some, upSum]

theorem lowTotal_nonneg (P Q r L : Nat) (hP : 0 < P) (hr : r < P) :
    ∀ (f col : Nat), 0 ≤ Sym.lowTotal P Q r L L f col := by
  intro f
  induction f with
  | zero => intro col; simp [Sym.lowTotal]
  | succ f ih =>
    intro col
    unfold Sym.lowTotal
    split
    · have hc := cntBelow_le P r col L hP hr (by omega)
      have := ih (col + Q)
      omega
    · omega

theorem lowTotal_ge (P Q r L : Nat) (hP : 0 < P) (hr : r < P) :
    ∀ (t f col : Nat), t < f → col + t * Q < L →
      ((lowSum P Q r L (t + 1) col : Nat) : Int) ≤ Sym.lowTotal P Q r L L f col := by
  intro t
  induction t with
  | zero =>
    intro f col hf hL
    cases f with
    | zero => omega
    | succ f =>
      unfold Sym.lowTotal
      rw [if_pos (by omega)]
      have hc := cntBelow_le P r col L hP hr (by omega)
      have := lowTotal_nonneg P Q r L hP hr f (col + Q)
      simp only [lowSum]
      omega
  | succ t ih =>
    intro f col hf hL
    cases f with
    | zero => omega
    | succ f =>
      have e : (t + 1) * Q = t * Q + Q := Nat.succ_mul t Q
      unfold Sym.lowTotal
      rw [if_pos (by omega)]
      have hc := cntBelow_le P r col L hP hr (by omega)
      have := ih f (col + Q) (by omega) (by omega)
      rw [lowSum]
      omega

/-- rows `≤ gn` with residue `r`: at least `gm / P + 1` of them when `gm ≤ gn`, `gm % P = r` -/
theorem up_off_lt (P r gm gn : Nat) (hP : 0 < P) (hr : r < P) (hm : gm % P = r) (hle : gm ≤ gn) :
    gm / P < cntBelow P r (gn + 1) := by
  have h4 := cntBelow_succ P r gm hP hr
  rw [if_pos hm] at h4
  have h5 := cntBelow_le P r (gm + 1) (gn + 1) hP hr (by omega)
  have : cntBelow P r gm = gm / P := by unfold cntBelow; rw [if_neg (by omega)]; omega
  omega

theorem same_res_div_inj (P a b : Nat) (h1 : a % P = b % P) (h2 : a / P = b / P) : a = b := by
  have ha := Nat.div_add_mod a P
  have hb := Nat.div_add_mod b P
  rw [h1, h2] at ha
  omega


/-! ### the k-cyclic view: one round of `kview_compute` -/


/-- value of one round of the view permutation on an index written as `q*(p*ps) + a*ps + b` -/
theorem kviewStep_decomp (p ps q a b : Nat) (hp : 0 < p) (hps : 0 < ps) (ha : a < p) (hb : b < ps) :
    kviewStep p ps (q * (p * ps) + a * ps + b) = q * (p * ps) + b * p + a := by
  have hB : 0 < p * ps := Nat.mul_pos hp hps
  have hlt : a * ps + b < p * ps := by
    have := pos_lt ps p b a hb ha
    rw [Nat.mul_comm ps a, Nat.mul_comm ps p] at this
    exact this
  have h1 : (q * (p * ps) + a * ps + b) % (p * ps) = a * ps + b := by
    have : (q * (p * ps) + a * ps + b) / (p * ps) = q ∧ (q * (p * ps) + a * ps + b) % (p * ps) = a * ps + b := by
      rw [Nat.div_mod_unique hB, Nat.mul_comm (p * ps) q]
      exact ⟨by omega, hlt⟩
    exact this.2
  have h2 : (q * (p * ps) + a * ps + b) / ps = q * p + a ∧ (q * (p * ps) + a * ps + b) % ps = b := by
    rw [Nat.div_mod_unique hps, Nat.mul_add, Nat.mul_comm ps (q * p), Nat.mul_assoc, Nat.mul_comm ps a]
    exact ⟨by omega, hb⟩
  have h3 : (q * p + a) % p = a := by
    rw [Nat.mul_comm, Nat.mul_add_mod, Nat.mod_eq_of_lt ha]
  unfold kviewStep
  rw [h1, h2.1, h2.2, h3]
  omega

theorem exists_decomp (p ps m : Nat) (hp : 0 < p) (hps : 0 < ps) :
    ∃ q a b, a < p ∧ b < ps ∧ m = q * (p * ps) + a * ps + b := by
  refine ⟨m / (p * ps), (m % (p * ps)) / ps, (m % (p * ps)) % ps, ?_, Nat.mod_lt _ hps, ?_⟩
  · have := Nat.mod_lt m (Nat.mul_pos hp hps)
    rw [Nat.mul_comm p ps] at this ⊢
    exact Nat.div_lt_of_lt_mul this
  · have h1 := Nat.div_add_mod m (p * ps)
    have h2 := Nat.div_add_mod (m % (p * ps)) ps
    rw [Nat.mul_comm] at h1 h2
    omega

/-- one round of the view with factors `(p, ps)` is undone by one round with factors `(ps, p)`:
    the round is a bijection of ℕ that maps every block of `p*ps` indices onto itself -/
theorem kviewStep_inverse (p ps m : Nat) (hp : 0 < p) (hps : 0 < ps) :
    kviewStep ps p (kviewStep p ps m) = m := by
  obtain ⟨q, a, b, ha, hb, hm⟩ := exists_decomp p ps m hp hps
  rw [hm, kviewStep_decomp p ps q a b hp hps ha hb, Nat.mul_comm p ps,
      kviewStep_decomp ps p q b a hps hp hb ha]

theorem kviewStep_block (p ps m : Nat) (hp : 0 < p) (hps : 0 < ps) :
    kviewStep p ps m / (p * ps) = m / (p * ps) := by
  obtain ⟨q, a, b, ha, hb, hm⟩ := exists_decomp p ps m hp hps
  have hB : 0 < p * ps := Nat.mul_pos hp hps
  rw [hm, kviewStep_decomp p ps q a b hp hps ha hb]
  have h1 : a * ps + b < p * ps := by
    have := pos_lt ps p b a hb ha
    rw [Nat.mul_comm ps a, Nat.mul_comm ps p] at this
    exact this
  have h2 : b * p + a < p * ps := pos_lt p ps a b ha hb |> fun h => by rw [Nat.mul_comm p b] at h; exact h
  have e1 : (q * (p * ps) + b * p + a) / (p * ps) = q ∧ (q * (p * ps) + b * p + a) % (p * ps) = b * p + a := by
    rw [Nat.div_mod_unique hB, Nat.mul_comm (p * ps) q]; exact ⟨by omega, h2⟩
  have e2 : (q * (p * ps) + a * ps + b) / (p * ps) = q ∧ (q * (p * ps) + a * ps + b) % (p * ps) = a * ps + b := by
    rw [Nat.div_mod_unique hB, Nat.mul_comm (p * ps) q]; exact ⟨by omega, h1⟩
  rw [e1.1, e2.1]



/-! ### the k-cyclic view: cycle walking (`do { … } while (m >= mt)`) -/


/-- `f` applied `k` times -/
def iter (f : Nat → Nat) : Nat → Nat → Nat
  | 0, x => x
  | k+1, x => iter f k (f x)

theorem iter_succ' (f : Nat → Nat) : ∀ (k x : Nat), iter f (k + 1) x = f (iter f k x) := by
  intro k
  induction k with
  | zero => intro x; rfl
  | succ k ih => intro x; rw [iter, ih (f x)]; rfl

theorem iter_add (f : Nat → Nat) : ∀ (a b x : Nat), iter f (a + b) x = iter f a (iter f b x) := by
  intro a
  induction a with
  | zero => intro b x; simp [iter]
  | succ a ih =>
    intro b x
    have : a + 1 + b = (a + b) + 1 := by omega
    rw [this, iter_succ', ih, iter_succ']

/-- a left inverse of `f` is a left inverse of its iterates -/
theorem iter_inv (f g : Nat → Nat) (hg : ∀ x, g (f x) = x) : ∀ (k x : Nat), iter g k (iter f k x) = x := by
  intro k
  induction k with
  | zero => intro x; rfl
  | succ k ih => intro x; rw [iter_succ' f, iter, hg, ih]

/-- pigeonhole: `n+1` values below `n` contain a repetition -/
theorem pigeon : ∀ (n : Nat) (g : Nat → Nat), (∀ i, i ≤ n → g i < n) → ∃ i j, i < j ∧ j ≤ n ∧ g i = g j := by
  intro n
  induction n with
  | zero => intro g h; have := h 0 (Nat.le_refl _); omega
  | succ n ih =>
    intro g h
    by_cases hex : ∃ i, i ≤ n ∧ g i = g (n + 1)
    · obtain ⟨i, hi, he⟩ := hex
      exact ⟨i, n + 1, by omega, Nat.le_refl _, he⟩
    · have hne : ∀ i, i ≤ n → g i ≠ g (n + 1) := fun i hi he => hex ⟨i, hi, he⟩
      have hv := h (n + 1) (Nat.le_refl _)
      obtain ⟨i, j, hij, hj, he⟩ := ih (fun i => if g (n + 1) < g i then g i - 1 else g i) (by
        intro i hi
        have h1 := h i (by omega)
        have h2 := hne i hi
        show (if g (n + 1) < g i then g i - 1 else g i) < n
        split <;> omega)
      have h1 := hne i (by omega)
      have h2 := hne j hj
      refine ⟨i, j, hij, by omega, ?_⟩
      split at he <;> split at he <;> omega

/-- the loop returns the first iterate (at least one round) that is below `mt` -/
theorem kviewLoop_spec (p ps mt : Nat) : ∀ (f m y : Nat), kviewLoop p ps mt f m = some y →
    ∃ k, 1 ≤ k ∧ k ≤ f ∧ iter (kviewStep p ps) k m = y ∧ y < mt ∧
      ∀ j, 1 ≤ j → j < k → ¬ iter (kviewStep p ps) j m < mt := by
  intro f
  induction f with
  | zero => intro m y h; simp [kviewLoop] at h
  | succ f ih =>
    intro m y h
    unfold kviewLoop at h
    split at h
    · rename_i hlt
      injection h with h
      exact ⟨1, Nat.le_refl _, by omega, by simpa [iter] using h, by omega, by intro j h1 h2; omega⟩
    · rename_i hge
      obtain ⟨k, hk1, hkf, hit, hy, hmin⟩ := ih (kviewStep p ps m) y h
      refine ⟨k + 1, by omega, by omega, by rw [iter]; exact hit, hy, ?_⟩
      intro j hj1 hjk
      cases j with
      | zero => omega
      | succ j =>
        rw [iter]
        cases j with
        | zero => simpa [iter] using hge
        | succ j => exact hmin (j + 1) (by omega) (by omega)

theorem kviewLoop_terminates (p ps mt : Nat) : ∀ (f m k : Nat), 1 ≤ k → k ≤ f →
    iter (kviewStep p ps) k m < mt → ∃ y, kviewLoop p ps mt f m = some y := by
  intro f
  induction f with
  | zero => intro m k h1 h2; omega
  | succ f ih =>
    intro m k hk1 hkf hlt
    unfold kviewLoop
    split
    · exact ⟨_, rfl⟩
    · rename_i hge
      cases k with
      | zero => omega
      | succ k =>
        cases k with
        | zero => exact absurd (by simpa [iter] using hlt) hge
        | succ k =>
          rw [iter] at hlt
          exact ih (kviewStep p ps m) (k + 1) (by omega) (by omega) hlt

theorem iter_block (p ps : Nat) (hp : 0 < p) (hps : 0 < ps) : ∀ (k m : Nat),
    iter (kviewStep p ps) k m / (p * ps) = m / (p * ps) := by
  intro k
  induction k with
  | zero => intro m; rfl
  | succ k ih => intro m; rw [iter, ih, kviewStep_block p ps m hp hps]

/-- every orbit of the round closes within `p*ps` rounds -/
theorem orbit_returns (p ps m : Nat) (hp : 0 < p) (hps : 0 < ps) :
    ∃ k, 1 ≤ k ∧ k ≤ p * ps ∧ iter (kviewStep p ps) k m = m := by
  have hB : 0 < p * ps := Nat.mul_pos hp hps
  obtain ⟨i, j, hij, hj, he⟩ := pigeon (p * ps) (fun i => iter (kviewStep p ps) i m % (p * ps))
    (fun i _ => Nat.mod_lt _ hB)
  have hval : iter (kviewStep p ps) i m = iter (kviewStep p ps) j m := by
    have h1 := Nat.div_add_mod (iter (kviewStep p ps) i m) (p * ps)
    have h2 := Nat.div_add_mod (iter (kviewStep p ps) j m) (p * ps)
    rw [iter_block p ps hp hps] at h1 h2
    omega
  have hj' : j = i + (j - i) := by omega
  rw [hj', iter_add] at hval
  have := congrArg (iter (kviewStep ps p) i) hval
  rw [iter_inv _ _ (fun x => kviewStep_inverse p ps x hp hps),
      iter_inv _ _ (fun x => kviewStep_inverse p ps x hp hps)] at this
  exact ⟨j - i, by omega, by omega, this.symm⟩

/-- **kview_compute terminates inside the window** -/
theorem kviewCompute_total (p ps mt m : Nat) (hp : 0 < p) (hps : 0 < ps) (hm : m < mt) :
    ∃ y, kviewCompute p ps mt m = some y ∧ y < mt := by
  obtain ⟨k, hk1, hkB, hret⟩ := orbit_returns p ps m hp hps
  obtain ⟨y, hy⟩ := kviewLoop_terminates p ps mt (p * ps + 1) m k hk1 (by omega) (by rw [hret]; exact hm)
  obtain ⟨_, _, _, _, hlt, _⟩ := kviewLoop_spec p ps mt _ _ _ hy
  exact ⟨y, hy, hlt⟩

/-- **kview_compute is injective on the window** -/
theorem kviewCompute_inj (p ps mt m1 m2 y : Nat) (hp : 0 < p) (hps : 0 < ps) (h1 : m1 < mt) (h2 : m2 < mt)
    (e1 : kviewCompute p ps mt m1 = some y) (e2 : kviewCompute p ps mt m2 = some y) : m1 = m2 := by
  obtain ⟨k1, hk1, _, hit1, _, hmin1⟩ := kviewLoop_spec p ps mt _ _ _ e1
  obtain ⟨k2, hk2, _, hit2, _, hmin2⟩ := kviewLoop_spec p ps mt _ _ _ e2
  have inv := fun x => kviewStep_inverse p ps x hp hps
  have key : ∀ (a b ka kb : Nat), a < mt → b < mt → 1 ≤ ka → ka ≤ kb →
      iter (kviewStep p ps) ka a = y → iter (kviewStep p ps) kb b = y →
      (∀ j, 1 ≤ j → j < kb → ¬ iter (kviewStep p ps) j b < mt) → a = b := by
    intro a b ka kb ha hb hka hle ia ib hminb
    have hkb : kb = ka + (kb - ka) := by omega
    rw [hkb, iter_add] at ib
    have := congrArg (iter (kviewStep ps p) ka) (ia.trans ib.symm)
    rw [iter_inv _ _ inv, iter_inv _ _ inv] at this
    by_cases hz : kb - ka = 0
    · rw [hz] at this; simpa [iter] using this
    · exfalso
      apply hminb (kb - ka) (by omega) (by omega)
      rw [← this]; exact ha
  rcases Nat.le_total k1 k2 with hle | hle
  · exact key m1 m2 k1 k2 h1 h2 hk1 hle hit1 hit2 hmin2
  · exact (key m2 m1 k2 k1 h2 h1 hk2 hle hit2 hit1 hmin1).symm



/-! ### symmetric UPPER: the init counts by rows, coord2pos by columns (double counting) -/


/-- `Σ_{x < X, x % M = ρ} g x` -/
def isum (M ρ : Nat) (g : Nat → Nat) : Nat → Nat
  | 0 => 0
  | X+1 => isum M ρ g X + (if X % M = ρ then g X else 0)

theorem mod_shift_ne (M x j : Nat) (h1 : 0 < j) (h2 : j < M) : (x + j) % M ≠ x % M := by
  intro h
  have d := Nat.dvd_of_mod_eq_zero (Nat.sub_mod_eq_zero_of_mod_eq h)
  have e : x + j - x = j := by omega
  rw [e] at d
  have := Nat.le_of_dvd h1 d
  omega

theorem isum_stretch (M ρ : Nat) (g : Nat → Nat) (x : Nat) (hx : x % M = ρ) :
    ∀ d, 1 ≤ d → d ≤ M → isum M ρ g (x + d) = isum M ρ g (x + 1) := by
  intro d
  induction d with
  | zero => intro h; omega
  | succ d ih =>
    intro _ h2
    cases d with
    | zero => rfl
    | succ d =>
      have := ih (by omega) (by omega)
      rw [← Nat.add_assoc, isum, this, if_neg]
      · omega
      · rw [← hx]; exact mod_shift_ne M x (d + 1) (by omega) (by omega)

theorem isum_mono (M ρ : Nat) (g : Nat → Nat) (X d : Nat) : isum M ρ g X ≤ isum M ρ g (X + d) := by
  induction d with
  | zero => exact Nat.le_refl _
  | succ d ih => rw [← Nat.add_assoc, isum]; omega

/-- number of indices below `X` with residue `r` -/
theorem isum_one (P r : Nat) (hP : 0 < P) (hr : r < P) : ∀ X, isum P r (fun _ => 1) X = cntBelow P r X := by
  intro X
  induction X with
  | zero => simp [isum, cntBelow]
  | succ X ih => rw [isum, ih, cntBelow_succ P r X hP hr]

/-- rows below `X` (residue `r` mod `P`) × columns in `[row, L')` (residue `c` mod `Q`) -/
def W (P Q r c L' : Nat) : Nat → Nat := isum P r (fun ρ => cntBelow Q c L' - cntBelow Q c ρ)
/-- columns below `X` × rows `≤` column -/
def Bs (P Q r c : Nat) : Nat → Nat := isum Q c (fun κ => cntBelow P r (κ + 1))

theorem W_succ_L (P Q r c L : Nat) (hP : 0 < P) (hr : r < P) (hQ : 0 < Q) (hc : c < Q) :
    ∀ X, X ≤ L → W P Q r c (L + 1) X = W P Q r c L X + (if L % Q = c then cntBelow P r X else 0) := by
  intro X
  induction X with
  | zero => intro _; simp [W, isum, cntBelow]
  | succ X ih =>
    intro hX
    have h := ih (by omega)
    unfold W at h ⊢
    rw [isum, isum, h]
    have hs := cntBelow_succ Q c L hQ hc
    have hm := cntBelow_le Q c X L hQ hc (by omega)
    have hp := cntBelow_succ P r X hP hr
    rw [hs, hp]
    split <;> split <;> omega

theorem W_eq_Bs (P Q r c : Nat) (hP : 0 < P) (hr : r < P) (hQ : 0 < Q) (hc : c < Q) :
    ∀ L, W P Q r c L L = Bs P Q r c L := by
  intro L
  induction L with
  | zero => simp [W, Bs, isum]
  | succ L ih =>
    have h1 := W_succ_L P Q r c L hP hr hQ hc L (Nat.le_refl _)
    have hs := cntBelow_succ Q c L hQ hc
    have hp := cntBelow_succ P r L hP hr
    unfold Bs at ih ⊢
    unfold W at h1 ih ⊢
    rw [isum, h1, ih, isum, hs, hp]
    split <;> split <;> omega

theorem upTotal_zero (P Q c L : Nat) : ∀ f row, L ≤ row → Sym.upTotal P Q c L L f row = 0 := by
  intro f row h
  cases f with
  | zero => rfl
  | succ f => unfold Sym.upTotal; rw [if_neg (by omega)]

theorem upTotal_eq (P Q r c L : Nat) (hP : 0 < P) (hQ : 0 < Q) (hc : c < Q) :
    ∀ f row, row % P = r → row ≤ L → L < row + f →
      Sym.upTotal P Q c L L f row = ((W P Q r c L L : Nat) : Int) - ((W P Q r c L row : Nat) : Int) := by
  intro f
  induction f with
  | zero => intro row _ h1 h2; omega
  | succ f ih =>
    intro row hres hle hf
    unfold Sym.upTotal
    by_cases hlt : row < L
    · rw [if_pos hlt]
      have hm := cntBelow_le Q c row L hQ hc (by omega)
      have e1 : W P Q r c L (row + 1) = W P Q r c L row + (cntBelow Q c L - cntBelow Q c row) := by
        unfold W; rw [isum, if_pos hres]
      have e2 : W P Q r c L (row + P) = W P Q r c L (row + 1) := by
        unfold W; exact isum_stretch P r _ row hres P (by omega) (Nat.le_refl _)
      by_cases hnext : row + P ≤ L
      · have hres' : (row + P) % P = r := by rw [Nat.add_mod_right]; exact hres
        rw [ih (row + P) hres' hnext (by omega)]
        omega
      · rw [upTotal_zero P Q c L f (row + P) (by omega)]
        have e3 : W P Q r c L L = W P Q r c L (row + 1) := by
          have := isum_stretch P r (fun ρ => cntBelow Q c L - cntBelow Q c ρ) row hres (L - row) (by omega) (by omega)
          rw [Nat.add_sub_cancel' (by omega)] at this
          unfold W; exact this
        omega
    · rw [if_neg hlt]
      have : row = L := by omega
      subst this; omega

theorem upSum_eq_Bs (P Q r c : Nat) (hQ : 0 < Q) : ∀ t col, col % Q = c →
    upSum P Q r t col + Bs P Q r c col = Bs P Q r c (col + t * Q) := by
  intro t
  induction t with
  | zero => intro col _; simp [upSum]
  | succ t ih =>
    intro col hcol
    have hcol' : (col + Q) % Q = c := by rw [Nat.add_mod_right]; exact hcol
    have h := ih (col + Q) hcol'
    have e1 : Bs P Q r c (col + 1) = Bs P Q r c col + cntBelow P r (col + 1) := by
      unfold Bs; rw [isum, if_pos hcol]
    have e2 : Bs P Q r c (col + Q) = Bs P Q r c (col + 1) := by
      unfold Bs; exact isum_stretch Q c _ col hcol Q (by omega) (Nat.le_refl _)
    have e3 : col + Q + t * Q = col + (t + 1) * Q := by rw [Nat.succ_mul]; omega
    rw [upSum, ← e3]
    omega


theorem isum_zero (M ρ : Nat) (g : Nat → Nat) (hρ : ρ < M) : ∀ X, X ≤ ρ → isum M ρ g X = 0 := by
  intro X
  induction X with
  | zero => intro _; rfl
  | succ X ih =>
    intro h
    rw [isum, ih (by omega), if_neg]
    rw [Nat.mod_eq_of_lt (by omega)]; omega

end ParsecVerif.Dist
