import ParsecVerif.Model.Dist
/-! Helper lemmas for C20 (block-cyclic index arithmetic). Core only. -/
namespace ParsecVerif.Dist

theorem mod_lt2 (a n : Nat) (h : a < 2 * n) : a % n = if a < n then a else a - n := by
  split
  · exact Nat.mod_eq_of_lt ‹_›
  · rw [Nat.mod_eq_sub_mod (by omega)]
    exact Nat.mod_eq_of_lt (by omega)

/-! ### one dimension: decomposition `g = q*(k*P) + a*k + d` -/

theorem rem_lt (k P g : Nat) (hk : 0 < k) (hP : 0 < P) : g % (k * P) < k * P :=
  Nat.mod_lt _ (Nat.mul_pos hk hP)

theorem a_lt (k P g : Nat) (hk : 0 < k) (hP : 0 < P) : (g % (k * P)) / k < P :=
  Nat.div_lt_of_lt_mul (rem_lt k P g hk hP)

theorem g_eq (k P g : Nat) :
    g = (g / (k * P)) * (k * P) + ((g % (k * P)) / k) * k + (g % (k * P)) % k := by
  have h1 := Nat.div_add_mod g (k * P)
  have h2 := Nat.div_add_mod (g % (k * P)) k
  rw [Nat.mul_comm] at h1 h2
  omega

theorem loc1_div (k P g : Nat) (hk : 0 < k) : loc1 k P g / k = g / (k * P) := by
  unfold loc1
  rw [Nat.mul_comm, Nat.mul_add_div hk, Nat.div_eq_of_lt (Nat.mod_lt _ hk)]
  omega

theorem loc1_mod (k P g : Nat) (_hk : 0 < k) : loc1 k P g % k = (g % (k * P)) % k := by
  unfold loc1
  rw [Nat.mul_comm, Nat.mul_add_mod, Nat.mod_mod]

/-- an index that passes the locality assertion of grid coordinate `r` is recovered from its local index -/
theorem glob1_loc1 (k P r g : Nat) (hk : 0 < k) (h : mine1 k P r g) :
    glob1 k P r (loc1 k P g) = g := by
  unfold glob1
  rw [loc1_div k P g hk, loc1_mod k P g hk]
  unfold mine1 at h
  have := g_eq k P g
  rw [h] at this
  omega

/-- the kcyclic locality assertion says `(g / k) % P = r` -/
theorem mine1_iff (k P r g : Nat) : mine1 k P r g ↔ (g / k) % P = r := by
  unfold mine1
  rw [Nat.mod_mul_right_div_self]

theorem glob1_div (k P r l : Nat) (hk : 0 < k) (hP : 0 < P) (hr : r < P) :
    glob1 k P r l / (k * P) = l / k ∧ glob1 k P r l % (k * P) = r * k + l % k := by
  have hS : 0 < k * P := Nat.mul_pos hk hP
  have hd : l % k < k := Nat.mod_lt _ hk
  have hlt : r * k + l % k < k * P := by
    have : (r + 1) * k ≤ P * k := Nat.mul_le_mul_right k hr
    rw [Nat.add_mul, Nat.mul_comm P k] at this
    omega
  rw [Nat.div_mod_unique hS]
  refine ⟨?_, hlt⟩
  unfold glob1
  rw [Nat.mul_comm (k * P) (l / k)]
  omega

theorem glob1_mine (k P r l : Nat) (hk : 0 < k) (hP : 0 < P) (hr : r < P) :
    mine1 k P r (glob1 k P r l) := by
  unfold mine1
  rw [(glob1_div k P r l hk hP hr).2]
  have hd : l % k < k := Nat.mod_lt _ hk
  rw [Nat.mul_comm r k, Nat.mul_add_div hk, Nat.div_eq_of_lt hd]
  omega

theorem loc1_glob1 (k P r l : Nat) (hk : 0 < k) (hP : 0 < P) (hr : r < P) :
    loc1 k P (glob1 k P r l) = l := by
  unfold loc1
  rw [(glob1_div k P r l hk hP hr).1, (glob1_div k P r l hk hP hr).2]
  rw [Nat.mul_comm r k, Nat.mul_add_mod, Nat.mod_mod]
  have := Nat.div_add_mod l k
  rw [Nat.mul_comm] at this
  omega

/-! ### the counting loop of parsec_matrix_block_cyclic_init -/

/-- every index `temp + s*step + d` (`d < k`) below `L` is counted: its local index `s*k + d`
    is below the loop's result -/
theorem cntLoop_bound (k step L : Nat) (hk : 0 < k) (hstep : k ≤ step) :
    ∀ (f temp s d : Nat), L < temp + f → d < k → temp + s * step + d < L →
      s * k + d < cntLoop k step L f temp := by
  intro f
  induction f with
  | zero => intro temp s d hf hd h; omega
  | succ f ih =>
    intro temp s d hf hd h
    have hs : s * step ≤ s * step := Nat.le_refl _
    have htl : temp < L := by omega
    unfold cntLoop
    rw [if_pos htl]
    cases s with
    | zero =>
      split
      · omega
      · omega
    | succ s =>
      have e1 : (s + 1) * step = s * step + step := Nat.succ_mul s step
      have e2 : (s + 1) * k = s * k + k := Nat.succ_mul s k
      split
      · have := ih (temp + step) s d (by omega) hd (by omega)
        omega
      · omega

/-- exactness: every local index below the loop's result is the local index of an index below `L` -/
theorem cntLoop_exact (k step L : Nat) (hk : 0 < k) :
    ∀ (f temp l : Nat), l < cntLoop k step L f temp → temp + (l / k) * step + l % k < L := by
  intro f
  induction f with
  | zero => intro temp l h; unfold cntLoop at h; omega
  | succ f ih =>
    intro temp l h
    unfold cntLoop at h
    split at h
    · split at h
      · by_cases hl : l < k
        · rw [Nat.div_eq_of_lt hl, Nat.mod_eq_of_lt hl]; omega
        · have hl' : l - k < cntLoop k step L f (temp + step) := by omega
          have := ih (temp + step) (l - k) hl'
          have e : l = (l - k) + k := by omega
          have e1 : l / k = (l - k) / k + 1 := by
            conv => lhs; rw [e]
            exact Nat.add_div_right _ hk
          have e2 : l % k = (l - k) % k := by
            conv => lhs; rw [e]
            exact Nat.add_mod_right _ _
          rw [e1, e2, Nat.succ_mul]
          omega
      · have hl : l < k := by omega
        rw [Nat.div_eq_of_lt hl, Nat.mod_eq_of_lt hl]; omega
    · omega

theorem loc1_lt_nbElem (k P L r g : Nat) (hk : 0 < k) (hP : 0 < P)
    (hmine : mine1 k P r g) (hg : g < L) : loc1 k P g < nbElem k P L r := by
  unfold nbElem loc1
  have hstep : k ≤ P * k := Nat.le_mul_of_pos_left k hP
  have hd : (g % (k * P)) % k < k := Nat.mod_lt _ hk
  apply cntLoop_bound k (P * k) L hk hstep (L + 1) (r * k) (g / (k * P)) ((g % (k * P)) % k) (by omega) hd
  have := g_eq k P g
  unfold mine1 at hmine
  rw [hmine, Nat.mul_comm k P] at this
  rw [Nat.mul_comm k P]
  omega

theorem glob1_lt (k P L r l : Nat) (hk : 0 < k) (h : l < nbElem k P L r) : glob1 k P r l < L := by
  unfold nbElem at h
  have := cntLoop_exact k (P * k) L hk (L + 1) (r * k) l h
  unfold glob1
  rw [Nat.mul_comm k P]
  omega

/-! ### grid coordinates and owners -/

theorem shift_iff (P ip a pr : Nat) (ha : a < P) (hip : ip < P) (hpr : pr < P) :
    (a + ip) % P = pr ↔ a = (pr + (P - ip)) % P := by
  rw [mod_lt2 (a + ip) P (by omega), mod_lt2 (pr + (P - ip)) P (by omega)]
  split <;> split <;> omega

theorem own1_lt (k P ip g : Nat) (hP : 0 < P) : own1 k P ip g < P := Nat.mod_lt _ hP

/-- the owner coordinate is `pr` iff the index passes the locality assertion of the process whose
    shifted coordinate is `(pr + (P - ip)) % P` -/
theorem own1_eq_iff (k P ip g pr : Nat) (hP : 0 < P) (hip : ip < P) (hpr : pr < P) :
    own1 k P ip g = pr ↔ mine1 k P ((pr + (P - ip)) % P) g := by
  rw [mine1_iff]
  unfold own1
  exact shift_iff P ip _ pr (Nat.mod_lt _ hP) hip hpr

theorem rank_split (Q rank rr cr : Nat) (hQ : 0 < Q) (hcr : cr < Q) :
    rr * Q + cr = rank ↔ rank / Q = rr ∧ rank % Q = cr := by
  rw [Nat.div_mod_unique hQ, Nat.mul_comm Q rr]
  constructor
  · intro h; exact ⟨by omega, hcr⟩
  · intro h; omega

theorem pair_lt (P Q rr cr : Nat) (hrr : rr < P) (hcr : cr < Q) : rr * Q + cr < P * Q := by
  have : (rr + 1) * Q ≤ P * Q := Nat.mul_le_mul_right Q hrr
  rw [Nat.add_mul] at this
  omega

theorem rank_div_lt (P Q rank : Nat) (h : rank < P * Q) : rank / Q < P := by
  rw [Nat.mul_comm] at h
  exact Nat.div_lt_of_lt_mul h

/-! ### plain accessors = kcyclic accessors with k = 1 -/

theorem own1_one (P ip g : Nat) : own1 1 P ip g = own1p P ip g := by
  unfold own1 own1p; rw [Nat.div_one]

theorem loc1_one (P g : Nat) : loc1 1 P g = loc1p P g := by
  unfold loc1 loc1p; rw [Nat.one_mul, Nat.mul_one, Nat.mod_one, Nat.add_zero]

theorem mine1_one (P r g : Nat) : mine1 1 P r g ↔ mine1p P r g := by
  unfold mine1 mine1p; rw [Nat.one_mul, Nat.div_one]

namespace BC
theorem rowOwner_eq (b : BC) (m : Nat) : b.rowOwner m = own1 b.g.kp b.g.P b.g.ip (b.gm m) := by
  unfold rowOwner; split
  · rename_i h; rw [h.1, own1_one]
  · rfl
theorem colOwner_eq (b : BC) (n : Nat) : b.colOwner n = own1 b.g.kq b.g.Q b.g.jq (b.gn n) := by
  unfold colOwner; split
  · rename_i h; rw [h.2, own1_one]
  · rfl
theorem localM_eq (b : BC) (m : Nat) : b.localM m = loc1 b.g.kp b.g.P (b.gm m) := by
  unfold localM; split
  · rename_i h; rw [h.1, loc1_one]
  · rfl
theorem localN_eq (b : BC) (n : Nat) : b.localN n = loc1 b.g.kq b.g.Q (b.gn n) := by
  unfold localN; split
  · rename_i h; rw [h.2, loc1_one]
  · rfl
theorem isLocal_iff (b : BC) (rank m n : Nat) :
    b.isLocal rank m n ↔ mine1 b.g.kp b.g.P (b.g.rrank rank) (b.gm m) ∧ mine1 b.g.kq b.g.Q (b.g.crank rank) (b.gn n) := by
  unfold isLocal; split
  · rename_i h; rw [h.1, h.2, mine1_one, mine1_one]
  · exact Iff.rfl
end BC

/-! ### two dimensions -/

theorem pos_inj (R a b a' b' : Nat) (ha : a < R) (ha' : a' < R) (h : R * b + a = R * b' + a') :
    a = a' ∧ b = b' := by
  have hR : 0 < R := by omega
  have h1 := congrArg (· / R) h
  have h2 := congrArg (· % R) h
  simp only [Nat.mul_add_div hR, Nat.mul_add_mod, Nat.div_eq_of_lt ha, Nat.div_eq_of_lt ha',
    Nat.mod_eq_of_lt ha, Nat.mod_eq_of_lt ha'] at h1 h2
  omega

theorem pos_lt (R C a b : Nat) (ha : a < R) (hb : b < C) : R * b + a < R * C := by
  have : R * (b + 1) ≤ R * C := Nat.mul_le_mul_left R hb
  rw [Nat.mul_add] at this
  omega

/-! ### tiled matrix sizes and keys -/

theorem lt_ceilDiv (x lm mb : Nat) (hmb : 0 < mb) (h : x < lm) : x / mb < ceilDiv lm mb := by
  unfold ceilDiv
  rw [Nat.div_lt_iff_lt_mul hmb]
  split
  · rename_i h0
    have := Nat.div_add_mod lm mb
    rw [h0, Nat.mul_comm] at this
    omega
  · have := Nat.lt_mul_div_succ lm hmb
    rw [Nat.mul_comm] at this
    omega

namespace TM
/-- the API precondition of the init functions used by every theorem -/
structure WF (t : TM) : Prop where
  mb : 0 < t.mb
  nb : 0 < t.nb
  m : 0 < t.m
  n : 0 < t.n
  im : t.i + t.m ≤ t.lm
  jn : t.j + t.n ≤ t.ln

theorem gm_lt (t : TM) (h : t.WF) (m : Nat) (hm : m < t.mt) : m + t.oi < t.lmt := by
  unfold mt at hm
  unfold oi lmt
  have h1 : t.i / t.mb ≤ (t.i + t.m - 1) / t.mb := Nat.div_le_div_right (by have := h.m; omega)
  have h2 : (t.i + t.m - 1) / t.mb < ceilDiv t.lm t.mb :=
    lt_ceilDiv _ _ _ h.mb (by have := h.m; have := h.im; omega)
  omega

theorem gn_lt (t : TM) (h : t.WF) (n : Nat) (hn : n < t.nt) : n + t.oj < t.lnt := by
  unfold nt at hn
  unfold oj lnt
  have h1 : t.j / t.nb ≤ (t.j + t.n - 1) / t.nb := Nat.div_le_div_right (by have := h.n; omega)
  have h2 : (t.j + t.n - 1) / t.nb < ceilDiv t.ln t.nb :=
    lt_ceilDiv _ _ _ h.nb (by have := h.n; have := h.jn; omega)
  omega

theorem key_mod (t : TM) (m n : Nat) (h : m + t.oi < t.lmt) : t.key m n % t.lmt = m + t.oi := by
  unfold key
  rw [Nat.mul_comm, Nat.mul_add_mod, Nat.mod_eq_of_lt h]

theorem key_div (t : TM) (m n : Nat) (h : m + t.oi < t.lmt) : t.key m n / t.lmt = n + t.oj := by
  unfold key
  rw [Nat.mul_comm, Nat.mul_add_div (by omega), Nat.div_eq_of_lt h, Nat.add_zero]
end TM

/-! ### the virtual-process grid -/

theorem csqrtLoop_bounds (n : Nat) (hn : 1 ≤ n) :
    ∀ (f q : Nat), q ≤ n → q ≤ csqrtLoop n f q ∧ csqrtLoop n f q ≤ n := by
  intro f
  induction f with
  | zero => intro q hq; unfold csqrtLoop; omega
  | succ f ih =>
    intro q hq
    unfold csqrtLoop
    split
    · omega
    · rename_i hlt
      have hq' : q + 1 ≤ n := by
        by_cases hqn : q = n
        · exfalso
          apply hlt
          subst hqn
          exact Nat.le_mul_of_pos_left q hn
        · omega
      have := ih (q + 1) hq'
      omega

theorem csqrt_bounds (n : Nat) (hn : 1 ≤ n) : 1 ≤ csqrt n ∧ csqrt n ≤ n := by
  unfold csqrt
  have h0 : csqrtLoop n (n + 1) 0 = csqrtLoop n n 1 := by
    conv => lhs; unfold csqrtLoop
    rw [if_neg (by omega)]
  rw [h0]
  have := csqrtLoop_bounds n hn n 1 hn
  omega

theorem vpqLoop_spec (pq : Nat) :
    ∀ (f q : Nat), 1 ≤ q → q ≤ pq → pq < q + f →
      (pq / vpqLoop pq f q) * vpqLoop pq f q = pq ∧ 1 ≤ vpqLoop pq f q := by
  intro f
  induction f with
  | zero => intro q h1 h2 h3; omega
  | succ f ih =>
    intro q h1 h2 h3
    unfold vpqLoop
    split
    · rename_i h; exact ⟨h, h1⟩
    · rename_i h
      have hq : q < pq := by
        by_cases hq : q = pq
        · exfalso; apply h; subst hq; rw [Nat.div_self (by omega), Nat.one_mul]
        · omega
      exact ih (q + 1) (by omega) (by omega) (by omega)

theorem vpP_mul_vpQ (pq : Nat) (h : 1 ≤ pq) : vpP pq * vpQ pq = pq ∧ 1 ≤ vpQ pq := by
  unfold vpP vpQ
  have hs := csqrt_bounds pq h
  exact vpqLoop_spec pq (pq + 1) (csqrt pq) hs.1 hs.2 (by omega)

theorem vpidOf_lt (nbvp lm ln : Nat) (h : 1 ≤ nbvp) : vpidOf nbvp lm ln < nbvp := by
  unfold vpidOf
  split
  · omega
  · have hpq := vpP_mul_vpQ nbvp h
    have hp : 0 < vpP nbvp := by
      rcases Nat.eq_zero_or_pos (vpP nbvp) with h0 | h0
      · rw [h0, Nat.zero_mul] at hpq; omega
      · exact h0
    have h1 : ln % vpQ nbvp < vpQ nbvp := Nat.mod_lt _ (by omega)
    have h2 : lm % vpP nbvp < vpP nbvp := Nat.mod_lt _ hp
    have h3 := pair_lt (vpQ nbvp) (vpP nbvp) _ _ h1 h2
    rw [Nat.mul_comm (vpQ nbvp)] at h3
    omega

end ParsecVerif.Dist
