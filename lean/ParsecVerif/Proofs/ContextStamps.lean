import ParsecVerif.Proofs.ContextInv4
/-!
  Stamp invariant of the context machine: what the recorded stamps of a taskpool say in each of its
  states (callback once, after the last task end, decrement after the callback, ...), and the two
  "wait" facts: every recorded return of parsec_context_wait is later than the decrement of every
  taskpool added before it; every recorded return of parsec_taskpool_wait(p) is later than p's decrement.
-/
namespace ParsecVerif.Context

def tpOK (clk : Nat) (tp : Tp) : Prop :=
  tp.addAt < clk ∧ tp.firstBegin < clk ∧ tp.lastEnd < clk ∧ tp.cbAt < clk ∧ tp.decAt < clk ∧ tp.cbs ≤ 1 ∧
  (tp.early = true → tp.total = 0) ∧
  (tp.firstBegin ≠ 0 → tp.addAt ≠ 0 ∧ tp.addAt < tp.firstBegin) ∧
  (tp.lastEnd ≠ 0 → tp.firstBegin ≠ 0 ∧ tp.firstBegin < tp.lastEnd) ∧
  (tp.started = 0 ↔ tp.firstBegin = 0) ∧ (tp.ended = 0 ↔ tp.lastEnd = 0) ∧
  match tp.st with
  | .notAdded => tp.addAt = 0 ∧ tp.cbs = 0 ∧ tp.cbAt = 0 ∧ tp.decAt = 0 ∧ tp.started = 0 ∧ tp.ended = 0
  | .adding => tp.addAt = 0 ∧ tp.cbs = 0 ∧ tp.cbAt = 0 ∧ tp.decAt = 0 ∧ tp.started = 0 ∧ tp.ended = 0
  | .earlyCb => tp.early = true ∧ tp.addAt = 0 ∧ tp.cbs = 1 ∧ tp.cbAt ≠ 0 ∧ tp.decAt = 0 ∧ tp.started = 0 ∧ tp.ended = 0
  | .earlyDec => tp.early = true ∧ tp.addAt = 0 ∧ tp.cbs = 1 ∧ tp.cbAt ≠ 0 ∧ tp.cbAt < tp.decAt ∧ tp.started = 0 ∧ tp.ended = 0
  | .added => tp.early = false ∧ tp.addAt ≠ 0 ∧ tp.cbs = 0 ∧ tp.cbAt = 0 ∧ tp.decAt = 0
  | .inCb => tp.early = false ∧ tp.addAt ≠ 0 ∧ tp.cbs = 1 ∧ tp.addAt < tp.cbAt ∧ tp.lastEnd < tp.cbAt ∧ tp.decAt = 0 ∧
             tp.ended = tp.total ∧ tp.started = tp.total
  | .inCbN => tp.early = false ∧ tp.addAt ≠ 0 ∧ tp.cbs = 1 ∧ tp.addAt < tp.cbAt ∧ tp.lastEnd < tp.cbAt ∧ tp.decAt = 0 ∧
             tp.ended = tp.total ∧ tp.started = tp.total
  | .done => tp.cbs = 1 ∧ tp.cbAt ≠ 0 ∧ tp.cbAt < tp.decAt ∧ tp.lastEnd < tp.cbAt ∧ tp.ended = tp.total ∧ tp.started = tp.total ∧
             (tp.early = false → tp.addAt ≠ 0 ∧ tp.addAt < tp.cbAt) ∧
             (tp.early = true → tp.addAt = 0 ∨ tp.decAt < tp.addAt)

structure SInv (s : St) : Prop where
  clk : 1 ≤ s.clock
  tpok : ∀ tp ∈ s.tps, tpOK s.clock tp
  wr : ∀ r ∈ s.waitRets, r < s.clock ∧ ∀ tp ∈ s.tps, tp.addAt ≠ 0 → tp.addAt < r → tp.decAt ≠ 0 ∧ tp.decAt < r
  tw : ∀ pr ∈ s.tpWaitRets, pr.2 < s.clock ∧ ∃ tp : Tp, s.tps[pr.1]? = some tp ∧ tp.st = .done ∧ tp.decAt < pr.2
  ee : s.epochEnd < s.clock

theorem tpOK_mono {c c' : Nat} {tp : Tp} (h : tpOK c tp) (hc : c ≤ c') : tpOK c' tp := by
  unfold tpOK at *
  obtain ⟨h1, h2, h3, h4, h5, h6⟩ := h
  exact ⟨by omega, by omega, by omega, by omega, by omega, h6⟩

theorem sinv_init (k : Nat) (tps : List Tp) (hf : ∀ tp ∈ tps, tp.fresh) : SInv (init k tps) := by
  refine ⟨by simp [init], ?_, by simp [init], by simp [init], by simp [init]⟩
  intro tp hm
  obtain ⟨h1, h2, h3, h4, h5, h6, h7, h8, h9, _, h11⟩ := hf tp hm
  simp only [init] at hm ⊢
  unfold tpOK
  rw [h1]
  simp only [h2, h3, h4, h5, h6, h7, h8, h9]
  refine ⟨by omega, by omega, by omega, by omega, by omega, by omega, fun e => (h11.1 e).1, ?_⟩
  simp

/-- a step that does not touch taskpools and records no return -/
theorem sinv_frame {s s' : St} (h : SInv s) (hc : s'.clock = s.clock + 1) (ht : s'.tps = s.tps)
    (hw : s'.waitRets = s.waitRets) (htw : s'.tpWaitRets = s.tpWaitRets)
    (he : s'.epochEnd = s.epochEnd ∨ s'.epochEnd = s.clock) : SInv s' := by
  refine ⟨by have := h.clk; omega, ?_, ?_, ?_, ?_⟩
  · rw [ht, hc]; intro tp hm; exact tpOK_mono (h.tpok tp hm) (by omega)
  · rw [hw, ht, hc]; intro r hr; obtain ⟨h1, h2⟩ := h.wr r hr; exact ⟨by omega, h2⟩
  · rw [htw, ht, hc]; intro pr hpr; obtain ⟨h1, h2⟩ := h.tw pr hpr; exact ⟨by omega, h2⟩
  · have := h.ee; rcases he with e | e <;> omega

/-- a step that rewrites one taskpool descriptor -/
theorem sinv_tpset {s s' : St} {p : Nat} {tp tp' : Tp} (h : SInv s) (htp : s.tps[p]? = some tp)
    (hc : s'.clock = s.clock + 1) (ht : s'.tps = s.tps.set p tp')
    (hw : s'.waitRets = s.waitRets) (htw : s'.tpWaitRets = s.tpWaitRets) (he : s'.epochEnd = s.epochEnd)
    (hok : tpOK (s.clock + 1) tp')
    (hwr : ∀ r, r < s.clock → (tp.addAt ≠ 0 → tp.addAt < r → tp.decAt ≠ 0 ∧ tp.decAt < r) →
                 (tp'.addAt ≠ 0 → tp'.addAt < r → tp'.decAt ≠ 0 ∧ tp'.decAt < r))
    (hdone : tp.st = .done → tp'.st = .done ∧ tp'.decAt = tp.decAt) : SInv s' := by
  have hmem : tp ∈ s.tps := List.mem_of_getElem? htp
  obtain ⟨hpl, _⟩ := List.getElem?_eq_some_iff.1 htp
  have hin : ∀ x ∈ s.tps.set p tp', x = tp' ∨ x ∈ s.tps := by
    intro x hx
    rcases List.mem_or_eq_of_mem_set hx with hx | hx
    · exact Or.inr hx
    · exact Or.inl hx
  refine ⟨by have := h.clk; omega, ?_, ?_, ?_, by have := h.ee; omega⟩
  · rw [ht, hc]; intro x hx
    rcases hin x hx with rfl | hx
    · exact hok
    · exact tpOK_mono (h.tpok x hx) (by omega)
  · rw [hw, ht, hc]; intro r hr
    obtain ⟨h1, h2⟩ := h.wr r hr
    refine ⟨by omega, ?_⟩
    intro x hx
    rcases hin x hx with rfl | hx
    · exact hwr r h1 (h2 tp hmem)
    · exact h2 x hx
  · rw [htw, ht, hc]; intro pr hpr
    obtain ⟨h1, x, hx, hxs, hxd⟩ := h.tw pr hpr
    refine ⟨by omega, ?_⟩
    by_cases hpp : p = pr.1
    · rw [← hpp] at hx ⊢
      rw [htp] at hx; cases hx
      obtain ⟨e1, e2⟩ := hdone hxs
      exact ⟨tp', List.getElem?_set_self hpl, e1, by omega⟩
    · exact ⟨x, by rw [List.getElem?_set_ne hpp]; exact hx, hxs, hxd⟩

end ParsecVerif.Context
