/-
  Thread memory pools (Model/Arena.lean, namespace Pool): invariant of every operation sequence.
-/
import ParsecVerif.Proofs.Arena

namespace ParsecVerif.Arena.Pool
open ParsecVerif.Arena

def lsum {α : Type} (f : α → Nat) (l : List α) : Nat := (l.map f).sum

@[simp] theorem lsum_nil {α : Type} (f : α → Nat) : lsum f [] = 0 := rfl
@[simp] theorem lsum_cons {α : Type} (f : α → Nat) (a : α) (l : List α) : lsum f (a :: l) = f a + lsum f l := by simp [lsum]

theorem lsum_set {α : Type} (f : α → Nat) (l : List α) (t : Nat) (a y : α) (h : l[t]? = some a) :
    lsum f (l.set t y) + f a = lsum f l + f y := by
  induction l generalizing t with
  | nil => simp at h
  | cons b l ih =>
    cases t with
    | zero => simp at h; subst h; simp; omega
    | succ k =>
      simp at h
      have := ih k h
      simp; omega

theorem lsum_eraseIdx {α : Type} (f : α → Nat) (l : List α) (k : Nat) (a : α) (h : l[k]? = some a) :
    lsum f (l.eraseIdx k) + f a = lsum f l := by
  induction l generalizing k with
  | nil => simp at h
  | cons b l ih =>
    cases k with
    | zero => simp at h; subst h; simp; omega
    | succ k =>
      simp at h
      have := ih k h
      simp [List.eraseIdx_cons_succ]; omega

theorem lsum_mem_le {α : Type} (f : α → Nat) (l : List α) (a : α) (h : a ∈ l) : f a ≤ lsum f l := by
  induction l with
  | nil => simp at h
  | cons b l ih =>
    simp at h
    rcases h with h | h
    · subst h; simp
    · have := ih h; simp; omega

theorem lsum_replicate_zero {α : Type} (f : α → Nat) (a : α) (h : f a = 0) (n : Nat) : lsum f (List.replicate n a) = 0 := by
  induction n with
  | zero => rfl
  | succ n ih => simp [List.replicate_succ, h, ih]

def eid (x : Nat) (e : Elt) : Nat := indId x e.id

/-- number of places (pools and the callers' hands) where element `x` is -/
def places (x : Nat) (s : PState) : Nat := lsum (fun p => lsum (eid x) p) s.pools + lsum (eid x) s.out

structure PInv (s : PState) : Prop where
  uniq : ∀ x, places x s ≤ 1
  fresh : ∀ x, s.next ≤ x → places x s = 0
  poolOwner : ∀ (t : Nat) (p : List Elt), s.pools[t]? = some p → ∀ e ∈ p, e.owner = t
  outOwner : ∀ e ∈ s.out, e.owner < s.pools.length

theorem PInv.init (n : Nat) : PInv (pinit n) := by
  refine ⟨fun x => ?_, fun x _ => ?_, fun t p hp e he => ?_, fun e he => ?_⟩
  · have z := lsum_replicate_zero (fun p => lsum (eid x) p) ([] : List Elt) rfl n
    simp [places, pinit, z]
  · have z := lsum_replicate_zero (fun p => lsum (eid x) p) ([] : List Elt) rfl n
    simp [places, pinit, z]
  · simp only [pinit] at hp
    rcases List.getElem?_eq_some_iff.1 hp with ⟨_, h2⟩
    simp at h2; subst h2; simp at he
  · simp [pinit] at he

theorem PInv.step {s : PState} (h : PInv s) (op : POp) : PInv (pstep s op).1 := by
  cases op with
  | alloc t =>
    simp only [pstep]
    cases hp : s.pools[t]? with
    | none => exact h
    | some p =>
      cases p with
      | nil =>
        simp only []
        have hz : ∀ x, places x { s with nbElt := s.nbElt.set t (s.nbElt.getD t 0 + 1), out := ⟨s.next, t⟩ :: s.out, next := s.next + 1 }
            = places x s + indId x s.next := by
          intro x; simp [places, eid]; omega
        refine ⟨fun x => ?_, fun x hx => ?_, fun t' p' hp' e he => h.poolOwner t' p' hp' e he, fun e he => ?_⟩
        · rw [hz]
          by_cases hx : s.next = x
          · have := h.fresh x (by omega); have := indId_le_one x s.next; omega
          · have := indId_ne (x := x) (y := s.next) hx; have := h.uniq x; omega
        · rw [hz]
          have := h.fresh x (by simp at hx; omega)
          have := indId_ne (x := x) (y := s.next) (by simp at hx; omega)
          omega
        · simp at he
          rcases he with he | he
          · subst he
            rcases List.getElem?_eq_some_iff.1 hp with ⟨h1, _⟩
            exact h1
          · exact h.outOwner e he
      | cons e rest =>
        simp only []
        have hz : ∀ x, places x { s with pools := s.pools.set t rest, out := e :: s.out } = places x s := by
          intro x
          have := lsum_set (fun p => lsum (eid x) p) s.pools t (e :: rest) rest hp
          simp [places] at this ⊢; omega
        refine ⟨fun x => by rw [hz]; exact h.uniq x, fun x hx => by rw [hz]; exact h.fresh x hx, fun t' p' hp' e' he' => ?_, fun e' he' => ?_⟩
        · by_cases htt : t = t'
          · subst htt
            rcases List.getElem?_eq_some_iff.1 hp with ⟨h1, _⟩
            simp [h1] at hp'
            subst hp'
            exact h.poolOwner t (e :: rest) hp e' (List.mem_cons_of_mem _ he')
          · simp [List.getElem?_set_ne htt] at hp'
            exact h.poolOwner t' p' hp' e' he'
        · simp at he' ⊢
          rcases he' with he' | he'
          · subst he'
            have := h.poolOwner t (e' :: rest) hp e' (List.mem_cons_self ..)
            rcases List.getElem?_eq_some_iff.1 hp with ⟨h1, _⟩
            omega
          · exact h.outOwner e' he'
  | free id =>
    simp only [pstep]
    cases hf : s.out.findIdx? (fun e => e.id == id) with
    | none => exact h
    | some i =>
      simp only []
      cases hi : s.out[i]? with
      | none => exact h
      | some e =>
        simp only []
        have hmem : e ∈ s.out := List.mem_of_getElem? hi
        have hown := h.outOwner e hmem
        have hpo : s.pools[e.owner]? = some (s.pools.getD e.owner []) := by
          simp [List.getD, hown]
        have hz : ∀ x, places x { s with pools := s.pools.set e.owner (e :: s.pools.getD e.owner []), out := s.out.eraseIdx i } = places x s := by
          intro x
          have h1 := lsum_set (fun p => lsum (eid x) p) s.pools e.owner _ (e :: s.pools.getD e.owner []) hpo
          have h2 := lsum_eraseIdx (eid x) s.out i e hi
          simp [places] at h1 ⊢; omega
        refine ⟨fun x => by rw [hz]; exact h.uniq x, fun x hx => by rw [hz]; exact h.fresh x hx, fun t' p' hp' e' he' => ?_, fun e' he' => ?_⟩
        · by_cases htt : e.owner = t'
          · subst htt
            have hq : (s.pools.set e.owner (e :: s.pools.getD e.owner []))[e.owner]? = some (e :: s.pools.getD e.owner []) := by
              simp [hown]
            rw [hq] at hp'
            have hp'' := Option.some.inj hp'
            subst hp''
            rcases List.mem_cons.1 he' with he' | he'
            · rw [he']
            · exact h.poolOwner e.owner _ hpo e' he'
          · simp [List.getElem?_set_ne htt] at hp'
            exact h.poolOwner t' p' hp' e' he'
        · simp only [List.length_set]
          exact h.outOwner e' (List.mem_of_mem_eraseIdx he')

theorem PInv.run (n : Nat) (ops : List POp) : PInv (prun (pinit n) ops) := by
  unfold prun
  have : ∀ (l : List POp) (s : PState), PInv s → PInv (l.foldl (fun s o => (pstep s o).1) s) := by
    intro l
    induction l with
    | nil => intro s h; exact h
    | cons o r ih => intro s h; exact ih _ (h.step o)
  exact this ops _ (PInv.init n)

/-- what an allocation returns is in nobody's hands, and belongs to the allocating thread's pool -/
theorem alloc_spec {s : PState} (h : PInv s) (t : Nat) (e : Elt) (fresh : Bool)
    (hr : (pstep s (.alloc t)).2 = .got e fresh) :
    lsum (eid e.id) s.out = 0 ∧ e.owner = t ∧ e ∈ (pstep s (.alloc t)).1.out := by
  simp only [pstep] at hr ⊢
  cases hp : s.pools[t]? with
  | none => simp [hp] at hr
  | some p =>
    cases p with
    | nil =>
      simp [hp] at hr ⊢
      rcases hr with ⟨hr, _⟩
      subst hr
      have := h.fresh s.next (Nat.le_refl _)
      simp [places] at this
      exact ⟨this.2, rfl, Or.inl rfl⟩
    | cons a rest =>
      simp [hp] at hr ⊢
      rcases hr with ⟨hr, _⟩
      subst hr
      have h1 := h.uniq a.id
      have h2 := lsum_mem_le (fun p => lsum (eid a.id) p) s.pools (a :: rest) (List.mem_of_getElem? hp)
      have h3 : eid a.id a = 1 := indId_self _
      simp [places] at h1 h2
      exact ⟨by omega, h.poolOwner t _ hp a (List.mem_cons_self ..), Or.inl rfl⟩

end ParsecVerif.Arena.Pool
