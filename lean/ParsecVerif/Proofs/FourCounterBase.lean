import ParsecVerif.Model.FourCounter
/-
  Generic lemmas for the four-counter proofs: pointwise updates, finite sums, counting packets,
  the binary-tree arithmetic and the packets produced by `downs`.
-/
namespace ParsecVerif.FourCounter

@[simp] theorem upd_same {α} (f : Nat → α) (p : Nat) (v : α) : upd f p v p = v := by simp [upd]
@[simp] theorem upd_ne {α} (f : Nat → α) (p q : Nat) (v : α) (h : q ≠ p) : upd f p v q = f q := by
  simp [upd, h]

/-! ### sums -/

theorem sumTo_congr {n : Nat} {f g : Nat → Nat} (h : ∀ q, q < n → f q = g q) : sumTo n f = sumTo n g := by
  induction n with
  | zero => rfl
  | succ k ih =>
    simp only [sumTo]
    rw [ih (fun q hq => h q (by omega)), h k (by omega)]

theorem sumTo_mono {n : Nat} {f g : Nat → Nat} (h : ∀ q, q < n → f q ≤ g q) : sumTo n f ≤ sumTo n g := by
  induction n with
  | zero => simp [sumTo]
  | succ k ih =>
    simp only [sumTo]
    have := ih (fun q hq => h q (by omega))
    have := h k (by omega)
    omega

theorem sumTo_zero {n : Nat} {f : Nat → Nat} (h : ∀ q, q < n → f q = 0) : sumTo n f = 0 := by
  induction n with
  | zero => rfl
  | succ k ih =>
    simp only [sumTo]
    rw [ih (fun q hq => h q (by omega)), h k (by omega)]

theorem sumTo_add (n : Nat) (f g : Nat → Nat) : sumTo n (fun q => f q + g q) = sumTo n f + sumTo n g := by
  induction n with
  | zero => rfl
  | succ k ih => simp only [sumTo]; omega

/-- changing one summand -/
theorem sumTo_change {n p : Nat} {f g : Nat → Nat} (hp : p < n) (h : ∀ q, q < n → q ≠ p → g q = f q) :
    sumTo n g + f p = sumTo n f + g p := by
  induction n with
  | zero => omega
  | succ k ih =>
    simp only [sumTo]
    by_cases hk : p = k
    · subst hk
      have : sumTo p g = sumTo p f := sumTo_congr (fun q hq => h q (by omega) (by omega))
      omega
    · have := ih (by omega) (fun q hq hne => h q (by omega) hne)
      have := h k (by omega) (fun e => hk e.symm)
      omega

/-- changing two summands -/
theorem sumTo_change2 {n p r : Nat} {f g : Nat → Nat} (hp : p < n) (hr : r < n) (hpr : p ≠ r)
    (h : ∀ q, q < n → q ≠ p → q ≠ r → g q = f q) :
    sumTo n g + f p + f r = sumTo n f + g p + g r := by
  have h1 := sumTo_change (f := f) (g := fun q => if q = p then g p else f q) hp
    (fun q _ hne => by simp [hne])
  have h2 := sumTo_change (f := fun q => if q = p then g p else f q) (g := g) hr
    (fun q hq hne => by
      by_cases hqp : q = p
      · simp [hqp]
      · simp [hqp, h q hq hqp hne])
  simp only [if_true, if_neg (Ne.symm hpr)] at h1 h2
  omega

theorem sumTo_single {n p : Nat} {f : Nat → Nat} (hp : p < n) (h : ∀ q, q < n → q ≠ p → f q = 0) :
    sumTo n f = f p := by
  have := sumTo_change (f := fun _ => 0) (g := f) hp (fun q hq hne => h q hq hne)
  have hz : sumTo n (fun _ => 0) = 0 := sumTo_zero (fun _ _ => rfl)
  omega

/-- pointwise ≤ and equal sums force pointwise equality -/
theorem sumTo_eq_of_le {n : Nat} {f g : Nat → Nat} (hle : ∀ q, q < n → f q ≤ g q)
    (hs : sumTo n g ≤ sumTo n f) : ∀ q, q < n → f q = g q := by
  induction n with
  | zero => intro q hq; omega
  | succ k ih =>
    simp only [sumTo] at hs
    have hm : sumTo k f ≤ sumTo k g := sumTo_mono (fun q hq => hle q (by omega))
    have hk := hle k (by omega)
    intro q hq
    by_cases hqk : q = k
    · subst hqk; omega
    · exact ih (fun q hq => hle q (by omega)) (by omega) q (by omega)

theorem le_sumTo {n q : Nat} (f : Nat → Nat) (hq : q < n) : f q ≤ sumTo n f := by
  induction n with
  | zero => omega
  | succ k ih =>
    simp only [sumTo]
    by_cases e : q = k
    · subst e; omega
    · have := ih (by omega); omega

theorem eq_zero_of_sumTo {n : Nat} {f : Nat → Nat} (h : sumTo n f = 0) : ∀ q, q < n → f q = 0 := by
  intro q hq; have := le_sumTo f hq; omega

/-! ### counting packets -/

def b2n (b : Bool) : Nat := if b then 1 else 0

@[simp] theorem b2n_true : b2n true = 1 := rfl
@[simp] theorem b2n_false : b2n false = 0 := rfl
theorem b2n_le (b : Bool) : b2n b ≤ 1 := by cases b <;> simp

def cnt (f : Packet → Bool) : List Packet → Nat
  | [] => 0
  | k :: t => b2n (f k) + cnt f t

@[simp] theorem cnt_nil (f : Packet → Bool) : cnt f [] = 0 := rfl
@[simp] theorem cnt_cons (f : Packet → Bool) (k : Packet) (t : List Packet) :
    cnt f (k :: t) = b2n (f k) + cnt f t := rfl

@[simp] theorem cnt_append (f : Packet → Bool) (l m : List Packet) : cnt f (l ++ m) = cnt f l + cnt f m := by
  induction l with
  | nil => simp
  | cons k t ih => simp [ih]; omega

theorem cnt_eraseIdx (f : Packet → Bool) {l : List Packet} {k : Nat} {pk : Packet} (h : l[k]? = some pk) :
    cnt f (l.eraseIdx k) + b2n (f pk) = cnt f l := by
  induction l generalizing k with
  | nil => simp at h
  | cons a t ih =>
    cases k with
    | zero => simp at h; subst h; simp; omega
    | succ j =>
      simp at h
      have := ih h
      simp only [List.eraseIdx_cons_succ, cnt_cons]
      omega

theorem cnt_pos_of_mem (f : Packet → Bool) {l : List Packet} {pk : Packet} (hm : pk ∈ l) (hf : f pk = true) :
    0 < cnt f l := by
  induction l with
  | nil => simp at hm
  | cons a t ih =>
    simp only [List.mem_cons] at hm
    rcases hm with rfl | hm
    · simp [hf]; omega
    · have := ih hm; simp only [cnt_cons]; omega

theorem not_of_cnt_zero (f : Packet → Bool) {l : List Packet} (h : cnt f l = 0) :
    ∀ pk, pk ∈ l → f pk = false := by
  intro pk hm
  cases hf : f pk with
  | false => rfl
  | true => have := cnt_pos_of_mem f hm hf; omega

theorem cnt_zero_of_not (f : Packet → Bool) {l : List Packet} (h : ∀ pk, pk ∈ l → f pk = false) :
    cnt f l = 0 := by
  induction l with
  | nil => rfl
  | cons a t ih =>
    simp only [cnt_cons, h a (by simp), b2n_false, Nat.zero_add]
    exact ih (fun pk hm => h pk (by simp [hm]))

theorem mem_of_getElem? {l : List Packet} {k : Nat} {pk : Packet} (h : l[k]? = some pk) : pk ∈ l :=
  List.mem_of_getElem? h

theorem appCount_eq_cnt (l : List Packet) : appCount l = cnt isApp l := by
  induction l with
  | nil => rfl
  | cons a t ih => simp [appCount, ih, b2n]

def isUpFrom (q : Nat) (k : Packet) : Bool := match k.kind with | .up _ _ => k.src == q | _ => false
def isDownTo (q : Nat) (r : Bool) (k : Packet) : Bool :=
  match k.kind with | .down x => k.dst == q && x == r | _ => false

/-- marking a packet as held does not change any of the counts -/
theorem isUpFrom_held (q : Nat) (k : Packet) : isUpFrom q { k with held := true } = isUpFrom q k := rfl
theorem isDownTo_held (q : Nat) (r : Bool) (k : Packet) : isDownTo q r { k with held := true } = isDownTo q r k := rfl
theorem isApp_held (k : Packet) : isApp { k with held := true } = isApp k := rfl

/-! ### tree arithmetic -/

theorem parent_lt {q : Nat} (h : 0 < q) : parent q < q := by unfold parent; omega
theorem parent_child (me i : Nat) (h : i < 2) : parent (child me i) = me := by unfold parent child; omega
theorem child_pos (me i : Nat) : 0 < child me i := by unfold child; omega
theorem parent_eq_iff {q me : Nat} (h : 0 < q) : parent q = me ↔ q = 2 * me + 1 ∨ q = 2 * me + 2 := by
  unfold parent; omega
theorem nbChildren_eq (n me : Nat) :
    nbChildren n me = (if 2 * me + 1 < n then 1 else 0) + (if 2 * me + 2 < n then 1 else 0) := by
  unfold nbChildren; split <;> split <;> omega

/-! ### the DOWN messages produced by one process -/

theorem downs_eq (n me : Nat) (r : Bool) :
    downs n me r =
      (if 2 * me + 1 < n then [({ src := me, dst := 2 * me + 1, kind := .down r } : Packet)] else []) ++
      (if 2 * me + 2 < n then [({ src := me, dst := 2 * me + 2, kind := .down r } : Packet)] else []) := by
  unfold downs nbChildren child
  by_cases h2 : 2 * me + 2 < n
  · have h1 : 2 * me + 1 < n := by omega
    simp [h1, h2, List.range_succ]
  · by_cases h1 : 2 * me + 1 < n
    · simp [h1, h2, List.range_succ]
    · simp [h1, h2]

theorem cnt_up_downs (q n me : Nat) (r : Bool) : cnt (isUpFrom q) (downs n me r) = 0 := by
  rw [downs_eq]; split <;> split <;> simp [isUpFrom]

theorem cnt_app_downs (n me : Nat) (r : Bool) : cnt isApp (downs n me r) = 0 := by
  rw [downs_eq]; split <;> split <;> simp [isApp]

theorem cnt_down_downs (q n me : Nat) (r r' : Bool) :
    cnt (isDownTo q r') (downs n me r) =
      if (q = 2 * me + 1 ∨ q = 2 * me + 2) ∧ q < n ∧ r = r' then 1 else 0 := by
  rw [downs_eq]
  have hb : ∀ (a b : Nat), b2n (a == b) = if a = b then 1 else 0 := by
    intro a b; by_cases h1 : a = b <;> simp [h1, b2n]
  by_cases er : r = r'
  · subst er
    simp only [and_true]
    by_cases h1 : 2 * me + 1 < n <;> by_cases h2 : 2 * me + 2 < n <;>
      simp only [h1, h2, if_true, if_false, cnt_append, cnt_cons, cnt_nil, isDownTo, hb, beq_self_eq_true,
        Bool.and_true, List.append_nil, List.nil_append] <;>
      (repeat' split) <;> omega
  · have er' : (r == r') = false := by simp [er]
    simp only [er, and_false, if_false]
    by_cases h1 : 2 * me + 1 < n <;> by_cases h2 : 2 * me + 2 < n <;>
      simp [h1, h2, isDownTo, er']

theorem mem_downs {n me : Nat} {r : Bool} {k : Packet} (h : k ∈ downs n me r) :
    k.kind = .down r ∧ k.src = me ∧ (k.dst = 2 * me + 1 ∨ k.dst = 2 * me + 2) ∧ k.dst < n ∧ k.held = false := by
  rw [downs_eq] at h
  by_cases h1 : 2 * me + 1 < n <;> by_cases h2 : 2 * me + 2 < n <;> simp [h1, h2] at h
  · rcases h with rfl | rfl <;> simp <;> omega
  · subst h; simp; omega
  · omega

end ParsecVerif.FourCounter
