/-
  C14 — lemmas on the dynamic region of the request array and its two FIFOs.
-/
import ParsecVerif.Model.CommEngine

namespace ParsecVerif.CommEngine

/-! ### generic list facts -/

theorem getElem?_lt {α} {l : List α} {j : Nat} {a : α} (h : l[j]? = some a) : j < l.length := by
  rcases Nat.lt_or_ge j l.length with h' | h'
  · exact h'
  · rw [List.getElem?_eq_none h'] at h; cases h

theorem filterMap_set_eq {α β} (f : α → Option β) (l : List α) (j : Nat) (a b : α) (hj : l[j]? = some a)
    (h : f b = f a) : (l.set j b).filterMap f = l.filterMap f := by
  induction l generalizing j with
  | nil => simp at hj
  | cons c rest ih =>
    cases j with
    | zero => simp at hj; subst hj; simp [List.filterMap_cons, h]
    | succ j' =>
      simp at hj
      simp only [List.set_cons_succ, List.filterMap_cons, ih j' hj]

theorem filterMap_set_drop {α β} (f : α → Option β) (l : List α) (j : Nat) (a b : α) (x : β) (hj : l[j]? = some a)
    (ha : f a = some x) (hb : f b = none) : (x :: (l.set j b).filterMap f).Perm (l.filterMap f) := by
  induction l generalizing j with
  | nil => simp at hj
  | cons c rest ih =>
    cases j with
    | zero => simp at hj; subst hj; simp [List.filterMap_cons, ha, hb]
    | succ j' =>
      simp at hj
      have := ih j' hj
      simp only [List.set_cons_succ, List.filterMap_cons]
      cases hc : f c with
      | none => simpa using this
      | some y => exact (List.Perm.swap y x _).trans (List.Perm.cons y this)

theorem countP_set_eq {α} (p : α → Bool) (l : List α) (j : Nat) (a b : α) (hj : l[j]? = some a)
    (h : p b = p a) : (l.set j b).countP p = l.countP p := by
  induction l generalizing j with
  | nil => simp at hj
  | cons c rest ih =>
    cases j with
    | zero => simp at hj; subst hj; simp [List.countP_cons, h]
    | succ j' =>
      simp at hj
      simp only [List.set_cons_succ, List.countP_cons, ih j' hj]

theorem countP_set_drop {α} (p : α → Bool) (l : List α) (j : Nat) (a b : α) (hj : l[j]? = some a)
    (ha : p a = true) (hb : p b = false) : (l.set j b).countP p + 1 = l.countP p := by
  induction l generalizing j with
  | nil => simp at hj
  | cons c rest ih =>
    cases j with
    | zero => simp at hj; subst hj; simp [List.countP_cons, ha, hb]
    | succ j' =>
      simp at hj
      have := ih j' hj
      simp only [List.set_cons_succ, List.countP_cons]
      omega

/-- Swap-with-last removal: the element at `j` is replaced by (a variant `y` of) the last one. -/
theorem set_dropLast_perm {α} (l : List α) (j : Nat) (a y : α) (hj : j + 1 < l.length) (ha : l[j]? = some a) :
    (a :: (l.set j y).dropLast).Perm (l.dropLast ++ [y]) := by
  induction l generalizing j with
  | nil => simp at hj
  | cons b rest ih =>
    have hne : rest ≠ [] := by intro h; subst h; simp at hj
    cases j with
    | zero =>
      simp at ha; subst ha
      obtain ⟨c, rest', rfl⟩ := List.exists_cons_of_ne_nil hne
      simp only [List.set_cons_zero, List.dropLast_cons_cons, List.cons_append]
      exact List.Perm.cons b (List.perm_append_singleton y _).symm
    | succ j' =>
      simp at ha
      have hj' : j' + 1 < rest.length := by simp only [List.length_cons] at hj; omega
      have := ih j' hj' ha
      have hne2 : rest.set j' y ≠ [] := by
        intro h; have h2 := congrArg List.length h; simp only [List.length_set, List.length_nil] at h2; omega
      obtain ⟨c, r2, hr2⟩ := List.exists_cons_of_ne_nil hne2
      obtain ⟨c', r3, hr3⟩ := List.exists_cons_of_ne_nil hne
      simp only [List.set_cons_succ]
      rw [hr2, List.dropLast_cons_cons]
      rw [hr2] at this
      have e1 : (b :: rest).dropLast = b :: rest.dropLast := by rw [hr3, List.dropLast_cons_cons]
      rw [e1, List.cons_append]
      exact (List.Perm.swap b a _).trans (List.Perm.cons b this)

/-! ### what a slot of the region stands for -/

/-- The dynamic request a slot is responsible for: live in the array, or completed with its callback still to run. -/
def Slot.held (sl : Slot) : Option Dyn :=
  if sl.req.isSome || sl.fin then (match sl.cb with | .dyn x => some x | _ => none) else none

def heldOf (l : List Slot) : List Dyn := l.filterMap Slot.held

def Slot.cntRecv (sl : Slot) : Bool := sl.isRecv && (sl.req.isSome || sl.fin)

def nRecv (l : List Slot) : Nat := l.countP Slot.cntRecv

/-- All references the engine holds to dynamic requests. -/
def DynR.refs (d : DynR) : List Dyn := heldOf d.slots ++ d.sendq ++ d.recvq

theorem heldOf_append (a b : List Slot) : heldOf (a ++ b) = heldOf a ++ heldOf b := by
  simp [heldOf, List.filterMap_append]

theorem nRecv_append (a b : List Slot) : nRecv (a ++ b) = nRecv a + nRecv b := by
  simp [nRecv, List.countP_append]

@[simp] theorem held_dynSlot (x : Dyn) (a : Nat) (b : Bool) : (dynSlot x a b).held = some x := rfl
@[simp] theorem cntRecv_dynSlot (x : Dyn) (a : Nat) (b : Bool) : (dynSlot x a b).cntRecv = b := by
  simp [Slot.cntRecv, dynSlot]

theorem heldOf_single (x : Dyn) (a : Nat) (b : Bool) : heldOf [dynSlot x a b] = [x] := rfl
theorem nRecv_single (x : Dyn) (a : Nat) (b : Bool) : nRecv [dynSlot x a b] = if b then 1 else 0 := by
  cases b <;> rfl

/-- Invariant of the region, valid also inside a pass of the progress loop (completed requests not yet
    removed leave holes). -/
structure DMid (d : DynR) : Prop where
  len_le : d.slots.length ≤ d.cap
  slots : ∀ j sl, d.slots[j]? = some sl → ∃ x, sl.cb = .dyn x ∧ sl.st1 = d.base + j ∧ sl.isRecv = x.kind.isRecv ∧
            ((sl.req = some (.dyn x) ∧ sl.fin = false) ∨ sl.req = none)
  nrecv_eq : d.nrecv = nRecv d.slots
  nrecv_le : d.nrecv ≤ d.quota
  sendq_kind : ∀ x, x ∈ d.sendq → x.kind.isRecv = false
  recvq_kind : ∀ x, x ∈ d.recvq → x.kind.isRecv = true

/-- Between passes: no hole. -/
structure DInv (d : DynR) : Prop where
  mid : DMid d
  live : ∀ sl, sl ∈ d.slots → sl.req ≠ none

theorem DInv.slot_eq {d : DynR} (h : DInv d) {j : Nat} {sl : Slot} (hj : d.slots[j]? = some sl) :
    ∃ x, sl = dynSlot x (d.base + j) x.kind.isRecv := by
  obtain ⟨x, h1, h2, h3, h4⟩ := h.mid.slots j sl hj
  have hl := h.live sl (List.mem_of_getElem? hj)
  rcases h4 with ⟨h4, h5⟩ | h4
  · refine ⟨x, ?_⟩
    cases sl; simp_all [dynSlot]
  · exact absurd h4 hl

/-! ### creation of a request -/

theorem DMid_append (d : DynR)
    (hslots : ∀ j sl, d.slots[j]? = some sl → ∃ x, sl.cb = .dyn x ∧ sl.st1 = d.base + j ∧ sl.isRecv = x.kind.isRecv ∧
            ((sl.req = some (.dyn x) ∧ sl.fin = false) ∨ sl.req = none))
    (hsq : ∀ x, x ∈ d.sendq → x.kind.isRecv = false) (hrq : ∀ x, x ∈ d.recvq → x.kind.isRecv = true)
    (x : Dyn) (b : Bool) (hb : b = x.kind.isRecv) (hlen : d.slots.length < d.cap)
    (hn : d.nrecv = nRecv d.slots + (if b then 1 else 0)) (hq : d.nrecv ≤ d.quota) :
    DMid (d.append x b) := by
  refine ⟨?_, ?_, ?_, hq, hsq, hrq⟩
  · show (d.slots ++ [dynSlot x d.last b]).length ≤ d.cap
    simp; omega
  · intro j sl hj
    have hj' : (d.slots ++ [dynSlot x d.last b])[j]? = some sl := hj
    rw [List.getElem?_append] at hj'
    by_cases hjl : j < d.slots.length
    · simp only [hjl, if_true] at hj'; exact hslots j sl hj'
    · simp only [hjl, if_false] at hj'
      have hj0 : j - d.slots.length = 0 := by
        rcases Nat.eq_zero_or_pos (j - d.slots.length) with h0 | h0
        · exact h0
        · rw [List.getElem?_eq_none (by simp; omega)] at hj'; cases hj'
      rw [hj0] at hj'
      simp at hj'
      subst hj'
      refine ⟨x, rfl, ?_, hb, Or.inl ⟨rfl, rfl⟩⟩
      show d.base + d.slots.length = d.base + j
      omega
  · show d.nrecv = nRecv (d.slots ++ [dynSlot x d.last b])
    rw [nRecv_append, nRecv_single]; exact hn

theorem refs_append (d : DynR) (x : Dyn) (b : Bool) :
    (d.append x b).refs.Perm (d.refs ++ [x]) := by
  show (heldOf (d.slots ++ [dynSlot x d.last b]) ++ d.sendq ++ d.recvq).Perm (heldOf d.slots ++ d.sendq ++ d.recvq ++ [x])
  rw [heldOf_append, heldOf_single]
  simp only [List.append_assoc]
  refine List.Perm.append_left _ ?_
  have e : d.sendq ++ (d.recvq ++ [x]) = (d.sendq ++ d.recvq) ++ [x] := by simp
  rw [e]
  exact (List.perm_append_singleton x _).symm

theorem install_frame (d : DynR) (x : Dyn) :
    (d.install x).base = d.base ∧ (d.install x).cap = d.cap ∧ (d.install x).quota = d.quota := by
  unfold DynR.install DynR.installRecv DynR.installSend DynR.append
  split <;> split <;> exact ⟨rfl, rfl, rfl⟩

theorem DMid_install {d : DynR} (h : DMid d) (x : Dyn) :
    DMid (d.install x) ∧ (d.install x).refs.Perm (d.refs ++ [x]) := by
  unfold DynR.install
  cases hk : x.kind.isRecv with
  | true =>
    simp only [if_true]
    unfold DynR.installRecv
    by_cases hc : d.slots.length < d.cap ∧ d.nrecv < d.quota
    · rw [if_pos hc]
      refine ⟨?_, ?_⟩
      · exact DMid_append { d with nrecv := d.nrecv + 1 } h.slots h.sendq_kind h.recvq_kind x true hk.symm hc.1
          (by show d.nrecv + 1 = nRecv d.slots + 1; rw [h.nrecv_eq]) (by show d.nrecv + 1 ≤ d.quota; omega)
      · exact refs_append _ x true
    · rw [if_neg hc]
      refine ⟨⟨h.len_le, h.slots, h.nrecv_eq, h.nrecv_le, h.sendq_kind, ?_⟩, ?_⟩
      · intro y hy
        have hy' : y ∈ d.recvq ++ [x] := hy
        rw [List.mem_append, List.mem_singleton] at hy'
        rcases hy' with hy' | hy'
        · exact h.recvq_kind y hy'
        · rw [hy']; exact hk
      · show (heldOf d.slots ++ d.sendq ++ (d.recvq ++ [x])).Perm (heldOf d.slots ++ d.sendq ++ d.recvq ++ [x])
        simp [List.append_assoc]
  | false =>
    simp only [Bool.false_eq_true, if_false]
    unfold DynR.installSend
    by_cases hc : d.slots.length < d.cap
    · rw [if_pos hc]
      exact ⟨DMid_append d h.slots h.sendq_kind h.recvq_kind x false hk.symm hc (by simp [h.nrecv_eq]) h.nrecv_le,
        refs_append _ x false⟩
    · rw [if_neg hc]
      refine ⟨⟨h.len_le, h.slots, h.nrecv_eq, h.nrecv_le, ?_, h.recvq_kind⟩, ?_⟩
      · intro y hy
        have hy' : y ∈ d.sendq ++ [x] := hy
        rw [List.mem_append, List.mem_singleton] at hy'
        rcases hy' with hy' | hy'
        · exact h.sendq_kind y hy'
        · rw [hy']; exact hk
      · show (heldOf d.slots ++ (d.sendq ++ [x]) ++ d.recvq).Perm (heldOf d.slots ++ d.sendq ++ d.recvq ++ [x])
        simp only [List.append_assoc]
        refine List.Perm.append_left _ (List.Perm.append_left _ ?_)
        exact List.perm_append_comm

/-! ### `MPI_Testsome` reports a slot of the region -/

theorem DMid_complete {d : DynR} (h : DMid d) (j : Nat) (hlive : ∀ sl, d.slots[j]? = some sl → sl.req ≠ none) :
    DMid (d.complete j) ∧ (d.complete j).refs = d.refs ∧ (d.complete j).slots.length = d.slots.length ∧
    (d.complete j).base = d.base ∧ (d.complete j).cap = d.cap ∧ (d.complete j).quota = d.quota ∧
    (d.complete j).sendq = d.sendq ∧ (d.complete j).recvq = d.recvq := by
  unfold DynR.complete
  cases hj : d.slots[j]? with
  | none => exact ⟨h, rfl, rfl, rfl, rfl, rfl, rfl, rfl⟩
  | some sl =>
    obtain ⟨x, h1, h2, h3, h4⟩ := h.slots j sl hj
    have hl := hlive sl hj
    have h4' : sl.req = some (.dyn x) ∧ sl.fin = false := by
      rcases h4 with h4 | h4
      · exact h4
      · exact absurd h4 hl
    have hheld : sl.finish.held = sl.held := by
      simp [Slot.held, Slot.finish, h4'.1]
    have hcnt : sl.finish.cntRecv = sl.cntRecv := by
      simp [Slot.cntRecv, Slot.finish, h4'.1]
    refine ⟨⟨by simp [h.len_le], ?_, ?_, h.nrecv_le, h.sendq_kind, h.recvq_kind⟩, ?_, by simp, rfl, rfl, rfl, rfl, rfl⟩
    · intro i s' hi
      simp only [List.getElem?_set] at hi
      by_cases hji : j = i
      · subst hji
        simp [getElem?_lt hj] at hi
        subst hi
        exact ⟨x, h1, h2, h3, Or.inr rfl⟩
      · simp [hji] at hi
        exact h.slots i s' hi
    · show d.nrecv = nRecv (d.slots.set j _)
      rw [nRecv, countP_set_eq _ _ _ _ _ hj hcnt]; exact h.nrecv_eq
    · show heldOf (d.slots.set j _) ++ d.sendq ++ d.recvq = heldOf d.slots ++ d.sendq ++ d.recvq
      rw [heldOf, filterMap_set_eq _ _ _ _ _ hj hheld]; rfl

/-! ### the callback of a completed slot is about to run -/

theorem DMid_serve {d : DynR} (h : DMid d) (j : Nat) (sl : Slot) (x : Dyn) (hj : d.slots[j]? = some sl)
    (hcb : sl.cb = .dyn x) (hfin : sl.fin = true) (hreq : sl.req = none) :
    DMid (d.serve j) ∧ (x :: (d.serve j).refs).Perm d.refs ∧ (d.serve j).slots.length = d.slots.length ∧
    (d.serve j).base = d.base ∧ (d.serve j).cap = d.cap ∧ (d.serve j).quota = d.quota ∧
    (d.serve j).sendq = d.sendq ∧ (d.serve j).recvq = d.recvq := by
  unfold DynR.serve
  rw [hj]
  dsimp only
  obtain ⟨x', h1, h2, h3, h4⟩ := h.slots j sl hj
  have hheld0 : sl.held = some x := by simp [Slot.held, hfin, hcb]
  have hheld1 : sl.unfin.held = none := by simp [Slot.held, Slot.unfin, hreq]
  have hcnt1 : sl.unfin.cntRecv = false := by simp [Slot.cntRecv, Slot.unfin, hreq]
  have e1 : sl.unfin.cb = sl.cb := rfl
  have e2 : sl.unfin.st1 = sl.st1 := rfl
  have e3 : sl.unfin.isRecv = sl.isRecv := rfl
  have e4 : sl.unfin.req = sl.req := rfl
  generalize sl.unfin = s' at hheld1 hcnt1 e1 e2 e3 e4 ⊢
  refine ⟨⟨by simp [h.len_le], ?_, ?_, ?_, h.sendq_kind, h.recvq_kind⟩, ?_, by simp, rfl, rfl, rfl, rfl, rfl⟩
  · intro i s2 hi
    simp only [List.getElem?_set] at hi
    by_cases hji : j = i
    · subst hji
      simp [getElem?_lt hj] at hi
      subst hi
      exact ⟨x', by rw [e1]; exact h1, by rw [e2]; exact h2, by rw [e3]; exact h3, Or.inr (by rw [e4]; exact hreq)⟩
    · simp [hji] at hi
      exact h.slots i s2 hi
  · show (if sl.isRecv then d.nrecv - 1 else d.nrecv) = nRecv (d.slots.set j s')
    have h0 := h.nrecv_eq
    simp only [nRecv] at h0 ⊢
    cases hr : sl.isRecv with
    | true =>
      have hcnt0 : sl.cntRecv = true := by simp [Slot.cntRecv, hr, hfin]
      have := countP_set_drop Slot.cntRecv d.slots j sl s' hj hcnt0 hcnt1
      simp only [if_true]
      omega
    | false =>
      have hcnt0 : sl.cntRecv = false := by simp [Slot.cntRecv, hr]
      simp only [Bool.false_eq_true, if_false]
      rw [countP_set_eq _ _ _ _ _ hj (hcnt1.trans hcnt0.symm)]; exact h0
  · show (if sl.isRecv then d.nrecv - 1 else d.nrecv) ≤ d.quota
    have := h.nrecv_le
    split <;> omega
  · show (x :: (heldOf (d.slots.set j s') ++ d.sendq ++ d.recvq)).Perm (heldOf d.slots ++ d.sendq ++ d.recvq)
    have := filterMap_set_drop Slot.held d.slots j sl s' x hj hheld0 hheld1
    simp only [List.append_assoc]
    exact List.Perm.append_right _ this

/-! ### the removal loop -/

theorem split_last {α} (l : List α) (z : α) (hz : l[l.length - 1]? = some z) : l = l.dropLast ++ [z] := by
  have hne : l ≠ [] := by intro h; subst h; simp at hz
  have := (List.dropLast_concat_getLast hne).symm
  rw [List.getLast_eq_getElem hne] at this
  have hl := getElem?_lt hz
  rw [List.getElem?_eq_getElem hl] at hz
  rw [Option.some.inj hz] at this
  exact this

/-- One iteration of the removal loop on a hole all of whose successors are live. -/
theorem DMid_remove1_hole {d : DynR} (h : DMid d) (j : Nat) (sl : Slot) (hj : d.slots[j]? = some sl)
    (hreq : sl.req = none) (hfin : sl.fin = false)
    (hlater : ∀ i s', j < i → d.slots[i]? = some s' → s'.req ≠ none ∧ s'.fin = false) :
    DMid (d.remove1 j) ∧ (d.remove1 j).refs.Perm d.refs ∧ (d.remove1 j).slots.length + 1 = d.slots.length ∧
    (∀ i s', (d.remove1 j).slots[i]? = some s' → (i = j ∧ s'.req ≠ none ∧ s'.fin = false) ∨ (i ≠ j ∧ d.slots[i]? = some s')) ∧
    (d.remove1 j).base = d.base ∧ (d.remove1 j).cap = d.cap ∧ (d.remove1 j).quota = d.quota ∧
    (d.remove1 j).sendq = d.sendq ∧ (d.remove1 j).recvq = d.recvq := by
  have hjl := getElem?_lt hj
  have hheld : sl.held = none := by simp [Slot.held, hreq, hfin]
  have hcnt : sl.cntRecv = false := by simp [Slot.cntRecv, hreq, hfin]
  unfold DynR.remove1
  rw [hj]
  dsimp only
  have hnn : sl.req.isSome = false := by simp [hreq]
  rw [hnn]
  simp only [Bool.false_eq_true, if_false]
  by_cases hl : d.slots.length - 1 > j
  · rw [if_pos hl]
    have hzl : d.slots.length - 1 < d.slots.length := by omega
    obtain ⟨z, hz⟩ : ∃ z, d.slots[d.slots.length - 1]? = some z := ⟨_, List.getElem?_eq_getElem hzl⟩
    have hgd : d.slots.getD (d.slots.length - 1) {} = z := by
      rw [List.getD_eq_getElem?_getD, hz]; rfl
    rw [hgd]
    obtain ⟨hzlive, hzfin⟩ := hlater _ z hl hz
    obtain ⟨y, z1, z2, z3, z4⟩ := h.slots _ z hz
    have z4' : z.req = some (.dyn y) ∧ z.fin = false := by
      rcases z4 with z4 | z4
      · exact z4
      · exact absurd z4 hzlive
    generalize hm : ({ z with st1 := d.base + j } : Slot) = m
    have m1 : m.cb = z.cb := by rw [← hm]
    have m2 : m.st1 = d.base + j := by rw [← hm]
    have m3 : m.isRecv = z.isRecv := by rw [← hm]
    have m4 : m.req = z.req := by rw [← hm]
    have m5 : m.fin = z.fin := by rw [← hm]
    have mheld : m.held = z.held := by simp [Slot.held, m1, m4, m5]
    have mcnt : m.cntRecv = z.cntRecv := by simp [Slot.cntRecv, m3, m4, m5]
    have hperm := set_dropLast_perm d.slots j sl m (by omega) hj
    have hsplit := split_last d.slots z hz
    refine ⟨⟨?_, ?_, ?_, h.nrecv_le, h.sendq_kind, h.recvq_kind⟩, ?_, by show ((d.slots.set j m).dropLast).length + 1 = _; simp; omega, ?_, rfl, rfl, rfl, rfl, rfl⟩
    · show ((d.slots.set j m).dropLast).length ≤ d.cap
      have := h.len_le
      simp; omega
    · intro i s' hi
      have hi' : ((d.slots.set j m).dropLast)[i]? = some s' := hi
      rw [List.getElem?_dropLast, List.length_set] at hi'
      by_cases hil : i < d.slots.length - 1
      · simp only [hil, if_true] at hi'
        rw [List.getElem?_set] at hi'
        by_cases hji : j = i
        · subst hji
          simp [hjl] at hi'
          subst hi'
          exact ⟨y, by rw [m1]; exact z1, m2, by rw [m3]; exact z3, Or.inl ⟨by rw [m4]; exact z4'.1, by rw [m5]; exact z4'.2⟩⟩
        · simp [hji] at hi'
          exact h.slots i s' hi'
      · simp [hil] at hi'
    · show d.nrecv = nRecv ((d.slots.set j m).dropLast)
      have e1 := List.Perm.countP_eq Slot.cntRecv hperm
      have a1 : List.countP Slot.cntRecv (sl :: (d.slots.set j m).dropLast) = List.countP Slot.cntRecv (d.slots.set j m).dropLast := by
        simp [List.countP_cons, hcnt]
      have a2 : List.countP Slot.cntRecv (d.slots.dropLast ++ [m]) =
          List.countP Slot.cntRecv d.slots.dropLast + (if z.cntRecv = true then 1 else 0) := by
        simp [List.countP_append, List.countP_cons, mcnt]
      have a3 : List.countP Slot.cntRecv (d.slots.dropLast ++ [z]) =
          List.countP Slot.cntRecv d.slots.dropLast + (if z.cntRecv = true then 1 else 0) := by
        simp [List.countP_append, List.countP_cons]
      have a4 : List.countP Slot.cntRecv d.slots = List.countP Slot.cntRecv (d.slots.dropLast ++ [z]) := by rw [← hsplit]
      have e0 := h.nrecv_eq
      simp only [nRecv] at e0 ⊢
      omega
    · show (heldOf ((d.slots.set j m).dropLast) ++ d.sendq ++ d.recvq).Perm (heldOf d.slots ++ d.sendq ++ d.recvq)
      have e1 := List.Perm.filterMap Slot.held hperm
      rw [List.filterMap_cons, hheld] at e1
      have e2 : heldOf d.slots = heldOf (d.slots.dropLast ++ [z]) := by rw [← hsplit]
      have e3 : List.filterMap Slot.held (d.slots.dropLast ++ [m]) = List.filterMap Slot.held (d.slots.dropLast ++ [z]) := by
        simp [List.filterMap_append, List.filterMap_cons, mheld]
      simp only [List.append_assoc]
      refine List.Perm.append_right _ ?_
      rw [e2]
      simp only [heldOf]
      rw [← e3]
      exact e1
    · intro i s' hi
      have hi' : ((d.slots.set j m).dropLast)[i]? = some s' := hi
      rw [List.getElem?_dropLast, List.length_set] at hi'
      by_cases hil : i < d.slots.length - 1
      · simp only [hil, if_true] at hi'
        rw [List.getElem?_set] at hi'
        by_cases hji : j = i
        · subst hji
          simp [hjl] at hi'
          subst hi'
          left; exact ⟨rfl, by rw [m4]; exact hzlive, by rw [m5]; exact hzfin⟩
        · simp [hji] at hi'
          right; exact ⟨fun e => hji e.symm, hi'⟩
      · simp [hil] at hi'
  · rw [if_neg hl]
    have hjeq : d.slots.length - 1 = j := by omega
    have hsplit := split_last d.slots sl (by rw [hjeq]; exact hj)
    refine ⟨⟨?_, ?_, ?_, h.nrecv_le, h.sendq_kind, h.recvq_kind⟩, ?_, by show (d.slots.dropLast).length + 1 = _; simp; omega, ?_, rfl, rfl, rfl, rfl, rfl⟩
    · show (d.slots.dropLast).length ≤ d.cap
      have := h.len_le
      simp; omega
    · intro i s' hi
      have hi' : (d.slots.dropLast)[i]? = some s' := hi
      rw [List.getElem?_dropLast] at hi'
      by_cases hil : i < d.slots.length - 1
      · simp only [hil, if_true] at hi'; exact h.slots i s' hi'
      · simp [hil] at hi'
    · show d.nrecv = nRecv d.slots.dropLast
      have e2 : List.countP Slot.cntRecv d.slots = List.countP Slot.cntRecv (d.slots.dropLast ++ [sl]) := by rw [← hsplit]
      rw [List.countP_append] at e2
      have e0 := h.nrecv_eq
      simp only [nRecv] at e0 ⊢
      simp [List.countP_cons, hcnt] at e2
      omega
    · show (heldOf d.slots.dropLast ++ d.sendq ++ d.recvq).Perm (heldOf d.slots ++ d.sendq ++ d.recvq)
      have e2 : heldOf d.slots = heldOf (d.slots.dropLast ++ [sl]) := by rw [← hsplit]
      rw [e2, heldOf_append]
      simp [heldOf, List.filterMap_cons, hheld]
    · intro i s' hi
      have hi' : (d.slots.dropLast)[i]? = some s' := hi
      rw [List.getElem?_dropLast] at hi'
      by_cases hil : i < d.slots.length - 1
      · simp only [hil, if_true] at hi'
        right; exact ⟨by omega, hi'⟩
      · simp [hil] at hi'

theorem remove1_noop {d : DynR} (j : Nat) (hjl : j < d.slots.length) (h : ∀ sl, d.slots[j]? = some sl → sl.req ≠ none) :
    d.remove1 j = d := by
  unfold DynR.remove1
  cases hj : d.slots[j]? with
  | none => rw [List.getElem?_eq_getElem hjl] at hj; cases hj
  | some sl =>
    have h1 := h sl hj
    have h2 : sl.req.isSome = true := by
      cases hr : sl.req with
      | none => exact absurd hr h1
      | some _ => rfl
    simp [h2]

/-- The whole removal loop (completed indices visited from the last to the first) closes every hole. -/
theorem DInv_removeAll : ∀ (js : List Nat) (d : DynR), DMid d → (∀ sl, sl ∈ d.slots → sl.fin = false) →
    js.Pairwise (fun a b => a > b) → (∀ i sl, d.slots[i]? = some sl → sl.req = none → i ∈ js) →
    (∀ j, j ∈ js → j < d.slots.length) →
    DInv (d.removeAll js) ∧ (d.removeAll js).refs.Perm d.refs ∧
    (d.removeAll js).base = d.base ∧ (d.removeAll js).cap = d.cap ∧ (d.removeAll js).quota = d.quota ∧
    (d.removeAll js).sendq = d.sendq ∧ (d.removeAll js).recvq = d.recvq := by
  intro js
  induction js with
  | nil =>
    intro d h _ _ hholes _
    refine ⟨⟨h, ?_⟩, List.Perm.refl _, rfl, rfl, rfl, rfl, rfl⟩
    intro sl hsl hreq
    obtain ⟨i, hi⟩ := List.getElem?_of_mem hsl
    exact absurd (hholes i sl hi hreq) (by simp)
  | cons j rest ih =>
    intro d h hfin hpw hholes hlen
    rw [List.pairwise_cons] at hpw
    have hjlen : j < d.slots.length := hlen j (by simp)
    by_cases hnoop : ∀ sl, d.slots[j]? = some sl → sl.req ≠ none
    · show DInv ((d.remove1 j).removeAll rest) ∧ ((d.remove1 j).removeAll rest).refs.Perm d.refs ∧
        ((d.remove1 j).removeAll rest).base = d.base ∧ ((d.remove1 j).removeAll rest).cap = d.cap ∧
        ((d.remove1 j).removeAll rest).quota = d.quota ∧ ((d.remove1 j).removeAll rest).sendq = d.sendq ∧
        ((d.remove1 j).removeAll rest).recvq = d.recvq
      rw [remove1_noop j hjlen hnoop]
      apply ih d h hfin hpw.2
      · intro i sl hi hreq
        have := hholes i sl hi hreq
        rcases List.mem_cons.mp this with e | e
        · subst e; exact absurd hreq (hnoop sl hi)
        · exact e
      · intro j' hj'; exact hlen j' (by simp [hj'])
    · have : ∃ sl, d.slots[j]? = some sl ∧ sl.req = none := by
        apply Classical.byContradiction
        intro hne
        apply hnoop
        intro sl hsl hreq
        exact hne ⟨sl, hsl, hreq⟩
      obtain ⟨sl, hj, hreq⟩ := this
      have hlater : ∀ i s', j < i → d.slots[i]? = some s' → s'.req ≠ none ∧ s'.fin = false := by
        intro i s' hji hi
        refine ⟨?_, hfin s' (List.mem_of_getElem? hi)⟩
        intro hr
        have := hholes i s' hi hr
        rcases List.mem_cons.mp this with e | e
        · omega
        · have := hpw.1 i e; omega
      obtain ⟨g1, g2, glen, g3, g4, g5, g6, g7, g8⟩ :=
        DMid_remove1_hole h j sl hj hreq (hfin sl (List.mem_of_getElem? hj)) hlater
      have hfin' : ∀ s', s' ∈ (d.remove1 j).slots → s'.fin = false := by
        intro s' hs'
        obtain ⟨i, hi⟩ := List.getElem?_of_mem hs'
        rcases g3 i s' hi with ⟨_, _, hf⟩ | ⟨_, hi'⟩
        · exact hf
        · exact hfin s' (List.mem_of_getElem? hi')
      have hholes' : ∀ i s', (d.remove1 j).slots[i]? = some s' → s'.req = none → i ∈ rest := by
        intro i s' hi hr
        rcases g3 i s' hi with ⟨_, hl, _⟩ | ⟨hne, hi'⟩
        · exact absurd hr hl
        · have := hholes i s' hi' hr
          rcases List.mem_cons.mp this with e | e
          · exact absurd e hne
          · exact e
      have hlen' : ∀ j', j' ∈ rest → j' < (d.remove1 j).slots.length := by
        intro j' hj'
        have := hpw.1 j' hj'
        omega
      obtain ⟨k1, k2, k3, k4, k5, k6, k7⟩ := ih (d.remove1 j) g1 hfin' hpw.2 hholes' hlen'
      show DInv ((d.remove1 j).removeAll rest) ∧ ((d.remove1 j).removeAll rest).refs.Perm d.refs ∧
        ((d.remove1 j).removeAll rest).base = d.base ∧ ((d.remove1 j).removeAll rest).cap = d.cap ∧
        ((d.remove1 j).removeAll rest).quota = d.quota ∧ ((d.remove1 j).removeAll rest).sendq = d.sendq ∧
        ((d.remove1 j).removeAll rest).recvq = d.recvq
      exact ⟨k1, k2.trans g2, k3.trans g4, k4.trans g5, k5.trans g6, k6.trans g7, k7.trans g8⟩

/-! ### the feed loop -/

theorem DInv_append {d : DynR} (h : DInv d) (x : Dyn) (b : Bool) (hb : b = x.kind.isRecv) (hlen : d.slots.length < d.cap)
    (hn : d.nrecv = nRecv d.slots + (if b then 1 else 0)) (hq : d.nrecv ≤ d.quota) : DInv (d.append x b) := by
  refine ⟨DMid_append d h.mid.slots h.mid.sendq_kind h.mid.recvq_kind x b hb hlen hn hq, ?_⟩
  intro sl hsl
  have hsl' : sl ∈ d.slots ++ [dynSlot x d.last b] := hsl
  rw [List.mem_append, List.mem_singleton] at hsl'
  rcases hsl' with hsl' | hsl'
  · exact h.live sl hsl'
  · rw [hsl']; simp [dynSlot]

/-- `mpi_no_thread_push_posted_req`, first branch: the receive FIFO is served when the quota allows. -/
theorem push_recv {d : DynR} (hq : d.nrecv < d.quota) (x : Dyn) (rest : List Dyn) (hr : d.recvq = x :: rest) :
    d.push = some ({ d with recvq := rest, nrecv := d.nrecv + 1 }.append x true) := by
  unfold DynR.push
  simp [hq, hr]

/-- second branch: otherwise the send FIFO. -/
theorem push_send {d : DynR} (hq : ¬ d.nrecv < d.quota ∨ d.recvq = []) (x : Dyn) (rest : List Dyn) (hs : d.sendq = x :: rest) :
    d.push = some ({ d with sendq := rest }.append x x.kind.isRecv) := by
  unfold DynR.push
  rcases hq with hq | hq
  · simp [hq, hs]
  · simp [hq, hs]

theorem push_none {d : DynR} (hq : ¬ d.nrecv < d.quota ∨ d.recvq = []) (hs : d.sendq = []) : d.push = none := by
  unfold DynR.push
  rcases hq with hq | hq
  · simp [hq, hs]
  · simp [hq, hs]

theorem DInv_push_recv {d : DynR} (h : DInv d) (hlen : d.slots.length < d.cap) (hq : d.nrecv < d.quota) (x : Dyn) (rest : List Dyn)
    (hr : d.recvq = x :: rest) :
    DInv ({ d with recvq := rest, nrecv := d.nrecv + 1 }.append x true) ∧
    ({ d with recvq := rest, nrecv := d.nrecv + 1 }.append x true).refs.Perm d.refs := by
  have hx : x.kind.isRecv = true := h.mid.recvq_kind x (by rw [hr]; simp)
  refine ⟨⟨DMid_append { d with recvq := rest, nrecv := d.nrecv + 1 } h.mid.slots h.mid.sendq_kind
      (fun y hy => h.mid.recvq_kind y (by rw [hr]; exact List.mem_cons_of_mem _ hy)) x true hx.symm hlen
      (by show d.nrecv + 1 = nRecv d.slots + 1; rw [h.mid.nrecv_eq]) (by show d.nrecv + 1 ≤ d.quota; omega), ?_⟩, ?_⟩
  · intro sl hsl
    have hsl' : sl ∈ d.slots ++ [dynSlot x d.last true] := hsl
    rw [List.mem_append, List.mem_singleton] at hsl'
    rcases hsl' with hsl' | hsl'
    · exact h.live sl hsl'
    · rw [hsl']; simp [dynSlot]
  · refine (refs_append _ x _).trans ?_
    show (heldOf d.slots ++ d.sendq ++ rest ++ [x]).Perm (heldOf d.slots ++ d.sendq ++ d.recvq)
    rw [hr]
    simp only [List.append_assoc]
    refine List.Perm.append_left _ (List.Perm.append_left _ ?_)
    exact List.perm_append_singleton x rest

theorem DInv_push_send {d : DynR} (h : DInv d) (hlen : d.slots.length < d.cap) (x : Dyn) (rest : List Dyn)
    (hs : d.sendq = x :: rest) :
    DInv ({ d with sendq := rest }.append x x.kind.isRecv) ∧
    ({ d with sendq := rest }.append x x.kind.isRecv).refs.Perm d.refs := by
  have hx : x.kind.isRecv = false := h.mid.sendq_kind x (by rw [hs]; simp)
  have hI : DInv { d with sendq := rest } :=
    ⟨⟨h.mid.len_le, h.mid.slots, h.mid.nrecv_eq, h.mid.nrecv_le,
      fun y hy => h.mid.sendq_kind y (by rw [hs]; exact List.mem_cons_of_mem _ hy), h.mid.recvq_kind⟩, h.live⟩
  refine ⟨DInv_append hI x _ rfl hlen (by show d.nrecv = _; rw [hx]; simp [h.mid.nrecv_eq]) h.mid.nrecv_le, ?_⟩
  refine (refs_append _ x _).trans ?_
  show (heldOf d.slots ++ rest ++ d.recvq ++ [x]).Perm (heldOf d.slots ++ d.sendq ++ d.recvq)
  rw [hs]
  simp only [List.append_assoc]
  refine List.Perm.append_left _ ?_
  have : rest ++ (d.recvq ++ [x]) = (rest ++ d.recvq) ++ [x] := by simp
  rw [this]
  exact (List.perm_append_singleton x _).trans (by simp)

/-- What is left installable: a free slot together with a send entry, or a receive entry under the quota. -/
def DynR.starved (d : DynR) : Prop :=
  d.slots.length < d.cap ∧ (d.sendq ≠ [] ∨ (d.recvq ≠ [] ∧ d.nrecv < d.quota))

/-- The feed loop keeps the invariant and the references, takes FIFO entries from the front only, and (given
    enough fuel) stops only when nothing is installable. -/
theorem DInv_feed : ∀ (f : Nat) (d : DynR), DInv d →
    DInv (d.feed f) ∧ (d.feed f).refs.Perm d.refs ∧ (d.feed f).base = d.base ∧ (d.feed f).cap = d.cap ∧
    (d.feed f).quota = d.quota ∧ (∃ a b, d.sendq = a ++ (d.feed f).sendq ∧ d.recvq = b ++ (d.feed f).recvq) ∧
    (d.cap ≤ d.slots.length + f → ¬ (d.feed f).starved) := by
  intro f
  induction f with
  | zero =>
    intro d h
    refine ⟨h, List.Perm.refl _, rfl, rfl, rfl, ⟨[], [], rfl, rfl⟩, ?_⟩
    intro hf hst
    have := hst.1
    simp only [DynR.feed] at this
    omega
  | succ f ih =>
    intro d h
    unfold DynR.feed
    by_cases hc : d.slots.length < d.cap ∧ (d.sendq ≠ [] ∨ d.recvq ≠ [])
    · rw [if_pos hc]
      by_cases hq : d.nrecv < d.quota ∧ d.recvq ≠ []
      · obtain ⟨x, rest, hr⟩ := List.exists_cons_of_ne_nil hq.2
        rw [push_recv hq.1 x rest hr]
        obtain ⟨k1, k2⟩ := DInv_push_recv h hc.1 hq.1 x rest hr
        obtain ⟨i1, i2, i3, i4, i5, ⟨a, b, i6, i7⟩, i8⟩ := ih _ k1
        refine ⟨i1, i2.trans k2, i3, i4, i5, ⟨a, x :: b, i6, ?_⟩, ?_⟩
        · rw [hr]; show x :: rest = x :: b ++ _; rw [List.cons_append]; congr 1
        · intro hf
          apply i8
          show d.cap ≤ (d.slots ++ [dynSlot x _ true]).length + f
          simp; omega
      · have hq' : ¬ d.nrecv < d.quota ∨ d.recvq = [] := by
          by_cases h1 : d.nrecv < d.quota
          · right
            apply Classical.byContradiction
            intro h2; exact hq ⟨h1, h2⟩
          · left; exact h1
        cases hs : d.sendq with
        | nil =>
          rw [push_none hq' hs]
          refine ⟨h, List.Perm.refl _, rfl, rfl, rfl, ⟨[], [], by simp [hs], by simp⟩, ?_⟩
          intro _ hst
          rcases hst.2 with h1 | h1
          · exact h1 hs
          · rcases hq' with h2 | h2
            · exact h2 h1.2
            · exact h1.1 h2
        | cons x rest =>
          rw [push_send hq' x rest hs]
          obtain ⟨k1, k2⟩ := DInv_push_send h hc.1 x rest hs
          obtain ⟨i1, i2, i3, i4, i5, ⟨a, b, i6, i7⟩, i8⟩ := ih _ k1
          refine ⟨i1, i2.trans k2, i3, i4, i5, ⟨x :: a, b, ?_, i7⟩, ?_⟩
          · show x :: rest = x :: a ++ _; rw [List.cons_append]; congr 1
          · intro hf
            apply i8
            show d.cap ≤ (d.slots ++ [dynSlot x _ _]).length + f
            simp; omega
    · rw [if_neg hc]
      refine ⟨h, List.Perm.refl _, rfl, rfl, rfl, ⟨[], [], rfl, rfl⟩, ?_⟩
      intro _ hst
      apply hc
      refine ⟨hst.1, ?_⟩
      rcases hst.2 with h1 | h1
      · exact Or.inl h1
      · exact Or.inr h1.1

end ParsecVerif.CommEngine
