import ParsecVerif.Proofs.RwLockW
/-!
  Safety consequences of the invariant: mutual exclusion (in terms of the occupancy observations
  `readersIn`/`writersIn` and in terms of thread indices) and the order in which writers enter.
-/
namespace ParsecVerif.RwLock

theorem writersIn_eq (s : State) : writersIn s = cnt .wIn s.th := by
  unfold writersIn cnt
  induction s.th with
  | nil => rfl
  | cons a t ih =>
    obtain ⟨pc, prog⟩ := a
    simp only [List.filter_cons, List.map_cons, List.count_cons]
    cases pc with
    | rSpin w => by_cases a : w = 2 <;> by_cases b : w = 3 <;> simp [cls, ih, a, b]
    | _ => simp [cls, ih]

theorem readersIn_eq (s : State) : readersIn s = cnt .rIn s.th := by
  unfold readersIn cnt
  induction s.th with
  | nil => rfl
  | cons a t ih =>
    obtain ⟨pc, prog⟩ := a
    simp only [List.filter_cons, List.map_cons, List.count_cons]
    cases pc with
    | rSpin w => by_cases a : w = 2 <;> by_cases b : w = 3 <;> simp [cls, ih, a, b]
    | _ => simp [cls, ih]

/-- two distinct threads of the same class -/
theorem cnt_two (l : List Thread) (i j : Nat) (a b : Thread) (hij : i ≠ j) (hi : l[i]? = some a) (hj : l[j]? = some b)
    (c : Cls) (ha : cls a.pc = c) (hb : cls b.pc = c) : 2 ≤ cnt c l := by
  -- park thread i somewhere else: thread j is still counted
  have key : ∀ y : Thread, cls y.pc ≠ c → 2 ≤ cnt c l := by
    intro y hy
    have m := moves l i a y hi c
    have hp := cnt_pos_other l i j y b (Ne.symm hij) hj
    rw [hb] at hp
    rw [if_pos ha, if_neg hy] at m
    omega
  by_cases hc : c = .done
  · exact key ⟨.idle, []⟩ (by rw [hc]; simp [cls])
  · exact key ⟨.done, []⟩ (by simp only [cls]; exact fun h => hc h.symm)

/-- **Mutual exclusion (counting form).**  At most one thread is in the write critical section, and
    when one is, no thread is in the read critical section — not even between its last access to the
    lock in `rdlock` and its first access in `rdunlock`. -/
theorem excl_counts (s : State) (h : Inv s) :
    writersIn s ≤ 1 ∧ (writersIn s = 1 → readersIn s = 0) ∧
    (1 ≤ n s .wF + n s .wIn + n s .wWmb + n s .wAnd →
      n s .wF + n s .wIn + n s .wWmb + n s .wAnd = 1 ∧ n s .rF + n s .rIn + n s .rWmb + n s .rOut = 0) := by
  rw [writersIn_eq, readersIn_eq]
  have hph := h.phase
  simp only [Phase, Rent, n] at hph
  simp only [n]
  refine ⟨?_, ?_, ?_⟩ <;> rcases hph with hA | hB | hC | hD <;> omega

/-- **Mutual exclusion (thread form).** -/
theorem excl_threads (s : State) (h : Inv s) (i j t : Nat) (a b : Thread) (hij : i ≠ j)
    (hi : s.th[i]? = some a) (hj : s.th[j]? = some b) (ha : a.pc = .wIn t) :
    b.pc ≠ .rIn ∧ ∀ t', b.pc ≠ .wIn t' := by
  obtain ⟨h1, h2, _⟩ := excl_counts s h
  rw [writersIn_eq] at h1 h2
  rw [readersIn_eq] at h2
  have hpa := cnt_pos s.th i a hi
  rw [ha] at hpa
  simp only [cls] at hpa
  constructor
  · intro hb
    have hpb := cnt_pos s.th j b hj
    rw [hb] at hpb
    simp only [cls] at hpb
    omega
  · intro t' hb
    have := cnt_two s.th i j a b hij hi hj .wIn (by rw [ha]; rfl) (by rw [hb]; rfl)
    omega

/-! ## Writers enter in ticket order -/

/-- instrumented step: the log records the ticket of every writer at the moment it enters the write
    critical section (the `rmb` that ends `wrlock`) -/
def stepL (p : State × List Nat) (i : Nat) : State × List Nat :=
  (step 0 p.1 i, match pcOf p.1 i with
    | .wFence t => p.2 ++ [t]
    | _ => p.2)

def runL (s : State) (sched : List Nat) : State × List Nat := sched.foldl stepL (s, [])

theorem runL_fst (s : State) (log : List Nat) (sched : List Nat) :
    (sched.foldl stepL (s, log)).1 = run 0 s sched := by
  unfold run
  induction sched generalizing s log with
  | nil => rfl
  | cons t ts ih => exact ih _ _

/-- number of write critical sections entered so far, in terms of the state -/
def entered (s : State) : Nat := s.wout + n s .wIn + n s .wWmb + n s .wAnd + n s .wLoad + n s .wStore

theorem entered_step (s : State) (k : Nat) (h : Inv s) :
    entered (step 0 s k) = entered s + (match pcOf s k with
      | .wFence _ => 1
      | _ => 0) := by
  unfold step pcOf
  cases hk : s.th[k]? with
  | none => rfl
  | some th =>
    obtain ⟨pc, prog⟩ := th
    have hme := h.pt k _ hk
    show entered (stepT 0 s k pc prog) = _
    cases pc <;> simp only [stepT, setT, Nat.mod_zero]
    case idle =>
      cases prog with
      | nil =>
        have mv := moves s.th k _ ⟨.done, []⟩ hk; mv20 mv; simp only [entered, n]; omega
      | cons a p =>
        cases a
        · have mv := moves s.th k _ ⟨.rAdd, p⟩ hk; mv20 mv; simp only [entered, n]; omega
        · have mv := moves s.th k _ ⟨.wTick, p⟩ hk; mv20 mv; simp only [entered, n]; omega
    case done => rfl
    case rAdd =>
      generalize s.rin % 4 = w
      by_cases h4 : w = 0
      · rw [if_pos h4]; have mv := moves s.th k _ ⟨.rFence, prog⟩ hk; mv20 mv; simp only [entered, n]; omega
      · rw [if_neg h4]
        have mv := moves s.th k _ ⟨.rSpin w, prog⟩ hk
        by_cases a : w = 2
        · subst a; mv20 mv; simp only [entered, n]; omega
        · by_cases b : w = 3
          · subst b; mv20 mv; simp only [entered, n]; omega
          · have e : cls (Pc.rSpin w) = .rsX := by simp [cls, a, b]
            simp only [e] at mv
            mv20 mv; simp only [entered, n]; omega
    case rSpin w =>
      by_cases h4 : w = s.rin % 4
      · rw [if_pos h4]; rfl
      · rw [if_neg h4]
        have mv := moves s.th k _ ⟨.rFence, prog⟩ hk
        simp only [PT, PTv] at hme
        rcases hme with rfl | rfl <;> (mv20 mv; simp only [entered, n]; omega)
    case rFence => have mv := moves s.th k _ ⟨.rIn, prog⟩ hk; mv20 mv; simp only [entered, n]; omega
    case rIn => have mv := moves s.th k _ ⟨.rWmb, prog⟩ hk; mv20 mv; simp only [entered, n]; omega
    case rWmb => have mv := moves s.th k _ ⟨.rOut, prog⟩ hk; mv20 mv; simp only [entered, n]; omega
    case rOut => have mv := moves s.th k _ ⟨.idle, prog⟩ hk; mv20 mv; simp only [entered, n]; omega
    case wTick => have mv := moves s.th k _ ⟨.wSpin1 s.win, prog⟩ hk; mv20 mv; simp only [entered, n]; omega
    case wSpin1 t =>
      by_cases hw : s.wout = t
      · rw [if_pos hw]; have mv := moves s.th k _ ⟨.wAdd t, prog⟩ hk; mv20 mv; simp only [entered, n]; omega
      · rw [if_neg hw]; rfl
    case wAdd t => have mv := moves s.th k _ ⟨.wSpin2 t s.rin, prog⟩ hk; mv20 mv; simp only [entered, n]; omega
    case wSpin2 t rt =>
      by_cases hr : s.rout = rt
      · rw [if_pos hr]; have mv := moves s.th k _ ⟨.wFence t, prog⟩ hk; mv20 mv; simp only [entered, n]; omega
      · rw [if_neg hr]; rfl
    case wFence t => have mv := moves s.th k _ ⟨.wIn t, prog⟩ hk; mv20 mv; simp only [entered, n]; omega
    case wIn t => have mv := moves s.th k _ ⟨.wWmb t, prog⟩ hk; mv20 mv; simp only [entered, n]; omega
    case wWmb t => have mv := moves s.th k _ ⟨.wAnd t, prog⟩ hk; mv20 mv; simp only [entered, n]; omega
    case wAnd t => have mv := moves s.th k _ ⟨.wLoad t, prog⟩ hk; mv20 mv; simp only [entered, n]; omega
    case wLoad t => have mv := moves s.th k _ ⟨.wStore t s.wout, prog⟩ hk; mv20 mv; simp only [entered, n]; omega
    case wStore t v =>
      have mv := moves s.th k _ ⟨.idle, prog⟩ hk; mv20 mv
      simp only [PT, PTv] at hme
      simp only [entered, n]; omega

theorem log_step (b : Nat) (s : State) (log : List Nat) (h : Inv s) (hl : log = List.range' b log.length)
    (he : b + log.length = entered s) (k : Nat) :
    (stepL (s, log) k).2 = List.range' b (stepL (s, log) k).2.length ∧
    b + (stepL (s, log) k).2.length = entered (stepL (s, log) k).1 := by
  have hs := entered_step s k h
  simp only [stepL]
  unfold pcOf at hs ⊢
  cases hk : s.th[k]? with
  | none => rw [hk] at hs; simp only at hs ⊢; exact ⟨hl, by omega⟩
  | some th =>
    rw [hk] at hs
    obtain ⟨pc, prog⟩ := th
    have hme := h.pt k _ hk
    have hpos := cnt_pos s.th k _ hk
    cases pc <;> simp only at hs ⊢ <;> first | exact ⟨hl, by omega⟩ | skip
    rename_i t
    simp only [PT, PTv] at hme
    simp only [cls] at hpos
    have hph := h.phase
    simp only [Phase, Rent, n] at hph
    have hent : entered s = t := by
      simp only [entered, n]
      rcases hph with hA | hB | hC | hD <;> omega
    rw [List.length_append, List.length_singleton]
    constructor
    · rw [List.range'_concat, ← hl]
      congr 2
      omega
    · omega

/-- **Writers enter in ticket order.**  Along every schedule, the tickets of the writers entering the
    write critical section are `b, b+1, b+2, …` (consecutive, starting from the initial `wout`). -/
theorem log_run (a b : Nat) (progs : List (List Kind)) (sched : List Nat) :
    (runL (init a b progs) sched).2 = List.range' b (runL (init a b progs) sched).2.length := by
  unfold runL
  have key : ∀ (s : State) (log : List Nat), Inv s → log = List.range' b log.length → b + log.length = entered s →
      (sched.foldl stepL (s, log)).2 = List.range' b (sched.foldl stepL (s, log)).2.length := by
    induction sched with
    | nil => intro s log _ hl _; exact hl
    | cons t ts ih =>
      intro s log h hl he
      obtain ⟨h1, h2⟩ := log_step b s log h hl he t
      exact ih (stepL (s, log) t).1 (stepL (s, log) t).2 (inv_step s t h) h1 h2
  apply key _ _ (inv_init a b progs) rfl
  simp only [entered, n, init, cnt_init]
  simp

end ParsecVerif.RwLock
