import ParsecVerif.Model.Ptg
/-!
  Helper lemmas for the PTG language layer (core Lean only): the loop `rangeVals`, the nested enumeration
  `enumSem` (membership = range constraints, no duplicates, prefixes), the startup enumeration, the min / range
  collection of `internal_init` and the mixed-radix key.
-/
namespace ParsecVerif.Ptg

/-! ## `rangeVals` -/

/-- the range constraint of a JDF range `lo .. hi .. step` on a value -/
def InRange (lo hi st v : Int) : Prop :=
  (0 < st ∧ lo ≤ v ∧ v ≤ hi ∧ (v - lo) % st = 0) ∨ (st < 0 ∧ hi ≤ v ∧ v ≤ lo ∧ (lo - v) % (-st) = 0)

/-- multiples of `d` up to `m`:  `{d*i | i ≤ m/d}` = `{x | 0 ≤ x ≤ m, d ∣ x}` -/
theorem steps_iff (d m x : Int) (hd : 0 < d) (hm : 0 ≤ m) :
    (∃ i : Nat, i < (m / d).toNat + 1 ∧ x = d * (i : Int)) ↔ (0 ≤ x ∧ x ≤ m ∧ x % d = 0) := by
  have hq : 0 ≤ m / d := Int.ediv_nonneg hm (Int.le_of_lt hd)
  constructor
  · rintro ⟨i, hi, rfl⟩
    have hi' : (i : Int) ≤ m / d := by
      have := (Int.le_toNat (n := i) hq).1 (by omega)
      exact this
    refine ⟨Int.mul_nonneg (Int.le_of_lt hd) (Int.natCast_nonneg i), ?_, Int.mul_emod_right d i⟩
    have h1 : d * (i : Int) ≤ d * (m / d) := Int.mul_le_mul_of_nonneg_left hi' (Int.le_of_lt hd)
    have h2 : d * (m / d) ≤ m := Int.mul_ediv_self_le (by omega)
    omega
  · rintro ⟨h0, h1, h2⟩
    have hdvd : d ∣ x := Int.dvd_of_emod_eq_zero h2
    have hx : d * (x / d) = x := Int.mul_ediv_cancel' hdvd
    have hq0 : 0 ≤ x / d := Int.ediv_nonneg h0 (Int.le_of_lt hd)
    refine ⟨(x / d).toNat, ?_, ?_⟩
    · have hle : x / d ≤ m / d := Int.ediv_le_ediv hd h1
      have : (x / d).toNat ≤ (m / d).toNat := by
        have a := Int.toNat_of_nonneg hq0
        have b := Int.toNat_of_nonneg hq
        omega
      omega
    · rw [Int.toNat_of_nonneg hq0, hx]

theorem mem_rangeVals {lo hi st v : Int} : v ∈ rangeVals lo hi st ↔ InRange lo hi st v := by
  unfold rangeVals InRange
  by_cases hp : 0 < st
  · simp only [hp, if_true]
    by_cases hle : lo ≤ hi
    · simp only [hle, if_true, List.mem_map, List.mem_range]
      have key := steps_iff st (hi - lo) (v - lo) hp (by omega)
      constructor
      · rintro ⟨i, hi', rfl⟩
        have := key.1 ⟨i, hi', by omega⟩
        left; refine ⟨trivial, ?_, ?_, this.2.2⟩ <;> omega
      · rintro (⟨_, h1, h2, h3⟩ | ⟨h, _⟩)
        · obtain ⟨i, hi', hx⟩ := key.2 ⟨by omega, by omega, h3⟩
          exact ⟨i, hi', by omega⟩
        · omega
    · simp only [hle, if_false, List.not_mem_nil, false_iff]
      rintro (⟨_, h1, h2, _⟩ | ⟨h, _⟩) <;> omega
  · simp only [hp, if_false]
    by_cases hn : st < 0
    · simp only [hn, if_true]
      by_cases hle : hi ≤ lo
      · simp only [hle, if_true, List.mem_map, List.mem_range]
        have key := steps_iff (-st) (lo - hi) (lo - v) (by omega) (by omega)
        constructor
        · rintro ⟨i, hi', rfl⟩
          have hneg : lo - (lo + st * (i : Int)) = -st * (i : Int) := by
            rw [Int.neg_mul]; omega
          have := key.1 ⟨i, hi', hneg⟩
          right; refine ⟨trivial, ?_, ?_, this.2.2⟩ <;> omega
        · rintro (⟨h, _⟩ | ⟨_, h1, h2, h3⟩)
          · first | omega | cases h
          · obtain ⟨i, hi', hx⟩ := key.2 ⟨by omega, by omega, h3⟩
            refine ⟨i, hi', ?_⟩
            rw [Int.neg_mul] at hx; omega
      · simp only [hle, if_false, List.not_mem_nil, false_iff]
        rintro (⟨h, _⟩ | ⟨_, h1, h2, _⟩) <;> omega
    · simp only [hn, if_false, List.not_mem_nil, false_iff]
      rintro (⟨h, _⟩ | ⟨h, _⟩) <;> omega

theorem rangeVals_bounds {lo hi st v : Int} (h : v ∈ rangeVals lo hi st) : min lo hi ≤ v ∧ v ≤ max lo hi := by
  rcases mem_rangeVals.1 h with ⟨_, h1, h2, _⟩ | ⟨_, h1, h2, _⟩ <;> omega

theorem arith_nodup (a d : Int) (hd : d ≠ 0) (n : Nat) :
    ((List.range n).map (fun (i : Nat) => a + d * (i : Int))).Nodup := by
  rw [List.nodup_iff_pairwise_ne, List.pairwise_map]
  have := @List.nodup_range n
  rw [List.nodup_iff_pairwise_ne] at this
  refine this.imp ?_
  intro i j hij heq
  apply hij
  have h1 : d * (i : Int) = d * (j : Int) := by omega
  have := Int.eq_of_mul_eq_mul_left hd h1
  omega

theorem nodup_rangeVals (lo hi st : Int) : (rangeVals lo hi st).Nodup := by
  unfold rangeVals
  split
  · split
    · exact arith_nodup lo st (by omega) _
    · exact List.nodup_nil
  · split
    · split
      · exact arith_nodup lo st (by omega) _
      · exact List.nodup_nil
    · exact List.nodup_nil

/-! ## `enumSem` -/

/-- The set of local assignments satisfying the range constraints: every range local lies in its range
    (bounds and step evaluated on the earlier locals), every derived local equals its expression. -/
def Sat : List LocalSem → List Int → List Int → Prop
  | [], _, s => s = []
  | .range lo hi st :: ds, pre, s => ∃ v t, s = v :: t ∧ InRange (lo pre) (hi pre) (st pre) v ∧ Sat ds (pre ++ [v]) t
  | .expr f :: ds, pre, s => ∃ t, s = f pre :: t ∧ Sat ds (pre ++ [f pre]) t

theorem mem_enumSem_iff (ds : List LocalSem) : ∀ (pre s : List Int), s ∈ enumSem ds pre ↔ Sat ds pre s := by
  induction ds with
  | nil => intro pre s; simp [enumSem, Sat]
  | cons d ds ih =>
    intro pre s
    cases d with
    | range lo hi st =>
      simp only [enumSem, Sat, List.mem_flatMap, List.mem_map]
      constructor
      · rintro ⟨v, hv, t, ht, rfl⟩
        exact ⟨v, t, rfl, mem_rangeVals.1 hv, (ih _ _).1 ht⟩
      · rintro ⟨v, t, rfl, hv, ht⟩
        exact ⟨v, mem_rangeVals.2 hv, t, (ih _ _).2 ht, rfl⟩
    | expr f =>
      simp only [enumSem, Sat, List.mem_map]
      constructor
      · rintro ⟨t, ht, rfl⟩
        exact ⟨t, rfl, (ih _ _).1 ht⟩
      · rintro ⟨t, rfl, ht⟩
        exact ⟨t, (ih _ _).2 ht, rfl⟩

theorem length_of_mem_enumSem (ds : List LocalSem) : ∀ (pre s : List Int), s ∈ enumSem ds pre → s.length = ds.length := by
  induction ds with
  | nil => intro pre s h; simp [enumSem] at h; simp [h]
  | cons d ds ih =>
    intro pre s h
    cases d with
    | range lo hi st =>
      simp only [enumSem, List.mem_flatMap, List.mem_map] at h
      obtain ⟨v, _, t, ht, rfl⟩ := h
      simp [ih _ _ ht]
    | expr f =>
      simp only [enumSem, List.mem_map] at h
      obtain ⟨t, ht, rfl⟩ := h
      simp [ih _ _ ht]

theorem nodup_map_cons (v : Int) (l : List (List Int)) (h : l.Nodup) : (l.map (v :: ·)).Nodup := by
  rw [List.nodup_iff_pairwise_ne] at *
  rw [List.pairwise_map]
  exact h.imp (fun hne heq => hne (List.cons.inj heq).2)

/-- The enumeration never produces the same assignment twice. -/
theorem nodup_enumSem (ds : List LocalSem) : ∀ pre : List Int, (enumSem ds pre).Nodup := by
  induction ds with
  | nil => intro pre; simp [enumSem]
  | cons d ds ih =>
    intro pre
    cases d with
    | range lo hi st =>
      simp only [enumSem]
      rw [List.nodup_iff_pairwise_ne, List.pairwise_flatMap]
      refine ⟨fun v _ => ?_, ?_⟩
      · have := nodup_map_cons v _ (ih (pre ++ [v]))
        rwa [List.nodup_iff_pairwise_ne] at this
      · have hnd := nodup_rangeVals (lo pre) (hi pre) (st pre)
        rw [List.nodup_iff_pairwise_ne] at hnd
        refine hnd.imp ?_
        intro v w hvw x hx y hy hxy
        simp only [List.mem_map] at hx hy
        obtain ⟨_, _, rfl⟩ := hx
        obtain ⟨_, _, rfl⟩ := hy
        exact hvw (List.cons.inj hxy).1
    | expr f =>
      simp only [enumSem]
      exact nodup_map_cons _ _ (ih _)

/-- appending one more (range) local: its loop header is reached with every assignment of the earlier locals -/
theorem mem_enumSem_snoc_range (done : List LocalSem) (lo hi st : List Int → Int) :
    ∀ (q pre : List Int) (v : Int), pre ∈ enumSem done q → v ∈ rangeVals (lo (q ++ pre)) (hi (q ++ pre)) (st (q ++ pre)) →
      pre ++ [v] ∈ enumSem (done ++ [.range lo hi st]) q := by
  induction done with
  | nil =>
    intro q pre v hp hv
    simp only [enumSem, List.mem_singleton] at hp
    subst hp
    simp only [List.append_nil] at hv
    simp only [List.nil_append, enumSem, List.mem_flatMap, List.mem_map, List.mem_singleton]
    exact ⟨v, hv, [], rfl, rfl⟩
  | cons d done ih =>
    intro q pre v hp hv
    cases d with
    | range lo' hi' st' =>
      simp only [List.cons_append, enumSem, List.mem_flatMap, List.mem_map] at hp ⊢
      obtain ⟨w, hw, t, ht, rfl⟩ := hp
      refine ⟨w, hw, t ++ [v], ?_, rfl⟩
      apply ih (q ++ [w]) t v ht
      simpa [List.append_assoc] using hv
    | expr f =>
      simp only [List.cons_append, enumSem, List.mem_map] at hp ⊢
      obtain ⟨t, ht, rfl⟩ := hp
      refine ⟨t ++ [v], ?_, rfl⟩
      apply ih (q ++ [f q]) t v ht
      simpa [List.append_assoc] using hv

theorem mem_enumSem_snoc_expr (done : List LocalSem) (g : List Int → Int) :
    ∀ (q pre : List Int), pre ∈ enumSem done q → pre ++ [g (q ++ pre)] ∈ enumSem (done ++ [.expr g]) q := by
  induction done with
  | nil =>
    intro q pre hp
    simp only [enumSem, List.mem_singleton] at hp
    subst hp
    simp [enumSem]
  | cons d done ih =>
    intro q pre hp
    cases d with
    | range lo' hi' st' =>
      simp only [List.cons_append, enumSem, List.mem_flatMap, List.mem_map] at hp ⊢
      obtain ⟨w, hw, t, ht, rfl⟩ := hp
      refine ⟨w, hw, t ++ [g (q ++ w :: t)], ?_, rfl⟩
      have := ih (q ++ [w]) t ht
      simpa [List.append_assoc] using this
    | expr f =>
      simp only [List.cons_append, enumSem, List.mem_map] at hp ⊢
      obtain ⟨t, ht, rfl⟩ := hp
      refine ⟨t ++ [g (q ++ f q :: t)], ?_, rfl⟩
      have := ih (q ++ [f q]) t ht
      simpa [List.append_assoc] using this

/-! ## min / range collection and the key -/

theorem minFold_le (lo hi : List Int → Int) (visits : List (List Int)) :
    ∀ (init : Int), (visits.foldl (fun m pre => min m (min (lo pre) (hi pre))) init ≤ init) ∧
      ∀ x ∈ visits, visits.foldl (fun m pre => min m (min (lo pre) (hi pre))) init ≤ min (lo x) (hi x) := by
  induction visits with
  | nil => intro init; simp
  | cons y ys ih =>
    intro init
    simp only [List.foldl_cons, List.mem_cons]
    have h := ih (min init (min (lo y) (hi y)))
    refine ⟨by omega, ?_⟩
    rintro x (rfl | hx)
    · omega
    · exact h.2 x hx

theorem le_maxFold (lo hi : List Int → Int) (visits : List (List Int)) :
    ∀ (init : Int), (init ≤ visits.foldl (fun m pre => max m (max (lo pre) (hi pre))) init) ∧
      ∀ x ∈ visits, max (lo x) (hi x) ≤ visits.foldl (fun m pre => max m (max (lo pre) (hi pre))) init := by
  induction visits with
  | nil => intro init; simp
  | cons y ys ih =>
    intro init
    simp only [List.foldl_cons, List.mem_cons]
    have h := ih (max init (max (lo y) (hi y)))
    refine ⟨by omega, ?_⟩
    rintro x (rfl | hx)
    · omega
    · exact h.2 x hx

/-- what the key functions need from the stored (min, range): a range parameter's digit `v − min` lies in
    `[0, range)`; a derived local has `(min, range) = (0, 1)`. -/
def DigitsOK : List KInfo → List LocalSem → List Int → Prop
  | [], [], [] => True
  | k :: ks, .range _ _ _ :: ds, v :: vs => k.isParam = true ∧ k.min ≤ v ∧ v < k.min + k.range ∧ DigitsOK ks ds vs
  | k :: ks, .expr _ :: ds, _ :: vs => (k.min = 0 ∧ k.range = 1) ∧ DigitsOK ks ds vs
  | _, _, _ => False

/-- The (min, range) pairs collected by `internal_init` bound the digits of every enumerated instance:
    the header of local `j` is visited with exactly the assignments `enumSem (all.take j) []`, and a loop
    variable stays between its start and end. -/
theorem digitsOK_aux (all : List LocalSem) :
    ∀ (ds done : List LocalSem) (ps : List Bool) (pre : List Int),
      all = done ++ ds → pre ∈ enumSem done [] → RangesAreParams ds ps →
      ∀ s ∈ enumSem ds pre, DigitsOK (keyInfoFrom all ps done.length ds) ds s := by
  intro ds
  induction ds with
  | nil =>
    intro done ps pre _ _ _ s hs
    simp only [enumSem, List.mem_singleton] at hs
    subst hs
    simp [keyInfoFrom, DigitsOK]
  | cons d ds ih =>
    intro done ps pre hall hpre hrap s hs
    cases d with
    | range lo hi st =>
      simp only [enumSem, List.mem_flatMap, List.mem_map] at hs
      obtain ⟨v, hv, t, ht, rfl⟩ := hs
      obtain ⟨hp, hrap'⟩ := hrap
      have htake : all.take done.length = done := by rw [hall]; simp
      have hb := rangeVals_bounds hv
      have hmin := (minFold_le lo hi (enumSem done []) int32Max).2 pre hpre
      have hmax := (le_maxFold lo hi (enumSem done []) 0).2 pre hpre
      have hpre' : pre ++ [v] ∈ enumSem (done ++ [.range lo hi st]) [] :=
        mem_enumSem_snoc_range done lo hi st [] pre v hpre (by simpa using hv)
      have hrec := ih (done ++ [.range lo hi st]) ps.tail (pre ++ [v]) (by rw [hall]; simp) hpre' hrap' t ht
      simp only [List.length_append, List.length_singleton] at hrec
      simp only [keyInfoFrom, hp, if_true, htake, DigitsOK, minFold, maxFold]
      refine ⟨trivial, by omega, by omega, hrec⟩
    | expr f =>
      simp only [enumSem, List.mem_map] at hs
      obtain ⟨t, ht, rfl⟩ := hs
      have hpre' : pre ++ [f pre] ∈ enumSem (done ++ [.expr f]) [] := by
        have := mem_enumSem_snoc_expr done f [] pre hpre
        simpa using this
      have hrec := ih (done ++ [.expr f]) ps.tail (pre ++ [f pre]) (by rw [hall]; simp) hpre' hrap t ht
      simp only [List.length_append, List.length_singleton] at hrec
      simp only [keyInfoFrom, DigitsOK]
      exact ⟨⟨trivial, trivial⟩, hrec⟩

theorem digitsOK_of_mem (ds : List LocalSem) (ps : List Bool) (hrap : RangesAreParams ds ps) :
    ∀ a ∈ enumSem ds [], DigitsOK (keyInfo ds ps) ds a := by
  have := digitsOK_aux ds ds [] ps [] rfl (by simp [enumSem]) hrap
  simpa [keyInfo] using this

/-- Horner form of the key: `d₀ + R₀·(d₁ + R₁·(…))` -/
def keyH : List KInfo → List Int → Int
  | ⟨true, mn, rg⟩ :: is, v :: vs => (v - mn) + rg * keyH is vs
  | ⟨false, _, _⟩ :: is, _ :: vs => keyH is vs
  | _, _ => 0

/-- the running-multiplier sum computed by the generated `make_key` equals the Horner form -/
theorem keyZFrom_eq (is : List KInfo) : ∀ (vs : List Int) (mult acc : Int),
    keyZFrom is vs mult acc = acc + mult * keyH is vs := by
  induction is with
  | nil => intro vs mult acc; cases vs <;> simp [keyZFrom, keyH]
  | cons k is ih =>
    intro vs mult acc
    obtain ⟨p, mn, rg⟩ := k
    cases vs with
    | nil => cases p <;> simp [keyZFrom, keyH]
    | cons v vs =>
      cases p with
      | true =>
        simp only [keyZFrom, keyH, ih]
        rw [Int.mul_add, Int.mul_assoc, Int.add_assoc, Int.mul_comm (v - mn) mult]
      | false =>
        simp only [keyZFrom, keyH, ih]

theorem keyZ_eq_keyH (is : List KInfo) (a : List Int) : keyZ is a = keyH is a := by
  simp [keyZ, keyZFrom_eq]

/-- uniqueness of a mixed-radix digit -/
theorem digit_unique {d e r x y : Int} (hd0 : 0 ≤ d) (hd : d < r) (he0 : 0 ≤ e) (he : e < r)
    (h : d + r * x = e + r * y) : d = e ∧ x = y := by
  have h1 : (d + r * x) % r = d := by rw [Int.add_mul_emod_self_left, Int.emod_eq_of_lt hd0 hd]
  have h2 : (e + r * y) % r = e := by rw [Int.add_mul_emod_self_left, Int.emod_eq_of_lt he0 he]
  have hde : d = e := by rw [← h1, ← h2, h]
  refine ⟨hde, ?_⟩
  have : r * x = r * y := by omega
  exact Int.eq_of_mul_eq_mul_left (by omega) this

/-- Successive-digit decoding: two enumerated assignments with the same (unbounded) key are equal.  A derived
    local's value is a function of the earlier locals, which have been decoded already. -/
theorem keyH_inj (ds : List LocalSem) : ∀ (is : List KInfo) (pre s t : List Int),
    s ∈ enumSem ds pre → t ∈ enumSem ds pre → DigitsOK is ds s → DigitsOK is ds t →
    keyH is s = keyH is t → s = t := by
  induction ds with
  | nil =>
    intro is pre s t hs ht _ _ _
    simp only [enumSem, List.mem_singleton] at hs ht
    rw [hs, ht]
  | cons d ds ih =>
    intro is pre s t hs ht hds hdt hk
    cases d with
    | range lo hi st =>
      simp only [enumSem, List.mem_flatMap, List.mem_map] at hs ht
      obtain ⟨v, _, s', hs', rfl⟩ := hs
      obtain ⟨w, _, t', ht', rfl⟩ := ht
      cases is with
      | nil => simp [DigitsOK] at hds
      | cons k ks =>
        obtain ⟨p, mn, rg⟩ := k
        simp only [DigitsOK] at hds hdt
        obtain ⟨hp, h1, h2, hds'⟩ := hds
        obtain ⟨_, h3, h4, hdt'⟩ := hdt
        subst hp
        simp only [keyH] at hk
        obtain ⟨hvw, hK⟩ := digit_unique (by omega) (by omega) (by omega) (by omega) hk
        have hvw' : v = w := by omega
        subst hvw'
        rw [ih ks (pre ++ [v]) s' t' hs' ht' hds' hdt' hK]
    | expr f =>
      simp only [enumSem, List.mem_map] at hs ht
      obtain ⟨s', hs', rfl⟩ := hs
      obtain ⟨t', ht', rfl⟩ := ht
      cases is with
      | nil => simp [DigitsOK] at hds
      | cons k ks =>
        obtain ⟨p, mn, rg⟩ := k
        simp only [DigitsOK] at hds hdt
        obtain ⟨⟨hmn, hrg⟩, hds'⟩ := hds
        obtain ⟨_, hdt'⟩ := hdt
        subst hmn; subst hrg
        have hK : keyH ks s' = keyH ks t' := by
          cases p with
          | true => simp only [keyH] at hk; omega
          | false => simpa only [keyH] using hk
        rw [ih ks (pre ++ [f pre]) s' t' hs' ht' hds' hdt' hK]

/-! ## key_print -/

/-- the parameter values selected by the stored `isParam` flags -/
def paramsByInfo : List KInfo → List Int → List Int
  | ⟨true, _, _⟩ :: is, v :: vs => v :: paramsByInfo is vs
  | ⟨false, _, _⟩ :: is, _ :: vs => paramsByInfo is vs
  | _, _ => []

theorem toI32_roundtrip (d mn : Int) (h0 : 0 ≤ d) (h1 : -2147483648 ≤ mn) (h2 : d + mn < 2147483648) :
    toI32 (toU64 (d + toU64 mn)) = d + mn := by
  unfold toI32 toU64 two64 two32
  split <;> omega

theorem toU64_small (r : Int) (h0 : 0 ≤ r) (h1 : r < 18446744073709551616) : toU64 r = r := by
  unfold toU64 two64; omega

theorem keyH_nonneg (ds : List LocalSem) : ∀ (is : List KInfo) (s : List Int),
    DigitsOK is ds s → PrintHyp is ds → 0 ≤ keyH is s := by
  induction ds with
  | nil =>
    intro is s h _
    cases is <;> cases s <;> first | simp [keyH] | simp [DigitsOK] at h
  | cons d ds ih =>
    intro is s h hp
    cases is with
    | nil => cases d <;> simp [DigitsOK] at h
    | cons k ks =>
      obtain ⟨p, mn, rg⟩ := k
      cases s with
      | nil => cases d <;> simp [DigitsOK] at h
      | cons v vs =>
        cases d with
        | range lo hi st =>
          simp only [DigitsOK] at h
          simp only [PrintHyp] at hp
          obtain ⟨hpp, h1, h2, h'⟩ := h
          subst hpp
          simp only [keyH]
          have := ih ks vs h' hp.2.2
          have : 0 ≤ rg * keyH ks vs := Int.mul_nonneg (by omega) this
          omega
        | expr f =>
          simp only [DigitsOK] at h
          simp only [PrintHyp] at hp
          obtain ⟨hpp, hp'⟩ := hp
          subst hpp
          simp only [keyH]
          exact ih ks vs h.2 hp'

/-- `key_print` inverts the (unwrapped) key digit by digit when every parameter is a range parameter. -/
theorem keyPrintVals_keyH (ds : List LocalSem) : ∀ (is : List KInfo) (s : List Int),
    DigitsOK is ds s → PrintHyp is ds → keyPrintVals is (keyH is s) = paramsByInfo is s := by
  induction ds with
  | nil =>
    intro is s h _
    cases is <;> cases s <;> simp [DigitsOK] at h
    simp [keyPrintVals, paramsByInfo]
  | cons d ds ih =>
    intro is s h hp
    cases is with
    | nil => cases d <;> simp [DigitsOK] at h
    | cons k ks =>
      obtain ⟨p, mn, rg⟩ := k
      cases s with
      | nil => cases d <;> simp [DigitsOK] at h
      | cons v vs =>
        cases d with
        | range lo hi st =>
          simp only [DigitsOK] at h
          simp only [PrintHyp] at hp
          obtain ⟨hpp, h1, h2, h'⟩ := h
          obtain ⟨hb1, hb2, hp'⟩ := hp
          subst hpp
          have hrg : toU64 rg = rg := toU64_small rg (by omega) (by omega)
          have hmod : ((v - mn) + rg * keyH ks vs) % rg = v - mn := by
            rw [Int.add_mul_emod_self_left, Int.emod_eq_of_lt (by omega) (by omega)]
          have hdiv : ((v - mn) + rg * keyH ks vs) / rg = keyH ks vs := by
            rw [Int.add_mul_ediv_left _ _ (by omega), Int.ediv_eq_zero_of_lt (by omega) (by omega)]; omega
          simp only [keyH, keyPrintVals, paramsByInfo, hrg, hmod, hdiv, ih ks vs h' hp']
          rw [toI32_roundtrip (v - mn) mn (by omega) hb1 (by omega)]
          congr 1; omega
        | expr f =>
          simp only [DigitsOK] at h
          simp only [PrintHyp] at hp
          obtain ⟨_, h'⟩ := h
          obtain ⟨hpp, hp'⟩ := hp
          subst hpp
          simp only [keyH, keyPrintVals, paramsByInfo, ih ks vs h' hp']

theorem paramsByInfo_keyInfoFrom (all : List LocalSem) : ∀ (ds : List LocalSem) (ps : List Bool) (j : Nat) (s : List Int),
    RangesAreParams ds ps → s.length = ds.length → paramsByInfo (keyInfoFrom all ps j ds) s = paramsOf ps s := by
  intro ds
  induction ds with
  | nil =>
    intro ps j s _ hl
    cases s with
    | cons v vs => simp at hl
    | nil =>
      cases ps with
      | nil => simp [keyInfoFrom, paramsByInfo, paramsOf]
      | cons b ps' => cases b <;> simp [keyInfoFrom, paramsByInfo, paramsOf]
  | cons d ds ih =>
    intro ps j s hrap hl
    cases s with
    | nil => simp at hl
    | cons v vs =>
      have hl' : vs.length = ds.length := by simpa using hl
      cases d with
      | range lo hi st =>
        obtain ⟨hp, hrap'⟩ := hrap
        cases ps with
        | nil => simp at hp
        | cons b ps' =>
          simp only [List.headD_cons] at hp
          subst hp
          simp only [keyInfoFrom, List.headD_cons, if_true, paramsByInfo, paramsOf, List.tail_cons]
          rw [ih ps' (j + 1) vs hrap' hl']
      | expr f =>
        cases ps with
        | nil =>
          have := ih [] (j + 1) vs hrap hl'
          simp only [keyInfoFrom, List.headD_nil, paramsByInfo, List.tail_nil, this]
          cases vs <;> simp [paramsOf]
        | cons b ps' =>
          have := ih ps' (j + 1) vs hrap hl'
          cases b <;> simp only [keyInfoFrom, List.headD_cons, paramsByInfo, paramsOf, List.tail_cons, this]

/-! ## startup enumeration -/

theorem optFlatMap_some {α β : Type} (l : List α) (f : α → Option (List β)) (g : α → List β)
    (h : ∀ x ∈ l, f x = some (g x)) : optFlatMap l f = some (l.flatMap g) := by
  induction l with
  | nil => simp [optFlatMap]
  | cons x xs ih =>
    have hx := h x (by simp)
    have hxs := ih (fun y hy => h y (by simp [hy]))
    simp [optFlatMap, hx, hxs]

theorem rangeVals_empty_of_lt {lo hi st : Int} (hs : 0 < st) (h : hi < lo) : rangeVals lo hi st = [] := by
  unfold rangeVals
  simp [hs]; omega

/-- With positive steps the loops of the startup function (`k <= end; k += step`) visit exactly the assignments
    counted by `internal_init`, in the same order. -/
theorem startupSem_eq (ds : List LocalSem) : ∀ pre : List Int, StepsPositive ds pre → startupSem ds pre = some (enumSem ds pre) := by
  induction ds with
  | nil => intro pre _; simp [startupSem, enumSem]
  | cons d ds ih =>
    intro pre h
    cases d with
    | range lo hi st =>
      obtain ⟨hs, hrec⟩ := h
      have hv : startupVals (lo pre) (hi pre) (st pre) = some (rangeVals (lo pre) (hi pre) (st pre)) := by
        unfold startupVals
        by_cases hlt : hi pre < lo pre
        · simp [hlt, rangeVals_empty_of_lt hs hlt]
        · simp [hlt, hs]
      simp only [startupSem, hv, enumSem]
      apply optFlatMap_some
      intro v hv'
      rw [ih (pre ++ [v]) (hrec v hv')]
      rfl
    | expr f =>
      simp only [StepsPositive] at h
      simp only [startupSem, enumSem, ih _ h]
      rfl

end ParsecVerif.Ptg
