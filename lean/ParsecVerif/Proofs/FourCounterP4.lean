import ParsecVerif.Proofs.FourCounterP3
/-
  Struct preservation: send_up_messages on the root (the decision).
-/
namespace ParsecVerif.FourCounter

/-- when the root has heard from all its children, every other process has contributed to the wave,
    waits for its parent, and no control message is in flight -/
theorem Struct.allC {s : State} (h : Struct s) (h1 : cls (s.procs 0).st = 1) (hncl : (s.procs 0).ncl = 0) :
    ∀ q, 0 < q → q < s.n →
      cls (s.procs q).st = 2 ∧ b2n (s.gh q).c = 1 ∧ U s q = 0 ∧ D s q false = 0 ∧ D s q true = 0 := by
  have hn0 : 0 < s.n ∨ s.n = 0 := by omega
  intro q
  induction q using Nat.strongRecOn with
  | _ q ih =>
    intro h0 hq
    have old := h.edge q h0 hq
    unfold Edge at old
    by_cases hp : parent q = 0
    · have hpz := h.ncl1 0 (by omega) h1
      rw [hncl] at hpz
      have hq12 := (parent_eq_iff h0).1 hp
      have hpq : pend s q = 0 := by rcases hq12 with e | e <;> subst e <;> simp at hpz ⊢ <;> omega
      obtain ⟨a2, c1, u0⟩ := pend_zero hpq hq
      rw [a2, c1, u0] at old
      have := edge_notpend old
      exact ⟨a2, c1, u0, this.1, this.2.1⟩
    · have hpl := parent_lt h0
      obtain ⟨a2, c1, _, _, _⟩ := ih (parent q) hpl (by omega) (by omega)
      rw [a2, c1] at old
      exact edge_parent_wfp_c old

theorem rootDecide_procs_ne (s : State) {q : Nat} (e : q ≠ 0) : (rootDecide s).procs q = s.procs q := by
  simp [rootDecide, e]

theorem cls_rootAfter (n : Nat) (p : Proc) (h1 : cls p.st = 1) :
    cls (rootAfter n (accAdd p)).st = if rootRes n (accAdd p) then 3 else 1 := by
  unfold rootAfter
  split
  · rfl
  · exact h1

theorem Struct.decide {s : State} (h : Struct s) (hn : 0 < s.n) (h1 : cls (s.procs 0).st = 1)
    (hncl : (s.procs 0).ncl = 0) : Struct (rootDecide s) := by
  have hall := h.allC h1 hncl
  generalize hres : rootRes s.n (accAdd (s.procs 0)) = res
  have hcls0 : cls ((rootDecide s).procs 0).st = if res then 3 else 1 := by
    simp only [rootDecide, upd_same]; rw [cls_rootAfter _ _ h1, hres]
  have hpq : ∀ q, q ≠ 0 → (rootDecide s).procs q = s.procs q := fun q e => rootDecide_procs_ne s e
  have hc : ∀ q, ((rootDecide s).gh q).c = false := fun _ => rfl
  have hN : (rootDecide s).n = s.n := rfl
  have hU : ∀ q, U (rootDecide s) q = U s q := by
    intro q; simp [U, rootDecide, cnt_up_downs]
  have hD : ∀ q x, D (rootDecide s) q x = D s q x + if (q = 1 ∨ q = 2) ∧ q < s.n ∧ res = x then 1 else 0 := by
    intro q x; simp [D, rootDecide, cnt_down_downs, hres]
  have hpend : ∀ q, pend (rootDecide s) q = if q < s.n then 1 else 0 := by
    intro q; unfold pend; rw [hN, hc]; simp
  refine ⟨?_, ?_, ?_, ?_, ?_, ?_, ?_, ?_, ?_, ?_⟩
  · intro k hk
    simp only [rootDecide, List.mem_append] at hk
    rcases hk with hm | hm
    · have := h.pk k hm
      unfold PkOK at this ⊢
      split <;> rename_i hkk <;> simp only [hkk] at this
      · rw [hpq _ (by omega)]; exact this
      · exact this
      · trivial
    · obtain ⟨e1, e2, e3, e4, _⟩ := mem_downs hm
      unfold PkOK; rw [e1]
      refine ⟨by omega, e4, ?_⟩
      rw [e2]; unfold parent; omega
  · intro q hq0 hq
    have hq : q < s.n := hq
    have old := h.edge q hq0 hq
    obtain ⟨a2, c1, u0, d00, d10⟩ := hall q hq0 hq
    unfold Edge at old ⊢
    rw [hc, hc, hU, hD, hD, hpq q (by omega), a2, u0, d00, d10]
    rw [a2, c1, u0, d00, d10] at old
    by_cases hp : parent q = 0
    · have hq12 : q = 1 ∨ q = 2 := by have := (parent_eq_iff hq0).1 hp; omega
      rw [hp, hcls0]
      rw [hp, h1, h.root.2] at old
      cases res with
      | false => simp [hq12, hq]; exact edge_decide_false_child old
      | true => simp [hq12, hq]; exact edge_decide_true_child old
    · have hq12 : ¬ (q = 1 ∨ q = 2) := by
        intro e; apply hp; unfold parent; omega
      have hpl := parent_lt hq0
      obtain ⟨pa2, pc1, _, _, _⟩ := hall (parent q) (by omega) (by omega)
      rw [hpq _ hp, pa2]
      rw [pa2, pc1] at old
      simp [hq12]; exact edge_decide_other old
  · rw [hcls0, hc]; cases res <;> simp
  · intro r hr hr1
    by_cases e : r = 0
    · subst e
      rw [hpend, hpend]
      have hnb := nbChildren_eq s.n 0
      simp only [Nat.mul_zero, Nat.zero_add] at hnb ⊢
      simp only [rootDecide, upd_same]
      unfold rootAfter
      rw [hcls0] at hr1
      cases res with
      | true => simp at hr1
      | false => simp [hres]; omega
    · rw [hpq r e] at hr1
      have := (hall r (by omega) hr).1; omega
  · intro r hr hr2
    by_cases e : r = 0
    · subst e; rw [hcls0] at hr2; cases res <;> simp at hr2
    · rw [hpq r e] at hr2 ⊢; exact h.ncl2 r hr hr2
  · intro q hq h3
    by_cases e : q = 0
    · subst e; exact h3
    · rw [hpq q e] at h3
      have := (hall q (by omega) hq).1; omega
  · rw [hN]
    have l : sumTo s.n (contribS (rootDecide s)) = 0 := by
      apply sumTo_zero; intro q hq
      by_cases e : q = 0
      · subst e
        simp only [contribS, live, hcls0]
        cases res with
        | true => simp
        | false => simp [rootDecide, rootAfter, hres]
      · obtain ⟨a2, _, u0, _, _⟩ := hall q (by omega) hq
        simp only [contribS, live, hpq q e, hU, a2, u0]; simp
    rw [l]; symm; apply sumTo_zero; intro q _; simp [hc]
  · rw [hN]
    have l : sumTo s.n (contribR (rootDecide s)) = 0 := by
      apply sumTo_zero; intro q hq
      by_cases e : q = 0
      · subst e
        simp only [contribR, live, hcls0]
        cases res with
        | true => simp
        | false => simp [rootDecide, rootAfter, hres]
      · obtain ⟨a2, _, u0, _, _⟩ := hall q (by omega) hq
        simp only [contribR, live, hpq q e, hU, a2, u0]; simp
    rw [l]; symm; apply sumTo_zero; intro q _; simp [hc]
  · intro _
    rw [hN]
    -- what the root has accumulated is the sum of the contributions of the others
    have accS : sumTo s.n (contribS s) = (s.procs 0).accS := by
      rw [sumTo_single hn (f := contribS s)]
      · simp [contribS, live, h1]
      · intro q hq e
        obtain ⟨a2, _, u0, _, _⟩ := hall q (by omega) hq
        simp only [contribS, live, a2, u0]; simp
    have accR : sumTo s.n (contribR s) = (s.procs 0).accR := by
      rw [sumTo_single hn (f := contribR s)]
      · simp [contribR, live, h1]
      · intro q hq e
        obtain ⟨a2, _, u0, _, _⟩ := hall q (by omega) hq
        simp only [contribR, live, a2, u0]; simp
    have cS := sumTo_change (f := fun q => if (s.gh q).c then (s.gh q).curS else 0)
      (g := fun q => sKS ((rootDecide s).gh q)) hn (by
        intro q hq e
        have := (hall q (by omega) hq).2.1
        simp [sKS, rootDecide, ghDecide, e, b2n_eq_one.1 this])
    have cR := sumTo_change (f := fun q => if (s.gh q).c then (s.gh q).curR else 0)
      (g := fun q => sKR ((rootDecide s).gh q)) hn (by
        intro q hq e
        have := (hall q (by omega) hq).2.1
        simp [sKR, rootDecide, ghDecide, e, b2n_eq_one.1 this])
    have fS := h.fS; have fR := h.fR
    simp only [h.root.2] at cS cR
    have g0S : sKS ((rootDecide s).gh 0) = (s.procs 0).ms := by simp [sKS, rootDecide, ghDecide]
    have g0R : sKR ((rootDecide s).gh 0) = (s.procs 0).mr := by simp [sKR, rootDecide, ghDecide]
    have lS : ((rootDecide s).procs 0).lastS = (((s.procs 0).accS + (s.procs 0).ms : Nat) : Int) := by
      simp only [rootDecide, upd_same]; unfold rootAfter; split <;> simp [accAdd]
    have lR : ((rootDecide s).procs 0).lastR = (((s.procs 0).accR + (s.procs 0).mr : Nat) : Int) := by
      simp only [rootDecide, upd_same]; unfold rootAfter; split <;> simp [accAdd]
    rw [lS, lR]
    simp at cS cR
    constructor <;> congr 1 <;> omega
  · intro hs; simp [rootDecide] at hs

end ParsecVerif.FourCounter
