/-
  Arithmetic of the arena chunk layout: PARSEC_ALIGN as computed by the macro (bit mask on 64-bit
  words) rounds up to a multiple of a power-of-two alignment; consequences for the data pointer.
-/
import ParsecVerif.Model.Arena

namespace ParsecVerif.Arena

theorem testBit_false_of_lt_le {y W i : Nat} (h : y < 2 ^ W) (hi : W ≤ i) : y.testBit i = false :=
  Nat.testBit_lt_two_pow (Nat.lt_of_lt_of_le h (Nat.pow_le_pow_right (by decide) hi))

/-- clearing the k low bits of a W-bit word -/
theorem and_not_low (y W k : Nat) (hy : y < 2 ^ W) (hk : k ≤ W) :
    y &&& ((2 ^ W - 1) ^^^ (2 ^ k - 1)) = y / 2 ^ k * 2 ^ k := by
  apply Nat.eq_of_testBit_eq
  intro i
  rw [Nat.testBit_and, Nat.testBit_xor, Nat.testBit_two_pow_sub_one, Nat.testBit_two_pow_sub_one,
      Nat.testBit_mul_two_pow, Nat.testBit_div_two_pow]
  by_cases h1 : i < k
  · have : i < W := by omega
    simp [h1, this]; omega
  · have h3 : i - k + k = i := by omega
    have h4 : k ≤ i := by omega
    by_cases h2 : i < W
    · simp [h1, h2, h3, h4]
    · have := testBit_false_of_lt_le hy (Nat.le_of_not_lt h2)
      simp [h1, h2, this, h3]

/-- the macro rounds up to the next multiple of a power of two (no wrap-around) -/
theorem alignUp_eq (x k : Nat) (hk : k ≤ 64) (hx : x + (2 ^ k - 1) < 2 ^ 64) :
    alignUp x (2 ^ k) = (x + (2 ^ k - 1)) / 2 ^ k * 2 ^ k := by
  unfold alignUp
  rw [Nat.mod_eq_of_lt hx]
  exact and_not_low _ 64 k hx hk

/-- the three facts used about `PARSEC_ALIGN`: a multiple of the alignment, not below x, less than one alignment above -/
theorem alignUp_spec (x k : Nat) (hk : k ≤ 64) (hx : x + (2 ^ k - 1) < 2 ^ 64) :
    alignUp x (2 ^ k) % 2 ^ k = 0 ∧ x ≤ alignUp x (2 ^ k) ∧ alignUp x (2 ^ k) < x + 2 ^ k := by
  rw [alignUp_eq x k hk hx]
  have hpos : 0 < 2 ^ k := Nat.two_pow_pos k
  generalize 2 ^ k = a at *
  generalize hy : x + (a - 1) = y at *
  have h1 : a * (y / a) + y % a = y := Nat.div_add_mod y a
  have h2 : y % a < a := Nat.mod_lt y hpos
  have h3 : y / a * a = a * (y / a) := Nat.mul_comm _ _
  refine ⟨Nat.mul_mod_left _ _, ?_, ?_⟩
  · rw [h3]; generalize a * (y / a) = q at *; omega
  · rw [h3]; generalize a * (y / a) = q at *; omega

theorem and_half (x y : Nat) (h : x &&& y = 0) : (x / 2) &&& (y / 2) = 0 := by
  apply Nat.eq_of_testBit_eq
  intro i
  have : (x &&& y).testBit (i + 1) = false := by rw [h]; simp
  rw [Nat.testBit_and, Nat.testBit_add_one, Nat.testBit_add_one] at this
  rw [Nat.testBit_and, this]; simp

/-- the test `alignment & (alignment - 1)` of `parsec_arena_construct_ex` accepts exactly powers of two -/
theorem pow2_of_and : ∀ (n a : Nat), a ≤ n → 0 < a → a &&& (a - 1) = 0 → ∃ k, a = 2 ^ k := by
  intro n
  induction n with
  | zero => intro a h1 h2; omega
  | succ n ih =>
    intro a h1 h2 h
    by_cases ha : a = 1
    · exact ⟨0, by simp [ha]⟩
    · have hh := and_half a (a - 1) h
      rcases Nat.mod_two_eq_zero_or_one a with hr | hr
      · have e : (a - 1) / 2 = a / 2 - 1 := by omega
        rw [e] at hh
        obtain ⟨k, hk⟩ := ih (a / 2) (by omega) (by omega) hh
        exact ⟨k + 1, by rw [Nat.pow_succ, ← hk]; omega⟩
      · have e : (a - 1) / 2 = a / 2 := by omega
        rw [e, Nat.and_self] at hh
        omega

end ParsecVerif.Arena
