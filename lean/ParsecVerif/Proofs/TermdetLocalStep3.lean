import ParsecVerif.Proofs.TermdetLocal
/-! Preservation of the invariant by one thread step (program points of taskpool_ready and of the detection tail). -/
namespace ParsecVerif.TermdetLocal

set_option maxHeartbeats 4000000 in
theorem local_rCas1 (sh : Shared) (th : Thread) (S S' : Sums) (hpc : th.pc = .rCas1)
    (hI : Inv' sh S) (hF : Facts S (W th)) (hen : enabled sh th)
    (hM : Moves S S' (W th) (W (tstep sh th).2)) : Inv' (tstep sh th).1 S' := by
  prelude
  unf
  by_cases hc : mon = 1
  · subst hc
    smp []
    (try simp at *)
    fino
  · exfalso; omega

set_option maxHeartbeats 4000000 in
theorem local_rRetain (sh : Shared) (th : Thread) (S S' : Sums) (hpc : th.pc = .rRetain)
    (hI : Inv' sh S) (hF : Facts S (W th)) (hen : enabled sh th)
    (hM : Moves S S' (W th) (W (tstep sh th).2)) : Inv' (tstep sh th).1 S' := by
  prelude
  unf
  by_cases hc : npa = 0
  · smp [hc]
    finish
  · smp [hc]
    finish

set_option maxHeartbeats 4000000 in
theorem local_dCas2 (sh : Shared) (th : Thread) (S S' : Sums) (r : Int) (hpc : th.pc = .dCas2 r)
    (hI : Inv' sh S) (hF : Facts S (W th)) (hen : enabled sh th)
    (hM : Moves S S' (W th) (W (tstep sh th).2)) : Inv' (tstep sh th).1 S' := by
  prelude
  unf
  by_cases hc : mon = 2
  · subst hc
    smp []
    (try simp at *)
    fino
  · smp [hc]
    finish

set_option maxHeartbeats 4000000 in
theorem local_dCas3 (sh : Shared) (th : Thread) (S S' : Sums) (r : Int) (hpc : th.pc = .dCas3 r)
    (hI : Inv' sh S) (hF : Facts S (W th)) (hen : enabled sh th)
    (hM : Moves S S' (W th) (W (tstep sh th).2)) : Inv' (tstep sh th).1 S' := by
  prelude
  unf
  by_cases hc : mon = 3
  · subst hc
    smp []
    (try simp at *)
    fino
  · exfalso; omega

set_option maxHeartbeats 4000000 in
theorem local_dRel (sh : Shared) (th : Thread) (S S' : Sums) (r : Int) (hpc : th.pc = .dRel r)
    (hI : Inv' sh S) (hF : Facts S (W th)) (hen : enabled sh th)
    (hM : Moves S S' (W th) (W (tstep sh th).2)) : Inv' (tstep sh th).1 S' := by
  prelude
  unf
  smp []
  finish

end ParsecVerif.TermdetLocal
