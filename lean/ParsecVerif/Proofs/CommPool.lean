/-
  C14 — lemmas on one tag pool (persistent receives + tested window).
-/
import ParsecVerif.Model.CommEngine

namespace ParsecVerif.CommEngine

/-! ### small list facts -/

theorem getD_set_bool (l : List Bool) (i j : Nat) (v d : Bool) :
    (l.set i v).getD j d = if i = j ∧ i < l.length then v else l.getD j d := by
  simp only [List.getD_eq_getElem?_getD, List.getElem?_set]
  by_cases h : i = j
  · subst h
    by_cases h2 : i < l.length
    · simp [h2]
    · simp [h2, List.getElem?_eq_none (Nat.le_of_not_lt h2)]
  · simp [h]

theorem succ_mod_lt {r n : Nat} (h : r < n) : (r + 1) % n < n := Nat.mod_lt _ (by omega)

theorem succ_mod_eq {r n : Nat} (h : r < n) : (r + 1) % n = if r + 1 = n then 0 else r + 1 := by
  by_cases h1 : r + 1 = n
  · simp [h1]
  · simp only [h1, if_false]; exact Nat.mod_eq_of_lt (by omega)

/-! ### the pool requests referenced by the window -/

def Slot.amR (sl : Slot) : Option Nat :=
  match sl.req with
  | some (.am _ r) => some r
  | _ => none

def winReqs (w : List Slot) : List Nat := w.filterMap Slot.amR

@[simp] theorem amR_amSlot (tag r a : Nat) : (amSlot tag r a).amR = some r := rfl

theorem amR_none {sl : Slot} (h : sl.req = none) : sl.amR = none := by
  simp [Slot.amR, h]

theorem winReqs_append (a b : List Slot) : winReqs (a ++ b) = winReqs a ++ winReqs b := by
  simp [winReqs, List.filterMap_append]

theorem winReqs_length_le (w : List Slot) : (winReqs w).length ≤ w.length :=
  List.length_filterMap_le _ _

/-- Core invariant of a pool (holds also in the middle of `refill`, where the window is short). -/
structure PCore (p : Pool) : Prop where
  t_pos : 1 ≤ p.t
  t_le : p.t ≤ p.n
  ridx_lt : p.ridx < p.n
  inw_len : p.inw.length = p.n
  act_len : p.act.length = p.n
  slots : ∀ j sl, p.win[j]? = some sl → sl.req = none ∨ ∃ r, r < p.n ∧ sl = amSlot p.id r (p.base + j)
  nodup : (winReqs p.win).Nodup
  inw_iff : ∀ r, r < p.n → (p.inw.getD r false = true ↔ r ∈ winReqs p.win)
  act_in : ∀ r, r < p.n → p.act.getD r true = false → r ∈ winReqs p.win

/-- Invariant at the boundaries of the operations. -/
structure PInv (p : Pool) : Prop where
  core : PCore p
  win_len : p.win.length = p.t

/-- Between two calls of `progress`: every window slot is occupied and every receive is active. -/
structure PQuiet (p : Pool) : Prop where
  inv : PInv p
  full : ∀ sl, sl ∈ p.win → sl.req ≠ none
  active : ∀ r, r < p.n → p.act.getD r true = true

theorem mem_winReqs_lt {p : Pool} (h : PCore p) {r : Nat} (hr : r ∈ winReqs p.win) : r < p.n := by
  simp only [winReqs, List.mem_filterMap] at hr
  obtain ⟨sl, hsl, hsr⟩ := hr
  obtain ⟨j, hj, hj2⟩ := List.mem_iff_getElem.mp hsl
  have := h.slots j sl (by rw [List.getElem?_eq_getElem hj, hj2])
  rcases this with h0 | ⟨r', hr', he⟩
  · rw [amR_none h0] at hsr; cases hsr
  · subst he; simp at hsr; omega

/-! ### init -/

theorem winReqs_init (id base t : Nat) :
    winReqs ((List.range t).map (fun j => amSlot id j (base + j))) = List.range t := by
  simp only [winReqs, List.filterMap_map]
  have : (Slot.amR ∘ fun j => amSlot id j (base + j)) = some := by funext j; rfl
  rw [this]; simp

theorem PQuiet_init (id n t base : Nat) (h1 : 1 ≤ t) (h2 : t ≤ n) : PQuiet (Pool.init id n t base) := by
  have hwin : (Pool.init id n t base).win = (List.range t).map (fun j => amSlot id j (base + j)) := rfl
  have hinw : (Pool.init id n t base).inw = (List.range n).map (fun r => decide (r < t)) := rfl
  have hact : (Pool.init id n t base).act = List.replicate n true := rfl
  have hn : (Pool.init id n t base).n = n := rfl
  have ht : (Pool.init id n t base).t = t := rfl
  have hcore : PCore (Pool.init id n t base) := by
    refine ⟨by rw [ht]; exact h1, by rw [ht, hn]; exact h2, ?_, by rw [hinw, hn]; simp, by rw [hact, hn]; simp, ?_, ?_, ?_, ?_⟩
    · show t % n < n
      exact Nat.mod_lt _ (by omega)
    · intro j sl hj
      rw [hwin, List.getElem?_map] at hj
      by_cases hjt : j < t
      · rw [List.getElem?_range hjt] at hj
        simp at hj
        right; exact ⟨j, by rw [hn]; omega, hj.symm⟩
      · rw [List.getElem?_eq_none (by simp; omega)] at hj; simp at hj
    · rw [hwin, winReqs_init]; exact List.nodup_range
    · intro r hr
      rw [hn] at hr
      rw [hwin, hinw, winReqs_init, List.getD_eq_getElem?_getD, List.getElem?_map,
        List.getElem?_range hr, List.mem_range]
      simp
    · intro r hr h
      rw [hn] at hr
      rw [hact, List.getD_eq_getElem?_getD, List.getElem?_replicate] at h
      simp [hr] at h
  refine ⟨⟨hcore, by rw [hwin, ht]; simp⟩, ?_, ?_⟩
  · intro sl hsl
    rw [hwin, List.mem_map] at hsl
    obtain ⟨j, _, rfl⟩ := hsl
    simp [amSlot]
  · intro r hr
    rw [hn] at hr
    rw [hact, List.getD_eq_getElem?_getD, List.getElem?_replicate]
    simp [hr]

/-! ### `MPI_Testsome` reports a window slot -/

theorem PInv_complete {p : Pool} (h : PInv p) (j : Nat) : PInv (p.complete j) := by
  unfold Pool.complete
  split
  · rename_i sl hsl
    split
    · rename_i tg r hreq
      have hs := h.core.slots j sl hsl
      rcases hs with h0 | ⟨r', hr', he⟩
      · rw [h0] at hreq; cases hreq
      · have hrr : r = r' := by subst he; simp [amSlot] at hreq; omega
        subst hrr
        have hmem : r ∈ winReqs p.win := by
          simp only [winReqs, List.mem_filterMap]
          exact ⟨sl, List.mem_of_getElem? hsl, by subst he; rfl⟩
        refine ⟨⟨h.core.t_pos, h.core.t_le, h.core.ridx_lt, h.core.inw_len, ?_, h.core.slots, h.core.nodup,
          h.core.inw_iff, ?_⟩, h.win_len⟩
        · simp [h.core.act_len]
        · intro x hx hxa
          simp only [getD_set_bool] at hxa
          by_cases hxr : r = x
          · subst hxr; exact hmem
          · simp [hxr] at hxa; exact h.core.act_in x hx hxa
    · exact h
  · exact h

/-- What `complete` does to the activity flags. -/
theorem complete_act {p : Pool} (j : Nat) (r : Nat) (tg : Nat) (sl : Slot) (hsl : p.win[j]? = some sl)
    (hreq : sl.req = some (.am tg r)) :
    p.complete j = { p with act := p.act.set r false } := by
  unfold Pool.complete
  rw [hsl]; simp only; rw [hreq]

/-! ### the window without slot `j` -/

theorem winReqs_set_none {w : List Slot} {j : Nat} {sl : Slot} {r : Nat} (hj : w[j]? = some sl)
    (hr : sl.amR = some r) (hn : (winReqs w).Nodup) :
    winReqs (w.set j sl.clear) = (winReqs w).erase r ∧ r ∈ winReqs w := by
  have hjl : j < w.length := by
    rcases Nat.lt_or_ge j w.length with h | h
    · exact h
    · rw [List.getElem?_eq_none h] at hj; cases hj
  have hw : w = w.take j ++ sl :: w.drop (j + 1) := by
    have := List.take_append_drop j w
    rw [List.drop_eq_getElem_cons hjl] at this
    have hg : w[j] = sl := by
      rw [List.getElem?_eq_getElem hjl] at hj; exact Option.some.inj hj
    rw [hg] at this; exact this.symm
  have hset : w.set j sl.clear = w.take j ++ sl.clear :: w.drop (j + 1) := by
    rw [List.set_eq_take_append_cons_drop]; simp [hjl]
  have hsplit : winReqs w = winReqs (w.take j) ++ r :: winReqs (w.drop (j + 1)) := by
    conv => lhs; rw [hw]
    simp [winReqs, List.filterMap_append, List.filterMap_cons, hr]
  rw [hset]
  have h2 : winReqs (w.take j ++ sl.clear :: w.drop (j + 1))
      = winReqs (w.take j) ++ winReqs (w.drop (j + 1)) := by
    have hc : sl.clear.amR = none := rfl
    simp [winReqs, List.filterMap_append, List.filterMap_cons, hc]
  rw [h2, hsplit]
  rw [hsplit] at hn
  have hnot : r ∉ winReqs (w.take j) := by
    intro hmem
    have := (List.nodup_append.mp hn).2.2 r hmem r (by simp)
    exact this rfl
  constructor
  · rw [List.erase_append_right _ hnot]; simp
  · simp

/-! ### after the callback of an active message: restart, leave the window -/

theorem PInv_done {p : Pool} (h : PInv p) {j r : Nat} (hr : r < p.n)
    (hsl : p.win[j]? = some (amSlot p.id r (p.base + j))) (hact : p.act.getD r true = false) :
    (p.done j).2 = true ∧ PInv (p.done j).1 ∧
    winReqs (p.done j).1.win = (winReqs p.win).erase r ∧ r ∈ winReqs p.win ∧
    (p.done j).1.inw = p.inw.set r false ∧ (p.done j).1.act = p.act.set r true ∧
    (p.done j).1.ridx = p.ridx ∧ (p.done j).1.n = p.n ∧ (p.done j).1.t = p.t ∧
    (p.done j).1.base = p.base ∧ (p.done j).1.id = p.id := by
  have hd : p.done j = (p.restart j r (amSlot p.id r (p.base + j)), true) := by
    unfold Pool.done
    rw [hsl]
    have hact' : p.act[r]?.getD true = false := by rw [← List.getD_eq_getElem?_getD]; exact hact
    simp only [amSlot]
    simp [hr, hact']
  rw [hd]
  generalize hq : p.restart j r (amSlot p.id r (p.base + j)) = q
  have e_act : q.act = p.act.set r true := by rw [← hq]; rfl
  have e_inw : q.inw = p.inw.set r false := by rw [← hq]; rfl
  have e_win : q.win = p.win.set j (amSlot p.id r (p.base + j)).clear := by rw [← hq]; rfl
  have e_n : q.n = p.n := by rw [← hq]; rfl
  have e_t : q.t = p.t := by rw [← hq]; rfl
  have e_b : q.base = p.base := by rw [← hq]; rfl
  have e_i : q.id = p.id := by rw [← hq]; rfl
  have e_r : q.ridx = p.ridx := by rw [← hq]; rfl
  obtain ⟨hw, hmem⟩ := winReqs_set_none hsl (amR_amSlot _ _ _) h.core.nodup
  show true = true ∧ PInv q ∧ winReqs q.win = _ ∧ _ ∧ q.inw = _ ∧ q.act = _ ∧ q.ridx = _ ∧ q.n = _ ∧ q.t = _ ∧
    q.base = _ ∧ q.id = _
  refine ⟨rfl, ⟨⟨?_, ?_, ?_, ?_, ?_, ?_, ?_, ?_, ?_⟩, ?_⟩, by rw [e_win]; exact hw, hmem, e_inw, e_act, e_r, e_n, e_t,
    e_b, e_i⟩
  · rw [e_t]; exact h.core.t_pos
  · rw [e_t, e_n]; exact h.core.t_le
  · rw [e_r, e_n]; exact h.core.ridx_lt
  · rw [e_inw, e_n]; simp [h.core.inw_len]
  · rw [e_act, e_n]; simp [h.core.act_len]
  · intro i sl hi
    rw [e_n, e_i, e_b]
    rw [e_win, List.getElem?_set] at hi
    by_cases hji : j = i
    · subst hji
      have hjl : j < p.win.length := by
        rcases Nat.lt_or_ge j p.win.length with h' | h'
        · exact h'
        · rw [List.getElem?_eq_none h'] at hsl; cases hsl
      simp [hjl] at hi
      left; rw [← hi]; rfl
    · simp [hji] at hi
      exact h.core.slots i sl hi
  · rw [e_win, hw]; exact h.core.nodup.erase r
  · intro x hx
    rw [e_n] at hx
    rw [e_inw, e_win, hw, getD_set_bool]
    by_cases hrx : r = x
    · subst hrx
      simp [h.core.inw_len, hr]
      exact fun hm => (List.Nodup.mem_erase_iff h.core.nodup).mp hm |>.1 rfl
    · simp only [hrx, false_and, if_false]
      rw [h.core.inw_iff x hx, List.mem_erase_of_ne (Ne.symm hrx)]
  · intro x hx hxa
    rw [e_n] at hx
    rw [e_win, hw]
    rw [e_act, getD_set_bool] at hxa
    by_cases hrx : r = x
    · subst hrx; simp [h.core.act_len, hr] at hxa
    · simp only [hrx, false_and, if_false] at hxa
      rw [List.mem_erase_of_ne (Ne.symm hrx)]
      exact h.core.act_in x hx hxa
  · rw [e_win, e_t]; simp [h.win_len]

/-! ### compaction -/

theorem winReqs_compact (base : Nat) (w : List Slot) (rd wr : Nat) :
    winReqs (compact base w rd wr) = winReqs w := by
  induction w generalizing rd wr with
  | nil => rfl
  | cons sl rest ih =>
    unfold compact
    by_cases hn : sl.req.isNone
    · simp only [hn, if_true]
      rw [ih]
      have : sl.req = none := by simpa using hn
      simp [winReqs, List.filterMap_cons, amR_none this]
    · simp only [hn]
      have hamr : (if wr = rd then sl else { sl with st1 := base + wr }).amR = sl.amR := by
        split <;> rfl
      simp only [winReqs, List.filterMap_cons, Bool.false_eq_true, if_false] at *
      rw [hamr]
      cases hs : sl.amR with
      | none => simpa using ih (rd + 1) (wr + 1)
      | some r => simpa using ih (rd + 1) (wr + 1)

/-- The slots kept by compaction are the occupied ones, renumbered. -/
theorem compact_slots (id n base : Nat) (w : List Slot) (rd wr : Nat) (hwr : wr ≤ rd)
    (hw : ∀ j sl, w[j]? = some sl → sl.req = none ∨ ∃ r, r < n ∧ sl = amSlot id r (base + (rd + j))) :
    ∀ j sl, (compact base w rd wr)[j]? = some sl → ∃ r, r < n ∧ sl = amSlot id r (base + (wr + j)) := by
  induction w generalizing rd wr with
  | nil => intro j sl h; simp [compact] at h
  | cons s rest ih =>
    intro j sl h
    have hrest : ∀ j sl, rest[j]? = some sl → sl.req = none ∨ ∃ r, r < n ∧ sl = amSlot id r (base + (rd + 1 + j)) := by
      intro j sl hj
      have := hw (j + 1) sl (by simpa using hj)
      rcases this with h0 | ⟨r, hr, he⟩
      · left; exact h0
      · right; exact ⟨r, hr, by rw [he]; congr 1; omega⟩
    unfold compact at h
    by_cases hn : s.req.isNone
    · simp only [hn, if_true] at h
      have := ih (rd + 1) wr (by omega) hrest j sl h
      exact this
    · simp only [hn] at h
      have hs0 := hw 0 s (by simp)
      rcases hs0 with h0 | ⟨r, hr, he⟩
      · rw [h0] at hn; simp at hn
      · cases j with
        | zero =>
          simp only [Bool.false_eq_true, if_false, List.getElem?_cons_zero, Option.some.injEq] at h
          refine ⟨r, hr, ?_⟩
          rw [← h]
          by_cases hwe : wr = rd
          · simp [hwe, he]
          · simp [hwe, he, amSlot]
        | succ j' =>
          simp only [Bool.false_eq_true, if_false, List.getElem?_cons_succ] at h
          have := ih (rd + 1) (wr + 1) (by omega) hrest j' sl h
          obtain ⟨r', hr', he'⟩ := this
          exact ⟨r', hr', by rw [he']; congr 1; omega⟩

theorem compact_full (base : Nat) (w : List Slot) (rd wr : Nat) :
    ∀ sl, sl ∈ compact base w rd wr → sl.req ≠ none := by
  induction w generalizing rd wr with
  | nil => intro sl h; simp [compact] at h
  | cons s rest ih =>
    intro sl h
    unfold compact at h
    by_cases hn : s.req.isNone
    · simp only [hn, if_true] at h; exact ih _ _ sl h
    · simp only [hn, Bool.false_eq_true, if_false, List.mem_cons] at h
      rcases h with h | h
      · have hreq : sl.req = s.req := by rw [h]; split <;> rfl
        rw [hreq]; intro h0; rw [h0] at hn; simp at hn
      · exact ih _ _ sl h

/-- Every slot of a list of fully occupied AM slots contributes to `winReqs`. -/
theorem winReqs_length_full (id n base : Nat) (w : List Slot)
    (hw : ∀ j sl, w[j]? = some sl → ∃ r, r < n ∧ sl = amSlot id r (base + j)) :
    (winReqs w).length = w.length := by
  induction w generalizing base with
  | nil => rfl
  | cons s rest ih =>
    obtain ⟨r, _, he⟩ := hw 0 s (by simp)
    have hrest : ∀ j sl, rest[j]? = some sl → ∃ r, r < n ∧ sl = amSlot id r (base + 1 + j) := by
      intro j sl hj
      obtain ⟨r, hr, he⟩ := hw (j + 1) sl (by simpa using hj)
      exact ⟨r, hr, by rw [he]; congr 1; omega⟩
    have := ih (base + 1) hrest
    simp only [winReqs, List.filterMap_cons, he, amR_amSlot, List.length_cons] at *
    omega

/-! ### the rotation scan -/

theorem scan_spec (inw : List Bool) (n : Nat) :
    ∀ f r, r < n → (∃ i, i < f ∧ inw.getD ((r + i) % n) false = false) →
      scan inw n f r < n ∧ inw.getD (scan inw n f r) false = false := by
  intro f
  induction f with
  | zero => intro r _ ⟨i, hi, _⟩; omega
  | succ f ih =>
    intro r hr ⟨i, hi, hw⟩
    unfold scan
    by_cases hb : inw.getD r false = true
    · simp only [hb, if_true]
      cases i with
      | zero => rw [Nat.add_zero, Nat.mod_eq_of_lt hr, hb] at hw; cases hw
      | succ i' =>
        apply ih _ (succ_mod_lt hr)
        refine ⟨i', by omega, ?_⟩
        rw [Nat.mod_add_mod]
        have : r + 1 + i' = r + (i' + 1) := by omega
        rw [this]; exact hw
    · simp only [hb]
      exact ⟨hr, by simpa using hb⟩

theorem cyc_reach {n a b : Nat} (ha : a < n) (hb : b < n) :
    ∃ i, i < n ∧ (a + i) % n = b := by
  by_cases h : a ≤ b
  · exact ⟨b - a, by omega, by rw [show a + (b - a) = b by omega]; exact Nat.mod_eq_of_lt hb⟩
  · refine ⟨b + n - a, by omega, ?_⟩
    rw [show a + (b + n - a) = b + n by omega, Nat.add_mod_right]; exact Nat.mod_eq_of_lt hb

theorem scan_finds {inw : List Bool} {n r x : Nat} (hr : r < n) (hx : x < n)
    (hxf : inw.getD x false = false) :
    scan inw n n r < n ∧ inw.getD (scan inw n n r) false = false := by
  obtain ⟨i, hi, he⟩ := cyc_reach hr hx
  exact scan_spec inw n n r hr ⟨i, hi, by rw [he]; exact hxf⟩

/-! ### refilling the tail of the window -/

/-- If fewer than `n` requests are in the window, some request is outside. -/
theorem exists_outside {p : Pool} (h : PCore p) (hlt : (winReqs p.win).length < p.n) :
    ∃ x, x < p.n ∧ p.inw.getD x false = false := by
  -- pigeonhole: a duplicate-free list of numbers < n of length < n misses some number < n
  have key : ∀ (l : List Nat) (m : Nat), l.Nodup → l.length < m → ∃ x, x < m ∧ x ∉ l := by
    intro l m
    induction m generalizing l with
    | zero => intro _ h; omega
    | succ m ih =>
      intro hnd hlen
      by_cases hm : m ∈ l
      · have hnd' : (l.erase m).Nodup := hnd.erase m
        have hlen' : (l.erase m).length < m := by
          have := List.length_pos_of_mem hm
          rw [List.length_erase_of_mem hm]; omega
        obtain ⟨x, hx, hxn⟩ := ih (l.erase m) hnd' hlen'
        refine ⟨x, by omega, ?_⟩
        intro hxl
        exact hxn ((List.mem_erase_of_ne (by omega)).mpr hxl)
      · exact ⟨m, by omega, hm⟩
  obtain ⟨x, hx, hxn⟩ := key (winReqs p.win) p.n h.nodup hlt
  refine ⟨x, hx, ?_⟩
  cases hb : p.inw.getD x false with
  | false => rfl
  | true => exact absurd ((h.inw_iff x hx).mp hb) hxn

theorem PCore_fill1 {p : Pool} (h : PCore p) (hfull : ∀ sl, sl ∈ p.win → sl.req ≠ none)
    (hlt : p.win.length < p.t) :
    PCore p.fill1 ∧ (∀ sl, sl ∈ p.fill1.win → sl.req ≠ none) ∧ p.fill1.win.length = p.win.length + 1 ∧
    p.fill1.t = p.t ∧ p.fill1.n = p.n ∧ p.fill1.act = p.act ∧ p.fill1.base = p.base ∧ p.fill1.id = p.id := by
  have hwl : (winReqs p.win).length < p.n := by
    have := winReqs_length_le p.win; have := h.t_le; omega
  obtain ⟨x, hx, hxf⟩ := exists_outside h hwl
  obtain ⟨hq, hqf⟩ := scan_finds (inw := p.inw) h.ridx_lt hx hxf
  generalize hs : scan p.inw p.n p.n p.ridx = s at hq hqf
  generalize hqq : p.fill1 = q
  have e_act : q.act = p.act := by rw [← hqq]; rfl
  have e_inw : q.inw = p.inw.set s true := by rw [← hqq, ← hs]; rfl
  have e_win : q.win = p.win ++ [amSlot p.id s (p.base + p.win.length)] := by rw [← hqq, ← hs]; rfl
  have e_n : q.n = p.n := by rw [← hqq]; rfl
  have e_t : q.t = p.t := by rw [← hqq]; rfl
  have e_b : q.base = p.base := by rw [← hqq]; rfl
  have e_i : q.id = p.id := by rw [← hqq]; rfl
  have e_r : q.ridx = (s + 1) % p.n := by rw [← hqq, ← hs]; rfl
  have hqn : s ∉ winReqs p.win := by
    intro hm
    have := (h.inw_iff _ hq).mpr hm
    rw [hqf] at this; cases this
  have hwr : winReqs q.win = winReqs p.win ++ [s] := by
    rw [e_win, winReqs_append]; rfl
  refine ⟨⟨?_, ?_, ?_, ?_, ?_, ?_, ?_, ?_, ?_⟩, ?_, ?_, e_t, e_n, e_act, e_b, e_i⟩
  · rw [e_t]; exact h.t_pos
  · rw [e_t, e_n]; exact h.t_le
  · rw [e_r, e_n]; exact succ_mod_lt hq
  · rw [e_inw, e_n]; simp [h.inw_len]
  · rw [e_act, e_n]; exact h.act_len
  · intro j sl hj
    rw [e_n, e_i, e_b]
    rw [e_win, List.getElem?_append] at hj
    by_cases hjl : j < p.win.length
    · simp only [hjl, if_true] at hj; exact h.slots j sl hj
    · simp only [hjl, if_false] at hj
      have hj0 : j - p.win.length = 0 := by
        rcases Nat.eq_zero_or_pos (j - p.win.length) with h0 | h0
        · exact h0
        · rw [List.getElem?_eq_none (by simp; omega)] at hj; cases hj
      rw [hj0] at hj
      simp at hj
      right
      refine ⟨s, hq, ?_⟩
      rw [← hj]; congr 1; omega
  · rw [hwr, List.nodup_append]
    refine ⟨h.nodup, by simp, ?_⟩
    intro a ha b hb
    simp at hb
    subst hb
    intro hab; subst hab; exact hqn ha
  · intro r hr
    rw [e_n] at hr
    rw [hwr, e_inw, getD_set_bool, List.mem_append, List.mem_singleton]
    by_cases he : s = r
    · subst he; simp [h.inw_len, hr]
    · simp only [he, false_and, if_false]
      rw [h.inw_iff r hr]
      constructor
      · intro hm; exact Or.inl hm
      · intro hm; rcases hm with hm | hm
        · exact hm
        · exact absurd hm.symm he
  · intro r hr hra
    rw [e_n] at hr
    rw [e_act] at hra
    rw [hwr, List.mem_append]
    exact Or.inl (h.act_in r hr hra)
  · intro sl hsl
    rw [e_win, List.mem_append, List.mem_singleton] at hsl
    rcases hsl with hsl | hsl
    · exact hfull sl hsl
    · rw [hsl]; simp [amSlot]
  · rw [e_win]; simp

theorem PCore_fillN (m : Nat) : ∀ {p : Pool}, PCore p → (∀ sl, sl ∈ p.win → sl.req ≠ none) →
    p.win.length + m = p.t →
    PCore (Pool.fillN m p) ∧ (∀ sl, sl ∈ (Pool.fillN m p).win → sl.req ≠ none) ∧
    (Pool.fillN m p).win.length = p.t ∧ (Pool.fillN m p).t = p.t ∧ (Pool.fillN m p).n = p.n ∧
    (Pool.fillN m p).act = p.act ∧ (Pool.fillN m p).base = p.base ∧ (Pool.fillN m p).id = p.id := by
  induction m with
  | zero => intro p h hf hl; exact ⟨h, hf, by show p.win.length = p.t; omega, rfl, rfl, rfl, rfl, rfl⟩
  | succ m ih =>
    intro p h hf hl
    obtain ⟨h1, hf1, hl1, ht1, hn1, ha1, hb1, hi1⟩ := PCore_fill1 h hf (by omega)
    have := ih h1 hf1 (by rw [hl1, ht1]; omega)
    simp only [Pool.fillN]
    rw [ht1, hn1, ha1, hb1, hi1] at this
    exact this

/-- `mpi_funnelled_refill_am_requests` on one tag re-establishes a full window. -/
theorem PQuiet_refill {p : Pool} (h : PInv p) (hact : ∀ r, r < p.n → p.act.getD r true = true) :
    PQuiet p.refill ∧ p.refill.t = p.t ∧ p.refill.n = p.n ∧ p.refill.base = p.base ∧ p.refill.id = p.id := by
  have hslots : ∀ j sl, (compact p.base p.win 0 0)[j]? = some sl →
      ∃ r, r < p.n ∧ sl = amSlot p.id r (p.base + j) := by
    intro j sl hj
    have := compact_slots p.id p.n p.base p.win 0 0 (Nat.le_refl _)
      (by intro j sl hj; simpa using h.core.slots j sl hj) j sl hj
    simpa using this
  have hlen : (compact p.base p.win 0 0).length ≤ p.t := by
    have h1 := winReqs_length_full p.id p.n p.base _ hslots
    have h2 := winReqs_compact p.base p.win 0 0
    have h3 := winReqs_length_le p.win
    rw [h2] at h1
    have := h.win_len
    omega
  have hc : PCore { p with win := compact p.base p.win 0 0 } := by
    refine ⟨h.core.t_pos, h.core.t_le, h.core.ridx_lt, h.core.inw_len, h.core.act_len, ?_, ?_, ?_, ?_⟩
    · intro j sl hj; right; exact hslots j sl hj
    · show (winReqs (compact p.base p.win 0 0)).Nodup
      rw [winReqs_compact]; exact h.core.nodup
    · intro r hr
      show (p.inw.getD r false = true ↔ r ∈ winReqs (compact p.base p.win 0 0))
      rw [winReqs_compact]; exact h.core.inw_iff r hr
    · intro r hr hra
      show r ∈ winReqs (compact p.base p.win 0 0)
      rw [winReqs_compact]; exact h.core.act_in r hr hra
  have := PCore_fillN (p.t - (compact p.base p.win 0 0).length) hc (compact_full p.base p.win 0 0)
    (by show (compact p.base p.win 0 0).length + _ = p.t; omega)
  obtain ⟨g1, g2, g3, g4, g5, g6, g7, g8⟩ := this
  refine ⟨⟨⟨g1, ?_⟩, g2, ?_⟩, g4, g5, g7, g8⟩
  · show (Pool.refill p).win.length = (Pool.refill p).t
    unfold Pool.refill; simp only; rw [g3, g4]
  · intro r hr
    have hr' : r < p.n := by
      have : (Pool.refill p).n = p.n := g5
      omega
    have : (Pool.refill p).act = p.act := g6
    rw [this]; exact hact r hr'

/-- On a full window `refill` changes nothing (so calling it after an empty `MPI_Testsome` is a no-op). -/
theorem compact_id_of_full (base : Nat) (w : List Slot) (rd : Nat) (hf : ∀ sl, sl ∈ w → sl.req ≠ none) :
    compact base w rd rd = w := by
  induction w generalizing rd with
  | nil => rfl
  | cons s rest ih =>
    unfold compact
    have : s.req.isNone = false := by
      have := hf s (by simp)
      cases hs : s.req with
      | none => exact absurd hs this
      | some _ => rfl
    simp only [this, Bool.false_eq_true, if_false, if_true]
    rw [ih (rd + 1) (fun sl hsl => hf sl (by simp [hsl]))]

theorem refill_of_quiet {p : Pool} (h : PQuiet p) : p.refill = p := by
  unfold Pool.refill
  simp only
  rw [compact_id_of_full p.base p.win 0 h.full, h.inv.win_len]
  simp [Pool.fillN]

end ParsecVerif.CommEngine
