import ParsecVerif.Proofs.FourCounterL1
/-
  After the root's decision: the DOWN(true) wave.  Quiescent states: no deadlock.
-/
namespace ParsecVerif.FourCounter

theorem exists_idx_of_cnt_pos (f : Packet → Bool) {l : List Packet} (h : 0 < cnt f l) :
    ∃ (k : Nat) (pk : Packet), l[k]? = some pk ∧ f pk = true := by
  induction l with
  | nil => simp at h
  | cons a t ih =>
    cases hf : f a with
    | true => exact ⟨0, a, rfl, hf⟩
    | false =>
      simp only [cnt_cons, hf, b2n_false, Nat.zero_add] at h
      obtain ⟨k, pk, hk, hp⟩ := ih h
      exact ⟨k + 1, pk, by simpa using hk, hp⟩

/-- once the root has terminated nobody is marked as contributor of a wave in progress -/
theorem no_c_after_term {s : State} (h : Inv s) (ht : (s.procs 0).st = .term) :
    ∀ q, q < s.n → (s.gh q).c = false := by
  intro q
  induction q using Nat.strongRecOn with
  | _ q ih =>
    intro hq
    by_cases h0 : q = 0
    · subst h0; exact h.st.root.2
    · have hq0 : 0 < q := by omega
      have e := h.st.edge q hq0 hq
      have hp := parent_lt hq0
      have hpc := ih (parent q) hp (by omega)
      have hpcls := st_of_fin h.fi ht (q := parent q) (by omega)
      unfold Edge at e; rw [hpc] at e
      cases hc : (s.gh q).c with
      | false => rfl
      | true =>
        rw [hc] at e
        generalize cls (s.procs q).st = a at *
        generalize cls (s.procs (parent q)).st = b at *
        generalize U s q = u at *
        generalize D s q false = d0 at *
        generalize D s q true = d1 at *
        exfalso; unfold edgeOK at e; simp at e; omega

/-- the shape of the DOWN(true) wave -/
theorem term_wave {s : State} (h : Inv s) (ht : (s.procs 0).st = .term) {q : Nat} (hq0 : 0 < q) (hq : q < s.n) :
    U s q = 0 ∧ D s q false = 0 ∧
    ((s.procs q).st = .term ∧ D s q true = 0 ∨
     (s.procs q).st = .idleWP ∧
       (D s q true = 1 ∧ (s.procs (parent q)).st = .term ∨ D s q true = 0 ∧ (s.procs (parent q)).st = .idleWP)) := by
  have e := h.st.edge q hq0 hq
  have hp := parent_lt hq0
  have hc := no_c_after_term h ht q hq
  have hpc := no_c_after_term h ht (parent q) (by omega)
  have hst := ((h.fi.q ht).1 q hq).2.2
  have hpst := ((h.fi.q ht).1 (parent q) (by omega)).2.2
  unfold Edge at e; rw [hc, hpc] at e
  rcases hst with hst | hst <;> rcases hpst with hpst | hpst <;> rw [hst, hpst] at e <;>
    simp only [hst, hpst, cls, b2n_false] at e ⊢ <;>
    generalize U s q = u at * <;> generalize D s q false = d0 at * <;> generalize D s q true = d1 at * <;>
    unfold edgeOK at e <;> simp at e ⊢ <;> omega

def numTerm (s : State) : Nat := sumTo s.n (fun q => if (s.procs q).st = .term then 1 else 0)

def AllTerm (s : State) : Prop := ∀ q, q < s.n → (s.procs q).st = .term

theorem numTerm_le (s : State) : numTerm s ≤ s.n := by
  unfold numTerm
  have : sumTo s.n (fun q => if (s.procs q).st = .term then 1 else 0) ≤ sumTo s.n (fun _ => 1) :=
    sumTo_mono (fun q _ => by split <;> omega)
  have h1 : ∀ n, sumTo n (fun _ => 1) = n := by
    intro n; induction n with
    | zero => rfl
    | succ k ih => simp [sumTo, ih]
  rw [h1] at this; exact this

/-- progress: as long as somebody has not terminated, a DOWN(true) message can be delivered -/
theorem term_progress {s : State} (h : Inv s) (ht : (s.procs 0).st = .term) :
    AllTerm s ∨ ∃ k s', step s (.deliver k) = some s' := by
  by_cases hall : AllTerm s
  · exact Or.inl hall
  · right
    -- the least process that has not terminated
    have hex : ∃ q, q < s.n ∧ (s.procs q).st ≠ .term := by
      apply Classical.byContradiction
      intro hne; apply hall; intro q hq
      apply Classical.byContradiction
      intro hh; exact hne ⟨q, hq, hh⟩
    have hmin : ∃ q, (q < s.n ∧ (s.procs q).st ≠ .term) ∧ ∀ r, r < q → ¬ (r < s.n ∧ (s.procs r).st ≠ .term) := by
      obtain ⟨q, hq⟩ := hex
      induction q using Nat.strongRecOn with
      | _ q ih =>
        by_cases hm : ∃ r, r < q ∧ (r < s.n ∧ (s.procs r).st ≠ .term)
        · obtain ⟨r, hr, hr'⟩ := hm; exact ih r hr hr'
        · exact ⟨q, hq, fun r hr hh => hm ⟨r, hr, hh⟩⟩
    obtain ⟨q, ⟨hq, hnt⟩, hleast⟩ := hmin
    have hq0 : 0 < q := by
      apply Nat.pos_of_ne_zero; intro e; subst e; exact hnt ht
    have hp := parent_lt hq0
    have hpt : (s.procs (parent q)).st = .term := by
      apply Classical.byContradiction
      intro hh; exact hleast (parent q) hp ⟨by omega, hh⟩
    obtain ⟨_, _, hw⟩ := term_wave h ht hq0 hq
    have hd : D s q true = 1 ∧ (s.procs q).st = .idleWP := by
      rcases hw with ⟨t, _⟩ | ⟨t, hw⟩
      · exact absurd t hnt
      · rcases hw with ⟨d, _⟩ | ⟨_, t'⟩
        · exact ⟨d, t⟩
        · rw [hpt] at t'; cases t'
    obtain ⟨k, pk, hk, hf⟩ := exists_idx_of_cnt_pos (isDownTo q true) (l := s.net) (by have := hd.1; unfold D at this; omega)
    unfold isDownTo at hf
    split at hf
    · rename_i x hkind
      simp at hf
      obtain ⟨hdst, hx⟩ := hf
      subst hx
      refine ⟨k, msgDown { s with net := s.net.eraseIdx k } pk.dst true, ?_⟩
      have hq' : pk.dst < s.n := by rw [hdst]; exact hq
      have hnr : ¬ (s.procs pk.dst).st = .notReady := by rw [hdst, hd.2]; simp
      simp only [FourCounter.step, hk, hq', if_true, hkind, hnr, if_false]
    · cases hf

end ParsecVerif.FourCounter
