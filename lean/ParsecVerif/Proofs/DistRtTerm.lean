import ParsecVerif.Proofs.DistRtInv2
/-! Termination measure of the distributed runtime (C05): every enabled transition of a reachable state
    strictly decreases a natural number, hence every run is finite. -/
namespace ParsecVerif.DistRt
open ParsecVerif.Dataflow
open ParsecVerif.RemoteDep hiding St

/-! ## sums -/

/-- weight of a message in flight: 3 before its activation has been received, 1 while its payloads are fetched -/
def wt (X : List (Nat × Msg)) (a : Nat) (m : Msg) : Nat := if X.contains (a, m) then 1 else 3

def wsum (X : List (Nat × Msg)) (a : Nat) (l : List Msg) : Nat := (l.map (wt X a)).sum

theorem wt_le (X : List (Nat × Msg)) (a : Nat) (m : Msg) : 1 ≤ wt X a m ∧ wt X a m ≤ 3 := by
  unfold wt; split <;> omega

theorem wsum_nil (X : List (Nat × Msg)) (a : Nat) : wsum X a [] = 0 := rfl
theorem wsum_cons (X : List (Nat × Msg)) (a : Nat) (m : Msg) (l : List Msg) : wsum X a (m :: l) = wt X a m + wsum X a l := by
  simp [wsum]
theorem wsum_append (X : List (Nat × Msg)) (a : Nat) (l1 l2 : List Msg) : wsum X a (l1 ++ l2) = wsum X a l1 + wsum X a l2 := by
  simp [wsum]

theorem wsum_le (X : List (Nat × Msg)) (a : Nat) (l : List Msg) : wsum X a l ≤ 3 * l.length := by
  induction l with
  | nil => simp [wsum]
  | cons m l ih => rw [wsum_cons, List.length_cons]; have := (wt_le X a m).2; omega

theorem wsum_erase (X : List (Nat × Msg)) (a : Nat) (m : Msg) : ∀ (l : List Msg), m ∈ l →
    wsum X a l = wt X a m + wsum X a (l.erase m) := by
  intro l
  induction l with
  | nil => intro h; cases h
  | cons x l ih =>
    intro h
    by_cases hx : x = m
    · subst hx; rw [List.erase_cons_head, wsum_cons]
    · have hm : m ∈ l := by
        rcases List.mem_cons.1 h with e | e
        · exact absurd e.symm hx
        · exact e
      rw [List.erase_cons_tail (by simpa using hx), wsum_cons, wsum_cons, ih hm]; omega

theorem wsum_mono (X X' : List (Nat × Msg)) (a : Nat) (l : List Msg) (h : ∀ m ∈ l, wt X' a m ≤ wt X a m) :
    wsum X' a l ≤ wsum X a l := by
  induction l with
  | nil => simp [wsum]
  | cons m l ih =>
    rw [wsum_cons, wsum_cons]
    have := h m List.mem_cons_self
    have := ih (fun m' hm' => h m' (List.mem_cons_of_mem _ hm'))
    omega

theorem wsum_congr (X X' : List (Nat × Msg)) (a : Nat) (l : List Msg) (h : ∀ m ∈ l, wt X' a m = wt X a m) :
    wsum X' a l = wsum X a l := by
  have h1 := wsum_mono X X' a l (fun m hm => Nat.le_of_eq (h m hm))
  have h2 := wsum_mono X' X a l (fun m hm => Nat.le_of_eq (h m hm).symm)
  omega

def tot (f : Nat → Nat) (n : Nat) : Nat := ((List.range n).map f).sum

theorem tot_succ (f : Nat → Nat) (n : Nat) : tot f (n + 1) = tot f n + f n := by
  simp [tot, List.range_succ]

theorem tot_le (f f' : Nat → Nat) (n : Nat) (h : ∀ i, i < n → f' i ≤ f i) : tot f' n ≤ tot f n := by
  induction n with
  | zero => simp [tot]
  | succ n ih =>
    rw [tot_succ, tot_succ]
    have := h n (by omega)
    have := ih (fun i hi => h i (by omega))
    omega

/-- pointwise `≤` and a gain of `k` at one index -/
theorem tot_gain (f f' : Nat → Nat) (n a k : Nat) (ha : a < n) (h : ∀ i, i < n → f' i ≤ f i) (hk : f' a + k ≤ f a) :
    tot f' n + k ≤ tot f n := by
  induction n with
  | zero => omega
  | succ n ih =>
    rw [tot_succ, tot_succ]
    by_cases han : a = n
    · subst han
      have := tot_le f f' a (fun i hi => h i (by omega))
      omega
    · have := ih (by omega) (fun i hi => h i (by omega))
      have := h n (by omega)
      omega

/-- pointwise `≤` except a loss of at most `k` at one index -/
theorem tot_loss (f f' : Nat → Nat) (n a k : Nat) (h : ∀ i, i < n → i ≠ a → f' i ≤ f i) (hk : f' a ≤ f a + k) :
    tot f' n ≤ tot f n + k := by
  induction n with
  | zero => simp [tot]
  | succ n ih =>
    rw [tot_succ, tot_succ]
    have := ih (fun i hi => h i (by omega))
    by_cases han : n = a
    · subst han
      have := tot_le f f' n (fun i hi => h i (by omega) (by omega))
      omega
    · have := h n (by omega) han
      omega

/-! ## the measure -/

/-- potential of the collective activation of node `a` -/
def cpot (cf : Conf) (coll : List (Nat × RemoteDep.St)) (X : List (Nat × Msg)) (a : Nat) : Nat :=
  match look coll a with
  | none => 4 * cf.nranks
  | some st => 4 * (cf.nranks - (st.inflight.length + st.log.length)) + wsum X a st.inflight

def dmu (g : DGraph) (cf : Conf) (s : DSt) : Nat := mu s.core + s.xfer.length + tot (cpot cf s.coll s.xfer) g.n

section
variable {g : DGraph} {cf : Conf} {F : Nat → List (Option Nat) → Nat} {again : List Nat}

/-- a fold of releases never increases the single-process measure -/
theorem mu_relFold (hwf : g.WF) (a : Nat) : ∀ (rel : List Nat) (c : Dataflow.St), Inv g.graph F c →
    mu (relFold g.graph F a rel c) ≤ mu c := by
  intro rel
  induction rel with
  | nil => intro c _; exact Nat.le_refl _
  | cons b rest ih =>
    intro c h
    have h' := inv_step (graph_WF g hwf) c h (.release a b)
    have e : relFold g.graph F a (b :: rest) c = relFold g.graph F a rest (Dataflow.step g.graph F c (.release a b)) := rfl
    rw [e]
    have h1 := ih _ h'
    by_cases hen : enabled c (.release a b) = true
    · have := mu_decreases g.graph F c (.release a b) hen (fun a' b' ht => by
        cases ht
        exact Or.inl (release_target_waiting (graph_WF g hwf) h a b hen))
      omega
    · have : Dataflow.step g.graph F c (.release a b) = c := by unfold Dataflow.step; simp [hen]
      rw [this] at h1 ⊢; exact h1

/-- messages of a collective (in flight or delivered) are at most `nranks` and pairwise distinct -/
theorem coll_bound (hwf : g.WF) (hcf : cf.WF g) {s : DSt} (h : DInv g cf F again s) (a : Nat) (st : RemoteDep.St)
    (hl : look s.coll a = some st) : st.inflight.length + st.log.length ≤ cf.nranks ∧ st.inflight.Nodup := by
  obtain ⟨haE, ms, hms⟩ := h.act a st hl
  have ha : a < g.n := h.lt_of_ended hwf haE
  have hcw := cfgOf_WF hwf hcf a ha
  have hC : RemoteDep.Inv (cfgOf g cf a) st := hms ▸ inv_run hcw (cfgOf_tree g cf a) ms
  have hnd := hC.nodup
  constructor
  · have hlt : ∀ x ∈ dsts (st.inflight ++ st.log), x < cf.nranks := by
      intro x hx
      obtain ⟨m, hm, rfl⟩ := mem_dsts.1 hx
      exact Cfg.member_lt hcw (Cfg.edge_dst (hC.edge m hm).1)
    have := length_le_of_nodup_lt cf.nranks _ hnd hlt
    simpa [dsts] using this
  · rw [dsts_append, List.nodup_append] at hnd
    have h1 := hnd.1
    unfold dsts at h1
    exact List.Pairwise.of_map Msg.dst (fun x y hne e => hne (e ▸ rfl)) h1

theorem complete_fields (s : DSt) (a : Nat) (m : Msg) (st : RemoteDep.St) (hl : look s.coll a = some st)
    (hm : m ∈ st.inflight) :
    (complete g cf F s a m).core = relFold g.graph F a (releasedBy g cf a m) s.core ∧
    (complete g cf F s a m).coll = (a, (cfgOf g cf a).deliver st m) :: s.coll ∧
    (complete g cf F s a m).xfer = s.xfer := by
  have hmi : st.inflight.contains m = true := by simpa using hm
  unfold complete
  rw [hl]
  simp only [hmi, if_true]
  refine ⟨?_, ?_, ?_⟩ <;> first | rfl | trivial

/-- completion of a message in flight gains at least its weight -/
theorem dmu_complete (hwf : g.WF) (hcf : cf.WF g) {s : DSt} (h : DInv g cf F again s) (a : Nat) (m : Msg)
    (st : RemoteDep.St) (hl : look s.coll a = some st) (hm : m ∈ st.inflight) :
    dmu g cf (complete g cf F s a m) + wt s.xfer a m ≤ dmu g cf s := by
  have hG := h.ginv hwf
  obtain ⟨haE, _, _⟩ := h.act a st hl
  have ha : a < g.n := h.lt_of_ended hwf haE
  obtain ⟨f1, f2, f3⟩ := complete_fields (g := g) (cf := cf) (F := F) s a m st hl hm
  have hb' := coll_bound hwf hcf (dinv_complete hwf hcf h a m) a ((cfgOf g cf a).deliver st m)
    (by rw [f2, look_cons]; simp)
  have hdl : (cfgOf g cf a).deliver st m = ⟨st.inflight.erase m ++ (cfgOf g cf a).msgs m.dst, m :: st.log⟩ := by
    unfold Cfg.deliver; rw [if_pos hm]
  rw [hdl] at hb'
  simp only [List.length_append, List.length_cons, List.length_erase_of_mem hm] at hb'
  have hlen : 1 ≤ st.inflight.length := List.length_pos_of_mem hm
  have hmu := mu_relFold (F := F) hwf a (releasedBy g cf a m) s.core hG
  unfold dmu
  rw [f1, f2, f3]
  have hpot : tot (cpot cf ((a, (cfgOf g cf a).deliver st m) :: s.coll) s.xfer) g.n + wt s.xfer a m ≤
      tot (cpot cf s.coll s.xfer) g.n := by
    have hself : cpot cf ((a, (cfgOf g cf a).deliver st m) :: s.coll) s.xfer a + wt s.xfer a m ≤ cpot cf s.coll s.xfer a := by
      unfold cpot
      rw [look_cons]
      simp only [beq_self_eq_true, if_true]
      rw [hl, hdl]
      simp only [List.length_append, List.length_cons, List.length_erase_of_mem hm]
      rw [wsum_append, wsum_erase s.xfer a m st.inflight hm]
      have := wsum_le s.xfer a ((cfgOf g cf a).msgs m.dst)
      omega
    apply tot_gain _ _ g.n a _ ha
    · intro i _
      by_cases hk : a = i
      · subst hk; omega
      · unfold cpot
        rw [look_cons]
        have : (a == i) = false := by simpa using hk
        rw [this]
        simp only [Bool.false_eq_true, if_false]
        exact Nat.le_refl _
    · exact hself
  omega

/-- changing `xfer` only changes the weights -/
theorem cpot_xfer_le (s : DSt) (X : List (Nat × Msg)) (i : Nat)
    (h : ∀ st, look s.coll i = some st → wsum X i st.inflight ≤ wsum s.xfer i st.inflight) :
    cpot cf s.coll X i ≤ cpot cf s.coll s.xfer i := by
  unfold cpot
  cases hl : look s.coll i with
  | none => exact Nat.le_refl _
  | some st => simp only; have := h st hl; omega

/-- **every enabled transition of a reachable state strictly decreases the measure** -/
theorem dstep_decreases (hwf : g.WF) (hcf : cf.WF g) {s : DSt} (h : DInv g cf F again s) (t : DTr)
    (hen : denabled cf s t = true) : dmu g cf (dstep g cf F s t) < dmu g cf s := by
  have hG := h.ginv hwf
  cases t with
  | start i =>
    have e : dstep g cf F s (.start i) = { s with core := Dataflow.step g.graph F s.core (.start i) } := by
      unfold dstep; simp [hen]
    rw [e]
    have := mu_decreases g.graph F s.core (.start i) hen (fun _ _ ht => by cases ht)
    unfold dmu; simp only
    omega
  | again i =>
    have e : dstep g cf F s (.again i) = { s with core := Dataflow.step g.graph F s.core (.again i) } := by
      unfold dstep; simp [hen]
    rw [e]
    have := mu_decreases g.graph F s.core (.again i) hen (fun _ _ ht => by cases ht)
    unfold dmu; simp only
    omega
  | releaseLocal a b =>
    have e : dstep g cf F s (.releaseLocal a b) = { s with core := Dataflow.step g.graph F s.core (.release a b) } := by
      unfold dstep; simp [hen]
    rw [e]
    simp only [denabled, Bool.and_eq_true, beq_iff_eq] at hen
    have := mu_decreases g.graph F s.core (.release a b) hen.1 (fun a' b' ht => by
      cases ht
      exact Or.inl (release_target_waiting (graph_WF g hwf) hG a b hen.1))
    unfold dmu; simp only
    omega
  | finish i =>
    have hen' : enabled s.core (.finish i) = true := hen
    have hst : s.core.status[i]? = some Status.running := by
      simp only [enabled, Bool.and_eq_true, beq_iff_eq] at hen'; exact hen'.1
    have hmu := mu_decreases g.graph F s.core (.finish i) hen' (fun _ _ ht => by cases ht)
    have e1 : Dataflow.step g.graph F s.core (.finish i) =
        { s.core with status := s.core.status.set i .ended, val := s.core.val.set i (some (F i (localInputs g cf s i))),
                      log := s.core.log ++ [.end_ i] } := by
      unfold Dataflow.step
      simp [hen', localInputs_eq hwf h i hst]
    have e : dstep g cf F s (.finish i) =
        { s with core := Dataflow.step g.graph F s.core (.finish i),
                 store := ((cf.place i, i), F i (localInputs g cf s i)) :: s.store,
                 coll := (i, (cfgOf g cf i).init) :: s.coll } := by
      rw [e1]; unfold dstep; simp [hen]
    have hnone : look s.coll i = none := by
      cases hl : look s.coll i with
      | none => rfl
      | some st => have := (h.act i st hl).1; rw [hst] at this; cases this
    have hnew := dinv_finish hwf h i hen'
    have hb := coll_bound hwf hcf hnew i (cfgOf g cf i).init (by simp only; rw [look_cons]; simp)
    rw [e]
    unfold dmu
    simp only
    have hpot : tot (cpot cf ((i, (cfgOf g cf i).init) :: s.coll) s.xfer) g.n ≤ tot (cpot cf s.coll s.xfer) g.n := by
      apply tot_le
      intro j _
      by_cases hk : i = j
      · subst hk
        unfold cpot
        rw [look_cons]
        simp only [beq_self_eq_true, if_true]
        rw [hnone]
        simp only
        have := wsum_le s.xfer i (cfgOf g cf i).init.inflight
        have h2 := hb.1
        omega
      · unfold cpot
        rw [look_cons]
        have : (i == j) = false := by simpa using hk
        rw [this]
        simp only [Bool.false_eq_true, if_false]
        exact Nat.le_refl _
    omega
  | recvAct a m eager =>
    have hen0 := hen
    simp only [denabled, Bool.and_eq_true, Bool.not_eq_true', Bool.or_eq_true] at hen
    obtain ⟨⟨hin, hnx⟩, _⟩ := hen
    have hmem : m ∈ inflightOf s a := by simpa using hin
    obtain ⟨st, hl, hm⟩ : ∃ st, look s.coll a = some st ∧ m ∈ st.inflight := by
      unfold inflightOf at hmem
      cases hl : look s.coll a with
      | none => rw [hl] at hmem; cases hmem
      | some st => rw [hl] at hmem; exact ⟨st, rfl, hmem⟩
    have ha : a < g.n := h.lt_of_ended hwf (h.act a st hl).1
    cases eager with
    | true =>
      have e : dstep g cf F s (.recvAct a m true) = complete g cf F s a m := by
        unfold dstep; simp [hen0]
      rw [e]
      have := dmu_complete hwf hcf h a m st hl hm
      have := (wt_le s.xfer a m).1
      omega
    | false =>
      have e : dstep g cf F s (.recvAct a m false) = { s with xfer := (a, m) :: s.xfer } := by
        unfold dstep; simp [hen0]
      rw [e]
      unfold dmu
      simp only [List.length_cons]
      have hw : ∀ (i : Nat) (m' : Msg), wt ((a, m) :: s.xfer) i m' ≤ wt s.xfer i m' := by
        intro i m'
        unfold wt
        rw [List.contains_cons]
        cases s.xfer.contains (i, m') <;> simp <;> split <;> omega
      have hpot : tot (cpot cf s.coll ((a, m) :: s.xfer)) g.n + 2 ≤ tot (cpot cf s.coll s.xfer) g.n := by
        apply tot_gain _ _ g.n a 2 ha
        · intro i _
          apply cpot_xfer_le s
          intro st' _
          exact wsum_mono _ _ _ _ (fun m' _ => hw i m')
        · unfold cpot
          rw [hl]
          simp only
          rw [wsum_erase _ a m st.inflight hm, wsum_erase s.xfer a m st.inflight hm]
          have h1 : wt ((a, m) :: s.xfer) a m = 1 := by unfold wt; simp
          have h2 : wt s.xfer a m = 3 := by unfold wt; rw [hnx]; rfl
          have h3 : wsum ((a, m) :: s.xfer) a (st.inflight.erase m) ≤ wsum s.xfer a (st.inflight.erase m) :=
            wsum_mono _ _ _ _ (fun m' _ => hw a m')
          omega
      omega
  | recvData a m =>
    have e : dstep g cf F s (.recvData a m) = complete g cf F { s with xfer := s.xfer.erase (a, m) } a m := by
      unfold dstep; simp [hen]
    rw [e]
    have hx : (a, m) ∈ s.xfer := by simpa [denabled] using hen
    have hlen : (s.xfer.erase (a, m)).length + 1 = s.xfer.length := by
      rw [List.length_erase_of_mem hx]; have := List.length_pos_of_mem hx; omega
    have h1 := dinv_xfer h (s.xfer.erase (a, m))
    -- weights of the other messages do not change
    have hother : ∀ (i : Nat) (m' : Msg), (i, m') ≠ (a, m) → wt (s.xfer.erase (a, m)) i m' = wt s.xfer i m' := by
      intro i m' hne
      unfold wt
      have : (s.xfer.erase (a, m)).contains (i, m') = s.xfer.contains (i, m') := by
        cases hc : s.xfer.contains (i, m') with
        | true =>
          have : (i, m') ∈ s.xfer := by simpa using hc
          simpa using (List.mem_erase_of_ne hne).2 this
        | false =>
          cases hc2 : (s.xfer.erase (a, m)).contains (i, m') with
          | false => rfl
          | true =>
            have : (i, m') ∈ s.xfer.erase (a, m) := by simpa using hc2
            have := List.mem_of_mem_erase this
            simp [this] at hc
      rw [this]
    by_cases hin : ∃ st, look s.coll a = some st ∧ m ∈ st.inflight
    · obtain ⟨st, hl, hm⟩ := hin
      have ha : a < g.n := h.lt_of_ended hwf (h.act a st hl).1
      have hnd := (coll_bound hwf hcf h a st hl).2
      have hc := dmu_complete hwf hcf h1 a m st hl hm
      simp only at hc
      -- measure of the state with the entry removed, against the original
      have hpot : tot (cpot cf s.coll (s.xfer.erase (a, m))) g.n + wt s.xfer a m ≤
          tot (cpot cf s.coll s.xfer) g.n + wt (s.xfer.erase (a, m)) a m := by
        have hw1 : wt s.xfer a m = 1 := by unfold wt; simp [hx]
        have := tot_loss (cpot cf s.coll s.xfer) (cpot cf s.coll (s.xfer.erase (a, m))) g.n a (wt (s.xfer.erase (a, m)) a m - 1)
          (by
            intro i _ hia
            apply cpot_xfer_le s
            intro st' _
            apply Nat.le_of_eq
            apply wsum_congr
            intro m' _
            exact hother i m' (by intro e; injection e with e1 _; exact hia e1))
          (by
            unfold cpot
            rw [hl]
            simp only
            rw [wsum_erase _ a m st.inflight hm, wsum_erase s.xfer a m st.inflight hm]
            have : wsum (s.xfer.erase (a, m)) a (st.inflight.erase m) = wsum s.xfer a (st.inflight.erase m) := by
              apply wsum_congr
              intro m' hm'
              apply hother
              intro e; injection e with _ e2
              subst e2
              exact (List.Nodup.not_mem_erase hnd) hm'
            have := (wt_le (s.xfer.erase (a, m)) a m).1
            omega)
        have := (wt_le (s.xfer.erase (a, m)) a m).1
        omega
      unfold dmu at hc ⊢
      simp only at hc ⊢
      have := (wt_le s.xfer a m).1
      omega
    · -- stale entry: nothing else changes
      have hc : complete g cf F { s with xfer := s.xfer.erase (a, m) } a m = { s with xfer := s.xfer.erase (a, m) } := by
        unfold complete
        simp only
        cases hl : look s.coll a with
        | none => rfl
        | some st =>
          simp only
          have : st.inflight.contains m = false := by
            cases hc : st.inflight.contains m with
            | false => rfl
            | true => exact absurd ⟨st, hl, by simpa using hc⟩ hin
          rw [this]; rfl
      rw [hc]
      unfold dmu
      simp only
      have hpot : tot (cpot cf s.coll (s.xfer.erase (a, m))) g.n ≤ tot (cpot cf s.coll s.xfer) g.n := by
        apply tot_le
        intro i _
        apply cpot_xfer_le s
        intro st' hl'
        apply Nat.le_of_eq
        apply wsum_congr
        intro m' hm'
        apply hother
        intro e; injection e with e1 e2
        subst e1; subst e2
        exact hin ⟨st', hl', hm'⟩
      omega

end
end ParsecVerif.DistRt
