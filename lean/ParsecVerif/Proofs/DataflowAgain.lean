import ParsecVerif.Proofs.Dataflow
/-! Accounting of body invocations with AGAIN answers (C16) on the generic dataflow machine. -/
namespace ParsecVerif.Dataflow

def active (st : Option Status) : Nat := if st = some .running ∨ st = some .ended then 1 else 0

structure Inv2 (again0 : List Nat) (s : St) : Prop where
  starts : ∀ i : Nat, s.log.count (.start i) = s.log.count (.again i) + active s.status[i]?
  budget : ∀ i : Nat, s.log.count (.again i) + (s.again[i]?).getD 0 = (again0[i]?).getD 0
  zero   : ∀ i : Nat, s.status[i]? = some Status.ended → (s.again[i]?).getD 0 = 0

theorem inv2_init (g : Graph) (again : List Nat) : Inv2 again (init g again) := by
  have hst : ∀ j, (init g again).status[j]? = if j < g.n then some (if hasIn g.E j then Status.waiting else Status.ready) else none := by
    intro j
    simp only [init, List.getElem?_map, List.getElem?_range]
    split <;> simp_all
  refine ⟨?_, ?_, ?_⟩
  · intro i
    have : (init g again).log = [] := rfl
    rw [this, hst i]; unfold active
    split
    · split <;> simp
    · simp
  · intro i
    have : (init g again).log = [] := rfl
    rw [this]; simp [init]
  · intro i hi
    rw [hst i] at hi
    split at hi
    · split at hi <;> simp at hi
    · simp at hi

theorem active_set {l : List Status} {i : Nat} {old : Status} (new : Status) (h : l[i]? = some old) (k : Nat) :
    active (l.set i new)[k]? = if k = i then active (some new) else active l[k]? := by
  rw [getElem?_set' new h k]; split <;> rfl

theorem inv2_step (g : Graph) (F) (again0 : List Nat) (s : St) (h : Inv2 again0 s)
    (hrel : ∀ a b, enabled s (.release a b) = true → s.status[b]? = some .waiting) (t : Tr) :
    Inv2 again0 (step g F s t) := by
  unfold step
  by_cases hen : enabled s t = true
  · rw [if_neg (by simp [hen])]
    cases t with
    | start i =>
      have hst : s.status[i]? = some .ready := by simpa [enabled] using hen
      refine ⟨?_, ?_, ?_⟩
      · intro k
        show (s.log ++ [Ev.start i]).count (.start k) = (s.log ++ [Ev.start i]).count (.again k) + active (s.status.set i .running)[k]?
        rw [List.count_append, List.count_append, h.starts k, active_set _ hst]
        by_cases hk : k = i
        · subst hk; simp [active, hst]
        · have : Ev.start i ≠ Ev.start k := by intro hh; injection hh with hh; exact hk hh.symm
          simp [hk, this]
      · intro k
        show (s.log ++ [Ev.start i]).count (.again k) + _ = _
        rw [List.count_append]; simpa using h.budget k
      · intro k hk
        have : s.status[k]? = some .ended := (set_status_iff hst (by decide) (by decide) k).1 hk
        exact h.zero k this
    | again i =>
      simp only [enabled, Bool.and_eq_true, beq_iff_eq, decide_eq_true_eq] at hen
      have hst := hen.1
      refine ⟨?_, ?_, ?_⟩
      · intro k
        show (s.log ++ [Ev.again i]).count (.start k) = (s.log ++ [Ev.again i]).count (.again k) + active (s.status.set i .ready)[k]?
        rw [List.count_append, List.count_append, h.starts k, active_set _ hst]
        by_cases hk : k = i
        · subst hk; simp [active, hst]
        · have : Ev.again i ≠ Ev.again k := by intro hh; injection hh with hh; exact hk hh.symm
          simp [hk, this]
      · intro k
        show (s.log ++ [Ev.again i]).count (.again k) + ((s.again.set i ((s.again[i]?).getD 0 - 1))[k]?).getD 0 = _
        rw [List.count_append, ← h.budget k]
        cases ha : s.again[i]? with
        | none => simp [ha] at hen
        | some x =>
          simp only [ha, Option.getD_some] at hen ⊢
          rw [getElem?_set' _ ha k]
          by_cases hk : k = i
          · subst hk; simp [ha]; omega
          · have : Ev.again i ≠ Ev.again k := by intro hh; injection hh with hh; exact hk hh.symm
            simp [hk, this]
      · intro k hk
        have hk' : s.status[k]? = some .ended := (set_status_iff hst (by decide) (by decide) k).1 hk
        have hki : k ≠ i := by intro hh; subst hh; rw [hst] at hk'; exact absurd (Option.some.inj hk') (by decide)
        show ((s.again.set i _)[k]?).getD 0 = 0
        rw [List.getElem?_set_ne (Ne.symm hki)]; exact h.zero k hk'
    | finish i =>
      simp only [enabled, Bool.and_eq_true, beq_iff_eq] at hen
      have hst := hen.1
      refine ⟨?_, ?_, ?_⟩
      · intro k
        show (s.log ++ [Ev.end_ i]).count (.start k) = (s.log ++ [Ev.end_ i]).count (.again k) + active (s.status.set i .ended)[k]?
        rw [List.count_append, List.count_append, h.starts k, active_set _ hst]
        by_cases hk : k = i
        · subst hk; simp [active, hst]
        · simp [hk]
      · intro k
        show (s.log ++ [Ev.end_ i]).count (.again k) + _ = _
        rw [List.count_append]; simpa using h.budget k
      · intro k hk
        have hk2 : (s.status.set i .ended)[k]? = some .ended := hk
        rw [getElem?_set' _ hst k] at hk2
        by_cases hki : k = i
        · subst hki; exact hen.2
        · rw [if_neg hki] at hk2; exact h.zero k hk2
    | release a b =>
      have hbw := hrel a b hen
      have hact : ∀ k : Nat, active (if hasIn (s.pending.erase (a, b)) b then s.status else s.status.set b Status.ready)[k]? = active s.status[k]? := by
        intro k; split
        · rfl
        · rw [active_set _ hbw]
          by_cases hk : k = b
          · subst hk; simp [active, hbw]
          · simp [hk]
      refine ⟨?_, h.budget, ?_⟩
      · intro k
        show s.log.count (.start k) = s.log.count (.again k) + active (if hasIn (s.pending.erase (a, b)) b then s.status else s.status.set b Status.ready)[k]?
        rw [hact k]; exact h.starts k
      · intro k hk
        apply h.zero k
        have hk2 : (if hasIn (s.pending.erase (a, b)) b then s.status else s.status.set b Status.ready)[k]? = some Status.ended := hk
        split at hk2
        · exact hk2
        · exact (set_status_iff hbw (by decide) (by decide) k).1 hk2
  · rw [if_pos (by simpa using hen)]; exact h

end ParsecVerif.Dataflow
