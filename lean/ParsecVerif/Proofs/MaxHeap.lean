import ParsecVerif.Proofs.MaxHeapArith
/-!
  Structural invariants of the max-heap model: left-complete shape (`Shape`), heap order (`Ord`),
  and element conservation, for `insPath` (heap_insert), `detachPath` + `sift` (heap_remove) and
  `split` (heap_split_and_steal).
-/
namespace ParsecVerif.MaxHeap
open Tree

/-- `Shape n t`: `t` is THE left-complete binary tree with `n` nodes (all levels full except the last,
    which is filled from the left): the subtrees are the left-complete trees with `lsz n` / `rsz n` nodes -/
def Shape : Nat → Tree → Prop
  | n, .nil => n = 0
  | n, .node l _ r => n ≠ 0 ∧ Shape (lsz n) l ∧ Shape (rsz n) r

/-- the priority of the root of `t` (if any) is at most `z` -/
def leRoot (t : Tree) (z : Int) : Prop :=
  match t with
  | .nil => True
  | .node _ y _ => y.prio ≤ z

/-- max-heap order: no child has a higher priority than its parent -/
def Ord : Tree → Prop
  | .nil => True
  | .node l x r => leRoot l x.prio ∧ leRoot r x.prio ∧ Ord l ∧ Ord r

theorem Shape_zero {t : Tree} (h : Shape 0 t) : t = .nil := by
  cases t with
  | nil => rfl
  | node l x r => exact absurd rfl h.1

theorem Shape_size : ∀ (t : Tree) (n : Nat), Shape n t → t.size = n := by
  intro t
  induction t with
  | nil => intro n h; simp [Shape] at h; simp [Tree.size, h]
  | node l x r ihl ihr =>
    intro n h
    obtain ⟨h0, hl, hr⟩ := h
    simp only [Tree.size, ihl _ hl, ihr _ hr]
    exact lsz_add_rsz n h0

theorem elems_length (t : Tree) : t.elems.length = t.size := by
  induction t with
  | nil => rfl
  | node l x r ihl ihr => simp [Tree.elems, Tree.size, ihl, ihr]

theorem leRoot_mono {t : Tree} {z z' : Int} (h : leRoot t z) (hz : z ≤ z') : leRoot t z' := by
  cases t with
  | nil => trivial
  | node l y r => exact Int.le_trans h hz

/-- the root dominates every element -/
theorem Ord_max : ∀ (t : Tree), Ord t → ∀ z, leRoot t z → ∀ a ∈ t.elems, a.prio ≤ z := by
  intro t
  induction t with
  | nil => intro _ z _ a ha; simp [Tree.elems] at ha
  | node l x r ihl ihr =>
    intro ho z hz a ha
    obtain ⟨h1, h2, h3, h4⟩ := ho
    simp only [Tree.elems, List.mem_cons, List.mem_append] at ha
    have hxz : x.prio ≤ z := hz
    rcases ha with rfl | ha | ha
    · exact hxz
    · exact ihl h3 z (leRoot_mono h1 hxz) a ha
    · exact ihr h4 z (leRoot_mono h2 hxz) a ha

/-! ## heap_insert -/

theorem bubble_count (right : Bool) (o : Tree) (x : Task) (c : Tree × Bool) (a : Task) :
    (bubble right o x c).1.elems.count a = o.elems.count a + c.1.elems.count a + (if x = a then 1 else 0) := by
  obtain ⟨ct, cf⟩ := c
  cases cf with
  | false => cases right <;> simp [bubble, Tree.elems, List.count_cons, List.count_append] <;> omega
  | true =>
    cases ct with
    | nil => cases right <;> simp [bubble, Tree.elems, List.count_cons]
    | node cl e cr =>
      simp only [bubble]
      split <;> cases right <;> simp [Tree.elems, List.count_cons, List.count_append] <;> omega

theorem bubble_shape (right : Bool) (o : Tree) (x : Task) (c : Tree × Bool) (n : Nat) (h0 : n ≠ 0)
    (ho : Shape (if right then lsz n else rsz n) o) (hc : Shape (if right then rsz n else lsz n) c.1) :
    Shape n (bubble right o x c).1 := by
  obtain ⟨ct, cf⟩ := c
  cases cf with
  | false => cases right <;> simp_all [bubble, Shape]
  | true =>
    cases ct with
    | nil => cases right <;> simp_all [bubble, Shape]
    | node cl e cr =>
      simp only [bubble]
      split <;> cases right <;> simp_all [Shape]

/-- shape and conservation of the walk + attach + bubble-up on a left-complete tree -/
theorem insPath_shape (e : Task) : ∀ (t : Tree) (n : Nat), Shape n t →
    Shape (n + 1) (insPath e (pathOf (n + 1)) t).1 ∧
    ∀ a, (insPath e (pathOf (n + 1)) t).1.elems.count a = t.elems.count a + (if e = a then 1 else 0) := by
  intro t
  induction t with
  | nil =>
    intro n h
    simp [Shape] at h
    subst h
    rw [pathOf_one]
    simp [insPath, leaf, Shape, lsz_one, rsz_one, Tree.elems, List.count_cons]
  | node l x r ihl ihr =>
    intro n h
    obtain ⟨h0, hl, hr⟩ := h
    obtain ⟨j, ρ, e1, hρ⟩ := decomp2 (n + 1) (by omega)
    have hn : n = 2 ^ (j + 1) + ρ - 1 := by omega
    obtain ⟨pl, pr⟩ := lsz_rsz_pred j ρ hρ
    rw [← hn] at pl pr
    have vl := lsz_val j ρ hρ
    have vr := rsz_val j ρ hρ
    rw [← e1] at vl vr
    have hp := Nat.two_pow_pos j
    rw [e1, pathOf_step j ρ hρ]
    by_cases hc : 2 ^ j ≤ ρ
    · -- the next free position is in the right subtree
      have hlt : ¬ ρ < 2 ^ j := by omega
      simp only [hc, if_true, hlt, if_false, decide_true] at pl pr vl vr ⊢
      have e2 : rsz n + 1 = ρ := by omega
      obtain ⟨s1, s2⟩ := ihr (rsz n) hr
      rw [e2] at s1 s2
      simp only [insPath, if_true]
      constructor
      · rw [← e1]
        apply bubble_shape true l x _ (n + 1) (by omega)
        · simp only [if_true]; rw [vl, ← pl]; exact hl
        · simp only [if_true]; rw [vr]; exact s1
      · intro a
        rw [bubble_count, s2 a]
        simp only [Tree.elems, List.count_cons, List.count_append, beq_iff_eq]
        omega
    · have hlt : ρ < 2 ^ j := by omega
      simp only [hc, if_false, hlt, if_true, decide_false] at pl pr vl vr ⊢
      have e2 : lsz n + 1 = 2 ^ j + ρ := by omega
      obtain ⟨s1, s2⟩ := ihl (lsz n) hl
      rw [e2] at s1 s2
      simp only [insPath, Bool.false_eq_true, if_false]
      constructor
      · rw [← e1]
        apply bubble_shape false r x _ (n + 1) (by omega)
        · simp only [Bool.false_eq_true, if_false]; rw [vr, ← pr]; exact hr
        · simp only [Bool.false_eq_true, if_false]; rw [vl]; exact s1
      · intro a
        rw [bubble_count, s2 a]
        simp only [Tree.elems, List.count_cons, List.count_append, beq_iff_eq]
        omega

/-- heap order is kept by the bubble-up (unconditionally) -/
theorem insPath_ord (e : Task) : ∀ (p : List Bool) (t : Tree), Ord t →
    Ord (insPath e p t).1 ∧
    ((insPath e p t).2 = false → ∀ z, leRoot t z → leRoot (insPath e p t).1 z) ∧
    ((insPath e p t).2 = true → ∃ cl cr, (insPath e p t).1 = .node cl e cr ∧
        ∀ z, leRoot t z → leRoot cl z ∧ leRoot cr z) := by
  intro p
  induction p with
  | nil =>
    intro t _
    refine ⟨by simp [insPath, leaf, Ord, leRoot], by simp [insPath], ?_⟩
    intro _
    exact ⟨.nil, .nil, by simp [insPath, leaf], fun _ _ => ⟨trivial, trivial⟩⟩
  | cons b bs ih =>
    intro t ht
    cases t with
    | nil => simp [insPath, Ord, leRoot]
    | node l x r =>
      obtain ⟨h1, h2, h3, h4⟩ := ht
      cases b with
      | true =>
        obtain ⟨i1, i2, i3⟩ := ih r h4
        simp only [insPath, if_true]
        generalize hc : insPath e bs r = c at i1 i2 i3
        obtain ⟨ct, cf⟩ := c
        cases cf with
        | false =>
          have hq := i2 rfl x.prio h2
          simp only [bubble, ↓reduceIte]
          exact ⟨⟨h1, hq, h3, i1⟩, fun _ z hz => hz, by simp⟩
        | true =>
          obtain ⟨cl, cr, e1, e2⟩ := i3 rfl
          simp only at e1
          subst e1
          obtain ⟨k1, k2⟩ := e2 x.prio h2
          obtain ⟨o1, o2, o3, o4⟩ := i1
          simp only [bubble]
          split
          · rename_i hgt
            refine ⟨⟨leRoot_mono h1 (Int.le_of_lt hgt), Int.le_of_lt hgt, h3, ⟨k1, k2, o3, o4⟩⟩, by simp, ?_⟩
            intro _
            exact ⟨l, .node cl x cr, rfl, fun z hz => ⟨leRoot_mono h1 hz, hz⟩⟩
          · rename_i hgt
            refine ⟨⟨h1, Int.not_lt.1 hgt, h3, ⟨o1, o2, o3, o4⟩⟩, ?_, by simp⟩
            intro _ z hz; exact hz
      | false =>
        obtain ⟨i1, i2, i3⟩ := ih l h3
        simp only [insPath, Bool.false_eq_true, if_false]
        generalize hc : insPath e bs l = c at i1 i2 i3
        obtain ⟨ct, cf⟩ := c
        cases cf with
        | false =>
          have hq := i2 rfl x.prio h1
          simp only [bubble, Bool.false_eq_true, ↓reduceIte]
          exact ⟨⟨hq, h2, i1, h4⟩, fun _ z hz => hz, by simp⟩
        | true =>
          obtain ⟨cl, cr, e1, e2⟩ := i3 rfl
          simp only at e1
          subst e1
          obtain ⟨k1, k2⟩ := e2 x.prio h1
          obtain ⟨o1, o2, o3, o4⟩ := i1
          simp only [bubble]
          split
          · rename_i hgt
            refine ⟨⟨Int.le_of_lt hgt, leRoot_mono h2 (Int.le_of_lt hgt), ⟨k1, k2, o3, o4⟩, h4⟩, by simp, ?_⟩
            intro _
            exact ⟨.node cl x cr, r, rfl, fun z hz => ⟨hz, leRoot_mono h2 hz⟩⟩
          · rename_i hgt
            refine ⟨⟨Int.not_lt.1 hgt, h2, ⟨o1, o2, o3, o4⟩, h4⟩, ?_, by simp⟩
            intro _ z hz; exact hz

/-! ## heap_remove -/

theorem lsz_pos (n : Nat) (h : 2 ≤ n) : lsz n ≠ 0 := by
  obtain ⟨j, ρ, e, hρ⟩ := decomp2 n h
  subst e
  rw [lsz_val j ρ hρ]
  have := Nat.two_pow_pos j
  rw [Nat.pow_succ]
  split <;> omega

theorem rsz_zero (n : Nat) (h : 2 ≤ n) (hr : rsz n = 0) : n = 2 := by
  obtain ⟨j, ρ, e, hρ⟩ := decomp2 n h
  subst e
  rw [rsz_val j ρ hρ] at hr
  have := Nat.two_pow_pos j
  split at hr
  · cases j with
    | zero => simp at *; omega
    | succ j' => have := Nat.two_pow_pos j'; rw [Nat.pow_succ] at hr; omega
  · omega

theorem lsz_two : lsz 2 = 1 := by
  have := lsz_val 0 0 (by simp); simpa using this

/-- detaching the last node of a left-complete tree: the walk is defined, the rest is left-complete -/
theorem detachPath_shape : ∀ (t : Tree) (n : Nat), Shape n t → n ≠ 0 →
    ∃ last, (detachPath (pathOf n) t).2 = some last ∧ Shape (n - 1) (detachPath (pathOf n) t).1 ∧
      ∀ a, t.elems.count a = (detachPath (pathOf n) t).1.elems.count a + (if last = a then 1 else 0) := by
  intro t
  induction t with
  | nil => intro n h h0; simp [Shape] at h; exact absurd h h0
  | node l x r ihl ihr =>
    intro n h h0
    obtain ⟨_, hl, hr⟩ := h
    by_cases h1 : n = 1
    · subst h1
      rw [lsz_one] at hl; rw [rsz_one] at hr
      rw [Shape_zero hl, Shape_zero hr, pathOf_one]
      exact ⟨x, by simp [detachPath], by simp [detachPath, Shape], by simp [detachPath, Tree.elems, List.count_cons]⟩
    · obtain ⟨j, ρ, e1, hρ⟩ := decomp2 n (by omega)
      obtain ⟨pl, pr⟩ := lsz_rsz_pred j ρ hρ
      have vl := lsz_val j ρ hρ
      have vr := rsz_val j ρ hρ
      rw [← e1] at vl vr pl pr
      have hp := Nat.two_pow_pos j
      have hn1 : n - 1 ≠ 0 := by omega
      rw [e1, pathOf_step j ρ hρ]
      by_cases hc : 2 ^ j ≤ ρ
      · have hlt : ¬ ρ < 2 ^ j := by omega
        simp only [hc, if_true, hlt, if_false, decide_true] at pl pr vl vr ⊢
        rw [vr] at hr
        obtain ⟨last, d1, d2, d3⟩ := ihr ρ hr (by omega)
        refine ⟨last, by simp [detachPath, d1], ?_, ?_⟩
        · simp only [detachPath, if_true]
          rw [← e1]
          exact ⟨hn1, by rw [pl, ← vl]; exact hl, by rw [pr]; exact d2⟩
        · intro a
          simp only [detachPath, if_true, Tree.elems, List.count_cons, List.count_append]
          have := d3 a
          omega
      · have hlt : ρ < 2 ^ j := by omega
        simp only [hc, if_false, hlt, if_true, decide_false] at pl pr vl vr ⊢
        rw [vl] at hl
        obtain ⟨last, d1, d2, d3⟩ := ihl (2 ^ j + ρ) hl (by omega)
        refine ⟨last, by simp [detachPath, d1], ?_, ?_⟩
        · simp only [detachPath, Bool.false_eq_true, if_false]
          rw [← e1]
          exact ⟨hn1, by rw [pl]; exact d2, by rw [pr, ← vr]; exact hr⟩
        · intro a
          simp only [detachPath, Bool.false_eq_true, if_false, Tree.elems, List.count_cons, List.count_append]
          have := d3 a
          omega

/-- detaching a subtree keeps the order and the root (when something is left) -/
theorem detachPath_ord : ∀ (p : List Bool) (t : Tree), Ord t →
    Ord (detachPath p t).1 ∧ ∀ z, leRoot t z → leRoot (detachPath p t).1 z := by
  intro p
  induction p with
  | nil => intro t _; cases t <;> simp [detachPath, Ord, leRoot]
  | cons b bs ih =>
    intro t ht
    cases t with
    | nil => simp [detachPath, Ord, leRoot]
    | node l x r =>
      obtain ⟨h1, h2, h3, h4⟩ := ht
      cases b with
      | true =>
        obtain ⟨i1, i2⟩ := ih r h4
        simp only [detachPath, if_true]
        exact ⟨⟨h1, i2 _ h2, h3, i1⟩, fun z hz => hz⟩
      | false =>
        obtain ⟨i1, i2⟩ := ih l h3
        simp only [detachPath, Bool.false_eq_true, if_false]
        exact ⟨⟨i2 _ h1, h2, i1, h4⟩, fun z hz => hz⟩

theorem sift_shape (b : Task) : ∀ (t : Tree) (n : Nat), Shape n t → Shape n (sift b t) := by
  intro t
  induction t with
  | nil => intro n h; simpa [sift] using h
  | node l x r ihl ihr =>
    intro n h
    obtain ⟨h0, hl, hr⟩ := h
    have sl := ihl _ hl
    have sr := ihr _ hr
    simp only [sift]
    split <;> (try split) <;> (try split) <;> exact ⟨h0, by assumption, by assumption⟩

theorem sift_count (b : Task) : ∀ (t : Tree) (l : Tree) (x : Task) (r : Tree), t = .node l x r →
    ∀ a, (sift b t).elems.count a = (if b = a then 1 else 0) + l.elems.count a + r.elems.count a := by
  intro t
  induction t with
  | nil => intro l x r h; cases h
  | node l0 x0 r0 ihl ihr =>
    intro l x r h a
    cases h
    simp only [sift]
    cases l0 with
    | nil =>
      cases r0 with
      | nil => simp [Tree.root?, Tree.elems, List.count_cons]
      | node rl n rr =>
        simp only [Tree.root?]
        have := ihr rl n rr rfl a
        split <;> simp [Tree.elems, List.count_cons, List.count_append] at * <;> omega
    | node ll p lr =>
      cases r0 with
      | nil =>
        simp only [Tree.root?]
        have := ihl ll p lr rfl a
        split <;> simp [Tree.elems, List.count_cons, List.count_append] at * <;> omega
      | node rl n rr =>
        simp only [Tree.root?]
        have i1 := ihl ll p lr rfl a
        have i2 := ihr rl n rr rfl a
        split
        · simp [Tree.elems, List.count_cons, List.count_append] at *; omega
        · split <;> simp [Tree.elems, List.count_cons, List.count_append] at * <;> omega

/-- bubbling down re-establishes the order; the new root is bounded by any bound of `b` and the children -/
theorem sift_ord (b : Task) : ∀ (t : Tree) (l : Tree) (x : Task) (r : Tree), t = .node l x r →
    Ord l → Ord r →
    Ord (sift b t) ∧ ∀ z, b.prio ≤ z → leRoot l z → leRoot r z → leRoot (sift b t) z := by
  intro t
  induction t with
  | nil => intro l x r h; cases h
  | node l0 x0 r0 ihl ihr =>
    intro l x r h ol or
    cases h
    simp only [sift]
    cases l0 with
    | nil =>
      cases r0 with
      | nil => simp [Tree.root?, Ord, leRoot]
      | node rl n rr =>
        simp only [Tree.root?]
        obtain ⟨q1, q2, q3, q4⟩ := or
        obtain ⟨i1, i2⟩ := ihr rl n rr rfl q3 q4
        split
        · rename_i hgt
          exact ⟨⟨trivial, i2 _ (Int.le_of_lt hgt) q1 q2, trivial, i1⟩, fun z _ _ hz => hz⟩
        · rename_i hgt
          exact ⟨⟨trivial, Int.not_lt.1 hgt, trivial, ⟨q1, q2, q3, q4⟩⟩, fun z hz _ _ => hz⟩
    | node ll p lr =>
      obtain ⟨p1, p2, p3, p4⟩ := ol
      obtain ⟨j1, j2⟩ := ihl ll p lr rfl p3 p4
      cases r0 with
      | nil =>
        simp only [Tree.root?]
        split
        · rename_i hgt
          exact ⟨⟨j2 _ (Int.le_of_lt hgt) p1 p2, trivial, j1, trivial⟩, fun z _ hz _ => hz⟩
        · rename_i hgt
          exact ⟨⟨Int.not_lt.1 hgt, trivial, ⟨p1, p2, p3, p4⟩, trivial⟩, fun z hz _ _ => hz⟩
      | node rl n rr =>
        simp only [Tree.root?]
        obtain ⟨q1, q2, q3, q4⟩ := or
        obtain ⟨i1, i2⟩ := ihr rl n rr rfl q3 q4
        split
        · rename_i hgt
          exact ⟨⟨j2 _ (Int.le_of_lt hgt.1) p1 p2, hgt.2, j1, ⟨q1, q2, q3, q4⟩⟩, fun z _ hz _ => hz⟩
        · rename_i hA
          split
          · rename_i hgt
            exact ⟨⟨Int.le_of_lt hgt.2, i2 _ (Int.le_of_lt hgt.1) q1 q2, ⟨p1, p2, p3, p4⟩, i1⟩, fun z _ _ hz => hz⟩
          · rename_i hB
            have hpb : p.prio ≤ b.prio := by
              simp only [leRoot] at *
              omega
            have hnb : n.prio ≤ b.prio := by
              simp only [leRoot] at *
              omega
            exact ⟨⟨hpb, hnb, ⟨p1, p2, p3, p4⟩, ⟨q1, q2, q3, q4⟩⟩, fun z hz _ _ => hz⟩

end ParsecVerif.MaxHeap
