import ParsecVerif.Model.DataOwnership
/-!
  Helper lemmas for C26: pointwise description (`getC`) of what one call does to every copy.
-/
namespace ParsecVerif.DataOwnership

theorem getC_some_lt {cs : List (Option Copy)} {i : Nat} {c : Copy} (h : getC cs i = some c) :
    i < cs.length := by
  unfold getC at h
  by_cases hi : i < cs.length
  · exact hi
  · rw [List.getElem?_eq_none (by omega)] at h; simp at h

theorem getC_set_self {cs : List (Option Copy)} {j : Nat} (x : Option Copy) (h : j < cs.length) :
    getC (cs.set j x) j = x := by
  unfold getC; simp [h]

theorem getC_set_ne {cs : List (Option Copy)} {i j : Nat} (x : Option Copy) (h : j ≠ i) :
    getC (cs.set j x) i = getC cs i := by
  unfold getC; rw [List.getElem?_set_ne h]

theorem getC_map (f : Option Copy → Option Copy) (hf : f none = none) (cs : List (Option Copy))
    (i : Nat) : getC (cs.map f) i = f (getC cs i) := by
  unfold getC
  rw [List.getElem?_map]
  cases cs[i]? <;> simp [hf]

theorem getC_modCopy_self (cs : List (Option Copy)) (d : Nat) (f : Copy → Copy) :
    getC (modCopy cs d f) d = (getC cs d).map f := by
  unfold modCopy
  cases h : getC cs d with
  | none => simp [h]
  | some c => simp [getC_set_self _ (getC_some_lt h)]

theorem getC_modCopy_ne (cs : List (Option Copy)) {d i : Nat} (f : Copy → Copy) (h : d ≠ i) :
    getC (modCopy cs d f) i = getC cs i := by
  unfold modCopy
  cases getC cs d with
  | none => rfl
  | some c => simp [getC_set_ne _ h]

/-- an element satisfying a Bool predicate at index `i` makes `any` true -/
theorem any_of_getC {cs : List (Option Copy)} {i : Nat} {c : Copy} (p : Option Copy → Bool)
    (h : getC cs i = some c) (hp : p (some c) = true) : cs.any p = true := by
  have hi := getC_some_lt h
  unfold getC at h
  rw [List.getElem?_eq_getElem hi] at h
  simp only [Option.getD_some] at h
  exact List.any_eq_true.2 ⟨cs[i], List.getElem_mem hi, by rw [h]; exact hp⟩

theorem getC_of_any {cs : List (Option Copy)} (p : Option Copy → Bool) (hn : p none = false)
    (h : cs.any p = true) : ∃ i c, getC cs i = some c ∧ p (some c) = true := by
  obtain ⟨x, hx, hpx⟩ := List.any_eq_true.1 h
  obtain ⟨i, hi, rfl⟩ := List.getElem_of_mem hx
  cases hc : cs[i] with
  | none => rw [hc, hn] at hpx; exact absurd hpx (by simp)
  | some c =>
    refine ⟨i, c, ?_, by rw [hc] at hpx; exact hpx⟩
    unfold getC; rw [List.getElem?_eq_getElem hi, hc]; rfl

theorem all_getC {cs : List (Option Copy)} (p : Option Copy → Bool) (h : cs.all p = true)
    {i : Nat} {c : Copy} (hc : getC cs i = some c) : p (some c) = true := by
  have hi := getC_some_lt hc
  unfold getC at hc
  rw [List.getElem?_eq_getElem hi] at hc
  simp only [Option.getD_some] at hc
  have := List.all_eq_true.1 h cs[i] (List.getElem_mem hi)
  rw [hc] at this; exact this

/-! ### the loops, pointwise -/

/-- READ-loop body when the target is not OWNED (always the case under the asserts): only
    EXCLUSIVE → SHARED -/
def rb : Option Copy → Option Copy := readBody false 0

theorem readBody_false (tv : Nat) (x : Option Copy) : readBody false tv x = rb x := by
  cases x with
  | none => rfl
  | some c => simp [rb, readBody]

theorem getC_readLoop_ne (cs : List (Option Copy)) {d i : Nat} (tgt : Copy) (w : Bool) (h : d ≠ i) :
    getC (readLoop cs d tgt w) i = readBody (tgt.coh == .owned && !w) tgt.ver (getC cs i) := by
  unfold readLoop
  rw [getC_set_ne _ h, getC_map _ rfl]

theorem getC_readLoop_self (cs : List (Option Copy)) {d : Nat} (tgt : Copy) (w : Bool)
    (h : d < cs.length) : getC (readLoop cs d tgt w) d = some tgt := by
  unfold readLoop
  exact getC_set_self _ (by simpa using h)

theorem getC_writeLoop (cs : List (Option Copy)) (i : Nat) :
    getC (writeLoop cs) i = writeBody (getC cs i) := getC_map _ rfl cs i

/-- effect of one `start` (under its asserts) on a copy other than the target -/
def otherF (ownerIsTarget r w : Bool) (x : Option Copy) : Option Copy :=
  if ownerIsTarget then x
  else if w then writeBody (if r then rb x else x)
  else if r then rb x else x

theorem getC_afterLoops_ne (cs : List (Option Copy)) {d i : Nat} (tgt : Copy) (r w : Bool)
    (hne : d ≠ i) (hno : tgt.coh ≠ .owned) :
    getC (afterLoops cs d tgt r w) i = otherF false r w (getC cs i) := by
  have hro : (tgt.coh == Coh.owned) = false := by simp [hno]
  unfold afterLoops otherF
  cases r <;> cases w <;> simp [getC_writeLoop, getC_readLoop_ne _ _ _ hne, hro, readBody_false]

theorem getC_afterLoops_self (cs : List (Option Copy)) {d : Nat} (tgt : Copy) (r w : Bool)
    (h : getC cs d = some tgt) :
    getC (afterLoops cs d tgt r w) d = if w then writeBody (some tgt) else some tgt := by
  have hd := getC_some_lt h
  unfold afterLoops
  cases r <;> cases w <;> simp [getC_writeLoop, getC_readLoop_self _ _ _ hd, h]

/-! ### one `start` call under its asserts -/

theorem switchPre_not_owned {owner : Int} {cs : List (Option Copy)} {tgt : Copy}
    (h : switchPre owner cs tgt = true) : tgt.coh ≠ .owned := by
  intro ho
  simp [switchPre, ho] at h

/-- return value of `start` as a function of the pre-state -/
def startRet (s : St) (d : Nat) (tgt : Copy) (r : Bool) : Int :=
  if s.owner = (d : Int) then -1
  else if (r && switchTreq s.copies tgt) = true then switchValid s.owner s.copies tgt else -1

/-- coherency of the target after `start` -/
def startCoh (s : St) (d : Nat) (tgt : Copy) (r w : Bool) : Coh :=
  if s.owner = (d : Int) then tgt.coh
  else if (r && switchTreq s.copies tgt) = true then .invalid
  else if w = true ∧ tgt.coh ≠ .invalid then .shared else tgt.coh

structure StartSpec (s s1 : St) (d : Nat) (r w : Bool) (ret : Int) (tgt : Copy) : Prop where
  owner : s1.owner = if w then (d : Int) else s.owner
  other : ∀ i, d ≠ i → getC s1.copies i = otherF (decide (s.owner = (d : Int))) r w (getC s.copies i)
  target : ∃ t1, getC s1.copies d = some t1 ∧ t1.ver = tgt.ver ∧ t1.xs = tgt.xs ∧
    t1.coh = startCoh s d tgt r w
  ret : ret = startRet s d tgt r
  notOwned : s.owner ≠ (d : Int) → tgt.coh ≠ .owned
  swPre : s.owner ≠ (d : Int) → switchPre s.owner s.copies tgt = true
  srcOk : s.owner ≠ (d : Int) → (r && switchTreq s.copies tgt) = true →
    switchValid s.owner s.copies tgt ≠ -1

theorem start_spec {s s1 : St} {d : Nat} {r w : Bool} {ret : Int} {tgt : Copy}
    (ht : getC s.copies d = some tgt) (h : start s d r w = some (s1, ret)) :
    StartSpec s s1 d r w ret tgt := by
  unfold start at h
  split at h
  · rename_i hpre
    simp only [Option.some.injEq] at h
    have h1 : s1 = (startRaw s d r w).1 := by rw [h]
    have h2 : ret = (startRaw s d r w).2 := by rw [h]
    subst h1 h2
    clear h
    unfold startPre at hpre
    unfold startRaw
    simp only [ht] at hpre ⊢
    by_cases ho : s.owner = (d : Int)
    · -- goto bookkeeping
      rw [if_pos ho]
      have hdec : decide (s.owner = (d : Int)) = true := by simp [ho]
      refine ⟨by cases w <;> simp [bookkeeping, ho], ?_, ?_, by simp [startRet, bookkeeping, ho],
        fun h => absurd ho h, fun h => absurd ho h, fun h => absurd ho h⟩
      · intro i hi
        rw [hdec]
        simp [bookkeeping, getC_modCopy_ne _ _ hi, otherF]
      · refine ⟨invalidateIf false (incReaders r tgt), ?_, ?_, ?_, ?_⟩
        · simp [bookkeeping, getC_modCopy_self, ht]
        · cases r <;> simp [invalidateIf, incReaders]
        · cases r <;> simp [invalidateIf, incReaders]
        · rw [startCoh, if_pos ho]
          cases r <;> simp [invalidateIf, incReaders]
    · simp only [ho, if_false, Bool.and_eq_true, Bool.or_eq_true, Bool.not_eq_true'] at hpre ⊢
      obtain ⟨⟨⟨hsw, _⟩, _⟩, hsrc⟩ := hpre
      have hno := switchPre_not_owned hsw
      have hro : (tgt.coh == Coh.owned) = false := by simp [hno]
      refine ⟨?_, ?_, ?_, by simp [startRet, bookkeeping, ho], fun _ => hno, fun _ => hsw, ?_⟩
      · cases w <;> cases r <;> simp [bookkeeping, readOwner, hro]
      · intro i hi
        simp [bookkeeping, getC_modCopy_ne _ _ hi, getC_afterLoops_ne _ _ _ _ hi hno, ho]
      · refine ⟨invalidateIf (r && switchTreq s.copies tgt) (incReaders r
          (if w = true ∧ tgt.coh ≠ .invalid then setCoh tgt .shared else tgt)), ?_, ?_, ?_, ?_⟩
        · simp only [bookkeeping, getC_modCopy_self, getC_afterLoops_self _ _ _ _ ht]
          cases w <;> simp [writeBody]
          split <;> simp_all
        · cases r <;> cases w <;> simp [invalidateIf, incReaders, setCoh] <;> split <;> simp <;> split <;> simp
        · cases r <;> cases w <;> simp [invalidateIf, incReaders, setCoh] <;> split <;> simp <;> split <;> simp
        · simp only [startCoh, ho, if_false]
          cases r <;> cases w <;> simp [invalidateIf, incReaders, setCoh] <;> split <;> simp <;> split <;> simp_all
      · intro _ ht2
        rcases hsrc with h | h
        · rw [h] at ht2; exact absurd ht2 (by simp)
        · simpa using h
  · exact absurd h (by simp)

/-- `otherF` as a function on the coherency state alone -/
def cohF (o r w : Bool) (k : Coh) : Coh :=
  if o then k
  else if k = .invalid then .invalid
  else if w then .shared
  else if r = true ∧ k = .exclusive then .shared
  else k

theorem otherF_none (o r w : Bool) : otherF o r w none = none := by
  cases o <;> cases r <;> cases w <;> rfl

theorem otherF_some (o r w : Bool) (c : Copy) :
    otherF o r w (some c) = some (setCoh c (cohF o r w c.coh)) := by
  rcases c with ⟨k, v, rd, x⟩
  cases o <;> cases r <;> cases w <;> cases k <;> rfl

theorem cohF_invalid (o r w : Bool) (k : Coh) : cohF o r w k = .invalid ↔ k = .invalid := by
  cases o <;> cases r <;> cases w <;> cases k <;> simp [cohF]

theorem cohF_owned {o r w : Bool} {k : Coh} (h : cohF o r w k = .owned) :
    k = .owned ∧ (o = true ∨ w = false) := by
  cases o <;> cases r <;> cases w <;> cases k <;> simp [cohF] at h ⊢

theorem cohF_exclusive {o r w : Bool} {k : Coh} (h : cohF o r w k = .exclusive) :
    k = .exclusive ∧ (o = true ∨ (r = false ∧ w = false)) := by
  cases o <;> cases r <;> cases w <;> cases k <;> simp [cohF] at h ⊢

theorem cohF_write {r : Bool} {k : Coh} (h : k ≠ .invalid) : cohF false r true k = .shared := by
  cases r <;> cases k <;> simp [cohF] at h ⊢

theorem cohF_nowrite_owned (o r : Bool) : cohF o r false .owned = .owned := by
  cases o <;> cases r <;> rfl

theorem cohF_shared (o r w : Bool) : cohF o r w .shared = .shared := by
  cases o <;> cases r <;> cases w <;> rfl

theorem rb_ver (x : Option Copy) : (rb x).map (·.ver) = x.map (·.ver) := by
  cases x with
  | none => rfl
  | some c =>
    simp only [rb, readBody, Bool.false_eq_true, false_and, if_false]
    split
    · rfl
    · split <;> rfl

theorem writeBody_ver (x : Option Copy) : (writeBody x).map (·.ver) = x.map (·.ver) := by
  cases x with
  | none => rfl
  | some c =>
    simp only [writeBody]
    split <;> rfl

theorem otherF_ver (o r w : Bool) (x : Option Copy) :
    (otherF o r w x).map (·.ver) = x.map (·.ver) := by
  cases o <;> cases r <;> cases w <;> simp [otherF, rb_ver, writeBody_ver]

/-- `start` never changes a version -/
theorem start_ver {s s1 : St} {d : Nat} {r w : Bool} {ret : Int} {tgt : Copy}
    (ht : getC s.copies d = some tgt) (h : start s d r w = some (s1, ret)) (i : Nat) :
    (getC s1.copies i).map (·.ver) = (getC s.copies i).map (·.ver) := by
  have sp := start_spec ht h
  by_cases hi : d = i
  · subst hi
    obtain ⟨t1, h1, h2, _, _⟩ := sp.target
    simp [h1, ht, h2]
  · rw [sp.other i hi, otherF_ver]

/-! ### one complete transfer -/

theorem bumpVer_coh (b n : Nat) (c : Copy) : (bumpVer b n c).coh = c.coh := by
  unfold bumpVer; split
  · rfl
  · split <;> rfl

theorem bumpVer_ver (b n : Nat) (c c' : Copy) (h : c.ver = c'.ver) :
    (bumpVer b n c).ver = (bumpVer b n c').ver := by
  unfold bumpVer; split
  · exact h
  · split
    · simp [setVer, h]
    · rfl

/-- version the target holds after the caller's synchronisation with the source -/
def syncVer (s : St) (tgt : Copy) (ret : Int) : Nat :=
  if ret < 0 then tgt.ver
  else match getC s.copies ret.toNat with
    | some c => c.ver
    | none => tgt.ver

structure TransferSpec (s s' : St) (d : Nat) (r w : Bool) (b : Nat) (ret : Int) (tgt : Copy) : Prop where
  owner : s'.owner = if w then (d : Int) else s.owner
  other : ∀ i, d ≠ i → getC s'.copies i = otherF (decide (s.owner = (d : Int))) r w (getC s.copies i)
  target : ∃ t', getC s'.copies d = some t' ∧
    t'.coh = (if w then Coh.owned else if r then Coh.shared else tgt.coh) ∧
    t'.ver = (if w then (bumpVer b (newest s.copies) (setVer (syncVer s tgt ret) tgt)).ver
              else syncVer s tgt ret)
  ret : ret = startRet s d tgt r
  notOwned : s.owner ≠ (d : Int) → tgt.coh ≠ .owned
  swPre : s.owner ≠ (d : Int) → switchPre s.owner s.copies tgt = true
  srcOk : s.owner ≠ (d : Int) → (r && switchTreq s.copies tgt) = true →
    switchValid s.owner s.copies tgt ≠ -1

theorem transfer_start {s s' : St} {d : Nat} {r w : Bool} {b : Nat} {ret : Int}
    (h : transfer s d r w b = some (s', ret)) :
    start s d r w = some ((startRaw s d r w).1, ret) ∧ s' = (transferRaw s d r w b).1 := by
  unfold transfer at h
  split at h
  · rename_i hp
    simp only [Option.some.injEq] at h
    have h1 : s' = (transferRaw s d r w b).1 := by rw [h]
    have h2 : ret = (transferRaw s d r w b).2 := by rw [h]
    unfold xferPre at hp
    simp only [Bool.and_eq_true] at hp
    refine ⟨?_, h1⟩
    unfold start
    rw [if_pos hp.1, h2]
    rfl
  · exact absurd h (by simp)

theorem transfer_spec {s s' : St} {d : Nat} {r w : Bool} {b : Nat} {ret : Int} {tgt : Copy}
    (ht : getC s.copies d = some tgt) (h : transfer s d r w b = some (s', ret)) :
    TransferSpec s s' d r w b ret tgt := by
  obtain ⟨hs, hs'⟩ := transfer_start h
  have sp := start_spec ht hs
  have hv := start_ver ht hs
  obtain ⟨t1, ht1, hv1, _, hc1⟩ := sp.target
  have hret2 : (startRaw s d r w).2 = ret := by
    unfold start at hs
    split at hs
    · simp only [Option.some.injEq] at hs; exact congrArg Prod.snd hs
    · exact absurd hs (by simp)
  subst hs'
  refine ⟨sp.owner, ?_, ?_, sp.ret, sp.notOwned, sp.swPre, sp.srcOk⟩
  · intro i hi
    rw [← sp.other i hi]
    simp only [transferRaw, getC_modCopy_ne _ _ hi]
    unfold syncFrom
    split
    · rfl
    · split
      · exact getC_modCopy_ne _ _ hi
      · rfl
  · -- the target
    have hself : t1 = setVer tgt.ver t1 := by
      cases t1; simp only [setVer] at hv1 ⊢; rw [hv1]
    have hsync : getC (syncFrom (startRaw s d r w).1.copies d ret) d =
        some (setVer (syncVer s tgt ret) t1) := by
      unfold syncFrom syncVer
      by_cases hneg : ret < 0
      · simp only [hneg, if_true, ht1]
        exact congrArg some hself
      · simp only [hneg, if_false]
        have hvk := hv ret.toNat
        cases hk1 : getC (startRaw s d r w).1.copies ret.toNat with
        | none =>
          rw [hk1] at hvk
          cases hk : getC s.copies ret.toNat with
          | none => simp only [ht1]; exact congrArg some hself
          | some c => rw [hk] at hvk; simp at hvk
        | some c1 =>
          rw [hk1] at hvk
          cases hk : getC s.copies ret.toNat with
          | none => rw [hk] at hvk; simp at hvk
          | some c =>
            rw [hk] at hvk
            simp only [Option.map_some, Option.some.injEq] at hvk
            simp [getC_modCopy_self, ht1, hvk]
    refine ⟨(if w then bumpVer b (newest s.copies) else id)
      (endCoh r w (setVer (syncVer s tgt ret) t1)), ?_, ?_, ?_⟩
    · simp only [transferRaw, hret2, getC_modCopy_self, hsync, Option.map_some]
    · clear hself hsync
      have hc00 : startCoh s d tgt false false = tgt.coh := by
        unfold startCoh; split <;> simp
      cases w <;> cases r <;> simp [endCoh, bumpVer_coh, setCoh, setVer, hc1, hc00]
    · clear hself hsync
      cases w <;> cases r <;> simp [endCoh, setCoh, setVer] <;> exact bumpVer_ver _ _ _ _ rfl

end ParsecVerif.DataOwnership
