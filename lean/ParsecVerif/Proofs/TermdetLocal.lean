import ParsecVerif.Model.TermdetLocal
/-!
  Inductive invariant of the local termination detector, for any number of threads.

  The thread list is abstracted by the SUMS of per-thread weights (holdings, "is parked at
  program point X"); one thread step changes every sum by `weight(after) − weight(before)`, so
  preservation of the invariant is linear arithmetic about one thread and the sums (`local_step`),
  lifted to thread lists by `sumBy_set`.
-/
namespace ParsecVerif.TermdetLocal

/-! ### sums of per-thread weights -/

def sumBy (f : Thread → Nat) : List Thread → Nat
  | [] => 0
  | a :: t => f a + sumBy f t

theorem sumBy_set (f : Thread → Nat) (l : List Thread) (i : Nat) (y : Thread) (h : i < l.length) :
    sumBy f (l.set i y) + f l[i] = sumBy f l + f y := by
  induction l generalizing i with
  | nil => simp at h
  | cons a t ih =>
    cases i with
    | zero => simp [sumBy]; omega
    | succ k =>
      simp only [List.length_cons, Nat.add_lt_add_iff_right] at h
      have := ih k h
      simp only [List.set_cons_succ, sumBy, List.getElem_cons_succ]
      omega

theorem le_sumBy (f : Thread → Nat) (l : List Thread) (i : Nat) (h : i < l.length) : f l[i] ≤ sumBy f l := by
  induction l generalizing i with
  | nil => simp at h
  | cons a t ih =>
    cases i with
    | zero => simp [sumBy]
    | succ k =>
      simp only [List.length_cons, Nat.add_lt_add_iff_right] at h
      have := ih k h
      simp only [sumBy, List.getElem_cons_succ]
      omega

theorem sumBy_le_add (f g b : Thread → Nat) (hp : ∀ th, f th ≤ b th + g th) (l : List Thread) :
    sumBy f l ≤ sumBy b l + sumBy g l := by
  induction l with
  | nil => simp [sumBy]
  | cons a t ih => have := hp a; simp only [sumBy]; omega

theorem sumBy_add (f g : Thread → Nat) (l : List Thread) :
    sumBy (fun th => f th + g th) l = sumBy f l + sumBy g l := by
  induction l with
  | nil => simp [sumBy]
  | cons a t ih => simp only [sumBy]; omega

theorem sumBy_zero (f : Thread → Nat) (l : List Thread) (h : ∀ th ∈ l, f th = 0) : sumBy f l = 0 := by
  induction l with
  | nil => simp [sumBy]
  | cons a t ih =>
    simp only [sumBy]
    have h1 := h a (by simp)
    have h2 := ih (fun th hm => h th (by simp [hm]))
    omega

/-! ### the weights -/

def wT (th : Thread) : Nat := th.hT
def wA (th : Thread) : Nat := th.hA
def wK (th : Thread) : Nat := th.hK
def wInc (th : Thread) : Nat := match th.pc with | .tInc _ => 1 | _ => 0
/-- 0 iff a thread parked at the `fetch_inc` after a 0→positive crossing holds one of the task units it
    just added and one action unit (or the token) of its own -/
def wBad (th : Thread) : Nat := match th.pc with | .tInc _ => (1 - th.hT) + (1 - (th.hA + th.hK)) | _ => 0
def wDec (th : Thread) : Nat := match th.pc with | .tDec _ => 1 | _ => 0
def wC2 (th : Thread) : Nat := match th.pc with | .dCas2 _ => 1 | _ => 0
def wC3 (th : Thread) : Nat := match th.pc with | .dCas3 _ => 1 | _ => 0
def wRet (th : Thread) : Nat := match th.pc with | .rRetain => 1 | _ => 0
def wRel (th : Thread) : Nat := match th.pc with | .dRel _ => 1 | _ => 0
/-- holdings of the threads that are NOT parked at the `fetch_inc` (free to be released by their owner) -/
def wFT (th : Thread) : Nat := match th.pc with | .tInc _ => 0 | _ => th.hT
def wFA (th : Thread) : Nat := match th.pc with | .tInc _ => 0 | _ => th.hA + th.hK

structure Sums where
  hT : Nat
  hA : Nat
  hK : Nat
  inc : Nat
  bad : Nat
  dec : Nat
  c2 : Nat
  c3 : Nat
  ret : Nat
  rel : Nat
  fT : Nat
  fA : Nat

def W (th : Thread) : Sums := ⟨wT th, wA th, wK th, wInc th, wBad th, wDec th, wC2 th, wC3 th, wRet th, wRel th, wFT th, wFA th⟩

def total (l : List Thread) : Sums :=
  ⟨sumBy wT l, sumBy wA l, sumBy wK l, sumBy wInc l, sumBy wBad l, sumBy wDec l, sumBy wC2 l, sumBy wC3 l,
   sumBy wRet l, sumBy wRel l, sumBy wFT l, sumBy wFA l⟩

/-- `S'` is `S` with one thread's weights `w` replaced by `w'` -/
structure Moves (S S' w w' : Sums) : Prop where
  hT : S'.hT + w.hT = S.hT + w'.hT
  hA : S'.hA + w.hA = S.hA + w'.hA
  hK : S'.hK + w.hK = S.hK + w'.hK
  inc : S'.inc + w.inc = S.inc + w'.inc
  bad : S'.bad + w.bad = S.bad + w'.bad
  dec : S'.dec + w.dec = S.dec + w'.dec
  c2 : S'.c2 + w.c2 = S.c2 + w'.c2
  c3 : S'.c3 + w.c3 = S.c3 + w'.c3
  ret : S'.ret + w.ret = S.ret + w'.ret
  rel : S'.rel + w.rel = S.rel + w'.rel
  fT : S'.fT + w.fT = S.fT + w'.fT
  fA : S'.fA + w.fA = S.fA + w'.fA

/-- facts that hold of the sums of ANY thread list, and of one of its members -/
structure Facts (S w : Sums) : Prop where
  hT : w.hT ≤ S.hT
  hA : w.hA ≤ S.hA
  hK : w.hK ≤ S.hK
  inc : w.inc ≤ S.inc
  bad : w.bad ≤ S.bad
  dec : w.dec ≤ S.dec
  c2 : w.c2 ≤ S.c2
  c3 : w.c3 ≤ S.c3
  ret : w.ret ≤ S.ret
  rel : w.rel ≤ S.rel
  fT : w.fT ≤ S.fT
  fA : w.fA ≤ S.fA
  incT : S.inc + S.fT ≤ S.bad + S.hT
  incAK : S.inc + S.fA ≤ S.bad + (S.hA + S.hK)

theorem moves_total (l : List Thread) (i : Nat) (y : Thread) (h : i < l.length) :
    Moves (total l) (total (l.set i y)) (W l[i]) (W y) :=
  ⟨sumBy_set wT l i y h, sumBy_set wA l i y h, sumBy_set wK l i y h, sumBy_set wInc l i y h, sumBy_set wBad l i y h, sumBy_set wDec l i y h, sumBy_set wC2 l i y h, sumBy_set wC3 l i y h, sumBy_set wRet l i y h, sumBy_set wRel l i y h, sumBy_set wFT l i y h, sumBy_set wFA l i y h⟩

theorem inc_le_bad_T (th : Thread) : wInc th + wFT th ≤ wBad th + wT th := by
  unfold wInc wBad wT wFT; split <;> omega
theorem inc_le_bad_AK (th : Thread) : wInc th + wFA th ≤ wBad th + (wA th + wK th) := by
  unfold wInc wBad wA wK wFA; split <;> omega

theorem total_incT (l : List Thread) : (total l).inc + (total l).fT ≤ (total l).bad + (total l).hT := by
  have := sumBy_le_add (fun th => wInc th + wFT th) wT wBad inc_le_bad_T l
  rw [sumBy_add] at this
  exact this
theorem total_incAK (l : List Thread) : (total l).inc + (total l).fA ≤ (total l).bad + ((total l).hA + (total l).hK) := by
  have := sumBy_le_add (fun th => wInc th + wFA th) (fun th => wA th + wK th) wBad inc_le_bad_AK l
  rw [sumBy_add, sumBy_add] at this
  exact this

theorem facts_total (l : List Thread) (i : Nat) (h : i < l.length) : Facts (total l) (W l[i]) :=
  ⟨le_sumBy wT l i h, le_sumBy wA l i h, le_sumBy wK l i h, le_sumBy wInc l i h, le_sumBy wBad l i h, le_sumBy wDec l i h, le_sumBy wC2 l i h, le_sumBy wC3 l i h, le_sumBy wRet l i h, le_sumBy wRel l i h, le_sumBy wFT l i h, le_sumBy wFA l i h, total_incT l, total_incAK l⟩

/-! ### the invariant -/

structure Inv' (sh : Shared) (S : Sums) : Prop where
  mon3 : sh.mon ≤ 3
  rdy : (sh.mon = 1 → sh.rdy = 0) ∧ (sh.mon ≠ 1 → sh.rdy = 1)
  /-- every unit of nb_tasks is held by a thread or lies in the pool -/
  a : sh.nt = ((S.hT + sh.pT : Nat) : Int)
  /-- nb_pending_actions = actions + [nb_tasks > 0] + #pending decrements − #pending increments -/
  b : (sh.nt ≤ 0 → sh.npa + ((S.inc : Nat) : Int) = ((S.hA + sh.pA + S.dec : Nat) : Int)) ∧
      (0 < sh.nt → sh.npa + ((S.inc : Nat) : Int) = ((S.hA + sh.pA + 1 + S.dec : Nat) : Int))
  /-- the set-up token exists exactly while NOT_READY -/
  c : (sh.mon = 1 → S.hK + sh.pK = 1) ∧ (sh.mon ≠ 1 → S.hK + sh.pK = 0)
  d : S.bad = 0
  /-- once detected — or as soon as a thread has observed BUSY ∧ nbpa = 0 and goes for the CAS — everything is
      at rest: counters 0, nothing held, no thread inside the counter part of an update -/
  q : (sh.mon = 3 ∨ sh.mon = 0 ∨ 1 ≤ S.c2) →
      (sh.mon ≠ 1 ∧ sh.nt = 0 ∧ sh.npa = 0 ∧ S.hA + sh.pA = 0 ∧ S.inc = 0 ∧ S.dec = 0)
  /-- callback accounting -/
  h : (sh.mon = 1 ∨ sh.mon = 2 → sh.cb = 0 ∧ S.c3 = 0) ∧ (sh.mon = 3 → sh.cb = 1 ∧ S.c3 = 1) ∧
      (sh.mon = 0 → sh.cb = 1 ∧ S.c3 = 0)
  /-- BUSY with nb_pending_actions = 0 is never left unattended -/
  l : sh.mon = 2 ∧ sh.npa = 0 → 1 ≤ S.c2 + S.ret
  j : 1 ≤ S.ret → sh.mon ≠ 1
  /-- reference count: +1 by ready's RETAIN, −1 by the RELEASE of termination_detected -/
  r : (sh.rdy = 0 → sh.rc = 0 ∧ S.ret = 0) ∧ S.ret ≤ 1 ∧ S.rel ≤ 1 ∧ (1 ≤ S.rel → sh.mon = 0) ∧
      (sh.rdy = 1 → ((sh.mon = 0 ∧ S.rel = 0) → sh.rc + ((S.ret : Nat) : Int) = 0) ∧
                     (¬(sh.mon = 0 ∧ S.rel = 0) → sh.rc + ((S.ret : Nat) : Int) = 1))

def Inv (s : State) : Prop := Inv' s.sh (total s.ths)

/-! ### tactics shared by the per-program-point preservation lemmas (`TermdetLocalStep*.lean`) -/

set_option hygiene false in
/-- destructure everything into scalars -/
macro "prelude" : tactic => `(tactic| (
  obtain ⟨pc, script, ret, hT, hA, hK⟩ := th
  obtain ⟨mon, nt, npa, cb, rc, rdy, pT, pA, pK⟩ := sh
  obtain ⟨S1, S2, S3, S4, S5, S6, S7, S8, S9, S10, S11, S12⟩ := S
  obtain ⟨T1, T2, T3, T4, T5, T6, T7, T8, T9, T10, T11, T12⟩ := S'
  simp only at hpc
  subst hpc
  obtain ⟨i1, i2, i3, i4, i5, i6, i7, i8, i9, i10, i11⟩ := hI
  obtain ⟨f1, f2, f3, f4, f5, f6, f7, f8, f9, f10, f11, f12, f13, f14⟩ := hF
  obtain ⟨m1, m2, m3, m4, m5, m6, m7, m8, m9, m10, m11, m12⟩ := hM))

macro "unf" : tactic => `(tactic|
  simp only [tstep, begin, detect, fin, ghT, ghA, enabled, canRaise, hold, pool, subHold, addHold, subPool, addPool,
    W, wT, wA, wK, wInc, wBad, wDec, wC2, wC3, wRet, wRel, wFT, wFA] at *)

/-- resolve the `if`s of the step with the given facts, everywhere except in the facts themselves -/
syntax "smp" "[" Lean.Parser.Tactic.simpLemma,* "]" : tactic
set_option hygiene false in
macro_rules
  | `(tactic| smp [$ts,*]) => `(tactic| simp [$ts,*] at m1 m2 m3 m4 m5 m6 m7 m8 m9 m10 m11 m12 ⊢)

macro "fino" : tactic => `(tactic|
  (refine ⟨?_, ?_, ?_, ?_, ?_, ?_, ?_, ?_, ?_, ?_, ?_⟩ <;> (try simp only []) <;> first | omega | (simp <;> omega)))

set_option hygiene false in
macro "monsplit" : tactic => `(tactic|
  (have hm : mon = 0 ∨ mon = 1 ∨ mon = 2 ∨ mon = 3 := by omega
   rcases hm with rfl | rfl | rfl | rfl))

macro "finish" : tactic => `(tactic| (monsplit <;> (try simp at *) <;> fino))

end ParsecVerif.TermdetLocal
