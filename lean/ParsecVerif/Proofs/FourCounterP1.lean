import ParsecVerif.Proofs.FourCounterEdge
/-
  Struct preservation: taskpool_ready, holding a message, absorbing an UP message.
-/
namespace ParsecVerif.FourCounter

theorem parent_ne_self {q : Nat} (h : 0 < q) : parent q ≠ q := by have := parent_lt h; omega

/-- the pending status of the two children of a process that is not collecting yet -/
theorem pend_child_of_nr {s : State} (h : Struct s) {r q : Nat} (hpar : parent q = r) (h0 : 0 < q)
    (hr : cls (s.procs r).st = 0) : pend s q = if q < s.n then 1 else 0 := by
  unfold pend
  by_cases hlt : q < s.n
  · have old := h.edge q h0 hlt
    unfold Edge at old; rw [hpar, hr] at old
    have := edge_parent_nr old
    simp only [hlt, true_and, if_true]
    rw [if_pos this]
  · simp [hlt]

def pReady (s : State) (p : Nat) : State :=
  setP s p { s.procs p with ncl := nbChildren s.n p, st := .busyWC }

theorem Struct.ready {s : State} (h : Struct s) {p : Nat} (hp : p < s.n) (hnr : (s.procs p).st = .notReady) :
    Struct (pReady s p) := by
  have hp0 : cls (s.procs p).st = 0 := by simp [hnr, cls]
  have hcls : ∀ q, q ≠ p → cls ((pReady s p).procs q).st = cls (s.procs q).st := by
    intro q e; simp [pReady, setP, e]
  have hclsp : cls ((pReady s p).procs p).st = 1 := by simp [pReady, setP, cls]
  have hU : ∀ q, U (pReady s p) q = U s q := fun _ => rfl
  have hD : ∀ q r, D (pReady s p) q r = D s q r := fun _ _ => rfl
  have hg : (pReady s p).gh = s.gh := rfl
  have hn : (pReady s p).n = s.n := rfl
  have hpend : ∀ q, pend (pReady s p) q = pend s q := by
    intro q
    by_cases hq : q = p
    · subst hq; simp only [pend, hn, hclsp, hp0, hg, hU]; simp
    · simp only [pend, hn, hcls q hq, hg, hU]
  have hlive : ∀ q, live (pReady s p) q ↔ live s q := by
    intro q; unfold live; rw [hU]
    by_cases e : q = p
    · subst e; rw [hclsp, hp0]; omega
    · rw [hcls q e]
  have haS : ∀ q, ((pReady s p).procs q).accS = (s.procs q).accS := by
    intro q; by_cases e : q = p <;> simp [pReady, setP, e]
  have haR : ∀ q, ((pReady s p).procs q).accR = (s.procs q).accR := by
    intro q; by_cases e : q = p <;> simp [pReady, setP, e]
  have hl : ((pReady s p).procs 0).lastS = (s.procs 0).lastS ∧ ((pReady s p).procs 0).lastR = (s.procs 0).lastR := by
    by_cases e : 0 = p <;> simp [pReady, setP, e]
  refine ⟨?_, ?_, ?_, ?_, ?_, ?_, ?_, ?_, ?_, ?_⟩
  · intro k hk
    have := h.pk k hk
    unfold PkOK at this ⊢
    split <;> simp_all
  · intro q h0 hq
    have old := h.edge q h0 hq
    unfold Edge at old ⊢
    rw [hg, hU, hD, hD]
    by_cases e1 : q = p
    · subst e1
      rw [hclsp, hcls _ (parent_ne_self h0)]; rw [hp0] at old
      exact edge_ready_self old
    · rw [hcls q e1]
      by_cases e2 : parent q = p
      · rw [e2, hclsp]; rw [e2, hp0] at old
        exact edge_ready_parent old
      · rw [hcls _ e2]; exact old
  · have := h.root
    rw [hg]
    by_cases e : 0 = p
    · subst e; rw [hclsp]; exact ⟨by omega, this.2⟩
    · rw [hcls 0 e]; exact this
  · intro r hr h1
    by_cases e : r = p
    · subst e
      rw [hpend, hpend,
        pend_child_of_nr h (by unfold parent; omega) (by omega) hp0,
        pend_child_of_nr h (by unfold parent; omega) (by omega) hp0, ← nbChildren_eq]
      simp [pReady, setP]
    · rw [hcls r e] at h1
      have := h.ncl1 r hr h1
      rw [hpend, hpend]
      simpa [pReady, setP, e] using this
  · intro r hr h2
    by_cases e : r = p
    · subst e; rw [hclsp] at h2; omega
    · rw [hcls r e] at h2
      simpa [pReady, setP, e] using h.ncl2 r hr h2
  · intro q hq h3
    have hq3 : cls (s.procs q).st = 3 := by
      by_cases e : q = p
      · subst e; rw [hclsp] at h3; omega
      · rwa [hcls q e] at h3
    have := h.tr q hq hq3
    by_cases e : 0 = p
    · subst e; omega
    · rwa [hcls 0 e]
  · rw [hn, hg, ← h.fS]; apply sumTo_congr; intro q _; simp only [contribS, hlive, haS]
  · rw [hn, hg, ← h.fR]; apply sumTo_congr; intro q _; simp only [contribR, hlive, haR]
  · intro hs; rw [hn, hg, hl.1, hl.2]; exact h.lastT hs
  · intro hs; rw [hl.1, hl.2]; exact h.lastF hs


/-! ### a control message is put on the delayed list of a process that is not ready -/

def pHold (s : State) (k : Nat) (pk : Packet) : State :=
  { s with net := s.net.eraseIdx k ++ [{ pk with held := true }] }

theorem cnt_hold (f : Packet → Bool) {l : List Packet} {k : Nat} {pk : Packet} (hk : l[k]? = some pk)
    (hf : f { pk with held := true } = f pk) :
    cnt f (l.eraseIdx k ++ [{ pk with held := true }]) = cnt f l := by
  have := cnt_eraseIdx f hk
  simp only [cnt_append, cnt_cons, cnt_nil, hf]; omega

theorem Struct.hold {s : State} (h : Struct s) {k : Nat} {pk : Packet} (hk : s.net[k]? = some pk) :
    Struct (pHold s k pk) := by
  apply h.env (s' := pHold s k pk) rfl rfl rfl (fun _ => rfl) (fun _ => rfl) (fun _ => rfl) (fun _ => rfl) rfl rfl
  · intro q; exact cnt_hold _ hk (isUpFrom_held q pk)
  · intro q r; exact cnt_hold _ hk (isDownTo_held q r pk)
  · intro k' hk'
    simp only [pHold, List.mem_append, List.mem_singleton] at hk'
    rcases hk' with hm | rfl
    · exact Or.inr ⟨k', List.mem_of_mem_eraseIdx hm, rfl, rfl, rfl⟩
    · exact Or.inr ⟨pk, mem_of_getElem? hk, rfl, rfl, rfl⟩

/-! ### msg_up: the parent absorbs the contribution of a child -/

def pAbsorb (s : State) (k r a b : Nat) : State :=
  setP { s with net := s.net.eraseIdx k } r
    { s.procs r with accR := (s.procs r).accR + b, accS := (s.procs r).accS + a, ncl := (s.procs r).ncl - 1 }

theorem Struct.absorb {s : State} (h : Struct s) {k : Nat} {pk : Packet} {a b : Nat}
    (hk : s.net[k]? = some pk) (hkind : pk.kind = .up a b) (hr : cls (s.procs pk.dst).st ≠ 0) :
    Struct (pAbsorb s k pk.dst a b) ∧ cls (s.procs pk.dst).st = 1 ∧ 0 < (s.procs pk.dst).ncl ∧
      pk.dst < s.n := by
  have hmem := mem_of_getElem? hk
  have hpk := h.pk pk hmem
  unfold PkOK at hpk; rw [hkind] at hpk
  obtain ⟨hs0, hsn, hdst, ha, hb⟩ := hpk
  generalize hr' : pk.dst = r at *
  generalize hq0 : pk.src = q0 at *
  have hrn : r < s.n := by have := parent_lt hs0; omega
  have hne : q0 ≠ r := by rw [hdst]; exact (parent_ne_self hs0).symm
  have hupk : ∀ q, isUpFrom q pk = (q0 == q) := by intro q; simp [isUpFrom, hkind, hq0]
  have hdpk : ∀ q x, isDownTo q x pk = false := by intro q x; simp [isDownTo, hkind]
  have hU : ∀ q, U (pAbsorb s k r a b) q + b2n (q0 == q) = U s q := by
    intro q; have := cnt_eraseIdx (isUpFrom q) hk; rw [hupk] at this; exact this
  have hD : ∀ q x, D (pAbsorb s k r a b) q x = D s q x := by
    intro q x; have := cnt_eraseIdx (isDownTo q x) hk; rw [hdpk] at this
    simp only [b2n_false, Nat.add_zero] at this; exact this
  have hUne : ∀ q, q ≠ q0 → U (pAbsorb s k r a b) q = U s q := by
    intro q e; have := hU q
    have : (q0 == q) = false := by simp [Ne.symm e]
    simp_all
  have hU0 : U (pAbsorb s k r a b) q0 + 1 = U s q0 := by have := hU q0; simpa using this
  have hcls : ∀ q, cls ((pAbsorb s k r a b).procs q).st = cls (s.procs q).st := by
    intro q; by_cases e : q = r <;> simp [pAbsorb, setP, e]
  have hg : (pAbsorb s k r a b).gh = s.gh := rfl
  have hn : (pAbsorb s k r a b).n = s.n := rfl
  -- the edge of the sender
  have oldq := h.edge q0 hs0 hsn
  unfold Edge at oldq; rw [← hU0, ← hdst] at oldq
  obtain ⟨hb1, hd0, ha2, hc1, hu0⟩ := edge_absorb_b oldq hr
  have hUr : U s r = 0 := by
    by_cases e : r = 0
    · subst e; exact h.U_root
    · exact h.U_zero_of_wfc hrn (by omega) (by omega)
  have hpend : ∀ q, q ≠ q0 → pend (pAbsorb s k r a b) q = pend s q := by
    intro q e; simp only [pend, hn, hcls, hg, hUne q e]
  have hpend0 : pend (pAbsorb s k r a b) q0 = 0 ∧ pend s q0 = 1 := by
    unfold pend; rw [hn, hcls, hg, hu0, ← hU0, hu0, ha2, hc1]; simp [hsn]
  refine ⟨⟨?_, ?_, ?_, ?_, ?_, ?_, ?_, ?_, ?_, ?_⟩, hb1, ?_, hrn⟩
  · intro k' hk'
    have hm' : k' ∈ s.net := List.mem_of_mem_eraseIdx hk'
    have := h.pk k' hm'
    have hnr : isUpFrom r k' = false := not_of_cnt_zero _ hUr k' hm'
    unfold PkOK at this ⊢
    unfold isUpFrom at hnr
    split <;> rename_i hkk <;> simp only [hkk] at this hnr
    · have e : k'.src ≠ r := by simpa using hnr
      simpa [pAbsorb, setP, e] using this
    · exact this
    · trivial
  · intro q h0 hq
    have old := h.edge q h0 hq
    unfold Edge at old ⊢
    rw [hcls, hcls, hg, hD, hD]
    by_cases e : q = q0
    · subst e; rw [← hU0] at old; exact edge_absorb old (by rw [← hdst]; exact hr)
    · rw [hUne q e]; exact old
  · rw [hcls, hg]; exact h.root
  · intro r' hr' h1
    rw [hcls] at h1
    have := h.ncl1 r' hr' h1
    by_cases e : r' = r
    · subst e
      have hch : q0 = 2 * r' + 1 ∨ q0 = 2 * r' + 2 := (parent_eq_iff hs0).1 hdst.symm
      rcases hch with e1 | e1
      · rw [hpend (2 * r' + 2) (by omega), ← e1, hpend0.1]; rw [← e1, hpend0.2] at this
        simp only [pAbsorb, setP, upd_same]; omega
      · rw [hpend (2 * r' + 1) (by omega), ← e1, hpend0.1]; rw [← e1, hpend0.2] at this
        simp only [pAbsorb, setP, upd_same]; omega
    · have e1 : 2 * r' + 1 ≠ q0 := by
        intro e1; apply e; rw [hdst, ← e1]; unfold parent; omega
      have e2 : 2 * r' + 2 ≠ q0 := by
        intro e2; apply e; rw [hdst, ← e2]; unfold parent; omega
      rw [hpend _ e1, hpend _ e2]
      simpa [pAbsorb, setP, e] using this
  · intro r' hr' h2
    rw [hcls] at h2
    have e : r' ≠ r := by intro e; subst e; omega
    simpa [pAbsorb, setP, e] using h.ncl2 r' hr' h2
  · intro q hq h3; rw [hcls] at h3 ⊢; exact h.tr q hq h3
  · rw [hn, hg, ← h.fS]
    have hc := sumTo_change2 (f := contribS s) (g := contribS (pAbsorb s k r a b)) hsn hrn hne (by
      intro q hq e1 e2
      simp only [contribS, live, hcls, hUne q e1]
      simp [pAbsorb, setP, e2])
    have c1 : contribS s q0 = a := by
      simp only [contribS, live, ha2, ← hU0, ha]; simp
    have c2 : contribS (pAbsorb s k r a b) q0 = 0 := by
      simp only [contribS, live, hcls, ha2, hu0]; simp
    have c3 : contribS s r = (s.procs r).accS := by
      simp only [contribS, live, hb1]; simp
    have c4 : contribS (pAbsorb s k r a b) r = (s.procs r).accS + a := by
      simp only [contribS, live, hcls, hb1]; simp [pAbsorb, setP]
    omega
  · rw [hn, hg, ← h.fR]
    have hc := sumTo_change2 (f := contribR s) (g := contribR (pAbsorb s k r a b)) hsn hrn hne (by
      intro q hq e1 e2
      simp only [contribR, live, hcls, hUne q e1]
      simp [pAbsorb, setP, e2])
    have c1 : contribR s q0 = b := by
      simp only [contribR, live, ha2, ← hU0, hb]; simp
    have c2 : contribR (pAbsorb s k r a b) q0 = 0 := by
      simp only [contribR, live, hcls, ha2, hu0]; simp
    have c3 : contribR s r = (s.procs r).accR := by
      simp only [contribR, live, hb1]; simp
    have c4 : contribR (pAbsorb s k r a b) r = (s.procs r).accR + b := by
      simp only [contribR, live, hcls, hb1]; simp [pAbsorb, setP]
    omega
  · intro hs
    have := h.lastT hs
    by_cases e : 0 = r <;> simpa [pAbsorb, setP, e] using this
  · intro hs
    have := h.lastF hs
    by_cases e : 0 = r <;> simpa [pAbsorb, setP, e] using this
  · have := h.ncl1 r hrn hb1
    have hch : q0 = 2 * r + 1 ∨ q0 = 2 * r + 2 := (parent_eq_iff hs0).1 hdst.symm
    rcases hch with e1 | e1 <;> rw [← e1, hpend0.2] at this <;> omega

end ParsecVerif.FourCounter
