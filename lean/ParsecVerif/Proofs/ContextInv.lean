import ParsecVerif.Model.Context
import ParsecVerif.Base.Interleave
/-!
  Inductive invariant of the context machine (Model/Context.lean): counter accounting
  `active = token + Σ contribution(taskpool state)`, thread ↔ taskpool consistency (who runs a task of
  p, who runs p's completion callback, who is adding q), the modes of master and workers, and the two
  facts about the end-of-epoch barrier that make `parsec_context_wait` sound.
-/
namespace ParsecVerif.Context

def contrib : TpSt → Int
  | .added => 1 | .inCb => 1 | .inCbN => 1 | .earlyDec => -1 | _ => 0

def csum (l : List Tp) : Int := (l.map (fun p => contrib p.st)).sum

theorem csum_set (l : List Tp) (i : Nat) (y : Tp) (h : i < l.length) :
    csum (l.set i y) + contrib l[i].st = csum l + contrib y.st := by
  induction l generalizing i with
  | nil => simp at h
  | cons a t ih =>
    cases i with
    | zero => simp [csum]; omega
    | succ k =>
      simp only [List.length_cons, Nat.add_lt_add_iff_right] at h
      have := ih k h
      simp only [csum, List.set_cons_succ, List.map_cons, List.sum_cons, List.getElem_cons_succ] at *
      omega

theorem csum_set' (l : List Tp) (i : Nat) (x y : Tp) (h : l[i]? = some x) :
    csum (l.set i y) = csum l + contrib y.st - contrib x.st := by
  obtain ⟨hi, hx⟩ := List.getElem?_eq_some_iff.1 h
  have := csum_set l i y hi
  rw [hx] at this
  omega

theorem csum_set_same (l : List Tp) (i : Nat) (x y : Tp) (h : l[i]? = some x) (hy : y.st = x.st) :
    csum (l.set i y) = csum l := by
  rw [csum_set' l i x y h, hy]; omega

theorem csum_zero_of_nonneg (l : List Tp) (hn : ∀ tp ∈ l, 0 ≤ contrib tp.st) (h0 : csum l = 0) :
    ∀ tp ∈ l, contrib tp.st = 0 := by
  induction l with
  | nil => intro tp h; cases h
  | cons a t ih =>
    have ha := hn a (List.mem_cons_self)
    have ht : ∀ tp ∈ t, 0 ≤ contrib tp.st := fun tp h => hn tp (List.mem_cons_of_mem _ h)
    have hsum : 0 ≤ csum t := by
      clear ih h0 hn ha
      induction t with
      | nil => simp [csum]
      | cons b u ihu =>
        have := ht b (List.mem_cons_self)
        have := ihu (fun tp h => ht tp (List.mem_cons_of_mem _ h))
        simp only [csum, List.map_cons, List.sum_cons] at *
        omega
    simp only [csum, List.map_cons, List.sum_cons] at h0 hsum
    intro tp htp
    cases htp with
    | head => omega
    | tail _ h => exact ih ht (by simp only [csum]; omega) tp h

theorem get_set_cases {α} (l : List α) (i j : Nat) (a x : α) (h : (l.set i a)[j]? = some x) :
    (i = j ∧ x = a ∧ i < l.length) ∨ (i ≠ j ∧ l[j]? = some x) := by
  by_cases hij : i = j
  · subst hij
    by_cases hi : i < l.length
    · rw [List.getElem?_set_self hi] at h
      exact Or.inl ⟨rfl, (Option.some.inj h).symm, hi⟩
    · rw [List.getElem?_eq_none (by simp; omega)] at h
      cases h
  · rw [List.getElem?_set_ne hij] at h
    exact Or.inr ⟨hij, h⟩


/-- q on the nested-callback stack of thread t ⇒ q is in state inCbN, owned by that thread; and conversely -/
def NF (nests : List (List Nat)) (tps : List Tp) : Prop :=
  ∀ (t : Nat) (l : List Nat) (q : Nat), nests[t]? = some l → q ∈ l → ∃ tp : Tp, tps[q]? = some tp ∧ tp.st = .inCbN ∧ tp.by_ = t
def NB (nests : List (List Nat)) (tps : List Tp) : Prop :=
  ∀ (q : Nat) (tp : Tp), tps[q]? = some tp → tp.st = .inCbN → ∃ l : List Nat, nests[tp.by_]? = some l ∧ q ∈ l

theorem nf_set {nests : List (List Nat)} {tps : List Tp} {p : Nat} {tp tp' : Tp} (h : NF nests tps) (htp : tps[p]? = some tp)
    (hne : tp.st ≠ .inCbN) : NF nests (tps.set p tp') := by
  intro t l q hl hq
  obtain ⟨x, hx, hxs, hxb⟩ := h t l q hl hq
  have : p ≠ q := by intro e; subst e; rw [htp] at hx; cases hx; exact hne hxs
  exact ⟨x, by rw [List.getElem?_set_ne this]; exact hx, hxs, hxb⟩

theorem nb_set {nests : List (List Nat)} {tps : List Tp} {p : Nat} {tp' : Tp} (h : NB nests tps) (hne : tp'.st ≠ .inCbN) :
    NB nests (tps.set p tp') := by
  intro q x hx hxs
  rcases get_set_cases _ _ _ _ _ hx with ⟨_, hxe, _⟩ | ⟨_, hx'⟩
  · subst hxe; exact absurd hxs hne
  · exact h q x hx' hxs

structure Inv (s : St) : Prop where
  len1 : s.subs.length = s.bases.length
  len2 : s.wm.length + 1 = s.bases.length
  cnt : s.active = (if s.token = true then 1 else 0) + csum s.tps
  tokM : s.token = true ↔ (s.started = true ∧ (s.mm = .out ∨ isTpWait s.mm = true))
  notSt : s.started = false → s.mm = .out ∧ ∀ m ∈ s.wm, m = .parked
  wIdle : ∀ (w : Nat) (m : WMode), s.wm[w]? = some m → m ≠ .looping → s.bases[w+1]? = some .idle ∧ s.subs[w+1]? = some .none
  mIdle : (s.mm = .atBarrier ∨ s.mm = .leaving ∨ s.mm = .starting) → s.bases[0]? = some .idle ∧ s.subs[0]? = some .none
  taskSt : ∀ (t p : Nat), s.bases[t]? = some (Base.task p) → ∃ tp : Tp, s.tps[p]? = some tp ∧ tp.st = .added
  taskCnt : ∀ (p : Nat) (tp : Tp), s.tps[p]? = some tp → tp.started = tp.ended + s.bases.count (Base.task p) ∧ tp.started ≤ tp.total
  cbFwd : ∀ (t p : Nat), s.bases[t]? = some (Base.cb p) → ∃ tp : Tp, s.tps[p]? = some tp ∧ tp.st = .inCb ∧ tp.by_ = t
  cbBack : ∀ (p : Nat) (tp : Tp), s.tps[p]? = some tp → tp.st = .inCb → s.bases[tp.by_]? = some (Base.cb p)
  addFwd : ∀ (t q : Nat), s.subs[t]? = some (Sub.adding q) →
    ∃ tp : Tp, s.tps[q]? = some tp ∧ (tp.st = .adding ∨ tp.st = .earlyCb ∨ tp.st = .earlyDec) ∧ tp.by_ = t
  addBack : ∀ (q : Nat) (tp : Tp), s.tps[q]? = some tp → (tp.st = .adding ∨ tp.st = .earlyCb ∨ tp.st = .earlyDec) →
    s.subs[tp.by_]? = some (Sub.adding q)
  nFwd : NF s.nests s.tps
  nBack : NB s.nests s.tps
  len3 : s.nests.length = s.bases.length
  nIdle : ∀ (t : Nat) (l : List Nat), s.nests[t]? = some l → l ≠ [] → ∃ m : Nat, s.bases[t]? = some (Base.cb m)
  nNodup : ∀ (t : Nat) (l : List Nat), s.nests[t]? = some l → l.Nodup
  allOut : s.mm = .atBarrier → (∀ m ∈ s.wm, m = .exited) → s.active = 0
  leaving : s.mm = .leaving → (∀ m ∈ s.wm, m = .parked) ∧ ∀ tp ∈ s.tps, tp.st = .notAdded ∨ tp.st = .done

theorem csum_fresh (tps : List Tp) (h : ∀ tp ∈ tps, tp.st = .notAdded) : csum tps = 0 := by
  induction tps with
  | nil => rfl
  | cons a t ih =>
    have ha := h a List.mem_cons_self
    have := ih (fun tp hm => h tp (List.mem_cons_of_mem _ hm))
    simp only [csum, List.map_cons, List.sum_cons, ha, contrib] at *
    omega

theorem inv_init (k : Nat) (tps : List Tp) (hf : ∀ tp ∈ tps, tp.fresh) : Inv (init k tps) := by
  have hst : ∀ (p : Nat) (tp : Tp), tps[p]? = some tp → tp.st = .notAdded := fun p tp h => (hf tp (List.mem_of_getElem? h)).1
  refine { len1 := by simp [init], len2 := by simp [init], cnt := ?_, tokM := by simp [init], notSt := ?_, wIdle := ?_,
           mIdle := by simp [init], taskSt := ?_, taskCnt := ?_, cbFwd := ?_, cbBack := ?_, addFwd := ?_, addBack := ?_,
           nFwd := ?_, nBack := ?_, len3 := by simp [init], nIdle := ?_, nNodup := ?_, allOut := by simp [init], leaving := by simp [init] }
  · simp [init, csum_fresh tps (fun tp h => (hf tp h).1)]
  · intro _; simp [init]
  · intro w m h _
    simp only [init] at *
    have hw : w < k := by
      have := (List.getElem?_eq_some_iff.1 h).1
      simpa using this
    simp [List.getElem?_replicate, hw]
  · intro t p h
    simp only [init, List.getElem?_replicate] at h
    split at h <;> cases h
  · intro p tp h
    have hfr := hf tp (List.mem_of_getElem? h)
    simp only [init] at *
    obtain ⟨_, h2, h3, _⟩ := hfr
    simp [h2, h3, List.count_replicate]
  · intro t p h
    simp only [init, List.getElem?_replicate] at h
    split at h <;> cases h
  · intro p tp h hs
    rw [hst p tp h] at hs; cases hs
  · intro t q h
    simp only [init, List.getElem?_replicate] at h
    split at h <;> cases h
  · intro q tp h hs
    rw [hst q tp h] at hs
    rcases hs with hs | hs | hs <;> cases hs
  · intro t l q h hq
    simp only [init, List.getElem?_replicate] at h
    split at h
    · cases h; cases hq
    · cases h
  · intro q tp h hs
    simp only [init] at h
    rw [hst q tp h] at hs; cases hs
  · intro t l h hne
    simp only [init, List.getElem?_replicate] at h
    split at h
    · cases h; exact absurd rfl hne
    · cases h
  · intro t l h
    simp only [init, List.getElem?_replicate] at h
    split at h
    · cases h; exact List.nodup_nil
    · cases h

syntax "keep " ident : tactic
macro_rules
  | `(tactic| keep $h) => `(tactic| first
      | exact ($h).len1 | exact ($h).len2 | exact ($h).cnt | exact ($h).tokM | exact ($h).notSt | exact ($h).wIdle
      | exact ($h).mIdle | exact ($h).taskSt | exact ($h).taskCnt | exact ($h).cbFwd | exact ($h).cbBack
      | exact ($h).addFwd | exact ($h).addBack | exact ($h).nFwd | exact ($h).nBack | exact ($h).len3 | exact ($h).nIdle | exact ($h).nNodup | exact ($h).allOut | exact ($h).leaving)

theorem idleT_iff (s : St) (t : Nat) : idleT s t = true ↔ s.bases[t]? = some .idle ∧ s.subs[t]? = some .none := by
  simp [idleT]

theorem tok_false_of_not_started {s : St} (h : Inv s) (hs : s.started = false) : s.token = false := by
  cases ht : s.token with
  | false => rfl
  | true => have := (h.tokM.1 ht).1; rw [hs] at this; cases this

theorem inv_startBarrier {s : St} (h : Inv s) (hg : s.mm = .out ∧ s.started = false ∧ idleT s 0 = true) :
    Inv (tick { s with started := true, mm := .starting, wm := s.wm.map (fun _ => .looping) }) := by
  have htok := tok_false_of_not_started h hg.2.1
  refine { len1 := ?len1, len2 := ?len2, cnt := ?cnt, tokM := ?tokM, notSt := ?notSt, wIdle := ?wIdle, mIdle := ?mIdle,
           taskSt := ?taskSt, taskCnt := ?taskCnt, cbFwd := ?cbFwd, cbBack := ?cbBack, addFwd := ?addFwd,
           addBack := ?addBack, nFwd := ?nFwd, nBack := ?nBack, len3 := ?len3, nIdle := ?nIdle, nNodup := ?nNodup,
           allOut := ?allOut, leaving := ?leaving }
  all_goals try (keep h)
  case len2 => simpa [tick] using h.len2
  case tokM => simp [tick, htok, isTpWait]
  case notSt => simp [tick]
  case wIdle =>
    intro w m hw hm
    simp only [tick, List.getElem?_map] at hw
    cases hx : s.wm[w]? with
    | none => simp [hx] at hw
    | some x => simp [hx] at hw; exact absurd hw.symm hm
  case mIdle => intro _; exact (idleT_iff s 0).1 hg.2.2
  case allOut => simp [tick]
  case leaving => simp [tick]

theorem started_of_mm {s : St} (h : Inv s) (hm : s.mm ≠ .out) : s.started = true := by
  cases hs : s.started with
  | true => rfl
  | false => exact absurd (h.notSt hs).1 hm

theorem tok_false_of_mm {s : St} (h : Inv s) (h1 : s.mm ≠ .out) (h2 : isTpWait s.mm = false) : s.token = false := by
  cases ht : s.token with
  | false => rfl
  | true =>
    rcases (h.tokM.1 ht).2 with h3 | h3
    · exact absurd h3 h1
    · rw [h2] at h3; cases h3

theorem inv_startToken {s : St} (h : Inv s) (hg : s.mm = .starting) :
    Inv (tick { s with active := s.active + 1, token := true, mm := .out }) := by
  have htok := tok_false_of_mm h (by rw [hg]; simp) (by rw [hg]; rfl)
  have hst := started_of_mm h (by rw [hg]; simp)
  refine { len1 := ?len1, len2 := ?len2, cnt := ?cnt, tokM := ?tokM, notSt := ?notSt, wIdle := ?wIdle, mIdle := ?mIdle,
           taskSt := ?taskSt, taskCnt := ?taskCnt, cbFwd := ?cbFwd, cbBack := ?cbBack, addFwd := ?addFwd,
           addBack := ?addBack, nFwd := ?nFwd, nBack := ?nBack, len3 := ?len3, nIdle := ?nIdle, nNodup := ?nNodup,
           allOut := ?allOut, leaving := ?leaving }
  all_goals try (keep h)
  case cnt => have := h.cnt; simp [tick, htok] at *; omega
  case tokM => simp [tick, hst]
  case notSt => intro hs; exact ⟨rfl, (h.notSt hs).2⟩
  case mIdle => simp [tick]
  case allOut => simp [tick]
  case leaving => simp [tick]

theorem inv_waitBegin {s : St} (h : Inv s) (hg : s.mm = .out ∧ s.started = true ∧ idleT s 0 = true) :
    Inv (tick { s with active := s.active - 1, token := false, mm := .waiting }) := by
  have htok : s.token = true := h.tokM.2 ⟨hg.2.1, Or.inl hg.1⟩
  refine { len1 := ?len1, len2 := ?len2, cnt := ?cnt, tokM := ?tokM, notSt := ?notSt, wIdle := ?wIdle, mIdle := ?mIdle,
           taskSt := ?taskSt, taskCnt := ?taskCnt, cbFwd := ?cbFwd, cbBack := ?cbBack, addFwd := ?addFwd,
           addBack := ?addBack, nFwd := ?nFwd, nBack := ?nBack, len3 := ?len3, nIdle := ?nIdle, nNodup := ?nNodup,
           allOut := ?allOut, leaving := ?leaving }
  all_goals try (keep h)
  case cnt => have := h.cnt; simp [tick, htok] at *; omega
  case tokM => simp [tick, isTpWait]
  case notSt => intro hs; simp only [tick] at hs; rw [hg.2.1] at hs; cases hs
  case mIdle => simp [tick]
  case allOut => simp [tick]
  case leaving => simp [tick]

theorem inv_sawZero {s : St} (h : Inv s) (hg : s.mm = .waiting ∧ idleT s 0 = true ∧ s.active = 0) :
    Inv (tick { s with mm := .atBarrier }) := by
  have htok := tok_false_of_mm h (by rw [hg.1]; simp) (by rw [hg.1]; rfl)
  have hst := started_of_mm h (by rw [hg.1]; simp)
  refine { len1 := ?len1, len2 := ?len2, cnt := ?cnt, tokM := ?tokM, notSt := ?notSt, wIdle := ?wIdle, mIdle := ?mIdle,
           taskSt := ?taskSt, taskCnt := ?taskCnt, cbFwd := ?cbFwd, cbBack := ?cbBack, addFwd := ?addFwd,
           addBack := ?addBack, nFwd := ?nFwd, nBack := ?nBack, len3 := ?len3, nIdle := ?nIdle, nNodup := ?nNodup,
           allOut := ?allOut, leaving := ?leaving }
  all_goals try (keep h)
  case tokM => simp [tick, htok, isTpWait]
  case notSt => intro hs; simp only [tick] at hs; rw [hst] at hs; cases hs
  case mIdle => intro _; exact (idleT_iff s 0).1 hg.2.1
  case allOut => intro _ _; exact hg.2.2
  case leaving => simp [tick]

theorem inv_leave {s : St} {w : Nat} (h : Inv s) (hg : s.wm[w]? = some .looping ∧ idleT s (w + 1) = true ∧ s.active = 0) :
    Inv (tick { s with wm := s.wm.set w .exited }) := by
  have hmem : WMode.looping ∈ s.wm := List.mem_of_getElem? hg.1
  refine { len1 := ?len1, len2 := ?len2, cnt := ?cnt, tokM := ?tokM, notSt := ?notSt, wIdle := ?wIdle, mIdle := ?mIdle,
           taskSt := ?taskSt, taskCnt := ?taskCnt, cbFwd := ?cbFwd, cbBack := ?cbBack, addFwd := ?addFwd,
           addBack := ?addBack, nFwd := ?nFwd, nBack := ?nBack, len3 := ?len3, nIdle := ?nIdle, nNodup := ?nNodup,
           allOut := ?allOut, leaving := ?leaving }
  all_goals try (keep h)
  case len2 => simpa [tick] using h.len2
  case notSt =>
    intro hs
    have := (h.notSt hs).2 _ hmem
    cases this
  case wIdle =>
    intro w' m hw hm
    simp only [tick] at hw
    rcases get_set_cases _ _ _ _ _ hw with ⟨rfl, _, _⟩ | ⟨_, hw'⟩
    · exact (idleT_iff s (w + 1)).1 hg.2.1
    · exact h.wIdle w' m hw' hm
  case allOut => intro _ _; exact hg.2.2
  case leaving =>
    intro hl
    have := (h.leaving hl).1 _ hmem
    cases this

theorem all_idle_of_out {s : St} (h : Inv s) (hm : s.mm = .atBarrier ∨ s.mm = .leaving ∨ s.mm = .starting)
    (hw : ∀ m ∈ s.wm, m ≠ .looping) (t : Nat) (ht : t < s.bases.length) :
    s.bases[t]? = some .idle ∧ s.subs[t]? = some .none := by
  cases t with
  | zero => exact h.mIdle hm
  | succ w =>
    have hlt : w < s.wm.length := by have := h.len2; omega
    have hget : s.wm[w]? = some s.wm[w] := List.getElem?_eq_getElem hlt
    exact h.wIdle w _ hget (hw _ (List.getElem_mem hlt))

theorem inv_barrier {s : St} (h : Inv s) (hg : s.mm = .atBarrier ∧ (∀ m ∈ s.wm, m = .exited)) :
    Inv (tick { s with mm := .leaving, wm := s.wm.map (fun _ => .parked), epochEnd := s.clock }) := by
  have htok := tok_false_of_mm h (by rw [hg.1]; simp) (by rw [hg.1]; rfl)
  have hst := started_of_mm h (by rw [hg.1]; simp)
  have hidle := all_idle_of_out h (Or.inl hg.1) (fun m hm => by rw [hg.2 m hm]; simp)
  refine { len1 := ?len1, len2 := ?len2, cnt := ?cnt, tokM := ?tokM, notSt := ?notSt, wIdle := ?wIdle, mIdle := ?mIdle,
           taskSt := ?taskSt, taskCnt := ?taskCnt, cbFwd := ?cbFwd, cbBack := ?cbBack, addFwd := ?addFwd,
           addBack := ?addBack, nFwd := ?nFwd, nBack := ?nBack, len3 := ?len3, nIdle := ?nIdle, nNodup := ?nNodup,
           allOut := ?allOut, leaving := ?leaving }
  all_goals try (keep h)
  case len2 => simpa [tick] using h.len2
  case tokM => simp [tick, htok, isTpWait]
  case notSt => intro hs; simp only [tick] at hs; rw [hst] at hs; cases hs
  case wIdle =>
    intro w m hw _
    simp only [tick, List.getElem?_map] at hw
    cases hx : s.wm[w]? with
    | none => simp [hx] at hw
    | some x =>
      have hx' := hg.2 x (List.mem_of_getElem? hx)
      exact h.wIdle w x hx (by rw [hx']; simp)
  case mIdle => intro _; exact h.mIdle (Or.inl hg.1)
  case allOut => simp [tick]
  case leaving =>
    intro _
    refine ⟨by simp [tick], ?_⟩
    have hact := h.allOut hg.1 hg.2
    have hcnt := h.cnt
    rw [htok, hact] at hcnt
    simp at hcnt
    -- no taskpool is in a state held by a thread
    have hst3 : ∀ tp ∈ s.tps, tp.st = .notAdded ∨ tp.st = .added ∨ tp.st = .done := by
      intro tp hm
      obtain ⟨q, hq, hget⟩ := List.getElem_of_mem hm
      have hget' : s.tps[q]? = some tp := by rw [List.getElem?_eq_getElem hq, hget]
      cases hs : tp.st with
      | notAdded => simp
      | added => simp
      | done => simp
      | inCb =>
        have hb := h.cbBack q tp hget' hs
        have hlt : tp.by_ < s.bases.length := (List.getElem?_eq_some_iff.1 hb).1
        rw [(hidle _ hlt).1] at hb; cases hb
      | adding =>
        have hb := h.addBack q tp hget' (Or.inl hs)
        have hlt : tp.by_ < s.bases.length := by rw [← h.len1]; exact (List.getElem?_eq_some_iff.1 hb).1
        rw [(hidle _ hlt).2] at hb; cases hb
      | earlyCb =>
        have hb := h.addBack q tp hget' (Or.inr (Or.inl hs))
        have hlt : tp.by_ < s.bases.length := by rw [← h.len1]; exact (List.getElem?_eq_some_iff.1 hb).1
        rw [(hidle _ hlt).2] at hb; cases hb
      | earlyDec =>
        have hb := h.addBack q tp hget' (Or.inr (Or.inr hs))
        have hlt : tp.by_ < s.bases.length := by rw [← h.len1]; exact (List.getElem?_eq_some_iff.1 hb).1
        rw [(hidle _ hlt).2] at hb; cases hb
      | inCbN =>
        obtain ⟨l, hl, hql⟩ := h.nBack q tp hget' hs
        have hlt : tp.by_ < s.bases.length := by rw [← h.len3]; exact (List.getElem?_eq_some_iff.1 hl).1
        obtain ⟨m, hm⟩ := h.nIdle _ l hl (by intro e; rw [e] at hql; cases hql)
        rw [(hidle _ hlt).1] at hm; cases hm
    have hz := csum_zero_of_nonneg s.tps (fun tp hm => by
      rcases hst3 tp hm with h1 | h1 | h1 <;> simp [h1, contrib]) (by omega)
    intro tp hm
    have hc := hz tp hm
    rcases hst3 tp hm with h1 | h1 | h1
    · exact Or.inl h1
    · rw [h1] at hc; simp [contrib] at hc
    · exact Or.inr h1

theorem inv_waitReturn {s : St} (h : Inv s) (hg : s.mm = .leaving) :
    Inv (tick { s with mm := .out, started := false, waitRets := s.clock :: s.waitRets }) := by
  have htok := tok_false_of_mm h (by rw [hg]; simp) (by rw [hg]; rfl)
  refine { len1 := ?len1, len2 := ?len2, cnt := ?cnt, tokM := ?tokM, notSt := ?notSt, wIdle := ?wIdle, mIdle := ?mIdle,
           taskSt := ?taskSt, taskCnt := ?taskCnt, cbFwd := ?cbFwd, cbBack := ?cbBack, addFwd := ?addFwd,
           addBack := ?addBack, nFwd := ?nFwd, nBack := ?nBack, len3 := ?len3, nIdle := ?nIdle, nNodup := ?nNodup,
           allOut := ?allOut, leaving := ?leaving }
  all_goals try (keep h)
  case tokM => simp [tick, htok]
  case notSt => intro _; exact ⟨rfl, (h.leaving hg).1⟩
  case mIdle => simp [tick]
  case allOut => simp [tick]
  case leaving => simp [tick]

theorem inv_tpWaitBegin {s : St} {p : Nat} (h : Inv s) (hg : s.mm = .out ∧ s.started = true ∧ idleT s 0 = true) :
    Inv (tick { s with mm := .tpWait p }) := by
  have htok : s.token = true := h.tokM.2 ⟨hg.2.1, Or.inl hg.1⟩
  refine { len1 := ?len1, len2 := ?len2, cnt := ?cnt, tokM := ?tokM, notSt := ?notSt, wIdle := ?wIdle, mIdle := ?mIdle,
           taskSt := ?taskSt, taskCnt := ?taskCnt, cbFwd := ?cbFwd, cbBack := ?cbBack, addFwd := ?addFwd,
           addBack := ?addBack, nFwd := ?nFwd, nBack := ?nBack, len3 := ?len3, nIdle := ?nIdle, nNodup := ?nNodup,
           allOut := ?allOut, leaving := ?leaving }
  all_goals try (keep h)
  case tokM => simp [tick, htok, hg.2.1, isTpWait]
  case notSt => intro hs; simp only [tick] at hs; rw [hg.2.1] at hs; cases hs
  case mIdle => simp [tick]
  case allOut => simp [tick]
  case leaving => simp [tick]

theorem inv_tpWaitReturn {s : St} {p : Nat} (h : Inv s) (hg : s.mm = .tpWait p) :
    Inv (tick { s with mm := .out, tpWaitRets := (p, s.clock) :: s.tpWaitRets }) := by
  have hst := started_of_mm h (by rw [hg]; simp)
  have htok : s.token = true := h.tokM.2 ⟨hst, Or.inr (by rw [hg]; rfl)⟩
  refine { len1 := ?len1, len2 := ?len2, cnt := ?cnt, tokM := ?tokM, notSt := ?notSt, wIdle := ?wIdle, mIdle := ?mIdle,
           taskSt := ?taskSt, taskCnt := ?taskCnt, cbFwd := ?cbFwd, cbBack := ?cbBack, addFwd := ?addFwd,
           addBack := ?addBack, nFwd := ?nFwd, nBack := ?nBack, len3 := ?len3, nIdle := ?nIdle, nNodup := ?nNodup,
           allOut := ?allOut, leaving := ?leaving }
  all_goals try (keep h)
  case tokM => simp [tick, htok, hst]
  case notSt => intro hs; simp only [tick] at hs; rw [hst] at hs; cases hs
  case mIdle => simp [tick]
  case allOut => simp [tick]
  case leaving => simp [tick]

/-- when the master is past the loop and every worker is out of it, every thread is idle -/
theorem all_idle {s : St} (h : Inv s)
    (hm : s.mm = .leaving ∨ (s.mm = .atBarrier ∧ ∀ m ∈ s.wm, m = .exited)) (t : Nat) (ht : t < s.bases.length) :
    s.bases[t]? = some .idle ∧ s.subs[t]? = some .none := by
  rcases hm with hm | ⟨hm, hw⟩
  · exact all_idle_of_out h (Or.inr (Or.inl hm)) (fun m hmem => by rw [(h.leaving hm).1 m hmem]; simp) t ht
  · exact all_idle_of_out h (Or.inl hm) (fun m hmem => by rw [hw m hmem]; simp) t ht

theorem canExec_not_out {s : St} (h : Inv s) {t : Nat} (hc : canExec s t = true)
    (hm : s.mm = .leaving ∨ (s.mm = .atBarrier ∧ ∀ m ∈ s.wm, m = .exited)) : False := by
  unfold canExec at hc
  split at hc
  · rcases hm with hm | ⟨hm, _⟩ <;> rw [hm] at hc <;> simp [isTpWait] at hc
  · have hl : WMode.looping ∈ s.wm := List.mem_of_getElem? (by simpa using hc)
    rcases hm with hm | ⟨_, hw⟩
    · have := (h.leaving hm).1 _ hl; cases this
    · have := hw _ hl; cases this

theorem canExec_wIdle {s : St} {t w : Nat} {m : WMode} (hc : canExec s t = true) (hw : s.wm[w]? = some m)
    (hm : m ≠ .looping) : t ≠ w + 1 := by
  intro ht
  subst ht
  unfold canExec at hc
  simp at hc
  rw [hw] at hc
  exact hm (Option.some.inj hc)

theorem canExec_mIdle {s : St} {t : Nat} (hc : canExec s t = true)
    (hm : s.mm = .atBarrier ∨ s.mm = .leaving ∨ s.mm = .starting) : t ≠ 0 := by
  intro ht
  subst ht
  unfold canExec at hc
  rcases hm with hm | hm | hm <;> rw [hm] at hc <;> simp [isTpWait] at hc

/-- the "nested stack non-empty ⇒ in a callback" clause when the activity of thread `t` changes -/
theorem nIdle_set {s : St} (h : Inv s) {t : Nat} {b b' : Base} (hb : s.bases[t]? = some b)
    (hcase : (∀ m, b ≠ Base.cb m) ∨ s.nests[t]? = some [] ∨ (∃ m, b' = Base.cb m)) :
    ∀ (t' : Nat) (l : List Nat), s.nests[t']? = some l → l ≠ [] → ∃ m : Nat, (s.bases.set t b')[t']? = some (Base.cb m) := by
  intro t' l hl hne
  obtain ⟨m, hm⟩ := h.nIdle t' l hl hne
  by_cases e : t = t'
  · subst e
    rcases hcase with hc | hc | ⟨m', hc⟩
    · rw [hb] at hm; cases hm; exact absurd rfl (hc m)
    · rw [hc] at hl; cases hl; exact absurd rfl hne
    · exact ⟨m', by rw [List.getElem?_set_self (List.getElem?_eq_some_iff.1 hb).1, hc]⟩
  · exact ⟨m, by rw [List.getElem?_set_ne e]; exact hm⟩

theorem inv_taskBegin {s : St} {t p : Nat} {tp : Tp} (h : Inv s) (htp : s.tps[p]? = some tp)
    (hg : canExec s t = true ∧ idleT s t = true ∧ tp.st = .added ∧ tp.started < tp.total) :
    Inv (tick { s with bases := s.bases.set t (.task p),
                       tps := s.tps.set p { tp with started := tp.started + 1,
                                                    firstBegin := if tp.firstBegin = 0 then s.clock else tp.firstBegin } }) := by
  obtain ⟨hc, hid, hst, hlt⟩ := hg
  obtain ⟨hbt, hsu⟩ := (idleT_iff s t).1 hid
  obtain ⟨htl, hbt'⟩ := List.getElem?_eq_some_iff.1 hbt
  obtain ⟨hpl, _⟩ := List.getElem?_eq_some_iff.1 htp
  refine { len1 := ?len1, len2 := ?len2, cnt := ?cnt, tokM := ?tokM, notSt := ?notSt, wIdle := ?wIdle, mIdle := ?mIdle,
           taskSt := ?taskSt, taskCnt := ?taskCnt, cbFwd := ?cbFwd, cbBack := ?cbBack, addFwd := ?addFwd,
           addBack := ?addBack, nFwd := ?nFwd, nBack := ?nBack, len3 := ?len3, nIdle := ?nIdle, nNodup := ?nNodup,
           allOut := ?allOut, leaving := ?leaving }
  all_goals try (keep h)
  case len1 => simpa [tick] using h.len1
  case len2 => simpa [tick] using h.len2
  case cnt => simp only [tick]; rw [csum_set_same _ _ _ _ htp]; exact h.cnt; rfl
  case wIdle =>
    intro w m hw hm
    have hne := canExec_wIdle hc hw hm
    simp only [tick, List.getElem?_set_ne hne]
    exact h.wIdle w m hw hm
  case mIdle =>
    intro hm
    have hne := canExec_mIdle hc hm
    simp only [tick, List.getElem?_set_ne hne]
    exact h.mIdle hm
  case taskSt =>
    intro t' p' hb
    simp only [tick] at hb ⊢
    have key : ∀ x : Tp, s.tps[p']? = some x → x.st = .added → ∃ y : Tp, (s.tps.set p { tp with started := tp.started + 1, firstBegin := if tp.firstBegin = 0 then s.clock else tp.firstBegin })[p']? = some y ∧ y.st = .added := by
      intro x hx hxs
      by_cases hpp : p = p'
      · subst hpp; exact ⟨_, List.getElem?_set_self hpl, hst⟩
      · exact ⟨x, by rw [List.getElem?_set_ne hpp]; exact hx, hxs⟩
    rcases get_set_cases _ _ _ _ _ hb with ⟨_, hx, _⟩ | ⟨_, hb'⟩
    · cases hx; exact key tp htp hst
    · obtain ⟨x, hx, hxs⟩ := h.taskSt t' p' hb'; exact key x hx hxs
  case taskCnt =>
    intro p' x hx
    simp only [tick] at hx ⊢
    have hmv := Interleave.count_set_move s.bases t (Base.task p) htl (Base.task p')
    rw [hbt'] at hmv
    rcases get_set_cases _ _ _ _ _ hx with ⟨rfl, hxe, _⟩ | ⟨hne, hx'⟩
    · subst hxe
      have := h.taskCnt p tp htp
      simp at hmv ⊢
      omega
    · have := h.taskCnt p' x hx'
      have hne' : ¬ (Base.task p = Base.task p') := by intro e; cases e; exact hne rfl
      simp [hne'] at hmv
      omega
  case cbFwd =>
    intro t' p' hb
    simp only [tick] at hb ⊢
    rcases get_set_cases _ _ _ _ _ hb with ⟨_, hx, _⟩ | ⟨_, hb'⟩
    · cases hx
    · obtain ⟨x, hx, hxs, hxb⟩ := h.cbFwd t' p' hb'
      have hne : p ≠ p' := by intro e; subst e; rw [htp] at hx; cases hx; rw [hst] at hxs; cases hxs
      exact ⟨x, by rw [List.getElem?_set_ne hne]; exact hx, hxs, hxb⟩
  case cbBack =>
    intro p' x hx hxs
    simp only [tick] at hx ⊢
    rcases get_set_cases _ _ _ _ _ hx with ⟨_, hxe, _⟩ | ⟨_, hx'⟩
    · subst hxe; simp only [] at hxs; rw [hst] at hxs; cases hxs
    · have hb := h.cbBack p' x hx' hxs
      have hne : t ≠ x.by_ := by intro e; rw [← e, hbt] at hb; cases hb
      rw [List.getElem?_set_ne hne]; exact hb
  case addFwd =>
    intro t' q hq
    simp only [tick] at hq ⊢
    obtain ⟨x, hx, hxs, hxb⟩ := h.addFwd t' q hq
    have hne : p ≠ q := by
      intro e; subst e; rw [htp] at hx; cases hx; rw [hst] at hxs; rcases hxs with e | e | e <;> cases e
    exact ⟨x, by rw [List.getElem?_set_ne hne]; exact hx, hxs, hxb⟩
  case addBack =>
    intro q x hx hxs
    simp only [tick] at hx ⊢
    rcases get_set_cases _ _ _ _ _ hx with ⟨_, hxe, _⟩ | ⟨_, hx'⟩
    · subst hxe; simp only [] at hxs; rw [hst] at hxs; rcases hxs with e | e | e <;> cases e
    · exact h.addBack q x hx' hxs
  case nFwd => exact nf_set h.nFwd htp (by rw [hst]; simp)
  case nBack => exact nb_set h.nBack (by simp [hst])
  case len3 => simpa [tick] using h.len3
  case nIdle => exact nIdle_set h hbt (Or.inl (by intro m e; cases e))
  case leaving => intro hm; exact (canExec_not_out h hc (Or.inl hm)).elim

theorem set_keep {α} {l : List α} {i j : Nat} {a : α} (h : l[j]? = some a) : (l.set i a)[j]? = some a := by
  by_cases hij : i = j
  · subst hij; rw [List.getElem?_set_self (List.getElem?_eq_some_iff.1 h).1]
  · rw [List.getElem?_set_ne hij]; exact h

theorem csum_set_contrib (l : List Tp) (i : Nat) (x y : Tp) (h : l[i]? = some x) (hy : contrib y.st = contrib x.st) :
    csum (l.set i y) = csum l := by
  rw [csum_set' l i x y h, hy]; omega

theorem count_pos_of_get {l : List Base} {t : Nat} {b : Base} (h : l[t]? = some b) : 0 < l.count b :=
  List.count_pos_iff.2 (List.mem_of_getElem? h)

end ParsecVerif.Context
