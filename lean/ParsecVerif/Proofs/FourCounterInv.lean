import ParsecVerif.Proofs.FourCounterBase
/-
  The inductive invariant of the four-counter protocol model.

  * `Struct`  shape of the wave protocol on every tree edge, bookkeeping of nb_child_left, where the
              contributions to the wave in progress currently sit, what the root remembers
  * `Hist`    Mattern's counting argument as state invariants over the history variables
  * `Fin`     what holds once the root has declared termination
-/
namespace ParsecVerif.FourCounter

def cls : St → Nat
  | .notReady => 0 | .busyWC => 1 | .idleWC => 1 | .busyWP => 2 | .idleWP => 2 | .term => 3

def U (s : State) (q : Nat) : Nat := cnt (isUpFrom q) s.net
def D (s : State) (q : Nat) (r : Bool) : Nat := cnt (isDownTo q r) s.net

/-- the legal configurations of the edge between a non-root process (class `a`, contributed `c`,
    `u` UP messages from it, `d0`/`d1` DOWN(false)/DOWN(true) messages to it) and its parent
    (class `b`, contributed `d`) -/
def edgeOK (a b c d u d0 d1 : Nat) : Prop :=
  (a ≤ 1 ∧ c = 0 ∧ u = 0 ∧ d0 = 0 ∧ d1 = 0 ∧ b ≤ 1 ∧ d = 0) ∨
  (a = 2 ∧ c = 1 ∧ u = 1 ∧ d0 = 0 ∧ d1 = 0 ∧ b ≤ 1 ∧ d = 0) ∨
  (a = 2 ∧ c = 1 ∧ u = 0 ∧ d0 = 0 ∧ d1 = 0 ∧ ((b = 1 ∧ d = 0) ∨ (b = 2 ∧ d = 1))) ∨
  (a = 2 ∧ c = 0 ∧ u = 0 ∧ d0 = 1 ∧ d1 = 0 ∧ b = 1 ∧ d = 0) ∨
  (a = 2 ∧ c = 0 ∧ u = 0 ∧ d0 = 0 ∧ d1 = 1 ∧ b = 3) ∨
  (a = 2 ∧ c = 0 ∧ u = 0 ∧ d0 = 0 ∧ d1 = 0 ∧ b = 2 ∧ d = 0) ∨
  (a = 3 ∧ c = 0 ∧ u = 0 ∧ d0 = 0 ∧ d1 = 0 ∧ b = 3)

def Edge (s : State) (q : Nat) : Prop :=
  edgeOK (cls (s.procs q).st) (cls (s.procs (parent q)).st) (b2n (s.gh q).c) (b2n (s.gh (parent q)).c)
    (U s q) (D s q false) (D s q true)

def PkOK (s : State) (k : Packet) : Prop :=
  match k.kind with
  | .up a b => 0 < k.src ∧ k.src < s.n ∧ k.dst = parent k.src ∧
               a = (s.procs k.src).accS ∧ b = (s.procs k.src).accR
  | .down _ => 0 < k.dst ∧ k.dst < s.n ∧ k.src = parent k.dst
  | .app => True

/-- child `q` still owes its contribution to the collection of its parent -/
def pend (s : State) (q : Nat) : Nat :=
  if q < s.n ∧ ¬ (cls (s.procs q).st = 2 ∧ b2n (s.gh q).c = 1 ∧ U s q = 0) then 1 else 0

def live (s : State) (q : Nat) : Prop := cls (s.procs q).st ≤ 1 ∨ (cls (s.procs q).st = 2 ∧ U s q ≠ 0)
instance (s : State) (q : Nat) : Decidable (live s q) := by unfold live; exact inferInstance

def contribS (s : State) (q : Nat) : Nat := if live s q then (s.procs q).accS else 0
def contribR (s : State) (q : Nat) : Nat := if live s q then (s.procs q).accR else 0

def sKS (g : PGhost) : Nat := if g.c then g.prevS else g.curS
def sKR (g : PGhost) : Nat := if g.c then g.prevR else g.curR

structure Struct (s : State) : Prop where
  pk : ∀ k, k ∈ s.net → PkOK s k
  edge : ∀ q, 0 < q → q < s.n → Edge s q
  root : cls (s.procs 0).st ≠ 2 ∧ (s.gh 0).c = false
  ncl1 : ∀ r, r < s.n → cls (s.procs r).st = 1 →
          (s.procs r).ncl = ((pend s (2 * r + 1) + pend s (2 * r + 2) : Nat) : Int)
  ncl2 : ∀ r, r < s.n → cls (s.procs r).st = 2 → (s.procs r).ncl = ((nbChildren s.n r : Nat) : Int)
  tr : ∀ q, q < s.n → cls (s.procs q).st = 3 → cls (s.procs 0).st = 3
  fS : sumTo s.n (contribS s) = sumTo s.n (fun q => if (s.gh q).c then (s.gh q).curS else 0)
  fR : sumTo s.n (contribR s) = sumTo s.n (fun q => if (s.gh q).c then (s.gh q).curR else 0)
  lastT : s.started = true →
            (s.procs 0).lastS = ((sumTo s.n (fun q => sKS (s.gh q)) : Nat) : Int) ∧
            (s.procs 0).lastR = ((sumTo s.n (fun q => sKR (s.gh q)) : Nat) : Int)
  lastF : s.started = false → (s.procs 0).lastS = -1 ∧ (s.procs 0).lastR = -1

/-- nothing moves any more: no work, no message being processed, counters as at the last decision -/
def Quiet (s : State) : Prop :=
  (∀ q, q < s.n → (s.procs q).wl = 0 ∧ (s.procs q).opn = 0 ∧
      (s.procs q).ms = (s.gh q).midS ∧ (s.procs q).mr = (s.gh q).midR) ∧ cnt isApp s.net = 0

structure Hist (s : State) : Prop where
  h1S : ∀ q, q < s.n → sKS (s.gh q) ≤ (s.gh q).midS ∧
          (s.gh q).midS ≤ (if (s.gh q).c then (s.gh q).curS else (s.procs q).ms) ∧
          (s.gh q).curS ≤ (s.procs q).ms
  h1R : ∀ q, q < s.n → sKR (s.gh q) ≤ (s.gh q).midR ∧
          (s.gh q).midR ≤ (if (s.gh q).c then (s.gh q).curR else (s.procs q).mr) ∧
          (s.gh q).curR ≤ (s.procs q).mr
  h2 : sumTo s.n (fun q => (s.gh q).midS) = sumTo s.n (fun q => (s.gh q).midR) + s.trT
  h3 : s.started = true → ∀ q, q < s.n → (s.gh q).actT = true →
          sKR (s.gh q) < (s.gh q).midR ∨ 0 < s.trT
  h4 : s.started = true → s.trT = 0 → (∀ q, q < s.n → (s.gh q).actT = false) → Quiet s
  h5 : ∀ q, q < s.n → ((s.gh q).c = true ∨ s.started = true) → 0 < (s.procs q).wl →
          (s.gh q).curR < (s.procs q).mr ∨ 0 < (s.procs q).opn
  h6 : sumTo s.n (fun q => (s.procs q).ms) = sumTo s.n (fun q => (s.procs q).mr) + transit s
  h8 : ∀ q, q < s.n → (s.procs q).st = .busyWP →
          0 < (s.procs q).wl ∨ 0 < (s.procs q).opn ∨ (s.gh q).curR < (s.procs q).mr
  s1 : s.n ≤ 1 → transit s = 0
  nr : s.started = true → ∀ q, q < s.n → cls (s.procs q).st ≠ 0

structure Fin (s : State) : Prop where
  q : (s.procs 0).st = .term →
        (∀ q, q < s.n → (s.procs q).wl = 0 ∧ (s.procs q).opn = 0 ∧
            ((s.procs q).st = .idleWP ∨ (s.procs q).st = .term)) ∧ cnt isApp s.net = 0
  cb : ∀ q, q < s.n → (s.procs q).cbs = if (s.procs q).st = .term then 1 else 0

structure Inv (s : State) : Prop where
  st : Struct s
  hi : Hist s
  fi : Fin s

/-! ### consequences used everywhere -/

theorem cls_eq_3 {x : St} : cls x = 3 ↔ x = .term := by cases x <;> simp [cls]
theorem cls_eq_0 {x : St} : cls x = 0 ↔ x = .notReady := by cases x <;> simp [cls]
theorem cls_eq_1 {x : St} : cls x = 1 ↔ x = .busyWC ∨ x = .idleWC := by cases x <;> simp [cls]
theorem cls_eq_2 {x : St} : cls x = 2 ↔ x = .busyWP ∨ x = .idleWP := by cases x <;> simp [cls]
theorem cls_le_3 (x : St) : cls x ≤ 3 := by cases x <;> simp [cls]

theorem edge_cases {a b c d u d0 d1 : Nat} (h : edgeOK a b c d u d0 d1) :
    (a ≤ 1 → c = 0 ∧ u = 0 ∧ d0 = 0 ∧ d1 = 0 ∧ b ≤ 1 ∧ d = 0) ∧
    (0 < u → a = 2 ∧ c = 1 ∧ u = 1 ∧ d0 = 0 ∧ d1 = 0 ∧ b ≤ 1 ∧ d = 0) ∧
    (0 < d0 → a = 2 ∧ c = 0 ∧ u = 0 ∧ d0 = 1 ∧ d1 = 0 ∧ b = 1 ∧ d = 0) ∧
    (0 < d1 → a = 2 ∧ c = 0 ∧ u = 0 ∧ d0 = 0 ∧ d1 = 1 ∧ b = 3) := by
  unfold edgeOK at h; omega

/-- a process waiting for children has not contributed to the wave in progress -/
theorem Struct.c_false_of_wfc {s : State} (h : Struct s) {q : Nat} (hq : q < s.n)
    (hc : cls (s.procs q).st ≤ 1) : (s.gh q).c = false := by
  by_cases h0 : q = 0
  · subst h0; exact h.root.2
  · have := (edge_cases (h.edge q (by omega) hq)).1 hc
    cases hcc : (s.gh q).c with
    | false => rfl
    | true => simp [hcc] at this

theorem Struct.U_zero_of_wfc {s : State} (h : Struct s) {q : Nat} (hq : q < s.n) (h0 : 0 < q)
    (hc : cls (s.procs q).st ≤ 1) : U s q = 0 :=
  ((edge_cases (h.edge q h0 hq)).1 hc).2.1

/-- a process that has contributed to the wave in progress waits for its parent -/
theorem Struct.cls_of_c {s : State} (h : Struct s) {q : Nat} (hq : q < s.n)
    (hc : (s.gh q).c = true) : cls (s.procs q).st = 2 := by
  by_cases h0 : q = 0
  · subst h0; rw [h.root.2] at hc; cases hc
  · have e := h.edge q (by omega) hq
    unfold Edge at e; rw [hc] at e
    generalize cls (s.procs q).st = a at *
    generalize cls (s.procs (parent q)).st = b at *
    generalize b2n (s.gh (parent q)).c = d at *
    generalize U s q = u at *
    generalize D s q false = d0 at *
    generalize D s q true = d1 at *
    unfold edgeOK at e; simp at e; omega

/-- the root never sends an UP message -/
theorem Struct.U_root {s : State} (h : Struct s) : U s 0 = 0 := by
  apply cnt_zero_of_not
  intro pk hm
  have := h.pk pk hm
  unfold PkOK at this
  unfold isUpFrom
  split <;> simp_all
  omega

end ParsecVerif.FourCounter
