import ParsecVerif.Proofs.FourCounterInv
/-
  Preservation of `Struct` by the primitive state changes the handlers are made of.
-/
namespace ParsecVerif.FourCounter

/-- changes that touch neither the protocol fields nor the control messages -/
theorem Struct.env {s s' : State} (h : Struct s)
    (hn : s'.n = s.n) (hg : s'.gh = s.gh) (hst : s'.started = s.started)
    (hc : ∀ q, cls (s'.procs q).st = cls (s.procs q).st)
    (hncl : ∀ q, (s'.procs q).ncl = (s.procs q).ncl)
    (haS : ∀ q, (s'.procs q).accS = (s.procs q).accS) (haR : ∀ q, (s'.procs q).accR = (s.procs q).accR)
    (hlS : (s'.procs 0).lastS = (s.procs 0).lastS) (hlR : (s'.procs 0).lastR = (s.procs 0).lastR)
    (hU : ∀ q, U s' q = U s q) (hD : ∀ q r, D s' q r = D s q r)
    (hmem : ∀ k, k ∈ s'.net → isApp k = true ∨
        ∃ k0, k0 ∈ s.net ∧ k0.kind = k.kind ∧ k0.src = k.src ∧ k0.dst = k.dst) : Struct s' := by
  have hpend : ∀ q, pend s' q = pend s q := by intro q; simp only [pend, hn, hc, hg, hU]
  have hlive : ∀ q, live s' q ↔ live s q := by intro q; simp only [live, hc, hU]
  have hcS : ∀ q, contribS s' q = contribS s q := by intro q; simp only [contribS, hlive, haS]
  have hcR : ∀ q, contribR s' q = contribR s q := by intro q; simp only [contribR, hlive, haR]
  refine ⟨?_, ?_, ?_, ?_, ?_, ?_, ?_, ?_, ?_, ?_⟩
  · intro k hk
    rcases hmem k hk with ha | ⟨k0, hm, e1, e2, e3⟩
    · unfold PkOK; unfold isApp at ha; split <;> simp_all
    · have := h.pk k0 hm
      unfold PkOK at this ⊢
      rw [e1, e2, e3] at this
      split <;> simp_all
  · intro q h0 hq
    have := h.edge q h0 (hn ▸ hq)
    simpa only [Edge, hc, hg, hU, hD] using this
  · simpa only [hc, hg] using h.root
  · intro r hr h1
    rw [hncl, hpend, hpend]; exact h.ncl1 r (hn ▸ hr) (hc r ▸ h1)
  · intro r hr h2
    rw [hncl, hn]; exact h.ncl2 r (hn ▸ hr) (hc r ▸ h2)
  · intro q hq h3
    rw [hc]; exact h.tr q (hn ▸ hq) (hc q ▸ h3)
  · rw [hn, hg, sumTo_congr (fun q _ => hcS q)]; exact h.fS
  · rw [hn, hg, sumTo_congr (fun q _ => hcR q)]; exact h.fR
  · intro hs; rw [hn, hg, hlS, hlR]; exact h.lastT (hst ▸ hs)
  · intro hs; rw [hlS, hlR]; exact h.lastF (hst ▸ hs)

end ParsecVerif.FourCounter
