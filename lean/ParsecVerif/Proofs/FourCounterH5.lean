import ParsecVerif.Proofs.FourCounterH4
/-
  Mattern's four-counter argument: when the root's comparison of two consecutive waves succeeds,
  every process is idle and no application message is in transit.
-/
namespace ParsecVerif.FourCounter

theorem decision_quiet {s : State} (h : Hist s) (hS : Struct s) (hn : 0 < s.n)
    (h1 : cls (s.procs 0).st = 1) (hncl : (s.procs 0).ncl = 0) (hw : (s.procs 0).wl = 0)
    (hres : rootRes s.n (accAdd (s.procs 0)) = true) :
    (∀ q, q < s.n → (s.procs q).wl = 0 ∧ (s.procs q).opn = 0) ∧ cnt isApp s.net = 0 ∧
    (∀ q, 0 < q → q < s.n → (s.procs q).st = .idleWP) := by
  have hall := hS.allC h1 hncl
  by_cases hnb : nbChildren s.n 0 = 0
  · -- a single process: it never sent nor received anything
    have hn1 : s.n = 1 := by unfold nbChildren at hnb; split at hnb <;> (try split at hnb) <;> omega
    have ht := h.s1 (by omega)
    unfold transit at ht; rw [appCount_eq_cnt] at ht
    have hz : sumTo s.n (fun q => (s.procs q).opn) = 0 := by omega
    refine ⟨fun q hq => ?_, by omega, fun q a b => by omega⟩
    have e : q = 0 := by omega
    subst e
    exact ⟨hw, eq_zero_of_sumTo hz 0 hq⟩
  · -- the comparison succeeded
    unfold rootRes at hres
    have hnb' : (nbChildren s.n 0 == 0) = false := by simp [hnb]
    rw [hnb'] at hres
    simp only [Bool.false_or, Bool.and_eq_true, beq_iff_eq, accAdd] at hres
    obtain ⟨⟨hlS, hlR⟩, hSR⟩ := hres
    have hst : s.started = true := by
      cases hs : s.started with
      | true => rfl
      | false => have := (hS.lastF hs).1; omega
    obtain ⟨lS, lR⟩ := hS.lastT hst
    -- what the new state remembers is the sum of the latest contributions
    have hS' := hS.decide hn h1 hncl
    obtain ⟨lS', lR'⟩ := hS'.lastT rfl
    have lS2 : ((rootDecide s).procs 0).lastS = (((s.procs 0).accS + (s.procs 0).ms : Nat) : Int) := by
      simp only [rootDecide, upd_same]; unfold rootAfter; split <;> simp [accAdd]
    have lR2 : ((rootDecide s).procs 0).lastR = (((s.procs 0).accR + (s.procs 0).mr : Nat) : Int) := by
      simp only [rootDecide, upd_same]; unfold rootAfter; split <;> simp [accAdd]
    rw [lS2] at lS'; rw [lR2] at lR'
    have hN : (rootDecide s).n = s.n := rfl
    rw [hN] at lS' lR'
    -- sums of: previous contributions, counters at the previous decision, latest contributions
    have eS : sumTo s.n (fun q => sKS (s.gh q)) = sumTo s.n (fun q => sKS ((rootDecide s).gh q)) := by omega
    have eR : sumTo s.n (fun q => sKR (s.gh q)) = sumTo s.n (fun q => sKR ((rootDecide s).gh q)) := by omega
    have eSR : sumTo s.n (fun q => sKS ((rootDecide s).gh q)) = sumTo s.n (fun q => sKR ((rootDecide s).gh q)) := by omega
    have hcq : ∀ q, 0 < q → q < s.n → (s.gh q).c = true := fun q a b => b2n_eq_one.1 (hall q a b).2.1
    have newS : ∀ q, sKS ((rootDecide s).gh q) = if q = 0 then (s.procs 0).ms else (s.gh q).curS := by
      intro q; simp [sKS, rootDecide, ghDecide]
    have newR : ∀ q, sKR ((rootDecide s).gh q) = if q = 0 then (s.procs 0).mr else (s.gh q).curR := by
      intro q; simp [sKR, rootDecide, ghDecide]
    have le1S : ∀ q, q < s.n → sKS (s.gh q) ≤ (s.gh q).midS := fun q hq => (h.h1S q hq).1
    have le1R : ∀ q, q < s.n → sKR (s.gh q) ≤ (s.gh q).midR := fun q hq => (h.h1R q hq).1
    have le2S : ∀ q, q < s.n → (s.gh q).midS ≤ sKS ((rootDecide s).gh q) := by
      intro q hq; rw [newS]
      have := (h.h1S q hq).2.1
      by_cases e : q = 0
      · subst e; rw [hS.root.2] at this; simpa using this
      · rw [hcq q (by omega) hq] at this; simpa [e] using this
    have le2R : ∀ q, q < s.n → (s.gh q).midR ≤ sKR ((rootDecide s).gh q) := by
      intro q hq; rw [newR]
      have := (h.h1R q hq).2.1
      by_cases e : q = 0
      · subst e; rw [hS.root.2] at this; simpa using this
      · rw [hcq q (by omega) hq] at this; simpa [e] using this
    have m1S := sumTo_mono le1S; have m2S := sumTo_mono le2S
    have m1R := sumTo_mono le1R; have m2R := sumTo_mono le2R
    have pS1 := sumTo_eq_of_le le1S (by omega)
    have pS2 := sumTo_eq_of_le le2S (by omega)
    have pR1 := sumTo_eq_of_le le1R (by omega)
    have pR2 := sumTo_eq_of_le le2R (by omega)
    have htr : s.trT = 0 := by have := h.h2; omega
    have hact : ∀ q, q < s.n → (s.gh q).actT = false := by
      intro q hq
      cases ha : (s.gh q).actT with
      | false => rfl
      | true =>
        have := h.h3 hst q hq ha
        have := pR1 q hq
        omega
    have hq := h.h4 hst htr hact
    refine ⟨fun q hq' => ⟨(hq.1 q hq').1, (hq.1 q hq').2.1⟩, hq.2, ?_⟩
    intro q hq0 hq'
    have a2 := (hall q hq0 hq').1
    rcases cls_eq_2.1 a2 with hb | hi
    · exfalso
      have := h.h8 q hq' hb
      have q1 := hq.1 q hq'
      have := pR2 q hq'
      rw [newR, if_neg (by omega)] at this
      omega
    · exact hi

end ParsecVerif.FourCounter
