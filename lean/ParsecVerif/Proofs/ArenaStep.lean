/-
  Every micro step of the arena machine produces a `Good` delta; hence `Inv` holds in every reachable state.
-/
import ParsecVerif.Proofs.Arena

namespace ParsecVerif.Arena

macro "good_simp" : tactic => `(tactic|
  simp only [base, fin, finGot, mallocGot, mallocFail, own, pcChunks, tpend, pend, tC, tP, tD, mC, mP, mD, tOnes, pcOnes,
    ob, badRes, bad, tHeld, ind, cnt, gots, rels, csum_cons, csum_nil, List.map_cons, List.sum_cons, List.length_cons,
    badReq_self, Nat.add_zero, Nat.zero_add, List.map_nil, List.sum_nil, List.length_nil] at *)

macro "good_close" : tactic => `(tactic|
  (constructor <;> intros <;> (try good_simp) <;> (try simp) <;> (try omega)))

theorem good_base (cfg : Cfg) (s : State) (th th' : Thread) (hh : th'.held = th.held) (hp : th.pc = .idle) (hp' : th'.pc = .idle)
    (ho : ob th' ≤ ob th) : Good cfg s th (base s th') := by
  constructor <;> intros <;> simp only [base, own, hh, hp, hp', pcChunks, tpend, pend, tC, tP, tD, mC, mP, mD, tOnes, pcOnes,
    tHeld, gots, rels, csum_nil] <;> (try simp) <;> (try omega)


theorem good_local (cfg : Cfg) (s : State) (t : Nat) (th : Thread) : Good cfg s th (localStep cfg s t th) := by
  rcases th with ⟨pc, held, todo, out⟩
  rcases s with ⟨used, released, cache, mallocs, thr, born, died, trace⟩
  cases pc with
  | idle =>
    cases todo with
    | nil => simp only [localStep]; good_close
    | cons op rest =>
      cases op with
      | alloc n =>
        match n with
        | 0 => simp only [localStep]; good_close
        | 1 =>
          simp only [localStep, idleAlloc1]
          cases cache with
          | nil =>
            simp only []
            split
            · good_close
            · split <;> good_close
          | cons c rest' =>
            simp only []
            split <;> good_close
        | n + 2 =>
          simp only [localStep, idleAllocN]
          split
          · good_close
          · split <;> good_close
      | release k =>
        simp only [localStep]
        cases hk : held[k]? with
        | none => simp only []; good_close
        | some c =>
          simp only [idleRelease]
          have he := fun g => csum_eraseIdx g held k c hk
          have he1 := he cnt
          simp only [cnt] at he1
          split
          · split <;> good_close <;>
              first
              | (rename_i g; have h1 := he g; omega)
              | (rename_i x; have h1 := he (ind x); simp only [ind] at h1; omega)
              | (rename_i h1 h2; rw [h1.1]; simp)
          · split <;> good_close <;>
              first
              | (rename_i g; have h1 := he g; omega)
              | (rename_i x; have h1 := he (ind x); simp only [ind] at h1; omega)
              | (rename_i h1 h2; rw [h1.1]; simp)
  | a1 c => simp only [localStep]; good_close
  | a2 =>
    simp only [localStep]
    split
    · good_close
    · split <;> good_close
  | a3 => simp only [localStep]; good_close
  | b0 n =>
    simp only [localStep]
    split
    · good_close
    · split <;> good_close
  | b1 n => simp only [localStep]; good_close
  | r1 c => simp only [localStep]; good_close
  | r2 c => simp only [localStep]; good_close
  | f c => simp only [localStep]; good_close


theorem Inv.step {cfg : Cfg} {s : State} (h : Inv cfg s) (t : Nat) : Inv cfg (step cfg s t) := by
  unfold Arena.step
  cases ht : s.thr[t]? with
  | none => exact h
  | some th => exact h.apply t th ht _ (good_local cfg s t th)

theorem Inv.foldl {cfg : Cfg} (sched : List Nat) : ∀ {s : State}, Inv cfg s → Inv cfg (sched.foldl (Arena.step cfg) s) := by
  induction sched with
  | nil => intro s h; exact h
  | cons t l ih => intro s h; exact ih (h.step t)

theorem Inv.run (cfg : Cfg) (progs : List (List Op)) (sched : List Nat) : Inv cfg (run cfg progs sched) :=
  Inv.foldl sched (Inv.init cfg progs)

/-! ## consequences used by the property theorems -/

theorem tHeld_le_own (x : Nat) (th : Thread) : tHeld x th ≤ own (ind x) th := by
  simp only [tHeld, own]; omega

/-- in every state satisfying the invariant a chunk identifier is in at most one place -/
theorem Inv.places_le_one {cfg : Cfg} {s : State} (h : Inv cfg s) (x : Nat) : total (ind x) s ≤ 1 := by
  have := h.ghost (ind x)
  have := h.bornOne x
  omega

theorem Inv.held_le_one {cfg : Cfg} {s : State} (h : Inv cfg s) (x : Nat) : heldCnt x s ≤ 1 := by
  have := h.places_le_one x
  have := tsum_le (tHeld x) (own (ind x)) (tHeld_le_own x) s.thr
  simp only [total, heldCnt] at *
  omega

/-- the trace only grows (newest event first) -/
theorem trace_step (cfg : Cfg) (s : State) (t : Nat) : ∃ evs, (step cfg s t).trace = evs ++ s.trace := by
  unfold Arena.step
  cases s.thr[t]? with
  | none => exact ⟨[], rfl⟩
  | some th => exact ⟨_, rfl⟩

/-! ## sequential use: operations run one after the other -/

def pcRel (M : Nat) (r : Int) (n : Nat) : Pc → Prop
  | .a1 _ => r = n + 1 ∧ r ≤ M
  | .r1 _ => r = n ∧ r < M
  | .r2 _ => r = n + 1 ∧ r ≤ M
  | .idle => r = n ∧ r ≤ M
  | .a2 => r = n ∧ r ≤ M
  | .a3 => r = n ∧ r ≤ M
  | .b0 _ => r = n ∧ r ≤ M
  | .b1 _ => r = n ∧ r ≤ M
  | .f _ => r = n ∧ r ≤ M

def dist : Pc → Nat
  | .idle => 0 | .a1 _ => 1 | .a2 => 2 | .a3 => 1 | .b0 _ => 2 | .b1 _ => 1 | .r1 _ => 2 | .r2 _ => 1 | .f _ => 1

theorem seq_local (cfg : Cfg) (hne : cfg.maxRel ≠ INF) (s : State) (t : Nat) (th : Thread)
    (h : pcRel cfg.maxRel s.released s.cache.length th.pc) :
    pcRel cfg.maxRel (localStep cfg s t th).rel (localStep cfg s t th).cache.length (localStep cfg s t th).th.pc
    ∧ (dist (localStep cfg s t th).th.pc < dist th.pc ∨ (dist th.pc ≤ 0 ∧ dist (localStep cfg s t th).th.pc ≤ 2)) := by
  rcases th with ⟨pc, held, todo, out⟩
  rcases s with ⟨used, released, cache, mallocs, thr, born, died, trace⟩
  cases pc with
  | idle =>
    cases todo with
    | nil => simp only [localStep, base, pcRel, dist] at *; omega
    | cons op rest =>
      cases op with
      | alloc n =>
        match n with
        | 0 => simp only [localStep, base, fin, pcRel, dist] at *; omega
        | 1 =>
          simp only [localStep, idleAlloc1]
          cases cache with
          | nil =>
            simp only []
            split
            · simp only [base, pcRel, dist] at *; omega
            · split <;> simp only [base, mallocGot, mallocFail, fin, finGot, pcRel, dist] at * <;> omega
          | cons c rest' =>
            simp only []
            split
            · simp only [base, pcRel, dist, List.length_cons] at *; omega
            · contradiction
        | n + 2 =>
          simp only [localStep, idleAllocN]
          split
          · simp only [base, pcRel, dist] at *; omega
          · split <;> simp only [base, mallocGot, mallocFail, fin, finGot, pcRel, dist] at * <;> omega
      | release k =>
        simp only [localStep]
        cases hk : held[k]? with
        | none => simp only [base, fin, pcRel, dist] at *; omega
        | some c =>
          simp only [idleRelease]
          repeat' split
          all_goals first | contradiction | (simp only [base, fin, pcRel, dist] at *; omega)
  | a1 c => simp only [localStep, base, finGot, pcRel, dist] at *; omega
  | a2 =>
    simp only [localStep]
    split
    · simp only [base, pcRel, dist] at *; omega
    · split <;> simp only [base, mallocGot, mallocFail, fin, finGot, pcRel, dist] at * <;> omega
  | a3 => simp only [localStep, base, fin, pcRel, dist] at *; omega
  | b0 n =>
    simp only [localStep]
    split
    · simp only [base, pcRel, dist] at *; omega
    · split <;> simp only [base, mallocGot, mallocFail, fin, finGot, pcRel, dist] at * <;> omega
  | b1 n => simp only [localStep, base, fin, pcRel, dist] at *; omega
  | r1 c => simp only [localStep, base, pcRel, dist] at *; omega
  | r2 c => simp only [localStep, base, fin, pcRel, dist, List.length_cons] at *; omega
  | f c => simp only [localStep, base, fin, pcRel, dist] at *; omega

end ParsecVerif.Arena
