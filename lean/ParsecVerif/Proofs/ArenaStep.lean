/-
  Every micro step of the arena machine produces a `Good` delta; hence `Inv` holds in every reachable state.
-/
import ParsecVerif.Proofs.Arena

namespace ParsecVerif.Arena

macro "good_simp" : tactic => `(tactic|
  simp only [base, fin, finGot, mallocGot, mallocFail, own, pcChunks, tpend, pend, tC, tP, tD, mC, mP, mD, tOnes, pcOnes,
    ob, badRes, bad, tHeld, ind, cnt, gots, rels, csum_cons, csum_nil, List.map_cons, List.sum_cons, List.length_cons,
    badReq_self, Nat.add_zero, Nat.zero_add, List.map_nil, List.sum_nil, List.length_nil] at *)

macro "good_close" : tactic => `(tactic|
  (constructor <;> intros <;> (try good_simp) <;> (try simp) <;> (try omega)))

theorem good_base (cfg : Cfg) (s : State) (th th' : Thread) (hh : th'.held = th.held) (hp : th.pc = .idle) (hp' : th'.pc = .idle)
    (ho : ob th' ≤ ob th) : Good cfg s th (base s th') := by
  constructor <;> intros <;> simp only [base, own, hh, hp, hp', pcChunks, tpend, pend, tC, tP, tD, mC, mP, mD, tOnes, pcOnes,
    tHeld, gots, rels, csum_nil] <;> (try simp) <;> (try omega)


theorem good_local (cfg : Cfg) (s : State) (t : Nat) (th : Thread) : Good cfg s th (localStep cfg s t th) := by
  rcases th with ⟨pc, held, todo, out⟩
  rcases s with ⟨used, released, cache, mallocs, thr, born, died, trace⟩
  cases pc with
  | idle =>
    cases todo with
    | nil => simp only [localStep]; good_close
    | cons op rest =>
      cases op with
      | alloc n =>
        match n with
        | 0 => simp only [localStep]; good_close
        | 1 =>
          simp only [localStep, idleAlloc1]
          cases cache with
          | nil =>
            simp only []
            split
            · good_close
            · split <;> good_close
          | cons c rest' =>
            simp only []
            split <;> good_close
        | n + 2 =>
          simp only [localStep, idleAllocN]
          split
          · good_close
          · split <;> good_close
      | release k =>
        simp only [localStep]
        cases hk : held[k]? with
        | none => simp only []; good_close
        | some c =>
          simp only [idleRelease]
          have he := fun g => csum_eraseIdx g held k c hk
          have he1 := he cnt
          simp only [cnt] at he1
          split
          · split <;> good_close <;>
              first
              | (rename_i g; have h1 := he g; omega)
              | (rename_i x; have h1 := he (ind x); simp only [ind] at h1; omega)
              | (rename_i h1 h2; rw [h1.1]; simp)
          · split <;> good_close <;>
              first
              | (rename_i g; have h1 := he g; omega)
              | (rename_i x; have h1 := he (ind x); simp only [ind] at h1; omega)
              | (rename_i h1 h2; rw [h1.1]; simp)
  | a1 c => simp only [localStep]; good_close
  | a2 =>
    simp only [localStep]
    split
    · good_close
    · split <;> good_close
  | a3 => simp only [localStep]; good_close
  | b0 n =>
    simp only [localStep]
    split
    · good_close
    · split <;> good_close
  | b1 n => simp only [localStep]; good_close
  | r1 c => simp only [localStep]; good_close
  | r2 c => simp only [localStep]; good_close
  | f c => simp only [localStep]; good_close


theorem Inv.step {cfg : Cfg} {s : State} (h : Inv cfg s) (t : Nat) : Inv cfg (step cfg s t) := by
  unfold Arena.step
  cases ht : s.thr[t]? with
  | none => exact h
  | some th => exact h.apply t th ht _ (good_local cfg s t th)

theorem Inv.foldl {cfg : Cfg} (sched : List Nat) : ∀ {s : State}, Inv cfg s → Inv cfg (sched.foldl (Arena.step cfg) s) := by
  induction sched with
  | nil => intro s h; exact h
  | cons t l ih => intro s h; exact ih (h.step t)

theorem Inv.run (cfg : Cfg) (progs : List (List Op)) (sched : List Nat) : Inv cfg (run cfg progs sched) :=
  Inv.foldl sched (Inv.init cfg progs)

/-! ## consequences used by the property theorems -/

theorem tHeld_le_own (x : Nat) (th : Thread) : tHeld x th ≤ own (ind x) th := by
  simp only [tHeld, own]; omega

/-- in every state satisfying the invariant a chunk identifier is in at most one place -/
theorem Inv.places_le_one {cfg : Cfg} {s : State} (h : Inv cfg s) (x : Nat) : total (ind x) s ≤ 1 := by
  have := h.ghost (ind x)
  have := h.bornOne x
  omega

theorem Inv.held_le_one {cfg : Cfg} {s : State} (h : Inv cfg s) (x : Nat) : heldCnt x s ≤ 1 := by
  have := h.places_le_one x
  have := tsum_le (tHeld x) (own (ind x)) (tHeld_le_own x) s.thr
  simp only [total, heldCnt] at *
  omega

/-- the trace only grows (newest event first) -/
theorem trace_step (cfg : Cfg) (s : State) (t : Nat) : ∃ evs, (step cfg s t).trace = evs ++ s.trace := by
  unfold Arena.step
  cases s.thr[t]? with
  | none => exact ⟨[], rfl⟩
  | some th => exact ⟨_, rfl⟩

/-! ## sequential use: operations run one after the other -/

def pcRel (M : Nat) (r : Int) (n : Nat) : Pc → Prop
  | .a1 _ => r = n + 1 ∧ r ≤ M
  | .r1 _ => r = n ∧ r < M
  | .r2 _ => r = n + 1 ∧ r ≤ M
  | .idle => r = n ∧ r ≤ M
  | .a2 => r = n ∧ r ≤ M
  | .a3 => r = n ∧ r ≤ M
  | .b0 _ => r = n ∧ r ≤ M
  | .b1 _ => r = n ∧ r ≤ M
  | .f _ => r = n ∧ r ≤ M

def dist : Pc → Nat
  | .idle => 0 | .a1 _ => 1 | .a2 => 2 | .a3 => 1 | .b0 _ => 2 | .b1 _ => 1 | .r1 _ => 2 | .r2 _ => 1 | .f _ => 1

theorem seq_local (cfg : Cfg) (hne : cfg.maxRel ≠ INF) (s : State) (t : Nat) (th : Thread)
    (h : pcRel cfg.maxRel s.released s.cache.length th.pc) :
    pcRel cfg.maxRel (localStep cfg s t th).rel (localStep cfg s t th).cache.length (localStep cfg s t th).th.pc
    ∧ (dist (localStep cfg s t th).th.pc < dist th.pc ∨ (dist th.pc ≤ 0 ∧ dist (localStep cfg s t th).th.pc ≤ 2)) := by
  rcases th with ⟨pc, held, todo, out⟩
  rcases s with ⟨used, released, cache, mallocs, thr, born, died, trace⟩
  cases pc with
  | idle =>
    cases todo with
    | nil => simp only [localStep, base, pcRel, dist] at *; omega
    | cons op rest =>
      cases op with
      | alloc n =>
        match n with
        | 0 => simp only [localStep, base, fin, pcRel, dist] at *; omega
        | 1 =>
          simp only [localStep, idleAlloc1]
          cases cache with
          | nil =>
            simp only []
            split
            · simp only [base, pcRel, dist] at *; omega
            · split <;> simp only [base, mallocGot, mallocFail, fin, finGot, pcRel, dist] at * <;> omega
          | cons c rest' =>
            simp only []
            split
            · simp only [base, pcRel, dist, List.length_cons] at *; omega
            · contradiction
        | n + 2 =>
          simp only [localStep, idleAllocN]
          split
          · simp only [base, pcRel, dist] at *; omega
          · split <;> simp only [base, mallocGot, mallocFail, fin, finGot, pcRel, dist] at * <;> omega
      | release k =>
        simp only [localStep]
        cases hk : held[k]? with
        | none => simp only [base, fin, pcRel, dist] at *; omega
        | some c =>
          simp only [idleRelease]
          repeat' split
          all_goals first | contradiction | (simp only [base, fin, pcRel, dist] at *; omega)
  | a1 c => simp only [localStep, base, finGot, pcRel, dist] at *; omega
  | a2 =>
    simp only [localStep]
    split
    · simp only [base, pcRel, dist] at *; omega
    · split <;> simp only [base, mallocGot, mallocFail, fin, finGot, pcRel, dist] at * <;> omega
  | a3 => simp only [localStep, base, fin, pcRel, dist] at *; omega
  | b0 n =>
    simp only [localStep]
    split
    · simp only [base, pcRel, dist] at *; omega
    · split <;> simp only [base, mallocGot, mallocFail, fin, finGot, pcRel, dist] at * <;> omega
  | b1 n => simp only [localStep, base, fin, pcRel, dist] at *; omega
  | r1 c => simp only [localStep, base, pcRel, dist] at *; omega
  | r2 c => simp only [localStep, base, fin, pcRel, dist, List.length_cons] at *; omega
  | f c => simp only [localStep, base, fin, pcRel, dist] at *; omega


def curPc (s : State) (t : Nat) : Pc :=
  match s.thr[t]? with
  | some th => th.pc
  | none => .idle

theorem dist_zero {pc : Pc} (h : dist pc ≤ 0) : pc = .idle := by
  cases pc <;> simp [dist] at h ⊢

theorem isIdle_iff (s : State) (t : Nat) : isIdle s t = true ↔ curPc s t = .idle := by
  unfold isIdle curPc
  cases s.thr[t]? with
  | none => simp
  | some th => simp

/-- thread `t` is inside an operation (or idle), every other thread is between operations -/
structure SeqInv (cfg : Cfg) (s : State) (t : Nat) : Prop where
  others : ∀ (i : Nat) (th : Thread), i ≠ t → s.thr[i]? = some th → th.pc = .idle
  rel : pcRel cfg.maxRel s.released s.cache.length (curPc s t)

theorem SeqInv.step {cfg : Cfg} (hne : cfg.maxRel ≠ INF) {s : State} {t : Nat} (h : SeqInv cfg s t) :
    SeqInv cfg (step cfg s t) t ∧
    (dist (curPc (step cfg s t) t) < dist (curPc s t) ∨ (dist (curPc s t) ≤ 0 ∧ dist (curPc (step cfg s t) t) ≤ 2)) := by
  have hr := h.rel
  unfold Arena.step
  unfold curPc at hr
  cases ht : s.thr[t]? with
  | none =>
    simp only [ht] at hr
    refine ⟨h, Or.inr ?_⟩
    simp [curPc, ht, dist]
  | some th =>
    simp only [ht] at hr
    have hl := seq_local cfg hne s t th hr
    have htl : t < s.thr.length := by
      rcases List.getElem?_eq_some_iff.1 ht with ⟨h1, _⟩; exact h1
    have hnew : (Arena.apply s t (localStep cfg s t th)).thr[t]? = some (localStep cfg s t th).th := by
      simp [Arena.apply, htl]
    have hc1 : curPc (Arena.apply s t (localStep cfg s t th)) t = (localStep cfg s t th).th.pc := by
      simp [curPc, hnew]
    have hc0 : curPc s t = th.pc := by simp [curPc, ht]
    refine ⟨⟨?_, ?_⟩, ?_⟩
    · intro i thi hi hti
      have : (Arena.apply s t (localStep cfg s t th)).thr[i]? = s.thr[i]? := by
        simp [Arena.apply, List.getElem?_set_ne (Ne.symm hi)]
      rw [this] at hti
      exact h.others i thi hi hti
    · rw [hc1]; exact hl.1
    · rw [hc1, hc0]; exact hl.2

theorem SeqInv.finishOp {cfg : Cfg} (hne : cfg.maxRel ≠ INF) (t : Nat) :
    ∀ (k : Nat) (s : State), SeqInv cfg s t → dist (curPc s t) ≤ k →
      SeqInv cfg (finishOp cfg k s t) t ∧ curPc (finishOp cfg k s t) t = .idle := by
  intro k
  induction k with
  | zero => intro s h hd; exact ⟨h, dist_zero hd⟩
  | succ k ih =>
    intro s h hd
    unfold Arena.finishOp
    by_cases hi : isIdle s t = true
    · simp only [hi, if_true]; exact ⟨h, (isIdle_iff s t).1 hi⟩
    · simp only [hi]
      have hs := h.step hne
      have hpos : 0 < dist (curPc s t) := by
        rcases Nat.eq_zero_or_pos (dist (curPc s t)) with h0 | h0
        · exact absurd ((isIdle_iff s t).2 (dist_zero (by omega))) hi
        · exact h0
      exact ih _ hs.1 (by rcases hs.2 with h1 | h1 <;> omega)

/-- between operations: every thread idle, `released` = number of cached chunks ≤ max_released -/
structure Quiet (cfg : Cfg) (s : State) : Prop where
  idle : ∀ (i : Nat) (th : Thread), s.thr[i]? = some th → th.pc = .idle
  rel : s.released = s.cache.length ∧ s.released ≤ cfg.maxRel

theorem Quiet.doOp {cfg : Cfg} (hne : cfg.maxRel ≠ INF) {s : State} (h : Quiet cfg s) (t : Nat) : Quiet cfg (doOp cfg s t) := by
  have hc : curPc s t = .idle := by
    unfold curPc
    cases ht : s.thr[t]? with
    | none => rfl
    | some th => exact h.idle t th ht
  have h0 : SeqInv cfg s t := ⟨fun i th _ hi => h.idle i th hi, by rw [hc]; exact h.rel⟩
  have h1 := h0.step hne
  have hd : dist (curPc (step cfg s t) t) ≤ 3 := by
    have hz : dist Pc.idle = 0 := rfl
    rw [hc, hz] at h1; rcases h1.2 with h2 | h2 <;> omega
  have h2 := SeqInv.finishOp hne t 3 _ h1.1 hd
  unfold Arena.doOp
  refine ⟨fun i th hi => ?_, ?_⟩
  · by_cases hit : i = t
    · subst hit
      have := h2.2
      simp only [curPc, hi] at this
      exact this
    · exact h2.1.others i th hit hi
  · have := h2.1.rel
    rw [h2.2] at this
    exact this

theorem Quiet.init (cfg : Cfg) (progs : List (List Op)) : Quiet cfg (init progs) := by
  refine ⟨fun i th hi => ?_, ?_⟩
  · simp only [Arena.init, List.getElem?_map] at hi
    cases hp : progs[i]? with
    | none => simp [hp] at hi
    | some p => simp [hp] at hi; subst hi; rfl
  · simp [Arena.init]

theorem Quiet.runOps {cfg : Cfg} (hne : cfg.maxRel ≠ INF) (ts : List Nat) :
    ∀ {s : State}, Quiet cfg s → Quiet cfg (runOps cfg s ts) := by
  induction ts with
  | nil => intro s h; exact h
  | cons t l ih => intro s h; exact ih (h.doOp hne t)

/-- running whole operations is one particular schedule of micro steps -/
theorem finishOp_sched (cfg : Cfg) (t : Nat) : ∀ (k : Nat) (s : State), ∃ l : List Nat, finishOp cfg k s t = l.foldl (step cfg) s := by
  intro k
  induction k with
  | zero => intro s; exact ⟨[], rfl⟩
  | succ k ih =>
    intro s
    unfold Arena.finishOp
    by_cases hi : isIdle s t = true
    · exact ⟨[], by simp [hi]⟩
    · obtain ⟨l, hl⟩ := ih (step cfg s t)
      exact ⟨t :: l, by simp [hi, hl]⟩

theorem runOps_sched (cfg : Cfg) (ts : List Nat) : ∀ (s : State), ∃ l : List Nat, runOps cfg s ts = l.foldl (step cfg) s := by
  induction ts with
  | nil => intro s; exact ⟨[], rfl⟩
  | cons t r ih =>
    intro s
    obtain ⟨l1, h1⟩ := finishOp_sched cfg t 3 (step cfg s t)
    obtain ⟨l2, h2⟩ := ih (doOp cfg s t)
    refine ⟨t :: l1 ++ l2, ?_⟩
    simp only [Arena.runOps, List.foldl_cons, List.foldl_append] at *
    rw [h2]
    simp only [Arena.doOp, h1]

theorem length_step (cfg : Cfg) (s : State) (t : Nat) : (step cfg s t).thr.length = s.thr.length := by
  unfold Arena.step
  cases s.thr[t]? with
  | none => rfl
  | some th => simp [Arena.apply]

theorem length_run (cfg : Cfg) (progs : List (List Op)) (sched : List Nat) : (run cfg progs sched).thr.length = progs.length := by
  unfold Arena.run
  have : ∀ (l : List Nat) (s : State), (l.foldl (step cfg) s).thr.length = s.thr.length := by
    intro l
    induction l with
    | nil => intro s; rfl
    | cons t r ih => intro s; simp only [List.foldl_cons]; rw [ih, length_step]
  rw [this]; simp [Arena.init]

/-- a step appends at most one event -/
theorem evs_le_one (cfg : Cfg) (s : State) (t : Nat) (th : Thread) : (localStep cfg s t th).evs.length ≤ 1 := by
  rcases th with ⟨pc, held, todo, out⟩
  cases pc with
  | idle =>
    cases todo with
    | nil => simp [localStep, base]
    | cons op rest =>
      cases op with
      | alloc n =>
        match n with
        | 0 => simp [localStep, base]
        | 1 =>
          simp only [localStep, idleAlloc1]
          cases s.cache with
          | nil => simp only []; repeat' split
                   all_goals simp [base, mallocGot, mallocFail]
          | cons c r => simp only []; repeat' split
                        all_goals simp [base]
        | n + 2 =>
          simp only [localStep, idleAllocN]; repeat' split
          all_goals simp [base, mallocGot, mallocFail]
      | release k =>
        simp only [localStep]
        cases held[k]? with
        | none => simp [base]
        | some c => simp only [idleRelease]; repeat' split
                    all_goals simp [base]
  | a2 => simp only [localStep]; repeat' split
          all_goals simp [base, mallocGot, mallocFail]
  | b0 n => simp only [localStep]; repeat' split
            all_goals simp [base, mallocGot, mallocFail]
  | a1 c => simp [localStep, base]
  | a3 => simp [localStep, base]
  | b1 n => simp [localStep, base]
  | r1 c => simp [localStep, base]
  | r2 c => simp [localStep, base]
  | f c => simp [localStep, base]

theorem trace_step' (cfg : Cfg) (s : State) (t : Nat) :
    (step cfg s t).trace = s.trace ∨ ∃ e, (step cfg s t).trace = e :: s.trace := by
  unfold Arena.step
  cases s.thr[t]? with
  | none => exact Or.inl rfl
  | some th =>
    have := evs_le_one cfg s t th
    simp only [Arena.apply]
    cases h : (localStep cfg s t th).evs with
    | nil => exact Or.inl rfl
    | cons e r =>
      cases r with
      | nil => exact Or.inr ⟨e, rfl⟩
      | cons e' r' => simp [h] at this

end ParsecVerif.Arena
