import ParsecVerif.Proofs.CompoundInv3
/-! Every transition of the compound machine preserves the global invariant. -/
namespace ParsecVerif.Compound
open ParsecVerif.Context

theorem head?_get0 {l : List Nat} {m : Nat} (h : l.head? = some m) : l[0]? = some m := by
  cases l with
  | nil => simp at h
  | cons a t => simpa using h

theorem startupAdd_eff {s s' : St} {t q : Nat} (hs : step? s (.startupAdd t q) = some s') :
    ∃ tp : Tp, s.tps[q]? = some tp ∧ tp.st = .notAdded ∧ s'.tps = s.tps.set q { tp with st := .adding, by_ := t } := by
  simp only [step?] at hs
  split at hs
  · split at hs
    · rename_i _ _ _ tp _ htp hg; cases hs; exact ⟨tp, htp, hg, rfl⟩
    · cases hs
  · cases hs

theorem addCall_eff {s s' : St} {t q : Nat} (hs : step? s (.addCall t q) = some s') :
    ∃ tp : Tp, s.tps[q]? = some tp ∧ tp.st = .notAdded ∧ s'.tps = s.tps.set q { tp with st := .adding, by_ := t } := by
  simp only [step?] at hs
  split at hs
  · split at hs
    · rename_i tp htp hg; cases hs; exact ⟨tp, htp, hg.2, rfl⟩
    · cases hs
  · cases hs

theorem detect_eff {s s' : St} {t p : Nat} (hs : step? s (.detect t p) = some s') :
    ∃ tp : Tp, s.tps[p]? = some tp ∧ tp.st = .added ∧
      s'.tps = s.tps.set p { tp with st := .inCb, cbs := tp.cbs + 1, cbAt := s.clock, by_ := t } ∧ s'.clock = s.clock + 1 := by
  simp only [step?] at hs
  split at hs
  · split at hs
    · rename_i tp htp hg; cases hs; exact ⟨tp, htp, hg.2.2.1, rfl, rfl⟩
    · cases hs
  · cases hs

theorem startupReady_eff {s s' : St} {t n : Nat} (hs : step? s (.startupReady t n) = some s') :
    ∃ (q : Nat) (ts : Tp), s.subs[t]? = some (.startup q) ∧ s.tps[q]? = some ts ∧ ts.st = .added ∧
      s'.tps = s.tps.set q { ts with ready := true, pend := ts.pend + n } ∧ s'.subs = s.subs := by
  simp only [step?] at hs
  split at hs
  · split at hs
    · split at hs
      · rename_i q hsu _ ts hts hg; cases hs; exact ⟨q, ts, hsu, hts, hg.1, rfl, rfl⟩
      · cases hs
    · cases hs
  · cases hs

theorem actionDone_eff {s s' : St} {t q : Nat} (hs : step? s (.actionDone t q) = some s') :
    ∃ ts : Tp, s.tps[q]? = some ts ∧ ts.st = .added ∧ 0 < ts.pend ∧ s'.clock = s.clock + 1 ∧
      ((ts.ready = true ∧ ts.pend = 1 ∧ ts.ended = ts.total ∧ ts.started = ts.total ∧
          s'.tps = s.tps.set q { ts with pend := 0, st := .inCbN, cbs := ts.cbs + 1, cbAt := s.clock, by_ := t }) ∨
       (¬ (ts.ready = true ∧ ts.pend = 1 ∧ ts.ended = ts.total ∧ ts.started = ts.total) ∧
          s'.tps = s.tps.set q { ts with pend := ts.pend - 1 })) := by
  simp only [step?] at hs
  split at hs
  · split at hs
    · rename_i _ _ _ ts _ _ hts hg
      split at hs
      · rename_i hf; cases hs; exact ⟨ts, hts, hg.1, hg.2, rfl, Or.inl ⟨hf.1, hf.2.1, hf.2.2.1, hf.2.2.2, rfl⟩⟩
      · rename_i hf; cases hs; exact ⟨ts, hts, hg.1, hg.2, rfl, Or.inr ⟨hf, rfl⟩⟩
    · cases hs
  · cases hs

theorem self_ne_of_ne {comps : List Comp} (hn : (allSelfs comps).Nodup) {i j : Nat} {c c' : Comp}
    (hc : comps[i]? = some c) (hc' : comps[j]? = some c') (hij : i ≠ j) : c.self ≠ c'.self := by
  intro e
  have h1 : (allSelfs comps)[i]? = some c.self := by simp [allSelfs, List.getElem?_map, hc]
  have h2 : (allSelfs comps)[j]? = some c.self := by simp [allSelfs, List.getElem?_map, hc', e]
  exact hij (nodup_get_inj hn h1 h2)

theorem allSelfs_set {comps : List Comp} {i : Nat} {c c' : Comp} (hc : comps[i]? = some c) (hm : c'.self = c.self) :
    allSelfs (comps.set i c') = allSelfs comps := by
  induction comps generalizing i with
  | nil => simp at hc
  | cons a t ih =>
    cases i with
    | zero => simp at hc; subst hc; simp [allSelfs, hm]
    | succ i =>
      simp at hc
      have := ih hc
      simp only [allSelfs, List.set_cons_succ, List.map_cons] at this ⊢
      rw [this]

theorem mem_set_comp {comps : List Comp} {i : Nat} {c' x : Comp} (hx : x ∈ comps.set i c') : x = c' ∨ x ∈ comps := by
  rcases List.mem_or_eq_of_mem_set hx with h | h
  · exact Or.inr h
  · exact Or.inl h

theorem set_same {α} {l : List α} {i : Nat} {a : α} (h : l[i]? = some a) : l.set i a = l := by
  obtain ⟨hi, ha⟩ := List.getElem?_eq_some_iff.1 h
  rw [← ha]; exact List.set_getElem_self hi

/-- static parts of the global invariant when one compound record changes its counters only -/
theorem gi_static {cs : CSt} (h : GI cs) {c0 : Nat} {comp comp' : Comp} (hcomp : cs.comps[c0]? = some comp)
    (hm : comp'.members = comp.members) (hs : comp'.self = comp.self) :
    (allMembers (cs.comps.set c0 comp')).Nodup ∧ (allSelfs (cs.comps.set c0 comp')).Nodup ∧
    ∀ c ∈ cs.comps.set c0 comp', c.self ∉ c.members := by
  refine ⟨by rw [allMembers_set hcomp hm]; exact h.nodup, by rw [allSelfs_set hcomp hs]; exact h.snodup, ?_⟩
  intro x hx
  rcases mem_set_comp hx with rfl | hx
  · rw [hs, hm]; exact h.sown comp (List.mem_of_getElem? hcomp)
  · exact h.sown x hx

theorem gi_startup {cs cs' : CSt} {t c0 : Nat} (h : GI cs) (hs : cstep? cs (.startup t c0) = some cs') : GI cs' := by
  simp only [cstep?] at hs
  split at hs
  · rename_i comp hcomp
    split at hs
    · rename_i m0 hm0
      split at hs
      · rename_i hsub
        split at hs
        · rename_i s1 hs1
          cases hst : step? s1 (.startupAdd t m0) with
          | none => rw [hst] at hs; cases hs
          | some s' =>
            rw [hst] at hs; cases hs
            obtain ⟨q, ts, hsu, hts, htsst, hset1, hsubs1⟩ := startupReady_eff hs1
            have hq : q = comp.self := by rw [hsub] at hsu; cases hsu; rfl
            subst hq
            obtain ⟨tp, htp1, htps, hset⟩ := startupAdd_eff hst
            have hi1 := inv_step h.inv hs1
            have hS1 := sinv_step h.inv h.sinv hs1
            have h0 := head?_get0 hm0
            have hm0mem : m0 ∈ comp.members := List.mem_of_getElem? h0
            have hcm : comp ∈ cs.comps := List.mem_of_getElem? hcomp
            have hnself : comp.self ∉ comp.members := h.sown comp hcm
            have hsm0 : m0 ≠ comp.self := fun e => hnself (e ▸ hm0mem)
            have htp : cs.base.tps[m0]? = some tp := by
              rw [hset1, get_set_tp _ _ _ _ _ hts, if_neg hsm0] at htp1; exact htp1
            have hci0 := h.ci c0 comp hcomp
            have hcs0 := h.cself c0 comp hcomp
            obtain ⟨g1, g2, g3⟩ := gi_static h hcomp (comp' := { comp with pending := comp.members.length }) rfl rfl
            -- every other compound: two context steps
            have hoth : ∀ (i : Nat) (c : Comp), c0 ≠ i → cs.comps[i]? = some c → CI s'.tps c ∧ CS s'.tps c := by
              intro i c hic hc
              have hcmi : c ∈ cs.comps := List.mem_of_getElem? hc
              have hsne : comp.self ≠ c.self := self_ne_of_ne h.snodup hcomp hc hic
              have k1 := cics_step (c := c) h.inv h.sinv hs1 (h.ci i c hc) (h.cself i c hc) (nodup_members h.nodup hc) (h.sown c hcmi)
                (by intro t' p e; cases e) (by intro t' p e; rcases e with e | e <;> cases e) (by intro t' e; cases e)
                (by intro t' n e; cases e; rw [hsub]; intro e'; simp at e'; exact hsne e')
                (by intro t' e; cases e) (by intro t' r q e; cases e)
              exact cics_step (c := c) hi1 hS1 hst k1.1 k1.2 (nodup_members h.nodup hc) (h.sown c hcmi)
                (by intro t' p e; cases e)
                (by intro t' p e; rcases e with e | e
                    · cases e
                    · cases e; exact members_disjoint h.nodup hcomp hc hic hm0mem)
                (by intro t' e; cases e) (by intro t' n e; cases e) (by intro t' e; cases e) (by intro t' r q e; cases e)
            refine ⟨inv_step hi1 hst, sinv_step hi1 hS1 hst, g1, g2, g3, ?_, ?_⟩
            · intro i c hc
              show CI s'.tps c
              by_cases hic : c0 = i
              · subst hic
                rw [List.getElem?_set_self (List.getElem?_eq_some_iff.1 hcomp).1] at hc
                cases hc
                rw [hset, hset1]
                have hci1 : CI (cs.base.tps.set comp.self { ts with ready := true, pend := ts.pend + comp.members.length }) comp :=
                  ci_set_frame hci0 hts rfl (Or.inl hnself)
                exact ci_startup hci1 (nodup_members h.nodup hcomp) h0 (by rw [← hset1]; exact htp1) htps ⟨rfl, rfl, rfl, rfl⟩
              · rw [List.getElem?_set_ne hic] at hc
                exact (hoth i c hic hc).1
            · intro i c hc
              show CS s'.tps c
              by_cases hic : c0 = i
              · subst hic
                rw [List.getElem?_set_self (List.getElem?_eq_some_iff.1 hcomp).1] at hc
                cases hc
                obtain ⟨ts0, hts0, a0, ae, ass, ap, a1, a2, a3, a4, a5⟩ := hcs0.ex
                rw [hts] at hts0; cases hts0
                obtain ⟨y, hy, _, b2, _, b4⟩ := hci0.mem 0 m0 h0
                rw [htp] at hy; cases hy
                have hc0 : comp.completed = 0 := by
                  rcases Nat.eq_zero_or_pos comp.completed with e | e
                  · exact e
                  · rcases b2 e with e' | e' | e' <;> rw [htps] at e' <;> cases e'
                have hp0 : comp.pending = 0 := ((b4 hc0.symm).2.1 htps).2
                have hlook : s'.tps[comp.self]? = some { ts with ready := true, pend := ts.pend + comp.members.length } := by
                  rw [hset, get_set_tp _ _ _ _ _ htp1, if_neg (fun e => hsm0 e.symm), hset1]
                  exact List.getElem?_set_self (List.getElem?_eq_some_iff.1 hts).1
                refine ⟨hcs0.ne, _, hlook, a0, ae, Or.inr (Or.inr (Or.inl htsst)), ?_, fun _ => ⟨htsst, rfl⟩, ?_, ?_, ?_, ?_⟩
                · simp only []; rw [hp0] at ap; push_cast; omega
                · intro e; simp only [] at e; have := hcs0.ne; omega
                · intro _; exact a3 (by have := hcs0.ne; omega)
                · intro hcb; simp only [] at hcb
                  exact absurd (a3 (by have := hcs0.ne; omega)).1 hcb
                · intro m tm hm htm hne
                  simp only [] at hm
                  rw [hset, get_set_tp _ _ _ _ _ htp1] at htm
                  by_cases hmm : m = m0
                  · rw [if_pos hmm] at htm; cases htm
                    simp only [] at hne ⊢
                    exact a5 m0 tp hm0mem htp hne
                  · rw [if_neg hmm, hset1, get_set_tp _ _ _ _ _ hts,
                        if_neg (fun (e : m = comp.self) => hnself (e ▸ hm))] at htm
                    exact a5 m tm hm htm hne
              · rw [List.getElem?_set_ne hic] at hc
                exact (hoth i c hic hc).2
        · cases hs
      · cases hs
    · cases hs
  · cases hs

/-- the member at position `completed` of compound c0 has completed (its descriptor x1 is in or past its callback):
    the compound's bookkeeping — completed += 1, release of one pending action of the compound object (the last
    release detects the compound's own termination, nested), and the enabling of the next member if some remain -/
theorem gi_advance {cs : CSt} {s1 s2 : St} {t c0 m : Nat} {comp : Comp} {tp x1 : Tp} (h : GI cs)
    (hcomp : cs.comps[c0]? = some comp) (hk : comp.members[comp.completed]? = some m)
    (htp : cs.base.tps[m]? = some tp) (hnn : tp.st ≠ .notAdded)
    (hx1 : (x1.st = .inCb ∨ x1.st = .inCbN) ∧ x1.addAt = tp.addAt ∧ x1.early = tp.early)
    (hset1 : s1.tps = cs.base.tps.set m x1) (hi1 : Inv s1) (hS1 : SInv s1) (hclk1 : cs.base.clock ≤ s1.clock)
    (hx1cb : x1.cbAt ≠ 0 ∧ x1.cbAt < s1.clock)
    (hoth1 : ∀ (i : Nat) (c : Comp), c0 ≠ i → cs.comps[i]? = some c → CI s1.tps c ∧ CS s1.tps c)
    (hs2 : step? s1 (.actionDone t comp.self) = some s2) (cs' : CSt)
    (hfin : (comp.pending - 1 > 0 ∧ ∃ (nx : Nat) (s3 : St), comp.members[comp.completed + 1]? = some nx ∧
              step? s2 (.addCall t nx) = some s3 ∧
              cs' = { base := s3, comps := cs.comps.set c0 { comp with completed := comp.completed + 1, pending := comp.pending - 1 } }) ∨
            (¬ comp.pending - 1 > 0 ∧
              cs' = { base := s2, comps := cs.comps.set c0 { comp with completed := comp.completed + 1, pending := comp.pending - 1 } })) :
    GI cs' := by
  obtain ⟨ts1, hts1, _, hpos, hclk2, hbr⟩ := actionDone_eff hs2
  have hi2 := inv_step hi1 hs2
  have hS2 := sinv_step hi1 hS1 hs2
  have hci0 := h.ci c0 comp hcomp
  have hcs0 := h.cself c0 comp hcomp
  have hnd := nodup_members h.nodup hcomp
  have hcm : comp ∈ cs.comps := List.mem_of_getElem? hcomp
  have hnself : comp.self ∉ comp.members := h.sown comp hcm
  have hmmem : m ∈ comp.members := List.mem_of_getElem? hk
  have hms : m ≠ comp.self := fun e => hnself (e ▸ hmmem)
  obtain ⟨ts, hts, a0, ae, ass, ap, a1, a2, a3, a4, a5⟩ := hcs0.ex
  have hts1' : ts1 = ts := by
    rw [hset1, get_set_tp _ _ _ _ _ htp, if_neg (fun e => hms e.symm), hts] at hts1; cases hts1; rfl
  subst hts1'
  have hts1s : s1.tps[comp.self]? = some ts1 := hts1
  have hlt : comp.completed < comp.members.length := (List.getElem?_eq_some_iff.1 hk).1
  have hpend : comp.pending = (comp.members.length : Int) - comp.completed := by
    obtain ⟨y, hy, _, _, _, b4⟩ := hci0.mem _ m hk
    rw [htp] at hy; cases hy
    exact (b4 rfl).2.2 hnn
  have hcnt := hi1.taskCnt comp.self ts1 hts1s
  have hst0 : ts1.started = 0 ∧ ts1.ended = 0 := by omega
  have hpp : (0 : Int) < comp.pending := by omega
  obtain ⟨hadded, hready⟩ := a1 hpp
  have hclk := h.sinv.clk
  have hcomm : ∀ y : Tp, (cs.base.tps.set m x1).set comp.self y = (cs.base.tps.set comp.self y).set m x1 :=
    fun y => List.set_comm _ _ hms
  obtain ⟨g1, g2, g3⟩ := gi_static h hcomp
    (comp' := { comp with completed := comp.completed + 1, pending := comp.pending - 1 }) rfl rfl
  -- other compounds: the release on the compound object (it may be a member of one of them: nested termination)
  have hoth2 : ∀ (i : Nat) (c : Comp), c0 ≠ i → cs.comps[i]? = some c → CI s2.tps c ∧ CS s2.tps c := by
    intro i c hic hc
    have hcmi : c ∈ cs.comps := List.mem_of_getElem? hc
    have hsne : comp.self ≠ c.self := self_ne_of_ne h.snodup hcomp hc hic
    obtain ⟨k1, k2⟩ := hoth1 i c hic hc
    exact cics_step (c := c) hi1 hS1 hs2 k1 k2 (nodup_members h.nodup hc) (h.sown c hcmi)
      (by intro t' p e; cases e) (by intro t' p e; rcases e with e | e <;> cases e)
      (by intro t' e; injection e with _ e2; exact hsne e2) (by intro t' n e; cases e) (by intro t' e; cases e)
      (by intro t' r q e; cases e)
  rcases hfin with ⟨hp, nx, s3, hnx, hs3, rfl⟩ | ⟨hp, rfl⟩
  · -- some remain
    obtain ⟨tn, htn, htnst, hset3⟩ := addCall_eff hs3
    have hnxmem : nx ∈ comp.members := List.mem_of_getElem? hnx
    have hnxs : nx ≠ comp.self := fun e => hnself (e ▸ hnxmem)
    have hset2 : s2.tps = s1.tps.set comp.self { ts1 with pend := ts1.pend - 1 } := by
      rcases hbr with ⟨_, hp1, _, _, _⟩ | ⟨_, e⟩
      · omega
      · exact e
    have hl3 : s3.tps = ((cs.base.tps.set comp.self { ts1 with pend := ts1.pend - 1 }).set m x1).set nx { tn with st := .adding, by_ := t } := by
      rw [hset3, hset2, hset1, hcomm]
    have hoth3 : ∀ (i : Nat) (c : Comp), c0 ≠ i → cs.comps[i]? = some c → CI s3.tps c ∧ CS s3.tps c := by
      intro i c hic hc
      have hcmi : c ∈ cs.comps := List.mem_of_getElem? hc
      obtain ⟨k1, k2⟩ := hoth2 i c hic hc
      exact cics_step (c := c) hi2 hS2 hs3 k1 k2 (nodup_members h.nodup hc) (h.sown c hcmi)
        (by intro t' p e; cases e)
        (by intro t' p e; rcases e with e | e
            · cases e; exact members_disjoint h.nodup hcomp hc hic hnxmem
            · cases e)
        (by intro t' e; cases e) (by intro t' n e; cases e) (by intro t' e; cases e) (by intro t' r q e; cases e)
    refine ⟨inv_step hi2 hs3, sinv_step hi2 hS2 hs3, g1, g2, g3, ?_, ?_⟩
    · intro i c hc
      show CI s3.tps c
      by_cases hic : c0 = i
      · subst hic
        rw [List.getElem?_set_self (List.getElem?_eq_some_iff.1 hcomp).1] at hc
        cases hc
        rw [hl3]
        have hci1 : CI (cs.base.tps.set comp.self { ts1 with pend := ts1.pend - 1 }) comp :=
          ci_set_frame hci0 hts rfl (Or.inl hnself)
        have hS0 : ∀ y ∈ cs.base.tps.set comp.self { ts1 with pend := ts1.pend - 1 }, tpOK cs.base.clock y := by
          intro y hy
          rcases List.mem_or_eq_of_mem_set hy with hy | hy
          · exact h.sinv.tpok y hy
          · subst hy
            have := h.sinv.tpok ts1 (List.mem_of_getElem? hts)
            simpa only [tpOK] using this
        have htp0 : (cs.base.tps.set comp.self { ts1 with pend := ts1.pend - 1 })[m]? = some tp := by
          rw [get_set_tp _ _ _ _ _ hts, if_neg hms]; exact htp
        refine ci_memberCb (x1 := x1) hci1 hnd hS0 hk htp0 hnn hx1 _
          (Or.inr ⟨hp, nx, tn, { tn with st := .adding, by_ := t }, hnx, ?_, htnst, rfl, rfl, rfl, rfl, rfl⟩)
        rw [← hcomm, ← hset1, ← hset2]; exact htn
      · rw [List.getElem?_set_ne hic] at hc
        exact (hoth3 i c hic hc).1
    · intro i c hc
      show CS s3.tps c
      by_cases hic : c0 = i
      · subst hic
        rw [List.getElem?_set_self (List.getElem?_eq_some_iff.1 hcomp).1] at hc
        cases hc
        have hnxl : comp.completed + 1 < comp.members.length := (List.getElem?_eq_some_iff.1 hnx).1
        have hlook : s3.tps[comp.self]? = some { ts1 with pend := ts1.pend - 1 } := by
          rw [hset3, get_set_tp _ _ _ _ _ htn, if_neg (fun e => hnxs e.symm), hset2]
          exact List.getElem?_set_self (List.getElem?_eq_some_iff.1 hts1s).1
        refine ⟨hcs0.ne, _, hlook, a0, ae, ass, ?_, fun _ => ⟨hadded, hready⟩, ?_, ?_, ?_, ?_⟩
        · simp only []; omega
        · intro e; simp only [] at e; omega
        · intro _; exact a3 hlt
        · intro hcb; simp only [] at hcb; exact absurd (a3 hlt).1 hcb
        · intro mm tm hmm htm hne
          simp only [] at hmm ⊢
          rw [hl3, get_set_tp _ _ _ _ _ (by rw [← hcomm, ← hset1, ← hset2]; exact htn)] at htm
          by_cases e1 : mm = nx
          · rw [if_pos e1] at htm; cases htm
            simp only [] at hne
            exact a5 nx tn hnxmem (by
              rw [hset2, get_set_tp _ _ _ _ _ hts1s, if_neg hnxs, hset1, get_set_tp _ _ _ _ _ htp] at htn
              by_cases e2 : nx = m
              · rw [if_pos e2] at htn; cases htn
                exact absurd htnst (by rcases hx1.1 with e | e <;> rw [e] <;> simp)
              · rw [if_neg e2] at htn; exact htn) hne
          · have hmmtp : (cs.base.tps.set comp.self { ts1 with pend := ts1.pend - 1 })[m]? = some tp := by
              rw [get_set_tp _ _ _ _ _ hts, if_neg hms]; exact htp
            rw [if_neg e1, get_set_tp _ _ _ _ _ hmmtp] at htm
            by_cases e2 : mm = m
            · rw [if_pos e2] at htm; cases htm
              rw [hx1.2.1] at hne ⊢
              exact a5 m tp hmmem htp hne
            · rw [if_neg e2, get_set_tp _ _ _ _ _ hts, if_neg (fun (e : mm = comp.self) => hnself (e ▸ hmm))] at htm
              exact a5 mm tm hmm htm hne
      · rw [List.getElem?_set_ne hic] at hc
        exact (hoth3 i c hic hc).2
  · -- the last member: the compound terminates, nested in this callback
    have hn : comp.completed + 1 = comp.members.length := by omega
    have hp1 : ts1.pend = 1 := by omega
    have hset2 : s2.tps = s1.tps.set comp.self { ts1 with pend := 0, st := .inCbN, cbs := ts1.cbs + 1, cbAt := s1.clock, by_ := t } := by
      rcases hbr with ⟨_, _, _, _, e⟩ | ⟨hno, _⟩
      · exact e
      · exact absurd ⟨hready, hp1, by omega, by omega⟩ hno
    have hl2 : s2.tps = (cs.base.tps.set comp.self { ts1 with pend := 0, st := .inCbN, cbs := ts1.cbs + 1, cbAt := s1.clock, by_ := t }).set m x1 := by
      rw [hset2, hset1, hcomm]
    have hlookF : s2.tps[comp.self]? = some { ts1 with pend := 0, st := .inCbN, cbs := ts1.cbs + 1, cbAt := s1.clock, by_ := t } := by
      rw [hset2]; exact List.getElem?_set_self (List.getElem?_eq_some_iff.1 hts1s).1
    refine ⟨hi2, hS2, g1, g2, g3, ?_, ?_⟩
    · intro i c hc
      show CI s2.tps c
      by_cases hic : c0 = i
      · subst hic
        rw [List.getElem?_set_self (List.getElem?_eq_some_iff.1 hcomp).1] at hc
        cases hc
        rw [hl2]
        have hci1 : CI (cs.base.tps.set comp.self { ts1 with pend := 0, st := .inCbN, cbs := ts1.cbs + 1, cbAt := s1.clock, by_ := t }) comp :=
          ci_set_frame hci0 hts rfl (Or.inl hnself)
        have hS0 : ∀ y ∈ cs.base.tps.set comp.self { ts1 with pend := 0, st := .inCbN, cbs := ts1.cbs + 1, cbAt := s1.clock, by_ := t },
            tpOK s2.clock y := by
          intro y hy
          rcases List.mem_or_eq_of_mem_set hy with hy | hy
          · exact tpOK_mono (h.sinv.tpok y hy) (by omega)
          · subst hy; exact hS2.tpok _ (List.mem_of_getElem? hlookF)
        have htp0 : (cs.base.tps.set comp.self { ts1 with pend := 0, st := .inCbN, cbs := ts1.cbs + 1, cbAt := s1.clock, by_ := t })[m]? = some tp := by
          rw [get_set_tp _ _ _ _ _ hts, if_neg hms]; exact htp
        exact ci_memberCb (x1 := x1) hci1 hnd hS0 hk htp0 hnn hx1 _ (Or.inl ⟨by omega, rfl⟩)
      · rw [List.getElem?_set_ne hic] at hc
        exact (hoth2 i c hic hc).1
    · intro i c hc
      show CS s2.tps c
      by_cases hic : c0 = i
      · subst hic
        rw [List.getElem?_set_self (List.getElem?_eq_some_iff.1 hcomp).1] at hc
        cases hc
        refine ⟨hcs0.ne, _, hlookF, a0, ae, Or.inr (Or.inr (Or.inr (Or.inl rfl))), ?_, ?_, fun _ => Or.inl rfl, ?_, ?_, ?_⟩
        · simp only []; omega
        · intro e; simp only [] at e; omega
        · intro e; simp only [] at e; omega
        · intro _ ml tl hml htl
          simp only [] at hml
          have hidx : comp.members.length - 1 = comp.completed := by omega
          rw [hidx, hk] at hml; cases hml
          rw [hl2, List.getElem?_set_self (by
            rw [List.length_set]; exact (List.getElem?_eq_some_iff.1 htp).1)] at htl
          cases htl
          simp only []
          exact hx1cb
        · intro mm tm hmm htm hne
          simp only [] at hmm ⊢
          have hmmtp : (cs.base.tps.set comp.self { ts1 with pend := 0, st := .inCbN, cbs := ts1.cbs + 1, cbAt := s1.clock, by_ := t })[m]? = some tp := by
            rw [get_set_tp _ _ _ _ _ hts, if_neg hms]; exact htp
          rw [hl2, get_set_tp _ _ _ _ _ hmmtp] at htm
          by_cases e2 : mm = m
          · rw [if_pos e2] at htm; cases htm
            rw [hx1.2.1] at hne ⊢
            exact a5 m tp hmmem htp hne
          · rw [if_neg e2, get_set_tp _ _ _ _ _ hts, if_neg (fun (e : mm = comp.self) => hnself (e ▸ hmm))] at htm
            exact a5 mm tm hmm htm hne
      · rw [List.getElem?_set_ne hic] at hc
        exact (hoth2 i c hic hc).2

theorem gi_memberCb {cs cs' : CSt} {t c0 m : Nat} (h : GI cs) (hs : cstep? cs (.memberCb t c0 m) = some cs') : GI cs' := by
  simp only [cstep?] at hs
  split at hs
  · rename_i comp hcomp
    split at hs
    · rename_i hmem
      simp only [Bool.and_eq_true, Bool.not_eq_true', List.contains_eq_mem, decide_eq_true_eq, decide_eq_false_iff_not] at hmem
      obtain ⟨hmmem, hmleaf⟩ := hmem
      split at hs
      · rename_i s1 hs1
        split at hs
        · rename_i s2 hs2
          obtain ⟨tp, htp, htpst, hset1, hclk1⟩ := detect_eff hs1
          have hi1 := inv_step h.inv hs1
          have hS1 := sinv_step h.inv h.sinv hs1
          obtain ⟨kk, hkl, hkget⟩ := List.getElem_of_mem hmmem
          have hk0 : comp.members[kk]? = some m := by rw [List.getElem?_eq_getElem hkl, hkget]
          obtain ⟨hkc, _, _⟩ := added_pos (h.ci c0 comp hcomp) hk0 htp htpst
          have hk : comp.members[comp.completed]? = some m := hkc ▸ hk0
          have hclk := h.sinv.clk
          have hoth1 : ∀ (i : Nat) (c : Comp), c0 ≠ i → cs.comps[i]? = some c → CI s1.tps c ∧ CS s1.tps c := by
            intro i c hic hc
            have hcmi : c ∈ cs.comps := List.mem_of_getElem? hc
            exact cics_step (c := c) h.inv h.sinv hs1 (h.ci i c hc) (h.cself i c hc) (nodup_members h.nodup hc) (h.sown c hcmi)
              (by intro t' p e; cases e
                  exact ⟨members_disjoint h.nodup hcomp hc hic hmmem, fun e => hmleaf (e ▸ mem_allSelfs hc)⟩)
              (by intro t' p e; rcases e with e | e <;> cases e) (by intro t' e; cases e) (by intro t' n e; cases e)
              (by intro t' e; cases e) (by intro t' r q e; cases e)
          refine gi_advance (x1 := { tp with st := .inCb, cbs := tp.cbs + 1, cbAt := cs.base.clock, by_ := t }) h hcomp hk htp
            (by rw [htpst]; simp) ⟨Or.inl rfl, rfl, rfl⟩ hset1 hi1 hS1 (by omega) ⟨by simp only []; omega, by simp only []; omega⟩ hoth1 hs2 cs' ?_
          split at hs
          · rename_i hp
            split at hs
            · rename_i nx hnx
              cases hs3 : step? s2 (.addCall t nx) with
              | none => rw [hs3] at hs; cases hs
              | some s3 => rw [hs3] at hs; cases hs; exact Or.inl ⟨hp, nx, s3, hnx, hs3, rfl⟩
            · cases hs
          · rename_i hp; cases hs; exact Or.inr ⟨hp, rfl⟩
        · cases hs
      · cases hs
    · cases hs
  · cases hs

theorem gi_compCb {cs cs' : CSt} {t p c : Nat} (h : GI cs) (hs : cstep? cs (.compCb t p c) = some cs') : GI cs' := by
  simp only [cstep?] at hs
  split at hs
  · rename_i par ch hpar hch
    split at hs
    · rename_i hg
      obtain ⟨hk, hhead, _⟩ := hg
      split at hs
      · rename_i s2 hs2
        -- the nested compound's descriptor is on top of the thread's nested stack: state inCbN
        obtain ⟨l, hl, hq⟩ : ∃ l, cs.base.nests[t]? = some l ∧ ch.self ∈ l := by
          cases hn : cs.base.nests[t]? with
          | none => rw [hn] at hhead; simp at hhead
          | some l =>
            rw [hn] at hhead
            cases l with
            | nil => simp at hhead
            | cons a r => simp at hhead; subst hhead; exact ⟨_, rfl, List.mem_cons_self⟩
        obtain ⟨tp, htp, htpst, _⟩ := h.inv.nFwd t l ch.self hl hq
        have hok := h.sinv.tpok tp (List.mem_of_getElem? htp)
        simp only [tpOK, htpst] at hok
        refine gi_advance (x1 := tp) (s1 := cs.base) h hpar hk htp (by rw [htpst]; simp) ⟨Or.inr htpst, rfl, rfl⟩
          (set_same htp).symm h.inv h.sinv (Nat.le_refl _) ⟨by omega, by omega⟩
          (fun i c' _ hc' => ⟨h.ci i c' hc', h.cself i c' hc'⟩) hs2 cs' ?_
        split at hs
        · rename_i hp
          split at hs
          · rename_i nx hnx
            cases hs3 : step? s2 (.addCall t nx) with
            | none => rw [hs3] at hs; cases hs
            | some s3 => rw [hs3] at hs; cases hs; exact Or.inl ⟨hp, nx, s3, hnx, hs3, rfl⟩
          · cases hs
        · rename_i hp; cases hs; exact Or.inr ⟨hp, rfl⟩
      · cases hs
    · cases hs
  · cases hs

theorem gi_cstep {cs cs' : CSt} {tr : CTr} (h : GI cs) (hs : cstep? cs tr = some cs') : GI cs' := by
  cases tr with
  | ctx tr =>
    simp only [cstep?] at hs
    split at hs
    · rename_i ha
      cases hst : step? cs.base tr with
      | none => rw [hst] at hs; cases hs
      | some s' => rw [hst] at hs; cases hs; exact gi_ctx h ha hst
    · cases hs
  | startup t c0 => exact gi_startup h hs
  | memberCb t c0 m => exact gi_memberCb h hs
  | compCb t p c => exact gi_compCb h hs

theorem gi_cstep' {cs : CSt} (tr : CTr) (h : GI cs) : GI (cstep cs tr) := by
  unfold cstep
  cases hs : cstep? cs tr with
  | none => exact h
  | some cs' => exact gi_cstep h hs

theorem gi_init (k : Nat) (tps : List Tp) (comps : List Comp) (hwf : WF tps comps) : GI (cinit k tps comps) := by
  obtain ⟨hnd, hsnd, hc, hf⟩ := hwf
  have hfresh : ∀ (m : Nat) (tp : Tp), tps[m]? = some tp → tp.fresh := fun m tp htp => hf tp (List.mem_of_getElem? htp)
  refine ⟨inv_init k tps hf, sinv_init k tps hf, hnd, hsnd, fun c hcm => (hc c hcm).2.2.2.1, ?_, ?_⟩
  · intro i c hci
    obtain ⟨h1, h2, h3, _, _, h6⟩ := hc c (List.mem_of_getElem? hci)
    refine ⟨by omega, ?_, ?_, ?_⟩
    · intro j m hm
      obtain ⟨tp, htp, he⟩ := h6 m (List.mem_of_getElem? hm)
      have hfr := hfresh m tp htp
      refine ⟨tp, htp, he, ?_, fun _ => hfr.1, ?_⟩
      · intro hlt; omega
      · intro _
        exact ⟨Or.inl hfr.1, fun _ => ⟨h1, h2⟩, fun hne => absurd hfr.1 hne⟩
    · intro e; exact h2
    · intro j m m' tp tp' _ _ _ htp' hne
      exact absurd (hfresh m' tp' htp').2.2.2.2.1 hne
  · intro i c hci
    obtain ⟨h1, h2, h3, _, ⟨ts, hts, hte, ht0⟩, h6⟩ := hc c (List.mem_of_getElem? hci)
    obtain ⟨f1, f2, f3, f4, f5, f6, f7, f8, f9, f10, f11, f12⟩ := hfresh c.self ts hts
    refine ⟨h3, ts, hts, ht0, hte, Or.inl f1, by rw [f12, h2]; rfl, ?_, ?_, fun _ => ⟨f8, f4⟩, ?_, ?_⟩
    · intro hp; rw [h2] at hp; exact absurd hp (by decide)
    · intro e; omega
    · intro hcb; exact absurd f8 hcb
    · intro m tm _ htm hne
      exact absurd (hfresh m tm htm).2.2.2.2.1 hne

theorem gi_run (k : Nat) (tps : List Tp) (comps : List Comp) (hwf : WF tps comps) (trs : List CTr) :
    GI (crun k tps comps trs) := by
  unfold crun
  generalize hcs : cinit k tps comps = cs
  have h : GI cs := hcs ▸ gi_init k tps comps hwf
  clear hcs
  induction trs generalizing cs with
  | nil => exact h
  | cons tr trs ih => exact ih _ (gi_cstep' tr h)

end ParsecVerif.Compound
