import ParsecVerif.Proofs.CompoundInv3
/-! Every transition of the compound machine preserves the global invariant. -/
namespace ParsecVerif.Compound
open ParsecVerif.Context

theorem head?_get0 {l : List Nat} {m : Nat} (h : l.head? = some m) : l[0]? = some m := by
  cases l with
  | nil => simp at h
  | cons a t => simpa using h

theorem startupAdd_eff {s s' : St} {t q : Nat} (hs : step? s (.startupAdd t q) = some s') :
    ∃ tp : Tp, s.tps[q]? = some tp ∧ tp.st = .notAdded ∧ s'.tps = s.tps.set q { tp with st := .adding, by_ := t } := by
  simp only [step?] at hs
  split at hs
  · split at hs
    · rename_i _ _ _ tp _ htp hg; cases hs; exact ⟨tp, htp, hg, rfl⟩
    · cases hs
  · cases hs

theorem addCall_eff {s s' : St} {t q : Nat} (hs : step? s (.addCall t q) = some s') :
    ∃ tp : Tp, s.tps[q]? = some tp ∧ tp.st = .notAdded ∧ s'.tps = s.tps.set q { tp with st := .adding, by_ := t } := by
  simp only [step?] at hs
  split at hs
  · split at hs
    · rename_i tp htp hg; cases hs; exact ⟨tp, htp, hg.2, rfl⟩
    · cases hs
  · cases hs

theorem detect_eff {s s' : St} {t p : Nat} (hs : step? s (.detect t p) = some s') :
    ∃ tp : Tp, s.tps[p]? = some tp ∧ tp.st = .added ∧
      s'.tps = s.tps.set p { tp with st := .inCb, cbs := tp.cbs + 1, cbAt := s.clock, by_ := t } := by
  simp only [step?] at hs
  split at hs
  · split at hs
    · rename_i tp htp hg; cases hs; exact ⟨tp, htp, hg.2.2.1, rfl⟩
    · cases hs
  · cases hs

theorem gi_cstep {cs cs' : CSt} {tr : CTr} (h : GI cs) (hs : cstep? cs tr = some cs') : GI cs' := by
  cases tr with
  | ctx tr =>
    simp only [cstep?] at hs
    split at hs
    · rename_i ha
      cases hst : step? cs.base tr with
      | none => rw [hst] at hs; cases hs
      | some s' => rw [hst] at hs; cases hs; exact gi_ctx h ha hst
    · cases hs
  | startup t c0 =>
    simp only [cstep?] at hs
    split at hs
    · rename_i comp hcomp
      split at hs
      · rename_i m0 hm0
        split at hs
        · cases hst : step? cs.base (.startupAdd t m0) with
          | none => rw [hst] at hs; cases hs
          | some s' =>
            rw [hst] at hs; cases hs
            obtain ⟨tp, htp, htps, hset⟩ := startupAdd_eff hst
            have hi' := inv_step h.inv hst
            have hs' := sinv_step h.inv h.sinv hst
            have h0 := head?_get0 hm0
            have hm0mem : m0 ∈ comp.members := List.mem_of_getElem? h0
            refine ⟨hi', hs', by show (allMembers (cs.comps.set c0 _)).Nodup; rw [allMembers_set hcomp]; exact h.nodup; rfl, ?_⟩
            intro i c hc
            show CI s'.tps c
            by_cases hic : c0 = i
            · subst hic
              rw [List.getElem?_set_self (List.getElem?_eq_some_iff.1 hcomp).1] at hc
              cases hc
              rw [hset]
              exact ci_startup (h.ci c0 comp hcomp) (nodup_members h.nodup hcomp) h0 htp htps ⟨rfl, rfl, rfl, rfl⟩
            · rw [List.getElem?_set_ne hic] at hc
              exact ci_set_frame (h.ci i c hc) htp hset (Or.inl (members_disjoint h.nodup hcomp hc hic hm0mem))
        · cases hs
      · cases hs
    · cases hs
  | memberCb t c0 m =>
    simp only [cstep?] at hs
    split at hs
    · rename_i comp hcomp
      split at hs
      · rename_i hmem
        have hmmem : m ∈ comp.members := by simpa using hmem
        split at hs
        · rename_i s1 hs1
          obtain ⟨tp, htp, htpst, hset1⟩ := detect_eff hs1
          have hi1 := inv_step h.inv hs1
          have hS1 := sinv_step h.inv h.sinv hs1
          have hci0 := h.ci c0 comp hcomp
          have hnd := nodup_members h.nodup hcomp
          split at hs
          · rename_i hp
            split at hs
            · rename_i nx hnx
              cases hs2 : step? s1 (.addCall t nx) with
              | none => rw [hs2] at hs; cases hs
              | some s2 =>
                rw [hs2] at hs; cases hs
                obtain ⟨tn, htn, htnst, hset2⟩ := addCall_eff hs2
                have hnxmem : nx ∈ comp.members := List.mem_of_getElem? hnx
                refine ⟨inv_step hi1 hs2, sinv_step hi1 hS1 hs2, by show (allMembers (cs.comps.set c0 _)).Nodup; rw [allMembers_set hcomp]; exact h.nodup; rfl, ?_⟩
                intro i c hc
                show CI s2.tps c
                by_cases hic : c0 = i
                · subst hic
                  rw [List.getElem?_set_self (List.getElem?_eq_some_iff.1 hcomp).1] at hc
                  cases hc
                  refine ci_memberCb (x1 := { tp with st := .inCb, cbs := tp.cbs + 1, cbAt := cs.base.clock, by_ := t }) hci0 hnd h.sinv.tpok hmmem htp htpst ⟨rfl, rfl, rfl⟩ s2.tps (Or.inr ⟨hp, nx, tn, { tn with st := .adding, by_ := t }, hnx, ?_, htnst, rfl, rfl, rfl, rfl, ?_⟩)
                  · rw [← hset1]; exact htn
                  · rw [hset2, hset1]
                · rw [List.getElem?_set_ne hic] at hc
                  have hci1 : CI s1.tps c :=
                    ci_set_frame (h.ci i c hc) htp hset1 (Or.inl (members_disjoint h.nodup hcomp hc hic hmmem))
                  exact ci_set_frame hci1 htn hset2 (Or.inl (members_disjoint h.nodup hcomp hc hic hnxmem))
            · cases hs
          · rename_i hp
            cases hs
            refine ⟨hi1, hS1, by show (allMembers (cs.comps.set c0 _)).Nodup; rw [allMembers_set hcomp]; exact h.nodup; rfl, ?_⟩
            intro i c hc
            show CI s1.tps c
            by_cases hic : c0 = i
            · subst hic
              rw [List.getElem?_set_self (List.getElem?_eq_some_iff.1 hcomp).1] at hc
              cases hc
              exact ci_memberCb (x1 := { tp with st := .inCb, cbs := tp.cbs + 1, cbAt := cs.base.clock, by_ := t }) hci0 hnd h.sinv.tpok hmmem htp htpst ⟨rfl, rfl, rfl⟩ s1.tps (Or.inl ⟨by omega, hset1⟩)
            · rw [List.getElem?_set_ne hic] at hc
              exact ci_set_frame (h.ci i c hc) htp hset1 (Or.inl (members_disjoint h.nodup hcomp hc hic hmmem))
        · cases hs
      · cases hs
    · cases hs

theorem gi_cstep' {cs : CSt} (tr : CTr) (h : GI cs) : GI (cstep cs tr) := by
  unfold cstep
  cases hs : cstep? cs tr with
  | none => exact h
  | some cs' => exact gi_cstep h hs

theorem gi_init (k : Nat) (tps : List Tp) (comps : List Comp) (hwf : WF tps comps) : GI (cinit k tps comps) := by
  obtain ⟨hnd, hc, hf⟩ := hwf
  refine ⟨inv_init k tps hf, sinv_init k tps hf, hnd, ?_⟩
  intro i c hci
  obtain ⟨h1, h2, h3, _, _, h6⟩ := hc c (List.mem_of_getElem? hci)
  have hfresh : ∀ (m : Nat) (tp : Tp), tps[m]? = some tp → tp.st = .notAdded ∧ tp.addAt = 0 := by
    intro m tp htp
    have := hf tp (List.mem_of_getElem? htp)
    exact ⟨this.1, this.2.2.2.2.1⟩
  refine ⟨by omega, ?_, ?_, ?_⟩
  · intro j m hm
    obtain ⟨tp, htp, he, _⟩ := h6 m (List.mem_of_getElem? hm)
    refine ⟨tp, htp, he, ?_, fun _ => (hfresh m tp htp).1, ?_⟩
    · intro hlt; omega
    · intro _
      exact ⟨Or.inl (hfresh m tp htp).1, fun _ => ⟨h1, h2⟩, fun hne => absurd (hfresh m tp htp).1 hne⟩
  · intro e; exact h2
  · intro j m m' tp tp' _ _ _ htp' hne
    exact absurd (hfresh m' tp' htp').2 hne

theorem gi_run (k : Nat) (tps : List Tp) (comps : List Comp) (hwf : WF tps comps) (trs : List CTr) :
    GI (crun k tps comps trs) := by
  unfold crun
  generalize hcs : cinit k tps comps = cs
  have h : GI cs := hcs ▸ gi_init k tps comps hwf
  clear hcs
  induction trs generalizing cs with
  | nil => exact h
  | cons tr trs ih => exact ih _ (gi_cstep' tr h)

end ParsecVerif.Compound
