import ParsecVerif.Proofs.DistRtInv
/-! Preservation of the invariant of the distributed runtime by local releases and by message completion;
    the invariant holds in every reachable state. -/
namespace ParsecVerif.DistRt
open ParsecVerif.Dataflow
open ParsecVerif.RemoteDep hiding St

section
variable {g : DGraph} {cf : Conf} {F : Nat → List (Option Nat) → Nat} {again : List Nat}

/-- statuses after a fold of releases: ended nodes stay ended, nobody new ends -/
theorem relFold_ended (hwf : g.WF) (a : Nat) (rel : List Nat) (c : Dataflow.St) (h : Inv g.graph F c) (j : Nat) :
    (relFold g.graph F a rel c).status[j]? = some Status.ended ↔ c.status[j]? = some Status.ended := by
  have hr := relFold_inv (F := F) (graph_WF g hwf) a rel c h
  constructor
  · intro h1
    by_cases hw : c.status[j]? = some Status.waiting
    · -- a waiting node can only become ready
      exfalso
      clear hr
      induction rel generalizing c with
      | nil => rw [show relFold g.graph F a [] c = c from rfl, hw] at h1; cases h1
      | cons b rest ih =>
        have h' := inv_step (graph_WF g hwf) c h (.release a b)
        have e : relFold g.graph F a (b :: rest) c = relFold g.graph F a rest (Dataflow.step g.graph F c (.release a b)) := rfl
        rw [e] at h1
        by_cases hw' : (Dataflow.step g.graph F c (.release a b)).status[j]? = some Status.waiting
        · exact ih _ h' h1 hw'
        · have hr' := relFold_inv (F := F) (graph_WF g hwf) a rest _ h'
          rw [hr'.2.2.2.2.1 j hw'] at h1
          -- the single step turned `waiting` into `ended`: impossible
          unfold Dataflow.step at h1
          split at h1
          · rw [hw] at h1; cases h1
          · simp only at h1
            split at h1
            · rw [hw] at h1; cases h1
            · rw [List.getElem?_set] at h1
              split at h1
              · split at h1 <;> cases h1
              · rw [hw] at h1; cases h1
    · rw [hr.2.2.2.2.1 j hw] at h1; exact h1
  · intro h1
    rw [hr.2.2.2.2.1 j (by rw [h1]; simp)]; exact h1

theorem dinv_releaseLocal (hwf : g.WF) {s : DSt} (h : DInv g cf F again s) (a b : Nat)
    (hen : enabled s.core (.release a b) = true) (hpl : cf.place a = cf.place b) :
    DInv g cf F again { s with core := Dataflow.step g.graph F s.core (.release a b) } := by
  have hG := h.ginv hwf
  have hab : s.core.status[a]? = some Status.ended ∧ (a, b) ∈ s.core.pending := by
    simpa [enabled] using hen
  have e : Dataflow.step g.graph F s.core (.release a b) = relFold g.graph F a [b] s.core := rfl
  have hr := relFold_inv (F := F) (graph_WF g hwf) a [b] s.core hG
  have hend := relFold_ended (F := F) hwf a [b] s.core hG
  have hp : (relFold g.graph F a [b] s.core).pending = s.core.pending.erase (a, b) :=
    relFold_pending (graph_WF g hwf) a [b] s.core hG hab.1
  rw [e]
  refine ⟨gen_relFold h.gen a [b], ?_, ?_, ?_, ?_, ?_, ?_, ?_⟩
  · intro x y hx
    simp only at hx ⊢
    have hx' : s.core.status[x]? ≠ some Status.ended := fun e => hx ((hend x).2 e)
    have hxa : x ≠ a := fun e => hx' (e ▸ hab.1)
    rw [hp, List.count_erase_of_ne (by intro e; injection e with e1 _; exact hxa e1)]
    exact h.cnt x y hx'
  · intro r i v hl
    simp only at hl ⊢
    rw [hr.2.1]
    exact ⟨(hend i).2 (h.stv r i v hl).1, (h.stv r i v hl).2⟩
  · intro i hi; exact h.own i ((hend i).1 hi)
  · intro x st hl; exact ⟨(hend x).2 (h.act x st hl).1, (h.act x st hl).2⟩
  · exact h.snd
  · intro e' he' hn
    simp only at hn ⊢
    rw [hp] at hn
    by_cases hm : (e'.1, e'.2.1) ∈ s.core.pending
    · have heq : (e'.1, e'.2.1) = (a, b) := by
        by_cases hne : (e'.1, e'.2.1) = (a, b)
        · exact hne
        · exact absurd ((List.mem_erase_of_ne hne).2 hm) hn
      injection heq with h1 h2
      rw [h1, h2, ← hpl]
      exact (h.own a hab.1).1
    · exact h.avail e' he' hm
  · intro x st hl y hy
    simp only
    rw [hp, List.count_erase_of_ne]
    · exact h.owed x st hl y hy
    · intro e; injection e with e1 e2; subst e1; subst e2; exact hy hpl.symm

/-- deliveries recorded by one more message -/
theorem deliveriesOf_cons (m : Msg) (log : List Msg) :
    deliveriesOf (m :: log) = (m.keys.map fun k => (m.dst, k)) ++ deliveriesOf log := by
  simp [deliveriesOf, List.flatMap_cons]

theorem not_mem_deliveries (log : List Msg) (r k : Nat) (h : r ∉ dsts log) : (r, k) ∉ deliveriesOf log := by
  intro hm
  unfold deliveriesOf at hm
  obtain ⟨m, hm1, hm2⟩ := List.mem_flatMap.1 hm
  obtain ⟨k', _, hk'⟩ := List.mem_map.1 hm2
  injection hk' with h1 _
  exact h (mem_dsts.2 ⟨m, hm1, h1⟩)

theorem dinv_complete (hwf : g.WF) (hcf : cf.WF g) {s : DSt} (h : DInv g cf F again s) (a : Nat) (m : Msg) :
    DInv g cf F again (complete g cf F s a m) := by
  unfold complete
  cases hl : look s.coll a with
  | none => exact h
  | some st =>
    simp only
    by_cases hmi : st.inflight.contains m = true
    · rw [if_pos hmi]
      have hmem : m ∈ st.inflight := by simpa using hmi
      have hG := h.ginv hwf
      obtain ⟨haE, ms, hms⟩ := h.act a st hl
      have ha : a < g.n := h.lt_of_ended hwf haE
      have hcw := cfgOf_WF hwf hcf a ha
      have hC : RemoteDep.Inv (cfgOf g cf a) st := hms ▸ inv_run hcw (cfgOf_tree g cf a) ms
      -- facts about the message
      have hnd : m.dst ∉ dsts st.log := by
        have := hC.nodup
        rw [dsts_append, List.nodup_append] at this
        exact fun hd => this.2.2 m.dst (mem_dsts.2 ⟨m, hmem, rfl⟩) m.dst hd rfl
      obtain ⟨v, hv⟩ : ∃ v, look s.store (m.src, a) = some v := by
        have := h.snd a st hl m hmem
        cases hh : look s.store (m.src, a) with
        | none => rw [hh] at this; cases this
        | some v => exact ⟨v, rfl⟩
      rw [hv]
      simp only
      have hdl : (cfgOf g cf a).deliver st m = ⟨st.inflight.erase m ++ (cfgOf g cf a).msgs m.dst, m :: st.log⟩ := by
        unfold Cfg.deliver; rw [if_pos hmem]
      -- the fold of releases
      have hfold : (releasedBy g cf a m).foldl (fun c b => Dataflow.step g.graph F c (.release a b)) s.core =
          relFold g.graph F a (releasedBy g cf a m) s.core := rfl
      rw [hfold]
      have hr := relFold_inv (F := F) (graph_WF g hwf) a (releasedBy g cf a m) s.core hG
      have hend := relFold_ended (F := F) hwf a (releasedBy g cf a m) s.core hG
      have hp := relFold_pending (F := F) (graph_WF g hwf) a (releasedBy g cf a m) s.core hG haE
      have hcount : ∀ x y, (relFold g.graph F a (releasedBy g cf a m) s.core).pending.count (x, y) =
          s.core.pending.count (x, y) - (if x = a then (releasedBy g cf a m).count y else 0) := by
        intro x y; rw [hp]; exact count_foldl_erase a _ _ x y
      refine ⟨gen_relFold h.gen a _, ?_, ?_, ?_, ?_, ?_, ?_, ?_⟩
      · intro x y hx
        simp only at hx ⊢
        have hx' : s.core.status[x]? ≠ some Status.ended := fun e => hx ((hend x).2 e)
        have hxa : x ≠ a := fun e => hx' (e ▸ haE)
        rw [hcount, if_neg hxa, Nat.sub_zero]
        exact h.cnt x y hx'
      · intro r i w hlw
        simp only at hlw ⊢
        rw [hr.2.1]
        rw [look_cons] at hlw
        split at hlw
        · rename_i hk
          have hk' : (m.dst, a) = (r, i) := by simpa using hk
          injection hk' with _ hai
          subst hai
          injection hlw with hlw; subst hlw
          exact ⟨(hend a).2 haE, (h.stv _ _ _ hv).2⟩
        · exact ⟨(hend i).2 (h.stv r i w hlw).1, (h.stv r i w hlw).2⟩
      · intro i hi
        have := h.own i ((hend i).1 hi)
        exact ⟨look_cons_isSome _ _ _ _ this.1, look_cons_isSome _ _ _ _ this.2⟩
      · intro x st' hl'
        simp only at hl' ⊢
        rw [look_cons] at hl'
        split at hl'
        · rename_i hk
          have hk' : a = x := by simpa using hk
          subst hk'
          injection hl' with hl'
          refine ⟨(hend a).2 haE, ms ++ [m], ?_⟩
          rw [← hl', hms]; simp [Cfg.run, List.foldl_append]
        · exact ⟨(hend x).2 (h.act x st' hl').1, (h.act x st' hl').2⟩
      · intro x st' hl' m' hm'
        simp only at hl' ⊢
        rw [look_cons] at hl'
        split at hl'
        · rename_i hk
          have hk' : a = x := by simpa using hk
          subst hk'
          injection hl' with hl'
          rw [← hl', hdl] at hm'
          simp only [List.mem_append] at hm'
          rcases hm' with hm' | hm'
          · exact look_cons_isSome _ _ _ _ (h.snd a st hl m' (List.mem_of_mem_erase hm'))
          · obtain ⟨d, _, rfl⟩ := mem_msgs.1 hm'
            rw [look_cons]; simp
        · exact look_cons_isSome _ _ _ _ (h.snd x st' hl' m' hm')
      · intro e' he' hn
        simp only at hn ⊢
        by_cases hm : (e'.1, e'.2.1) ∈ s.core.pending
        · rw [hp] at hn
          obtain ⟨h1, h2⟩ := mem_foldl_erase_of_not a _ _ (e'.1, e'.2.1) hm hn
          simp only at h1 h2
          unfold releasedBy at h2
          obtain ⟨e2, he2, hd2⟩ := List.mem_map.1 h2
          simp only [List.mem_filter, Bool.and_eq_true, beq_iff_eq] at he2
          rw [← hd2, he2.2.1.2, h1, look_cons]; simp
        · exact look_cons_isSome _ _ _ _ (h.avail e' he' hm)
      · intro x st' hl' y hy
        simp only at hl' ⊢
        rw [look_cons] at hl'
        split at hl'
        · rename_i hk
          have hk' : a = x := by simpa using hk
          subst hk'
          injection hl' with hl'
          rw [← hl', hdl]
          simp only
          rw [hcount, if_pos rfl, h.owed a st hl y hy, count_releasedBy]
          have hdm : ∀ r, (dsts (m :: st.log)).contains r = (m.dst == r || (dsts st.log).contains r) := by
            intro r
            show (m.dst :: dsts st.log).contains r = _
            rw [List.contains_cons]
            cases hh : (r == m.dst) <;> cases hh2 : (m.dst == r) <;> simp_all
          by_cases hpy : cf.place y = m.dst
          · -- everything towards `y` was still owed; what `m` carries or names is now released
            have hf1 : (dsts st.log).contains m.dst = false := by
              cases hc : (dsts st.log).contains m.dst with
              | false => rfl
              | true => exact absurd (by simpa using hc) hnd
            have hf2 : ∀ k, (deliveriesOf st.log).contains (m.dst, k) = false := by
              intro k
              cases hc : (deliveriesOf st.log).contains (m.dst, k) with
              | false => rfl
              | true => exact absurd (by simpa using hc) (not_mem_deliveries st.log m.dst k hnd)
            have e1 : g.E.countP (fun e => e.1 == a && e.2.1 == y && !got g a st.log (cf.place y) e.2.2) =
                g.E.countP (fun e => e.1 == a && e.2.1 == y) := by
              apply List.countP_congr
              intro e _
              have : got g a st.log (cf.place y) e.2.2 = false := by
                unfold got; rw [hpy]; split
                · exact hf1
                · exact hf2 _
              rw [this]; simp
            have e2 : g.E.countP (fun e => (e.1 == a && cf.place e.2.1 == m.dst && (m.keys.contains e.2.2 || g.isCtl a e.2.2)) && e.2.1 == y) =
                g.E.countP (fun e => (e.1 == a && e.2.1 == y) && (m.keys.contains e.2.2 || g.isCtl a e.2.2)) := by
              apply List.countP_congr
              intro e _
              simp only [Bool.and_eq_true, beq_iff_eq]
              constructor
              · rintro ⟨⟨⟨h1, _⟩, h3⟩, h4⟩; exact ⟨⟨h1, h4⟩, h3⟩
              · rintro ⟨⟨h1, h4⟩, h3⟩; exact ⟨⟨⟨h1, by rw [h4]; exact hpy⟩, h3⟩, h4⟩
            have e3 : g.E.countP (fun e => e.1 == a && e.2.1 == y && !got g a (m :: st.log) (cf.place y) e.2.2) =
                g.E.countP (fun e => (e.1 == a && e.2.1 == y) && !(m.keys.contains e.2.2 || g.isCtl a e.2.2)) := by
              apply List.countP_congr
              intro e _
              have : got g a (m :: st.log) (cf.place y) e.2.2 = (m.keys.contains e.2.2 || g.isCtl a e.2.2) := by
                unfold got
                rw [hpy]
                cases hct : g.isCtl a e.2.2 with
                | true => simp [hdm]
                | false =>
                  simp only [Bool.false_eq_true, if_false, Bool.or_false]
                  rw [deliveriesOf_cons, List.contains_append, hf2, Bool.or_false]
                  cases hc : m.keys.contains e.2.2 with
                  | true =>
                    have : e.2.2 ∈ m.keys := by simpa using hc
                    simp only [List.contains_iff_mem, List.mem_map, Prod.mk.injEq, true_and, exists_eq_right]
                    exact this
                  | false =>
                    have hn : e.2.2 ∉ m.keys := by intro hh; simp [hh] at hc
                    cases hc2 : (m.keys.map fun k => (m.dst, k)).contains (m.dst, e.2.2) with
                    | false => rfl
                    | true =>
                      exfalso; apply hn
                      have : (m.dst, e.2.2) ∈ m.keys.map fun k => (m.dst, k) := by simpa using hc2
                      obtain ⟨k, hk, hkk⟩ := List.mem_map.1 this
                      injection hkk with _ h2; exact h2 ▸ hk
              rw [this]
            rw [e1, e2, e3, countP_split g.E (fun e => e.1 == a && e.2.1 == y) (fun e => m.keys.contains e.2.2 || g.isCtl a e.2.2)]
            omega
          · -- nothing towards `y` is released and nothing towards `y`'s rank is delivered
            have e2 : g.E.countP (fun e => (e.1 == a && cf.place e.2.1 == m.dst && (m.keys.contains e.2.2 || g.isCtl a e.2.2)) && e.2.1 == y) = 0 := by
              rw [List.countP_eq_zero]
              intro e _ hc
              simp only [Bool.and_eq_true, beq_iff_eq] at hc
              exact hpy (by rw [← hc.2]; exact hc.1.1.2)
            rw [e2, Nat.sub_zero]
            apply List.countP_congr
            intro e _
            have : got g a (m :: st.log) (cf.place y) e.2.2 = got g a st.log (cf.place y) e.2.2 := by
              unfold got
              split
              · rw [hdm]
                have : (m.dst == cf.place y) = false := by simpa using fun e => hpy e.symm
                rw [this, Bool.false_or]
              · rw [deliveriesOf_cons, List.contains_append]
                have : (m.keys.map fun k => (m.dst, k)).contains (cf.place y, e.2.2) = false := by
                  cases hc : (m.keys.map fun k => (m.dst, k)).contains (cf.place y, e.2.2) with
                  | false => rfl
                  | true =>
                    exfalso
                    have : (cf.place y, e.2.2) ∈ m.keys.map fun k => (m.dst, k) := by simpa using hc
                    obtain ⟨k, _, hkk⟩ := List.mem_map.1 this
                    injection hkk with h1 _; exact hpy h1.symm
                rw [this, Bool.false_or]
            rw [this]
        · rename_i hk
          have hxa : x ≠ a := fun e => hk (by simp [e])
          rw [hcount, if_neg hxa, Nat.sub_zero]
          exact h.owed x st' hl' y hy
    · rw [if_neg hmi]; exact h

/-- the invariant is preserved by every transition -/
theorem dinv_step (hwf : g.WF) (hcf : cf.WF g) {s : DSt} (h : DInv g cf F again s) (t : DTr) :
    DInv g cf F again (dstep g cf F s t) := by
  unfold dstep
  by_cases hen : denabled cf s t = true
  · simp only [hen, Bool.not_true, Bool.false_eq_true, if_false]
    cases t with
    | start i => exact dinv_start h i hen
    | again i => exact dinv_again h i hen
    | finish i => exact dinv_finish hwf h i hen
    | releaseLocal a b =>
      simp only [denabled, Bool.and_eq_true, beq_iff_eq] at hen
      exact dinv_releaseLocal hwf h a b hen.1 hen.2
    | recvAct a m eager =>
      simp only
      split
      · exact dinv_complete hwf hcf h a m
      · exact dinv_xfer h _
    | recvData a m => exact dinv_complete hwf hcf (dinv_xfer h _) a m
  · simp [hen]; exact h

theorem dinv_run (hwf : g.WF) (hcf : cf.WF g) (ts : List DTr) : DInv g cf F again (drun g cf F again ts) := by
  unfold drun
  have : ∀ (ts : List DTr) (s : DSt), DInv g cf F again s → DInv g cf F again (ts.foldl (dstep g cf F) s) := by
    intro ts
    induction ts with
    | nil => intro s h; exact h
    | cons t ts ih => intro s h; exact ih _ (dinv_step hwf hcf h t)
  exact this ts _ (dinv_init hwf)

end
end ParsecVerif.DistRt
