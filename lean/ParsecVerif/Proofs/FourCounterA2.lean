import ParsecVerif.Proofs.FourCounterA1
/-
  After the root's decision every delivery terminates exactly one more process.
-/
namespace ParsecVerif.FourCounter

theorem term_deliver {s s' : State} (h : Inv s) (ht : (s.procs 0).st = .term) {k : Nat}
    (hs : step s (.deliver k) = some s') :
    numTerm s' = numTerm s + 1 ∧ (s'.procs 0).st = .term := by
  simp only [FourCounter.step] at hs
  split at hs
  · cases hs
  · rename_i pk hk
    have hmem := mem_of_getElem? hk
    have hpk := h.st.pk pk hmem
    split at hs
    · rename_i hdst
      split at hs
      · cases hs
      · rename_i a b hkind
        exfalso
        unfold PkOK at hpk; rw [hkind] at hpk
        have := (term_wave h ht hpk.1 hpk.2.1).1
        have hpos := cnt_pos_of_mem (isUpFrom pk.src) hmem (by simp [isUpFrom, hkind])
        unfold U at this; omega
      · rename_i res hkind
        unfold PkOK at hpk; rw [hkind] at hpk
        obtain ⟨u0, d0, hw⟩ := term_wave h ht hpk.1 hpk.2.1
        have hpos := cnt_pos_of_mem (isDownTo pk.dst res) hmem (by simp [isDownTo, hkind])
        cases res with
        | false => exfalso; unfold D at d0; omega
        | true =>
          have hip : (s.procs pk.dst).st = .idleWP := by
            rcases hw with ⟨_, d⟩ | ⟨t, _⟩
            · exfalso; unfold D at d; omega
            · exact t
          rw [hip] at hs
          simp at hs
          subst hs
          unfold msgDown
          simp only [if_true]
          constructor
          · unfold numTerm
            have := sumTo_change (n := s.n) (p := pk.dst)
              (f := fun q => if (s.procs q).st = .term then 1 else 0)
              (g := fun q => if ((setP (push { s with net := s.net.eraseIdx k } (downs s.n pk.dst true)) pk.dst
                  { s.procs pk.dst with st := .term, cbs := (s.procs pk.dst).cbs + 1 }).procs q).st = .term then 1 else 0)
              hpk.2.1 (by intro q _ e; simp [setP, push, e])
            simp only [hip] at this
            simp [setP, push] at this
            show sumTo s.n _ = _
            simp only [setP, push] at this ⊢
            omega
          · have e : (0 : Nat) ≠ pk.dst := by omega
            simp [setP, push, e, ht]
    · cases hs

end ParsecVerif.FourCounter
