import ParsecVerif.Model.TpRegistry
/-!
  Helper lemmas for the taskpool registry model: the well-formedness invariant, the content of the
  array after a growth, and the effect of every call on `cell` / `slot` / `pos`.
-/
namespace ParsecVerif.TpRegistry

/-- content of `taskpool_array[i]` (`none`: no such cell) -/
def cell (r : Reg) (i : Nat) : Option Cell :=
  match r.arr with
  | none => none
  | some a => a[i]?

/-- the taskpool stored at index `i`, if any -/
def slot (r : Reg) (i : Nat) : Option Nat :=
  match cell r i with
  | some (.tp h) => some h
  | _ => none

/-- Invariant of ALL histories (disciplined or not): either nothing was ever allocated
    (`NULL`, size 1, pos 0) or the array has exactly `size` cells, `pos < size`, and only cell 0 may
    be uninitialised. -/
def WF (r : Reg) : Prop :=
  match r.arr with
  | none => r.size = 1 ∧ r.pos = 0
  | some a => a.length = r.size ∧ r.pos < r.size ∧ ∀ i, 1 ≤ i → a[i]? ≠ some .junk

/-- every cell above `pos` is NOTASKPOOL (what the assert of reserve_id expects) -/
def Clean (r : Reg) : Prop := ∀ i, r.pos < i → cell r i = some .free ∨ cell r i = none

theorem WF_init : WF Reg.init := by simp [WF, Reg.init]
theorem Clean_init : Clean Reg.init := by intro i _; simp [cell, Reg.init]

theorem getElem?_fill (a : List Cell) (lo hi i : Nat) :
    (fill a lo hi)[i]? = if lo ≤ i ∧ i < hi then a[i]?.map (fun _ => Cell.free) else a[i]? := by
  unfold fill
  rw [List.getElem?_mapIdx]
  by_cases h : lo ≤ i ∧ i < hi
  · simp [h]
  · simp only [h, if_false]
    cases a[i]? <;> simp

theorem length_fill (a : List Cell) (lo hi : Nat) : (fill a lo hi).length = a.length := by
  simp [fill]

theorem length_realloc_some (l : List Cell) (n : Nat) (h : l.length ≤ n) : (realloc (some l) n).length = n := by
  simp only [realloc, List.length_append, List.length_take, List.length_replicate]
  omega

theorem getElem?_realloc_some (l : List Cell) (n i : Nat) (h : l.length ≤ n) :
    (realloc (some l) n)[i]? = if i < l.length then l[i]? else if i < n then some .junk else none := by
  simp only [realloc]
  rw [List.take_of_length_le h, List.getElem?_append]
  by_cases hi : i < l.length
  · simp [hi]
  · simp only [hi, if_false, List.getElem?_replicate]
    by_cases h2 : i < n
    · have : i - l.length < n - l.length := by omega
      simp [h2, this]
    · have : ¬ (i - l.length < n - l.length) := by omega
      simp [h2, this]

/-- the registry after the array was grown to `n` cells and the new cells were filled -/
def grow (r : Reg) (n : Nat) : Reg :=
  { r with size := n, arr := some (fill (realloc r.arr n) r.size n) }

theorem growDouble_eq (r : Reg) : growDouble r = grow r (r.size * 2) := by
  simp [growDouble, grow]

/-- the cells of a grown array: old cells kept (cell 0 of a fresh array is uninitialised), new
    cells NOTASKPOOL -/
theorem cell_grow (r : Reg) (n i : Nat) (h : WF r) (hn : r.size ≤ n) :
    cell (grow r n) i =
      if i < r.size then (match r.arr with | none => some .junk | some a => a[i]?)
      else if i < n then some .free else none := by
  unfold WF at h
  simp only [cell, grow]
  rw [getElem?_fill]
  cases ha : r.arr with
  | none =>
    rw [ha] at h
    simp only [realloc, List.getElem?_replicate]
    by_cases h1 : i < r.size
    · have : ¬ (r.size ≤ i ∧ i < n) := by omega
      have h2 : i < n := by omega
      simp [h1, h2]
    · by_cases h2 : i < n
      · have : r.size ≤ i ∧ i < n := by omega
        simp [h1, this, h2]
      · have : ¬ (r.size ≤ i ∧ i < n) := by omega
        simp [h1, this, h2]
  | some a =>
    rw [ha] at h
    have hl : a.length ≤ n := by omega
    rw [getElem?_realloc_some a n i hl, h.1]
    by_cases h1 : i < r.size
    · have : ¬ (r.size ≤ i ∧ i < n) := by omega
      simp [h1, this]
    · by_cases h2 : i < n
      · have : r.size ≤ i ∧ i < n := by omega
        simp [h1, this, h2]
      · have : ¬ (r.size ≤ i ∧ i < n) := by omega
        simp [h1, this, h2]

theorem length_grow (r : Reg) (n : Nat) (h : WF r) (hn : r.size ≤ n) :
    ∃ a, (grow r n).arr = some a ∧ a.length = n := by
  refine ⟨_, rfl, ?_⟩
  rw [length_fill]
  unfold WF at h
  cases ha : r.arr with
  | none => simp [realloc]
  | some a =>
    rw [ha] at h
    exact length_realloc_some a n (by omega)

theorem cell_of_arr {r : Reg} {a : List Cell} (h : r.arr = some a) (i : Nat) : cell r i = a[i]? := by
  simp [cell, h]

theorem WF_grow (r : Reg) (n : Nat) (h : WF r) (hn : r.size ≤ n) (hp : r.pos < n) : WF (grow r n) := by
  obtain ⟨a, ha, hl⟩ := length_grow r n h hn
  have hc := fun i => cell_grow r n i h hn
  unfold WF
  rw [ha]
  refine ⟨hl, hp, ?_⟩
  intro i hi
  rw [← cell_of_arr ha i, hc i]
  unfold WF at h
  by_cases h1 : i < r.size
  · simp only [h1, if_true]
    cases hr : r.arr with
    | none => rw [hr] at h; omega
    | some b => rw [hr] at h; exact h.2.2 i hi
  · by_cases h2 : i < n <;> simp [h1, h2]

theorem cell_grow_pos (r : Reg) (n i : Nat) (h : WF r) (hn : r.size ≤ n) (hi : 1 ≤ i) :
    cell (grow r n) i = if i < r.size then cell r i else if i < n then some .free else none := by
  rw [cell_grow r n i h hn]
  by_cases h1 : i < r.size
  · simp only [h1, if_true, cell]
    cases hr : r.arr with
    | none => unfold WF at h; rw [hr] at h; omega
    | some b => rfl
  · simp [h1]

/-- cells above the old size do not exist -/
theorem cell_none_of_size_le (r : Reg) (i : Nat) (h : WF r) (hi : r.size ≤ i) : cell r i = none := by
  unfold WF at h
  unfold cell
  cases hr : r.arr with
  | none => rfl
  | some a =>
    rw [hr] at h
    exact List.getElem?_eq_none (by omega)

theorem slot_grow (r : Reg) (n i : Nat) (h : WF r) (hn : r.size ≤ n) : slot (grow r n) i = slot r i := by
  unfold slot
  rw [cell_grow r n i h hn]
  by_cases h1 : i < r.size
  · simp only [h1, if_true]
    cases hr : r.arr with
    | none => simp [cell, hr]
    | some a => simp [cell, hr]
  · have := cell_none_of_size_le r i h (by omega)
    rw [this]
    by_cases h2 : i < n <;> simp [h1, h2]

theorem Clean_grow (r : Reg) (n : Nat) (h : WF r) (hn : r.size ≤ n) (hc : Clean r) : Clean (grow r n) := by
  intro i hi
  have hi' : r.pos < i := hi
  rw [cell_grow_pos r n i h hn (by omega)]
  by_cases h1 : i < r.size
  · simp only [h1, if_true]; exact hc i hi'
  · by_cases h2 : i < n <;> simp [h1, h2]

/-! ### reserve -/

theorem reserveReg_eq (r : Reg) (h : WF r) :
    reserveReg r = if r.arr = none ∨ r.size ≤ r.pos + 1 then { grow r (r.size * 2) with pos := r.pos + 1 }
                   else { r with pos := r.pos + 1 } := by
  unfold reserveReg needGrow
  cases hr : r.arr with
  | none => simp [growDouble_eq, grow, hr]
  | some a =>
    by_cases hs : r.size ≤ r.pos + 1
    · simp [hs, growDouble_eq, grow, hr]
    · simp [hs]

theorem pos_reserveReg (r : Reg) : (reserveReg r).pos = r.pos + 1 := by
  unfold reserveReg
  split <;> simp [growDouble]

theorem WF_setpos (r : Reg) (p : Nat) (h : WF r) (ha : r.arr ≠ none) (hp : p < r.size) : WF { r with pos := p } := by
  unfold WF at *
  cases hr : r.arr with
  | none => exact absurd hr ha
  | some a =>
    rw [hr] at h
    simp only []
    exact ⟨h.1, hp, h.2.2⟩

theorem WF_reserve (r : Reg) (h : WF r) : WF (reserveReg r) := by
  rw [reserveReg_eq r h]
  have hsz : 1 ≤ r.size ∧ r.pos < r.size := by
    unfold WF at h
    cases hr : r.arr with
    | none => rw [hr] at h; omega
    | some a => rw [hr] at h; omega
  split
  · have hg := WF_grow r (r.size * 2) h (by omega) (by omega)
    have hne : (grow r (r.size * 2)).arr ≠ none := by simp [grow]
    exact WF_setpos (grow r (r.size * 2)) (r.pos + 1) hg hne (by simp [grow]; omega)
  · rename_i hc
    have hne : r.arr ≠ none := fun e => hc (Or.inl e)
    exact WF_setpos r (r.pos + 1) h hne (by omega)

theorem cell_setpos (r : Reg) (p i : Nat) : cell { r with pos := p } i = cell r i := rfl
theorem slot_setpos (r : Reg) (p i : Nat) : slot { r with pos := p } i = slot r i := rfl

theorem slot_reserve (r : Reg) (h : WF r) (i : Nat) : slot (reserveReg r) i = slot r i := by
  rw [reserveReg_eq r h]
  have hsz : 1 ≤ r.size := by
    unfold WF at h
    cases hr : r.arr with
    | none => rw [hr] at h; omega
    | some a => rw [hr] at h; omega
  split
  · rw [slot_setpos]; exact slot_grow r _ i h (by omega)
  · rfl

theorem Clean_reserve (r : Reg) (h : WF r) (hc : Clean r) : Clean (reserveReg r) := by
  rw [reserveReg_eq r h]
  have hsz : 1 ≤ r.size := by
    unfold WF at h
    cases hr : r.arr with
    | none => rw [hr] at h; omega
    | some a => rw [hr] at h; omega
  split
  · intro i hi
    have hi' : r.pos + 1 < i := hi
    rw [cell_setpos]
    have hpg : (grow r (r.size * 2)).pos = r.pos := rfl
    exact Clean_grow r _ h (by omega) hc i (by omega)
  · intro i hi
    have hi' : r.pos + 1 < i := hi
    rw [cell_setpos]
    exact hc i (by omega)

/-! ### register / unregister at an index within `1 ..= pos` -/

theorem arr_of_pos (r : Reg) (h : WF r) (hp : 1 ≤ r.pos) : ∃ a, r.arr = some a ∧ a.length = r.size ∧ r.pos < r.size := by
  unfold WF at h
  cases hr : r.arr with
  | none => rw [hr] at h; omega
  | some a => rw [hr] at h; exact ⟨a, rfl, h.1, h.2.1⟩

theorem registerReg_in (r : Reg) (idx h : Nat) (hw : WF r) (h1 : 1 ≤ idx) (h2 : idx ≤ r.pos) :
    ∃ a, r.arr = some a ∧ idx < a.length ∧ registerReg r idx h = some { r with arr := some (a.set idx (.tp h)) } := by
  obtain ⟨a, ha, hl, hp⟩ := arr_of_pos r hw (by omega)
  refine ⟨a, ha, by omega, ?_⟩
  have hng : needGrow r idx = false := by
    simp [needGrow, ha]; omega
  have : idx < a.length := by omega
  simp [registerReg, regGrown, hng, ha, this]

theorem WF_setcell (r : Reg) (a : List Cell) (i : Nat) (c : Cell) (h : WF r) (ha : r.arr = some a) (hc : c ≠ .junk) :
    WF { r with arr := some (a.set i c) } := by
  unfold WF at *
  rw [ha] at h
  simp only [List.length_set]
  refine ⟨h.1, h.2.1, ?_⟩
  intro j hj
  rw [List.getElem?_set]
  by_cases e : i = j
  · subst e
    by_cases l : i < a.length
    · simp only [l, if_true]
      intro x
      exact hc (Option.some.inj x)
    · simp [l]
  · simp only [e, if_false]; exact h.2.2 j hj

theorem cell_setcell (r : Reg) (a : List Cell) (i j : Nat) (c : Cell) (hi : i < a.length) :
    cell { r with arr := some (a.set i c) } j = if i = j then some c else a[j]? := by
  simp only [cell, List.getElem?_set, hi, if_true]

theorem Clean_setcell (r : Reg) (a : List Cell) (i : Nat) (c : Cell) (ha : r.arr = some a) (hi : i < a.length)
    (hp : i ≤ r.pos) (hc : Clean r) : Clean { r with arr := some (a.set i c) } := by
  intro j hj
  have hj' : r.pos < j := hj
  rw [cell_setcell r a i j c hi]
  have : i ≠ j := by omega
  simp only [this, if_false]
  have := hc j hj'
  rwa [cell_of_arr ha] at this

/-! ### lookup -/

theorem lookupReg_spec (r : Reg) (id : Nat) (h : WF r) (h1 : 1 ≤ id) :
    lookupReg r id = if id ≤ r.pos then (match slot r id with | some t => Out.tp t | none => Out.null) else Out.null := by
  unfold lookupReg
  by_cases hp : id ≤ r.pos
  · simp only [hp, if_true]
    obtain ⟨a, ha, hl, hps⟩ := arr_of_pos r h (by omega)
    have hw := h
    unfold WF at hw
    rw [ha] at hw
    have hlt : id < a.length := by omega
    have hj := hw.2.2 id h1
    simp only [ha, slot, cell]
    rw [List.getElem?_eq_getElem hlt] at hj ⊢
    cases hc : a[id] with
    | free => rfl
    | tp t => rfl
    | junk => rw [hc] at hj; exact absurd rfl hj
  · simp [hp]

/-! ### synchronisation -/

theorem growTo_gt (idx : Nat) : ∀ fuel msz, 1 ≤ msz → idx < msz + fuel → idx < growTo idx fuel msz := by
  intro fuel
  induction fuel with
  | zero => intro msz _ h; simpa [growTo] using h
  | succ f ih =>
    intro msz h1 h
    unfold growTo
    by_cases hm : msz ≤ idx
    · simp only [hm, if_true]; exact ih (msz * 2) (by omega) (by omega)
    · simp only [hm, if_false]; omega

theorem growTo_ge (idx : Nat) : ∀ fuel msz, msz ≤ growTo idx fuel msz := by
  intro fuel
  induction fuel with
  | zero => intro msz; simp [growTo]
  | succ f ih =>
    intro msz
    unfold growTo
    split
    · have := ih (msz * 2); omega
    · omega

theorem growTo_id (idx fuel msz : Nat) (h : idx < msz) : growTo idx fuel msz = msz := by
  cases fuel with
  | zero => rfl
  | succ f => unfold growTo; have : ¬ msz ≤ idx := by omega
              simp [this]

theorem size_pos_of_WF (r : Reg) (h : WF r) : 1 ≤ r.size ∧ r.pos < r.size := by
  unfold WF at h
  cases hr : r.arr with
  | none => rw [hr] at h; omega
  | some a => rw [hr] at h; omega

theorem syncReg_eq (r : Reg) (m : Nat) :
    syncReg r m = if r.size < growTo m (m + 1) r.size then { grow r (growTo m (m + 1) r.size) with pos := m }
                  else { r with size := growTo m (m + 1) r.size, pos := m } := by
  unfold syncReg grow
  split <;> rfl

theorem pos_syncReg (r : Reg) (m : Nat) : (syncReg r m).pos = m := rfl

/-- a rank whose own `pos` is the maximum is left unchanged (also the non-MPI path of the code) -/
theorem syncReg_self (r : Reg) (h : WF r) : syncReg r r.pos = r := by
  have hs := size_pos_of_WF r h
  have := growTo_id r.pos (r.pos + 1) r.size hs.2
  rw [syncReg_eq, this]
  simp

theorem WF_sync (r : Reg) (m : Nat) (h : WF r) (hm : r.pos ≤ m) : WF (syncReg r m) := by
  have hs := size_pos_of_WF r h
  have hgt := growTo_gt m (m + 1) r.size hs.1 (by omega)
  have hge := growTo_ge m (m + 1) r.size
  rw [syncReg_eq]
  split
  · have hg := WF_grow r _ h hge (by omega)
    exact WF_setpos _ m hg (by simp [grow]) (by simpa [grow] using hgt)
  · have he : growTo m (m + 1) r.size = r.size := by omega
    rw [he]
    unfold WF at *
    cases hr : r.arr with
    | none => rw [hr] at h; simp only []; omega
    | some a => rw [hr] at h; simp only []; exact ⟨h.1, by omega, h.2.2⟩

theorem slot_sync (r : Reg) (m i : Nat) (h : WF r) : slot (syncReg r m) i = slot r i := by
  have hge := growTo_ge m (m + 1) r.size
  rw [syncReg_eq]
  split
  · rw [slot_setpos]; exact slot_grow r _ i h hge
  · rfl

theorem Clean_sync (r : Reg) (m : Nat) (h : WF r) (hm : r.pos ≤ m) (hc : Clean r) : Clean (syncReg r m) := by
  have hge := growTo_ge m (m + 1) r.size
  rw [syncReg_eq]
  split
  · intro i hi
    have hi' : m < i := hi
    rw [cell_setpos]
    have hpg : (grow r (growTo m (m + 1) r.size)).pos = r.pos := rfl
    exact Clean_grow r _ h hge hc i (by omega)
  · intro i hi
    have hi' : m < i := hi
    exact hc i (by omega)

end ParsecVerif.TpRegistry
