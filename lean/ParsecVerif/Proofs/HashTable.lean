/-
  Basic facts about the hash-table model: the function update, what each primitive mutation of the
  store does to each observable (`bk`, `used`, `next`, the scalar fields), the universal re-hash lands
  in the table, counting used buckets.
-/
import ParsecVerif.Model.HashTable
import ParsecVerif.Base.Interleave

namespace ParsecVerif.HashTable

@[simp] theorem upd_same {α : Type} (f : Nat → α) (a : Nat) (v : α) : upd f a v a = v := by simp [upd]

theorem upd_ne {α : Type} (f : Nat → α) (a : Nat) (v : α) (x : Nat) (h : x ≠ a) : upd f a v x = f x := by
  simp [upd, h]

theorem upd_apply {α : Type} (f : Nat → α) (a : Nat) (v : α) (x : Nat) : upd f a v x = if x = a then v else f x := rfl

/-! ## the universal re-hash lands in the table -/

theorem rehash_lt (h64 nb : Nat) : rehash h64 nb < 2 ^ nb := by
  unfold rehash
  apply Nat.div_lt_of_lt_mul
  rw [← Nat.pow_add]
  exact Nat.mod_lt _ (Nat.pow_pos (by decide))

/-! ## `setBk` -/

theorem bk_setBk (s : Store) (T b : Nat) (B : Bucket) (T' b' : Nat) :
    (s.setBk T b B).bk T' b' = if T' = T ∧ b' = b then B else s.bk T' b' := by
  unfold Store.setBk Store.bk
  by_cases hT : T' = T
  · subst hT
    by_cases hb : b' = b
    · subst hb; simp
    · simp [upd_apply, hb]
  · simp [upd_apply, hT]

@[simp] theorem used_setBk (s : Store) (T b : Nat) (B : Bucket) (T' : Nat) :
    ((s.setBk T b B).tab T').used = (s.tab T').used := by
  unfold Store.setBk
  by_cases hT : T' = T
  · subst hT; simp
  · simp [upd_apply, hT]

@[simp] theorem next_setBk (s : Store) (T b : Nat) (B : Bucket) (T' : Nat) :
    ((s.setBk T b B).tab T').next = (s.tab T').next := by
  unfold Store.setBk
  by_cases hT : T' = T
  · subst hT; simp
  · simp [upd_apply, hT]

@[simp] theorem top_setBk (s : Store) (T b : Nat) (B : Bucket) : (s.setBk T b B).top = s.top := rfl
@[simp] theorem nb0_setBk (s : Store) (T b : Nat) (B : Bucket) : (s.setBk T b B).nb0 = s.nb0 := rfl
@[simp] theorem hf_setBk (s : Store) (T b : Nat) (B : Bucket) : (s.setBk T b B).hf = s.hf := rfl
@[simp] theorem abs_setBk (s : Store) (T b : Nat) (B : Bucket) : (s.setBk T b B).abs = s.abs := rfl
@[simp] theorem kheld_setBk (s : Store) (T b : Nat) (B : Bucket) : (s.setBk T b B).kheld = s.kheld := rfl
@[simp] theorem hint_setBk (s : Store) (T b : Nat) (B : Bucket) : (s.setBk T b B).hint = s.hint := rfl
@[simp] theorem maxb_setBk (s : Store) (T b : Nat) (B : Bucket) : (s.setBk T b B).maxb = s.maxb := rfl

/-! ## the observables after each primitive mutation -/

section obs
variable (s : Store) (T b : Nat) (T' b' : Nat)

theorem items_setLock (v : Nat) : ((s.setLock T b v).bk T' b').items = (s.bk T' b').items := by
  unfold Store.setLock; rw [bk_setBk]; split
  · rename_i h; rw [h.1, h.2]
  · rfl

theorem len_setLock (v : Nat) : ((s.setLock T b v).bk T' b').len = (s.bk T' b').len := by
  unfold Store.setLock; rw [bk_setBk]; split
  · rename_i h; rw [h.1, h.2]
  · rfl

theorem lock_setLock (v : Nat) :
    ((s.setLock T b v).bk T' b').lock = if T' = T ∧ b' = b then v else (s.bk T' b').lock := by
  unfold Store.setLock; rw [bk_setBk]; split <;> rfl

theorem lock_pushFront (it : Item) : ((s.pushFront T b it).bk T' b').lock = (s.bk T' b').lock := by
  unfold Store.pushFront; rw [bk_setBk]; split
  · rename_i h; rw [h.1, h.2]
  · rfl

theorem items_pushFront (it : Item) :
    ((s.pushFront T b it).bk T' b').items = if T' = T ∧ b' = b then it :: (s.bk T b).items else (s.bk T' b').items := by
  unfold Store.pushFront; rw [bk_setBk]; split <;> rfl

theorem len_pushFront (it : Item) :
    ((s.pushFront T b it).bk T' b').len = if T' = T ∧ b' = b then (s.bk T b).len + 1 else (s.bk T' b').len := by
  unfold Store.pushFront; rw [bk_setBk]; split <;> rfl

theorem lock_eraseIt (it : Item) : ((s.eraseIt T b it).bk T' b').lock = (s.bk T' b').lock := by
  unfold Store.eraseIt; rw [bk_setBk]; split
  · rename_i h; rw [h.1, h.2]
  · rfl

theorem items_eraseIt (it : Item) :
    ((s.eraseIt T b it).bk T' b').items = if T' = T ∧ b' = b then (s.bk T b).items.erase it else (s.bk T' b').items := by
  unfold Store.eraseIt; rw [bk_setBk]; split <;> rfl

theorem len_eraseIt (it : Item) :
    ((s.eraseIt T b it).bk T' b').len = if T' = T ∧ b' = b then (s.bk T b).len - 1 else (s.bk T' b').len := by
  unfold Store.eraseIt; rw [bk_setBk]; split <;> rfl

@[simp] theorem used_setLock (v : Nat) : ((s.setLock T b v).tab T').used = (s.tab T').used := by
  unfold Store.setLock; simp
@[simp] theorem next_setLock (v : Nat) : ((s.setLock T b v).tab T').next = (s.tab T').next := by
  unfold Store.setLock; simp
@[simp] theorem used_pushFront (it : Item) : ((s.pushFront T b it).tab T').used = (s.tab T').used := by
  unfold Store.pushFront; simp
@[simp] theorem next_pushFront (it : Item) : ((s.pushFront T b it).tab T').next = (s.tab T').next := by
  unfold Store.pushFront; simp
@[simp] theorem used_eraseIt (it : Item) : ((s.eraseIt T b it).tab T').used = (s.tab T').used := by
  unfold Store.eraseIt; simp
@[simp] theorem next_eraseIt (it : Item) : ((s.eraseIt T b it).tab T').next = (s.tab T').next := by
  unfold Store.eraseIt; simp

@[simp] theorem bk_decUsed : ((s.decUsed T).bk T' b') = s.bk T' b' := by
  unfold Store.decUsed Store.bk
  by_cases hT : T' = T
  · subst hT; simp
  · simp [upd_apply, hT]

theorem used_decUsed : ((s.decUsed T).tab T').used = if T' = T then (s.tab T).used - 1 else (s.tab T').used := by
  unfold Store.decUsed
  by_cases hT : T' = T
  · subst hT; simp
  · simp [upd_apply, hT]

@[simp] theorem next_decUsed : ((s.decUsed T).tab T').next = (s.tab T').next := by
  unfold Store.decUsed
  by_cases hT : T' = T
  · subst hT; simp
  · simp [upd_apply, hT]

@[simp] theorem bk_setNext (v : Nat) : ((s.setNext T v).bk T' b') = s.bk T' b' := by
  unfold Store.setNext Store.bk
  by_cases hT : T' = T
  · subst hT; simp
  · simp [upd_apply, hT]

@[simp] theorem used_setNext (v : Nat) : ((s.setNext T v).tab T').used = (s.tab T').used := by
  unfold Store.setNext
  by_cases hT : T' = T
  · subst hT; simp
  · simp [upd_apply, hT]

theorem next_setNext (v : Nat) : ((s.setNext T v).tab T').next = if T' = T then v else (s.tab T').next := by
  unfold Store.setNext
  by_cases hT : T' = T
  · subst hT; simp
  · simp [upd_apply, hT]

end obs

/-! ## resize -/

theorem bk_resize (s : Store) (T b : Nat) :
    (s.resize).bk T b = if T = s.top + 1 then ({} : Bucket) else s.bk T b := by
  unfold Store.resize Store.bk
  by_cases h1 : T = s.top + 1
  · subst h1; simp
  · by_cases h2 : T = s.top
    · subst h2; simp [upd_apply]
    · simp [upd_apply, h1, h2]

theorem next_resize (s : Store) (T : Nat) :
    ((s.resize).tab T).next = if T = s.top + 1 then s.top else (s.tab T).next := by
  unfold Store.resize
  by_cases h1 : T = s.top + 1
  · subst h1; simp
  · by_cases h2 : T = s.top
    · subst h2; simp [upd_apply]
    · simp [upd_apply, h1, h2]

theorem used_resize (s : Store) (T : Nat) :
    ((s.resize).tab T).used = if T = s.top + 1 then 0 else if T = s.top then ((s.usedCount s.top : Nat) : Int) else (s.tab T).used := by
  unfold Store.resize
  by_cases h1 : T = s.top + 1
  · subst h1; simp
  · by_cases h2 : T = s.top
    · subst h2; simp [upd_apply]
    · simp [upd_apply, h1, h2]

@[simp] theorem top_resize (s : Store) : s.resize.top = s.top + 1 := rfl

/-! ## counting -/

/-- switching one counted position off lowers the count by one -/
theorem countP_range_off (n : Nat) (p q : Nat → Bool) (b0 : Nat) (hb : b0 < n) (hp : p b0 = true) (hq : q b0 = false)
    (hrest : ∀ b, b ≠ b0 → q b = p b) : (List.range n).countP q + 1 = (List.range n).countP p := by
  induction n with
  | zero => omega
  | succ n ih =>
    rw [List.range_succ, List.countP_append, List.countP_append]
    by_cases h : b0 = n
    · subst h
      have : (List.range b0).countP q = (List.range b0).countP p := by
        apply List.countP_congr
        intro x hx
        have : x ≠ b0 := by have := List.mem_range.1 hx; omega
        rw [hrest x this]
      simp [hp, hq, this]
    · have hlt : b0 < n := by omega
      have := ih hlt
      have hn : q n = p n := hrest n (fun h' => h h'.symm)
      simp only [List.countP_cons, List.countP_nil, hn]
      omega

theorem countP_range_same (n : Nat) (p q : Nat → Bool) (h : ∀ b, b < n → q b = p b) :
    (List.range n).countP q = (List.range n).countP p := by
  apply List.countP_congr
  intro x hx
  rw [h x (List.mem_range.1 hx)]

theorem countP_range_zero (n : Nat) (p : Nat → Bool) (h : (List.range n).countP p = 0) (b : Nat) (hb : b < n) : p b = false := by
  have := List.countP_eq_zero.1 h b (List.mem_range.2 hb)
  simpa using this

/-! ## finding in a chain -/

theorem scan_some {l : List Item} {k : Nat} {it : Item} (h : scan l k = some it) : it ∈ l ∧ it.key = k := by
  unfold scan at h
  exact ⟨List.mem_of_find?_eq_some h, by simpa using List.find?_some h⟩

theorem scan_none {l : List Item} {k : Nat} (h : scan l k = none) : ∀ it ∈ l, it.key ≠ k := by
  unfold scan at h
  intro it hit
  have := List.find?_eq_none.1 h it hit
  simpa using this

/-- in a list with pairwise distinct keys, the look-up of a key finds the member with that key -/
theorem lookup_of_mem {σ : List Item} (hp : σ.Pairwise fun a b => a.key ≠ b.key) {it : Item} (hm : it ∈ σ) :
    lookup σ it.key = some it := by
  induction σ with
  | nil => cases hm
  | cons x xs ih =>
    rw [List.pairwise_cons] at hp
    unfold lookup
    rw [List.find?_cons]
    rcases List.mem_cons.1 hm with h | h
    · subst h; simp
    · have : x.key ≠ it.key := hp.1 it h
      have hx : (x.key == it.key) = false := by simpa using this
      simp only [hx]
      exact ih hp.2 h

theorem lookup_none_of_not_mem {σ : List Item} {k : Nat} (h : ∀ it ∈ σ, it.key ≠ k) : lookup σ k = none := by
  unfold lookup
  apply List.find?_eq_none.2
  intro it hit
  simpa using h it hit

theorem lookup_some {σ : List Item} {k : Nat} {it : Item} (h : lookup σ k = some it) : it ∈ σ ∧ it.key = k :=
  scan_some h

end ParsecVerif.HashTable
