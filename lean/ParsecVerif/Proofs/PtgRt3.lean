import ParsecVerif.Proofs.PtgRt
/-! Three more invariants of the generic dataflow machine, used by C01 / C16 on programs:
    only nodes of the graph appear in a trace; DONE is final (no start / AGAIN of a node after its completion);
    every dependency is released exactly as many times as it is declared. -/
namespace ParsecVerif.PtgRt
open ParsecVerif.Dataflow

def evNode : Ev → Nat
  | .start i => i
  | .again i => i
  | .end_ i => i

section machine
variable {g : Graph} {F : Nat → List (Option Nat) → Nat} {rank : Nat → Nat}

/-- effect of one enabled transition on the trace -/
theorem step_log (s : St) (t : Tr) :
    (step g F s t).log = s.log ∨
    (∃ i, t = .start i ∧ s.status[i]? = some .ready ∧ (step g F s t).log = s.log ++ [.start i]) ∨
    (∃ i, t = .again i ∧ s.status[i]? = some .running ∧ (step g F s t).log = s.log ++ [.again i]) ∨
    (∃ i, t = .finish i ∧ s.status[i]? = some .running ∧ (step g F s t).log = s.log ++ [.end_ i]) := by
  unfold step
  by_cases hen : enabled s t = true
  · rw [if_neg (by simp [hen])]
    cases t with
    | start i => right; left; exact ⟨i, rfl, by simpa [enabled] using hen, rfl⟩
    | again i =>
      right; right; left
      simp only [enabled, Bool.and_eq_true, beq_iff_eq] at hen
      exact ⟨i, rfl, hen.1, rfl⟩
    | finish i =>
      right; right; right
      simp only [enabled, Bool.and_eq_true, beq_iff_eq] at hen
      exact ⟨i, rfl, hen.1, rfl⟩
    | release a b => left; rfl
  · rw [if_pos (by simpa using hen)]; left; rfl

/-- lifting an invariant of (state satisfying `Inv`) to all runs -/
theorem run_induction (hwf : WF g rank) (P : St → Prop) (again : List Nat)
    (h0 : P (init g again)) (hstep : ∀ s t, Inv g F s → P s → P (step g F s t)) (ts : List Tr) :
    P (run g F again ts) := by
  have key : ∀ (ts : List Tr) (s : St), Inv g F s → P s → P (ts.foldl (step g F) s) := by
    intro ts
    induction ts with
    | nil => intro s _ h2; exact h2
    | cons t ts ih => intro s h1 h2; exact ih _ (inv_step hwf s h1 t) (hstep s t h1 h2)
  exact key ts _ (inv_init g F again rank hwf) h0

/-- only nodes of the graph appear in a trace -/
theorem log_nodes_lt (hwf : WF g rank) (again : List Nat) (ts : List Tr) :
    ∀ ev ∈ (run g F again ts).log, evNode ev < g.n := by
  apply run_induction (F := F) hwf (fun s => ∀ ev ∈ s.log, evNode ev < g.n) again
  · intro ev h; cases h
  · intro s t hinv hP
    have hlt : ∀ (i : Nat) (st : Status), s.status[i]? = some st → i < g.n := fun i st h =>
      hinv.len ▸ (List.getElem?_eq_some_iff.1 h).1
    rcases step_log (g := g) (F := F) s t with h | ⟨i, _, hs, h⟩ | ⟨i, _, hs, h⟩ | ⟨i, _, hs, h⟩
    · rw [h]; exact hP
    all_goals
      rw [h]
      intro ev hev
      rcases List.mem_append.1 hev with h1 | h1
      · exact hP ev h1
      · simp only [List.mem_singleton] at h1
        subst h1
        exact hlt i _ hs

/-- **DONE is final**: after the completion of a node its body is neither started nor answers AGAIN any more -/
theorem done_is_final (hwf : WF g rank) (again : List Nat) (ts : List Tr) :
    ∀ L1 L2 i, (run g F again ts).log = L1 ++ Ev.end_ i :: L2 → Ev.start i ∉ L2 ∧ Ev.again i ∉ L2 := by
  apply run_induction (F := F) hwf
    (fun s => ∀ L1 L2 i, s.log = L1 ++ Ev.end_ i :: L2 → Ev.start i ∉ L2 ∧ Ev.again i ∉ L2) again
  · intro L1 L2 i h
    have : (init g again).log = [] := rfl
    rw [this] at h
    cases L1 <;> simp at h
  · intro s t hinv hP
    have hended : ∀ L1 L2 i, s.log = L1 ++ Ev.end_ i :: L2 → s.status[i]? = some .ended := by
      intro L1 L2 i hl
      have hc := hinv.cnt i
      have : 0 < s.log.count (.end_ i) := List.count_pos_iff.2 (by rw [hl]; simp)
      split at hc
      · assumption
      · omega
    rcases step_log (g := g) (F := F) s t with h | ⟨k, _, hs, h⟩ | ⟨k, _, hs, h⟩ | ⟨k, _, hs, h⟩
    · rw [h]; exact hP
    · rw [h]
      intro L1 L2 i hl
      rcases append_singleton_decomp' hl with ⟨_, _, hx⟩ | ⟨L2', hL2, hL⟩
      · cases hx
      · have := hP L1 L2' i hL
        have hne : k ≠ i := by
          intro e; subst e
          rw [hended L1 L2' k hL] at hs; cases hs
        subst hL2
        constructor
        · intro hm
          rcases List.mem_append.1 hm with h1 | h1
          · exact this.1 h1
          · simp only [List.mem_singleton] at h1; injection h1 with h1; exact hne h1.symm
        · intro hm
          rcases List.mem_append.1 hm with h1 | h1
          · exact this.2 h1
          · simp at h1
    · rw [h]
      intro L1 L2 i hl
      rcases append_singleton_decomp' hl with ⟨_, _, hx⟩ | ⟨L2', hL2, hL⟩
      · cases hx
      · have := hP L1 L2' i hL
        have hne : k ≠ i := by
          intro e; subst e
          rw [hended L1 L2' k hL] at hs; cases hs
        subst hL2
        constructor
        · intro hm
          rcases List.mem_append.1 hm with h1 | h1
          · exact this.1 h1
          · simp at h1
        · intro hm
          rcases List.mem_append.1 hm with h1 | h1
          · exact this.2 h1
          · simp only [List.mem_singleton] at h1; injection h1 with h1; exact hne h1.symm
    · rw [h]
      intro L1 L2 i hl
      rcases append_singleton_decomp' hl with ⟨hL2, _, _⟩ | ⟨L2', hL2, hL⟩
      · subst hL2; exact ⟨by simp, by simp⟩
      · have := hP L1 L2' i hL
        subst hL2
        constructor
        · intro hm
          rcases List.mem_append.1 hm with h1 | h1
          · exact this.1 h1
          · simp at h1
        · intro hm
          rcases List.mem_append.1 hm with h1 | h1
          · exact this.2 h1
          · simp at h1

end machine

/-! ### every dependency is released exactly once per declaration -/

/-- number of EFFECTIVE `release e` transitions of a schedule (enabled when taken: source ended, dependency pending) -/
def relCount (g : Graph) (F : Nat → List (Option Nat) → Nat) (e : Nat × Nat) : St → List Tr → Nat
  | _, [] => 0
  | s, t :: ts => (if t = Tr.release e.1 e.2 ∧ enabled s t = true then 1 else 0) + relCount g F e (step g F s t) ts

theorem step_pending (g : Graph) (F : Nat → List (Option Nat) → Nat) (s : St) (t : Tr) (e : Nat × Nat) :
    (step g F s t).pending.count e + (if t = Tr.release e.1 e.2 ∧ enabled s t = true then 1 else 0) = s.pending.count e := by
  unfold step
  by_cases hen : enabled s t = true
  · rw [if_neg (by simp [hen])]
    cases t with
    | start i => simp
    | again i => simp
    | finish i => simp
    | release a b =>
      have hmem : (a, b) ∈ s.pending := by
        simp only [enabled, Bool.and_eq_true, beq_iff_eq, List.contains_iff_mem] at hen; exact hen.2
      show (s.pending.erase (a, b)).count e + _ = _
      by_cases he : e = (a, b)
      · subst he
        have hpos : 0 < s.pending.count (a, b) := List.count_pos_iff.2 hmem
        rw [List.count_erase_self]
        simp [hen]; omega
      · rw [List.count_erase_of_ne he]
        have : ¬ (Tr.release a b = Tr.release e.1 e.2 ∧ enabled s (Tr.release a b) = true) := by
          intro h; apply he
          have := h.1; injection this with h1 h2
          exact Prod.ext h1.symm h2.symm
        rw [if_neg this]; rfl
  · rw [if_pos (by simpa using hen)]
    have : ¬ (t = Tr.release e.1 e.2 ∧ enabled s t = true) := fun h => hen h.2
    rw [if_neg this]; rfl

theorem relCount_spec (g : Graph) (F : Nat → List (Option Nat) → Nat) (e : Nat × Nat) (ts : List Tr) :
    ∀ s : St, (ts.foldl (step g F) s).pending.count e + relCount g F e s ts = s.pending.count e := by
  induction ts with
  | nil => intro s; simp [relCount]
  | cons t ts ih =>
    intro s
    simp only [List.foldl_cons, relCount]
    have h1 := ih (step g F s t)
    have h2 := step_pending g F s t e
    omega

end ParsecVerif.PtgRt
