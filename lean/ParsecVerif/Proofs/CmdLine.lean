import ParsecVerif.Model.CmdLine
/-! Helper lemmas for C39 (command-line parsing). -/
namespace ParsecVerif.CmdLine
open ParsecVerif.Argv

/-- one well-formed option occurrence on the command line: the token, the option it names
    (position `k`, descriptor `o`) and its parameters -/
structure Item where
  tok : Str
  k : Nat
  o : Opt
  ps : List Str

/-- the lookup `parsec_cmd_line_parse` performs for a token that starts with a dash -/
def lookup (opts : List Opt) (tok : Str) : Option (Nat × Opt) :=
  if tok.take 2 = [dash, dash] then find opts (tok.drop 2) else find opts (tok.drop 1)

/-- `--name`, `-name` or `-c` naming a declared option, followed by exactly its number of
    parameters, none of which is the special empty token -/
def Item.ok (opts : List Opt) (it : Item) : Prop :=
  it.tok ≠ [dash, dash] ∧ it.tok.head? = some dash ∧ lookup opts it.tok = some (it.k, it.o) ∧
  it.ps.length = it.o.nparams.toNat ∧ special ∉ it.ps

def render (items : List Item) : List Str := items.flatMap (fun it => it.tok :: it.ps)

/-- how the command line ends after the well-formed option occurrences -/
inductive Ending where
  | none                                   -- all tokens consumed
  | dashdash (t : List Str)                -- `--` then arbitrary tokens
  | token (x : Str) (t : List Str)         -- a token that does not start with a dash, then anything
  | unknown (x : Str) (t : List Str)       -- a dash token naming no declared option, then anything
  | missing (it : Item)                    -- a declared option with too few parameters, end of line

def Ending.toks : Ending → List Str
  | .none => []
  | .dashdash t => [dash, dash] :: t
  | .token x t => x :: t
  | .unknown x t => x :: t
  | .missing it => it.tok :: it.ps

def Ending.tail : Ending → List Str
  | .none => []
  | .dashdash t => t
  | .token x t => x :: t
  | .unknown x t => x :: t
  | .missing _ => []

def Ending.ok (opts : List Opt) : Ending → Prop
  | .token x _ => x.head? ≠ some dash
  | .unknown x _ => x ≠ [dash, dash] ∧ x.head? = some dash ∧ lookup opts x = Option.none ∧
      (x.take 2 ≠ [dash, dash] → find opts ((x.drop 1).take 1) = Option.none)
  | .missing it => it.tok ≠ [dash, dash] ∧ it.tok.head? = some dash ∧
      lookup opts it.tok = some (it.k, it.o) ∧ it.ps.length < it.o.nparams.toNat ∧ special ∉ it.ps
  | _ => True

/-- an unrecognised token is an error unless unknowns are ignored; an unknown option or a missing
    parameter always is -/
def Ending.err (ign : Bool) : Ending → Bool
  | .token _ _ => !ign
  | .unknown _ _ => true
  | .missing _ => true
  | _ => false

theorem takeParams_ok (ps rest : List Str) (h : special ∉ ps) :
    takeParams ps.length (ps ++ rest) = (some (ps, rest), []) := by
  induction ps with
  | nil => simp [takeParams]
  | cons a r ih =>
    have ha : a ≠ special := fun e => h (by simp [e])
    have hr : special ∉ r := fun e => h (List.mem_cons_of_mem _ e)
    simp only [List.length_cons, List.cons_append, takeParams, if_neg ha, ih hr]

theorem step_item (nulled : Bool) (opts : List Opt) (ign : Bool) (pre : List Str) (it : Item) (rest : List Str)
    (params : List Param) (h : it.ok opts) :
    step nulled opts ign pre it.tok (it.ps ++ rest) params =
      .next (pre ++ [it.tok] ++ it.ps) rest (params ++ [(it.k, it.ps)]) := by
  obtain ⟨h1, h2, h3, h4, h5⟩ := h
  have hh : handle nulled pre params it.k it.o (it.tok :: (it.ps ++ rest)) =
      .next (pre ++ [it.tok] ++ it.ps) rest (params ++ [(it.k, it.ps)]) := by
    simp only [handle, List.tail_cons, ← h4, takeParams_ok it.ps rest h5, List.head?_cons,
      Option.toList_some]
  unfold step
  rw [if_neg h1, if_neg (by simp [h2])]
  unfold lookup at h3
  split
  · rename_i hl
    rw [if_pos hl] at h3
    rw [h3]; exact hh
  · rename_i hl
    rw [if_neg hl] at h3
    rw [h3]; exact hh

theorem takeParams_short (ps : List Str) (n : Nat) (h : special ∉ ps) (hn : ps.length < n) :
    takeParams n ps = (none, []) := by
  induction ps generalizing n with
  | nil =>
    obtain ⟨m, rfl⟩ : ∃ m, n = m + 1 := ⟨n - 1, by simp at hn; omega⟩
    simp [takeParams]
  | cons a r ih =>
    obtain ⟨m, rfl⟩ : ∃ m, n = m + 1 := ⟨n - 1, by simp at hn; omega⟩
    have ha : a ≠ special := fun e => h (by simp [e])
    have hr : special ∉ r := fun e => h (List.mem_cons_of_mem _ e)
    simp only [takeParams, if_neg ha, ih m hr (by simp at hn; omega)]

theorem specialAt_none (ps : List Str) (n : Nat) (h : special ∉ ps) : specialAt n ps = none := by
  induction ps generalizing n with
  | nil => cases n <;> simp [specialAt]
  | cons a r ih =>
    cases n with
    | zero => simp [specialAt]
    | succ m =>
      have ha : a ≠ special := fun e => h (by simp [e])
      have hr : special ∉ r := fun e => h (List.mem_cons_of_mem _ e)
      simp [specialAt, if_neg ha, ih m hr]

theorem splitLetters_head (opts : List Opt) (ign : Bool) (args : List Str) (c : Nat) (cs : List Nat)
    (used : Nat) (sv : List Str) (u : Nat)
    (h : splitLetters opts ign args (c :: cs) used = some (sv, u)) : sv.headD [] = [dash, c] := by
  simp only [splitLetters] at h
  split at h
  · split at h
    · simp at h
    · split at h
      · simp at h
      · simp only [Option.some.injEq, Prod.mk.injEq] at h; rw [← h.1]; rfl
  · split at h
    · simp at h
    · simp only [Option.some.injEq, Prod.mk.injEq] at h; rw [← h.1]; rfl

theorem step_unknown (nulled : Bool) (opts : List Opt) (ign : Bool) (pre : List Str) (params : List Param)
    (x : Str) (t : List Str) (h1 : x ≠ [dash, dash]) (h2 : x.head? = some dash)
    (h3 : lookup opts x = none)
    (h4 : x.take 2 ≠ [dash, dash] → find opts ((x.drop 1).take 1) = none) :
    step nulled opts ign pre x t params = .done (finish true pre (x :: t) params (x :: t)) := by
  unfold step
  rw [if_neg h1, if_neg (by simp [h2])]
  unfold lookup at h3
  split
  · rename_i hl
    rw [if_pos hl] at h3
    rw [h3]
  · rename_i hl
    rw [if_neg hl] at h3
    rw [h3]
    simp only
    have h4' := h4 hl
    by_cases hne : x.drop 1 = []
    · simp only [splitShorts, hne, if_true]
    · obtain ⟨c, cs, hc⟩ := List.exists_cons_of_ne_nil hne
      rw [hc] at h4' ⊢
      simp only [List.take_succ_cons, List.take_zero] at h4'
      have hcne : (c :: cs) ≠ [] := by simp
      simp only [splitShorts, if_neg hcne]
      cases hs : splitLetters opts ign t (c :: cs) 0 with
      | none => rfl
      | some r =>
        obtain ⟨sv, u⟩ := r
        simp only
        rw [splitLetters_head opts ign t c cs 0 sv u hs]
        simp only [List.drop_succ_cons, List.drop_zero, h4']

theorem step_ending (nulled : Bool) (opts : List Opt) (ign : Bool) (pre : List Str) (params : List Param)
    (x : Str) (t : List Str) (e : Ending) (he : e.ok opts) (hx : e.toks = x :: t) :
    step nulled opts ign pre x t params =
      .done { rc := if e.err ign then ERROR else SUCCESS, argv := pre ++ e.toks, params := params,
              tail := e.tail } := by
  cases e with
  | none => simp [Ending.toks] at hx
  | dashdash t' =>
    simp only [Ending.toks, List.cons.injEq] at hx
    obtain ⟨rfl, rfl⟩ := hx
    simp [step, finish, Ending.err, Ending.toks, Ending.tail]
  | token x' t' =>
    simp only [Ending.toks, List.cons.injEq] at hx
    obtain ⟨rfl, rfl⟩ := hx
    have h1 : x' ≠ [dash, dash] := by
      intro e; rw [e] at he; simp [Ending.ok] at he
    simp only [Ending.ok] at he
    unfold step
    rw [if_neg h1, if_pos he]
    simp [finish, Ending.err, Ending.toks, Ending.tail]
  | unknown x' t' =>
    simp only [Ending.toks, List.cons.injEq] at hx
    obtain ⟨rfl, rfl⟩ := hx
    obtain ⟨h1, h2, h3, h4⟩ := he
    rw [step_unknown nulled opts ign pre params x' t' h1 h2 h3 h4]
    simp [finish, Ending.err, Ending.toks, Ending.tail]
  | missing it =>
    simp only [Ending.toks, List.cons.injEq] at hx
    obtain ⟨rfl, rfl⟩ := hx
    obtain ⟨h1, h2, h3, h4, h5⟩ := he
    have hh : handle nulled pre params it.k it.o (it.tok :: it.ps) =
        .done (finish true pre (it.tok :: it.ps) params []) := by
      simp only [handle, List.tail_cons, takeParams_short it.ps _ h5 h4, doubleFrees,
        specialAt_none it.ps _ h5]
      rfl
    have : step nulled opts ign pre it.tok it.ps params =
        .done (finish true pre (it.tok :: it.ps) params []) := by
      unfold step
      rw [if_neg h1, if_neg (by simp [h2])]
      unfold lookup at h3
      split
      · rename_i hl
        rw [if_pos hl] at h3
        rw [h3]; exact hh
      · rename_i hl
        rw [if_neg hl] at h3
        rw [h3]; exact hh
    rw [this]
    simp [finish, Ending.err, Ending.toks, Ending.tail]

theorem parseLoop_wellformed (nulled : Bool) (opts : List Opt) (ign : Bool) (items : List Item) (e : Ending)
    (h : ∀ it ∈ items, it.ok opts) (he : e.ok opts) :
    ∀ (fuel : Nat) (pre : List Str) (params : List Param), items.length + 1 ≤ fuel →
      parseLoop nulled opts ign fuel pre (render items ++ e.toks) params =
        { rc := if e.err ign then ERROR else SUCCESS, argv := pre ++ render items ++ e.toks,
          params := params ++ items.map (fun it => (it.k, it.ps)), tail := e.tail } := by
  induction items with
  | nil =>
    intro fuel pre params hf
    obtain ⟨f, rfl⟩ : ∃ f, fuel = f + 1 := ⟨fuel - 1, by omega⟩
    simp only [render, List.flatMap_nil, List.nil_append, List.map_nil, List.append_nil]
    cases hx : e.toks with
    | nil =>
      cases e with
      | none => simp [parseLoop, finish, Ending.err, Ending.tail]
      | dashdash t => simp [Ending.toks] at hx
      | token x t => simp [Ending.toks] at hx
      | unknown x t => simp [Ending.toks] at hx
      | missing it => simp [Ending.toks] at hx
    | cons x t =>
      simp only [parseLoop]
      rw [step_ending nulled opts ign pre params x t e he hx, hx]
  | cons it r ih =>
    intro fuel pre params hf
    obtain ⟨f, rfl⟩ : ∃ f, fuel = f + 1 := ⟨fuel - 1, by simp at hf; omega⟩
    have hit := h it (by simp)
    have hr : ∀ i ∈ r, i.ok opts := fun i hi => h i (List.mem_cons_of_mem _ hi)
    have : render (it :: r) ++ e.toks = it.tok :: (it.ps ++ (render r ++ e.toks)) := by
      simp [render, List.flatMap_cons]
    rw [this]
    simp only [parseLoop]
    rw [step_item nulled opts ign pre it _ params hit]
    simp only
    rw [ih hr f _ _ (by simp at hf; omega)]
    simp [render, List.flatMap_cons]

theorem fuelFor_ge (l : List Str) : l.length + 1 ≤ fuelFor l := by
  unfold fuelFor
  induction l with
  | nil => simp
  | cons a r ih => simp only [List.map_cons, List.sum_cons, List.length_cons]; omega

theorem render_length (items : List Item) : items.length ≤ (render items).length := by
  induction items with
  | nil => simp [render]
  | cons a r ih =>
    simp only [render, List.flatMap_cons, List.length_append, List.length_cons] at *
    omega

theorem findFrom_some (opts : List Opt) (name : Str) (k0 k : Nat) (o : Opt)
    (h : findFrom k0 opts name = some (k, o)) : k0 ≤ k ∧ opts[k - k0]? = some o := by
  induction opts generalizing k0 with
  | nil => simp [findFrom] at h
  | cons a r ih =>
    simp only [findFrom] at h
    split at h
    · simp only [Option.some.injEq, Prod.mk.injEq] at h
      obtain ⟨rfl, rfl⟩ := h
      simp
    · have := ih (k0 + 1) h
      refine ⟨by omega, ?_⟩
      have h2 : k - k0 = (k - (k0 + 1)) + 1 := by omega
      rw [h2, List.getElem?_cons_succ]; exact this.2

theorem find_some (opts : List Opt) (name : Str) (k : Nat) (o : Opt)
    (h : find opts name = some (k, o)) : opts[k]? = some o := by
  have := findFrom_some opts name 0 k o h
  simpa using this.2

theorem shortParams_enough (args : List Str) (n used : Nat) (h : used + n ≤ args.length) :
    shortParams args n used = ((args.drop used).take n, used + n) := by
  induction n generalizing used with
  | zero => simp [shortParams]
  | succ m ih =>
    have hlt : used < args.length := by omega
    simp only [shortParams, if_pos hlt, ih (used + 1) (by omega)]
    have : args.drop used = args.getD used [] :: args.drop (used + 1) := by
      rw [List.getD_eq_getElem?_getD, List.getElem?_eq_getElem hlt]
      simp
    rw [this]
    simp only [List.take_succ_cons, Prod.mk.injEq, true_and]
    omega

/-- "-abc" is equivalent to "-a -b -c": every letter followed by its parameters, taken in order
    from the tokens behind the bundle -/
def expand (opts : List Opt) : List Nat → List Str → List Str
  | [], more => more
  | c :: cs, more =>
    match find opts [c] with
    | some (_, o) =>
      [dash, c] :: (more.take o.nparams.toNat ++ expand opts cs (more.drop o.nparams.toNat))
    | none => more

/-- total number of parameters the letters of a bundle ask for (`none` if a letter is unknown) -/
def need (opts : List Opt) : List Nat → Option Nat
  | [] => some 0
  | c :: cs =>
    match find opts [c], need opts cs with
    | some (_, o), some n => some (o.nparams.toNat + n)
    | _, _ => none

theorem splitLetters_expand (opts : List Opt) (ign : Bool) (args : List Str) (cs : List Nat)
    (used n : Nat) (hn : need opts cs = some n) (hlen : used + n ≤ args.length) :
    ∃ sv, splitLetters opts ign args cs used = some (sv, used + n) ∧
      sv ++ args.drop (used + n) = expand opts cs (args.drop used) := by
  induction cs generalizing used n with
  | nil =>
    simp only [need, Option.some.injEq] at hn
    subst hn
    exact ⟨[], by simp [splitLetters], by simp [expand]⟩
  | cons c r ih =>
    simp only [need] at hn
    cases hf : find opts [c] with
    | none => simp [hf] at hn
    | some ko =>
      obtain ⟨k, o⟩ := ko
      cases hr : need opts r with
      | none => simp [hf, hr] at hn
      | some m =>
        simp only [hf, hr, Option.some.injEq] at hn
        subst hn
        obtain ⟨sv, h1, h2⟩ := ih (used + o.nparams.toNat) m hr (by omega)
        refine ⟨[dash, c] :: (args.drop used).take o.nparams.toNat ++ sv, ?_, ?_⟩
        · have hsp := shortParams_enough args o.nparams.toNat used (by omega)
          simp only [splitLetters, hf, hsp, h1, Nat.add_assoc]
        · simp only [expand, hf, List.cons_append, List.append_assoc, List.drop_drop]
          rw [← h2]
          have e1 : used + (o.nparams.toNat + m) = used + o.nparams.toNat + m := by omega
          rw [e1]
theorem doubleFrees_nulled (n : Nat) (l : List Str) : doubleFrees true n l = false := by
  unfold doubleFrees; split <;> rfl

theorem handle_no_double_free (pre : List Str) (params : List Param) (k : Nat) (o : Opt)
    (rest' : List Str) (r : Result) (h : handle true pre params k o rest' = .done r) :
    r.doubleFree = false := by
  unfold handle at h
  split at h
  · simp at h
  · simp only [Step.done.injEq] at h
    rw [← h]; exact doubleFrees_nulled _ _

theorem step_no_double_free (opts : List Opt) (ign : Bool) (pre : List Str) (tok : Str)
    (more : List Str) (params : List Param) (r : Result)
    (h : step true opts ign pre tok more params = .done r) : r.doubleFree = false := by
  unfold step at h
  repeat' split at h
  all_goals first
    | (simp only [Step.done.injEq] at h; rw [← h]; rfl)
    | exact handle_no_double_free _ _ _ _ _ _ h

theorem parseLoop_no_double_free (opts : List Opt) (ign : Bool) (fuel : Nat) :
    ∀ (pre rest : List Str) (params : List Param),
      (parseLoop true opts ign fuel pre rest params).doubleFree = false := by
  induction fuel with
  | zero => intro pre rest params; rfl
  | succ f ih =>
    intro pre rest params
    cases rest with
    | nil => rfl
    | cons tok more =>
      simp only [parseLoop]
      cases hs : step true opts ign pre tok more params with
      | done r => exact step_no_double_free _ _ _ _ _ _ _ hs
      | next p r ps => exact ih p r ps
end ParsecVerif.CmdLine
