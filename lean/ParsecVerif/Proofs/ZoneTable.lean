import ParsecVerif.Proofs.Zone
/-! Helper lemmas for C28: the segment table read as a list of runs. -/
namespace ParsecVerif.Zone

/-- a run of the tiling: (status, units) -/
abbrev Run := Nat × Nat

def usum : List Run → Nat
  | [] => 0
  | r :: l => r.2 + usum l

def lastU (p : Nat) : List Run → Nat
  | [] => p
  | r :: l => lastU r.2 l

/-- the table holds the runs of L one after the other from index t on; p = units of the run before -/
def Chain (segs : List Seg) : Nat → Nat → List Run → Prop
  | _, _, [] => True
  | t, p, r :: l => segs[t]? = some ⟨r.1, r.2, p⟩ ∧ 0 < r.2 ∧ (r.1 = 1 ∨ r.1 = 2) ∧ Chain segs (t + r.2) r.2 l

/-- (first index, status, units) of every run -/
def starts : List Run → Nat → List (Nat × Nat × Nat)
  | [], _ => []
  | r :: l, t => (t, r.1, r.2) :: starts l (t + r.2)

def NoAdjE : List Run → Prop
  | [] => True
  | [_] => True
  | a :: b :: l => ¬(a.1 = 1 ∧ b.1 = 1) ∧ NoAdjE (b :: l)

def Pos (L : List Run) : Prop := ∀ r ∈ L, 0 < r.2

theorem usum_append (A B : List Run) : usum (A ++ B) = usum A + usum B := by
  induction A with
  | nil => simp [usum]
  | cons a A ih => simp [usum, ih]; omega

theorem lastU_append_cons (p : Nat) (A : List Run) (r : Run) (B : List Run) :
    lastU p (A ++ r :: B) = lastU r.2 B := by
  induction A generalizing p with
  | nil => rfl
  | cons a A ih => simp [lastU, ih]

theorem starts_append (A B : List Run) (t : Nat) :
    starts (A ++ B) t = starts A t ++ starts B (t + usum A) := by
  induction A generalizing t with
  | nil => simp [starts, usum]
  | cons a A ih => simp [starts, usum, ih, Nat.add_assoc]

theorem chain_append (segs : List Seg) (t p : Nat) (A B : List Run) :
    Chain segs t p (A ++ B) ↔ Chain segs t p A ∧ Chain segs (t + usum A) (lastU p A) B := by
  induction A generalizing t p with
  | nil => simp [Chain, usum, lastU]
  | cons a A ih =>
    simp only [List.cons_append, Chain, usum, lastU, ih, Nat.add_assoc]
    constructor
    · rintro ⟨h1, h2, h3, h4, h5⟩; exact ⟨⟨h1, h2, h3, h4⟩, h5⟩
    · rintro ⟨⟨h1, h2, h3, h4⟩, h5⟩; exact ⟨h1, h2, h3, h4, h5⟩

theorem chain_pos (segs : List Seg) (t p : Nat) (L : List Run) (h : Chain segs t p L) : Pos L := by
  induction L generalizing t p with
  | nil => intro r hr; simp at hr
  | cons a L ih =>
    intro r hr
    rcases List.mem_cons.1 hr with rfl | hr
    · exact h.2.1
    · exact ih _ _ h.2.2.2 r hr

theorem chain_status (segs : List Seg) (t p : Nat) (L : List Run) (h : Chain segs t p L) :
    ∀ r ∈ L, r.1 = 1 ∨ r.1 = 2 := by
  induction L generalizing t p with
  | nil => intro r hr; simp at hr
  | cons a L ih =>
    intro r hr
    rcases List.mem_cons.1 hr with rfl | hr
    · exact h.2.2.1
    · exact ih _ _ h.2.2.2 r hr

/-- a write below the first run does not disturb the chain -/
theorem chain_set_lt (segs : List Seg) (i : Nat) (x : Seg) (t p : Nat) (L : List Run) (hi : i < t) :
    Chain (segs.set i x) t p L ↔ Chain segs t p L := by
  induction L generalizing t p with
  | nil => simp [Chain]
  | cons a L ih =>
    simp only [Chain]
    rw [List.getElem?_set_ne (by omega), ih (t + a.2) a.2 (by omega)]

/-- a write at or beyond the end of the runs does not disturb the chain -/
theorem chain_set_ge (segs : List Seg) (i : Nat) (x : Seg) (t p : Nat) (L : List Run)
    (h : Chain segs t p L) (hi : t + usum L ≤ i) : Chain (segs.set i x) t p L := by
  induction L generalizing t p with
  | nil => simp [Chain]
  | cons a L ih =>
    simp only [Chain, usum] at *
    obtain ⟨h1, h2, h3, h4⟩ := h
    refine ⟨?_, h2, h3, ih _ _ h4 (by omega)⟩
    rw [List.getElem?_set_ne (by omega)]; exact h1

theorem mem_starts_split (L : List Run) (off t st u : Nat) (h : (t, st, u) ∈ starts L off) :
    ∃ A B, L = A ++ (st, u) :: B ∧ t = off + usum A := by
  induction L generalizing off with
  | nil => simp [starts] at h
  | cons a L ih =>
    simp only [starts, List.mem_cons] at h
    rcases h with h | h
    · injection h with h1 h2; injection h2 with h2 h3
      exact ⟨[], L, by simp only [List.nil_append]; congr 1; exact Prod.ext h2.symm h3.symm, by simp [usum, h1]⟩
    · obtain ⟨A, B, hL, ht⟩ := ih _ h
      exact ⟨a :: A, B, by simp [hL], by simp [usum]; omega⟩

theorem mem_starts_bounds (L : List Run) (off t st u : Nat) (h : (t, st, u) ∈ starts L off) :
    off ≤ t ∧ t + u ≤ off + usum L := by
  obtain ⟨A, B, hL, ht⟩ := mem_starts_split L off t st u h
  subst hL; rw [usum_append]; simp only [usum]; omega

theorem mem_starts_pos (L : List Run) (hp : Pos L) (off t st u : Nat) (h : (t, st, u) ∈ starts L off) : 0 < u := by
  obtain ⟨A, B, hL, _⟩ := mem_starts_split L off t st u h
  subst hL; exact hp (st, u) (by simp)

theorem pos_append (A B : List Run) : Pos (A ++ B) ↔ Pos A ∧ Pos B := by
  unfold Pos; simp only [List.mem_append]
  constructor
  · intro h; exact ⟨fun r hr => h r (Or.inl hr), fun r hr => h r (Or.inr hr)⟩
  · rintro ⟨h1, h2⟩ r (hr | hr); exact h1 r hr; exact h2 r hr

/-- distinct runs start at distinct indices -/
theorem starts_tid_unique (L : List Run) (hp : Pos L) (off t st u st' u' : Nat)
    (h : (t, st, u) ∈ starts L off) (h' : (t, st', u') ∈ starts L off) : st = st' ∧ u = u' := by
  induction L generalizing off with
  | nil => simp [starts] at h
  | cons a L ih =>
    have hpa : 0 < a.2 := hp a List.mem_cons_self
    have hpl : Pos L := fun r hr => hp r (List.mem_cons_of_mem _ hr)
    simp only [starts, List.mem_cons] at h h'
    rcases h with h | h <;> rcases h' with h' | h'
    · injection h with _ h; injection h with h1 h2
      injection h' with _ h'; injection h' with h1' h2'
      exact ⟨by rw [h1, h1'], by rw [h2, h2']⟩
    · injection h with h1 _
      have := (mem_starts_bounds L _ _ _ _ h').1; omega
    · injection h' with h1 _
      have := (mem_starts_bounds L _ _ _ _ h).1; omega
    · exact ih hpl _ h h'

theorem noadj_append_cons (A : List Run) (r : Run) (B : List Run) :
    NoAdjE (A ++ r :: B) → NoAdjE A ∧ NoAdjE (r :: B) := by
  induction A with
  | nil => intro h; exact ⟨trivial, h⟩
  | cons a A ih =>
    intro h
    cases A with
    | nil => exact ⟨trivial, h.2⟩
    | cons a' A' =>
      have := ih h.2
      exact ⟨⟨h.1, this.1⟩, this.2⟩

/-! ### the table updates of zone_malloc / zone_free keep the chain -/

theorem chain_restatus (segs : List Seg) (A B : List Run) (st st' u : Nat) (hst : st' = 1 ∨ st' = 2)
    (h : Chain segs 0 1 (A ++ (st, u) :: B)) :
    Chain (segs.set (usum A) ⟨st', u, lastU 1 A⟩) 0 1 (A ++ (st', u) :: B) := by
  rw [chain_append] at h ⊢
  obtain ⟨hA, hB⟩ := h
  simp only [Chain, Nat.zero_add] at hB ⊢
  obtain ⟨h1, h2, h3, h4⟩ := hB
  have hlt : usum A < segs.length := by
    have := List.getElem?_eq_some_iff.1 h1; exact this.1
  refine ⟨chain_set_ge _ _ _ _ _ _ hA (by omega), ?_, h2, hst, ?_⟩
  · rw [List.getElem?_set_self hlt]
  · rw [chain_set_lt _ _ _ _ _ _ (by omega)]; exact h4

theorem chain_split (segs : List Seg) (A B : List Run) (k nb : Nat) (h0 : 0 < nb) (hk : nb < k)
    (h : Chain segs 0 1 (A ++ (1, k) :: B)) (htot : usum (A ++ (1, k) :: B) = segs.length) :
    Chain (splitSegs segs (usum A) nb k (lastU 1 A)) 0 1 (A ++ (2, nb) :: (1, k - nb) :: B) := by
  rw [chain_append] at h ⊢
  obtain ⟨hA, hB⟩ := h
  simp only [Chain, Nat.zero_add] at hB ⊢
  obtain ⟨h1, h2, h3, h4⟩ := hB
  rw [usum_append] at htot; simp only [usum] at htot
  have e1 : usum A + nb + (k - nb) = usum A + k := by omega
  rw [e1]
  cases B with
  | nil =>
    simp only [usum] at htot
    have hnone : (segs.set (usum A) ⟨2, k, lastU 1 A⟩)[usum A + k]? = none := by
      rw [List.getElem?_eq_none_iff, List.length_set]; omega
    unfold splitSegs fixNextPrev
    rw [hnone]
    simp only [Chain]
    refine ⟨?_, ?_, h0, by simp, ?_, by omega, by simp, trivial⟩
    · exact chain_set_ge _ _ _ _ _ _ (chain_set_ge _ _ _ _ _ _ (chain_set_ge _ _ _ _ _ _ hA (by omega)) (by omega)) (by omega)
    · rw [List.getElem?_set_self (by simp only [List.length_set]; omega)]
    · rw [List.getElem?_set_ne (by omega), List.getElem?_set_self (by simp only [List.length_set]; omega)]
  | cons b B =>
    simp only [Chain, usum] at h4 htot
    obtain ⟨g1, g2, g3, g4⟩ := h4
    have hsome : (segs.set (usum A) ⟨2, k, lastU 1 A⟩)[usum A + k]? = some ⟨b.1, b.2, k⟩ := by
      rw [List.getElem?_set_ne (by omega)]; exact g1
    unfold splitSegs fixNextPrev
    rw [hsome]
    simp only [Chain]
    refine ⟨?_, ?_, h0, by simp, ?_, by omega, by simp, ?_, g2, g3, ?_⟩
    · exact chain_set_ge _ _ _ _ _ _ (chain_set_ge _ _ _ _ _ _ (chain_set_ge _ _ _ _ _ _ (chain_set_ge _ _ _ _ _ _ hA (by omega)) (by omega)) (by omega)) (by omega)
    · rw [List.getElem?_set_self (by simp only [List.length_set]; omega)]
    · rw [List.getElem?_set_ne (by omega), List.getElem?_set_self (by simp only [List.length_set]; omega)]
    · rw [List.getElem?_set_ne (by omega), List.getElem?_set_ne (by omega), List.getElem?_set_self (by simp only [List.length_set]; omega)]
    · rw [chain_set_lt _ _ _ _ _ _ (by omega), chain_set_lt _ _ _ _ _ _ (by omega), chain_set_lt _ _ _ _ _ _ (by omega), chain_set_lt _ _ _ _ _ _ (by omega)]
      exact g4

/-- prev block of zone_free on the table: the EMPTY run before the (already EMPTY-marked) current
    run absorbs it -/
theorem chain_merge_prev (segs : List Seg) (A B : List Run) (pu c : Nat)
    (h : Chain segs 0 1 (A ++ (1, pu) :: (1, c) :: B))
    (htot : usum (A ++ (1, pu) :: (1, c) :: B) = segs.length) :
    Chain (addUnits (addPrev segs (usum A + pu + c) pu) (usum A) c) 0 1 (A ++ (1, pu + c) :: B) := by
  rw [chain_append] at h ⊢
  obtain ⟨hA, hB⟩ := h
  simp only [Chain, Nat.zero_add] at hB ⊢
  obtain ⟨h1, h2, _, h4, h5, _, h7⟩ := hB
  rw [usum_append] at htot; simp only [usum] at htot
  have e1 : usum A + (pu + c) = usum A + pu + c := by omega
  rw [e1]
  cases B with
  | nil =>
    simp only [usum] at htot
    have hnone : segs[usum A + pu + c]? = none := by rw [List.getElem?_eq_none_iff]; omega
    unfold addPrev; rw [hnone]
    unfold addUnits; rw [h1]
    simp only [Chain]
    refine ⟨chain_set_ge _ _ _ _ _ _ hA (by omega), ?_, by omega, by simp, trivial⟩
    rw [List.getElem?_set_self (by omega)]
  | cons b B =>
    simp only [Chain, usum] at h7 htot
    obtain ⟨g1, g2, g3, g4⟩ := h7
    unfold addPrev; rw [g1]
    unfold addUnits; rw [List.getElem?_set_ne (by omega), h1]
    simp only [Chain]
    refine ⟨chain_set_ge _ _ _ _ _ _ (chain_set_ge _ _ _ _ _ _ hA (by omega)) (by omega), ?_, by omega, by simp, ?_, g2, g3, ?_⟩
    · rw [List.getElem?_set_self (by simp only [List.length_set]; omega)]
    · rw [List.getElem?_set_ne (by omega), List.getElem?_set_self (by omega)]
      simp only [Option.some.injEq, Seg.mk.injEq, true_and]; omega
    · rw [chain_set_lt _ _ _ _ _ _ (by omega), chain_set_lt _ _ _ _ _ _ (by omega)]; exact g4

/-- next block of zone_free on the table: the current EMPTY run absorbs the EMPTY run after it -/
theorem chain_merge_next (segs : List Seg) (A B : List Run) (c nu : Nat)
    (h : Chain segs 0 1 (A ++ (1, c) :: (1, nu) :: B))
    (htot : usum (A ++ (1, c) :: (1, nu) :: B) = segs.length) :
    Chain (setPrev (addUnits segs (usum A) nu) (usum A + c + nu) (unitsOf (addUnits segs (usum A) nu)[usum A]?)) 0 1
      (A ++ (1, c + nu) :: B) := by
  rw [chain_append] at h ⊢
  obtain ⟨hA, hB⟩ := h
  simp only [Chain, Nat.zero_add] at hB ⊢
  obtain ⟨h1, h2, _, h4, h5, _, h7⟩ := hB
  rw [usum_append] at htot; simp only [usum] at htot
  have e1 : usum A + (c + nu) = usum A + c + nu := by omega
  rw [e1]
  have hu : (addUnits segs (usum A) nu) = segs.set (usum A) ⟨1, c + nu, lastU 1 A⟩ := by unfold addUnits; rw [h1]
  rw [hu, List.getElem?_set_self (by omega)]
  simp only [unitsOf]
  cases B with
  | nil =>
    simp only [usum] at htot
    have hnone : (segs.set (usum A) ⟨1, c + nu, lastU 1 A⟩)[usum A + c + nu]? = none := by
      rw [List.getElem?_eq_none_iff, List.length_set]; omega
    unfold setPrev; rw [hnone]
    simp only [Chain]
    refine ⟨chain_set_ge _ _ _ _ _ _ hA (by omega), ?_, by omega, by simp, trivial⟩
    rw [List.getElem?_set_self (by omega)]
  | cons b B =>
    simp only [Chain, usum] at h7 htot
    obtain ⟨g1, g2, g3, g4⟩ := h7
    have hsome : (segs.set (usum A) ⟨1, c + nu, lastU 1 A⟩)[usum A + c + nu]? = some ⟨b.1, b.2, nu⟩ := by
      rw [List.getElem?_set_ne (by omega)]; exact g1
    unfold setPrev; rw [hsome]
    simp only [Chain]
    refine ⟨chain_set_ge _ _ _ _ _ _ (chain_set_ge _ _ _ _ _ _ hA (by omega)) (by omega), ?_, by omega, by simp, ?_, g2, g3, ?_⟩
    · rw [List.getElem?_set_ne (by omega), List.getElem?_set_self (by omega)]
    · rw [List.getElem?_set_self (by simp only [List.length_set]; omega)]
    · rw [chain_set_lt _ _ _ _ _ _ (by omega), chain_set_lt _ _ _ _ _ _ (by omega)]; exact g4

end ParsecVerif.Zone
