import ParsecVerif.Model.Future
import ParsecVerif.Proofs.Future
/-!
  Invariant of the data-copy future machine (C29): definitions, monotonicity under the growth of the nested list,
  effect of each state transformer, preservation by every step.
-/
namespace ParsecVerif.FutureDC
open ParsecVerif.Future ParsecVerif.FutureL

def shapes (s : DState) : List Nat := s.futs.map (·.shape)

/-- per-future facts: the fulfilment callback ran iff the future is TRIGGERED (so at most once); a completed future holds
    the value of its first fulfilment -/
def FutOk (fu : Fut) : Prop := fu.cb = (if fu.trig then 1 else 0) ∧ (fu.compl = true → fu.data = valOf 1 fu.shape)

/-- `v` is an admissible answer to request `r`: NULL, or the value of a future of `r`'s class (the base future for a NULL spec) -/
def ValOk (cfg : Cfg) (sh : List Nat) (r v : Nat) : Prop :=
  v = 0 ∨ ∃ f x, sh[f]? = some x ∧ v = valOf 1 x ∧ (r = 0 → f = 0) ∧ (r ≠ 0 → cfg.cls x = cfg.cls r)

/-- future `f` is the one that answers request `r` -/
def Ans (cfg : Cfg) (sh : List Nat) (r f : Nat) : Prop :=
  ∃ x, sh[f]? = some x ∧ (r = 0 → f = 0) ∧ (r ≠ 0 → cfg.cls x = cfg.cls r)

def NoMatch (cfg : Cfg) (sh : List Nat) (k r : Nat) : Prop := ∀ x ∈ sh.take k, cfg.cls x ≠ cfg.cls r

def PcOk (cfg : Cfg) (sh : List Nat) : DPc → Prop
  | .idle => True
  | .done => True
  | .lockTop f r => Ans cfg sh r f
  | .unlockTop f r => Ans cfg sh r f
  | .plock r => r ≠ 0 ∧ NoMatch cfg sh 1 r
  | .lockScan i r => r ≠ 0 ∧ i + 1 < sh.length ∧ NoMatch cfg sh (i + 1) r
  | .unlockScan i r => r ≠ 0 ∧ i + 1 < sh.length ∧ NoMatch cfg sh (i + 1) r
  | .punlockRet v r => r ≠ 0 ∧ ValOk cfg sh r v
  | .punlockNew j r => r ≠ 0 ∧ sh[j]? = some r

def ResOk (cfg : Cfg) (sh : List Nat) (res : List (DOp × Nat)) : Prop :=
  ∀ r v, (DOp.trig r, v) ∈ res → ValOk cfg sh r v

def PendOk (sh : List Nat) (p : Nat × Nat) : Prop := ∃ x, sh[p.1]? = some x ∧ p.2 = valOf 1 x

structure DInv (cfg : Cfg) (s : DState) : Prop where
  ne : s.futs ≠ []
  futs : ∀ fu ∈ s.futs, FutOk fu
  nodup : ((shapes s).map cfg.cls).Nodup
  pend : ∀ p ∈ s.pending, PendOk (shapes s) p
  thr : ∀ th ∈ s.thr, PcOk cfg (shapes s) th.pc ∧ ResOk cfg (shapes s) th.res

/-- the list of shapes only grows at its end -/
structure Mono (sh sh' : List Nat) : Prop where
  get : ∀ (f x : Nat), sh[f]? = some x → sh'[f]? = some x
  take : ∀ k, k ≤ sh.length → sh'.take k = sh.take k
  len : sh.length ≤ sh'.length

theorem mono_refl (sh : List Nat) : Mono sh sh := ⟨fun _ _ h => h, fun _ _ => rfl, Nat.le_refl _⟩

theorem mono_append (sh : List Nat) (r : Nat) : Mono sh (sh ++ [r]) := by
  refine ⟨?_, ?_, by simp⟩
  · intro f x h
    have hf : f < sh.length := (List.getElem?_eq_some_iff.1 h).1
    rw [List.getElem?_append_left hf]; exact h
  · intro k hk
    exact List.take_append_of_le_length hk

theorem valok_mono {cfg sh sh' r v} (m : Mono sh sh') (h : ValOk cfg sh r v) : ValOk cfg sh' r v := by
  rcases h with h | ⟨f, x, hx, hv, h0, h1⟩
  · exact Or.inl h
  · exact Or.inr ⟨f, x, m.get f x hx, hv, h0, h1⟩

theorem nomatch_mono {cfg sh sh' k r} (m : Mono sh sh') (hk : k ≤ sh.length) (h : NoMatch cfg sh k r) : NoMatch cfg sh' k r := by
  unfold NoMatch; rw [m.take k hk]; exact h

theorem pcok_mono {cfg sh sh' pc} (m : Mono sh sh') (hne : 1 ≤ sh.length) (h : PcOk cfg sh pc) : PcOk cfg sh' pc := by
  cases pc with
  | idle => trivial
  | done => trivial
  | lockTop f r => obtain ⟨x, hx, h0, h1⟩ := h; exact ⟨x, m.get f x hx, h0, h1⟩
  | unlockTop f r => obtain ⟨x, hx, h0, h1⟩ := h; exact ⟨x, m.get f x hx, h0, h1⟩
  | plock r => exact ⟨h.1, nomatch_mono m hne h.2⟩
  | lockScan i r => exact ⟨h.1, Nat.lt_of_lt_of_le h.2.1 m.len, nomatch_mono m (Nat.le_of_lt h.2.1) h.2.2⟩
  | unlockScan i r => exact ⟨h.1, Nat.lt_of_lt_of_le h.2.1 m.len, nomatch_mono m (Nat.le_of_lt h.2.1) h.2.2⟩
  | punlockRet v r => exact ⟨h.1, valok_mono m h.2⟩
  | punlockNew j r => exact ⟨h.1, m.get j r h.2⟩

theorem resok_mono {cfg sh sh' res} (m : Mono sh sh') (h : ResOk cfg sh res) : ResOk cfg sh' res :=
  fun r v hm => valok_mono m (h r v hm)

theorem pendok_mono {sh sh' p} (m : Mono sh sh') (h : PendOk sh p) : PendOk sh' p := by
  obtain ⟨x, hx, hv⟩ := h; exact ⟨x, m.get _ x hx, hv⟩

theorem resok_fin {cfg sh} (th : DThread) (r v : Nat) (h : ResOk cfg sh th.res) (hv : ValOk cfg sh r v) :
    ResOk cfg sh (dfin th (.trig r) v).res := by
  intro r' v' hm
  simp only [dfin, List.mem_append, List.mem_singleton, Prod.mk.injEq] at hm
  rcases hm with hm | ⟨h1, h2⟩
  · exact h r' v' hm
  · cases h1; subst h2; exact hv

theorem resok_fin_fulfil {cfg sh} (th : DThread) (v : Nat) (h : ResOk cfg sh th.res) :
    ResOk cfg sh (dfin th .fulfil v).res := by
  intro r' v' hm
  simp only [dfin, List.mem_append, List.mem_singleton, Prod.mk.injEq] at hm
  rcases hm with hm | ⟨h1, _⟩
  · exact h r' v' hm
  · cases h1

theorem dfin_pc (th : DThread) (op : DOp) (v : Nat) : (dfin th op v).pc = .done ∨ (dfin th op v).pc = .idle := by
  unfold dfin; cases th.todo.tail <;> simp

theorem pcok_fin {cfg sh} (th : DThread) (op : DOp) (v : Nat) : PcOk cfg sh (dfin th op v).pc := by
  rcases dfin_pc th op v with h | h <;> rw [h] <;> trivial

/-- `s'` is `s` with some fields of futures (never the shape) and the deferred-set queue changed, per-future facts kept -/
structure Same (s s' : DState) : Prop where
  ne : s'.futs ≠ []
  futs : ∀ fu ∈ s'.futs, FutOk fu
  sh : shapes s' = shapes s
  pend : ∀ p ∈ s'.pending, p ∈ s.pending ∨ PendOk (shapes s) p
  thr : s'.thr = s.thr

theorem same_refl {cfg s} (h : DInv cfg s) : Same s s := ⟨h.ne, h.futs, rfl, fun _ hp => Or.inl hp, rfl⟩

theorem shapes_set (l : List Fut) (f : Nat) (fu fu' : Fut) (hf : l[f]? = some fu) (hs : fu'.shape = fu.shape) :
    (l.set f fu').map (·.shape) = l.map (·.shape) :=
  map_set_same _ _ _ _ (by intro x hx; rw [hf] at hx; cases hx; exact hs)

theorem set_ne_nil {α} (l : List α) (i : Nat) (a : α) (h : l ≠ []) : l.set i a ≠ [] := by
  intro he
  have := congrArg List.length he
  simp at this
  exact h this

theorem futok_lock (fu : Fut) (b : Bool) (h : FutOk fu) : FutOk { fu with lock := b } := h

/-- changing one future by a shape-preserving, fact-preserving function -/
theorem same_modFut {s s0 : DState} (f : Nat) (g : Fut → Fut) (h : Same s s0)
    (hs : ∀ fu, (g fu).shape = fu.shape) (hg : ∀ fu, s0.futs[f]? = some fu → FutOk fu → FutOk (g fu)) : Same s (modFut s0 f g) := by
  unfold modFut
  cases hf : s0.futs[f]? with
  | none => exact h
  | some fu =>
    refine ⟨set_ne_nil _ _ _ h.ne, ?_, ?_, h.pend, h.thr⟩
    · intro x hx
      rcases List.mem_or_eq_of_mem_set hx with hx | hx
      · exact h.futs x hx
      · subst hx; exact hg fu hf (h.futs fu (List.mem_of_getElem? hf))
    · show (s0.futs.set f (g fu)).map (·.shape) = shapes s
      rw [shapes_set _ _ fu _ hf (hs fu)]; exact h.sh

theorem same_unlock {s s0 : DState} (f : Nat) (h : Same s s0) : Same s (modFut s0 f unlockF) :=
  same_modFut f unlockF h (fun _ => rfl) (fun _ _ hf => hf)

theorem same_lock {s s0 : DState} (f : Nat) (h : Same s s0) : Same s (modFut s0 f lockF) :=
  same_modFut f lockF h (fun _ => rfl) (fun _ _ hf => hf)

theorem shapes_getElem? {s : DState} {f : Nat} {fu : Fut} (h : s.futs[f]? = some fu) : (shapes s)[f]? = some fu.shape := by
  simp [shapes, h]

theorem same_trigger {cfg : Cfg} {s s0 : DState} (f : Nat) (h : Same s s0) : Same s (trigger cfg s0 f) := by
  unfold trigger
  cases hf : s0.futs[f]? with
  | none => exact h
  | some fu =>
    have hfu := h.futs fu (List.mem_of_getElem? hf)
    have hshape : (shapes s)[f]? = some fu.shape := by rw [← h.sh]; exact shapes_getElem? hf
    simp only []
    by_cases ht : fu.trig = true
    · rw [if_pos ht]
      refine ⟨set_ne_nil _ _ _ h.ne, ?_, ?_, h.pend, h.thr⟩
      · intro x hx
        rcases List.mem_or_eq_of_mem_set hx with hx | hx
        · exact h.futs x hx
        · subst hx; exact hfu
      · show (s0.futs.set f (lockF fu)).map (·.shape) = shapes s
        rw [shapes_set _ _ fu _ hf (rfl : (lockF fu).shape = fu.shape)]; exact h.sh
    · rw [if_neg ht]
      have ht' : fu.trig = false := by cases hh : fu.trig <;> simp_all
      have hcb : fu.cb = 0 := by have := hfu.1; rw [ht'] at this; simpa using this
      by_cases ha : cfg.async fu.shape = true
      · rw [if_pos ha]
        refine ⟨set_ne_nil _ _ _ h.ne, ?_, ?_, ?_, h.thr⟩
        · intro x hx
          rcases List.mem_or_eq_of_mem_set hx with hx | hx
          · exact h.futs x hx
          · subst hx
            exact ⟨by simp [trigAsync, hcb], hfu.2⟩
        · show (s0.futs.set f (trigAsync fu)).map (·.shape) = shapes s
          rw [shapes_set _ _ fu _ hf (rfl : (trigAsync fu).shape = fu.shape)]; exact h.sh
        · intro p hp
          simp only [List.mem_append, List.mem_singleton] at hp
          rcases hp with hp | hp
          · exact h.pend p hp
          · subst hp
            exact Or.inr ⟨fu.shape, hshape, by simp [hcb]⟩
      · rw [if_neg ha]
        refine ⟨set_ne_nil _ _ _ h.ne, ?_, ?_, h.pend, h.thr⟩
        · intro x hx
          rcases List.mem_or_eq_of_mem_set hx with hx | hx
          · exact h.futs x hx
          · subst hx
            exact ⟨by simp [trigSync, hcb], by intro _; simp [trigSync, hcb]⟩
        · show (s0.futs.set f (trigSync fu)).map (·.shape) = shapes s
          rw [shapes_set _ _ fu _ hf (rfl : (trigSync fu).shape = fu.shape)]; exact h.sh

/-- reassembling the invariant when the list of shapes is unchanged -/
theorem dinv_same {cfg : Cfg} {s s0 : DState} (t : Nat) (th' : DThread) (h : DInv cfg s) (hs : Same s s0)
    (hpc : PcOk cfg (shapes s) th'.pc) (hres : ResOk cfg (shapes s) th'.res) : DInv cfg (setThr s0 t th') := by
  refine ⟨hs.ne, hs.futs, ?_, ?_, ?_⟩
  · show ((shapes s0).map cfg.cls).Nodup
    rw [hs.sh]; exact h.nodup
  · intro p hp
    show PendOk (shapes s0) p
    rw [hs.sh]
    rcases hs.pend p hp with hp | hp
    · exact h.pend p hp
    · exact hp
  · intro th hth
    show PcOk cfg (shapes s0) th.pc ∧ ResOk cfg (shapes s0) th.res
    rw [hs.sh]
    have hth' : th ∈ s0.thr.set t th' := hth
    rw [hs.thr] at hth'
    rcases List.mem_or_eq_of_mem_set hth' with hm | hm
    · exact h.thr th hm
    · subst hm; exact ⟨hpc, hres⟩


/-- what the scan loop has established when it stops -/
theorem scanList_spec (cls : Nat → Nat) (r : Nat) (l : List Fut) (i : Nat) :
    match scanList cls r l i with
    | .needLock j => ∃ k, j = i + k ∧ k < l.length ∧ ∀ fu ∈ l.take k, cls fu.shape ≠ cls r
    | .ret v => v = 0 ∨ ∃ fu ∈ l, fu.compl = true ∧ cls fu.shape = cls r ∧ v = fu.data
    | .atEnd => ∀ fu ∈ l, cls fu.shape ≠ cls r := by
  induction l generalizing i with
  | nil => simp [scanList]
  | cons fu rest ih =>
    unfold scanList
    by_cases hc : fu.compl = false
    · rw [if_pos hc]
      exact ⟨0, rfl, by simp, by simp⟩
    · rw [if_neg hc]
      have hc' : fu.compl = true := by cases hh : fu.compl <;> simp_all
      by_cases hm : fu.data = 0 ∨ cls fu.shape = cls r
      · rw [if_pos hm]
        rcases hm with hm | hm
        · exact Or.inl hm
        · exact Or.inr ⟨fu, by simp, hc', hm, rfl⟩
      · rw [if_neg hm]
        have hne : cls fu.shape ≠ cls r := fun he => hm (Or.inr he)
        have := ih (i + 1)
        split at this
        · next j heq =>
          obtain ⟨k, hj, hk, hall⟩ := this
          refine ⟨k + 1, by omega, by simp; omega, ?_⟩
          intro x hx
          simp only [List.take_succ_cons, List.mem_cons] at hx
          rcases hx with hx | hx
          · subst hx; exact hne
          · exact hall x hx
        · next v heq =>
          rcases this with h0 | ⟨x, hx, h1, h2, h3⟩
          · exact Or.inl h0
          · exact Or.inr ⟨x, by simp [hx], h1, h2, h3⟩
        · next heq =>
          intro x hx
          simp only [List.mem_cons] at hx
          rcases hx with hx | hx
          · subst hx; exact hne
          · exact this x hx

theorem mem_shapes_take {s : DState} {k : Nat} {x : Nat} (h : x ∈ (shapes s).take k) : ∃ fu ∈ s.futs.take k, fu.shape = x := by
  simp only [shapes, ← List.map_take, List.mem_map] at h
  exact h

theorem valok_of_fut {cfg : Cfg} {s : DState} {fu : Fut} {r : Nat} (hr : r ≠ 0) (hm : fu ∈ s.futs) (hf : FutOk fu)
    (hc : fu.compl = true) (hcls : cfg.cls fu.shape = cfg.cls r) : ValOk cfg (shapes s) r fu.data := by
  obtain ⟨f, hf'⟩ := List.mem_iff_getElem?.1 hm
  exact Or.inr ⟨f, fu.shape, shapes_getElem? hf', hf.2 hc, fun h0 => absurd h0 hr, fun _ => hcls⟩

/-- continuing the scan of the nested list from nested index `i` under the base lock -/
theorem dinv_applyScan {cfg : Cfg} {s s0 : DState} (t : Nat) (th : DThread) (r i : Nat) (h : DInv cfg s) (hs : Same s s0)
    (hth : th ∈ s.thr) (hr : r ≠ 0) (hi : i + 1 ≤ (shapes s).length) (hnm : NoMatch cfg (shapes s) (i + 1) r) :
    DInv cfg (applyScan cfg s0 t th r i) := by
  unfold applyScan
  have hspec := scanList_spec cfg.cls r (s0.futs.drop (i + 1)) i
  have hres := (h.thr th hth).2
  have hsh0 : shapes s0 = shapes s := hs.sh
  have hlen : s0.futs.length = (shapes s).length := by rw [← hsh0]; simp [shapes]
  split at hspec
  · next j heq =>
    rw [heq]
    obtain ⟨k, hj, hk, hall⟩ := hspec
    refine dinv_same t _ h hs ?_ hres
    simp only [List.length_drop] at hk
    refine ⟨hr, by omega, ?_⟩
    intro x hx
    rw [← hsh0] at hx
    obtain ⟨fu, hfu, rfl⟩ := mem_shapes_take hx
    have hsplit : s0.futs.take (j + 1) = s0.futs.take (i + 1) ++ (s0.futs.drop (i + 1)).take k := by
      rw [hj, show i + k + 1 = (i + 1) + k by omega, List.take_add]
    rw [hsplit, List.mem_append] at hfu
    rcases hfu with hfu | hfu
    · apply hnm
      rw [← hsh0]
      simp only [shapes, ← List.map_take, List.mem_map]
      exact ⟨fu, hfu, rfl⟩
    · exact hall fu hfu
  · next v heq =>
    rw [heq]
    refine dinv_same t _ h hs ⟨hr, ?_⟩ hres
    rcases hspec with h0 | ⟨fu, hfu, hc, hcls, hv⟩
    · exact Or.inl h0
    · have hm : fu ∈ s0.futs := List.mem_of_mem_drop hfu
      have := valok_of_fut (cfg := cfg) (s := s0) hr hm (hs.futs fu hm) hc hcls
      rw [hsh0] at this
      rw [hv]; exact this
  · next heq =>
    rw [heq]
    -- every existing future is of another class: append the new nested future
    have hall : ∀ x ∈ shapes s, cfg.cls x ≠ cfg.cls r := by
      intro x hx
      rw [← hsh0] at hx
      simp only [shapes, List.mem_map] at hx
      obtain ⟨fu, hfu, rfl⟩ := hx
      rw [← List.take_append_drop (i + 1) s0.futs, List.mem_append] at hfu
      rcases hfu with hfu | hfu
      · apply hnm
        rw [← hsh0]
        simp only [shapes, ← List.map_take, List.mem_map]
        exact ⟨fu, hfu, rfl⟩
      · exact hspec fu hfu
    have hm : Mono (shapes s) (shapes s ++ [r]) := mono_append _ r
    have hne1 : 1 ≤ (shapes s).length := by omega
    have hshapes' : (s0.futs ++ [newFut r]).map (·.shape) = shapes s ++ [r] := by
      rw [List.map_append]
      show shapes s0 ++ [r] = shapes s ++ [r]
      rw [hsh0]
    refine ⟨by simp, ?_, ?_, ?_, ?_⟩
    · intro fu hfu
      simp only [List.mem_append, List.mem_singleton] at hfu
      rcases hfu with hfu | hfu
      · exact hs.futs fu hfu
      · subst hfu; exact ⟨rfl, by intro hc; cases hc⟩
    · show (((s0.futs ++ [newFut r]).map (·.shape)).map cfg.cls).Nodup
      rw [hshapes', List.map_append, List.nodup_append]
      refine ⟨h.nodup, by simp, ?_⟩
      intro a ha b hb
      simp only [List.map_cons, List.map_nil, List.mem_singleton] at hb
      subst hb
      obtain ⟨x, hx, rfl⟩ := List.mem_map.1 ha
      exact hall x hx
    · intro p hp
      show PendOk ((s0.futs ++ [newFut r]).map (·.shape)) p
      rw [hshapes']
      rcases hs.pend p hp with hp | hp
      · exact pendok_mono hm (h.pend p hp)
      · exact pendok_mono hm hp
    · intro o ho
      show PcOk cfg ((s0.futs ++ [newFut r]).map (·.shape)) o.pc ∧ ResOk cfg ((s0.futs ++ [newFut r]).map (·.shape)) o.res
      rw [hshapes']
      have ho' : o ∈ s0.thr.set t { th with pc := .punlockNew s0.futs.length r } := ho
      rw [hs.thr] at ho'
      rcases List.mem_or_eq_of_mem_set ho' with hmem | hmem
      · exact ⟨pcok_mono hm hne1 (h.thr o hmem).1, resok_mono hm (h.thr o hmem).2⟩
      · subst hmem
        refine ⟨⟨hr, ?_⟩, resok_mono hm hres⟩
        rw [hlen]
        simp

/-- entering `get_or_trigger_internal(f)` outside the base lock, `f` being the future that answers `r` -/
theorem dinv_enterTop {cfg : Cfg} {s s0 : DState} (t : Nat) (th : DThread) (f r : Nat) (h : DInv cfg s) (hs : Same s s0)
    (hth : th ∈ s.thr) (ha : Ans cfg (shapes s) r f) : DInv cfg (enterTop s0 t th f r) := by
  unfold enterTop
  have hres := (h.thr th hth).2
  by_cases hc : complOf s0 f = true
  · rw [if_pos hc]
    refine dinv_same t _ h hs (pcok_fin th _ _) (resok_fin th r _ hres ?_)
    unfold complOf at hc
    unfold readFut
    cases hf : s0.futs[f]? with
    | none => exact Or.inl rfl
    | some fu =>
      rw [hf] at hc
      simp only [] at hc ⊢
      rw [if_pos hc]
      obtain ⟨x, hx, h0, h1⟩ := ha
      have hsx : (shapes s)[f]? = some fu.shape := by rw [← hs.sh]; exact shapes_getElem? hf
      rw [hsx] at hx; cases hx
      exact Or.inr ⟨f, fu.shape, hsx, (hs.futs fu (List.mem_of_getElem? hf)).2 hc, h0, h1⟩
  · rw [if_neg hc]
    exact dinv_same t _ h hs ha hres

/-- value read from future `f` (the one that answers `r`) after unlocking it -/
theorem valok_readFut {cfg : Cfg} {s : DState} (f r : Nat) (h : DInv cfg s) (ha : Ans cfg (shapes s) r f) :
    ValOk cfg (shapes s) r (readFut s f) := by
  unfold readFut
  cases hf : s.futs[f]? with
  | none => exact Or.inl rfl
  | some fu =>
    simp only []
    by_cases hc : fu.compl = true
    · rw [if_pos hc]
      obtain ⟨x, hx, h0, h1⟩ := ha
      have hsx : (shapes s)[f]? = some fu.shape := shapes_getElem? hf
      rw [hsx] at hx; cases hx
      exact Or.inr ⟨f, fu.shape, hsx, (h.futs fu (List.mem_of_getElem? hf)).2 hc, h0, h1⟩
    · rw [if_neg hc]; exact Or.inl rfl


theorem shapes_zero {s : DState} (hne : s.futs ≠ []) : (shapes s)[0]? = some (baseShape s) := by
  unfold baseShape shapes
  cases hf : s.futs with
  | nil => exact absurd hf hne
  | cons a r => simp

theorem shapes_len_pos {s : DState} (hne : s.futs ≠ []) : 1 ≤ (shapes s).length := by
  unfold shapes
  cases hf : s.futs with
  | nil => exact absurd hf hne
  | cons a r => simp

theorem dinv_step (cfg : Cfg) (s : DState) (t : Nat) (h : DInv cfg s) : DInv cfg (dstep cfg s t) := by
  unfold dstep
  cases hpc : s.thr[t]? with
  | none => exact h
  | some th =>
    have hm : th ∈ s.thr := List.mem_of_getElem? hpc
    have hpcok := (h.thr th hm).1
    have hres := (h.thr th hm).2
    have hS := same_refl h
    simp only []
    cases hp : th.pc with
    | idle =>
      simp only []
      unfold didle
      split
      · exact dinv_same t _ h hS trivial hres
      · next r rest htd =>
        by_cases hc : r = 0 ∨ cfg.cls (baseShape s) = cfg.cls r
        · rw [if_pos hc]
          refine dinv_enterTop t th 0 r h hS hm ⟨baseShape s, shapes_zero h.ne, fun _ => rfl, ?_⟩
          intro hr
          rcases hc with hc | hc
          · exact absurd hc hr
          · exact hc
        · rw [if_neg hc]
          refine dinv_same t _ h hS ⟨fun h0 => hc (Or.inl h0), ?_⟩ hres
          intro x hx
          have h0 := shapes_zero h.ne
          have : (shapes s).take 1 = [baseShape s] := by
            cases hsh : shapes s with
            | nil => rw [hsh] at h0; cases h0
            | cons a l => rw [hsh] at h0; simp at h0; simp [h0]
          rw [this] at hx
          simp only [List.mem_singleton] at hx
          subst hx
          exact fun he => hc (Or.inr he)
      · next rest htd =>
        split
        · exact dinv_same t _ h hS (pcok_fin th _ _) (resok_fin_fulfil th _ hres)
        · next f v prest hpend =>
          have hpv : PendOk (shapes s) (f, v) := h.pend (f, v) (by rw [hpend]; simp)
          have hS1 : Same s { s with pending := prest } :=
            ⟨h.ne, h.futs, rfl, fun p hp => Or.inl (by rw [hpend]; simp [hp]), rfl⟩
          refine dinv_same t _ h (same_modFut f _ hS1 (fun _ => rfl) ?_) (pcok_fin th _ _) (resok_fin_fulfil th _ hres)
          intro fu hf hfu
          obtain ⟨x, hx, hv⟩ := hpv
          have hsx : (shapes s)[f]? = some fu.shape := shapes_getElem? hf
          simp only at hx hv
          rw [hsx] at hx; cases hx
          exact ⟨hfu.1, fun _ => hv⟩
    | lockTop f r =>
      simp only []
      rw [hp] at hpcok
      by_cases hl : lockedOf s f = true
      · rw [if_pos hl]; exact h
      · rw [if_neg hl]
        exact dinv_same t _ h (same_trigger f hS) hpcok hres
    | unlockTop f r =>
      simp only []
      rw [hp] at hpcok
      exact dinv_same t _ h (same_unlock f hS) (pcok_fin th _ _) (resok_fin th r _ hres (valok_readFut f r h hpcok))
    | plock r =>
      simp only []
      rw [hp] at hpcok
      by_cases hl : lockedOf s 0 = true
      · rw [if_pos hl]; exact h
      · rw [if_neg hl]
        exact dinv_applyScan t th r 0 h (same_lock 0 hS) hm hpcok.1 (shapes_len_pos h.ne) hpcok.2
    | lockScan i r =>
      simp only []
      rw [hp] at hpcok
      by_cases hl : lockedOf s (i + 1) = true
      · rw [if_pos hl]; exact h
      · rw [if_neg hl]
        exact dinv_same t _ h (same_trigger (i + 1) hS) hpcok hres
    | unlockScan i r =>
      simp only []
      rw [hp] at hpcok
      obtain ⟨hr, hlen, hnm⟩ := hpcok
      cases hf : s.futs[i + 1]? with
      | none => exact h
      | some fu =>
        simp only []
        have hfm : fu ∈ s.futs := List.mem_of_getElem? hf
        by_cases hc : readFut s (i + 1) = 0 ∨ cfg.cls fu.shape = cfg.cls r
        · rw [if_pos hc]
          refine dinv_same t _ h (same_unlock (i + 1) hS) ⟨hr, ?_⟩ hres
          by_cases h0 : readFut s (i + 1) = 0
          · exact Or.inl h0
          · have hcls : cfg.cls fu.shape = cfg.cls r := by
              rcases hc with hc | hc
              · exact absurd hc h0
              · exact hc
            unfold readFut at h0 ⊢
            rw [hf] at h0 ⊢
            simp only [] at h0 ⊢
            by_cases hcm : fu.compl = true
            · rw [if_pos hcm]
              exact valok_of_fut hr hfm (h.futs fu hfm) hcm hcls
            · rw [if_neg hcm]; exact Or.inl rfl
        · rw [if_neg hc]
          refine dinv_applyScan t th r (i + 1) h (same_unlock (i + 1) hS) hm hr (by omega) ?_
          intro x hx
          rw [List.take_add_one, List.mem_append] at hx
          rcases hx with hx | hx
          · exact hnm x hx
          · rw [shapes_getElem? hf] at hx
            simp only [Option.toList_some, List.mem_singleton] at hx
            subst hx
            exact fun he => hc (Or.inr he)
    | punlockRet v r =>
      simp only []
      rw [hp] at hpcok
      exact dinv_same t _ h (same_unlock 0 hS) (pcok_fin th _ _) (resok_fin th r v hres hpcok.2)
    | punlockNew j r =>
      simp only []
      rw [hp] at hpcok
      exact dinv_enterTop t th j r h (same_unlock 0 hS) hm ⟨r, hpcok.2, fun h0 => absurd h0 hpcok.1, fun _ => rfl⟩
    | done => simpa using h

theorem dinv_init (cfg : Cfg) (b : Nat) (pre : Bool) (progs : List (List DOp)) : DInv cfg (dinit b pre progs) := by
  refine ⟨(by simp [dinit]), ?_, ?_, (by intro p hp; cases hp), ?_⟩
  · intro fu hfu
    simp only [dinit, List.mem_singleton] at hfu
    subst hfu
    cases pre
    · exact ⟨rfl, by intro hc; cases hc⟩
    · exact ⟨rfl, fun _ => rfl⟩
  · simp [shapes, dinit]
  · intro th hth
    simp only [dinit, List.mem_map] at hth
    obtain ⟨p, _, rfl⟩ := hth
    exact ⟨trivial, by intro r v hm; cases hm⟩

theorem dinv_run (cfg : Cfg) (b : Nat) (pre : Bool) (progs : List (List DOp)) (sched : List Nat) :
    DInv cfg (drun cfg b pre progs sched) :=
  foldl_inv _ _ (dinv_step cfg) sched _ (dinv_init cfg b pre progs)

end ParsecVerif.FutureDC
