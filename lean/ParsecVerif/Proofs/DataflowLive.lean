import ParsecVerif.Proofs.Dataflow
import ParsecVerif.Base.Interleave
/-! Progress and termination of the generic dataflow machine. -/
namespace ParsecVerif.Dataflow
open ParsecVerif.Interleave

def weight : Status → Nat
  | .waiting => 2 | .ready => 2 | .running => 1 | .ended => 0

/-- termination measure -/
def mu (s : St) : Nat := s.pending.length + (s.status.map weight).sum + 2 * s.again.sum

theorem sum_map_weight_set (l : List Status) (i : Nat) (old new : Status) (h : l[i]? = some old) :
    ((l.set i new).map weight).sum + weight old = (l.map weight).sum + weight new := by
  obtain ⟨hi, hx⟩ := List.getElem?_eq_some_iff.1 h
  rw [List.map_set]
  have := sum_set (l.map weight) i (weight new) (by simpa using hi)
  simp only [List.getElem_map, hx] at this
  exact this

/-- every enabled transition strictly decreases the measure: all runs are finite -/
theorem mu_decreases (g : Graph) (F) (s : St) (t : Tr) (hen : enabled s t = true)
    (hw : ∀ a b, t = .release a b → s.status[b]? = some .waiting ∨ hasIn (s.pending.erase (a, b)) b = true) :
    mu (step g F s t) < mu s := by
  unfold step
  rw [if_neg (by simp [hen])]
  cases t with
  | start i =>
    have hst : s.status[i]? = some .ready := by simpa [enabled] using hen
    have := sum_map_weight_set s.status i .ready .running hst
    simp only [mu, weight] at *
    omega
  | again i =>
    simp only [enabled, Bool.and_eq_true, beq_iff_eq, decide_eq_true_eq] at hen
    have := sum_map_weight_set s.status i .running .ready hen.1
    cases ha : s.again[i]? with
    | none => simp [ha] at hen
    | some x =>
      obtain ⟨hi, hx⟩ := List.getElem?_eq_some_iff.1 ha
      have h2 := sum_set s.again i (x - 1) hi
      simp only [ha, Option.getD_some] at hen ⊢
      simp only [mu, weight] at *
      omega
  | finish i =>
    simp only [enabled, Bool.and_eq_true, beq_iff_eq] at hen
    have := sum_map_weight_set s.status i .running .ended hen.1
    simp only [mu, weight] at *
    omega
  | release a b =>
    simp only [enabled, Bool.and_eq_true, beq_iff_eq, List.contains_iff_mem] at hen
    have hl := List.length_erase_of_mem hen.2
    have hpos : 0 < s.pending.length := List.length_pos_of_mem hen.2
    simp only [mu]
    split
    · show (s.pending.erase (a, b)).length + (List.map weight s.status).sum + 2 * s.again.sum < _
      omega
    · rename_i hh
      rcases hw a b rfl with hbw | hbt
      · have := sum_map_weight_set s.status b .waiting .ready hbw
        simp only [weight] at *
        omega
      · exact absurd hbt hh

section live
variable {g : Graph} {F : Nat → List (Option Nat) → Nat} {rank : Nat → Nat}

/-- a node that has not ended yields an enabled transition (itself or, down the rank, one of its
    unfinished predecessors) -/
theorem progress_node (hwf : WF g rank) {s : St} (h : Inv g F s) :
    ∀ r j, rank j = r → j < g.n → s.status[j]? ≠ some .ended → ∃ t, enabled s t = true := by
  intro r
  induction r using Nat.strongRecOn with
  | _ r ih =>
    intro j hr hj hne
    have hj' : j < s.status.length := h.len ▸ hj
    cases hs : s.status[j]? with
    | none => exact absurd (List.getElem?_eq_none_iff.1 hs) (by omega)
    | some st =>
      cases st with
      | ended => exact absurd hs hne
      | ready => exact ⟨.start j, by simp [enabled, hs]⟩
      | running =>
        by_cases ha : 0 < (s.again[j]?).getD 0
        · exact ⟨.again j, by simp [enabled, hs, ha]⟩
        · exact ⟨.finish j, by simp [enabled, hs]; omega⟩
      | waiting =>
        obtain ⟨e, he, hej⟩ := (hasIn_iff _ _).1 ((h.wait j hj).1 hs)
        have heE := h.sub e he
        by_cases hend : s.status[e.1]? = some .ended
        · refine ⟨.release e.1 e.2, ?_⟩
          simp [enabled, hend, he]
        · have hlt : rank e.1 < rank e.2 := hwf.2 e heE
          exact ih (rank e.1) (by rw [← hr, ← hej]; exact hlt) e.1 rfl (hwf.1 e heE).1 hend

/-- **Progress:** in every reachable non-quiescent state some transition is enabled (no deadlock). -/
theorem progress (hwf : WF g rank) {s : St} (h : Inv g F s) (hq : ¬ quiescent s) : ∃ t, enabled s t = true := by
  by_cases hall : ∀ st ∈ s.status, st = Status.ended
  · have hp : s.pending ≠ [] := fun hp => hq ⟨hp, hall⟩
    obtain ⟨e, he⟩ := List.exists_mem_of_ne_nil _ hp
    have heE := h.sub e he
    have ha : e.1 < s.status.length := h.len ▸ (hwf.1 e heE).1
    have : s.status[e.1]? = some .ended := by
      rw [List.getElem?_eq_getElem ha]; congr 1; exact hall _ (List.getElem_mem ha)
    exact ⟨.release e.1 e.2, by simp [enabled, this, he]⟩
  · have : ∃ st ∈ s.status, st ≠ Status.ended :=
      Classical.byContradiction (fun hc =>
        hall (fun st hst => Classical.byContradiction (fun hne => hc ⟨st, hst, hne⟩)))
    obtain ⟨st, hst, hne⟩ := this
    obtain ⟨j, hj, hjst⟩ := List.getElem_of_mem hst
    refine progress_node hwf h (rank j) j rfl (h.len ▸ hj) ?_
    rw [List.getElem?_eq_getElem hj, hjst]
    intro hh; exact hne (Option.some.inj hh)

/-- the side condition of `mu_decreases` holds in every reachable state -/
theorem release_target_waiting (hwf : WF g rank) {s : St} (h : Inv g F s) (a b : Nat)
    (hen : enabled s (.release a b) = true) : s.status[b]? = some .waiting := by
  simp only [enabled, Bool.and_eq_true, beq_iff_eq, List.contains_iff_mem] at hen
  have hbn : b < g.n := (hwf.1 (a, b) (h.sub _ hen.2)).2
  exact (h.wait b hbn).2 ((hasIn_iff _ _).2 ⟨(a, b), hen.2, rfl⟩)

end live
end ParsecVerif.Dataflow
