import ParsecVerif.Proofs.CompoundChg
/-! Invariant of one compound (chain of members) over the context machine. -/
namespace ParsecVerif.Compound
open ParsecVerif.Context

theorem nodup_get_inj {l : List Nat} (h : l.Nodup) {i j a : Nat} (hi : l[i]? = some a) (hj : l[j]? = some a) : i = j := by
  induction l generalizing i j with
  | nil => simp at hi
  | cons x t ih =>
    rw [List.nodup_cons] at h
    cases i with
    | zero =>
      cases j with
      | zero => rfl
      | succ j =>
        simp at hi hj; subst hi
        exact absurd (List.mem_of_getElem? hj) h.1
    | succ i =>
      cases j with
      | zero =>
        simp at hi hj; subst hj
        exact absurd (List.mem_of_getElem? hi) h.1
      | succ j =>
        simp at hi hj
        rw [ih h.2 hi hj]

theorem get_set_tp (l : List Tp) (p m : Nat) (x tp : Tp) (hp : l[p]? = some tp) :
    (l.set p x)[m]? = if m = p then some x else l[m]? := by
  by_cases h : m = p
  · subst h; rw [if_pos rfl]; exact List.getElem?_set_self (List.getElem?_eq_some_iff.1 hp).1
  · rw [if_neg h]; exact List.getElem?_set_ne (fun e => h e.symm)

structure CI (l : List Tp) (c : Comp) : Prop where
  le : c.completed ≤ c.members.length
  mem : ∀ (i m : Nat), c.members[i]? = some m → ∃ tp : Tp, l[m]? = some tp ∧ tp.early = false ∧
      (i < c.completed → tp.st = .inCb ∨ tp.st = .inCbN ∨ tp.st = .done) ∧
      (c.completed < i → tp.st = .notAdded) ∧
      (i = c.completed → (tp.st = .notAdded ∨ tp.st = .adding ∨ tp.st = .added ∨ tp.st = .inCbN) ∧
          (tp.st = .notAdded → c.completed = 0 ∧ c.pending = 0) ∧
          (tp.st ≠ .notAdded → c.pending = (c.members.length : Int) - c.completed))
  fin : c.completed = c.members.length → c.pending = 0
  stamps : ∀ (i m m' : Nat) (tp tp' : Tp), c.members[i]? = some m → c.members[i + 1]? = some m' →
      l[m]? = some tp → l[m']? = some tp' → tp'.addAt ≠ 0 → tp.cbAt ≠ 0 ∧ tp.cbAt < tp'.addAt

/-- admissible changes of the state of a member that keep the position clauses: a leaf goes inCb → done,
    any member adding → added, a nested compound added → inCbN (its termination is detected, nested, before its
    parent is notified); inCbN → done is admissible only once the parent has been notified (`ci_mem_frame'`) -/
def StRel (st st' : TpSt) : Prop :=
  st' = st ∨ (st = .inCb ∧ st' = .done) ∨ (st = .adding ∧ st' = .added) ∨ (st = .added ∧ st' = .inCbN)

/-- the position clauses survive `StRel` changes of the members' descriptors, and inCbN → done below `completed` -/
theorem ci_mem_frame {l l' : List Tp} {c : Comp} (h : CI l c)
    (hex : ∀ (i m : Nat), c.members[i]? = some m → ∀ tp : Tp, l[m]? = some tp →
           ∃ tp' : Tp, l'[m]? = some tp' ∧ tp'.early = tp.early ∧
             (StRel tp.st tp'.st ∨ (tp.st = .inCbN ∧ tp'.st = .done ∧ i < c.completed))) :
    ∀ (i m : Nat), c.members[i]? = some m → ∃ tp : Tp, l'[m]? = some tp ∧ tp.early = false ∧
      (i < c.completed → tp.st = .inCb ∨ tp.st = .inCbN ∨ tp.st = .done) ∧
      (c.completed < i → tp.st = .notAdded) ∧
      (i = c.completed → (tp.st = .notAdded ∨ tp.st = .adding ∨ tp.st = .added ∨ tp.st = .inCbN) ∧
          (tp.st = .notAdded → c.completed = 0 ∧ c.pending = 0) ∧
          (tp.st ≠ .notAdded → c.pending = (c.members.length : Int) - c.completed)) := by
  intro i m hm
  obtain ⟨tp, htp, h1, h2, h3, h4⟩ := h.mem i m hm
  obtain ⟨tp', htp', he, hr⟩ := hex i m hm tp htp
  refine ⟨tp', htp', by rw [he]; exact h1, ?_, ?_, ?_⟩
  · intro hi
    rcases hr with (e | ⟨_, e⟩ | ⟨e0, _⟩ | ⟨e0, _⟩) | ⟨_, e, _⟩
    · rw [e]; exact h2 hi
    · exact Or.inr (Or.inr e)
    · rcases h2 hi with e' | e' | e' <;> rw [e0] at e' <;> cases e'
    · rcases h2 hi with e' | e' | e' <;> rw [e0] at e' <;> cases e'
    · exact Or.inr (Or.inr e)
  · intro hi
    have hn := h3 hi
    rcases hr with (e | ⟨e0, _⟩ | ⟨e0, _⟩ | ⟨e0, _⟩) | ⟨e0, _, _⟩
    · rw [e]; exact hn
    all_goals (rw [hn] at e0; cases e0)
  · intro hi
    obtain ⟨a1, a2, a3⟩ := h4 hi
    rcases hr with (e | ⟨e0, _⟩ | ⟨e0, e1⟩ | ⟨e0, e1⟩) | ⟨_, _, hlt⟩
    · rw [e]; exact ⟨a1, a2, a3⟩
    · rcases a1 with e' | e' | e' | e' <;> rw [e0] at e' <;> cases e'
    · refine ⟨Or.inr (Or.inr (Or.inl e1)), ?_, ?_⟩
      · intro e'; rw [e1] at e'; cases e'
      · intro _; exact a3 (by rw [e0]; simp)
    · refine ⟨Or.inr (Or.inr (Or.inr e1)), ?_, ?_⟩
      · intro e'; rw [e1] at e'; cases e'
      · intro _; exact a3 (by rw [e0]; simp)
    · omega

/-- the stamp clause survives when the members keep `addAt` and `cbAt` -/
theorem ci_stamps_frame {l l' : List Tp} {c : Comp} (h : CI l c)
    (hv : ∀ m ∈ c.members, ∀ tp' : Tp, l'[m]? = some tp' →
          ∃ tp : Tp, l[m]? = some tp ∧ tp'.addAt = tp.addAt ∧ tp'.cbAt = tp.cbAt) :
    ∀ (i m m' : Nat) (tp tp' : Tp), c.members[i]? = some m → c.members[i + 1]? = some m' →
      l'[m]? = some tp → l'[m']? = some tp' → tp'.addAt ≠ 0 → tp.cbAt ≠ 0 ∧ tp.cbAt < tp'.addAt := by
  intro i m m' tp tp' hm hm' htp htp' hne
  obtain ⟨x, hx, _, e3⟩ := hv m (List.mem_of_getElem? hm) tp htp
  obtain ⟨y, hy, e2, _⟩ := hv m' (List.mem_of_getElem? hm') tp' htp'
  have := h.stamps i m m' x y hm hm' hx hy (by rw [← e2]; exact hne)
  rw [e3, e2]; exact this

/-- a context step that rewrites a descriptor outside the compound, or keeps state (up to inCb → done, or
    inCbN → done below `completed`), flags and stamps -/
theorem ci_set_frame {l l' : List Tp} {c : Comp} {p : Nat} {tp x : Tp} (h : CI l c) (htp : l[p]? = some tp)
    (hset : l' = l.set p x)
    (hp : p ∉ c.members ∨ ((x.st = tp.st ∨ (tp.st = .inCb ∧ x.st = .done) ∨
            (tp.st = .inCbN ∧ x.st = .done ∧ ∀ i, c.members[i]? = some p → i < c.completed)) ∧
          x.addAt = tp.addAt ∧ x.cbAt = tp.cbAt ∧ x.early = tp.early)) :
    CI l' c := by
  refine ⟨h.le, ci_mem_frame h ?_, h.fin, ci_stamps_frame h ?_⟩
  · intro i m hm y hy
    rw [hset, get_set_tp _ _ _ _ _ htp]
    by_cases hmp : m = p
    · rw [if_pos hmp]
      rcases hp with hp | hp
      · exact absurd (hmp ▸ List.mem_of_getElem? hm) hp
      · subst hmp; rw [htp] at hy; cases hy
        refine ⟨x, rfl, hp.2.2.2, ?_⟩
        rcases hp.1 with e | e | ⟨e1, e2, e3⟩
        · exact Or.inl (Or.inl e)
        · exact Or.inl (Or.inr (Or.inl e))
        · exact Or.inr ⟨e1, e2, e3 i hm⟩
    · rw [if_neg hmp]; exact ⟨y, hy, rfl, Or.inl (Or.inl rfl)⟩
  · intro m hm tp' htp'
    rw [hset, get_set_tp _ _ _ _ _ htp] at htp'
    by_cases hmp : m = p
    · rw [if_pos hmp] at htp'; cases htp'
      rcases hp with hp | hp
      · exact absurd (hmp ▸ hm) hp
      · exact ⟨tp, hmp ▸ htp, hp.2.1, hp.2.2.1⟩
    · rw [if_neg hmp] at htp'; exact ⟨tp', htp', rfl, rfl⟩

/-- the nested termination of a member that is itself a compound: added → inCbN, callback stamp := now -/
theorem ci_set_ndet {l l' : List Tp} {c : Comp} {clk p : Nat} {tp x : Tp} (h : CI l c) (hS : ∀ tp ∈ l, tpOK clk tp)
    (hnd : c.members.Nodup) (htp : l[p]? = some tp) (hset : l' = l.set p x)
    (h1 : tp.st = .added) (h2 : x.st = .inCbN) (h3 : x.addAt = tp.addAt) (h5 : x.early = tp.early) : CI l' c := by
  refine ⟨h.le, ci_mem_frame h ?_, h.fin, ?_⟩
  · intro i m hm y hy
    rw [hset, get_set_tp _ _ _ _ _ htp]
    by_cases hmp : m = p
    · rw [if_pos hmp]; subst hmp; rw [htp] at hy; cases hy
      exact ⟨x, rfl, h5, Or.inl (Or.inr (Or.inr (Or.inr ⟨h1, h2⟩)))⟩
    · rw [if_neg hmp]; exact ⟨y, hy, rfl, Or.inl (Or.inl rfl)⟩
  · intro i m m' t1 t1' hm hm' ht1 ht1' hne
    rw [hset, get_set_tp _ _ _ _ _ htp] at ht1 ht1'
    by_cases hm'p : m' = p
    · rw [if_pos hm'p] at ht1'; cases ht1'
      have hmp : m ≠ p := by
        intro e; rw [e] at hm; rw [hm'p] at hm'
        have := nodup_get_inj hnd hm hm'; omega
      rw [if_neg hmp] at ht1
      rw [h3] at hne ⊢
      exact h.stamps i m m' t1 tp hm hm' ht1 (hm'p ▸ htp) hne
    · rw [if_neg hm'p] at ht1'
      by_cases hmp : m = p
      · rw [if_pos hmp] at ht1; cases ht1
        -- the member after p has never been added: p is at position `completed`
        obtain ⟨y, hy, _, b2, b3, b4⟩ := h.mem i p (hmp ▸ hm)
        rw [htp] at hy; cases hy
        have hic : i = c.completed := by
          rcases Nat.lt_trichotomy i c.completed with hlt | heq | hgt
          · rcases b2 hlt with e | e | e <;> rw [h1] at e <;> cases e
          · exact heq
          · have := b3 hgt; rw [h1] at this; cases this
        obtain ⟨z, hz, _, _, c3, _⟩ := h.mem (i + 1) m' hm'
        rw [ht1'] at hz; cases hz
        have hok := hS t1' (List.mem_of_getElem? ht1')
        have hzs := c3 (by omega)
        simp only [tpOK, hzs] at hok
        exact absurd (by omega) hne
      · rw [if_neg hmp] at ht1
        exact h.stamps i m m' t1 t1' hm hm' ht1 ht1' hne

/-- the increment of add_taskpool on a member (adding → added, addAt := now) -/
theorem ci_set_inc {l l' : List Tp} {c : Comp} {p : Nat} {tp x : Tp} (h : CI l c) {clk : Nat} (hS : ∀ tp ∈ l, tpOK clk tp) (hnd : c.members.Nodup)
    (htp : l[p]? = some tp) (hset : l' = l.set p x) (hpm : p ∈ c.members)
    (h1 : tp.st = .adding) (h2 : x.st = .added) (h3 : x.addAt = clk) (h4 : x.cbAt = tp.cbAt) (h5 : x.early = tp.early) :
    CI l' c := by
  refine ⟨h.le, ci_mem_frame h ?_, h.fin, ?_⟩
  · intro i m hm y hy
    rw [hset, get_set_tp _ _ _ _ _ htp]
    by_cases hmp : m = p
    · rw [if_pos hmp]; subst hmp; rw [htp] at hy; cases hy
      exact ⟨x, rfl, h5, Or.inl (Or.inr (Or.inr (Or.inl ⟨h1, h2⟩)))⟩
    · rw [if_neg hmp]; exact ⟨y, hy, rfl, Or.inl (Or.inl rfl)⟩
  · intro i m m' t1 t1' hm hm' ht1 ht1' hne
    rw [hset, get_set_tp _ _ _ _ _ htp] at ht1 ht1'
    by_cases hm'p : m' = p
    · rw [if_pos hm'p] at ht1'; cases ht1'
      have hmp : m ≠ p := by
        intro e; rw [e] at hm; rw [hm'p] at hm'
        have := nodup_get_inj hnd hm hm'; omega
      rw [if_neg hmp] at ht1
      -- position i+1 holds the member being added, so i < completed
      obtain ⟨y, hy, _, b2, b3, b4⟩ := h.mem (i + 1) p (hm'p ▸ hm')
      rw [htp] at hy; cases hy
      have hic : i + 1 = c.completed := by
        rcases Nat.lt_trichotomy (i + 1) c.completed with hlt | heq | hgt
        · rcases b2 hlt with e | e | e <;> rw [h1] at e <;> cases e
        · exact heq
        · have := b3 hgt; rw [h1] at this; cases this
      obtain ⟨z, hz, _, c2, _, _⟩ := h.mem i m hm
      rw [ht1] at hz; cases hz
      have hok := hS t1 (List.mem_of_getElem? ht1)
      rw [h3]
      rcases c2 (by omega) with e | e | e <;> simp only [tpOK, e] at hok <;> omega
    · rw [if_neg hm'p] at ht1'
      by_cases hmp : m = p
      · rw [if_pos hmp] at ht1; cases ht1
        rw [h4]
        exact h.stamps i m m' tp t1' hm hm' (hmp ▸ htp) ht1' hne
      · rw [if_neg hmp] at ht1
        exact h.stamps i m m' t1 t1' hm hm' ht1 ht1' hne

/-! ## members of all compounds -/

theorem mem_allMembers {comps : List Comp} {i m : Nat} {c : Comp} (hc : comps[i]? = some c) (hm : m ∈ c.members) :
    m ∈ allMembers comps := by
  unfold allMembers
  exact List.mem_flatMap.2 ⟨c, List.mem_of_getElem? hc, hm⟩

theorem nodup_members {comps : List Comp} (hn : (allMembers comps).Nodup) {i : Nat} {c : Comp} (hc : comps[i]? = some c) :
    c.members.Nodup := by
  induction comps generalizing i with
  | nil => simp at hc
  | cons a t ih =>
    simp only [allMembers, List.flatMap_cons] at hn
    cases i with
    | zero => simp at hc; subst hc; exact (List.nodup_append.1 hn).1
    | succ i => simp at hc; exact ih (List.nodup_append.1 hn).2.1 hc

theorem members_disjoint {comps : List Comp} (hn : (allMembers comps).Nodup) {i j m : Nat} {c c' : Comp}
    (hc : comps[i]? = some c) (hc' : comps[j]? = some c') (hij : i ≠ j) (hm : m ∈ c.members) : m ∉ c'.members := by
  induction comps generalizing i j with
  | nil => simp at hc
  | cons a t ih =>
    simp only [allMembers, List.flatMap_cons] at hn
    obtain ⟨_, h2, h3⟩ := List.nodup_append.1 hn
    cases i with
    | zero =>
      cases j with
      | zero => exact absurd rfl hij
      | succ j =>
        simp at hc hc'; subst hc
        intro hm'
        exact h3 m hm m (List.mem_flatMap.2 ⟨c', List.mem_of_getElem? hc', hm'⟩) rfl
    | succ i =>
      cases j with
      | zero =>
        simp at hc hc'; subst hc'
        intro hm'
        exact h3 m hm' m (List.mem_flatMap.2 ⟨c, List.mem_of_getElem? hc, hm⟩) rfl
      | succ j =>
        simp at hc hc'
        exact ih h2 hc hc' (fun e => hij (by rw [e]))

theorem allMembers_set {comps : List Comp} {i : Nat} {c c' : Comp} (hc : comps[i]? = some c) (hm : c'.members = c.members) :
    allMembers (comps.set i c') = allMembers comps := by
  induction comps generalizing i with
  | nil => simp at hc
  | cons a t ih =>
    cases i with
    | zero => simp at hc; subst hc; simp [allMembers, hm]
    | succ i =>
      simp at hc
      have := ih hc
      simp only [allMembers, List.set_cons_succ, List.flatMap_cons] at this ⊢
      rw [this]

end ParsecVerif.Compound
