import ParsecVerif.Proofs.FourCounterI4
/-
  A second invariant, for deadlock freedom: an idle monitor has no work, and a monitor that is idle
  and waits for its children still misses at least one contribution (otherwise it would have
  contributed itself).  Local to one process: every handler re-establishes it for the process it
  runs on and leaves the others untouched.
-/
namespace ParsecVerif.FourCounter

def good (p : Proc) : Prop :=
  ((p.st = .idleWC ∨ p.st = .idleWP) → p.wl = 0) ∧ (p.st = .idleWC → p.ncl ≠ 0)

def Live (s : State) : Prop := ∀ q, q < s.n → good (s.procs q)

theorem good_busy {p : Proc} (h1 : p.st ≠ .idleWC) (h2 : p.st ≠ .idleWP) : good p :=
  ⟨fun h => by
    rcases h with h | h
    · exact absurd h h1
    · exact absurd h h2, fun h => absurd h h1⟩

theorem good_idleWP {p : Proc} (h : p.st = .idleWP) (hw : p.wl = 0) : good p :=
  ⟨fun _ => hw, fun h' => by rw [h] at h'; cases h'⟩

theorem sendUp_other (s : State) {me q : Nat} (e : q ≠ me) : (sendUp s me).procs q = s.procs q := by
  unfold sendUp; split
  · rename_i h0; subst h0; exact rootDecide_procs_ne s e
  · simp [sampleUp, e]

theorem sendUp_good (s : State) (me : Nat) (hw : (s.procs me).wl = 0) (hic : (s.procs me).st = .idleWC) :
    good ((sendUp s me).procs me) := by
  unfold sendUp; split
  · rename_i h0; subst h0
    simp only [rootDecide, upd_same]
    unfold rootAfter
    split
    · exact good_busy (by simp) (by simp)
    · rename_i hr
      refine ⟨fun _ => ?_, fun _ => ?_⟩
      · show (accAdd (s.procs 0)).nt + (accAdd (s.procs 0)).npa = 0; exact hw
      · show ((nbChildren s.n 0 : Nat) : Int) ≠ 0
        unfold rootRes at hr
        intro e
        have : nbChildren s.n 0 = 0 := by omega
        simp [this] at hr
  · simp only [sampleUp, upd_same]
    exact good_idleWP rfl hw

theorem checkMsg_other (s : State) {me q : Nat} (e : q ≠ me) : (checkMsg s me).procs q = s.procs q := by
  unfold checkMsg; split
  · exact sendUp_other s e
  · rfl

/-- check_state_message_received re-establishes the property, whatever nb_child_left has become -/
theorem checkMsg_good (s : State) (me : Nat)
    (hid : ((s.procs me).st = .idleWC ∨ (s.procs me).st = .idleWP) → (s.procs me).wl = 0) :
    good ((checkMsg s me).procs me) := by
  unfold checkMsg; split
  · rename_i hc; exact sendUp_good s me hc.1 hc.2.1
  · rename_i hc
    refine ⟨hid, fun hic => ?_⟩
    intro e; exact hc ⟨hid (Or.inl hic), hic, e⟩

theorem checkWl_other (s : State) {me q : Nat} (e : q ≠ me) : (checkWl s me).procs q = s.procs q := by
  unfold checkWl
  split
  · split
    · simp [setSt, setP, e]
    · split
      · split
        · rw [sendUp_other _ e]; simp [setSt, setP, e]
        · simp [setSt, setP, e]
      · rfl
  · split
    · simp [setSt, setP, e]
    · split
      · simp [setSt, setP, e]
      · rfl

theorem checkWl_good (s : State) (me : Nat) (hl : (s.procs me).st = .idleWC → (s.procs me).ncl ≠ 0) :
    good ((checkWl s me).procs me) := by
  unfold checkWl
  split
  · rename_i hw
    split
    · simp only [setSt, setP, upd_same]
      exact good_idleWP rfl hw
    · split
      · rename_i hbc
        split
        · apply sendUp_good
          · simpa [setSt, setP, Proc.wl] using hw
          · simp [setSt, setP]
        · rename_i hncl
          simp only [setSt, setP, upd_same]
          exact ⟨fun _ => hw, fun _ => hncl⟩
      · exact ⟨fun _ => hw, hl⟩
  · rename_i hw
    split
    · simp only [setSt, setP, upd_same]
      exact good_busy (by simp) (by simp)
    · rename_i hic
      split
      · simp only [setSt, setP, upd_same]
        exact good_busy (by simp) (by simp)
      · rename_i hip
        exact good_busy hic hip

theorem Live.step {s s' : State} (h : Live s) {a : Action} (hs : step s a = some s') : Live s' := by
  have hn := step_n hs
  -- it is enough to exhibit the process the operation ran on
  suffices hk : ∃ me, (∀ q, q ≠ me → s'.procs q = s.procs q) ∧ (me < s.n → good (s'.procs me)) by
    obtain ⟨me, ho, hg⟩ := hk
    intro q hq
    rw [hn] at hq
    by_cases e : q = me
    · subst e; exact hg hq
    · rw [ho q e]; exact h q hq
  cases a <;> simp only [FourCounter.step] at hs
  case ready p =>
    split at hs <;> cases hs
    refine ⟨p, fun q e => by simp [setP, e], fun _ => ?_⟩
    simp only [setP, upd_same]
    exact good_busy (by simp) (by simp)
  case setT p v =>
    split at hs <;> cases hs
    refine ⟨p, fun q e => ?_, fun hp => ?_⟩ <;> unfold setWl <;> split
    · rw [checkWl_other _ e]; simp [setP, e]
    · simp [setP, e]
    · apply checkWl_good; simpa [setP] using (h p hp).2
    · rename_i hc
      have : (s.procs p).nt = v := by simpa using hc
      simp only [setP, upd_same]
      have := h p hp
      unfold good Proc.wl at this ⊢
      simpa [‹(s.procs p).nt = v›.symm] using this
  case setPA p v =>
    split at hs <;> cases hs
    refine ⟨p, fun q e => ?_, fun hp => ?_⟩ <;> unfold setWl <;> split
    · rw [checkWl_other _ e]; simp [setP, e]
    · simp [setP, e]
    · apply checkWl_good; simpa [setP] using (h p hp).2
    · rename_i hc
      have : (s.procs p).npa = v := by simpa using hc
      simp only [setP, upd_same]
      have := h p hp
      unfold good Proc.wl at this ⊢
      simpa [‹(s.procs p).npa = v›.symm] using this
  case addT p v =>
    split at hs <;> cases hs
    rename_i hc
    refine ⟨p, fun q e => ?_, fun hp => ?_⟩ <;> unfold setWl <;> split
    · rw [checkWl_other _ e]; simp [setP, e]
    · simp [setP, e]
    · apply checkWl_good; simpa [setP] using (h p hp).2
    · rename_i hk
      have hk' : ¬ (v ≠ 0 ∧ ((s.procs p).nt = 0 ∨ ((s.procs p).nt : Int) + v = 0)) := by simpa using hk
      simp only [setP, upd_same]
      have old := h p hp
      have h0 := hc.2.2.1
      unfold good Proc.wl at old ⊢
      refine ⟨fun hi => ?_, old.2⟩
      have := old.1 hi
      show (((s.procs p).nt : Int) + v).toNat + (s.procs p).npa = 0
      omega
  case addPA p v =>
    split at hs <;> cases hs
    rename_i hc
    refine ⟨p, fun q e => ?_, fun hp => ?_⟩ <;> unfold setWl <;> split
    · rw [checkWl_other _ e]; simp [setP, e]
    · simp [setP, e]
    · apply checkWl_good; simpa [setP] using (h p hp).2
    · rename_i hk
      have hk' : ¬ (v ≠ 0 ∧ ((s.procs p).npa = 0 ∨ ((s.procs p).npa : Int) + v = 0)) := by simpa using hk
      simp only [setP, upd_same]
      have old := h p hp
      have h0 := hc.2.2.1
      unfold good Proc.wl at old ⊢
      refine ⟨fun hi => ?_, old.2⟩
      have := old.1 hi
      show (s.procs p).nt + (((s.procs p).npa : Int) + v).toNat = 0
      omega
  case send p q =>
    split at hs <;> cases hs
    refine ⟨p, fun r e => by simp [push, setP, e], fun hp => ?_⟩
    simp only [push, setP, upd_same]; exact h p hp
  case rend q =>
    split at hs <;> cases hs
    refine ⟨q, fun r e => by simp [setP, e], fun hq => ?_⟩
    simp only [setP, upd_same]; exact h q hq
  case rstart k =>
    split at hs
    · cases hs
    · rename_i pk hk
      split at hs <;> cases hs
      refine ⟨pk.dst, fun r e => by simp [setP, e], fun hq => ?_⟩
      simp only [setP, upd_same]
      apply good_busy
      · show (if (s.procs pk.dst).st = .idleWC then St.busyWC
              else if (s.procs pk.dst).st = .idleWP then .busyWP else (s.procs pk.dst).st) ≠ .idleWC
        split
        · simp
        · split
          · simp
          · assumption
      · show (if (s.procs pk.dst).st = .idleWC then St.busyWC
              else if (s.procs pk.dst).st = .idleWP then .busyWP else (s.procs pk.dst).st) ≠ .idleWP
        split
        · simp
        · split
          · simp
          · assumption
  case deliver k =>
    split at hs
    · cases hs
    · rename_i pk hk
      split at hs
      · rename_i hdst
        split at hs
        · cases hs
        · split at hs
          · split at hs <;> cases hs
            exact ⟨pk.dst, fun _ _ => rfl, fun hq => h _ hq⟩
          · cases hs
            refine ⟨pk.dst, fun r e => ?_, fun hq => ?_⟩
            · unfold msgUp; rw [checkMsg_other _ e]; simp [setP, e]
            · unfold msgUp; apply checkMsg_good
              simpa [setP, Proc.wl] using (h _ hq).1
        · split at hs
          · split at hs <;> cases hs
            exact ⟨pk.dst, fun _ _ => rfl, fun hq => h _ hq⟩
          · cases hs
            refine ⟨pk.dst, fun r e => ?_, fun hq => ?_⟩
            · unfold msgDown
              split
              · simp [setP, push, e]
              · split
                · rw [checkMsg_other _ e]; simp [setP, push, e]
                · simp [setP, push, e]
            · unfold msgDown
              split
              · simp only [setP, push, upd_same]; exact good_busy (by simp) (by simp)
              · split
                · rename_i hip
                  apply checkMsg_good
                  intro _
                  have := (h _ hq).1 (Or.inr hip)
                  simpa [setP, push, Proc.wl] using this
                · simp only [setP, push, upd_same]; exact good_busy (by simp) (by simp)
      · cases hs

theorem Live.reach {n : Nat} {s : State} (h : Reach n s) : Live s := by
  induction h with
  | init => intro q _; exact good_busy (by simp [init]) (by simp [init])
  | step a _ hs ih => exact ih.step hs

end ParsecVerif.FourCounter
