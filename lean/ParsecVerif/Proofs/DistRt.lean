import ParsecVerif.Model.DistRt
import ParsecVerif.Proofs.DataflowLive
import ParsecVerif.Proofs.RemoteDepMachine
/-! Basic lemmas for the distributed runtime (C05): the sequential reference, association lists,
    folds of releases, edge counting. -/
namespace ParsecVerif.DistRt
open ParsecVerif.Dataflow
open ParsecVerif.RemoteDep hiding St

/-! ## `seqRun` -/

def seqStep (G : Graph) (F : Nat → List (Option Nat) → Nat) (vals : List (Option Nat)) (i : Nat) : List (Option Nat) :=
  vals.set i (some (F i ((predsOf G i).map fun p => (vals[p]?).getD none)))

def seqPrefix (G : Graph) (F : Nat → List (Option Nat) → Nat) (k : Nat) : List (Option Nat) :=
  (List.range k).foldl (seqStep G F) (List.replicate G.n none)

theorem seqRun_eq (G : Graph) (F) : seqRun G F = seqPrefix G F G.n := rfl

theorem seqPrefix_succ (G : Graph) (F) (k : Nat) : seqPrefix G F (k + 1) = seqStep G F (seqPrefix G F k) k := by
  unfold seqPrefix
  rw [List.range_succ, List.foldl_append]
  rfl

theorem seqPrefix_length (G : Graph) (F) (k : Nat) : (seqPrefix G F k).length = G.n := by
  induction k with
  | zero => simp [seqPrefix]
  | succ k ih => rw [seqPrefix_succ]; simp [seqStep, ih]

/-- after `k` steps every node below `k` holds the body's value on the (final) values of its predecessors -/
theorem seqPrefix_spec (G : Graph) (F) (hfw : ∀ e ∈ G.E, e.1 < e.2) : ∀ k, k ≤ G.n → ∀ i, i < k →
    (seqPrefix G F k)[i]? = some (some (F i ((predsOf G i).map fun p => ((seqPrefix G F k)[p]?).getD none))) := by
  intro k
  induction k with
  | zero => intro _ i hi; omega
  | succ k ih =>
    intro hk i hi
    rw [seqPrefix_succ]
    unfold seqStep
    have hlen := seqPrefix_length G F k
    have hcongr : ∀ j, j ≤ k → ((predsOf G j).map fun p => (((seqPrefix G F k).set k
          (some (F k ((predsOf G k).map fun p => ((seqPrefix G F k)[p]?).getD none))))[p]?).getD none) =
        ((predsOf G j).map fun p => ((seqPrefix G F k)[p]?).getD none) := by
      intro j hj
      apply List.map_congr_left
      intro p hp
      have hlt : p < j := hfw (p, j) ((mem_predsOf G j p).1 hp)
      rw [List.getElem?_set_ne (by omega)]
    by_cases hik : i = k
    · subst hik
      rw [List.getElem?_set_self (by omega), hcongr i (Nat.le_refl _)]
    · rw [List.getElem?_set_ne (fun h => hik h.symm), hcongr i (by omega)]
      exact ih (by omega) i (by omega)

/-- **every quiescent state of the single-process machine holds the values of the sequential reference** -/
theorem quiescent_vals_eq_seqRun {G : Graph} {F} (hfw : ∀ e ∈ G.E, e.1 < e.2) {s : St} (h : Inv G F s)
    (hq : quiescent s) : ∀ i, i < G.n → s.val[i]? = (seqRun G F)[i]? := by
  intro i
  induction i using Nat.strongRecOn with
  | _ i ih =>
    intro hi
    have hlen : i < s.status.length := h.len ▸ hi
    have hend : s.status[i]? = some .ended := by
      rw [List.getElem?_eq_getElem hlen]; congr 1; exact hq.2 _ (List.getElem_mem hlen)
    rw [h.vals i hend, seqRun_eq, seqPrefix_spec G F hfw G.n (Nat.le_refl _) i hi]
    congr 3
    unfold inputs
    apply List.map_congr_left
    intro p hp
    have hpe := (mem_predsOf G i p).1 hp
    have hlt : p < i := hfw (p, i) hpe
    rw [ih p hlt (by omega), seqRun_eq]

/-! ## association lists -/

theorem look_cons {κ β} [BEq κ] (k k' : κ) (v : β) (l : List (κ × β)) :
    look ((k, v) :: l) k' = if (k == k') = true then some v else look l k' := by
  unfold look
  rw [List.find?_cons]
  cases h : (k == k') <;> simp

theorem look_cons_isSome {κ β} [BEq κ] (k k' : κ) (v : β) (l : List (κ × β))
    (h : (look l k').isSome) : (look ((k, v) :: l) k').isSome := by
  rw [look_cons]; split <;> simp_all

/-! ## releases -/

section rel
variable {G : Graph} {F : Nat → List (Option Nat) → Nat}

theorem step_release_val (s : St) (a b : Nat) : (step G F s (.release a b)).val = s.val ∧
    (step G F s (.release a b)).log = s.log ∧ (step G F s (.release a b)).again = s.again := by
  unfold step; split <;> simp

theorem step_release_pending (s : St) (a b : Nat) (ha : s.status[a]? = some .ended) :
    (step G F s (.release a b)).pending = s.pending.erase (a, b) := by
  unfold step
  by_cases hen : enabled s (.release a b) = true
  · simp [hen]
  · have hnm : (a, b) ∉ s.pending := by
      intro hm; apply hen; simp [enabled, ha, hm]
    simp [hen, List.erase_of_not_mem hnm]

/-- a release changes the status of its target only, and only from `waiting` to `ready` -/
theorem step_release_status {rank : Nat → Nat} (hwf : WF G rank) (s : St) (h : Inv G F s) (a b j : Nat)
    (hj : s.status[j]? ≠ some .waiting) : (step G F s (.release a b)).status[j]? = s.status[j]? := by
  unfold step
  by_cases hen : enabled s (.release a b) = true
  · have hb := release_target_waiting hwf h a b hen
    simp only [hen, Bool.not_true, Bool.false_eq_true, if_false]
    split
    · rfl
    · have : j ≠ b := fun e => hj (e ▸ hb)
      exact List.getElem?_set_ne (fun e => this e.symm)
  · simp [hen]

/-- the releases done when a message completes -/
def relFold (G : Graph) (F : Nat → List (Option Nat) → Nat) (a : Nat) (rel : List Nat) (c : St) : St :=
  rel.foldl (fun c b => step G F c (.release a b)) c

theorem relFold_is_run (a : Nat) (rel : List Nat) (c : St) :
    relFold G F a rel c = (rel.map fun b => Tr.release a b).foldl (step G F) c := by
  unfold relFold; rw [List.foldl_map]

theorem relFold_inv {rank : Nat → Nat} (hwf : WF G rank) (a : Nat) : ∀ (rel : List Nat) (c : St), Inv G F c →
    Inv G F (relFold G F a rel c) ∧ (relFold G F a rel c).val = c.val ∧ (relFold G F a rel c).log = c.log ∧
    (relFold G F a rel c).again = c.again ∧
    (∀ j : Nat, c.status[j]? ≠ some Status.waiting → (relFold G F a rel c).status[j]? = c.status[j]?) ∧
    (∀ e, e ∈ (relFold G F a rel c).pending → e ∈ c.pending) := by
  intro rel
  induction rel with
  | nil => intro c h; exact ⟨h, rfl, rfl, rfl, fun _ _ => rfl, fun _ he => he⟩
  | cons b rest ih =>
    intro c h
    have h1 := inv_step hwf c h (.release a b)
    obtain ⟨i1, i2, i3, i4, i5, i6⟩ := ih _ h1
    have hv := step_release_val (G := G) (F := F) c a b
    refine ⟨i1, i2.trans hv.1, i3.trans hv.2.1, i4.trans hv.2.2, ?_, ?_⟩
    · intro j hj
      have e1 := step_release_status hwf c h a b j hj
      have : (relFold G F a (b :: rest) c).status[j]? = (relFold G F a rest (step G F c (.release a b))).status[j]? := rfl
      rw [this, i5 j (by rw [e1]; exact hj), e1]
    · intro e he
      have := i6 e he
      unfold step at this
      split at this
      · exact this
      · exact List.mem_of_mem_erase this

theorem relFold_pending {rank : Nat → Nat} (hwf : WF G rank) (a : Nat) : ∀ (rel : List Nat) (c : St), Inv G F c →
    c.status[a]? = some .ended →
    (relFold G F a rel c).pending = rel.foldl (fun p b => p.erase (a, b)) c.pending := by
  intro rel
  induction rel with
  | nil => intro c _ _; rfl
  | cons b rest ih =>
    intro c h ha
    have h1 := inv_step hwf c h (.release a b)
    have ha1 : (step G F c (.release a b)).status[a]? = some .ended := by
      rw [step_release_status hwf c h a b a (by rw [ha]; simp), ha]
    have := ih _ h1 ha1
    rw [step_release_pending c a b ha] at this
    exact this

theorem count_foldl_erase (a : Nat) : ∀ (rel : List Nat) (p : List (Nat × Nat)) (x y : Nat),
    (rel.foldl (fun p b => p.erase (a, b)) p).count (x, y) =
      p.count (x, y) - (if x = a then rel.count y else 0) := by
  intro rel
  induction rel with
  | nil => intro p x y; simp
  | cons b rest ih =>
    intro p x y
    rw [List.foldl_cons, ih, List.count_erase, List.count_cons]
    by_cases hx : x = a
    · subst hx
      by_cases hb : b = y
      · subst hb; simp; omega
      · have : ((x, b) == (x, y)) = false := by simp [hb]
        have h2 : (b == y) = false := by simp [hb]
        simp [this, h2]
    · have : ((a, b) == (x, y)) = false := by
        simp only [beq_eq_false_iff_ne, ne_eq, Prod.mk.injEq, not_and]
        intro e; exact absurd e.symm hx
      simp [this, hx]

theorem mem_foldl_erase_of_not (a : Nat) : ∀ (rel : List Nat) (p : List (Nat × Nat)) (e : Nat × Nat),
    e ∈ p → e ∉ rel.foldl (fun p b => p.erase (a, b)) p → e.1 = a ∧ e.2 ∈ rel := by
  intro rel
  induction rel with
  | nil => intro p e he hn; exact absurd he hn
  | cons b rest ih =>
    intro p e he hn
    rw [List.foldl_cons] at hn
    by_cases hne : e = (a, b)
    · subst hne; exact ⟨rfl, List.mem_cons_self⟩
    · have := ih (p.erase (a, b)) e ((List.mem_erase_of_ne hne).2 he) hn
      exact ⟨this.1, List.mem_cons_of_mem _ this.2⟩

end rel

/-! ## counting edges -/

theorem count_graph_E (g : DGraph) (a b : Nat) :
    g.graph.E.count (a, b) = g.E.countP (fun e => e.1 == a && e.2.1 == b) := by
  unfold DGraph.graph
  simp only
  rw [List.count_eq_countP, List.countP_map]
  apply List.countP_congr
  intro e _
  simp only [Function.comp, beq_iff_eq, Prod.mk.injEq, Bool.and_eq_true]

theorem count_releasedBy (g : DGraph) (cf : Conf) (a : Nat) (m : Msg) (b : Nat) :
    (releasedBy g cf a m).count b =
      g.E.countP (fun e => (e.1 == a && cf.place e.2.1 == m.dst && (m.keys.contains e.2.2 || g.isCtl a e.2.2)) && e.2.1 == b) := by
  unfold releasedBy
  rw [List.count_eq_countP, List.countP_map, List.countP_filter]
  apply List.countP_congr
  intro e _
  simp only [Function.comp, Bool.and_comm]

theorem countP_split {α} (l : List α) (p q : α → Bool) :
    l.countP p = l.countP (fun x => p x && q x) + l.countP (fun x => p x && !q x) := by
  induction l with
  | nil => rfl
  | cons x xs ih =>
    simp only [List.countP_cons, ih]
    cases p x <;> cases q x <;> simp <;> omega

theorem mem_graph_E (g : DGraph) (a b : Nat) : (a, b) ∈ g.graph.E ↔ ∃ e ∈ g.E, e.1 = a ∧ e.2.1 = b := by
  unfold DGraph.graph
  simp only [List.mem_map, Prod.mk.injEq]

theorem graph_WF (g : DGraph) (h : g.WF) : WF g.graph id := by
  constructor
  · intro e he
    obtain ⟨e3, h3, h1, h2⟩ := (mem_graph_E g e.1 e.2).1 he
    have := h e3 h3
    exact ⟨by show e.1 < g.n; omega, by show e.2 < g.n; omega⟩
  · intro e he
    obtain ⟨e3, h3, h1, h2⟩ := (mem_graph_E g e.1 e.2).1 he
    have := h e3 h3
    show e.1 < e.2
    omega

theorem graph_fw (g : DGraph) (h : g.WF) : ∀ e ∈ g.graph.E, e.1 < e.2 := (graph_WF g h).2

end ParsecVerif.DistRt
