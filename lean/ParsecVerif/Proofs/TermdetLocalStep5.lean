import ParsecVerif.Proofs.TermdetLocal
/-! Preservation of the invariant by one thread step (from idle: hand-over of units through the pools). -/
namespace ParsecVerif.TermdetLocal

set_option maxHeartbeats 4000000 in
theorem local_idle_putT (sh : Shared) (th : Thread) (S S' : Sums) (k : Nat) (rest : List Op) (hpc : th.pc = .idle) (hs : th.script = .put .T k :: rest)
    (hI : Inv' sh S) (hF : Facts S (W th)) (hen : enabled sh th)
    (hM : Moves S S' (W th) (W (tstep sh th).2)) : Inv' (tstep sh th).1 S' := by
  prelude
  simp only at hs
  subst hs
  unf
  smp []
  finish

set_option maxHeartbeats 4000000 in
theorem local_idle_takeT (sh : Shared) (th : Thread) (S S' : Sums) (k : Nat) (rest : List Op) (hpc : th.pc = .idle) (hs : th.script = .take .T k :: rest)
    (hI : Inv' sh S) (hF : Facts S (W th)) (hen : enabled sh th)
    (hM : Moves S S' (W th) (W (tstep sh th).2)) : Inv' (tstep sh th).1 S' := by
  prelude
  simp only at hs
  subst hs
  unf
  by_cases hc : k ≤ pT
  · smp [hc]
    finish
  · smp [hc]
    finish

set_option maxHeartbeats 4000000 in
theorem local_idle_putA (sh : Shared) (th : Thread) (S S' : Sums) (k : Nat) (rest : List Op) (hpc : th.pc = .idle) (hs : th.script = .put .A k :: rest)
    (hI : Inv' sh S) (hF : Facts S (W th)) (hen : enabled sh th)
    (hM : Moves S S' (W th) (W (tstep sh th).2)) : Inv' (tstep sh th).1 S' := by
  prelude
  simp only at hs
  subst hs
  unf
  smp []
  finish

set_option maxHeartbeats 4000000 in
theorem local_idle_takeA (sh : Shared) (th : Thread) (S S' : Sums) (k : Nat) (rest : List Op) (hpc : th.pc = .idle) (hs : th.script = .take .A k :: rest)
    (hI : Inv' sh S) (hF : Facts S (W th)) (hen : enabled sh th)
    (hM : Moves S S' (W th) (W (tstep sh th).2)) : Inv' (tstep sh th).1 S' := by
  prelude
  simp only at hs
  subst hs
  unf
  by_cases hc : k ≤ pA
  · smp [hc]
    finish
  · smp [hc]
    finish

set_option maxHeartbeats 4000000 in
theorem local_idle_putK (sh : Shared) (th : Thread) (S S' : Sums) (k : Nat) (rest : List Op) (hpc : th.pc = .idle) (hs : th.script = .put .K k :: rest)
    (hI : Inv' sh S) (hF : Facts S (W th)) (hen : enabled sh th)
    (hM : Moves S S' (W th) (W (tstep sh th).2)) : Inv' (tstep sh th).1 S' := by
  prelude
  simp only at hs
  subst hs
  unf
  smp []
  finish

set_option maxHeartbeats 4000000 in
theorem local_idle_takeK (sh : Shared) (th : Thread) (S S' : Sums) (k : Nat) (rest : List Op) (hpc : th.pc = .idle) (hs : th.script = .take .K k :: rest)
    (hI : Inv' sh S) (hF : Facts S (W th)) (hen : enabled sh th)
    (hM : Moves S S' (W th) (W (tstep sh th).2)) : Inv' (tstep sh th).1 S' := by
  prelude
  simp only at hs
  subst hs
  unf
  by_cases hc : k ≤ pK
  · smp [hc]
    finish
  · smp [hc]
    finish

end ParsecVerif.TermdetLocal
