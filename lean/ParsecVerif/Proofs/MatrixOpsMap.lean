import ParsecVerif.Model.MatrixOps
/-!
  Helper lemmas for C22, part 2: the column-claiming chains of map_operator.c.
  Inductive invariant over all interleavings of the chains' steps (task execution, atomic
  fetch-and-increment of `next_n`): every local tile is, at every moment, in exactly one of three
  places — already executed (in the log), ahead of exactly one chain in the column that chain
  owns, or in a column nobody has claimed yet (`next_n < column`).
-/
namespace ParsecVerif.MatrixOps

theorem scan_some (loc : Nat → Nat → Bool) (n : Nat) :
    ∀ fuel m r, scan loc n fuel m = some r →
      m ≤ r ∧ r < m + fuel ∧ loc r n = true ∧ ∀ k, m ≤ k → k < r → loc k n = false := by
  intro fuel
  induction fuel with
  | zero => intro m r h; simp [scan] at h
  | succ fuel ih =>
    intro m r h
    unfold scan at h
    by_cases hl : loc m n = true
    · rw [if_pos hl] at h
      have : m = r := Option.some.inj h
      subst this
      exact ⟨Nat.le_refl _, by omega, hl, fun k h1 h2 => by omega⟩
    · rw [if_neg hl] at h
      obtain ⟨h1, h2, h3, h4⟩ := ih (m + 1) r h
      refine ⟨by omega, by omega, h3, ?_⟩
      intro k hk1 hk2
      by_cases hkm : k = m
      · subst hkm; simpa using hl
      · exact h4 k (by omega) hk2

theorem scan_none (loc : Nat → Nat → Bool) (n : Nat) :
    ∀ fuel m, scan loc n fuel m = none → ∀ k, m ≤ k → k < m + fuel → loc k n = false := by
  intro fuel
  induction fuel with
  | zero => intro m _ k h1 h2; omega
  | succ fuel ih =>
    intro m h k hk1 hk2
    unfold scan at h
    by_cases hl : loc m n = true
    · rw [if_pos hl] at h; cases h
    · rw [if_neg hl] at h
      by_cases hkm : k = m
      · subst hkm; simpa using hl
      · exact ih (m + 1) h k (by omega) (by omega)

/-- tile `t` is ahead of (or at) the head of the chain, in the chain's column -/
def covers (t : Nat × Nat) : Chain → Bool
  | .ready m n => decide (n = t.2 ∧ m ≤ t.1)
  | _ => false

theorem countP_set_move {α} (p : α → Bool) (l : List α) (i : Nat) (y : α) (h : i < l.length) :
    (l.set i y).countP p + (if p l[i] = true then 1 else 0) = l.countP p + (if p y = true then 1 else 0) := by
  rw [List.countP_set h]
  by_cases hp : p l[i] = true
  · have pos : 0 < l.countP p := List.countP_pos_iff.2 ⟨_, List.getElem_mem h, hp⟩
    rw [if_pos hp]
    omega
  · rw [if_neg hp]
    omega

structure MapInv (cfg : MapCfg) (s : MapState) : Prop where
  heads : ∀ m n, Chain.ready m n ∈ s.chains → m < cfg.mt ∧ n < cfg.nt ∧ cfg.loc m n = true
  once  : ∀ t, isLocalTile cfg t →
            s.log.count t + s.chains.countP (covers t) + (if s.nextN < t.2 then 1 else 0) = 1
  only  : ∀ t, ¬ isLocalTile cfg t → s.log.count t = 0
  live  : cfg.nt ≤ s.nextN ∨ ∃ c ∈ s.chains, c ≠ Chain.done

/-! ### one chain, one tile -/

theorem covers_afterExec (cfg : MapCfg) (m n : Nat) (hm : m < cfg.mt) (t : Nat × Nat)
    (ht : isLocalTile cfg t) :
    (if covers t (.ready m n) = true then 1 else 0) =
      (if covers t (afterExec cfg m n) = true then 1 else 0) + (if t = (m, n) then 1 else 0) := by
  obtain ⟨tm, tn⟩ := t
  obtain ⟨h1, h2, h3⟩ := ht
  simp only at h1 h2 h3
  unfold afterExec
  cases hs : scan cfg.loc n (cfg.mt - (m + 1)) (m + 1) with
  | none =>
    have hn := scan_none cfg.loc n _ _ hs
    simp only [covers, decide_eq_true_eq, Prod.mk.injEq]
    by_cases hc : n = tn ∧ m ≤ tm
    · obtain ⟨rfl, hle⟩ := hc
      have : tm = m := by
        by_cases hlt : tm = m
        · exact hlt
        · have := hn tm (by omega) (by omega)
          rw [this] at h3; cases h3
      subst this
      simp
    · rw [if_neg hc]
      have : ¬ (tm = m ∧ tn = n) := by omega
      simp [this]
  | some m' =>
    obtain ⟨g1, g2, g3, g4⟩ := scan_some cfg.loc n _ _ _ hs
    simp only [covers, decide_eq_true_eq, Prod.mk.injEq]
    by_cases hc : n = tn ∧ m ≤ tm
    · obtain ⟨rfl, hle⟩ := hc
      rw [if_pos ⟨rfl, hle⟩]
      by_cases hlt : tm = m
      · subst hlt
        have : ¬ (n = n ∧ m' ≤ tm) := by omega
        rw [if_neg this, if_pos ⟨rfl, rfl⟩]
      · have hle' : m' ≤ tm := by
          by_cases hh : m' ≤ tm
          · exact hh
          · have := g4 tm (by omega) (by omega)
            rw [this] at h3; cases h3
        have : ¬ (tm = m ∧ n = n) := by omega
        rw [if_pos ⟨rfl, hle'⟩, if_neg this]
    · rw [if_neg hc]
      have a : ¬ (n = tn ∧ m' ≤ tm) := by omega
      have b : ¬ (tm = m ∧ tn = n) := by omega
      simp [a, b]

theorem covers_afterClaim (cfg : MapCfg) (c : Nat) (t : Nat × Nat) (ht : isLocalTile cfg t) :
    (if covers t (afterClaim cfg c) = true then 1 else 0) = (if t.2 = c then 1 else 0) := by
  obtain ⟨tm, tn⟩ := t
  obtain ⟨h1, h2, h3⟩ := ht
  simp only at h1 h2 h3
  unfold afterClaim
  by_cases hc : c < cfg.nt
  · rw [if_pos hc]
    cases hs : scan cfg.loc c cfg.mt 0 with
    | none =>
      have hn := scan_none cfg.loc c _ _ hs
      have : tn ≠ c := by
        intro e
        subst e
        have := hn tm (by omega) (by omega)
        rw [this] at h3; cases h3
      simp [covers, this]
    | some m' =>
      obtain ⟨g1, g2, g3, g4⟩ := scan_some cfg.loc c _ _ _ hs
      simp only [covers, decide_eq_true_eq]
      by_cases e : tn = c
      · subst e
        have hle' : m' ≤ tm := by
          by_cases hh : m' ≤ tm
          · exact hh
          · have := g4 tm (by omega) (by omega)
            rw [this] at h3; cases h3
        simp [hle']
      · have : ¬ (c = tn ∧ m' ≤ tm) := by omega
        simp [this, e]
  · rw [if_neg hc]
    have : tn ≠ c := by omega
    simp [covers, this]

theorem afterExec_ne_done (cfg : MapCfg) (m n : Nat) : afterExec cfg m n ≠ Chain.done := by
  unfold afterExec
  cases scan cfg.loc n (cfg.mt - (m + 1)) (m + 1) <;> simp

theorem afterExec_head (cfg : MapCfg) (m n a b : Nat) (hm : m < cfg.mt) (hn : n < cfg.nt)
    (h : afterExec cfg m n = .ready a b) : a < cfg.mt ∧ b < cfg.nt ∧ cfg.loc a b = true := by
  unfold afterExec at h
  cases hs : scan cfg.loc n (cfg.mt - (m + 1)) (m + 1) with
  | none => rw [hs] at h; cases h
  | some m' =>
    rw [hs] at h
    obtain ⟨g1, g2, g3, _⟩ := scan_some cfg.loc n _ _ _ hs
    injection h with e1 e2
    subst e1; subst e2
    exact ⟨by omega, hn, g3⟩

theorem afterClaim_head (cfg : MapCfg) (c a b : Nat)
    (h : afterClaim cfg c = .ready a b) : a < cfg.mt ∧ b < cfg.nt ∧ cfg.loc a b = true := by
  unfold afterClaim at h
  by_cases hc : c < cfg.nt
  · rw [if_pos hc] at h
    cases hs : scan cfg.loc c cfg.mt 0 with
    | none => rw [hs] at h; cases h
    | some m' =>
      rw [hs] at h
      obtain ⟨g1, g2, g3, _⟩ := scan_some cfg.loc c _ _ _ hs
      injection h with e1 e2
      subst e1; subst e2
      exact ⟨by omega, hc, g3⟩
  · rw [if_neg hc] at h; cases h

theorem afterClaim_done (cfg : MapCfg) (c : Nat) (h : afterClaim cfg c = .done) : cfg.nt ≤ c := by
  unfold afterClaim at h
  by_cases hc : c < cfg.nt
  · rw [if_pos hc] at h
    cases hs : scan cfg.loc c cfg.mt 0 <;> rw [hs] at h <;> cases h
  · omega

theorem count_snoc (l : List (Nat × Nat)) (x t : Nat × Nat) :
    (l ++ [x]).count t = l.count t + (if t = x then 1 else 0) := by
  rw [List.count_append, List.count_singleton]
  by_cases h : t = x
  · subst h; simp
  · have : ¬ (x = t) := fun e => h e.symm
    simp [h, this]

theorem mem_set_ne_done (cs : List Chain) (i : Nat) (y : Chain) (hi : i < cs.length) (hy : y ≠ .done) :
    ∃ c ∈ cs.set i y, c ≠ Chain.done := by
  refine ⟨y, ?_, hy⟩
  have h : i < (cs.set i y).length := by simpa using hi
  have := List.getElem_mem h
  simpa using this

theorem live_set (cfg : MapCfg) (nx' : Nat) (cs : List Chain) (i : Nat) (y : Chain) (hi : i < cs.length)
    (hy : y = .done → cfg.nt ≤ nx') :
    cfg.nt ≤ nx' ∨ ∃ c ∈ cs.set i y, c ≠ Chain.done := by
  by_cases hd : y = .done
  · exact Or.inl (hy hd)
  · exact Or.inr (mem_set_ne_done cs i y hi hd)

/-! ### preservation -/

theorem mapInv_step (cfg : MapCfg) (s : MapState) (i : Nat) (h : MapInv cfg s) :
    MapInv cfg (mapStep cfg s i) := by
  unfold mapStep
  cases hc : s.chains[i]? with
  | none => simpa using h
  | some c =>
    obtain ⟨hi, hx⟩ := getElem_of_getElem? hc
    cases c with
    | done => simpa using h
    | ready m n =>
      simp only []
      have hmem : Chain.ready m n ∈ s.chains := hx ▸ List.getElem_mem hi
      obtain ⟨hm, hn, hl⟩ := h.heads m n hmem
      refine ⟨?_, ?_, ?_, ?_⟩
      · intro a b hab
        rcases List.mem_or_eq_of_mem_set hab with h1 | h1
        · exact h.heads a b h1
        · exact afterExec_head cfg m n a b hm hn h1.symm
      · intro t ht
        have E := h.once t ht
        have M := countP_set_move (covers t) s.chains i (afterExec cfg m n) hi
        rw [hx] at M
        have C := covers_afterExec cfg m n hm t ht
        have L := count_snoc s.log (m, n) t
        simp only [] at E ⊢
        omega
      · intro t ht
        have L := count_snoc s.log (m, n) t
        have : t ≠ (m, n) := by
          intro e; subst e; exact ht ⟨hm, hn, hl⟩
        rw [if_neg this] at L
        simp only []
        rw [L]; exact h.only t ht
      · exact live_set cfg s.nextN s.chains i _ hi
          (fun e => absurd e (afterExec_ne_done cfg m n))
    | claiming =>
      simp only []
      refine ⟨?_, ?_, ?_, ?_⟩
      · intro a b hab
        rcases List.mem_or_eq_of_mem_set hab with h1 | h1
        · exact h.heads a b h1
        · exact afterClaim_head cfg _ a b h1.symm
      · intro t ht
        have E := h.once t ht
        have M := countP_set_move (covers t) s.chains i (afterClaim cfg (s.nextN + 1)) hi
        rw [hx] at M
        have C := covers_afterClaim cfg (s.nextN + 1) t ht
        have Z : (if covers t Chain.claiming = true then 1 else 0) = 0 := by simp [covers]
        simp only [] at E ⊢
        by_cases e : t.2 = s.nextN + 1
        · rw [if_pos e] at C
          have a : s.nextN < t.2 := by omega
          have b : ¬ (s.nextN + 1 < t.2) := by omega
          rw [if_pos a] at E
          rw [if_neg b]
          omega
        · rw [if_neg e] at C
          by_cases a : s.nextN < t.2
          · have b : s.nextN + 1 < t.2 := by omega
            rw [if_pos a] at E
            rw [if_pos b]
            omega
          · have b : ¬ (s.nextN + 1 < t.2) := by omega
            rw [if_neg a] at E
            rw [if_neg b]
            omega
      · intro t ht
        exact h.only t ht
      · exact live_set cfg (s.nextN + 1) s.chains i _ hi
          (fun e => afterClaim_done cfg _ e)

theorem mapInv_run (cfg : MapCfg) (s : MapState) (h : MapInv cfg s) (sched : List Nat) :
    MapInv cfg (mapRun cfg s sched) := by
  induction sched generalizing s with
  | nil => exact h
  | cons i t ih => exact ih _ (mapInv_step cfg s i h)

/-! ### the start-up loop establishes the invariant -/

structure StartInv (cfg : MapCfg) (n : Nat) (cs : List Chain) : Prop where
  heads : ∀ a b, Chain.ready a b ∈ cs → a < cfg.mt ∧ b < cfg.nt ∧ cfg.loc a b = true
  cov   : ∀ t, isLocalTile cfg t → cs.countP (covers t) = if t.2 < n then 1 else 0

structure StartPost (cfg : MapCfg) (r : Nat × List Chain) : Prop where
  heads : ∀ a b, Chain.ready a b ∈ r.2 → a < cfg.mt ∧ b < cfg.nt ∧ cfg.loc a b = true
  cov   : ∀ t, isLocalTile cfg t → r.2.countP (covers t) + (if r.1 < t.2 then 1 else 0) = 1
  live  : cfg.nt ≤ r.1 ∨ ∃ c ∈ r.2, c ≠ Chain.done

theorem covers_first (cfg : MapCfg) (n m : Nat) (hs : scan cfg.loc n cfg.mt 0 = some m)
    (t : Nat × Nat) (ht : isLocalTile cfg t) :
    (if covers t (.ready m n) = true then 1 else 0) = (if t.2 = n then 1 else 0) := by
  obtain ⟨tm, tn⟩ := t
  obtain ⟨h1, h2, h3⟩ := ht
  simp only at h1 h2 h3
  obtain ⟨g1, g2, g3, g4⟩ := scan_some cfg.loc n _ _ _ hs
  simp only [covers, decide_eq_true_eq]
  by_cases e : tn = n
  · subst e
    have hle' : m ≤ tm := by
      by_cases hh : m ≤ tm
      · exact hh
      · have := g4 tm (by omega) (by omega)
        rw [this] at h3; cases h3
    simp [hle']
  · have : ¬ (n = tn ∧ m ≤ tm) := by omega
    simp [this, e]

theorem startup_post (cfg : MapCfg) :
    ∀ fuel n cs, n + fuel = cfg.nt → StartInv cfg n cs → StartPost cfg (startupLoop cfg fuel n cs) := by
  intro fuel
  induction fuel with
  | zero =>
    intro n cs hn h
    unfold startupLoop
    refine ⟨h.heads, ?_, Or.inl (by simp only []; omega)⟩
    intro t ht
    have := h.cov t ht
    have hlt : t.2 < n := by have := ht.2.1; omega
    rw [if_pos hlt] at this
    simp only []
    have b : ¬ (n < t.2) := by omega
    rw [if_neg b]
    omega
  | succ fuel ih =>
    intro n cs hn h
    unfold startupLoop
    cases hs : scan cfg.loc n cfg.mt 0 with
    | none =>
      simp only []
      apply ih (n + 1) cs (by omega)
      refine ⟨h.heads, ?_⟩
      intro t ht
      have := h.cov t ht
      have hne : t.2 ≠ n := by
        intro e
        have := scan_none cfg.loc n _ _ hs t.1 (by omega) (by have := ht.1; omega)
        rw [← e, ht.2.2] at this; cases this
      by_cases a : t.2 < n
      · rw [if_pos a] at this
        rw [if_pos (by omega)]; exact this
      · rw [if_neg a] at this
        rw [if_neg (by omega)]; exact this
    | some m =>
      simp only []
      obtain ⟨g1, g2, g3, _⟩ := scan_some cfg.loc n _ _ _ hs
      have hh : ∀ a b, Chain.ready a b ∈ cs ++ [Chain.ready m n] →
          a < cfg.mt ∧ b < cfg.nt ∧ cfg.loc a b = true := by
        intro a b hab
        rcases List.mem_append.1 hab with h1 | h1
        · exact h.heads a b h1
        · simp only [List.mem_singleton] at h1
          injection h1 with e1 e2
          subst e1; subst e2
          exact ⟨by omega, by omega, g3⟩
      have hcov : ∀ t, isLocalTile cfg t →
          (cs ++ [Chain.ready m n]).countP (covers t) = if t.2 < n + 1 then 1 else 0 := by
        intro t ht
        have := h.cov t ht
        have C := covers_first cfg n m hs t ht
        rw [List.countP_append, List.countP_singleton, this]
        by_cases a : t.2 < n
        · have b : t.2 < n + 1 := by omega
          have c : ¬ t.2 = n := by omega
          rw [if_neg c] at C
          rw [if_pos a, if_pos b]; omega
        · by_cases e : t.2 = n
          · have b : t.2 < n + 1 := by omega
            rw [if_pos e] at C
            rw [if_neg a, if_pos b]; omega
          · have b : ¬ t.2 < n + 1 := by omega
            rw [if_neg e] at C
            rw [if_neg a, if_neg b]; omega
      by_cases hl : (cs ++ [Chain.ready m n]).length = cfg.cores
      · rw [if_pos hl]
        refine ⟨hh, ?_, Or.inr ⟨Chain.ready m n, by simp, by simp⟩⟩
        intro t ht
        have := hcov t ht
        simp only []
        by_cases a : t.2 < n + 1
        · rw [if_pos a] at this
          rw [if_neg (by omega)]; omega
        · rw [if_neg a] at this
          rw [if_pos (by omega)]; omega
      · rw [if_neg hl]
        exact ih (n + 1) _ (by omega) ⟨hh, hcov⟩

theorem mapInv_init (cfg : MapCfg) : MapInv cfg (mapInit cfg) := by
  have P := startup_post cfg cfg.nt 0 [] (by omega)
    ⟨(by intro a b h; cases h), (by intro t ht; simp)⟩
  unfold mapInit
  refine ⟨P.heads, ?_, ?_, P.live⟩
  · intro t ht
    have := P.cov t ht
    simp only [List.count_nil]
    omega
  · intro t _
    simp

theorem countP_covers_allDone (s : MapState) (hd : allDone s) (t : Nat × Nat) :
    s.chains.countP (covers t) = 0 := by
  rw [List.countP_eq_zero]
  intro c hc
  rw [hd c hc]
  simp [covers]

end ParsecVerif.MatrixOps
