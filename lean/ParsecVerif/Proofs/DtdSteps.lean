import ParsecVerif.Proofs.DtdInv
/-!
  Preservation of the invariant by every enabled move of the DTD runtime machine.
-/
namespace ParsecVerif.Dtd

theorem usesAt_of_get (p : Prog) (n : Nat) (tk : Task) (h : p[n]? = some tk) (d : Nat) :
    usesAt p n d = usesD tk d := by simp [usesAt, h]
theorem writesAt_of_get (p : Prog) (n : Nat) (tk : Task) (h : p[n]? = some tk) (d : Nat) :
    writesAt p n d = writesD tk d := by simp [writesAt, h]

theorem not_done_ge (s : St) (u : Nat) (h : s.status.length ≤ u) : isDone s u = false := by
  cases hd : isDone s u with
  | false => rfl
  | true => have := isDone_lt s u hd; omega

theorem mem_newAccs (s : St) (n : Nat) (tk : Task) (a : Acc) :
    a ∈ newAccs s n tk ↔ ∃ d, usesD tk d = true ∧ a = mkAcc s n tk d := by
  simp only [newAccs, List.mem_map, mem_dataOf]
  constructor
  · rintro ⟨d, hd, rfl⟩; exact ⟨d, hd, rfl⟩
  · rintro ⟨d, hd, rfl⟩; exact ⟨d, hd, rfl⟩

/-! ## insertion -/

theorem inv_ins (p : Prog) (s : St) (tk : Task) (h : Inv p s) (htk : p[s.status.length]? = some tk) :
    Inv p (stepIns s tk) := by
  have hlen : (stepIns s tk).status.length = s.status.length + 1 := by simp [stepIns]
  have hlt : s.status.length < p.length := (List.getElem?_eq_some_iff.1 htk).1
  have hnew : ∀ a, a ∈ newAccs s s.status.length tk → a.t = s.status.length := by
    intro a ha
    obtain ⟨d, _, rfl⟩ := (mem_newAccs _ _ _ _).1 ha
    rfl
  have haccs : (stepIns s tk).accs = s.accs ++ newAccs s s.status.length tk := rfl
  refine ⟨?_, ?_, ?_, ?_, ?_, ?_, ?_, ?_, ?_, ?_, ?_⟩
  · simp [stepIns, h.len_obs]
  · rw [hlen]; omega
  · intro a ha
    rw [haccs, List.mem_append] at ha
    rw [hlen]
    rcases ha with ha | ha
    · obtain ⟨h1, h2, h3, h4⟩ := h.acc_sound a ha
      exact ⟨by omega, h2, h3, h4⟩
    · obtain ⟨d, hd, rfl⟩ := (mem_newAccs _ _ _ _).1 ha
      refine ⟨by simp [mkAcc], ?_, ?_, ?_⟩
      · simp only [mkAcc]; rw [usesAt_of_get p _ tk htk]; exact hd
      · simp only [mkAcc]; rw [writesAt_of_get p _ tk htk]
      · simp only [mkAcc]; exact h.last_writer d
  · intro t d ht hu
    rw [hlen] at ht
    rw [haccs]
    by_cases htn : t < s.status.length
    · obtain ⟨a, ha, h1, h2⟩ := h.acc_complete t d htn hu
      exact ⟨a, List.mem_append_left _ ha, h1, h2⟩
    · have : t = s.status.length := by omega
      subst this
      rw [usesAt_of_get p _ tk htk] at hu
      exact ⟨mkAcc s s.status.length tk d, List.mem_append_right _ ((mem_newAccs _ _ _ _).2 ⟨d, hu, rfl⟩), rfl, rfl⟩
  · intro d
    rw [hlen]
    simp only [stepIns, prevWriter, writesAt_of_get p _ tk htk, h.last_writer d]
  · intro a ha
    rw [haccs, List.mem_append] at ha
    rw [parentDone_stepIns]
    rcases ha with ha | ha
    · exact h.act_iff a ha
    · obtain ⟨d, _, rfl⟩ := (mem_newAccs _ _ _ _).1 ha
      rfl
  · intro d
    rw [haccs, List.countP_append]
    have h1 : (stepIns s tk).readers d = s.readers d +
        (newAccs s s.status.length tk).countP (fun a => a.d == d && !a.wr && a.act) := rfl
    rw [h1, h.readers_eq d]
    congr 1
    · apply List.countP_congr
      intro a _
      simp only [isDone_stepIns]
    · apply List.countP_congr
      intro a ha
      rw [isDone_stepIns, hnew a ha, not_done_ge s _ (Nat.le_refl _)]
      simp
  · intro t ht a ha hat
    rw [started_stepIns] at ht
    rw [haccs, List.mem_append] at ha
    rcases ha with ha | ha
    · exact h.started_ready t ht a ha hat
    · have := hnew a ha
      have := started_lt s t ht
      omega
  · intro t u d hut ht hc
    rw [started_stepIns] at ht
    rw [isDone_stepIns]
    exact h.prec t u d hut ht hc
  · intro d k hk h1 h2
    rw [hlen] at hk
    have hmem : (stepIns s tk).mem = s.mem := rfl
    rw [hmem]
    simp only [isDone_stepIns] at h1 h2
    by_cases hkn : k ≤ s.status.length
    · exact h.mem_eq d k hkn h1 h2
    · have hk' : k = s.status.length + 1 := by omega
      subst hk'
      have hnw : writesAt p s.status.length d = false := by
        cases hw : writesAt p s.status.length d with
        | false => rfl
        | true =>
          have := h1 _ (Nat.lt_succ_self _) hw
          rw [not_done_ge s _ (Nat.le_refl _)] at this
          cases this
      rw [seqStore_succ_not_writer p _ d hnw]
      apply h.mem_eq d _ (Nat.le_refl _)
      · intro u hu hw; exact h1 u (by omega) hw
      · intro u hu _; exact not_done_ge s u hu
  · intro t ht
    rw [started_stepIns] at ht
    have hl := started_lt s t ht
    have : (stepIns s tk).obs = s.obs ++ [[]] := rfl
    rw [this, List.getElem?_append_left (by rw [h.len_obs]; exact hl)]
    exact h.obs_eq t ht

/-! ## start of a body -/

theorem conflict_iff (p : Prog) (u t d : Nat) :
    conflict p u t d = true ↔ usesAt p u d = true ∧ usesAt p t d = true ∧ (writesAt p u d = true ∨ writesAt p t d = true) := by
  simp only [conflict, Bool.and_eq_true, Bool.or_eq_true]
  constructor
  · rintro ⟨⟨h1, h2⟩, h3⟩; exact ⟨h1, h2, h3⟩
  · rintro ⟨h1, h2, h3⟩; exact ⟨⟨h1, h2⟩, h3⟩

theorem ready_act (s : St) (t : Nat) (h : ready s t = true) (a : Acc) (ha : a ∈ s.accs) (hat : a.t = t) :
    a.act = true := by
  simp only [ready, List.all_eq_true] at h
  have := h a ha
  simpa [hat] using this

theorem not_blocked_readers (s : St) (t : Nat) (h : blocked s t = false) (a : Acc) (ha : a ∈ s.accs)
    (hat : a.t = t) (hw : a.wr = true) : s.readers a.d = 0 := by
  simp only [blocked, List.any_eq_false] at h
  have := h a ha
  simpa [hat, hw] using this

/-- when `start t` is enabled every earlier conflicting task has completed: the flows of `t` are
    satisfied, so the previous writers are done, and the copies `t` writes have no reader left -/
theorem pred_done (p : Prog) (s : St) (t : Nat) (h : Inv p s) (hw : isWaiting s t = true)
    (hr : ready s t = true) (hb : blocked s t = false) (u d : Nat) (hut : u < t)
    (hc : conflict p u t d = true) : isDone s u = true := by
  obtain ⟨huu, htu, hwr⟩ := (conflict_iff p u t d).1 hc
  have htn : t < s.status.length := by
    simp only [isWaiting, beq_iff_eq] at hw
    exact (List.getElem?_eq_some_iff.1 hw).1
  obtain ⟨at', hat, hat1, hat2⟩ := h.acc_complete t d htn htu
  have hact := ready_act s t hr at' hat hat1
  obtain ⟨_, _, hawr, hapar⟩ := h.acc_sound at' hat
  rw [hat1, hat2] at hapar hawr
  have hpd : parentDone s (prevWriter p t d) = true := by
    rw [← hapar, ← h.act_iff at' hat]; exact hact
  -- any writer `x` of `d` with `u < x < t` (or `x = u`) is at or before the previous writer of `t`, which is done
  have key : ∀ x, u ≤ x → x < t → writesAt p x d = true → isDone s u = true := by
    intro x hux hxt hxw
    obtain ⟨w, hw1, hw2⟩ := prevWriter_ge p t d x hxt hxw
    rw [hw1] at hpd
    have hwd : isDone s w = true := hpd
    by_cases he : u = w
    · rw [he]; exact hwd
    · obtain ⟨_, hww, _⟩ := prevWriter_some p t d w hw1
      apply h.prec w u d (by omega) (isDone_started s w hwd)
      exact (conflict_iff p u w d).2 ⟨huu, writesAt_usesAt p w d hww, Or.inr hww⟩
  by_cases hx : ∃ x, u ≤ x ∧ x < t ∧ writesAt p x d = true
  · obtain ⟨x, h1, h2, h3⟩ := hx
    exact key x h1 h2 h3
  · have hno : ∀ x, u ≤ x → x < t → writesAt p x d = false := by
      intro x h1 h2
      cases hxw : writesAt p x d with
      | false => rfl
      | true => exact absurd ⟨x, h1, h2, hxw⟩ hx
    have huw : writesAt p u d = false := hno u (Nat.le_refl _) hut
    have htw : writesAt p t d = true := by
      rcases hwr with h1 | h1
      · rw [huw] at h1; cases h1
      · exact h1
    have hsame := prevWriter_eq_of_no_writer p d u t (by omega) hno
    obtain ⟨au, hau, hau1, hau2⟩ := h.acc_complete u d (by omega) huu
    obtain ⟨_, _, hauwr, haupar⟩ := h.acc_sound au hau
    rw [hau1, hau2] at hauwr haupar
    have hauact : au.act = true := by
      rw [h.act_iff au hau, haupar, ← hsame]; exact hpd
    have hrd : s.readers d = 0 := by
      have := not_blocked_readers s t hb at' hat hat1 (by rw [hawr]; exact htw)
      rwa [hat2] at this
    cases hdu : isDone s u with
    | true => rfl
    | false =>
      have hpos := countP_pos_of_mem s.accs (fun a => a.d == d && !a.wr && a.act && !isDone s a.t) au hau
        (by simp [hau1, hau2, hauwr, huw, hauact, hdu])
      rw [← h.readers_eq d, hrd] at hpos
      omega

theorem inv_start (p : Prog) (s : St) (t : Nat) (tk : Task) (h : Inv p s) (htk : p[t]? = some tk)
    (hw : isWaiting s t = true) (hr : ready s t = true) (hb : blocked s t = false) :
    Inv p (stepStart s t tk) := by
  have htn : t < s.status.length := by
    simp only [isWaiting, beq_iff_eq] at hw
    exact (List.getElem?_eq_some_iff.1 hw).1
  have hlen : (stepStart s t tk).status.length = s.status.length := by simp [stepStart]
  have haccs : (stepStart s t tk).accs = s.accs := rfl
  have hpd := pred_done p s t h hw hr hb
  refine ⟨?_, ?_, ?_, ?_, ?_, ?_, ?_, ?_, ?_, ?_, ?_⟩
  · simp [stepStart, h.len_obs]
  · rw [hlen]; exact h.len_le
  · intro a ha; rw [hlen]; exact h.acc_sound a ha
  · intro u d hu; rw [hlen] at hu; exact h.acc_complete u d hu
  · intro d; rw [hlen]; exact h.last_writer d
  · intro a ha; rw [parentDone_stepStart s t tk _ hw]; exact h.act_iff a ha
  · intro d
    rw [haccs]
    have : (stepStart s t tk).readers d = s.readers d := rfl
    rw [this, h.readers_eq d]
    apply List.countP_congr
    intro a _
    simp only [isDone_stepStart s t tk _ hw]
  · intro u hu a ha hau
    rw [started_stepStart s t tk u hw] at hu
    simp only [Bool.or_eq_true, beq_iff_eq] at hu
    rcases hu with hu | hu
    · exact h.started_ready u hu a ha hau
    · subst hu; exact ready_act s u hr a ha hau
  · intro t' u d hut ht' hc
    rw [isDone_stepStart s t tk u hw]
    rw [started_stepStart s t tk t' hw] at ht'
    simp only [Bool.or_eq_true, beq_iff_eq] at ht'
    rcases ht' with ht' | ht'
    · exact h.prec t' u d hut ht' hc
    · subst ht'; exact hpd u d hut hc
  · intro d k hk h1 h2
    rw [hlen] at hk
    simp only [isDone_stepStart s t tk _ hw] at h1 h2
    exact h.mem_eq d k hk h1 h2
  · intro u hu
    rw [started_stepStart s t tk u hw] at hu
    simp only [Bool.or_eq_true, beq_iff_eq] at hu
    have hobs : (stepStart s t tk).obs = s.obs.set t (readsOf tk s.mem) := rfl
    rw [hobs]
    by_cases hut : u = t
    · subst hut
      rw [List.getElem?_set_self (by rw [h.len_obs]; exact htn)]
      simp only [seqObs, htk]
      congr 1
      apply readsOf_congr
      intro d hd
      have hud : usesAt p u d = true := by rw [usesAt_of_get p u tk htk]; exact mem_readArgs_usesD tk d hd
      apply h.mem_eq d u (by omega)
      · intro x hx hxw
        exact hpd x d hx ((conflict_iff p x u d).2 ⟨writesAt_usesAt p x d hxw, hud, Or.inl hxw⟩)
      · intro x hx hxw
        by_cases hxu : x = u
        · rw [hxu]; exact not_done_of_waiting s u hw
        · cases hdx : isDone s x with
          | false => rfl
          | true =>
            have := h.prec x u d (by omega) (isDone_started s x hdx)
              ((conflict_iff p u x d).2 ⟨hud, writesAt_usesAt p x d hxw, Or.inr hxw⟩)
            rw [not_done_of_waiting s u hw] at this
            cases this
    · rw [List.getElem?_set_ne (Ne.symm hut)]
      rcases hu with hu | hu
      · exact h.obs_eq u hu
      · exact absurd hu hut

/-! ## end of a body and release of the successors -/

theorem walk_fields (t : Nat) (a : Acc) :
    (walk t a).t = a.t ∧ (walk t a).d = a.d ∧ (walk t a).wr = a.wr ∧ (walk t a).parent = a.parent ∧
    (walk t a).act = (a.act || a.parent == some t) := by
  simp only [walk]
  by_cases h : (a.parent == some t) = true
  · simp [h]
  · simp [h]

theorem bool_move (x1 x2 x3 x4 x5 x6 : Bool)
    (c1 : x4 = true → x6 = false ∧ x3 = false ∧ x5 = false) (c2 : x6 = true → x3 = true ∧ x5 = false) :
    (x1 && !x2 && (x3 || x4) && !(x5 || x6)) = ((x1 && !x2 && x3 && !x5) && !(x6 && x1 && !x2) || (x4 && x1 && !x2 && !x3)) ∧
    ((x6 && x1 && !x2) = true → (x1 && !x2 && x3 && !x5) = true) ∧
    ((x4 && x1 && !x2 && !x3) = true → (x1 && !x2 && x3 && !x5) = false) := by
  cases x1 <;> cases x2 <;> cases x3 <;> cases x4 <;> cases x5 <;> cases x6 <;> simp_all

theorem inv_finish (p : Prog) (s : St) (t : Nat) (tk : Task) (h : Inv p s) (htk : p[t]? = some tk)
    (hr : isRunning s t = true) : Inv p (stepFinish s t tk) := by
  have hst : started s t = true := started_of_running s t hr
  have htn : t < s.status.length := started_lt s t hst
  have hnd : isDone s t = false := not_done_of_running s t hr
  have hlen : (stepFinish s t tk).status.length = s.status.length := by simp [stepFinish]
  have haccs : (stepFinish s t tk).accs = s.accs.map (walk t) := rfl
  -- a chain node whose parent is `t` belongs to a later task that has not begun and is not satisfied yet
  have hpar : ∀ a, a ∈ s.accs → a.parent = some t → a.t ≠ t ∧ a.act = false ∧ isDone s a.t = false := by
    intro a ha hp
    obtain ⟨_, _, _, h4⟩ := h.acc_sound a ha
    rw [hp] at h4
    obtain ⟨hlt, _, _⟩ := prevWriter_some p a.t a.d t h4.symm
    have hact : a.act = false := by rw [h.act_iff a ha, hp]; exact hnd
    refine ⟨by omega, hact, ?_⟩
    cases hd : isDone s a.t with
    | false => rfl
    | true =>
      have := h.started_ready a.t (isDone_started s a.t hd) a ha rfl
      rw [hact] at this; cases this
  refine ⟨?_, ?_, ?_, ?_, ?_, ?_, ?_, ?_, ?_, ?_, ?_⟩
  · simp [stepFinish, h.len_obs]
  · rw [hlen]; exact h.len_le
  · intro a' ha'
    rw [haccs, List.mem_map] at ha'
    obtain ⟨a, ha, rfl⟩ := ha'
    obtain ⟨w1, w2, w3, w4, _⟩ := walk_fields t a
    rw [hlen, w1, w2, w3, w4]
    exact h.acc_sound a ha
  · intro u d hu huu
    rw [hlen] at hu
    obtain ⟨a, ha, h1, h2⟩ := h.acc_complete u d hu huu
    obtain ⟨w1, w2, _, _, _⟩ := walk_fields t a
    exact ⟨walk t a, by rw [haccs]; exact List.mem_map_of_mem ha, by rw [w1]; exact h1, by rw [w2]; exact h2⟩
  · intro d; rw [hlen]; exact h.last_writer d
  · intro a' ha'
    rw [haccs, List.mem_map] at ha'
    obtain ⟨a, ha, rfl⟩ := ha'
    obtain ⟨_, _, _, w4, w5⟩ := walk_fields t a
    rw [w4, w5, parentDone_stepFinish s t tk _ hr, h.act_iff a ha]
  · intro d
    rw [haccs, List.countP_map]
    have hrd : (stepFinish s t tk).readers d = s.readers d
        - s.accs.countP (fun a => a.t == t && a.d == d && !a.wr)
        + s.accs.countP (fun a => a.parent == some t && a.d == d && !a.wr && !a.act) := rfl
    rw [hrd, h.readers_eq d]
    have hmv := countP_move s.accs
      (fun a => a.d == d && !a.wr && a.act && !isDone s a.t)
      ((fun a => a.d == d && !a.wr && a.act && !isDone (stepFinish s t tk) a.t) ∘ walk t)
      (fun a => a.t == t && a.d == d && !a.wr)
      (fun a => a.parent == some t && a.d == d && !a.wr && !a.act)
      (by
        intro a ha
        obtain ⟨_, w2, w3, _, w5⟩ := walk_fields t a
        obtain ⟨w1, _, _, _, _⟩ := walk_fields t a
        simp only [Function.comp, w1, w2, w3, w5, isDone_stepFinish s t tk _ hr]
        apply bool_move
        · intro hx4
          have := hpar a ha (by simpa using hx4)
          exact ⟨by simpa using this.1, this.2.1, this.2.2⟩
        · intro hx6
          have hat : a.t = t := by simpa using hx6
          exact ⟨h.started_ready t hst a ha hat, by rw [hat]; exact hnd⟩)
    have hle : s.accs.countP (fun a => a.t == t && a.d == d && !a.wr) ≤
        s.accs.countP (fun a => a.d == d && !a.wr && a.act && !isDone s a.t) := by
      apply List.countP_mono_left
      intro a ha hq
      simp only [Bool.and_eq_true, beq_iff_eq, Bool.not_eq_true'] at hq
      obtain ⟨⟨hat, had⟩, hwr⟩ := hq
      have hact := h.started_ready t hst a ha hat
      simp [had, hwr, hact, hat, hnd]
    omega
  · intro u hu a' ha' hau
    rw [started_stepFinish s t tk u hr] at hu
    rw [haccs, List.mem_map] at ha'
    obtain ⟨a, ha, rfl⟩ := ha'
    obtain ⟨w1, _, _, _, w5⟩ := walk_fields t a
    rw [w1] at hau
    rw [w5, h.started_ready u hu a ha hau]; rfl
  · intro t' u d hut ht' hc
    rw [started_stepFinish s t tk t' hr] at ht'
    rw [isDone_stepFinish s t tk u hr, h.prec t' u d hut ht' hc]; rfl
  · intro d k hk h1 h2
    rw [hlen] at hk
    simp only [isDone_stepFinish s t tk _ hr, Bool.or_eq_true, beq_iff_eq, Bool.or_eq_false_iff] at h1 h2
    have hobs : s.obs.getD t [] = readsOf tk (seqStore p t) := by
      have := h.obs_eq t hst
      simp only [seqObs, htk] at this
      simp [List.getD, this]
    have hmem : (stepFinish s t tk).mem d = exec tk (readsOf tk (seqStore p t)) s.mem d := by
      simp only [stepFinish, hobs]
    rw [hmem]
    cases hwd : writesD tk d with
    | true =>
      have hwt : writesAt p t d = true := by rw [writesAt_of_get p t tk htk]; exact hwd
      have htk' : t < k := by
        cases Nat.lt_or_ge t k with
        | inl hh => exact hh
        | inr hh => have := (h2 t hh hwt).2; simp at this
      have hno : ∀ x, t + 1 ≤ x → x < k → writesAt p x d = false := by
        intro x hx1 hx2
        cases hxw : writesAt p x d with
        | false => rfl
        | true =>
          rcases h1 x hx2 hxw with hdx | hdx
          · have := h.prec x t d (by omega) (isDone_started s x hdx)
              ((conflict_iff p t x d).2 ⟨writesAt_usesAt p t d hwt, writesAt_usesAt p x d hxw, Or.inl hwt⟩)
            rw [hnd] at this; cases this
          · omega
      rw [seqStore_const p d (t + 1) k (by omega) hno]
      simp only [seqStore, htk]
      exact exec_written _ _ _ _ _ hwd
    | false =>
      have hwt : writesAt p t d = false := by rw [writesAt_of_get p t tk htk]; exact hwd
      rw [exec_not_written _ _ _ _ hwd]
      apply h.mem_eq d k hk
      · intro u hu huw
        rcases h1 u hu huw with hdu | hdu
        · exact hdu
        · rw [hdu, hwt] at huw; cases huw
      · intro u hu huw; exact (h2 u hu huw).1
  · intro u hu
    rw [started_stepFinish s t tk u hr] at hu
    have : (stepFinish s t tk).obs = s.obs := rfl
    rw [this]; exact h.obs_eq u hu

/-! ## all moves, all runs -/

theorem inv_step (p : Prog) (nw : Nat) (s : St) (m : Move) (h : Inv p s) (he : enabled p nw s m = true) :
    Inv p (step p s m) := by
  cases m with
  | ins =>
    simp only [step]
    cases htk : p[s.status.length]? with
    | none => exact h
    | some tk => exact inv_ins p s tk h htk
  | start t =>
    simp only [step]
    cases htk : p[t]? with
    | none => exact h
    | some tk =>
      simp only [enabled, Bool.and_eq_true, Bool.not_eq_true', decide_eq_true_eq] at he
      exact inv_start p s t tk h htk he.1.1.1 he.1.1.2 he.1.2
  | again t =>
    simp only [step]
    exact ⟨h.len_obs, h.len_le, h.acc_sound, h.acc_complete, h.last_writer, h.act_iff, h.readers_eq,
      h.started_ready, h.prec, h.mem_eq, h.obs_eq⟩
  | finish t =>
    simp only [step]
    cases htk : p[t]? with
    | none => exact h
    | some tk =>
      simp only [enabled] at he
      exact inv_finish p s t tk h htk he

theorem inv_run (p : Prog) (nw : Nat) (s : St) (ms : List Move) (h : Inv p s) (hv : ValidFrom p nw s ms) :
    Inv p (run p s ms) := by
  induction ms generalizing s with
  | nil => exact h
  | cons m ms ih =>
    simp only [ValidFrom] at hv
    exact ih (step p s m) (inv_step p nw s m h hv.1) hv.2

/-- every state reached by a valid run from the initial state satisfies the invariant -/
theorem inv_reachable (p : Prog) (nw : Nat) (ms : List Move) (hv : Valid p nw ms) : Inv p (run p init ms) :=
  inv_run p nw init ms (inv_init p) hv

/-- the executable acceptor is sound for `ValidFrom` -/
theorem firstBad_none (p : Prog) (nw : Nat) (s : St) (ms : List Move) (i : Nat)
    (h : firstBad p nw s ms i = none) : ValidFrom p nw s ms := by
  induction ms generalizing s i with
  | nil => trivial
  | cons m ms ih =>
    simp only [firstBad] at h
    cases he : enabled p nw s m with
    | false => simp [he] at h
    | true =>
      simp only [he, if_true] at h
      exact ⟨he, ih _ _ h⟩

end ParsecVerif.Dtd
