import ParsecVerif.Proofs.VpMap
import ParsecVerif.Proofs.VpMapRender
/-! The bind_map loop on rendered core lists. Core only. -/
namespace ParsecVerif.VpMap

theorem strchr_none_of_not_mem (c : Char) : ∀ (s : Str), c ∉ s → strchr c s = none := by
  intro s
  induction s with
  | nil => intro _; rfl
  | cons d t ih =>
    intro h
    unfold strchr
    rw [if_neg (by intro e; exact h (by rw [e]; exact List.mem_cons_self ..))]
    exact ih (fun hm => h (List.mem_cons_of_mem _ hm))

theorem renderList_chars : ∀ (cs : List Nat), ∀ ch ∈ renderList cs, ch = ',' ∨ ∃ d, d < 10 ∧ ch = digitChar d := by
  intro cs
  induction cs with
  | nil => intro ch h; simp [renderList] at h
  | cons c t ih =>
    intro ch h
    cases t with
    | nil =>
      simp only [renderList] at h
      right; exact render_allDigits c ch h
    | cons d t' =>
      simp only [renderList] at h
      rcases List.mem_append.1 h with h1 | h1
      · right; exact render_allDigits c ch h1
      · rcases List.mem_cons.1 h1 with h2 | h2
        · left; exact h2
        · exact ih ch h2

theorem renderList_no (cs : List Nat) (c : Char) (h1 : c ≠ ',') (h2 : ∀ d, d < 10 → c ≠ digitChar d) :
    afterChar c (renderList cs) = none := by
  unfold afterChar
  rw [strchr_none_of_not_mem c _ (by
    intro hm
    rcases renderList_chars cs c hm with e | ⟨d, hd, e⟩
    · exact h1 e
    · exact h2 d hd e)]
  rfl

theorem renderList_no_x (cs : List Nat) : afterChar 'x' (renderList cs) = none :=
  renderList_no cs 'x' (by decide) (fun d hd e => (digitChar_facts d hd).2.2.2.2.1 e.symm)

theorem renderList_no_colon (cs : List Nat) : afterChar ':' (renderList cs) = none :=
  renderList_no cs ':' (by decide) (fun d hd e => (digitChar_facts d hd).2.2.2.2.2.1 e.symm)

/-- placing the listed cores one after the other -/
def placeAll (allowed : List Nat) : List Nat → BM → Option BM
  | [], st => some st
  | c :: cs, st =>
    match setLoc allowed st c with
    | none => none
    | some st' => placeAll allowed cs st'

theorem afterChar_comma_cons (rest : Str) : afterChar ',' (',' :: rest) = some rest := by
  simp [afterChar, strchr]

/-- the bind_map loop on a rendered core list performs exactly the listed placements, in order -/
theorem bmLoop_renderList (R : Nat) (hR : R ≤ 2147483648) (allowed : List Nat) :
    ∀ (cs : List Nat), cs ≠ [] → (∀ c ∈ cs, c < R) → ∀ (f : Nat), cs.length ≤ f → ∀ (st : BM),
      bmLoop R allowed f (renderList cs) st = placeAll allowed cs st := by
  intro cs
  induction cs with
  | nil => intro h; exact absurd rfl h
  | cons c t ih =>
    intro _ hlt f hf st
    have hc : c < R := hlt c (List.mem_cons_self ..)
    cases f with
    | zero => simp at hf
    | succ f =>
      have hx := renderList_no_x (c :: t)
      have hcol := renderList_no_colon (c :: t)
      unfold bmLoop
      rw [hx, hcol]
      simp only
      cases t with
      | nil =>
        have hs := strtol_render c (by omega) [] rfl
        simp only [List.append_nil] at hs
        simp only [renderList, hs.1, hs.2.1]
        have hin : inRange R (c : Int) = true := (inRange_iff R c).2 ⟨by omega, by omega⟩
        rw [hin]
        simp only [if_true, placeAll, afterChar, strchr, Option.map_none]
        cases setLoc allowed st (c : Int) <;> rfl
      | cons d t' =>
        have hr : hasDigit 10 (',' :: renderList (d :: t')) = false := by simp [hasDigit]; decide
        have hs := strtol_render c (by omega) (',' :: renderList (d :: t')) hr
        simp only [renderList, hs.1, hs.2.1]
        have hin : inRange R (c : Int) = true := (inRange_iff R c).2 ⟨by omega, by omega⟩
        rw [hin]
        simp only [if_true, placeAll, afterChar_comma_cons]
        cases hset : setLoc allowed st (c : Int) with
        | none => rfl
        | some st' =>
          simp only
          exact ih (by simp) (fun x hx => hlt x (List.mem_cons_of_mem _ hx)) f (by simp at hf ⊢; omega) st'

theorem set_at_boundary (pre : List Int) (m : Nat) (v : Int) :
    (pre ++ List.replicate (m + 1) (-1 : Int)).set pre.length v = (pre ++ [v]) ++ List.replicate m (-1) := by
  rw [List.set_append]
  simp [List.replicate_succ]

theorem placeAll_fits (allowed : List Nat) : ∀ (cs : List Nat) (pre : List Int) (m : Nat) (used : List Nat),
    cs.length ≤ m →
    ∃ used', placeAll allowed cs ⟨pre ++ List.replicate m (-1), pre.length, used⟩
      = some ⟨pre ++ cs.map (fun (c : Nat) => findCore allowed (c : Int)) ++ List.replicate (m - cs.length) (-1),
              pre.length + cs.length, used'⟩ := by
  intro cs
  induction cs with
  | nil => intro pre m used _; exact ⟨used, by simp [placeAll]⟩
  | cons c t ih =>
    intro pre m used hm
    cases m with
    | zero => simp at hm
    | succ m =>
      unfold placeAll setLoc
      have hlt : ¬ (pre.length ≥ (pre ++ List.replicate (m + 1) (-1 : Int)).length) := by simp
      simp only [hlt, if_false]
      rw [set_at_boundary]
      obtain ⟨u', hu⟩ := ih (pre ++ [findCore allowed (c : Int)]) m
        (if findCore allowed (c : Int) < 0 then used else insertSorted (findCore allowed (c : Int)).toNat used)
        (by simp at hm; omega)
      refine ⟨u', ?_⟩
      have e : (pre ++ [findCore allowed (c : Int)]).length = pre.length + 1 := by simp
      rw [e] at hu
      rw [hu]
      simp [Nat.add_assoc, Nat.add_comm 1]

theorem placeAll_overflows (allowed : List Nat) : ∀ (cs : List Nat) (pre : List Int) (m : Nat) (used : List Nat),
    m < cs.length → placeAll allowed cs ⟨pre ++ List.replicate m (-1), pre.length, used⟩ = none := by
  intro cs
  induction cs with
  | nil => intro pre m used h; simp at h
  | cons c t ih =>
    intro pre m used hm
    cases m with
    | zero =>
      unfold placeAll setLoc
      simp
    | succ m =>
      unfold placeAll setLoc
      have hlt : ¬ (pre.length ≥ (pre ++ List.replicate (m + 1) (-1 : Int)).length) := by simp
      simp only [hlt, if_false]
      rw [set_at_boundary]
      have := ih (pre ++ [findCore allowed (c : Int)]) m
        (if findCore allowed (c : Int) < 0 then used else insertSorted (findCore allowed (c : Int)).toNat used)
        (by simp at hm; omega)
      have e : (pre ++ [findCore allowed (c : Int)]).length = pre.length + 1 := by simp
      rw [e] at this
      exact this

theorem render_length_pos (c : Nat) : 1 ≤ (render c).length := by
  cases h : render c with
  | nil => exact absurd h (render_ne_nil c)
  | cons _ _ => simp

theorem renderList_length_ge : ∀ (cs : List Nat), cs.length ≤ (renderList cs).length := by
  intro cs
  induction cs with
  | nil => simp
  | cons c t ih =>
    cases t with
    | nil => simp [renderList]; exact render_length_pos c
    | cons d t' =>
      simp only [renderList, List.length_append, List.length_cons] at ih ⊢
      have := render_length_pos c
      omega

theorem renderList_plus (cs : List Nat) (comm : Int) : plusPrefix comm (renderList cs) = false := by
  cases cs with
  | nil => rfl
  | cons c t =>
    obtain ⟨d, tl, hd, ht⟩ := render_cons c
    have hne : digitChar d ≠ '+' := (digitChar_facts d hd).2.2.2.1
    cases t with
    | nil =>
      simp only [renderList, ht]
      unfold plusPrefix
      split
      · rename_i heq; injection heq with h1 _; exact absurd h1 hne
      · rfl
    | cons e t' =>
      simp only [renderList, ht, List.cons_append]
      unfold plusPrefix
      split
      · rename_i heq; injection heq with h1 _; exact absurd h1 hne
      · rfl


end ParsecVerif.VpMap
