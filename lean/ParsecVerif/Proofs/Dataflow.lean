import ParsecVerif.Model.Dataflow
/-! Invariants of the generic dataflow machine (helper lemmas for C01 / C02 / C16). -/
namespace ParsecVerif.Dataflow

theorem hasIn_iff (l : List (Nat × Nat)) (j : Nat) : hasIn l j = true ↔ ∃ e ∈ l, e.2 = j := by
  unfold hasIn
  rw [List.any_eq_true]
  constructor
  · rintro ⟨e, he, h⟩; exact ⟨e, he, by simpa using h⟩
  · rintro ⟨e, he, h⟩; exact ⟨e, he, by simpa using h⟩

theorem hasIn_false_iff (l : List (Nat × Nat)) (j : Nat) : hasIn l j = false ↔ ∀ e ∈ l, e.2 ≠ j := by
  constructor
  · intro h e he hj
    have := (hasIn_iff l j).2 ⟨e, he, hj⟩
    rw [h] at this; exact absurd this (by simp)
  · intro h
    cases hh : hasIn l j with
    | false => rfl
    | true =>
      obtain ⟨e, he, hj⟩ := (hasIn_iff l j).1 hh
      exact absurd hj (h e he)

theorem hasIn_erase_ne (l : List (Nat × Nat)) (a b j : Nat) (hj : j ≠ b) :
    hasIn (l.erase (a, b)) j = hasIn l j := by
  cases h : hasIn l j with
  | true =>
    obtain ⟨e, he, hej⟩ := (hasIn_iff l j).1 h
    have hne : e ≠ (a, b) := by intro heq; rw [heq] at hej; exact hj hej.symm
    exact (hasIn_iff _ j).2 ⟨e, (List.mem_erase_of_ne hne).2 he, hej⟩
  | false =>
    rw [hasIn_false_iff] at h ⊢
    intro e he; exact h e (List.mem_of_mem_erase he)

theorem getElem?_set' {α} {l : List α} {i : Nat} {b : α} (a : α) (h : l[i]? = some b) (j : Nat) :
    (l.set i a)[j]? = if j = i then some a else l[j]? := by
  have hi : i < l.length := (List.getElem?_eq_some_iff.1 h).1
  by_cases hji : j = i
  · subst hji; rw [List.getElem?_set_self hi]; simp
  · rw [if_neg hji, List.getElem?_set_ne (Ne.symm hji)]

/-- Changing a node's status between two values different from `c` does not change who is `c`. -/
theorem set_status_iff {l : List Status} {i : Nat} {old new c : Status} (h : l[i]? = some old)
    (ho : old ≠ c) (hn : new ≠ c) (k : Nat) : (l.set i new)[k]? = some c ↔ l[k]? = some c := by
  rw [getElem?_set' new h k]
  by_cases hk : k = i
  · subst hk; rw [if_pos rfl, h]; constructor
    · intro hh; exact absurd (Option.some.inj hh) hn
    · intro hh; exact absurd (Option.some.inj hh) ho
  · rw [if_neg hk]

/-- the machine's inductive invariant (`rank` is the topological numbering of `WF`) -/
structure Inv (g : Graph) (F : Nat → List (Option Nat) → Nat) (s : St) : Prop where
  len   : s.status.length = g.n
  vlen  : s.val.length = g.n
  sub   : ∀ e ∈ s.pending, e ∈ g.E
  src   : ∀ e ∈ g.E, s.status[e.1]? ≠ some .ended → e ∈ s.pending
  wait  : ∀ j, j < g.n → (s.status[j]? = some .waiting ↔ hasIn s.pending j = true)
  cnt   : ∀ i, s.log.count (.end_ i) = if s.status[i]? = some .ended then 1 else 0
  order : ∀ L1 L2 j, s.log = L1 ++ Ev.start j :: L2 → ∀ e ∈ g.E, e.2 = j → Ev.end_ e.1 ∈ L1
  vals  : ∀ i, s.status[i]? = some .ended → s.val[i]? = some (some (F i (inputs g s i)))

/-- every dependency into a node that is no longer waiting comes from an ended node -/
theorem preds_ended {g : Graph} {F} {s : St} (h : Inv g F s) (e : Nat × Nat) (he : e ∈ g.E) (hn : e.2 < g.n)
    (hw : s.status[e.2]? ≠ some .waiting) : s.status[e.1]? = some .ended := by
  have h1 : hasIn s.pending e.2 = false := by
    cases hh : hasIn s.pending e.2 with
    | false => rfl
    | true => exact absurd ((h.wait e.2 hn).2 hh) hw
  have h2 : e ∉ s.pending := fun hm => (hasIn_false_iff _ _).1 h1 e hm rfl
  exact Classical.byContradiction (fun hne => h2 (h.src e he hne))

theorem mem_predsOf (g : Graph) (j p : Nat) : p ∈ predsOf g j ↔ (p, j) ∈ g.E := by
  unfold predsOf
  simp only [List.mem_map, List.mem_filter, beq_iff_eq]
  constructor
  · rintro ⟨e, ⟨he, h2⟩, h1⟩
    have : e = (p, j) := by cases e; simp_all
    exact this ▸ he
  · intro h; exact ⟨(p, j), ⟨h, rfl⟩, rfl⟩

/-- the inputs of node `k` do not change when the value of a non-predecessor is written -/
theorem inputs_set_val (g : Graph) (s : St) (k i : Nat) (v : Option Nat) (hnp : (i, k) ∉ g.E) :
    inputs g { s with val := s.val.set i v } k = inputs g s k := by
  unfold inputs
  apply List.map_congr_left
  intro p hp
  have : p ≠ i := fun heq => hnp (heq ▸ (mem_predsOf g k p).1 hp)
  simp only [List.getElem?_set_ne (Ne.symm this)]

theorem inv_init (g : Graph) (F) (again : List Nat) (rank : Nat → Nat) (hwf : WF g rank) : Inv g F (init g again) := by
  have hst : ∀ j, (init g again).status[j]? = if j < g.n then some (if hasIn g.E j then Status.waiting else Status.ready) else none := by
    intro j
    simp only [init, List.getElem?_map, List.getElem?_range]
    split <;> simp_all
  refine ⟨by simp [init], by simp [init], fun e he => he, fun e he _ => he, ?_, ?_, ?_, ?_⟩
  · intro j hj
    rw [hst j, if_pos hj]
    show _ ↔ hasIn g.E j = true
    cases hasIn g.E j <;> simp
  · intro i
    rw [hst i]
    have : (init g again).log = [] := rfl
    rw [this]
    split
    · split <;> simp
    · simp
  · intro L1 L2 j hl
    have : (init g again).log = [] := rfl
    rw [this] at hl
    cases L1 <;> simp at hl
  · intro i hi
    rw [hst i] at hi
    split at hi
    · split at hi <;> simp at hi
    · simp at hi

/-- decomposing `log ++ [ev]` around an occurrence of `start j` -/
theorem append_singleton_decomp {L L1 L2 : List Ev} {ev x : Ev} (h : L ++ [ev] = L1 ++ x :: L2) :
    (L2 = [] ∧ L1 = L ∧ x = ev) ∨ (∃ L2', L2 = L2' ++ [ev] ∧ L = L1 ++ x :: L2') := by
  rcases List.eq_nil_or_concat L2 with hnil | ⟨L2', y, hc⟩
  · subst hnil
    left
    have h' : L ++ [ev] = L1 ++ [x] := h
    have := List.append_inj' h' rfl
    exact ⟨rfl, this.1.symm, (List.singleton_inj.1 this.2).symm⟩
  · right
    subst hc
    have h' : L ++ [ev] = (L1 ++ x :: L2') ++ [y] := by simpa [List.append_assoc] using h
    have := List.append_inj' h' rfl
    exact ⟨L2', by rw [(List.singleton_inj.1 this.2)]; simp, this.1⟩

section steps
variable {g : Graph} {F : Nat → List (Option Nat) → Nat} {rank : Nat → Nat}

theorem inv_start {s : St} (h : Inv g F s) (i : Nat) (hst : s.status[i]? = some .ready) :
    Inv g F { s with status := s.status.set i .running, log := s.log ++ [.start i] } := by
  have hin : i < g.n := h.len ▸ (List.getElem?_eq_some_iff.1 hst).1
  refine ⟨by simp [h.len], h.vlen, h.sub, ?_, ?_, ?_, ?_, ?_⟩
  · intro e he hne
    exact h.src e he (fun hh => hne ((set_status_iff hst (by decide) (by decide) e.1).2 hh))
  · intro j hj
    show (s.status.set i .running)[j]? = some .waiting ↔ _
    rw [set_status_iff hst (by decide) (by decide) j]; exact h.wait j hj
  · intro k
    show (s.log ++ [Ev.start i]).count (.end_ k) = if (s.status.set i .running)[k]? = some .ended then 1 else 0
    rw [List.count_append, h.cnt k]
    have : (s.status.set i .running)[k]? = some .ended ↔ s.status[k]? = some .ended :=
      set_status_iff hst (by decide) (by decide) k
    simp only [this]; simp
  · intro L1 L2 j hl e he hej
    rcases append_singleton_decomp hl with ⟨_, hL1, hx⟩ | ⟨L2', _, hL⟩
    · have hji : j = i := by injection hx
      subst hL1
      have hn : e.2 < g.n := hej ▸ hji ▸ hin
      have hw : s.status[e.2]? ≠ some .waiting := by rw [hej, hji, hst]; decide
      have hend := preds_ended h e he hn hw
      have hc := h.cnt e.1
      rw [if_pos hend] at hc
      exact List.count_pos_iff.1 (by omega)
    · exact h.order L1 L2' j hL e he hej
  · intro k hk
    have hk' : s.status[k]? = some .ended := (set_status_iff hst (by decide) (by decide) k).1 hk
    exact h.vals k hk'

theorem inv_again {s : St} (h : Inv g F s) (i : Nat) (a : List Nat) (hst : s.status[i]? = some .running) :
    Inv g F { s with status := s.status.set i .ready, again := a, log := s.log ++ [.again i] } := by
  refine ⟨by simp [h.len], h.vlen, h.sub, ?_, ?_, ?_, ?_, ?_⟩
  · intro e he hne
    exact h.src e he (fun hh => hne ((set_status_iff hst (by decide) (by decide) e.1).2 hh))
  · intro j hj
    show (s.status.set i .ready)[j]? = some .waiting ↔ _
    rw [set_status_iff hst (by decide) (by decide) j]; exact h.wait j hj
  · intro k
    show (s.log ++ [Ev.again i]).count (.end_ k) = if (s.status.set i .ready)[k]? = some .ended then 1 else 0
    rw [List.count_append, h.cnt k]
    have : (s.status.set i .ready)[k]? = some .ended ↔ s.status[k]? = some .ended :=
      set_status_iff hst (by decide) (by decide) k
    simp only [this]; simp
  · intro L1 L2 j hl e he hej
    rcases append_singleton_decomp hl with ⟨_, _, hx⟩ | ⟨L2', _, hL⟩
    · exact absurd hx (by simp)
    · exact h.order L1 L2' j hL e he hej
  · intro k hk
    have hk' : s.status[k]? = some .ended := (set_status_iff hst (by decide) (by decide) k).1 hk
    exact h.vals k hk'

theorem inv_finish (hwf : WF g rank) {s : St} (h : Inv g F s) (i : Nat) (hst : s.status[i]? = some .running) :
    Inv g F { s with status := s.status.set i .ended, val := s.val.set i (some (F i (inputs g s i))),
                     log := s.log ++ [.end_ i] } := by
  have hin : i < g.n := h.len ▸ (List.getElem?_eq_some_iff.1 hst).1
  have hgs := fun k => getElem?_set' Status.ended hst k
  refine ⟨by simp [h.len], by simp [h.vlen], h.sub, ?_, ?_, ?_, ?_, ?_⟩
  · intro e he hne
    apply h.src e he
    intro hh
    apply hne
    show (s.status.set i .ended)[e.1]? = some .ended
    rw [hgs]; split
    · rfl
    · exact hh
  · intro j hj
    show (s.status.set i .ended)[j]? = some .waiting ↔ _
    rw [set_status_iff hst (by decide) (by decide) j]; exact h.wait j hj
  · intro k
    show (s.log ++ [Ev.end_ i]).count (.end_ k) = if (s.status.set i .ended)[k]? = some .ended then 1 else 0
    rw [List.count_append, h.cnt k, hgs]
    by_cases hk : k = i
    · subst hk; rw [hst]; simp
    · have : Ev.end_ i ≠ Ev.end_ k := by intro hh; injection hh with hh; exact hk hh.symm
      simp [hk, this]
  · intro L1 L2 j hl e he hej
    rcases append_singleton_decomp hl with ⟨_, _, hx⟩ | ⟨L2', _, hL⟩
    · exact absurd hx (by simp)
    · exact h.order L1 L2' j hL e he hej
  · intro k hk
    have hk2 : (s.status.set i .ended)[k]? = some .ended := hk
    rw [hgs] at hk2
    -- node i is not a predecessor of k (k = i: no self loop; k ≠ i: k ended, all its preds ended, i running)
    have hnp : (i, k) ∉ g.E := by
      intro hm
      by_cases hki : k = i
      · have := hwf.2 (i, k) hm; simp [hki] at this
      · rw [if_neg hki] at hk2
        have hkn : k < g.n := h.len ▸ (List.getElem?_eq_some_iff.1 hk2).1
        have := preds_ended h (i, k) hm hkn (by rw [hk2]; decide)
        rw [hst] at this; exact absurd (Option.some.inj this) (by decide)
    show (s.val.set i _)[k]? = some (some (F k (inputs g { s with status := _, val := s.val.set i _, log := _ } k)))
    have hinp : inputs g { s with status := s.status.set i .ended, val := s.val.set i (some (F i (inputs g s i))),
                                  log := s.log ++ [.end_ i] } k = inputs g s k :=
      inputs_set_val g s k i _ hnp
    rw [hinp]
    by_cases hki : k = i
    · subst hki
      rw [List.getElem?_set_self (by rw [h.vlen]; exact hin)]
    · rw [if_neg hki] at hk2
      rw [List.getElem?_set_ne (Ne.symm hki)]
      exact h.vals k hk2

theorem inv_release (hwf : WF g rank) {s : St} (h : Inv g F s) (a b : Nat) (hst : s.status[a]? = some .ended)
    (hp : (a, b) ∈ s.pending) :
    Inv g F { s with pending := s.pending.erase (a, b),
                     status := if hasIn (s.pending.erase (a, b)) b then s.status else s.status.set b .ready } := by
  have hbn : b < g.n := (hwf.1 (a, b) (h.sub _ hp)).2
  have hbw : s.status[b]? = some .waiting := (h.wait b hbn).2 ((hasIn_iff _ _).2 ⟨(a, b), hp, rfl⟩)
  have hended : ∀ k : Nat, (if hasIn (s.pending.erase (a, b)) b then s.status else s.status.set b Status.ready)[k]? = some Status.ended ↔
      s.status[k]? = some Status.ended := by
    intro k; split
    · rfl
    · exact set_status_iff hbw (by decide) (by decide) k
  refine ⟨?_, h.vlen, fun e he => h.sub e (List.mem_of_mem_erase he), ?_, ?_, ?_, h.order, ?_⟩
  · show (if _ then s.status else s.status.set b .ready).length = g.n
    split <;> simp [h.len]
  · intro e he hne
    have hne' : s.status[e.1]? ≠ some .ended := fun hh => hne ((hended e.1).2 hh)
    have hm := h.src e he hne'
    have : e ≠ (a, b) := by
      intro heq; rw [heq] at hne'; exact hne' hst
    exact (List.mem_erase_of_ne this).2 hm
  · intro j hj
    show (if hasIn (s.pending.erase (a, b)) b then s.status else s.status.set b .ready)[j]? = some .waiting ↔
      hasIn (s.pending.erase (a, b)) j = true
    by_cases hjb : j = b
    · subst hjb
      cases hh : hasIn (s.pending.erase (a, j)) j with
      | true => simp [hbw]
      | false =>
        simp only [if_neg (by simp : ¬ (false = true))]
        rw [getElem?_set' Status.ready hbw j, if_pos rfl]
        simp
    · rw [hasIn_erase_ne _ _ _ _ hjb, ← h.wait j hj]
      split
      · rfl
      · rw [getElem?_set' Status.ready hbw j, if_neg hjb]
  · intro k
    show s.log.count (.end_ k) = if (if hasIn (s.pending.erase (a, b)) b then s.status else s.status.set b .ready)[k]? = some .ended then 1 else 0
    rw [h.cnt k]
    simp only [hended k]
  · intro k hk
    have hk' : s.status[k]? = some .ended := (hended k).1 hk
    exact h.vals k hk'

/-- one step of the machine preserves the invariant -/
theorem inv_step (hwf : WF g rank) (s : St) (h : Inv g F s) (t : Tr) : Inv g F (step g F s t) := by
  unfold step
  by_cases hen : enabled s t = true
  · rw [if_neg (by simp [hen])]
    cases t with
    | start i =>
      have : s.status[i]? = some .ready := by simpa [enabled] using hen
      exact inv_start h i this
    | again i =>
      have : s.status[i]? = some .running := by
        simp only [enabled, Bool.and_eq_true, beq_iff_eq] at hen; exact hen.1
      exact inv_again h i _ this
    | finish i =>
      have : s.status[i]? = some .running := by
        simp only [enabled, Bool.and_eq_true, beq_iff_eq] at hen; exact hen.1
      exact inv_finish hwf h i this
    | release a b =>
      simp only [enabled, Bool.and_eq_true, beq_iff_eq, List.contains_iff_mem] at hen
      exact inv_release hwf h a b hen.1 hen.2
  · rw [if_pos (by simpa using hen)]; exact h

theorem inv_run (hwf : WF g rank) (again : List Nat) (ts : List Tr) : Inv g F (run g F again ts) := by
  unfold run
  generalize hs : init g again = s
  have h : Inv g F s := hs ▸ inv_init g F again rank hwf
  clear hs
  induction ts generalizing s with
  | nil => exact h
  | cons t ts ih => exact ih _ (inv_step hwf s h t)

end steps

end ParsecVerif.Dataflow
