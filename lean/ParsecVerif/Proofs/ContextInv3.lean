import ParsecVerif.Proofs.ContextInv
/-! Invariant preservation: the steps of parsec_context_add_taskpool, and taskpool-field updates. -/
namespace ParsecVerif.Context

def grp (st : TpSt) : Prop := st = .adding ∨ st = .earlyCb ∨ st = .earlyDec

/-- the caller of add_taskpool is not an idle thread outside the loops -/
theorem mayAdd_busy {s : St} (h : Inv s) {t : Nat} (hm : mayAdd s t = true) :
    s.subs[t]? = some .none ∧ t < s.bases.length ∧
    ¬ (s.mm = .leaving ∨ (s.mm = .atBarrier ∧ ∀ m ∈ s.wm, m = .exited)) ∧
    (∀ w m, s.wm[w]? = some m → m ≠ .looping → t ≠ w + 1) ∧
    ((s.mm = .atBarrier ∨ s.mm = .leaving ∨ s.mm = .starting) → t ≠ 0) := by
  unfold mayAdd at hm
  simp only [Bool.and_eq_true, beq_iff_eq] at hm
  obtain ⟨hsu, hb⟩ := hm
  cases hbt : s.bases[t]? with
  | none => rw [hbt] at hb; simp at hb
  | some b =>
    have htl : t < s.bases.length := (List.getElem?_eq_some_iff.1 hbt).1
    rw [hbt] at hb
    refine ⟨hsu, htl, ?_, ?_, ?_⟩
    · intro ho
      have hi := (all_idle h ho t htl).1
      rw [hbt] at hi
      cases hi
      simp at hb
      rcases ho with ho | ⟨ho, _⟩ <;> rw [ho] at hb <;> simp at hb
    · intro w m hw hm' e
      subst e
      have hi := (h.wIdle w m hw hm').1
      rw [hbt] at hi; cases hi
      simp at hb
    · intro hm' e
      subst e
      have hi := (h.mIdle hm').1
      rw [hbt] at hi; cases hi
      simp at hb
      rcases hm' with ho | ho | ho <;> rw [ho] at hb <;> simp at hb

/-- generic: thread `t` (not idle-outside) enters `adding q` for a not-yet-added taskpool -/
theorem inv_enterAdd {s : St} {t q : Nat} {tp : Tp} (h : Inv s) (htp : s.tps[q]? = some tp) (hst : tp.st = .notAdded)
    (htl : t < s.subs.length) (hnadd : ∀ q', s.subs[t]? ≠ some (.adding q'))
    (hbusy : ¬ (s.mm = .leaving ∨ (s.mm = .atBarrier ∧ ∀ m ∈ s.wm, m = .exited)))
    (hw : ∀ w m, s.wm[w]? = some m → m ≠ .looping → t ≠ w + 1)
    (hm : (s.mm = .atBarrier ∨ s.mm = .leaving ∨ s.mm = .starting) → t ≠ 0) :
    Inv (tick { s with subs := s.subs.set t (.adding q), tps := s.tps.set q { tp with st := .adding, by_ := t } }) := by
  obtain ⟨hpl, _⟩ := List.getElem?_eq_some_iff.1 htp
  refine { len1 := ?len1, len2 := ?len2, cnt := ?cnt, tokM := ?tokM, notSt := ?notSt, wIdle := ?wIdle, mIdle := ?mIdle,
           taskSt := ?taskSt, taskCnt := ?taskCnt, cbFwd := ?cbFwd, cbBack := ?cbBack, addFwd := ?addFwd,
           addBack := ?addBack, nFwd := ?nFwd, nBack := ?nBack, len3 := ?len3, nIdle := ?nIdle, nNodup := ?nNodup,
           allOut := ?allOut, leaving := ?leaving }
  all_goals try (keep h)
  case len1 => simpa [tick] using h.len1
  case cnt =>
    simp only [tick]; rw [csum_set_contrib _ _ _ _ htp]; exact h.cnt
    simp [hst, contrib]
  case wIdle =>
    intro w m hw' hm'
    have hne := hw w m hw' hm'
    simp only [tick, List.getElem?_set_ne hne]
    exact h.wIdle w m hw' hm'
  case mIdle =>
    intro hm'
    have hne := hm hm'
    simp only [tick, List.getElem?_set_ne hne]
    exact h.mIdle hm'
  case taskSt =>
    intro t' p' hb
    obtain ⟨x, hx, hxs⟩ := h.taskSt t' p' hb
    have hne : q ≠ p' := by intro e; subst e; rw [htp] at hx; cases hx; rw [hst] at hxs; cases hxs
    exact ⟨x, by simp only [tick]; rw [List.getElem?_set_ne hne]; exact hx, hxs⟩
  case taskCnt =>
    intro p' x hx
    simp only [tick] at hx ⊢
    rcases get_set_cases _ _ _ _ _ hx with ⟨rfl, hxe, _⟩ | ⟨_, hx'⟩
    · subst hxe; exact h.taskCnt q tp htp
    · exact h.taskCnt p' x hx'
  case cbFwd =>
    intro t' p' hb
    obtain ⟨x, hx, hxs, hxb⟩ := h.cbFwd t' p' hb
    have hne : q ≠ p' := by intro e; subst e; rw [htp] at hx; cases hx; rw [hst] at hxs; cases hxs
    exact ⟨x, by simp only [tick]; rw [List.getElem?_set_ne hne]; exact hx, hxs, hxb⟩
  case cbBack =>
    intro p' x hx hxs
    simp only [tick] at hx ⊢
    rcases get_set_cases _ _ _ _ _ hx with ⟨_, hxe, _⟩ | ⟨_, hx'⟩
    · subst hxe; cases hxs
    · exact h.cbBack p' x hx' hxs
  case addFwd =>
    intro t' q' hq
    simp only [tick] at hq ⊢
    rcases get_set_cases _ _ _ _ _ hq with ⟨rfl, hx, _⟩ | ⟨_, hq'⟩
    · cases hx; exact ⟨_, List.getElem?_set_self hpl, Or.inl rfl, rfl⟩
    · obtain ⟨x, hx, hxs, hxb⟩ := h.addFwd t' q' hq'
      have hne : q ≠ q' := by
        intro e; subst e; rw [htp] at hx; cases hx; rw [hst] at hxs; rcases hxs with e | e | e <;> cases e
      exact ⟨x, by rw [List.getElem?_set_ne hne]; exact hx, hxs, hxb⟩
  case addBack =>
    intro q' x hx hxs
    simp only [tick] at hx ⊢
    rcases get_set_cases _ _ _ _ _ hx with ⟨rfl, hxe, _⟩ | ⟨_, hx'⟩
    · subst hxe; exact List.getElem?_set_self htl
    · have hb := h.addBack q' x hx' hxs
      have hne : t ≠ x.by_ := by intro e; rw [← e] at hb; exact hnadd q' hb
      rw [List.getElem?_set_ne hne]; exact hb
  case nFwd => exact nf_set h.nFwd htp (by rw [hst]; simp)
  case nBack => exact nb_set h.nBack (by simp)
  case leaving => intro hm'; exact (hbusy (Or.inl hm')).elim

theorem inv_addCall {s : St} {t q : Nat} {tp : Tp} (h : Inv s) (htp : s.tps[q]? = some tp)
    (hg : mayAdd s t = true ∧ tp.st = .notAdded) :
    Inv (tick { s with subs := s.subs.set t (.adding q), tps := s.tps.set q { tp with st := .adding, by_ := t } }) := by
  obtain ⟨hsu, htl, hbusy, hw, hm⟩ := mayAdd_busy h hg.1
  exact inv_enterAdd h htp hg.2 (by rw [h.len1]; exact htl) (fun q' e => by rw [hsu] at e; cases e) hbusy hw hm

/-- a thread inside add_taskpool is neither an idle master outside the loops nor a non-looping worker -/
theorem sub_busy {s : St} (h : Inv s) {t : Nat} {u : Sub} (hsu : s.subs[t]? = some u) (hu : u ≠ .none) :
    t < s.subs.length ∧
    ¬ (s.mm = .leaving ∨ (s.mm = .atBarrier ∧ ∀ m ∈ s.wm, m = .exited)) ∧
    (∀ w m, s.wm[w]? = some m → m ≠ .looping → t ≠ w + 1) ∧
    ((s.mm = .atBarrier ∨ s.mm = .leaving ∨ s.mm = .starting) → t ≠ 0) := by
  have htl : t < s.subs.length := (List.getElem?_eq_some_iff.1 hsu).1
  refine ⟨htl, ?_, ?_, ?_⟩
  · intro ho
    have hi := (all_idle h ho t (by rw [← h.len1]; exact htl)).2
    rw [hsu] at hi; cases hi; exact hu rfl
  · intro w m hw hm' e
    subst e
    have hi := (h.wIdle w m hw hm').2
    rw [hsu] at hi; cases hi; exact hu rfl
  · intro hm' e
    subst e
    have hi := (h.mIdle hm').2
    rw [hsu] at hi; cases hi; exact hu rfl

theorem inv_startupAdd {s : St} {t q q0 : Nat} {tp : Tp} (h : Inv s) (hsu : s.subs[t]? = some (.startup q0))
    (htp : s.tps[q]? = some tp) (hst : tp.st = .notAdded) :
    Inv (tick { s with subs := s.subs.set t (.adding q), tps := s.tps.set q { tp with st := .adding, by_ := t } }) := by
  obtain ⟨htl, hbusy, hw, hm⟩ := sub_busy h hsu (by simp)
  exact inv_enterAdd h htp hst htl (fun q' e => by rw [hsu] at e; cases e) hbusy hw hm

/-- generic: the taskpool being added by `t` moves inside the group {adding, earlyCb, earlyDec} -/
theorem inv_addMove {s : St} {t q : Nat} {tp tp' : Tp} {a : Int} (h : Inv s) (hsu : s.subs[t]? = some (.adding q))
    (htp : s.tps[q]? = some tp) (hg : grp tp'.st) (hby : tp'.by_ = tp.by_)
    (hcn : tp'.started = tp.started ∧ tp'.ended = tp.ended ∧ tp'.total = tp.total)
    (ha : a = s.active + contrib tp'.st - contrib tp.st) :
    Inv (tick { s with active := a, tps := s.tps.set q tp' }) := by
  obtain ⟨hst, hbyt⟩ : grp tp.st ∧ tp.by_ = t := by
    obtain ⟨x, hx, hxs, hxb⟩ := h.addFwd t q hsu
    rw [htp] at hx; cases hx; exact ⟨hxs, hxb⟩
  obtain ⟨htl, hbusy, _, _⟩ := sub_busy h hsu (by simp)
  obtain ⟨hpl, _⟩ := List.getElem?_eq_some_iff.1 htp
  refine { len1 := ?len1, len2 := ?len2, cnt := ?cnt, tokM := ?tokM, notSt := ?notSt, wIdle := ?wIdle, mIdle := ?mIdle,
           taskSt := ?taskSt, taskCnt := ?taskCnt, cbFwd := ?cbFwd, cbBack := ?cbBack, addFwd := ?addFwd,
           addBack := ?addBack, nFwd := ?nFwd, nBack := ?nBack, len3 := ?len3, nIdle := ?nIdle, nNodup := ?nNodup,
           allOut := ?allOut, leaving := ?leaving }
  all_goals try (keep h)
  case cnt =>
    have := h.cnt
    simp only [tick]; rw [csum_set' _ _ _ _ htp, ha, this]; cases s.token <;> simp <;> omega
  case taskSt =>
    intro t' p' hb
    obtain ⟨x, hx, hxs⟩ := h.taskSt t' p' hb
    have hne : q ≠ p' := by
      intro e; subst e; rw [htp] at hx; cases hx; rw [hxs] at hst; rcases hst with e | e | e <;> cases e
    exact ⟨x, by simp only [tick]; rw [List.getElem?_set_ne hne]; exact hx, hxs⟩
  case taskCnt =>
    intro p' x hx
    simp only [tick] at hx ⊢
    rcases get_set_cases _ _ _ _ _ hx with ⟨rfl, hxe, _⟩ | ⟨_, hx'⟩
    · subst hxe; have := h.taskCnt q tp htp; omega
    · exact h.taskCnt p' x hx'
  case cbFwd =>
    intro t' p' hb
    obtain ⟨x, hx, hxs, hxb⟩ := h.cbFwd t' p' hb
    have hne : q ≠ p' := by
      intro e; subst e; rw [htp] at hx; cases hx; rw [hxs] at hst; rcases hst with e | e | e <;> cases e
    exact ⟨x, by simp only [tick]; rw [List.getElem?_set_ne hne]; exact hx, hxs, hxb⟩
  case cbBack =>
    intro p' x hx hxs
    simp only [tick] at hx ⊢
    rcases get_set_cases _ _ _ _ _ hx with ⟨_, hxe, _⟩ | ⟨_, hx'⟩
    · subst hxe; rw [hxs] at hg; rcases hg with e | e | e <;> cases e
    · exact h.cbBack p' x hx' hxs
  case addFwd =>
    intro t' q' hq
    simp only [tick] at hq ⊢
    obtain ⟨x, hx, hxs, hxb⟩ := h.addFwd t' q' hq
    by_cases hne : q = q'
    · subst hne; rw [htp] at hx; cases hx
      exact ⟨tp', List.getElem?_set_self hpl, hg, hby.trans hxb⟩
    · exact ⟨x, by rw [List.getElem?_set_ne hne]; exact hx, hxs, hxb⟩
  case addBack =>
    intro q' x hx hxs
    simp only [tick] at hx ⊢
    rcases get_set_cases _ _ _ _ _ hx with ⟨rfl, hxe, _⟩ | ⟨_, hx'⟩
    · subst hxe; rw [hby, hbyt]; exact hsu
    · exact h.addBack q' x hx' hxs
  case nFwd => exact nf_set h.nFwd htp (by intro e; rw [e] at hst; rcases hst with e' | e' | e' <;> cases e')
  case nBack => exact nb_set h.nBack (by intro e; rw [e] at hg; rcases hg with e' | e' | e' <;> cases e')
  case allOut => intro hm hw; exact (hbusy (Or.inr ⟨hm, hw⟩)).elim
  case leaving => intro hm; exact (hbusy (Or.inl hm)).elim

/-- generic: the increment of add_taskpool; the taskpool leaves the group -/
theorem inv_addInc {s : St} {t q : Nat} {tp tp' : Tp} (h : Inv s) (hsu : s.subs[t]? = some (.adding q))
    (htp : s.tps[q]? = some tp) (hg : tp'.st = .added ∨ tp'.st = .done)
    (hcn : tp'.started = tp.started ∧ tp'.ended = tp.ended ∧ tp'.total = tp.total)
    (ha : contrib tp'.st = contrib tp.st + 1) :
    Inv (tick { s with active := s.active + 1, subs := s.subs.set t (.startup q), tps := s.tps.set q tp' }) := by
  obtain ⟨hst, hbyt⟩ : grp tp.st ∧ tp.by_ = t := by
    obtain ⟨x, hx, hxs, hxb⟩ := h.addFwd t q hsu
    rw [htp] at hx; cases hx; exact ⟨hxs, hxb⟩
  obtain ⟨htl, hbusy, hw, hm⟩ := sub_busy h hsu (by simp)
  obtain ⟨hpl, _⟩ := List.getElem?_eq_some_iff.1 htp
  refine { len1 := ?len1, len2 := ?len2, cnt := ?cnt, tokM := ?tokM, notSt := ?notSt, wIdle := ?wIdle, mIdle := ?mIdle,
           taskSt := ?taskSt, taskCnt := ?taskCnt, cbFwd := ?cbFwd, cbBack := ?cbBack, addFwd := ?addFwd,
           addBack := ?addBack, nFwd := ?nFwd, nBack := ?nBack, len3 := ?len3, nIdle := ?nIdle, nNodup := ?nNodup,
           allOut := ?allOut, leaving := ?leaving }
  all_goals try (keep h)
  case len1 => simpa [tick] using h.len1
  case cnt =>
    have := h.cnt
    simp only [tick]; rw [csum_set' _ _ _ _ htp, ha, this]; cases s.token <;> simp <;> omega
  case wIdle =>
    intro w m hw' hm'
    have hne := hw w m hw' hm'
    simp only [tick, List.getElem?_set_ne hne]
    exact h.wIdle w m hw' hm'
  case mIdle =>
    intro hm'
    have hne := hm hm'
    simp only [tick, List.getElem?_set_ne hne]
    exact h.mIdle hm'
  case taskSt =>
    intro t' p' hb
    obtain ⟨x, hx, hxs⟩ := h.taskSt t' p' hb
    have hne : q ≠ p' := by
      intro e; subst e; rw [htp] at hx; cases hx; rw [hxs] at hst; rcases hst with e | e | e <;> cases e
    exact ⟨x, by simp only [tick]; rw [List.getElem?_set_ne hne]; exact hx, hxs⟩
  case taskCnt =>
    intro p' x hx
    simp only [tick] at hx ⊢
    rcases get_set_cases _ _ _ _ _ hx with ⟨rfl, hxe, _⟩ | ⟨_, hx'⟩
    · subst hxe; have := h.taskCnt q tp htp; omega
    · exact h.taskCnt p' x hx'
  case cbFwd =>
    intro t' p' hb
    obtain ⟨x, hx, hxs, hxb⟩ := h.cbFwd t' p' hb
    have hne : q ≠ p' := by
      intro e; subst e; rw [htp] at hx; cases hx; rw [hxs] at hst; rcases hst with e | e | e <;> cases e
    exact ⟨x, by simp only [tick]; rw [List.getElem?_set_ne hne]; exact hx, hxs, hxb⟩
  case cbBack =>
    intro p' x hx hxs
    simp only [tick] at hx ⊢
    rcases get_set_cases _ _ _ _ _ hx with ⟨_, hxe, _⟩ | ⟨_, hx'⟩
    · subst hxe; rw [hxs] at hg; rcases hg with e | e <;> cases e
    · exact h.cbBack p' x hx' hxs
  case addFwd =>
    intro t' q' hq
    simp only [tick] at hq ⊢
    rcases get_set_cases _ _ _ _ _ hq with ⟨_, hx, _⟩ | ⟨hne, hq'⟩
    · cases hx
    · obtain ⟨x, hx, hxs, hxb⟩ := h.addFwd t' q' hq'
      have hne' : q ≠ q' := by intro e; subst e; rw [htp] at hx; cases hx; exact hne (hbyt.symm.trans hxb)
      exact ⟨x, by rw [List.getElem?_set_ne hne']; exact hx, hxs, hxb⟩
  case addBack =>
    intro q' x hx hxs
    simp only [tick] at hx ⊢
    rcases get_set_cases _ _ _ _ _ hx with ⟨_, hxe, _⟩ | ⟨hqq, hx'⟩
    · subst hxe; rcases hg with e | e <;> rw [e] at hxs <;> rcases hxs with e' | e' | e' <;> cases e'
    · have hb := h.addBack q' x hx' hxs
      have hne : t ≠ x.by_ := by intro e; rw [← e, hsu] at hb; cases hb; exact hqq rfl
      rw [List.getElem?_set_ne hne]; exact hb
  case nFwd => exact nf_set h.nFwd htp (by intro e; rw [e] at hst; rcases hst with e' | e' | e' <;> cases e')
  case nBack => exact nb_set h.nBack (by intro e; rcases hg with e' | e' <;> rw [e'] at e <;> cases e)
  case allOut => intro hm' hw'; exact (hbusy (Or.inr ⟨hm', hw'⟩)).elim
  case leaving => intro hm'; exact (hbusy (Or.inl hm')).elim

theorem inv_addReturn {s : St} {t q0 : Nat} (h : Inv s) (hsu : s.subs[t]? = some (.startup q0)) :
    Inv (tick { s with subs := s.subs.set t .none }) := by
  refine { len1 := ?len1, len2 := ?len2, cnt := ?cnt, tokM := ?tokM, notSt := ?notSt, wIdle := ?wIdle, mIdle := ?mIdle,
           taskSt := ?taskSt, taskCnt := ?taskCnt, cbFwd := ?cbFwd, cbBack := ?cbBack, addFwd := ?addFwd,
           addBack := ?addBack, nFwd := ?nFwd, nBack := ?nBack, len3 := ?len3, nIdle := ?nIdle, nNodup := ?nNodup,
           allOut := ?allOut, leaving := ?leaving }
  all_goals try (keep h)
  case len1 => simpa [tick] using h.len1
  case wIdle =>
    intro w m hw' hm'
    obtain ⟨h1, h2⟩ := h.wIdle w m hw' hm'
    exact ⟨h1, set_keep h2⟩
  case mIdle =>
    intro hm'
    obtain ⟨h1, h2⟩ := h.mIdle hm'
    exact ⟨h1, set_keep h2⟩
  case addFwd =>
    intro t' q' hq
    simp only [tick] at hq ⊢
    rcases get_set_cases _ _ _ _ _ hq with ⟨_, hx, _⟩ | ⟨_, hq'⟩
    · cases hx
    · exact h.addFwd t' q' hq'
  case addBack =>
    intro q' x hx hxs
    have hb := h.addBack q' x hx hxs
    have hne : t ≠ x.by_ := by intro e; rw [← e, hsu] at hb; cases hb
    simp only [tick]; rw [List.getElem?_set_ne hne]; exact hb

/-- generic: an update of a taskpool descriptor that keeps its state and owner and moves `started` and
    `ended` together (arm: ready := true; DTD insert: total += 1; startup hook: pending actions declared;
    release of a pending action that is not the last) -/
theorem inv_tpUpdate {s : St} {p : Nat} {tp tp' : Tp} (h : Inv s) (htp : s.tps[p]? = some tp)
    (hst : tp'.st = tp.st) (hby : tp'.by_ = tp.by_)
    (hcn : tp'.started + tp.ended = tp.started + tp'.ended ∧ (tp.started ≤ tp.total → tp'.started ≤ tp'.total)) :
    Inv (tick { s with tps := s.tps.set p tp' }) := by
  obtain ⟨hpl, _⟩ := List.getElem?_eq_some_iff.1 htp
  have key : ∀ (p' : Nat) (x : Tp), (s.tps.set p tp')[p']? = some x →
      ∃ y : Tp, s.tps[p']? = some y ∧ x.st = y.st ∧ x.by_ = y.by_ ∧ x.started + y.ended = y.started + x.ended ∧
        (y.started ≤ y.total → x.started ≤ x.total) := by
    intro p' x hx
    rcases get_set_cases _ _ _ _ _ hx with ⟨rfl, hxe, _⟩ | ⟨_, hx'⟩
    · subst hxe; exact ⟨tp, htp, hst, hby, hcn.1, hcn.2⟩
    · exact ⟨x, hx', rfl, rfl, rfl, fun e => e⟩
  have key2 : ∀ (p' : Nat) (y : Tp), s.tps[p']? = some y →
      ∃ x : Tp, (s.tps.set p tp')[p']? = some x ∧ x.st = y.st ∧ x.by_ = y.by_ := by
    intro p' y hy
    by_cases hne : p = p'
    · subst hne; rw [htp] at hy; cases hy; exact ⟨tp', List.getElem?_set_self hpl, hst, hby⟩
    · exact ⟨y, by rw [List.getElem?_set_ne hne]; exact hy, rfl, rfl⟩
  refine { len1 := ?len1, len2 := ?len2, cnt := ?cnt, tokM := ?tokM, notSt := ?notSt, wIdle := ?wIdle, mIdle := ?mIdle,
           taskSt := ?taskSt, taskCnt := ?taskCnt, cbFwd := ?cbFwd, cbBack := ?cbBack, addFwd := ?addFwd,
           addBack := ?addBack, nFwd := ?nFwd, nBack := ?nBack, len3 := ?len3, nIdle := ?nIdle, nNodup := ?nNodup,
           allOut := ?allOut, leaving := ?leaving }
  all_goals try (keep h)
  case cnt => simp only [tick]; rw [csum_set_same _ _ _ _ htp hst]; exact h.cnt
  case taskSt =>
    intro t' p' hb
    obtain ⟨y, hy, hys⟩ := h.taskSt t' p' hb
    obtain ⟨x, hx, hxs, _⟩ := key2 p' y hy
    exact ⟨x, hx, hxs.trans hys⟩
  case taskCnt =>
    intro p' x hx
    obtain ⟨y, hy, _, _, h3, h4⟩ := key p' x hx
    have := h.taskCnt p' y hy
    simp only [tick]
    have := h4 this.2
    omega
  case cbFwd =>
    intro t' p' hb
    obtain ⟨y, hy, hys, hyb⟩ := h.cbFwd t' p' hb
    obtain ⟨x, hx, hxs, hxb⟩ := key2 p' y hy
    exact ⟨x, hx, hxs.trans hys, hxb.trans hyb⟩
  case cbBack =>
    intro p' x hx hxs
    obtain ⟨y, hy, h1, h2, _⟩ := key p' x hx
    have := h.cbBack p' y hy (h1 ▸ hxs)
    simp only [tick]; rw [h2]; exact this
  case addFwd =>
    intro t' q' hq
    obtain ⟨y, hy, hys, hyb⟩ := h.addFwd t' q' hq
    obtain ⟨x, hx, hxs, hxb⟩ := key2 q' y hy
    exact ⟨x, hx, by rw [hxs]; exact hys, hxb.trans hyb⟩
  case addBack =>
    intro q' x hx hxs
    obtain ⟨y, hy, h1, h2, _⟩ := key q' x hx
    have := h.addBack q' y hy (h1 ▸ hxs)
    simp only [tick]; rw [h2]; exact this
  case nFwd =>
    intro t' l q' hl hq
    obtain ⟨y, hy, hys, hyb⟩ := h.nFwd t' l q' hl hq
    obtain ⟨x, hx, hxs, hxb⟩ := key2 q' y hy
    exact ⟨x, hx, hxs.trans hys, hxb.trans hyb⟩
  case nBack =>
    intro q' x hx hxs
    obtain ⟨y, hy, h1, h2, _⟩ := key q' x hx
    have := h.nBack q' y hy (h1 ▸ hxs)
    simp only [tick]; rw [h2]; exact this
  case leaving =>
    intro hm
    refine ⟨(h.leaving hm).1, ?_⟩
    intro x hxm
    simp only [tick] at hxm
    obtain ⟨p', hp', hget⟩ := List.getElem_of_mem hxm
    have hx : (s.tps.set p tp')[p']? = some x := by rw [List.getElem?_eq_getElem hp', hget]
    obtain ⟨y, hy, h1, _⟩ := key p' x hx
    have := (h.leaving hm).2 y (List.mem_of_getElem? hy)
    rw [h1]; exact this

/-- a thread inside a completion callback is neither idle-outside nor a non-looping worker -/
theorem cb_busy {s : St} (h : Inv s) {t m : Nat} (hbt : s.bases[t]? = some (.cb m)) :
    t < s.bases.length ∧
    ¬ (s.mm = .leaving ∨ (s.mm = .atBarrier ∧ ∀ m ∈ s.wm, m = .exited)) ∧
    (∀ w m, s.wm[w]? = some m → m ≠ .looping → t ≠ w + 1) ∧
    ((s.mm = .atBarrier ∨ s.mm = .leaving ∨ s.mm = .starting) → t ≠ 0) := by
  have htl : t < s.bases.length := (List.getElem?_eq_some_iff.1 hbt).1
  refine ⟨htl, ?_, ?_, ?_⟩
  · intro ho
    have hi := (all_idle h ho t htl).1
    rw [hbt] at hi; cases hi
  · intro w m' hw hm' e
    subst e
    have hi := (h.wIdle w m' hw hm').1
    rw [hbt] at hi; cases hi
  · intro hm' e
    subst e
    have hi := (h.mIdle hm').1
    rw [hbt] at hi; cases hi

/-- the release of the last pending action of q by a callback: q's termination is detected and its
    callback starts, nested (added → inCbN, q is pushed on the thread's nested stack) -/
theorem inv_nestEnter {s : St} {t q m : Nat} {tp : Tp} (h : Inv s) (hbt : s.bases[t]? = some (.cb m))
    (htp : s.tps[q]? = some tp) (hg : tp.st = .added ∧ tp.ended = tp.total ∧ tp.started = tp.total) :
    Inv (tick { s with nests := s.nests.set t (q :: (s.nests[t]?).getD []),
                       tps := s.tps.set q { tp with pend := 0, st := .inCbN, cbs := tp.cbs + 1, cbAt := s.clock, by_ := t } }) := by
  obtain ⟨hst, hlt, hse⟩ := hg
  obtain ⟨htl, hbusy, _, _⟩ := cb_busy h hbt
  have htl' : t < s.nests.length := by rw [h.len3]; exact htl
  obtain ⟨hpl, _⟩ := List.getElem?_eq_some_iff.1 htp
  have hcnt0 : s.bases.count (Base.task q) = 0 := by have := h.taskCnt q tp htp; omega
  have hold : s.nests[t]? = some ((s.nests[t]?).getD []) := by rw [List.getElem?_eq_getElem htl']; rfl
  generalize hog : (s.nests[t]?).getD [] = old at hold
  have hqold : q ∉ old := by
    intro hq
    obtain ⟨x, hx, hxs, _⟩ := h.nFwd t old q hold hq
    rw [htp] at hx; cases hx; rw [hst] at hxs; cases hxs
  refine { len1 := ?len1, len2 := ?len2, cnt := ?cnt, tokM := ?tokM, notSt := ?notSt, wIdle := ?wIdle, mIdle := ?mIdle,
           taskSt := ?taskSt, taskCnt := ?taskCnt, cbFwd := ?cbFwd, cbBack := ?cbBack, addFwd := ?addFwd,
           addBack := ?addBack, nFwd := ?nFwd, nBack := ?nBack, len3 := ?len3, nIdle := ?nIdle, nNodup := ?nNodup,
           allOut := ?allOut, leaving := ?leaving }
  all_goals try (keep h)
  case cnt =>
    simp only [tick]; rw [csum_set_contrib _ _ _ _ htp]; exact h.cnt
    simp [hst, contrib]
  case taskSt =>
    intro t' p' hb
    simp only [tick] at hb
    obtain ⟨x, hx, hxs⟩ := h.taskSt t' p' hb
    have hne : q ≠ p' := by
      intro e; subst e
      have := count_pos_of_get hb
      omega
    exact ⟨x, by simp only [tick]; rw [List.getElem?_set_ne hne]; exact hx, hxs⟩
  case taskCnt =>
    intro p' x hx
    simp only [tick] at hx ⊢
    rcases get_set_cases _ _ _ _ _ hx with ⟨rfl, hxe, _⟩ | ⟨_, hx'⟩
    · subst hxe; exact h.taskCnt q tp htp
    · exact h.taskCnt p' x hx'
  case cbFwd =>
    intro t' p' hb
    obtain ⟨x, hx, hxs, hxb⟩ := h.cbFwd t' p' hb
    have hne : q ≠ p' := by intro e; subst e; rw [htp] at hx; cases hx; rw [hst] at hxs; cases hxs
    exact ⟨x, by simp only [tick]; rw [List.getElem?_set_ne hne]; exact hx, hxs, hxb⟩
  case cbBack =>
    intro p' x hx hxs
    simp only [tick] at hx ⊢
    rcases get_set_cases _ _ _ _ _ hx with ⟨_, hxe, _⟩ | ⟨_, hx'⟩
    · subst hxe; cases hxs
    · exact h.cbBack p' x hx' hxs
  case addFwd =>
    intro t' q' hq
    obtain ⟨x, hx, hxs, hxb⟩ := h.addFwd t' q' hq
    have hne : q ≠ q' := by
      intro e; subst e; rw [htp] at hx; cases hx; rw [hst] at hxs; rcases hxs with e | e | e <;> cases e
    exact ⟨x, by simp only [tick]; rw [List.getElem?_set_ne hne]; exact hx, hxs, hxb⟩
  case addBack =>
    intro q' x hx hxs
    simp only [tick] at hx ⊢
    rcases get_set_cases _ _ _ _ _ hx with ⟨_, hxe, _⟩ | ⟨_, hx'⟩
    · subst hxe; simp only [] at hxs; rcases hxs with e | e | e <;> cases e
    · exact h.addBack q' x hx' hxs
  case nFwd =>
    intro t' l q' hl hq
    simp only [tick] at hl ⊢
    have key : ∀ x : Tp, s.tps[q']? = some x → x.st = .inCbN → x.by_ = t' → q' ≠ q →
        ∃ y : Tp, (s.tps.set q { tp with pend := 0, st := .inCbN, cbs := tp.cbs + 1, cbAt := s.clock, by_ := t })[q']? = some y ∧
          y.st = .inCbN ∧ y.by_ = t' := fun x hx h1 h2 hne => ⟨x, by rw [List.getElem?_set_ne (fun e => hne e.symm)]; exact hx, h1, h2⟩
    rcases get_set_cases _ _ _ _ _ hl with ⟨rfl, hle, _⟩ | ⟨_, hl'⟩
    · subst hle
      rcases List.mem_cons.1 hq with rfl | hq'
      · exact ⟨_, List.getElem?_set_self hpl, rfl, rfl⟩
      · obtain ⟨x, hx, h1, h2⟩ := h.nFwd t old q' hold hq'
        exact key x hx h1 h2 (fun e => hqold (e ▸ hq'))
    · obtain ⟨x, hx, h1, h2⟩ := h.nFwd t' l q' hl' hq
      exact key x hx h1 h2 (fun e => by subst e; rw [htp] at hx; cases hx; rw [hst] at h1; cases h1)
  case nBack =>
    intro q' x hx hxs
    simp only [tick] at hx ⊢
    rcases get_set_cases _ _ _ _ _ hx with ⟨rfl, hxe, _⟩ | ⟨_, hx'⟩
    · subst hxe; exact ⟨q :: old, List.getElem?_set_self htl', List.mem_cons_self⟩
    · obtain ⟨l, hl, hql⟩ := h.nBack q' x hx' hxs
      by_cases e : t = x.by_
      · rw [← e] at hl ⊢
        rw [hold] at hl; cases hl
        exact ⟨q :: old, List.getElem?_set_self htl', List.mem_cons_of_mem _ hql⟩
      · exact ⟨l, by rw [List.getElem?_set_ne e]; exact hl, hql⟩
  case len3 => simpa [tick] using h.len3
  case nIdle =>
    intro t' l hl hne
    simp only [tick] at hl ⊢
    rcases get_set_cases _ _ _ _ _ hl with ⟨rfl, _, _⟩ | ⟨_, hl'⟩
    · exact ⟨m, hbt⟩
    · exact h.nIdle t' l hl' hne
  case nNodup =>
    intro t' l hl
    simp only [tick] at hl
    rcases get_set_cases _ _ _ _ _ hl with ⟨rfl, hle, _⟩ | ⟨_, hl'⟩
    · subst hle; exact List.nodup_cons.2 ⟨hqold, h.nNodup t old hold⟩
    · exact h.nNodup t' l hl'
  case leaving => intro hm'; exact (hbusy (Or.inl hm')).elim

/-- the decrement that ends the innermost nested termination -/
theorem inv_nestDec {s : St} {t q : Nat} {rest : List Nat} {tp : Tp} (h : Inv s)
    (hn : s.nests[t]? = some (q :: rest)) (htp : s.tps[q]? = some tp) :
    Inv (tick { s with active := s.active - 1, nests := s.nests.set t rest,
                       tps := s.tps.set q { tp with st := .done, decAt := s.clock } }) := by
  obtain ⟨hst, hby⟩ : tp.st = .inCbN ∧ tp.by_ = t := by
    obtain ⟨x, hx, hxs, hxb⟩ := h.nFwd t _ q hn List.mem_cons_self
    rw [htp] at hx; cases hx; exact ⟨hxs, hxb⟩
  obtain ⟨m, hbt⟩ := h.nIdle t _ hn (by simp)
  obtain ⟨htl, hbusy, _, _⟩ := cb_busy h hbt
  have htl' : t < s.nests.length := by rw [h.len3]; exact htl
  obtain ⟨hpl, _⟩ := List.getElem?_eq_some_iff.1 htp
  have hnd := h.nNodup t _ hn
  have hqr : q ∉ rest := (List.nodup_cons.1 hnd).1
  refine { len1 := ?len1, len2 := ?len2, cnt := ?cnt, tokM := ?tokM, notSt := ?notSt, wIdle := ?wIdle, mIdle := ?mIdle,
           taskSt := ?taskSt, taskCnt := ?taskCnt, cbFwd := ?cbFwd, cbBack := ?cbBack, addFwd := ?addFwd,
           addBack := ?addBack, nFwd := ?nFwd, nBack := ?nBack, len3 := ?len3, nIdle := ?nIdle, nNodup := ?nNodup,
           allOut := ?allOut, leaving := ?leaving }
  all_goals try (keep h)
  case cnt =>
    have := h.cnt
    simp only [tick]; rw [csum_set' _ _ _ _ htp]
    simp [hst, contrib]
    rw [this]; cases s.token <;> simp <;> omega
  case taskSt =>
    intro t' p' hb
    obtain ⟨x, hx, hxs⟩ := h.taskSt t' p' hb
    have hne : q ≠ p' := by intro e; subst e; rw [htp] at hx; cases hx; rw [hst] at hxs; cases hxs
    exact ⟨x, by simp only [tick]; rw [List.getElem?_set_ne hne]; exact hx, hxs⟩
  case taskCnt =>
    intro p' x hx
    simp only [tick] at hx ⊢
    rcases get_set_cases _ _ _ _ _ hx with ⟨rfl, hxe, _⟩ | ⟨_, hx'⟩
    · subst hxe; exact h.taskCnt q tp htp
    · exact h.taskCnt p' x hx'
  case cbFwd =>
    intro t' p' hb
    obtain ⟨x, hx, hxs, hxb⟩ := h.cbFwd t' p' hb
    have hne : q ≠ p' := by intro e; subst e; rw [htp] at hx; cases hx; rw [hst] at hxs; cases hxs
    exact ⟨x, by simp only [tick]; rw [List.getElem?_set_ne hne]; exact hx, hxs, hxb⟩
  case cbBack =>
    intro p' x hx hxs
    simp only [tick] at hx ⊢
    rcases get_set_cases _ _ _ _ _ hx with ⟨_, hxe, _⟩ | ⟨_, hx'⟩
    · subst hxe; cases hxs
    · exact h.cbBack p' x hx' hxs
  case addFwd =>
    intro t' q' hq
    obtain ⟨x, hx, hxs, hxb⟩ := h.addFwd t' q' hq
    have hne : q ≠ q' := by
      intro e; subst e; rw [htp] at hx; cases hx; rw [hst] at hxs; rcases hxs with e | e | e <;> cases e
    exact ⟨x, by simp only [tick]; rw [List.getElem?_set_ne hne]; exact hx, hxs, hxb⟩
  case addBack =>
    intro q' x hx hxs
    simp only [tick] at hx ⊢
    rcases get_set_cases _ _ _ _ _ hx with ⟨_, hxe, _⟩ | ⟨_, hx'⟩
    · subst hxe; simp only [] at hxs; rcases hxs with e | e | e <;> cases e
    · exact h.addBack q' x hx' hxs
  case nFwd =>
    intro t' l q' hl hq
    simp only [tick] at hl ⊢
    rcases get_set_cases _ _ _ _ _ hl with ⟨rfl, hle, _⟩ | ⟨hne, hl'⟩
    · subst hle
      obtain ⟨x, hx, h1, h2⟩ := h.nFwd t _ q' hn (List.mem_cons_of_mem _ hq)
      have hqq : q ≠ q' := fun e => hqr (e ▸ hq)
      exact ⟨x, by rw [List.getElem?_set_ne hqq]; exact hx, h1, h2⟩
    · obtain ⟨x, hx, h1, h2⟩ := h.nFwd t' l q' hl' hq
      have hqq : q ≠ q' := by intro e; subst e; rw [htp] at hx; cases hx; exact hne (hby.symm.trans h2)
      exact ⟨x, by rw [List.getElem?_set_ne hqq]; exact hx, h1, h2⟩
  case nBack =>
    intro q' x hx hxs
    simp only [tick] at hx ⊢
    rcases get_set_cases _ _ _ _ _ hx with ⟨_, hxe, _⟩ | ⟨hqq, hx'⟩
    · subst hxe; cases hxs
    · obtain ⟨l, hl, hql⟩ := h.nBack q' x hx' hxs
      by_cases e : t = x.by_
      · rw [← e] at hl ⊢
        rw [hn] at hl; cases hl
        refine ⟨rest, List.getElem?_set_self htl', ?_⟩
        rcases List.mem_cons.1 hql with e' | e'
        · exact absurd e'.symm hqq
        · exact e'
      · exact ⟨l, by rw [List.getElem?_set_ne e]; exact hl, hql⟩
  case len3 => simpa [tick] using h.len3
  case nIdle =>
    intro t' l hl hne
    simp only [tick] at hl ⊢
    rcases get_set_cases _ _ _ _ _ hl with ⟨rfl, _, _⟩ | ⟨_, hl'⟩
    · exact ⟨m, hbt⟩
    · exact h.nIdle t' l hl' hne
  case nNodup =>
    intro t' l hl
    simp only [tick] at hl
    rcases get_set_cases _ _ _ _ _ hl with ⟨rfl, hle, _⟩ | ⟨_, hl'⟩
    · subst hle; exact (List.nodup_cons.1 hnd).2
    · exact h.nNodup t' l hl'
  case allOut => intro hm' hw'; exact (hbusy (Or.inr ⟨hm', hw'⟩)).elim
  case leaving => intro hm'; exact (hbusy (Or.inl hm')).elim

end ParsecVerif.Context
