import ParsecVerif.Model.RwLock
import ParsecVerif.Base.Interleave
/-!
  The inductive invariant of the ticket read-write lock (`Inv`) and its preservation by the
  thread-local and reader-side transitions (writer side: `Proofs/RwLockW.lean`).

  Technique: counter abstraction.  Program points are grouped in 20 classes (`Cls`; the reader spin
  point is split by the value of the phase bits it waits on), `cnt c` counts the threads of class `c`,
  and one move of one thread shifts one unit between two counters (`moves`).  The invariant is
  * linear facts between the four fields and the counters (`c`, `d1`, `d2`, `sx`),
  * the writer-side phase `Phase` (free / holder about to announce | announced, draining readers |
    inside | released the readers, about to publish `wout`), each with its facts on the low bits of
    `rin` and on which generation of waiting readers may exist,
  * per-thread facts on the local data (`PT`: tickets, the drain target read from `rin`, the loaded `wout`),
  * uniqueness of the tickets of waiting writers (`u`) and existence of a waiting writer for every
    ticket between `wout` (+1 if the lock has a holder) and `win` (`ex`).
-/
namespace ParsecVerif.RwLock
open ParsecVerif.Interleave

inductive Cls
  | idle | done | rAdd | rs2 | rs3 | rsX | rF | rIn | rWmb | rOut
  | wTick | wS1 | wAdd | wS2 | wF | wIn | wWmb | wAnd | wLoad | wStore
deriving Repr, DecidableEq

def cls : Pc → Cls
  | .idle => .idle | .done => .done | .rAdd => .rAdd
  | .rSpin w => if w = 2 then .rs2 else if w = 3 then .rs3 else .rsX
  | .rFence => .rF | .rIn => .rIn | .rWmb => .rWmb | .rOut => .rOut
  | .wTick => .wTick | .wSpin1 _ => .wS1 | .wAdd _ => .wAdd | .wSpin2 _ _ => .wS2
  | .wFence _ => .wF | .wIn _ => .wIn | .wWmb _ => .wWmb | .wAnd _ => .wAnd
  | .wLoad _ => .wLoad | .wStore _ _ => .wStore

def cnt (c : Cls) (l : List Thread) : Nat := (l.map fun t => cls t.pc).count c

theorem cnt_move (l : List Thread) (i : Nat) (y : Thread) (h : i < l.length) (c : Cls) :
    cnt c (l.set i y) + (if cls l[i].pc = c then 1 else 0) = cnt c l + (if cls y.pc = c then 1 else 0) := by
  unfold cnt
  rw [List.map_set]
  have := count_set_move (l.map fun t => cls t.pc) i (cls y.pc) (by simpa using h) c
  simpa using this

theorem cnt_pos (l : List Thread) (i : Nat) (th : Thread) (h : l[i]? = some th) : 1 ≤ cnt (cls th.pc) l := by
  unfold cnt
  apply List.count_pos_iff.2
  obtain ⟨hi, hx⟩ := getElem_of_getElem? h
  exact List.mem_map.2 ⟨th, hx ▸ List.getElem_mem hi, rfl⟩

theorem get_set_ne (l : List Thread) (k i : Nat) (y th : Thread) (hne : i ≠ k) (h : l[i]? = some th) :
    (l.set k y)[i]? = some th := by
  rw [List.getElem?_set_ne (Ne.symm hne)]; exact h

theorem forall_set {P : Thread → Prop} (l : List Thread) (k : Nat) (y : Thread) (hy : P y)
    (ho : ∀ (i : Nat) (th : Thread), i ≠ k → l[i]? = some th → P th) : ∀ (i : Nat) (th : Thread), (l.set k y)[i]? = some th → P th := by
  intro i th h
  by_cases hik : i = k
  · subst hik
    rw [List.getElem?_set] at h
    simp at h
    obtain ⟨_, rfl⟩ := h
    exact hy
  · rw [List.getElem?_set_ne (Ne.symm hik)] at h
    exact ho i th hik h

def n (s : State) (c : Cls) : Nat := cnt c s.th
def H (s : State) : Nat := n s .wAdd + n s .wS2 + n s .wF + n s .wIn + n s .wWmb + n s .wAnd + n s .wLoad + n s .wStore
def Rent (s : State) : Nat := n s .rF + n s .rIn + n s .rWmb + n s .rOut

def Phase (s : State) : Prop :=
  (n s .wAdd ≤ 1 ∧ n s .wS2 = 0 ∧ n s .wF = 0 ∧ n s .wIn = 0 ∧ n s .wWmb = 0 ∧ n s .wAnd = 0 ∧ n s .wLoad = 0 ∧ n s .wStore = 0 ∧
    s.rin % 256 = 0 ∧ (s.wout % 2 = 0 → n s .rs2 = 0) ∧ (s.wout % 2 = 1 → n s .rs3 = 0)) ∨
  (n s .wAdd = 0 ∧ n s .wS2 = 1 ∧ n s .wF = 0 ∧ n s .wIn = 0 ∧ n s .wWmb = 0 ∧ n s .wAnd = 0 ∧ n s .wLoad = 0 ∧ n s .wStore = 0 ∧
    s.rin % 256 = 2 + s.wout % 2) ∨
  (n s .wAdd = 0 ∧ n s .wS2 = 0 ∧ n s .wF + n s .wIn + n s .wWmb + n s .wAnd = 1 ∧ n s .wLoad = 0 ∧ n s .wStore = 0 ∧
    s.rin % 256 = 2 + s.wout % 2 ∧ Rent s = 0 ∧ (s.wout % 2 = 0 → n s .rs3 = 0) ∧ (s.wout % 2 = 1 → n s .rs2 = 0)) ∨
  (n s .wAdd = 0 ∧ n s .wS2 = 0 ∧ n s .wF = 0 ∧ n s .wIn = 0 ∧ n s .wWmb = 0 ∧ n s .wAnd = 0 ∧ n s .wLoad + n s .wStore = 1 ∧
    s.rin % 256 = 0 ∧ (s.wout % 2 = 0 → n s .rs3 = 0) ∧ (s.wout % 2 = 1 → n s .rs2 = 0))

def Q0 (s : State) : Nat := s.rout + 256 * (Rent s + n s .rs3)
def Q1 (s : State) : Nat := s.rout + 256 * (Rent s + n s .rs2)

/-- what is known about the local data of a thread at program point `pc`, as a function of the
    "view" `(wout, win, #holders, Q0, Q1)` of the shared state; `Q_p` is the value `rout` will have
    when every reader that does not wait for the current writer (ticket parity `p`) has left -/
def PTv (wout win h q0 q1 : Nat) : Pc → Prop
  | .rSpin w => w = 2 ∨ w = 3
  | .wSpin1 t => wout ≤ t ∧ t < win ∧ (1 ≤ h → wout < t)
  | .wAdd t => t = wout
  | .wSpin2 t rt => t = wout ∧ (wout % 2 = 0 → rt = q0) ∧ (wout % 2 = 1 → rt = q1)
  | .wFence t => t = wout
  | .wIn t => t = wout
  | .wWmb t => t = wout
  | .wAnd t => t = wout
  | .wLoad t => t = wout
  | .wStore t v => t = wout ∧ v = wout
  | _ => True

def PT (s : State) (pc : Pc) : Prop := PTv s.wout s.win (H s) (Q0 s) (Q1 s) pc

def W1at (l : List Thread) (i t : Nat) : Prop := ∃ th, l[i]? = some th ∧ th.pc = .wSpin1 t

structure Inv (s : State) : Prop where
  sx : n s .rsX = 0
  c : s.win = s.wout + n s .wS1 + H s
  d1 : s.rout % 256 = 0
  d2 : s.rin = s.rout + 256 * (n s .rs2 + n s .rs3 + Rent s) + s.rin % 256
  phase : Phase s
  pt : ∀ (i : Nat) (th : Thread), s.th[i]? = some th → PT s th.pc
  u : ∀ i j t, W1at s.th i t → W1at s.th j t → i = j
  ex : ∀ k, s.wout + H s ≤ k → k < s.win → ∃ i, W1at s.th i k

theorem W1at_set_ne (l : List Thread) (k : Nat) (y : Thread) (i t : Nat) (hne : i ≠ k) :
    W1at (l.set k y) i t ↔ W1at l i t := by
  unfold W1at; rw [List.getElem?_set_ne (Ne.symm hne)]

theorem W1at_set_self_not (l : List Thread) (k : Nat) (y : Thread) (t : Nat) (hy : ∀ t, y.pc ≠ .wSpin1 t) :
    ¬ W1at (l.set k y) k t := by
  rintro ⟨th, h, hp⟩
  rw [List.getElem?_set] at h
  simp at h
  obtain ⟨_, rfl⟩ := h
  exact hy t hp

/-- frame for uniqueness: the mover does not arrive at a `wSpin1` point -/
theorem u_frame (l : List Thread) (k : Nat) (y : Thread) (hy : ∀ t, y.pc ≠ .wSpin1 t)
    (hu : ∀ i j t, W1at l i t → W1at l j t → i = j) :
    ∀ i j t, W1at (l.set k y) i t → W1at (l.set k y) j t → i = j := by
  intro i j t hi hj
  by_cases hik : i = k
  · subst hik; exact absurd hi (W1at_set_self_not l i y t hy)
  by_cases hjk : j = k
  · subst hjk; exact absurd hj (W1at_set_self_not l j y t hy)
  exact hu i j t ((W1at_set_ne l k y i t hik).1 hi) ((W1at_set_ne l k y j t hjk).1 hj)

/-- frame for existence: the mover does not leave a `wSpin1` point and the range does not grow -/
theorem ex_frame (l : List Thread) (k : Nat) (x y : Thread) (hk : l[k]? = some x) (hx : ∀ t, x.pc ≠ .wSpin1 t)
    (lo hi lo' hi' : Nat) (hlo : lo ≤ lo') (hhi : hi' ≤ hi)
    (he : ∀ q, lo ≤ q → q < hi → ∃ i, W1at l i q) :
    ∀ q, lo' ≤ q → q < hi' → ∃ i, W1at (l.set k y) i q := by
  intro q h1 h2
  obtain ⟨i, hi⟩ := he q (by omega) (by omega)
  have hik : i ≠ k := by
    rintro rfl
    obtain ⟨th, h, hp⟩ := hi
    rw [hk] at h
    cases h
    exact hx q hp
  exact ⟨i, (W1at_set_ne l k y i q hik).2 hi⟩



/-- the twenty count equations of one move, ready for `omega` -/
theorem moves (l : List Thread) (k : Nat) (x y : Thread) (hk : l[k]? = some x) (c : Cls) :
    cnt c (l.set k y) + (if cls x.pc = c then 1 else 0) = cnt c l + (if cls y.pc = c then 1 else 0) := by
  obtain ⟨hi, hx⟩ := getElem_of_getElem? hk
  have := cnt_move l k y hi c
  rw [hx] at this
  exact this

theorem cnt_pos_other (l : List Thread) (k i : Nat) (y th : Thread) (hne : i ≠ k) (h : l[i]? = some th) :
    1 ≤ cnt (cls th.pc) (l.set k y) :=
  cnt_pos _ i th (get_set_ne l k i y th hne h)

/-- frame for the per-thread facts: the view is unchanged (`win` may grow) -/
theorem PT_frame (s s' : State) (pc : Pc) (h : PT s pc)
    (hw : s'.wout = s.wout) (hwin : s.win ≤ s'.win) (hH : H s' = H s)
    (hq0 : s.wout % 2 = 0 → Q0 s' = Q0 s) (hq1 : s.wout % 2 = 1 → Q1 s' = Q1 s) : PT s' pc := by
  unfold PT at h ⊢
  rw [hw, hH]
  cases pc <;> simp only [PTv] at h ⊢ <;> first | trivial | exact h | omega

/-- frame for program points other than `wSpin2`: the drain targets `Q0`, `Q1` may change -/
theorem PT_frame_noS2 (s s' : State) (pc : Pc) (h : PT s pc) (hpc : cls pc ≠ .wS2)
    (hw : s'.wout = s.wout) (hwin : s.win ≤ s'.win) (hH : H s' = H s) : PT s' pc := by
  unfold PT at h ⊢
  rw [hw, hH]
  cases pc <;> simp only [PTv, cls] at h hpc ⊢ <;> first | trivial | exact h | omega | exact absurd rfl hpc

/-- frame for program points other than `wSpin1`: `win` and the number of holders may change -/
theorem PT_frame_noS1 (s s' : State) (pc : Pc) (h : PT s pc) (hpc : cls pc ≠ .wS1)
    (hw : s'.wout = s.wout)
    (hq0 : s.wout % 2 = 0 → Q0 s' = Q0 s) (hq1 : s.wout % 2 = 1 → Q1 s' = Q1 s) : PT s' pc := by
  unfold PT at h ⊢
  rw [hw]
  cases pc <;> simp only [PTv, cls] at h hpc ⊢ <;> first | trivial | exact h | omega | exact absurd rfl hpc

macro "mv20 " mv:ident : tactic => `(tactic| (
  have m01 := $mv Cls.idle; have m02 := $mv Cls.done; have m03 := $mv Cls.rAdd; have m04 := $mv Cls.rs2
  have m05 := $mv Cls.rs3; have m06 := $mv Cls.rsX; have m07 := $mv Cls.rF; have m08 := $mv Cls.rIn
  have m09 := $mv Cls.rWmb; have m10 := $mv Cls.rOut; have m11 := $mv Cls.wTick; have m12 := $mv Cls.wS1
  have m13 := $mv Cls.wAdd; have m14 := $mv Cls.wS2; have m15 := $mv Cls.wF; have m16 := $mv Cls.wIn
  have m17 := $mv Cls.wWmb; have m18 := $mv Cls.wAnd; have m19 := $mv Cls.wLoad; have m20 := $mv Cls.wStore
  simp only [cls, reduceCtorEq, Nat.reduceEqDiff, reduceIte, if_true, if_false, Nat.add_zero]
    at m01 m02 m03 m04 m05 m06 m07 m08 m09 m10 m11 m12 m13 m14 m15 m16 m17 m18 m19 m20))

macro "phase_pick" : tactic => `(tactic| first
  | (refine Or.inl ?_; omega)
  | (refine Or.inr (Or.inl ?_); omega)
  | (refine Or.inr (Or.inr (Or.inl ?_)); omega)
  | (refine Or.inr (Or.inr (Or.inr ?_)); omega))

/-! ## Preservation of the invariant, one lemma per program point -/

/-- others keep their facts when the view `(wout, win, H, Q0, Q1)` is unchanged -/
macro "same_view " hpt:ident : tactic => `(tactic| (
  intro i th hne hith
  refine PT_frame _ _ _ ($hpt i th hith) rfl (Nat.le_refl _) ?_ ?_ ?_
  · simp only [H, n]; omega
  · intro _; simp only [Q0, Rent, n]; omega
  · intro _; simp only [Q1, Rent, n]; omega))

macro "phase_all " hph:ident : tactic => `(tactic| (
  simp only [Phase, n, Rent]
  rcases $hph:ident with hA | hB | hC | hD <;> first | (exfalso; omega) | phase_pick))

/-- a move between two program points without any effect on the shared counters and on the view -/
macro "local_move " hk:ident hsx:ident hc:ident hd1:ident hd2:ident hph:ident hpt:ident hu:ident hex:ident : tactic => `(tactic| (
  simp only [Phase, H, Rent, n] at $hsx:ident $hc:ident $hd1:ident $hd2:ident $hph:ident
  refine ⟨?_, ?_, ?_, ?_, ?_, ?_, ?_, ?_⟩
  · simp only [n]; omega
  · simp only [n, H]; omega
  · exact $hd1
  · simp only [n, Rent]; omega
  · phase_all $hph
  · apply forall_set
    · first | trivial | (simp only [PT, PTv] at *; omega)
    · same_view $hpt
  · exact u_frame _ _ _ (by intro t; simp) $hu
  · refine ex_frame _ _ _ _ $hk (by intro t; simp) _ _ _ _ ?_ (Nat.le_refl _) $hex
    simp only [H, n]; omega))

theorem t_idle_nil (s : State) (k : Nat) (h : Inv s) (hk : s.th[k]? = some ⟨.idle, []⟩) :
    Inv (stepT 0 s k .idle []) := by
  have mv := moves s.th k _ ⟨.done, []⟩ hk
  mv20 mv
  obtain ⟨hsx, hc, hd1, hd2, hph, hpt, hu, hex⟩ := h
  simp only [stepT, setT]
  local_move hk hsx hc hd1 hd2 hph hpt hu hex

theorem t_idle_rd (s : State) (k : Nat) (p : List Kind) (h : Inv s) (hk : s.th[k]? = some ⟨.idle, .rd :: p⟩) :
    Inv (stepT 0 s k .idle (.rd :: p)) := by
  have mv := moves s.th k _ ⟨.rAdd, p⟩ hk
  mv20 mv
  obtain ⟨hsx, hc, hd1, hd2, hph, hpt, hu, hex⟩ := h
  simp only [stepT, setT]
  local_move hk hsx hc hd1 hd2 hph hpt hu hex

theorem t_idle_wr (s : State) (k : Nat) (p : List Kind) (h : Inv s) (hk : s.th[k]? = some ⟨.idle, .wr :: p⟩) :
    Inv (stepT 0 s k .idle (.wr :: p)) := by
  have mv := moves s.th k _ ⟨.wTick, p⟩ hk
  mv20 mv
  obtain ⟨hsx, hc, hd1, hd2, hph, hpt, hu, hex⟩ := h
  simp only [stepT, setT]
  local_move hk hsx hc hd1 hd2 hph hpt hu hex

theorem t_rFence (s : State) (k : Nat) (prog : List Kind) (h : Inv s) (hk : s.th[k]? = some ⟨.rFence, prog⟩) :
    Inv (stepT 0 s k .rFence prog) := by
  have mv := moves s.th k _ ⟨.rIn, prog⟩ hk
  mv20 mv
  obtain ⟨hsx, hc, hd1, hd2, hph, hpt, hu, hex⟩ := h
  simp only [stepT, setT]
  local_move hk hsx hc hd1 hd2 hph hpt hu hex

theorem t_rIn (s : State) (k : Nat) (prog : List Kind) (h : Inv s) (hk : s.th[k]? = some ⟨.rIn, prog⟩) :
    Inv (stepT 0 s k .rIn prog) := by
  have mv := moves s.th k _ ⟨.rWmb, prog⟩ hk
  mv20 mv
  obtain ⟨hsx, hc, hd1, hd2, hph, hpt, hu, hex⟩ := h
  simp only [stepT, setT]
  local_move hk hsx hc hd1 hd2 hph hpt hu hex

theorem t_rWmb (s : State) (k : Nat) (prog : List Kind) (h : Inv s) (hk : s.th[k]? = some ⟨.rWmb, prog⟩) :
    Inv (stepT 0 s k .rWmb prog) := by
  have mv := moves s.th k _ ⟨.rOut, prog⟩ hk
  mv20 mv
  obtain ⟨hsx, hc, hd1, hd2, hph, hpt, hu, hex⟩ := h
  simp only [stepT, setT]
  local_move hk hsx hc hd1 hd2 hph hpt hu hex

theorem t_wFence (s : State) (k t : Nat) (prog : List Kind) (h : Inv s) (hk : s.th[k]? = some ⟨.wFence t, prog⟩) :
    Inv (stepT 0 s k (.wFence t) prog) := by
  have mv := moves s.th k _ ⟨.wIn t, prog⟩ hk
  mv20 mv
  have hme := h.pt k _ hk
  obtain ⟨hsx, hc, hd1, hd2, hph, hpt, hu, hex⟩ := h
  simp only [stepT, setT]
  local_move hk hsx hc hd1 hd2 hph hpt hu hex

theorem t_wIn (s : State) (k t : Nat) (prog : List Kind) (h : Inv s) (hk : s.th[k]? = some ⟨.wIn t, prog⟩) :
    Inv (stepT 0 s k (.wIn t) prog) := by
  have mv := moves s.th k _ ⟨.wWmb t, prog⟩ hk
  mv20 mv
  have hme := h.pt k _ hk
  obtain ⟨hsx, hc, hd1, hd2, hph, hpt, hu, hex⟩ := h
  simp only [stepT, setT]
  local_move hk hsx hc hd1 hd2 hph hpt hu hex

theorem t_wWmb (s : State) (k t : Nat) (prog : List Kind) (h : Inv s) (hk : s.th[k]? = some ⟨.wWmb t, prog⟩) :
    Inv (stepT 0 s k (.wWmb t) prog) := by
  have mv := moves s.th k _ ⟨.wAnd t, prog⟩ hk
  mv20 mv
  have hme := h.pt k _ hk
  obtain ⟨hsx, hc, hd1, hd2, hph, hpt, hu, hex⟩ := h
  simp only [stepT, setT]
  local_move hk hsx hc hd1 hd2 hph hpt hu hex

theorem t_wLoad (s : State) (k t : Nat) (prog : List Kind) (h : Inv s) (hk : s.th[k]? = some ⟨.wLoad t, prog⟩) :
    Inv (stepT 0 s k (.wLoad t) prog) := by
  have mv := moves s.th k _ ⟨.wStore t s.wout, prog⟩ hk
  mv20 mv
  have hme := h.pt k _ hk
  obtain ⟨hsx, hc, hd1, hd2, hph, hpt, hu, hex⟩ := h
  simp only [stepT, setT]
  local_move hk hsx hc hd1 hd2 hph hpt hu hex


theorem t_rOut (s : State) (k : Nat) (prog : List Kind) (h : Inv s) (hk : s.th[k]? = some ⟨.rOut, prog⟩) :
    Inv (stepT 0 s k .rOut prog) := by
  have mv := moves s.th k _ ⟨.idle, prog⟩ hk
  mv20 mv
  obtain ⟨hsx, hc, hd1, hd2, hph, hpt, hu, hex⟩ := h
  simp only [stepT, setT, Nat.mod_zero]
  simp only [Phase, H, Rent, n] at hsx hc hd1 hd2 hph
  refine ⟨?_, ?_, ?_, ?_, ?_, ?_, ?_, ?_⟩
  · simp only [n]; omega
  · simp only [n, H]; omega
  · show (s.rout + 256) % 256 = 0
    omega
  · simp only [n, Rent]; omega
  · phase_all hph
  · apply forall_set
    · trivial
    · same_view hpt
  · exact u_frame _ _ _ (by intro t; simp) hu
  · refine ex_frame _ _ _ _ hk (by intro t; simp) _ _ _ _ ?_ (Nat.le_refl _) hex
    simp only [H, n]; omega

theorem t_rAdd0 (s : State) (k : Nat) (prog : List Kind) (h : Inv s) (hk : s.th[k]? = some ⟨.rAdd, prog⟩)
    (h4 : s.rin % 4 = 0) : Inv (stepT 0 s k .rAdd prog) := by
  have mv := moves s.th k _ ⟨.rFence, prog⟩ hk
  mv20 mv
  obtain ⟨hsx, hc, hd1, hd2, hph, hpt, hu, hex⟩ := h
  simp only [stepT, setT, Nat.mod_zero, h4, if_true]
  simp only [Phase, H, Rent, n] at hsx hc hd1 hd2 hph
  refine ⟨?_, ?_, ?_, ?_, ?_, ?_, ?_, ?_⟩
  · simp only [n]; omega
  · simp only [n, H]; omega
  · exact hd1
  · simp only [n, Rent]; omega
  · phase_all hph
  · apply forall_set
    · trivial
    · intro i th hne hith
      have hpos := cnt_pos_other s.th k i ⟨.rFence, prog⟩ th hne hith
      refine PT_frame_noS2 _ _ _ (hpt i th hith) ?_ rfl (Nat.le_refl _) ?_
      · intro hc2
        rw [hc2] at hpos
        rcases hph with hA | hB | hC | hD <;> omega
      · simp only [H, n]; omega
  · exact u_frame _ _ _ (by intro t; simp) hu
  · refine ex_frame _ _ _ _ hk (by intro t; simp) _ _ _ _ ?_ (Nat.le_refl _) hex
    simp only [H, n]; omega

/-- the reader arrives while a writer has announced itself: it waits on that writer's phase bits -/
theorem t_rAddW (s : State) (k : Nat) (prog : List Kind) (w : Nat) (h : Inv s) (hk : s.th[k]? = some ⟨.rAdd, prog⟩)
    (h4 : s.rin % 4 = w) (hw : w = 2 ∨ w = 3) : Inv (stepT 0 s k .rAdd prog) := by
  have mv := moves s.th k _ ⟨.rSpin w, prog⟩ hk
  obtain ⟨hsx, hc, hd1, hd2, hph, hpt, hu, hex⟩ := h
  have hne : ¬ (w = 0) := by omega
  simp only [stepT, setT, Nat.mod_zero, h4, hne, if_false]
  simp only [Phase, H, Rent, n] at hsx hc hd1 hd2 hph
  rcases hw with rfl | rfl
  all_goals (
    mv20 mv
    refine ⟨?_, ?_, ?_, ?_, ?_, ?_, ?_, ?_⟩
    · simp only [n]; omega
    · simp only [n, H]; omega
    · exact hd1
    · simp only [n, Rent]; omega
    · phase_all hph
    · apply forall_set
      · simp [PT, PTv]
      · intro i th hne hith
        refine PT_frame _ _ _ (hpt i th hith) rfl (Nat.le_refl _) ?_ ?_ ?_
        · simp only [H, n]; omega
        · intro hp; simp only [Q0, Rent, n]
          rcases hph with hA | hB | hC | hD <;> omega
        · intro hp; simp only [Q1, Rent, n]
          rcases hph with hA | hB | hC | hD <;> omega
    · exact u_frame _ _ _ (by intro t; simp) hu
    · refine ex_frame _ _ _ _ hk (by intro t; simp) _ _ _ _ ?_ (Nat.le_refl _) hex
      simp only [H, n]; omega)

theorem t_rAdd (s : State) (k : Nat) (prog : List Kind) (h : Inv s) (hk : s.th[k]? = some ⟨.rAdd, prog⟩) :
    Inv (stepT 0 s k .rAdd prog) := by
  have hph := h.phase
  simp only [Phase] at hph
  have : s.rin % 4 = 0 ∨ s.rin % 4 = 2 ∨ s.rin % 4 = 3 := by
    rcases hph with hA | hB | hC | hD <;> omega
  rcases this with h0 | h2 | h3
  · exact t_rAdd0 s k prog h hk h0
  · exact t_rAddW s k prog 2 h hk h2 (Or.inl rfl)
  · exact t_rAddW s k prog 3 h hk h3 (Or.inr rfl)

/-- a reader whose spin condition became false enters -/
theorem t_rSpinPass (s : State) (k : Nat) (prog : List Kind) (w : Nat) (h : Inv s) (hk : s.th[k]? = some ⟨.rSpin w, prog⟩)
    (h4 : ¬ (w = s.rin % 4)) : Inv (stepT 0 s k (.rSpin w) prog) := by
  have mv := moves s.th k _ ⟨.rFence, prog⟩ hk
  have hme := h.pt k _ hk
  obtain ⟨hsx, hc, hd1, hd2, hph, hpt, hu, hex⟩ := h
  simp only [stepT, setT, h4, if_false]
  simp only [Phase, H, Rent, n] at hsx hc hd1 hd2 hph
  simp only [PT, PTv] at hme
  rcases hme with rfl | rfl
  all_goals (
    mv20 mv
    refine ⟨?_, ?_, ?_, ?_, ?_, ?_, ?_, ?_⟩
    · simp only [n]; omega
    · simp only [n, H]; omega
    · exact hd1
    · simp only [n, Rent]; omega
    · phase_all hph
    · apply forall_set
      · trivial
      · intro i th hne hith
        have hpos := cnt_pos_other s.th k i ⟨.rFence, prog⟩ th hne hith
        by_cases hc2 : cls th.pc = .wS2
        · rw [hc2] at hpos
          refine PT_frame _ _ _ (hpt i th hith) rfl (Nat.le_refl _) ?_ ?_ ?_
          · simp only [H, n]; omega
          · intro hp; simp only [Q0, Rent, n]
            rcases hph with hA | hB | hC | hD <;> omega
          · intro hp; simp only [Q1, Rent, n]
            rcases hph with hA | hB | hC | hD <;> omega
        · refine PT_frame_noS2 _ _ _ (hpt i th hith) hc2 rfl (Nat.le_refl _) ?_
          simp only [H, n]; omega
    · exact u_frame _ _ _ (by intro t; simp) hu
    · refine ex_frame _ _ _ _ hk (by intro t; simp) _ _ _ _ ?_ (Nat.le_refl _) hex
      simp only [H, n]; omega)

theorem t_rSpin (s : State) (k : Nat) (prog : List Kind) (w : Nat) (h : Inv s) (hk : s.th[k]? = some ⟨.rSpin w, prog⟩) :
    Inv (stepT 0 s k (.rSpin w) prog) := by
  by_cases h4 : w = s.rin % 4
  · simp only [stepT, h4, if_true]; exact h
  · exact t_rSpinPass s k prog w h hk h4

end ParsecVerif.RwLock
