import ParsecVerif.Model.JdfLimits
/-!
Helper lemmas for C24: emptiness of the diagnostic / error lists, the two scans
(`parseReject`, `genReject`), the running indexes of `jdf_flatten_function`, and the relation
between what `jdf_assign_ldef_index` counts and what a dependency needs.
-/
namespace ParsecVerif.JdfLimits

/-! ### per-flow / per-function "nothing to report" predicates -/

def Flow.depsOk (L : Limits) (fl : Flow) : Prop := fl.depsIn ≤ L.maxDepIn ∧ fl.depsOut ≤ L.maxDepOut

/-- `jdf_sanity_check_flows_and_deps_number` prints nothing about `f`. -/
def Func.sane (L : Limits) (f : Func) : Prop :=
  (∀ fl ∈ f.flows, fl.depsOk L) ∧ f.readFlows ≤ L.maxParam ∧ f.writeFlows ≤ L.maxParam

/-- nothing in the C emitted for `f` stops the C compiler. -/
def Func.cleanC (L : Limits) (f : Func) : Prop :=
  f.flows.length ≤ L.maxParam ∧ f.flows.length ≤ L.maxLocal ∧ (∀ fl ∈ f.flows, fl.depsOk L) ∧
  f.readFlows ≤ L.maxParam ∧ f.writeFlows ≤ L.maxParam ∧ (f.nbMaxLocalDef = 0 → f.ldUsed = 0)

theorem flowDiags_nil (L : Limits) (fi k : Nat) (fl : Flow) :
    flowDiags L fi k fl = [] ↔ fl.depsOk L := by
  unfold flowDiags Flow.depsOk
  by_cases h1 : L.maxDepIn < fl.depsIn <;> by_cases h2 : L.maxDepOut < fl.depsOut <;> simp [h1, h2] <;> omega

theorem flowsDiags_nil (L : Limits) (fi : Nat) (fls : List Flow) (k : Nat) :
    flowsDiags L fi k fls = [] ↔ ∀ fl ∈ fls, fl.depsOk L := by
  induction fls generalizing k with
  | nil => simp [flowsDiags]
  | cons fl rest ih =>
    simp only [flowsDiags, List.append_eq_nil_iff, flowDiags_nil, ih, List.mem_cons, forall_eq_or_imp]

theorem funcDiags_nil (L : Limits) (fi : Nat) (f : Func) : funcDiags L fi f = [] ↔ f.sane L := by
  unfold funcDiags Func.sane
  simp only [List.append_eq_nil_iff, flowsDiags_nil]
  by_cases h1 : L.maxParam < f.readFlows <;> by_cases h2 : L.maxParam < f.writeFlows <;> simp [h1, h2] <;> omega

theorem progDiags_nil (L : Limits) (fs : List Func) (k : Nat) :
    progDiags L k fs = [] ↔ ∀ f ∈ fs, f.sane L := by
  induction fs generalizing k with
  | nil => simp [progDiags]
  | cons f rest ih =>
    simp only [progDiags, List.append_eq_nil_iff, funcDiags_nil, ih, List.mem_cons, forall_eq_or_imp]

theorem flowErrs_nil (L : Limits) (fi k : Nat) (fl : Flow) :
    flowErrs L fi k fl = [] ↔ fl.depsOk L := by
  unfold flowErrs Flow.depsOk
  by_cases h1 : L.maxDepIn < fl.depsIn <;> by_cases h2 : L.maxDepOut < fl.depsOut <;> simp [h1, h2] <;> omega

theorem flowsErrs_nil (L : Limits) (fi : Nat) (fls : List Flow) (k : Nat) :
    flowsErrs L fi k fls = [] ↔ ∀ fl ∈ fls, fl.depsOk L := by
  induction fls generalizing k with
  | nil => simp [flowsErrs]
  | cons fl rest ih =>
    simp only [flowsErrs, List.append_eq_nil_iff, flowErrs_nil, ih, List.mem_cons, forall_eq_or_imp]

theorem ite_singleton_nil {α : Type} (c : Prop) [Decidable c] (x : α) :
    (if c then [x] else []) = [] ↔ ¬ c := by
  by_cases h : c <;> simp [h]

theorem funcErrs_nil (L : Limits) (fi : Nat) (f : Func) : funcErrs L fi f = [] ↔ f.cleanC L := by
  unfold funcErrs Func.cleanC
  simp only [List.append_eq_nil_iff, flowsErrs_nil, ite_singleton_nil, Nat.not_lt, and_assoc]
  constructor
  · rintro ⟨h0, h0', h1, h2, h3, h4⟩
    exact ⟨h0, h0', h1, h2, h3, fun hz => by
      have : ¬ (0 < f.ldUsed) := fun hp => h4 ⟨hz, hp⟩
      omega⟩
  · rintro ⟨h0, h0', h1, h2, h3, h4⟩
    exact ⟨h0, h0', h1, h2, h3, fun ⟨hz, hp⟩ => by have := h4 hz; omega⟩

theorem progErrs_nil (L : Limits) (fs : List Func) (k : Nat) :
    progErrs L k fs = [] ↔ ∀ f ∈ fs, f.cleanC L := by
  induction fs generalizing k with
  | nil => simp [progErrs]
  | cons f rest ih =>
    simp only [progErrs, List.append_eq_nil_iff, funcErrs_nil, ih, List.mem_cons, forall_eq_or_imp]

/-! ### the two scans -/

theorem parseReject_none (fs : List Func) (k : Nat) :
    parseReject k fs = none ↔ ∀ f ∈ fs, f.flattenOk = true := by
  induction fs generalizing k with
  | nil => simp [parseReject]
  | cons f rest ih =>
    simp only [parseReject, List.mem_cons, forall_eq_or_imp]
    by_cases h : f.flattenOk = true
    · simp [h, ih]
    · simp [h]

theorem genRejectGo_none (L : Limits) (fs : List Func) (k : Nat) :
    genRejectGo L k fs = none ↔ ∀ f ∈ fs, f.nbLocals ≤ L.maxLocal := by
  induction fs generalizing k with
  | nil => simp [genRejectGo]
  | cons f rest ih =>
    simp only [genRejectGo, List.mem_cons, forall_eq_or_imp]
    cases hr : genRejectGo L (k + 1) rest with
    | some j =>
      simp only [reduceCtorEq, false_iff]
      intro ⟨_, h⟩
      have := (ih (k + 1)).mpr h
      simp [hr] at this
    | none =>
      have h2 := (ih (k + 1)).mp hr
      by_cases h : L.maxLocal < f.nbLocals
      · simp only [h, if_true, reduceCtorEq, false_iff]; intro ⟨h', _⟩; omega
      · simp only [h, if_false, true_iff]; exact ⟨by omega, h2⟩

/-! ### `jdf_flatten_function`: the running indexes -/

def sumIn (fls : List Flow) : Nat := (fls.map Flow.depsIn).sum
def sumOut (fls : List Flow) : Nat := (fls.map Flow.depsOut).sum

/-- If the loop accepts a non-empty list of flows, the test made after the last flow — on the
    totals — did not fire. -/
theorem flattenGo_final (fls : List Flow) (i o : Nat) (hne : fls ≠ [])
    (h : flattenGo i o fls = true) : maskReject (i + sumIn fls) (o + sumOut fls) = false := by
  induction fls generalizing i o with
  | nil => exact absurd rfl hne
  | cons fl rest ih =>
    simp only [flattenGo] at h
    by_cases hm : maskReject (i + fl.depsIn) (o + fl.depsOut) = true
    · simp [hm] at h
    · simp only [hm] at h
      by_cases hr : rest = []
      · subst hr
        simp only [sumIn, sumOut, List.map_cons, List.map_nil, List.sum_cons, List.sum_nil, Nat.add_zero]
        simpa using hm
      · have := ih (i + fl.depsIn) (o + fl.depsOut) hr h
        simp only [sumIn, sumOut, List.map_cons, List.sum_cons] at this ⊢
        rw [← Nat.add_assoc, ← Nat.add_assoc]; exact this

theorem maskReject_of_window (i o : Nat) (hi : i < 32) (ho : o < 32) (h : 29 ≤ i ∨ 24 ≤ o) :
    maskReject i o = true := by
  unfold maskReject
  rw [Nat.mod_eq_of_lt hi, Nat.mod_eq_of_lt ho]
  rcases h with h | h <;> simp [h]

/-! ### local definitions: counted vs needed -/

theorem Dep.ldForDeps_le (base : Nat) (d : Dep) : d.ldForDeps base ≤ base + d.ldNeed := by
  unfold Dep.ldForDeps Dep.ldNeed; omega

theorem Dep.ldForCalls_le (base : Nat) (d : Dep) : d.ldForCalls base ≤ base + d.ldNeed := by
  unfold Dep.ldForCalls Dep.ldForDeps Dep.ldNeed
  cases d.guard <;> simp <;> omega

theorem foldl_max_ge (l : List Nat) (a : Nat) : a ≤ l.foldl max a := by
  induction l generalizing a with
  | nil => simp
  | cons x xs ih => simp only [List.foldl_cons]; exact Nat.le_trans (Nat.le_max_left a x) (ih _)

theorem foldl_max_mono (l : List Nat) (a b : Nat) (h : a ≤ b) : l.foldl max a ≤ l.foldl max b := by
  induction l generalizing a b with
  | nil => simpa
  | cons x xs ih => simp only [List.foldl_cons]; apply ih; omega

/-- What `jdf_assign_ldef_index` computes never exceeds what the dependencies need. -/
theorem foldl_ldefStep_le (base : Nat) (ds : List Dep) (cur acc : Nat) (h : cur ≤ base + acc) :
    ds.foldl (ldefStep base) cur ≤ base + (ds.map Dep.ldNeed).foldl max acc := by
  induction ds generalizing cur acc with
  | nil => simpa
  | cons d rest ih =>
    simp only [List.foldl_cons, List.map_cons]
    apply ih
    unfold ldefStep
    have h1 := Dep.ldForDeps_le base d
    have h2 := Dep.ldForCalls_le base d
    omega

theorem Func.nbMaxLocalDef_le (f : Func) : f.nbMaxLocalDef ≤ f.ldNeed := by
  unfold Func.nbMaxLocalDef Func.ldNeed
  exact foldl_ldefStep_le f.ldLocals _ f.ldLocals 0 (by omega)

def Dep.noTernary (d : Dep) : Prop := d.guard ≠ Guard.ternary

theorem Dep.ldForCalls_eq (base : Nat) (d : Dep) (h : d.noTernary) :
    d.ldForCalls base = base + d.ldNeed := by
  unfold Dep.ldForCalls Dep.ldForDeps Dep.ldNeed
  unfold Dep.noTernary at h
  cases hg : d.guard <;> simp_all <;> omega

/-- Without ternary guards the count is exact. -/
theorem foldl_ldefStep_eq (base : Nat) (ds : List Dep) (hd : ∀ d ∈ ds, d.noTernary) (cur acc : Nat)
    (h : cur = base + acc) :
    ds.foldl (ldefStep base) cur = base + (ds.map Dep.ldNeed).foldl max acc := by
  induction ds generalizing cur acc with
  | nil => simpa
  | cons d rest ih =>
    simp only [List.foldl_cons, List.map_cons]
    apply ih (fun x hx => hd x (List.mem_cons_of_mem _ hx))
    unfold ldefStep
    have h1 := Dep.ldForDeps_le base d
    have h2 := Dep.ldForCalls_eq base d (hd d (List.mem_cons_self))
    omega

/-! ### dependencies counted vs entries of `dep_in[]` / `dep_out[]` -/

theorem length_le_sum_entries (ds : List Dep) : ds.length ≤ (ds.map Dep.entries).sum := by
  induction ds with
  | nil => simp
  | cons d rest ih =>
    simp only [List.length_cons, List.map_cons, List.sum_cons]
    have : 1 ≤ d.entries := by unfold Dep.entries; cases d.guard <;> simp
    omega

theorem length_eq_sum_entries (ds : List Dep) (h : ∀ d ∈ ds, d.noTernary) :
    ds.length = (ds.map Dep.entries).sum := by
  induction ds with
  | nil => simp
  | cons d rest ih =>
    simp only [List.length_cons, List.map_cons, List.sum_cons]
    have h1 : d.entries = 1 := by
      have := h d (List.mem_cons_self)
      unfold Dep.noTernary at this
      unfold Dep.entries; cases hg : d.guard <;> simp_all
    have := ih (fun x hx => h x (List.mem_cons_of_mem _ hx))
    omega

theorem Flow.depsIn_le (fl : Flow) : fl.depsIn ≤ fl.entriesIn := length_le_sum_entries _
theorem Flow.depsOut_le (fl : Flow) : fl.depsOut ≤ fl.entriesOut := length_le_sum_entries _

/-- The limits `jdf_sanity_check_flows_and_deps_number` and `jdf_generate_task_typedef` test
    (everything but the total number of flows). -/
def Func.exceedsChecked (L : Limits) (f : Func) : Prop :=
  L.maxLocal < f.nbLocals ∨ L.maxParam < f.readFlows ∨ L.maxParam < f.writeFlows ∨
  ∃ fl ∈ f.flows, L.maxDepIn < fl.depsIn ∨ L.maxDepOut < fl.depsOut

/-- no dependency of the program has a ternary guard -/
def Prog.noTernary (p : Prog) : Prop := ∀ f ∈ p.funcs, ∀ fl ∈ f.flows, ∀ d ∈ fl.deps, d.noTernary

end ParsecVerif.JdfLimits
