import ParsecVerif.Model.DepWord
import ParsecVerif.Base.Interleave
/-!
# Mask-mode dependency word: inductive invariant of `mstep` over all interleavings

`bits[t]` = flow index released by thread `t`, `im` = bits contributed by
`parsec_check_IN_dependencies_with_mask`, `g` = goal mask, `IN_DONE = 2^30`.

Every thread runs `parsec_update_deps_with_mask` once: a plain read of the word (deciding whether
the IN bits still have to be added), then one atomic fetch-or.  The invariant describes the word
bit by bit in terms of the set of threads that have performed their fetch-or.
-/
namespace ParsecVerif.DepWordMask
open ParsecVerif.DepWord ParsecVerif.Interleave

/-! ## Hypotheses on the masks -/

/-- What the code generator guarantees about a task class that uses masks (see `maskOK_of_flows`). -/
structure MaskOK (im g : Nat) (bits : List Nat) : Prop where
  /-- every input flow is released by exactly one predecessor -/
  nodup : bits.Nodup
  /-- somebody releases something (otherwise the task is a startup task and never gets here) -/
  ne : bits ≠ []
  /-- flow indices stay below the two reserved bits -/
  lt : ∀ b ∈ bits, b < 30
  /-- released flows are part of the goal … -/
  goal : ∀ b ∈ bits, g.testBit b = true
  /-- … and are not also satisfied locally -/
  notIn : ∀ b ∈ bits, im.testBit b = false
  /-- every goal bit is either satisfied locally or released by some predecessor -/
  cover : ∀ i, g.testBit i = true → im.testBit i = true ∨ i ∈ bits
  /-- the goal does not contain the IN_DONE marker -/
  g30 : g.testBit 30 = false

/-- Boolean form of `MaskOK`; the unbounded `cover` clause only needs to look below `log2 g + 1`. -/
def maskOKb (im g : Nat) (bits : List Nat) : Bool :=
  decide bits.Nodup && !bits.isEmpty &&
  bits.all (fun b => decide (b < 30) && g.testBit b && !im.testBit b) &&
  (List.range (g.log2 + 1)).all (fun i => !g.testBit i || im.testBit i || decide (i ∈ bits)) &&
  !g.testBit 30

theorem testBit_lt_log2 (g i : Nat) (h : g.testBit i = true) : i < g.log2 + 1 := by
  apply Classical.byContradiction
  intro hn
  have h1 : g < 2 ^ (g.log2 + 1) := Nat.lt_log2_self
  have h2 : 2 ^ (g.log2 + 1) ≤ 2 ^ i := Nat.pow_le_pow_right (by omega) (by omega)
  have := Nat.testBit_lt_two_pow (Nat.lt_of_lt_of_le h1 h2)
  rw [this] at h
  cases h

theorem maskOK_iff (im g : Nat) (bits : List Nat) : MaskOK im g bits ↔ maskOKb im g bits = true := by
  unfold maskOKb
  simp only [Bool.and_eq_true, Bool.or_eq_true, Bool.not_eq_true', decide_eq_true_eq, List.all_eq_true,
    List.mem_range, List.isEmpty_eq_false_iff]
  constructor
  · intro h
    refine ⟨⟨⟨⟨h.nodup, h.ne⟩, fun b hb => ⟨⟨h.lt b hb, h.goal b hb⟩, h.notIn b hb⟩⟩, fun i _ => ?_⟩, h.g30⟩
    cases hg : g.testBit i with
    | false => exact Or.inl (Or.inl rfl)
    | true =>
      rcases h.cover i hg with h1 | h1
      · exact Or.inl (Or.inr h1)
      · exact Or.inr h1
  · rintro ⟨⟨⟨⟨h1, h2⟩, h3⟩, h4⟩, h5⟩
    refine ⟨h1, h2, fun b hb => (h3 b hb).1.1, fun b hb => (h3 b hb).1.2, fun b hb => (h3 b hb).2, fun i hg => ?_, h5⟩
    rcases h4 i (testBit_lt_log2 g i hg) with (h6 | h6) | h6
    · rw [hg] at h6; cases h6
    · exact Or.inl h6
    · exact Or.inr h6

instance (im g : Nat) (bits : List Nat) : Decidable (MaskOK im g bits) :=
  decidable_of_iff _ (maskOK_iff im g bits).symm

/-! ## Bit-level facts -/

theorem and_eq_iff (w g : Nat) : w &&& g = g ↔ ∀ i, g.testBit i = true → w.testBit i = true := by
  constructor
  · intro h i hg
    have h2 : (w &&& g).testBit i = true := by rw [h]; exact hg
    rw [Nat.testBit_and, hg, Bool.and_true] at h2
    exact h2
  · intro h
    apply Nat.eq_of_testBit_eq
    intro i
    rw [Nat.testBit_and]
    cases hg : g.testBit i with
    | false => simp
    | true => simp [h i hg]

theorem and_IN_DONE_eq_zero (w : Nat) : w &&& IN_DONE = 0 ↔ w.testBit 30 = false := by
  unfold IN_DONE
  constructor
  · intro h
    have h2 : (w &&& 2 ^ 30).testBit 30 = false := by rw [h]; exact Nat.zero_testBit 30
    rw [Nat.testBit_and, Nat.testBit_two_pow_self, Bool.and_true] at h2
    exact h2
  · intro h
    apply Nat.eq_of_testBit_eq
    intro i
    rw [Nat.testBit_and, Nat.testBit_two_pow, Nat.zero_testBit]
    by_cases hi : 30 = i
    · subst hi; simp [h]
    · simp [hi]

theorem testBit_orr_full (b im i : Nat) :
    (IN_DONE ||| 2 ^ b ||| im).testBit i = true ↔ i = 30 ∨ i = b ∨ im.testBit i = true := by
  simp only [IN_DONE, Nat.testBit_or, Nat.testBit_two_pow, Bool.or_eq_true, decide_eq_true_eq]
  constructor
  · rintro ((h | h) | h)
    · exact Or.inl h.symm
    · exact Or.inr (Or.inl h.symm)
    · exact Or.inr (Or.inr h)
  · rintro (h | h | h)
    · exact Or.inl (Or.inl h.symm)
    · exact Or.inl (Or.inr h.symm)
    · exact Or.inr h

theorem testBit_orr_short (b i : Nat) : (IN_DONE ||| 2 ^ b).testBit i = true ↔ i = 30 ∨ i = b := by
  simp only [IN_DONE, Nat.testBit_or, Nat.testBit_two_pow, Bool.or_eq_true, decide_eq_true_eq]
  constructor
  · rintro (h | h)
    · exact Or.inl h.symm
    · exact Or.inr h.symm
  · rintro (h | h)
    · exact Or.inl h.symm
    · exact Or.inr h.symm

/-! ## The machine, case by case -/

/-- thread `u` has performed its fetch-or -/
def Dn (pcs : List MPc) (u : Nat) : Prop := ∃ r, pcs[u]? = some (.done r)

theorem mstep_start {im g : Nat} {bits : List Nat} {s : MState} {t b : Nat}
    (h1 : s.pcs[t]? = some .start) (h2 : bits[t]? = some b) :
    mstep im g bits s t =
      { s with pcs := s.pcs.set t (.orr (if s.w &&& IN_DONE = 0 then IN_DONE ||| 2 ^ b ||| im else IN_DONE ||| 2 ^ b)) } := by
  unfold mstep
  rw [h1, h2]

theorem mstep_orr {im g : Nat} {bits : List Nat} {s : MState} {t v : Nat} (h1 : s.pcs[t]? = some (.orr v)) :
    mstep im g bits s t = { w := s.w ||| v, pcs := s.pcs.set t (.done (decide ((s.w ||| v) &&& g = g))) } := by
  unfold mstep
  rw [h1]

theorem mstep_cases (im g : Nat) (bits : List Nat) (s : MState) (t : Nat) :
    (∃ b, s.pcs[t]? = some .start ∧ bits[t]? = some b) ∨ (∃ v, s.pcs[t]? = some (.orr v)) ∨
    mstep im g bits s t = s := by
  cases h1 : s.pcs[t]? with
  | none => right; right; unfold mstep; rw [h1]
  | some pc =>
    cases pc with
    | start =>
      cases h2 : bits[t]? with
      | none => right; right; unfold mstep; rw [h1, h2]
      | some b => exact Or.inl ⟨b, rfl, rfl⟩
    | orr v => exact Or.inr (Or.inl ⟨v, rfl⟩)
    | done r => right; right; unfold mstep; rw [h1]

theorem dn_set_orr (pcs : List MPc) (t u v : Nat) (hnd : ¬ Dn pcs t) : Dn (pcs.set t (.orr v)) u ↔ Dn pcs u := by
  unfold Dn
  rw [List.getElem?_set]
  by_cases htu : t = u
  · subst htu
    rw [if_pos rfl]
    constructor
    · rintro ⟨r, hr⟩
      split at hr <;> cases hr
    · intro h; exact absurd h hnd
  · rw [if_neg htu]

theorem dn_set_done (pcs : List MPc) (t u : Nat) (r : Bool) (hi : t < pcs.length) :
    Dn (pcs.set t (.done r)) u ↔ Dn pcs u ∨ u = t := by
  unfold Dn
  rw [List.getElem?_set]
  by_cases htu : t = u
  · subst htu
    rw [if_pos rfl, if_pos hi]
    exact ⟨fun _ => Or.inr rfl, fun _ => ⟨r, rfl⟩⟩
  · rw [if_neg htu]
    exact ⟨Or.inl, fun h => h.elim id (fun h => absurd h.symm htu)⟩

/-! ## The invariant -/

structure MInv (im g : Nat) (bits : List Nat) (s : MState) : Prop where
  len : s.pcs.length = bits.length
  /-- the word, bit by bit: IN_DONE and the IN bits as soon as one fetch-or happened, plus the bit
      of every thread whose fetch-or happened -/
  word : ∀ i : Nat, s.w.testBit i = true ↔
      ((∃ u, Dn s.pcs u) ∧ (i = 30 ∨ im.testBit i = true)) ∨ (∃ u, Dn s.pcs u ∧ bits[u]? = some i)
  /-- a pending fetch-or carries IN_DONE, its own bit and the IN bits — or omits the IN bits, but
      then only because it saw IN_DONE, i.e. some fetch-or has already happened -/
  pend : ∀ (t v : Nat), s.pcs[t]? = some (MPc.orr v) → ∃ b : Nat, bits[t]? = some b ∧
      (v = IN_DONE ||| 2 ^ b ||| im ∨ (v = IN_DONE ||| 2 ^ b ∧ ∃ u, Dn s.pcs u))
  /-- "ready" was reported once if everybody is done and never otherwise -/
  ready : ((∀ u, u < s.pcs.length → Dn s.pcs u) ∧ s.pcs.count (.done true) = 1) ∨
          ((∃ u, u < s.pcs.length ∧ ¬ Dn s.pcs u) ∧ s.pcs.count (.done true) = 0)

theorem not_dn_replicate (n u : Nat) : ¬ Dn (List.replicate n MPc.start) u := by
  rintro ⟨r, hr⟩
  rw [List.getElem?_replicate] at hr
  split at hr <;> cases hr

theorem minv_init (im g : Nat) (bits : List Nat) (hne : bits ≠ []) : MInv im g bits (minit bits.length) := by
  have hpos : 0 < bits.length := List.length_pos_iff.2 hne
  refine ⟨by simp [minit], fun i => ?_, fun t v h => ?_, Or.inr ⟨⟨0, by simpa [minit] using hpos, not_dn_replicate _ _⟩, ?_⟩⟩
  · simp only [minit, Nat.zero_testBit]
    constructor
    · intro h; cases h
    · rintro (⟨⟨u, hu⟩, _⟩ | ⟨u, hu, _⟩) <;> exact absurd hu (not_dn_replicate _ _)
  · simp only [minit, List.getElem?_replicate] at h
    split at h <;> cases h
  · simp [minit, List.count_replicate]

/-- bits of a pending fetch-or value -/
theorem pend_bits {im : Nat} {s : MState} {v b : Nat}
    (hv : v = IN_DONE ||| 2 ^ b ||| im ∨ (v = IN_DONE ||| 2 ^ b ∧ ∃ u, Dn s.pcs u)) :
    (∀ i, v.testBit i = true → i = 30 ∨ i = b ∨ im.testBit i = true) ∧ v.testBit 30 = true ∧ v.testBit b = true ∧
    ((∃ u, Dn s.pcs u) ∨ ∀ i, im.testBit i = true → v.testBit i = true) := by
  rcases hv with hv | ⟨hv, hd⟩
  · subst hv
    exact ⟨fun i h => (testBit_orr_full b im i).1 h, (testBit_orr_full b im 30).2 (Or.inl rfl),
      (testBit_orr_full b im b).2 (Or.inr (Or.inl rfl)), Or.inr fun i h => (testBit_orr_full b im i).2 (Or.inr (Or.inr h))⟩
  · subst hv
    refine ⟨fun i h => ?_, (testBit_orr_short b 30).2 (Or.inl rfl), (testBit_orr_short b b).2 (Or.inr rfl), Or.inl hd⟩
    rcases (testBit_orr_short b i).1 h with h | h
    · exact Or.inl h
    · exact Or.inr (Or.inl h)

theorem minv_step_start {im g : Nat} {bits : List Nat} {s : MState} {t b : Nat}
    (h : MInv im g bits s) (hpc : s.pcs[t]? = some .start) (hb : bits[t]? = some b) :
    MInv im g bits (mstep im g bits s t) := by
  rw [mstep_start hpc hb]
  obtain ⟨hi, hx⟩ := List.getElem?_eq_some_iff.1 hpc
  have hnd : ¬ Dn s.pcs t := by
    rintro ⟨r, hr⟩; rw [hpc] at hr; cases hr
  generalize hv : (if s.w &&& IN_DONE = 0 then IN_DONE ||| 2 ^ b ||| im else IN_DONE ||| 2 ^ b) = v
  have hdn : ∀ u, Dn (s.pcs.set t (.orr v)) u ↔ Dn s.pcs u := fun u => dn_set_orr s.pcs t u v hnd
  have hex : (∃ u, Dn (s.pcs.set t (.orr v)) u) ↔ ∃ u, Dn s.pcs u :=
    ⟨fun ⟨u, hu⟩ => ⟨u, (hdn u).1 hu⟩, fun ⟨u, hu⟩ => ⟨u, (hdn u).2 hu⟩⟩
  refine ⟨by simp [h.len], fun i => ?_, fun t' v' h' => ?_, ?_⟩
  · show s.w.testBit i = true ↔ _
    rw [h.word i, hex]
    constructor
    · rintro (h1 | ⟨u, hu, h2⟩)
      · exact Or.inl h1
      · exact Or.inr ⟨u, (hdn u).2 hu, h2⟩
    · rintro (h1 | ⟨u, hu, h2⟩)
      · exact Or.inl h1
      · exact Or.inr ⟨u, (hdn u).1 hu, h2⟩
  · show ∃ b', bits[t']? = some b' ∧ (v' = IN_DONE ||| 2 ^ b' ||| im ∨ (v' = IN_DONE ||| 2 ^ b' ∧ ∃ u, Dn (s.pcs.set t (.orr v)) u))
    rw [hex]
    have h'' : (s.pcs.set t (.orr v))[t']? = some (.orr v') := h'
    rw [List.getElem?_set] at h''
    by_cases htt : t = t'
    · subst htt
      rw [if_pos rfl, if_pos hi] at h''
      have hvv : v = v' := by injection h'' with h3; injection h3
      subst hvv
      refine ⟨b, hb, ?_⟩
      by_cases hw : s.w &&& IN_DONE = 0
      · rw [if_pos hw] at hv; exact Or.inl hv.symm
      · rw [if_neg hw] at hv
        refine Or.inr ⟨hv.symm, ?_⟩
        have h30 : s.w.testBit 30 = true := by
          cases h4 : s.w.testBit 30 with
          | true => rfl
          | false => exact absurd ((and_IN_DONE_eq_zero s.w).2 h4) hw
        rcases (h.word 30).1 h30 with ⟨hd, _⟩ | ⟨u, hu, h5⟩
        · exact hd
        · exact ⟨u, hu⟩
    · rw [if_neg htt] at h''
      exact h.pend t' v' h''
  · show ((∀ u, u < (s.pcs.set t (.orr v)).length → Dn (s.pcs.set t (.orr v)) u) ∧ (s.pcs.set t (.orr v)).count (.done true) = 1) ∨
         ((∃ u, u < (s.pcs.set t (.orr v)).length ∧ ¬ Dn (s.pcs.set t (.orr v)) u) ∧ (s.pcs.set t (.orr v)).count (.done true) = 0)
    have m := count_set_move s.pcs t (.orr v) hi (.done true)
    rw [hx] at m
    simp at m
    rcases h.ready with ⟨h1, _⟩ | ⟨_, h2⟩
    · exact absurd (h1 t hi) hnd
    · refine Or.inr ⟨⟨t, by simpa using hi, fun hd => hnd ((hdn t).1 hd)⟩, ?_⟩
      omega

theorem minv_step_orr {im g : Nat} {bits : List Nat} (ok : MaskOK im g bits) {s : MState} {t v : Nat}
    (h : MInv im g bits s) (hpc : s.pcs[t]? = some (.orr v)) :
    MInv im g bits (mstep im g bits s t) := by
  rw [mstep_orr hpc]
  obtain ⟨hi, hx⟩ := List.getElem?_eq_some_iff.1 hpc
  have hnd : ¬ Dn s.pcs t := by
    rintro ⟨r, hr⟩; rw [hpc] at hr; cases hr
  obtain ⟨b, hb, hv⟩ := h.pend t v hpc
  obtain ⟨hv1, hv30, hvb, hvim⟩ := pend_bits hv
  generalize hr : decide ((s.w ||| v) &&& g = g) = r
  have hdn : ∀ u, Dn (s.pcs.set t (.done r)) u ↔ Dn s.pcs u ∨ u = t := fun u => dn_set_done s.pcs t u r hi
  have hex : ∃ u, Dn (s.pcs.set t (.done r)) u := ⟨t, (hdn t).2 (Or.inr rfl)⟩
  -- the new word
  have hword : ∀ i, (s.w ||| v).testBit i = true ↔
      ((∃ u, Dn (s.pcs.set t (.done r)) u) ∧ (i = 30 ∨ im.testBit i = true)) ∨
      (∃ u, Dn (s.pcs.set t (.done r)) u ∧ bits[u]? = some i) := by
    intro i
    rw [Nat.testBit_or, Bool.or_eq_true, h.word i]
    constructor
    · rintro ((⟨_, h1⟩ | ⟨u, hu, h1⟩) | h1)
      · exact Or.inl ⟨hex, h1⟩
      · exact Or.inr ⟨u, (hdn u).2 (Or.inl hu), h1⟩
      · rcases hv1 i h1 with h2 | h2 | h2
        · exact Or.inl ⟨hex, Or.inl h2⟩
        · subst h2; exact Or.inr ⟨t, (hdn t).2 (Or.inr rfl), hb⟩
        · exact Or.inl ⟨hex, Or.inr h2⟩
    · rintro (⟨_, h1 | h1⟩ | ⟨u, hu, h1⟩)
      · subst h1; exact Or.inr hv30
      · rcases hvim with hd | hall
        · exact Or.inl (Or.inl ⟨hd, Or.inr h1⟩)
        · exact Or.inr (hall i h1)
      · rcases (hdn u).1 hu with hu | hu
        · exact Or.inl (Or.inr ⟨u, hu, h1⟩)
        · subst hu
          rw [hb] at h1
          injection h1 with h1
          subst h1
          exact Or.inr hvb
  -- "ready" is reported iff this was the last fetch-or
  have hready : r = true ↔ ∀ u, u < s.pcs.length → Dn (s.pcs.set t (.done r)) u := by
    have hrd : r = true ↔ (s.w ||| v) &&& g = g := by rw [← hr, decide_eq_true_eq]
    rw [hrd, and_eq_iff]
    constructor
    · intro hall u hu
      rw [h.len] at hu
      have hbu : bits[u]? = some bits[u] := List.getElem?_eq_getElem hu
      have hmem : bits[u] ∈ bits := List.getElem_mem hu
      rcases (hword bits[u]).1 (hall _ (ok.goal _ hmem)) with ⟨_, h1 | h1⟩ | ⟨u', hu', h1⟩
      · have := ok.lt _ hmem; omega
      · rw [ok.notIn _ hmem] at h1; cases h1
      · have : u = u' := (List.getElem?_inj hu ok.nodup).1 (hbu.trans h1.symm)
        subst this
        exact hu'
    · intro hall i hg
      rcases ok.cover i hg with h1 | h1
      · exact (hword i).2 (Or.inl ⟨hex, Or.inr h1⟩)
      · obtain ⟨u, hu⟩ := List.mem_iff_getElem?.1 h1
        have hlt : u < s.pcs.length := by
          rw [h.len]; exact (List.getElem?_eq_some_iff.1 hu).1
        exact (hword i).2 (Or.inr ⟨u, hall u hlt, hu⟩)
  refine ⟨by simp [h.len], hword, fun t' v' h' => ?_, ?_⟩
  · show ∃ b', bits[t']? = some b' ∧ (v' = IN_DONE ||| 2 ^ b' ||| im ∨ (v' = IN_DONE ||| 2 ^ b' ∧ ∃ u, Dn (s.pcs.set t (.done r)) u))
    have h'' : (s.pcs.set t (.done r))[t']? = some (.orr v') := h'
    rw [List.getElem?_set] at h''
    by_cases htt : t = t'
    · subst htt
      rw [if_pos rfl, if_pos hi] at h''
      injection h'' with h3
      cases h3
    · rw [if_neg htt] at h''
      obtain ⟨b', hb', hv'⟩ := h.pend t' v' h''
      refine ⟨b', hb', ?_⟩
      rcases hv' with hv' | ⟨hv', _⟩
      · exact Or.inl hv'
      · exact Or.inr ⟨hv', hex⟩
  · show ((∀ u, u < (s.pcs.set t (.done r)).length → Dn (s.pcs.set t (.done r)) u) ∧ (s.pcs.set t (.done r)).count (.done true) = 1) ∨
         ((∃ u, u < (s.pcs.set t (.done r)).length ∧ ¬ Dn (s.pcs.set t (.done r)) u) ∧ (s.pcs.set t (.done r)).count (.done true) = 0)
    have m := count_set_move s.pcs t (.done r) hi (.done true)
    rw [hx] at m
    rw [List.length_set]
    rcases h.ready with ⟨h1, _⟩ | ⟨_, h2⟩
    · exact absurd (h1 t hi) hnd
    · cases r with
      | true =>
        simp at m
        exact Or.inl ⟨hready.1 rfl, by omega⟩
      | false =>
        simp at m
        refine Or.inr ⟨?_, by omega⟩
        apply Classical.byContradiction
        intro hno
        have : false = true := hready.2 fun u hu => Classical.byContradiction fun hd => hno ⟨u, hu, hd⟩
        cases this

theorem minv_step {im g : Nat} {bits : List Nat} (ok : MaskOK im g bits) (s : MState) (t : Nat)
    (h : MInv im g bits s) : MInv im g bits (mstep im g bits s t) := by
  rcases mstep_cases im g bits s t with ⟨b, h1, h2⟩ | ⟨v, h1⟩ | h1
  · exact minv_step_start h h1 h2
  · exact minv_step_orr ok h h1
  · rw [h1]; exact h

theorem minv_run {im g : Nat} {bits : List Nat} (ok : MaskOK im g bits) (sched : List Nat) :
    MInv im g bits (mrun im g bits sched) := by
  unfold mrun
  generalize hs : minit bits.length = s
  have h : MInv im g bits s := hs ▸ minv_init im g bits ok.ne
  clear hs
  induction sched generalizing s with
  | nil => exact h
  | cons t ts ih => exact ih _ (minv_step ok s t h)

/-! ## What the generator produces satisfies `MaskOK` -/

theorem mem_indexed {α} (l : List α) (p : Nat × α) : p ∈ indexed l ↔ l[p.1]? = some p.2 := by
  unfold indexed
  rw [List.mem_iff_getElem?]
  constructor
  · rintro ⟨i, hi⟩
    obtain ⟨h1, h2⟩ := List.getElem?_zip_eq_some.1 hi
    have hlt : i < l.length := (List.getElem?_eq_some_iff.1 h2).1
    rw [List.getElem?_range hlt] at h1
    injection h1 with h1
    rw [← h1]; exact h2
  · intro h
    have hlt : p.1 < l.length := (List.getElem?_eq_some_iff.1 h).1
    exact ⟨p.1, List.getElem?_zip_eq_some.2 ⟨List.getElem?_range hlt, h⟩⟩

theorem rel_in_disjoint (k : FlowKind) (h : isRel k = true) : isIn k = false := by
  cases k with
  | dataDeps d =>
    simp only [isRel, isIn, beq_iff_eq] at h ⊢
    rw [h]; simp
  | ctlDeps d =>
    simp only [isRel, isIn] at h ⊢
    rw [h]; rfl
  | _ => simp_all [isRel, isIn]

theorem mem_releaseBits (flows : List FlowKind) (i : Nat) :
    i ∈ releaseBits flows ↔ ∃ k, flows[i]? = some k ∧ isRel k = true := by
  unfold releaseBits
  rw [List.mem_filterMap]
  constructor
  · rintro ⟨⟨j, k⟩, hm, hf⟩
    have := (mem_indexed flows (j, k)).1 hm
    by_cases hr : isRel k = true
    · simp only [hr, if_true, Option.some.injEq] at hf
      subst hf; exact ⟨_, this, hr⟩
    · simp [hr] at hf
  · rintro ⟨k, hk, hr⟩
    exact ⟨(i, k), (mem_indexed flows (i, k)).2 hk, by simp [hr]⟩

theorem testBit_foldl_or (L : List Nat) (a i : Nat) :
    (L.foldl (· ||| ·) a).testBit i = true ↔ a.testBit i = true ∨ ∃ x ∈ L, x.testBit i = true := by
  induction L generalizing a with
  | nil => simp
  | cons x xs ih =>
    rw [List.foldl_cons, ih, Nat.testBit_or, Bool.or_eq_true]
    constructor
    · rintro ((h | h) | ⟨y, hy, h⟩)
      · exact Or.inl h
      · exact Or.inr ⟨x, List.mem_cons_self, h⟩
      · exact Or.inr ⟨y, List.mem_cons_of_mem _ hy, h⟩
    · rintro (h | ⟨y, hy, h⟩)
      · exact Or.inl (Or.inl h)
      · rcases List.mem_cons.1 hy with hy | hy
        · subst hy; exact Or.inl (Or.inr h)
        · exact Or.inr ⟨y, hy, h⟩

theorem testBit_inBitOf (j : Nat) (k : FlowKind) (i : Nat) :
    (inBitOf j k).testBit i = true ↔ j = i ∧ isIn k = true := by
  unfold inBitOf
  by_cases h : isIn k = true
  · simp [h, Nat.testBit_two_pow]
  · simp [h]

theorem testBit_inMask (flows : List FlowKind) (i : Nat) :
    (inMask flows).testBit i = true ↔ ∃ k, flows[i]? = some k ∧ isIn k = true := by
  unfold inMask
  rw [testBit_foldl_or]
  simp only [Nat.zero_testBit, Bool.false_eq_true, false_or, List.mem_map]
  constructor
  · rintro ⟨x, ⟨⟨j, k⟩, hm, rfl⟩, hx⟩
    obtain ⟨h1, h2⟩ := (testBit_inBitOf j k i).1 hx
    have h3 : flows[j]? = some k := (mem_indexed flows (j, k)).1 hm
    subst h1
    exact ⟨k, h3, h2⟩
  · rintro ⟨k, hk, hin⟩
    exact ⟨_, ⟨(i, k), (mem_indexed flows (i, k)).2 hk, rfl⟩, (testBit_inBitOf i k i).2 ⟨rfl, hin⟩⟩

theorem nodup_releaseBits (flows : List FlowKind) : (releaseBits flows).Nodup := by
  unfold releaseBits
  rw [List.nodup_iff_pairwise_ne]
  have hp : List.Pairwise (fun p q : Nat × FlowKind => p.1 ≠ q.1) (indexed flows) := by
    have h1 : List.Pairwise (fun a b : Nat => a ≠ b) ((indexed flows).map Prod.fst) := by
      unfold indexed
      rw [List.map_fst_zip (by simp)]
      exact List.nodup_iff_pairwise_ne.1 List.nodup_range
    exact List.pairwise_map.1 h1
  refine List.Pairwise.filterMap _ ?_ hp
  intro p q hpq b hb b' hb'
  have e1 : b = p.1 := by
    by_cases hr : isRel p.2 = true
    · simp only [hr, if_true, Option.some.injEq] at hb; exact hb.symm
    · simp [hr] at hb
  have e2 : b' = q.1 := by
    by_cases hr : isRel q.2 = true
    · simp only [hr, if_true, Option.some.injEq] at hb'; exact hb'.symm
    · simp [hr] at hb'
  rw [e1, e2]; exact hpq

/-- **The generator's masks satisfy `MaskOK`.**  For every flow list of at most 30 flows with at
    least one flow waiting for a predecessor: `inMask`, `goalMask` and `releaseBits` satisfy the
    hypotheses of the mask-mode theorem.  (Classes with a control gather `.ctl k` use counters, not
    masks; for the others one thread per entry of `releaseBits` is exactly the set of releases.) -/
theorem maskOK_of_flows (flows : List FlowKind) (hlen : flows.length ≤ 30) (hne : releaseBits flows ≠ [])
    (hwf : ∀ k ∈ flows, flowWF k = true) :
    MaskOK (inMask flows) (goalMask flows) (releaseBits flows) := by
  have hlt : ∀ i k, flows[i]? = some k → i < flows.length := fun i k h => (List.getElem?_eq_some_iff.1 h).1
  refine ⟨nodup_releaseBits flows, hne, fun b hb => ?_, fun b hb => ?_, fun b hb => ?_, fun i hg => ?_, ?_⟩
  · obtain ⟨k, hk, _⟩ := (mem_releaseBits flows b).1 hb
    have := hlt b k hk; omega
  · obtain ⟨k, hk, _⟩ := (mem_releaseBits flows b).1 hb
    unfold goalMask
    rw [Nat.testBit_two_pow_sub_one]
    simpa using hlt b k hk
  · obtain ⟨k, hk, hr⟩ := (mem_releaseBits flows b).1 hb
    cases hm : (inMask flows).testBit b with
    | false => rfl
    | true =>
      obtain ⟨k', hk', hin⟩ := (testBit_inMask flows b).1 hm
      rw [hk] at hk'
      injection hk' with hk'
      subst hk'
      rw [rel_in_disjoint k hr] at hin; exact absurd hin (by simp)
  · unfold goalMask at hg
    rw [Nat.testBit_two_pow_sub_one] at hg
    have hi : i < flows.length := by simpa using hg
    have hk : flows[i]? = some flows[i] := List.getElem?_eq_getElem hi
    cases hrel : isRel flows[i] with
    | true => exact Or.inr ((mem_releaseBits flows i).2 ⟨_, hk, hrel⟩)
    | false =>
      refine Or.inl ((testBit_inMask flows i).2 ⟨_, hk, ?_⟩)
      have := hwf flows[i] (List.getElem_mem hi)
      simp only [flowWF, Bool.or_eq_true] at this
      rcases this with h | h
      · rw [hrel] at h; exact absurd h (by simp)
      · exact h
  · unfold goalMask
    rw [Nat.testBit_two_pow_sub_one]
    simp; omega

end ParsecVerif.DepWordMask
