import ParsecVerif.Model.Argv
/-! Helper lemmas for C39 (argv utilities): the specification functions `fields` / `sjoin` and the
    correspondence of the code-shaped model functions with them. -/
namespace ParsecVerif.Argv

/-- specification: the fields of `s` separated by `d` (empty fields kept; never the empty list) -/
def fields (d : Nat) : Str → List Str
  | [] => [[]]
  | c :: t => if c = d then [] :: fields d t else (c :: (fields d t).headD []) :: (fields d t).tail
/-- specification: the strings of `l` with one `d` between neighbours -/
def sjoin (d : Nat) : List Str → Str
  | [] => []
  | [x] => x
  | x :: y :: r => x ++ d :: sjoin d (y :: r)
theorem fields_ne_nil (d : Nat) (s : Str) : fields d s ≠ [] := by
  cases s with
  | nil => simp [fields]
  | cons c t => simp only [fields]; split <;> simp
theorem sjoin_cons (d : Nat) (x : Str) (l : List Str) (h : l ≠ []) :
    sjoin d (x :: l) = x ++ d :: sjoin d l := by
  cases l with
  | nil => exact absurd rfl h
  | cons y r => rfl

theorem sjoin_fields (d : Nat) (s : Str) : sjoin d (fields d s) = s := by
  induction s with
  | nil => rfl
  | cons c t ih =>
    simp only [fields]
    split
    · rename_i h
      rw [sjoin_cons _ _ _ (fields_ne_nil d t), ih, h]; rfl
    · cases hf : fields d t with
      | nil => exact absurd hf (fields_ne_nil d t)
      | cons f fs =>
        rw [hf] at ih
        simp only [List.headD_cons, List.tail_cons]
        cases fs with
        | nil => simp only [sjoin] at ih ⊢; rw [ih]
        | cons g gs => simp only [sjoin] at ih ⊢; rw [← ih]; rfl

theorem fields_no_delim (d : Nat) (s : Str) : ∀ f ∈ fields d s, d ∉ f := by
  induction s with
  | nil => simp [fields]
  | cons c t ih =>
    intro f hf
    simp only [fields] at hf
    split at hf
    · rcases List.mem_cons.1 hf with rfl | h
      · simp
      · exact ih f h
    · rename_i hc
      cases hft : fields d t with
      | nil => exact absurd hft (fields_ne_nil d t)
      | cons g gs =>
        rw [hft] at hf ih
        simp only [List.headD_cons, List.tail_cons] at hf
        rcases List.mem_cons.1 hf with rfl | h
        · intro hm
          rcases List.mem_cons.1 hm with h1 | h1
          · exact hc h1.symm
          · exact ih g (List.mem_cons_self) h1
        · exact ih f (List.mem_cons_of_mem _ h)
theorem fields_nodelim (d : Nat) (x : Str) (h : d ∉ x) : fields d x = [x] := by
  induction x with
  | nil => rfl
  | cons c t ih =>
    have hc : c ≠ d := fun e => h (by simp [e])
    have ht : d ∉ t := fun e => h (List.mem_cons_of_mem _ e)
    simp [fields, hc, ih ht]

theorem fields_append_delim (d : Nat) (x s : Str) (h : d ∉ x) :
    fields d (x ++ d :: s) = x :: fields d s := by
  induction x with
  | nil => simp [fields]
  | cons c t ih =>
    have hc : c ≠ d := fun e => h (by simp [e])
    have ht : d ∉ t := fun e => h (List.mem_cons_of_mem _ e)
    simp [fields, hc, ih ht]

theorem fields_sjoin (d : Nat) (v : List Str) (hv : v ≠ []) (h : ∀ f ∈ v, d ∉ f) :
    fields d (sjoin d v) = v := by
  induction v with
  | nil => exact absurd rfl hv
  | cons x l ih =>
    cases l with
    | nil => exact fields_nodelim d x (h x (by simp))
    | cons y r =>
      rw [sjoin_cons _ _ _ (by simp), fields_append_delim _ _ _ (h x (by simp)),
        ih (by simp) (fun f hf => h f (List.mem_cons_of_mem _ hf))]

theorem scan_append (d : Nat) (s : Str) : scanTok d s ++ scanRest d s = s := by
  unfold scanTok scanRest; exact List.takeWhile_append_dropWhile

theorem scanTok_no_delim (d : Nat) (s : Str) : d ∉ scanTok d s := by
  unfold scanTok
  induction s with
  | nil => simp
  | cons c t ih =>
    simp only [List.takeWhile_cons]
    split
    · rename_i h
      intro hm
      rcases List.mem_cons.1 hm with e | e
      · simp [e] at h
      · exact ih e
    · simp

theorem scanRest_head (d : Nat) (s : Str) (h : scanRest d s ≠ []) :
    scanRest d s = d :: (scanRest d s).tail := by
  unfold scanRest at *
  induction s with
  | nil => simp at h
  | cons c t ih =>
    simp only [List.dropWhile_cons] at h ⊢
    split
    · rename_i hc; simp only [hc, if_true] at h; exact ih h
    · rename_i hc
      have : c = d := by simpa using hc
      simp [this]

theorem fields_scan (d : Nat) (s : Str) :
    fields d s = if scanRest d s = [] then [scanTok d s]
                 else scanTok d s :: fields d (scanRest d s).tail := by
  split
  · rename_i h
    have := scan_append d s
    rw [h, List.append_nil] at this
    rw [this]; rw [← this]; exact fields_nodelim d _ (scanTok_no_delim d s)
  · rename_i h
    have h1 := scan_append d s
    rw [scanRest_head d s h] at h1
    conv => lhs; rw [← h1]
    exact fields_append_delim d _ _ (scanTok_no_delim d s)
/-- the list without its last element when that element is the empty string -/
def dropLastEmpty : List Str → List Str
  | [] => []
  | [x] => if x = [] then [] else [x]
  | x :: y :: r => x :: dropLastEmpty (y :: r)

theorem dropLastEmpty_cons (x : Str) (l : List Str) (h : l ≠ []) :
    dropLastEmpty (x :: l) = x :: dropLastEmpty l := by
  cases l with
  | nil => exact absurd rfl h
  | cons y r => rfl

theorem scanTok_eq_of_rest_nil (d : Nat) (s : Str) (h : scanRest d s = []) : scanTok d s = s := by
  have := scan_append d s; rw [h, List.append_nil] at this; exact this

theorem splitInter_false (d : Nat) (s : Str) :
    splitInter false d s = (fields d s).filter (· ≠ []) := by
  induction s using splitInter.induct (d := d) with
  | case1 => simp [splitInter, fields]
  | case2 c t h ih =>
    rw [splitInter, if_pos h, ih, fields_scan d (c :: t)]
    have hr : scanRest d (c :: t) ≠ [] := by
      intro hr; have := scanTok_eq_of_rest_nil d _ hr; rw [h] at this; simp at this
    simp [hr, h]
  | case3 c t h hr =>
    rw [splitInter, if_neg h, if_pos hr, fields_scan d (c :: t), if_pos hr, scanTok_eq_of_rest_nil d _ hr]
    simp
  | case4 c t h hr ih =>
    rw [splitInter, if_neg h, if_neg hr, ih, fields_scan d (c :: t), if_neg hr]
    simp [h]

theorem splitInter_true (d : Nat) (s : Str) :
    splitInter true d s = dropLastEmpty (fields d s) := by
  induction s using splitInter.induct (d := d) with
  | case1 => simp [splitInter, fields, dropLastEmpty]
  | case2 c t h ih =>
    have hr : scanRest d (c :: t) ≠ [] := by
      intro hr; have := scanTok_eq_of_rest_nil d _ hr; rw [h] at this; simp at this
    rw [splitInter, if_pos h, ih, fields_scan d (c :: t), if_neg hr, h, dropLastEmpty_cons _ _ (fields_ne_nil _ _)]
    simp
  | case3 c t h hr =>
    rw [splitInter, if_neg h, if_pos hr, fields_scan d (c :: t), if_pos hr, scanTok_eq_of_rest_nil d _ hr]
    simp [dropLastEmpty]
  | case4 c t h hr ih =>
    rw [splitInter, if_neg h, if_neg hr, ih, fields_scan d (c :: t), if_neg hr, dropLastEmpty_cons _ _ (fields_ne_nil _ _)]
theorem fields_eq_single_nil (d : Nat) (s : Str) : fields d s = [[]] ↔ s = [] := by
  constructor
  · intro h
    have := sjoin_fields d s
    rw [h] at this; exact this.symm
  · intro h; rw [h]; rfl

theorem dropLastEmpty_eq_nil (l : List Str) : dropLastEmpty l = [] ↔ l = [] ∨ l = [[]] := by
  cases l with
  | nil => simp [dropLastEmpty]
  | cons x r =>
    cases r with
    | nil => simp only [dropLastEmpty]; split <;> simp_all
    | cons y r' => simp [dropLastEmpty]

theorem sjoin_cons_cons (d c : Nat) (f : Str) (l : List Str) :
    sjoin d ((c :: f) :: l) = c :: sjoin d (f :: l) := by
  cases l with
  | nil => rfl
  | cons y r => rfl

/-- joining the fields of `s` without the trailing empty one loses exactly one trailing delimiter -/
theorem sjoin_dropLastEmpty_fields (d : Nat) (s : Str) :
    sjoin d (dropLastEmpty (fields d s)) = if s.getLast? = some d then s.dropLast else s := by
  induction s with
  | nil => simp [fields, dropLastEmpty, sjoin]
  | cons c t ih =>
    simp only [fields]
    split
    · rename_i hc
      subst hc
      rw [dropLastEmpty_cons _ _ (fields_ne_nil _ _)]
      by_cases ht : t = []
      · subst ht; simp [fields, dropLastEmpty, sjoin]
      · have hne : dropLastEmpty (fields c t) ≠ [] := by
          intro h
          rcases (dropLastEmpty_eq_nil _).1 h with h | h
          · exact fields_ne_nil _ _ h
          · exact ht ((fields_eq_single_nil _ _).1 h)
        rw [sjoin_cons _ _ _ hne, ih]
        obtain ⟨a, r, rfl⟩ := List.exists_cons_of_ne_nil ht
        simp only [List.getLast?_cons_cons, List.dropLast_cons_cons, List.nil_append]
        split <;> rfl
    · rename_i hc
      cases hf : fields d t with
      | nil => exact absurd hf (fields_ne_nil d t)
      | cons f fs =>
        simp only [List.headD_cons, List.tail_cons]
        cases fs with
        | nil =>
          have ht : t = f := by have := sjoin_fields d t; rw [hf] at this; exact this.symm
          have hnd : d ∉ f := fields_no_delim d t f (by rw [hf]; simp)
          subst ht
          have : (c :: t).getLast? ≠ some d := by
            intro h
            have hm := List.mem_of_getLast? h
            rcases List.mem_cons.1 hm with e | e
            · exact hc e.symm
            · exact hnd e
          simp [dropLastEmpty, sjoin, this]
        | cons g gs =>
          have htne : t ≠ [] := by
            intro h; rw [h] at hf; simp [fields] at hf
          rw [hf] at ih
          rw [dropLastEmpty_cons _ _ (by simp), sjoin_cons_cons]
          rw [dropLastEmpty_cons _ _ (by simp)] at ih
          rw [ih]
          obtain ⟨a, r, rfl⟩ := List.exists_cons_of_ne_nil htne
          simp only [List.getLast?_cons_cons, List.dropLast_cons_cons]
          split <;> rfl

theorem dropLastEmpty_of_last (l : List Str) (h : l.getLast? ≠ some []) : dropLastEmpty l = l := by
  induction l with
  | nil => rfl
  | cons x r ih =>
    cases r with
    | nil => simp only [dropLastEmpty]; split
             · rename_i hx; subst hx; simp at h
             · rfl
    | cons y r' =>
      rw [dropLastEmpty_cons _ _ (by simp), ih (by simpa [List.getLast?_cons_cons] using h)]
theorem flatMap_delim (d : Nat) (l : List Str) (h : l ≠ []) :
    l.flatMap (fun s => s ++ [d]) = sjoin d l ++ [d] := by
  induction l with
  | nil => exact absurd rfl h
  | cons x r ih =>
    cases r with
    | nil => simp [sjoin]
    | cons y r' =>
      rw [List.flatMap_cons, ih (by simp), sjoin_cons d x (y :: r') (by simp)]
      simp only [List.append_assoc, List.cons_append, List.nil_append]

theorem sum_len_eq (d : Nat) (l : List Str) :
    (l.map (fun s => s.length + 1)).sum = (l.flatMap (fun s => s ++ [d])).length := by
  induction l with
  | nil => rfl
  | cons x r ih =>
    rw [List.map_cons, List.sum_cons, List.flatMap_cons, List.length_append, ih]; simp

theorem joinList_eq (l : List Str) (d : Nat) : joinList l d = sjoin d l := by
  unfold joinList
  by_cases h : l = []
  · subst h; rfl
  · rw [sum_len_eq d, flatMap_delim d l h]
    simp

theorem join_some (l : List Str) (d : Nat) : join (some l) d = sjoin d l := by
  cases l with
  | nil => rfl
  | cons x r => simp only [join]; exact joinList_eq _ _

theorem join_ofList (l : List Str) (d : Nat) : join (ofList l) d = sjoin d l := by
  unfold ofList
  split
  · rename_i h; subst h; rfl
  · exact join_some l d

theorem rangeLen_eq_zero (l : List Str) (a b : Nat) :
    rangeLen l a b = 0 ↔ (l.drop a).take (b - a) = [] := by
  unfold rangeLen
  cases h : (l.drop a).take (b - a) with
  | nil => simp
  | cons x r => simp

theorem joinRange_some (l : List Str) (a b d : Nat) (h : a ≤ l.length) :
    joinRange (some l) a b d = sjoin d ((l.drop a).take (b - a)) := by
  cases l with
  | nil => simp [joinRange, sjoin]
  | cons x r =>
    simp only [joinRange]
    have hc : ¬ ((a : Int) > count (some (x :: r))) := by simp only [count]; omega
    rw [if_neg hc]
    split
    · rename_i hz
      rw [(rangeLen_eq_zero _ _ _).1 hz]; rfl
    · rename_i hz
      have hne : (List.drop a (x :: r)).take (b - a) ≠ [] := fun e => hz ((rangeLen_eq_zero _ _ _).2 e)
      have hsplit := List.take_append_drop (b - a) (List.drop a (x :: r))
      generalize hR : (List.drop a (x :: r)).take (b - a) = R at *
      generalize hS : (List.drop a (x :: r)).drop (b - a) = S at *
      have hrl : rangeLen (x :: r) a b = (R.flatMap (fun s => s ++ [d])).length := by
        unfold rangeLen; rw [hR]; exact sum_len_eq d R
      rw [hrl, ← hsplit, List.flatMap_append, flatMap_delim d R hne]
      simp
theorem range_getD_eq_drop (l : List Str) (n : Nat) :
    (List.range (l.length - n)).map (fun k => l.getD (n + k) []) = l.drop n := by
  apply List.ext_getElem
  · simp
  · intro i h1 h2
    simp only [List.length_map, List.length_range] at h1
    simp only [List.getElem_map, List.getElem_range, List.getElem_drop]
    rw [List.getD_eq_getElem?_getD, List.getElem?_eq_getElem (by omega)]
    rfl

theorem deleteList_eq (l : List Str) (start num : Nat) :
    deleteList l start num = l.take start ++ l.drop (start + num) := by
  unfold deleteList
  congr 1
  have := range_getD_eq_drop l (start + num)
  rw [← this]
  apply List.map_congr_left
  intro k _
  congr 1; omega

theorem foldl_append (src : List Str) (t : List Str) :
    src.foldl (fun acc a => (append acc a).2) (some t) = some (t ++ src) := by
  induction src generalizing t with
  | nil => simp
  | cons a r ih =>
    rw [List.foldl_cons]
    have : (append (some t) a).2 = some (t ++ [a]) := rfl
    rw [this, ih]; simp

theorem copy_eq' (v : Vec) : copy v = v := by
  cases v with
  | none => rfl
  | some l => simp only [copy]; rw [foldl_append]; simp
theorem splice_positions (t src : List Str) (p : Nat) (hp : p ≤ t.length) :
    (t.take p ++ src ++ t.drop p).length = t.length + src.length ∧
    (∀ i, i < p → (t.take p ++ src ++ t.drop p)[i]? = t[i]?) ∧
    (∀ i, p ≤ i → i < p + src.length → (t.take p ++ src ++ t.drop p)[i]? = src[i - p]?) ∧
    (∀ i, p + src.length ≤ i → (t.take p ++ src ++ t.drop p)[i]? = t[i - src.length]?) := by
  refine ⟨by simp; omega, ?_, ?_, ?_⟩
  · intro i hi
    rw [List.append_assoc, List.getElem?_append_left (by simp; omega), List.getElem?_take]
    simp [hi]
  · intro i h1 h2
    rw [List.append_assoc, List.getElem?_append_right (by simp; omega),
      List.getElem?_append_left (by simp; omega)]
    simp [Nat.min_eq_left hp]
  · intro i h1
    rw [List.getElem?_append_right (by simp; omega)]
    simp only [List.length_append, List.length_take, Nat.min_eq_left hp, List.getElem?_drop]
    congr 1; omega

theorem cut_positions (l : List Str) (start num : Nat) (hs : start ≤ l.length) :
    (l.take start ++ l.drop (start + num)).length = l.length - min num (l.length - start) ∧
    (∀ i, i < start → (l.take start ++ l.drop (start + num))[i]? = l[i]?) ∧
    (∀ i, start ≤ i → (l.take start ++ l.drop (start + num))[i]? = l[i + num]?) := by
  refine ⟨by simp; omega, ?_, ?_⟩
  · intro i hi
    rw [List.getElem?_append_left (by simp; omega), List.getElem?_take]; simp [hi]
  · intro i hi
    rw [List.getElem?_append_right (by simp; omega)]
    simp only [List.length_take, Nat.min_eq_left hs, List.getElem?_drop]
    congr 1; omega
theorem dropLastEmpty_append (l : List Str) (h : l.getLast? = some []) :
    dropLastEmpty l ++ [[]] = l := by
  induction l with
  | nil => simp at h
  | cons x r ih =>
    cases r with
    | nil =>
      simp only [List.getLast?_singleton, Option.some.injEq] at h
      subst h; simp [dropLastEmpty]
    | cons y r' =>
      rw [dropLastEmpty_cons _ _ (by simp), List.cons_append,
        ih (by simpa [List.getLast?_cons_cons] using h)]

/-- the last field is empty exactly when the string is empty or ends with the delimiter -/
theorem fields_last_empty (d : Nat) (s : Str) :
    (fields d s).getLast? = some [] ↔ (s = [] ∨ s.getLast? = some d) := by
  induction s with
  | nil => simp [fields]
  | cons c t ih =>
    simp only [fields]
    split
    · rename_i hc
      subst hc
      obtain ⟨f, fs, hf⟩ := List.exists_cons_of_ne_nil (fields_ne_nil c t)
      rw [hf, List.getLast?_cons_cons, ← hf, ih]
      cases t with
      | nil => simp
      | cons a r => simp [List.getLast?_cons_cons]
    · rename_i hc
      cases hf : fields d t with
      | nil => exact absurd hf (fields_ne_nil d t)
      | cons f fs =>
        simp only [List.headD_cons, List.tail_cons]
        cases fs with
        | nil =>
          have ht : t = f := by have := sjoin_fields d t; rw [hf] at this; exact this.symm
          have hnd : d ∉ f := fields_no_delim d t f (by rw [hf]; simp)
          subst ht
          have : (c :: t).getLast? ≠ some d := by
            intro h
            have hm := List.mem_of_getLast? h
            rcases List.mem_cons.1 hm with e | e
            · exact hc e.symm
            · exact hnd e
          simp [this]
        | cons g gs =>
          have htne : t ≠ [] := by
            intro h; rw [h] at hf; simp [fields] at hf
          rw [hf] at ih
          rw [List.getLast?_cons_cons]
          rw [List.getLast?_cons_cons] at ih
          rw [ih]
          obtain ⟨a, r, rfl⟩ := List.exists_cons_of_ne_nil htne
          simp [List.getLast?_cons_cons]

/-- loop result + the field appended after the loop = all fields (nothing for the empty string) -/
theorem splitInter_true_trailing (d : Nat) (s : Str) :
    splitInter true d s ++ trailingField d s = if s = [] then [] else fields d s := by
  rw [splitInter_true]
  unfold trailingField
  by_cases hs : s = []
  · subst hs; simp [fields, dropLastEmpty]
  · rw [if_neg hs]
    split
    · rename_i hl
      exact dropLastEmpty_append _ ((fields_last_empty d s).2 (Or.inr hl))
    · rename_i hl
      rw [List.append_nil]
      apply dropLastEmpty_of_last
      intro h
      rcases (fields_last_empty d s).1 h with h | h
      · exact hs h
      · exact hl h
end ParsecVerif.Argv
