import ParsecVerif.Proofs.ContextStamps2
import ParsecVerif.Model.Compound
/-! What one transition of the context machine does to the taskpool descriptors (one of six kinds of change). -/
namespace ParsecVerif.Compound
open ParsecVerif.Context

inductive Chg (s : St) (tr : Tr) (p : Nat) (tp tp' : Tp) : Prop
  | same (h1 : tp'.st = tp.st) (h2 : tp'.addAt = tp.addAt) (h3 : tp'.cbAt = tp.cbAt)
  | call (h0 : (∃ t, tr = .addCall t p) ∨ (∃ t, tr = .startupAdd t p)) (h1 : tp.st = .notAdded) (h2 : tp'.st = .adding)
         (h3 : tp'.addAt = tp.addAt) (h4 : tp'.cbAt = tp.cbAt)
  | inc (h1 : tp.st = .adding) (h2 : tp'.st = .added) (h3 : tp'.addAt = s.clock) (h4 : tp'.cbAt = tp.cbAt)
  | det (h0 : ∃ t, tr = .detect t p) (h1 : tp.st = .added) (h2 : tp'.st = .inCb) (h3 : tp'.addAt = tp.addAt)
        (h4 : tp'.cbAt = s.clock)
  | dec (h1 : tp.st = .inCb) (h2 : tp'.st = .done) (h3 : tp'.addAt = tp.addAt) (h4 : tp'.cbAt = tp.cbAt)
  | early (h : tp.early = true)
  | ndet (h0 : ∃ t, tr = .actionDone t p) (h1 : tp.st = .added) (h2 : tp'.st = .inCbN) (h3 : tp'.addAt = tp.addAt)
         (h4 : tp'.cbAt = s.clock)
  | ndec (h0 : ∃ t rest, tr = .nestDec t ∧ s.nests[t]? = some (p :: rest)) (h1 : tp.st = .inCbN) (h2 : tp'.st = .done)
         (h3 : tp'.addAt = tp.addAt) (h4 : tp'.cbAt = tp.cbAt)

theorem step?_chg {s s' : St} {tr : Tr} (hI : Inv s) (hS : SInv s) (hs : step? s tr = some s') :
    s'.tps = s.tps ∨ ∃ (p : Nat) (tp tp' : Tp), s.tps[p]? = some tp ∧ s'.tps = s.tps.set p tp' ∧ tp'.early = tp.early ∧ Chg s tr p tp tp' := by
  cases tr with
  | startBarrier => simp only [step?] at hs; split at hs <;> cases hs; exact Or.inl rfl
  | startToken => simp only [step?] at hs; split at hs <;> cases hs; exact Or.inl rfl
  | waitBegin => simp only [step?] at hs; split at hs <;> cases hs; exact Or.inl rfl
  | sawZero => simp only [step?] at hs; split at hs <;> cases hs; exact Or.inl rfl
  | leave w => simp only [step?] at hs; split at hs <;> cases hs; exact Or.inl rfl
  | barrier => simp only [step?] at hs; split at hs <;> cases hs; exact Or.inl rfl
  | waitReturn => simp only [step?] at hs; split at hs <;> cases hs; exact Or.inl rfl
  | tpWaitBegin p =>
    simp only [step?] at hs; split at hs
    · split at hs <;> cases hs; exact Or.inl rfl
    · cases hs
  | tpWaitReturn =>
    simp only [step?] at hs; split at hs
    · split at hs
      · split at hs <;> cases hs; exact Or.inl rfl
      · cases hs
    · cases hs
  | addReturn t => simp only [step?] at hs; split at hs <;> cases hs; exact Or.inl rfl
  | taskBegin t p =>
    simp only [step?] at hs; split at hs
    · split at hs
      · rename_i tp htp hg; cases hs
        exact Or.inr ⟨p, tp, _, htp, rfl, rfl, .same rfl rfl rfl⟩
      · cases hs
    · cases hs
  | taskEnd t =>
    simp only [step?] at hs; split at hs
    · split at hs
      · rename_i p _ _ _ tp htp; cases hs
        exact Or.inr ⟨p, tp, _, htp, rfl, rfl, .same rfl rfl rfl⟩
      · cases hs
    · cases hs
  | detect t p =>
    simp only [step?] at hs; split at hs
    · split at hs
      · rename_i tp htp hg; cases hs
        exact Or.inr ⟨p, tp, _, htp, rfl, rfl, .det ⟨t, rfl⟩ hg.2.2.1 rfl rfl rfl⟩
      · cases hs
    · cases hs
  | dec t =>
    simp only [step?] at hs; split at hs
    · split at hs
      · rename_i p hbt _ _ tp htp
        split at hs
        case isFalse => cases hs
        cases hs
        have hst : tp.st = .inCb := by
          obtain ⟨x, hx, hxs, _⟩ := hI.cbFwd t p hbt
          rw [htp] at hx; cases hx; exact hxs
        exact Or.inr ⟨p, tp, _, htp, rfl, rfl, .dec hst rfl rfl rfl⟩
      · cases hs
    · cases hs
  | addCall t q =>
    simp only [step?] at hs; split at hs
    · split at hs
      · rename_i tp htp hg; cases hs
        exact Or.inr ⟨q, tp, _, htp, rfl, rfl, .call (Or.inl ⟨t, rfl⟩) hg.2 rfl rfl rfl⟩
      · cases hs
    · cases hs
  | startupAdd t q =>
    simp only [step?] at hs; split at hs
    · split at hs
      · rename_i _ _ _ tp _ htp hg; cases hs
        exact Or.inr ⟨q, tp, _, htp, rfl, rfl, .call (Or.inr ⟨t, rfl⟩) hg rfl rfl rfl⟩
      · cases hs
    · cases hs
  | earlyCb t =>
    simp only [step?] at hs; split at hs
    · split at hs
      · split at hs
        · rename_i q _ _ tp htp hg; cases hs
          exact Or.inr ⟨q, tp, _, htp, rfl, rfl, .early hg.2⟩
        · cases hs
      · cases hs
    · cases hs
  | earlyDec t =>
    simp only [step?] at hs; split at hs
    · split at hs
      · split at hs
        · rename_i q _ _ tp htp hg; cases hs
          have hok := hS.tpok tp (List.mem_of_getElem? htp)
          simp only [tpOK, hg] at hok
          exact Or.inr ⟨q, tp, _, htp, rfl, rfl, .early hok.2.2.2.2.2.2.2.2.2.2.2.1⟩
        · cases hs
      · cases hs
    · cases hs
  | addInc t =>
    simp only [step?] at hs; split at hs
    · split at hs
      · split at hs
        · rename_i q _ _ tp htp hg; cases hs
          exact Or.inr ⟨q, tp, _, htp, rfl, rfl, .inc hg.1 rfl rfl rfl⟩
        · split at hs
          · rename_i q _ _ tp htp _ hg; cases hs
            have hok := hS.tpok tp (List.mem_of_getElem? htp)
            simp only [tpOK, hg] at hok
            exact Or.inr ⟨q, tp, _, htp, rfl, rfl, .early hok.2.2.2.2.2.2.2.2.2.2.2.1⟩
          · cases hs
      · cases hs
    · cases hs
  | arm p =>
    simp only [step?] at hs; split at hs
    · split at hs
      · rename_i tp htp hg; cases hs
        exact Or.inr ⟨p, tp, _, htp, rfl, rfl, .same rfl rfl rfl⟩
      · cases hs
    · cases hs
  | insert t p =>
    simp only [step?] at hs; split at hs
    · split at hs
      · rename_i tp htp hg; cases hs
        exact Or.inr ⟨p, tp, _, htp, rfl, rfl, .same rfl rfl rfl⟩
      · cases hs
    · cases hs
  | startupReady t n =>
    simp only [step?] at hs; split at hs
    · split at hs
      · split at hs
        · rename_i q _ _ tp htp hg; cases hs
          exact Or.inr ⟨q, tp, _, htp, rfl, rfl, .same rfl rfl rfl⟩
        · cases hs
      · cases hs
    · cases hs
  | actionDone t q =>
    simp only [step?] at hs; split at hs
    · split at hs
      · rename_i m _ _ tp hbt hsu htp hg
        split at hs
        · cases hs
          exact Or.inr ⟨q, tp, _, htp, rfl, rfl, .ndet ⟨t, rfl⟩ hg.1 rfl rfl rfl⟩
        · cases hs
          exact Or.inr ⟨q, tp, _, htp, rfl, rfl, .same rfl rfl rfl⟩
      · cases hs
    · cases hs
  | nestDec t =>
    simp only [step?] at hs; split at hs
    · split at hs
      · rename_i q rest _ hsu _ tp htp; cases hs
        have hst : tp.st = .inCbN := by
          obtain ⟨x, hx, hxs, _⟩ := hI.nFwd t _ q hsu List.mem_cons_self
          rw [htp] at hx; cases hx; exact hxs
        exact Or.inr ⟨q, tp, _, htp, rfl, rfl, .ndec ⟨t, rest, rfl, hsu⟩ hst rfl rfl rfl⟩
      · cases hs
    · cases hs

end ParsecVerif.Compound
