/-
  The step `lo`: lock of the bucket of an older table, scan, unlink of the item found.
-/
import ParsecVerif.Proofs.HashTableStepD

namespace ParsecVerif.HashTable

/-- what the thread knows at `lo hd pv`, and the lock it takes -/
structure LoCtx (s s1 : Store) (u : Nat) (th : Thread) (hd pv : Nat) : Prop where
  ok : OpOk th.op
  ni : NoIns th.op
  top : HoldsTop s u th.op.key
  nb : s.nb0 ≤ hd
  lt : hd < pv
  pv : pv ≤ s.top
  notIn : NotIn s th.op.key (hd + 1)
  p : Pre u s s1
  own : (s1.bk hd (s.hf th.op.key hd)).lock = u + 1
  other : ∀ T b, ¬ (T = hd ∧ b = s.hf th.op.key hd) → (s1.bk T b).lock = (s.bk T b).lock

theorem LoCtx.hlt {s s1 : Store} {u : Nat} {th : Thread} {hd pv : Nat} (c : LoCtx s s1 u th hd pv) : hd < s.top :=
  Nat.lt_of_lt_of_le c.lt c.pv

theorem LoCtx.top1 {s s1 : Store} {u : Nat} {th : Thread} {hd pv : Nat} (c : LoCtx s s1 u th hd pv) :
    (s1.bk s.top (s.hf th.op.key s.top)).lock = u + 1 := by
  rw [c.other _ _ (fun h => by have := c.hlt; omega)]; exact c.top

/-- the key is not in this table either -/
theorem stepOk_lo_miss {s s1 : Store} {thr : List Thread} {u : Nat} {th : Thread} (hS : SInv s thr) (hu : thr[u]? = some th)
    {hd pv : Nat} (hpc : th.pc = .lo hd pv) (c : LoCtx s s1 u th hd pv)
    (hsc : scan (s.bk hd (s.hf th.op.key hd)).items th.op.key = none) :
    StepOk s thr u ⟨s1, th.goto (.ulo hd none), none⟩ := by
  have p := c.p
  refine StepOk.mk' s1 (th.goto (.ulo hd none)) rfl rfl ⟨hS.st.congr p.e, ?_, ?_, ?_, ?_⟩ ?_ (fun t ht _ _ _ => (guar_of_pre p).rely ht)
  · exact hS.used.same hu _ p.e.top p.e.nb0 (fun T _ => p.used T) (fun T b _ => p.e.items T b) (fun T => by rw [hpc]; rfl)
  · exact hS.ab.same hu _ p.e p.abs (fun y _ h => by rw [hpc] at h; cases h)
  · exact hS.excl.set_same hu _ (fun _ => by rw [hpc]; rfl) (fun h => by cases h)
  · exact (hS.user.set_same hu (sameStatus_goto (by rw [hpc]; simp) (by rw [hpc]; rfl))).congr p.abs p.kheld
  · show TInv s1 u th.op (.ulo hd none)
    refine ⟨c.ok, c.ni, ?_, ?_, by rw [p.e.nb0]; exact c.nb, by rw [p.e.top]; exact c.hlt, fun _ => ?_⟩
    · unfold HoldsTop; rw [p.e.top, p.e.hf]; exact c.top1
    · unfold HoldsOld; rw [p.e.hf]; exact c.own
    · intro T a b hk
      rw [p.e.top] at b
      rw [p.e.keyIn] at hk
      rcases Nat.lt_or_ge hd T with hlt | hge
      · exact c.notIn T hlt b hk
      · have : T = hd := Nat.le_antisymm hge a
        subst this
        obtain ⟨y, hy, hkey⟩ := hk
        exact scan_none hsc y hy hkey

theorem isEmpty_eq_of_ne_nil {α : Type} {l l' : List α} (h : l ≠ []) (h' : l' ≠ []) : l.isEmpty = l'.isEmpty := by
  cases l <;> cases l' <;> simp_all

/-- facts about the bucket in which the item was found -/
theorem erase_nil_iff {s : Store} (hst : StructInv s) {T b : Nat} (hT : Tin s T) {it : Item} (hit : it ∈ (s.bk T b).items) :
    ((s.bk T b).len - 1 = 0 → (s.bk T b).items.erase it = []) ∧ (¬ (s.bk T b).len - 1 = 0 → (s.bk T b).items.erase it ≠ []) := by
  have hl := hst.len T b hT
  have he := List.length_erase_of_mem hit
  have hpos : 0 < (s.bk T b).items.length := List.length_pos_of_mem hit
  constructor
  · intro h
    apply List.eq_nil_of_length_eq_zero
    rw [he]; omega
  · intro h hc
    rw [hc] at he
    simp at he
    omega

/-- `find` / find-or-insert found the item and emptied the bucket: the item is carried to the decrement -/
theorem stepOk_lo_mv_hand {s s1 : Store} {thr : List Thread} {u now : Nat} {th : Thread} (hS : SInv s thr) (hu : thr[u]? = some th)
    {hd pv : Nat} (hpc : th.pc = .lo hd pv) (c : LoCtx s s1 u th hd pv) (hmv : th.op.mv = true)
    (hns : (∀ k', ¬ PendIns th k') ∧ (∀ k', ¬ RmHold th k')) (hnr : ∀ k', th.op ≠ .rem k')
    {it : Item} (hit : it ∈ (s.bk hd (s.hf th.op.key hd)).items) (hkey : it.key = th.op.key)
    (hnil : (s.bk hd (s.hf th.op.key hd)).items.erase it = []) :
    StepOk s thr u (linAt (s1.eraseIt hd (s.hf th.op.key hd) it) u now th (.du hd pv it) it.id) := by
  have p := c.p
  have hTin : Tin s hd := ⟨c.nb, Nat.le_of_lt c.hlt⟩
  obtain ⟨p1, p2, p3, p4⟩ := erase_mv_hand hS hu p hTin hit { th with pc := .du hd pv it, tLin := now } (by rw [hpc]; rfl) ⟨hmv, rfl⟩
  have hitems : ∀ T b, ((s1.eraseIt hd (s.hf th.op.key hd) it).bk T b).items =
      if T = hd ∧ b = s.hf th.op.key hd then (s.bk hd (s.hf th.op.key hd)).items.erase it else (s.bk T b).items := by
    intro T b; rw [items_eraseIt, p.e.items, p.e.items]
  refine StepOk.mk' (s1.eraseIt hd (s.hf th.op.key hd) it) { th with pc := .du hd pv it, tLin := now } rfl rfl
    ⟨p1, ?_, p2, ?_, ?_⟩ ?_ (fun t ht _ _ _ => p3.rely ht)
  · refine usedInv_emptied hS.used hu _ p.e.top p.e.nb0 (fun T _ => by rw [used_eraseIt, p.used]) (hS.st.hfr _ _)
      (fun h => by rw [h] at hit; cases hit) (by rw [hitems, if_pos ⟨rfl, rfl⟩]; exact hnil)
      (fun T b _ hne => by rw [hitems, if_neg hne]) (fun T => by rw [hpc]; rfl) (fun T => rfl)
  · exact hS.excl.set_same hu _ (fun _ => by rw [hpc]; rfl) (fun h => by cases h)
  · refine (hS.user.set_same hu (sameStatus_of_none hns.1 hns.2 (not_pendIns_of_pc (by simp) (by simp)) ?_)).congr p.abs p.kheld
    exact fun k' hr => hnr k' hr.1
  · show TInv (s1.eraseIt hd (s.hf th.op.key hd) it) u th.op (.du hd pv it)
    refine ⟨c.ok, c.ni, ?_, ?_, by show s1.nb0 ≤ hd; rw [p.e.nb0]; exact c.nb, c.lt, by show pv ≤ s1.top; rw [p.e.top]; exact c.pv,
      hkey, p4, ?_, fun _ => ?_⟩
    · unfold HoldsTop
      show ((s1.eraseIt hd (s.hf th.op.key hd) it).bk s1.top (s1.hf th.op.key s1.top)).lock = u + 1
      rw [lock_eraseIt, p.e.top, p.e.hf]; exact c.top1
    · unfold HoldsOld
      show ((s1.eraseIt hd (s.hf th.op.key hd) it).bk hd (s1.hf th.op.key hd)).lock = u + 1
      rw [lock_eraseIt, p.e.hf]; exact c.own
    · show ((s1.eraseIt hd (s.hf th.op.key hd) it).bk hd (s1.hf th.op.key hd)).items = []
      rw [p.e.hf, hitems, if_pos ⟨rfl, rfl⟩]; exact hnil
    · show it ∈ s1.abs
      rw [p.abs]; exact hS.ab.absIn it ⟨hd, _, hTin, hit⟩

/-- `find` / find-or-insert found the item, the bucket keeps other items: straight to the top-level table -/
theorem stepOk_lo_mv_back {s s1 : Store} {thr : List Thread} {u now : Nat} {th : Thread} (hS : SInv s thr) (hu : thr[u]? = some th)
    {hd pv : Nat} (hpc : th.pc = .lo hd pv) (c : LoCtx s s1 u th hd pv) (hmv : th.op.mv = true)
    (hns : (∀ k', ¬ PendIns th k') ∧ (∀ k', ¬ RmHold th k')) (hnr : ∀ k', th.op ≠ .rem k')
    {it : Item} (hit : it ∈ (s.bk hd (s.hf th.op.key hd)).items) (hkey : it.key = th.op.key)
    (hnn : (s.bk hd (s.hf th.op.key hd)).items.erase it ≠ []) :
    StepOk s thr u (linAt (mvInsert (s1.eraseIt hd (s.hf th.op.key hd) it) th it) u now th (.ulo hd (some it)) it.id) := by
  have p := c.p
  have hTin : Tin s hd := ⟨c.nb, Nat.le_of_lt c.hlt⟩
  have st1 : StructInv s1 := hS.st.congr p.e
  have hT1 : Tin s1 hd := (p.e.tin hd).2 hTin
  have hit1 : it ∈ (s1.bk hd (s.hf th.op.key hd)).items := by rw [p.e.items]; exact hit
  have hitems : ∀ T b, ((s1.eraseIt hd (s.hf th.op.key hd) it).bk T b).items =
      if T = hd ∧ b = s.hf th.op.key hd then (s.bk hd (s.hf th.op.key hd)).items.erase it else (s.bk T b).items := by
    intro T b; rw [items_eraseIt, p.e.items, p.e.items]
  have hl : HoldsTop s u it.key := by rw [hkey]; exact c.top
  have hl' : HoldsTop (s1.eraseIt hd (s.hf th.op.key hd) it) u it.key := by
    unfold HoldsTop
    show ((s1.eraseIt hd (s.hf th.op.key hd) it).bk s1.top (s1.hf it.key s1.top)).lock = u + 1
    rw [lock_eraseIt, p.e.top, p.e.hf, hkey]; exact c.top1
  obtain ⟨q1, q2, q3, q4, q5, q6, _, q8, q9, q10, q11, q12, q13⟩ :=
    mv_tail (s' := s1.eraseIt hd (s.hf th.op.key hd) it) (st1.erase hT1 hit1) hS.ab hu p.e.top p.e.hf p.e.nb0 p.abs
      (fun y => by rw [stored_erase st1 hT1 hit1, p.e.stored])
      (fun T b y hy => by
        rw [hitems] at hy
        split at hy
        · rename_i hc; rw [hc.1, hc.2]; exact List.mem_of_mem_erase hy
        · exact hy)
      (fun T b => by rw [lock_eraseIt]; exact p.lockG T b) hl hl'
      (fun _ => hS.ab.absIn it ⟨hd, _, hTin, hit⟩) (fun hm => by rw [hmv] at hm; cases hm)
      (fun y hy => by rw [hpc] at hy; cases hy) hkey { th with pc := .ulo hd (some it), tLin := now } rfl
  refine StepOk.mk' (mvInsert (s1.eraseIt hd (s.hf th.op.key hd) it) th it) { th with pc := .ulo hd (some it), tLin := now } rfl rfl
    ⟨q1, ?_, q2, ?_, ?_⟩ ?_ (fun t ht _ _ _ => q4.rely ht)
  · refine hS.used.same' hu _ q9 q10 (fun T _ => by rw [q6, used_eraseIt, p.used]) (fun T hT => ?_) (fun T => by rw [hpc]; rfl)
    unfold Store.usedCount
    apply countP_range_same
    intro b _
    rw [q5 T b hT, hitems]
    split
    · rename_i hc
      rw [hc.1, hc.2]
      have h1 : (s.bk hd (s.hf th.op.key hd)).items ≠ [] := fun h => by rw [h] at hit; cases hit
      rw [isEmpty_eq_of_ne_nil hnn h1]
    · rfl
  · exact hS.excl.set_same hu _ (fun _ => by rw [hpc]; rfl) (fun h => by cases h)
  · refine (hS.user.set_same hu (sameStatus_of_none hns.1 hns.2 (not_pendIns_of_pc (by simp) (by simp)) ?_)).congr q12 (by rw [q13]; exact p.kheld)
    exact fun k' hr => hnr k' hr.1
  · show TInv _ u th.op (.ulo hd (some it))
    refine ⟨c.ok, c.ni, q3, ?_, by rw [q10]; exact c.nb, by rw [q9]; exact c.hlt, fun h => by cases h⟩
    unfold HoldsOld
    rw [q8, q11, lock_eraseIt]; exact c.own

/-- `rem` found the item: it leaves the map -/
theorem stepOk_lo_rm {s s1 : Store} {thr : List Thread} {u : Nat} {th : Thread} (hS : SInv s thr) (hu : thr[u]? = some th)
    {hd pv : Nat} (hpc : th.pc = .lo hd pv) (c : LoCtx s s1 u th hd pv) {k : Nat} (hop : th.op = .rem k)
    {it : Item} (hit : it ∈ (s.bk hd (s.hf th.op.key hd)).items) (hkey : it.key = th.op.key)
    (x : Thread) (hxop : x.op = th.op)
    (hx : (x.pc = .du hd pv it ∧ (s.bk hd (s.hf th.op.key hd)).items.erase it = []) ∨
          (x.pc = .ulo hd (some it) ∧ (s.bk hd (s.hf th.op.key hd)).items.erase it ≠ [])) :
    SInv (eraseRm s1 hd (s.hf th.op.key hd) it) (thr.set u x) ∧ TInv (eraseRm s1 hd (s.hf th.op.key hd) it) u x.op x.pc ∧
    ∀ t, t ≠ u → Rely t s (eraseRm s1 hd (s.hf th.op.key hd) it) := by
  have p := c.p
  have hTin : Tin s hd := ⟨c.nb, Nat.le_of_lt c.hlt⟩
  obtain ⟨p1, p2, p3, p4⟩ := erase_rm hS hu p hTin hit x (by rw [hpc]; rfl)
  have hkk : th.op.key = k := by rw [hop]; rfl
  have hnotst : ¬ Stored (eraseRm s1 hd (s.hf th.op.key hd) it) it := by
    have st1 : StructInv s1 := hS.st.congr p.e
    have e2 : SameStore (s1.eraseIt hd (s.hf th.op.key hd) it) (eraseRm s1 hd (s.hf th.op.key hd) it) := sameStore_withAbs _ _
    intro h
    rw [e2.stored, stored_erase st1 ((p.e.tin hd).2 hTin) (by rw [p.e.items]; exact hit)] at h
    exact h.2 rfl
  have hlockE : ∀ T b, ((eraseRm s1 hd (s.hf th.op.key hd) it).bk T b).lock = (s1.bk T b).lock :=
    fun T b => lock_eraseIt s1 _ _ T b it
  have hT1 : HoldsTop (eraseRm s1 hd (s.hf th.op.key hd) it) u th.op.key := by
    unfold HoldsTop
    show ((eraseRm s1 hd (s.hf th.op.key hd) it).bk s1.top (s1.hf th.op.key s1.top)).lock = u + 1
    rw [hlockE, p.e.top, p.e.hf]; exact c.top1
  have hO1 : HoldsOld (eraseRm s1 hd (s.hf th.op.key hd) it) u th.op.key hd := by
    unfold HoldsOld
    show ((eraseRm s1 hd (s.hf th.op.key hd) it).bk hd (s1.hf th.op.key hd)).lock = u + 1
    rw [hlockE, p.e.hf]; exact c.own
  have hxr : x.pc.isReader = true := by rcases hx with h | h <;> rw [h.1] <;> rfl
  have hxw : x.pc.isWriter = false := by rcases hx with h | h <;> rw [h.1] <;> rfl
  have hxp : ∀ k', ¬ PendIns x k' := by
    intro k'; apply not_pendIns_of_pc <;> rcases hx with h | h <;> rw [h.1] <;> simp
  refine ⟨⟨p1, ?_, p2, ?_, ?_⟩, ?_, fun t ht => p3.rely ht⟩
  · rcases hx with h | h
    · refine usedInv_emptied hS.used hu _ p.e.top p.e.nb0 (fun T _ => ?_) (hS.st.hfr _ _)
        (fun h' => by rw [h'] at hit; cases hit) (by rw [p4, if_pos ⟨rfl, rfl⟩]; exact h.2)
        (fun T b _ hne => by rw [p4, if_neg hne]) (fun T => by rw [hpc]; rfl) (fun T => by rw [h.1]; rfl)
      show ((s1.eraseIt hd (s.hf th.op.key hd) it).tab T).used = _
      rw [used_eraseIt, p.used]
    · refine hS.used.same' hu _ p.e.top p.e.nb0 (fun T _ => ?_) (fun T hT => ?_) (fun T => by rw [hpc, h.1]; rfl)
      · show ((s1.eraseIt hd (s.hf th.op.key hd) it).tab T).used = _
        rw [used_eraseIt, p.used]
      · unfold Store.usedCount
        apply countP_range_same
        intro b _
        rw [p4]
        split
        · rename_i hc
          rw [hc.1, hc.2]
          have h1 : (s.bk hd (s.hf th.op.key hd)).items ≠ [] := fun h' => by rw [h'] at hit; cases hit
          rw [isEmpty_eq_of_ne_nil h.2 h1]
        · rfl
  · exact hS.excl.set_same hu _ (fun _ => by rw [hpc]; rfl) (fun h => by rw [hxw] at h; cases h)
  · refine userInv_rem_item (m := eraseRm s1 hd (s.hf th.op.key hd) it) hS.user hS.ab.absKeys hu
      (hS.ab.absIn it ⟨hd, _, hTin, hit⟩) (by show s1.abs.erase it = _; rw [p.abs]) p.kheld hxp ?_
    intro k' hr
    have := hr.1; rw [hxop, hop] at this; cases this
    rw [hkey, hkk]
  · rw [hxop]
    rcases hx with h | h
    · rw [h.1]
      refine ⟨c.ok, c.ni, hT1, hO1, by show s1.nb0 ≤ hd; rw [p.e.nb0]; exact c.nb, c.lt, by show pv ≤ s1.top; rw [p.e.top]; exact c.pv,
        hkey, hnotst, ?_, fun hm => by rw [hop] at hm; cases hm⟩
      show ((eraseRm s1 hd (s.hf th.op.key hd) it).bk hd (s1.hf th.op.key hd)).items = []
      rw [p.e.hf, p4, if_pos ⟨rfl, rfl⟩]; exact h.2
    · rw [h.1]
      exact ⟨c.ok, c.ni, hT1, hO1, by show s1.nb0 ≤ hd; rw [p.e.nb0]; exact c.nb, by show hd < s1.top; rw [p.e.top]; exact c.hlt,
        fun h' => by cases h'⟩

theorem stepOk_lo {s : Store} {thr : List Thread} {u now : Nat} {th : Thread} (hS : SInv s thr) (hu : thr[u]? = some th)
    {hd pv : Nat} (hpc : th.pc = .lo hd pv) (hT : TInv s u th.op th.pc) : StepOk s thr u (stepLo s u now th hd pv) := by
  unfold stepLo
  split
  · rename_i hfree
    have hT' := hT
    rw [hpc] at hT'
    obtain ⟨h1, h2, h3, h4, h5, h6, h7⟩ := hT'
    have c : LoCtx s (s.setLock hd (s.hf th.op.key hd) (u + 1)) u th hd pv :=
      ⟨h1, h2, h3, h4, h5, h6, h7, pre_setLock hfree, by rw [lock_setLock]; simp,
        fun T b hne => by rw [lock_setLock, if_neg hne]⟩
    generalize s.setLock hd (s.hf th.op.key hd) (u + 1) = s1 at c ⊢
    have hTin : Tin s hd := ⟨h4, Nat.le_of_lt c.hlt⟩
    split
    · rename_i hsc
      exact stepOk_lo_miss hS hu hpc c hsc
    · rename_i it hsc
      obtain ⟨hit, hkey⟩ := scan_some hsc
      obtain ⟨hnil, hnn⟩ := erase_nil_iff hS.st hTin hit
      unfold loFound absAfterFound
      cases hop : th.op with
      | ins k i => rw [hop] at h2; exact h2.elim
      | find k =>
        have hmv : th.op.mv = true := by rw [hop]; rfl
        rw [← hop]
        simp only [hmv, if_true]
        split
        · rename_i hz
          exact stepOk_lo_mv_hand hS hu hpc c hmv (noStatus_find hop) (fun k' h => by rw [hop] at h; cases h) hit hkey (hnil hz)
        · rename_i hz
          exact stepOk_lo_mv_back hS hu hpc c hmv (noStatus_find hop) (fun k' h => by rw [hop] at h; cases h) hit hkey (hnn hz)
      | foi k i =>
        have hmv : th.op.mv = true := by rw [hop]; rfl
        rw [← hop]
        simp only [hmv, if_true]
        split
        · rename_i hz
          exact stepOk_lo_mv_hand hS hu hpc c hmv (noStatus_foi hop) (fun k' h => by rw [hop] at h; cases h) hit hkey (hnil hz)
        · rename_i hz
          exact stepOk_lo_mv_back hS hu hpc c hmv (noStatus_foi hop) (fun k' h => by rw [hop] at h; cases h) hit hkey (hnn hz)
      | rem k =>
        have hmv : th.op.mv = false := by rw [hop]; rfl
        rw [← hop]
        simp only [hmv, Bool.false_eq_true, if_false]
        split
        · rename_i hz
          obtain ⟨q1, q2, q3⟩ := stepOk_lo_rm hS hu hpc c hop hit hkey { th with pc := .du hd pv it, tLin := now } rfl (Or.inl ⟨rfl, hnil hz⟩)
          exact StepOk.mk' (eraseRm s1 hd (s.hf th.op.key hd) it) { th with pc := .du hd pv it, tLin := now } rfl rfl q1 q2
            (fun t ht _ _ _ => q3 t ht)
        · rename_i hz
          obtain ⟨q1, q2, q3⟩ := stepOk_lo_rm hS hu hpc c hop hit hkey { th with pc := .ulo hd (some it), tLin := now } rfl (Or.inr ⟨rfl, hnn hz⟩)
          have hm : mvInsert (eraseRm s1 hd (s.hf th.op.key hd) it) th it = eraseRm s1 hd (s.hf th.op.key hd) it := by
            unfold mvInsert; simp [hmv]
          exact StepOk.mk' (eraseRm s1 hd (s.hf th.op.key hd) it) { th with pc := .ulo hd (some it), tLin := now } hm rfl q1 q2
            (fun t ht _ _ _ => q3 t ht)
  · exact stepOk_stay hS hu hT

end ParsecVerif.HashTable
