import ParsecVerif.Proofs.RwLock
/-! Preservation of the invariant by the writer-side transitions; the invariant in all reachable states. -/
namespace ParsecVerif.RwLock

theorem t_wAdd (s : State) (k t : Nat) (prog : List Kind) (h : Inv s) (hk : s.th[k]? = some ⟨.wAdd t, prog⟩) :
    Inv (stepT 0 s k (.wAdd t) prog) := by
  have mv := moves s.th k _ ⟨.wSpin2 t s.rin, prog⟩ hk
  mv20 mv
  have hme := h.pt k _ hk
  obtain ⟨hsx, hc, hd1, hd2, hph, hpt, hu, hex⟩ := h
  simp only [stepT, setT, Nat.mod_zero]
  simp only [Phase, H, Rent, n] at hsx hc hd1 hd2 hph
  simp only [PT, PTv] at hme
  subst hme
  refine ⟨?_, ?_, ?_, ?_, ?_, ?_, ?_, ?_⟩
  · simp only [n]; omega
  · simp only [n, H]; omega
  · exact hd1
  · simp only [n, Rent]
    rcases hph with hA | hB | hC | hD <;> omega
  · phase_all hph
  · apply forall_set
    · simp only [PT, PTv, Q0, Q1, Rent, n]
      refine ⟨trivial, ?_, ?_⟩ <;> intro hp <;> rcases hph with hA | hB | hC | hD <;> omega
    · same_view hpt
  · exact u_frame _ _ _ (by intro t; simp) hu
  · refine ex_frame _ _ _ _ hk (by intro t; simp) _ _ _ _ ?_ (Nat.le_refl _) hex
    simp only [H, n]; omega

theorem t_wSpin2Pass (s : State) (k t rt : Nat) (prog : List Kind) (h : Inv s) (hk : s.th[k]? = some ⟨.wSpin2 t rt, prog⟩)
    (hr : s.rout = rt) : Inv (stepT 0 s k (.wSpin2 t rt) prog) := by
  have mv := moves s.th k _ ⟨.wFence t, prog⟩ hk
  mv20 mv
  have hme := h.pt k _ hk
  obtain ⟨hsx, hc, hd1, hd2, hph, hpt, hu, hex⟩ := h
  simp only [stepT, setT, if_pos hr]
  simp only [Phase, H, Rent, n] at hsx hc hd1 hd2 hph
  simp only [PT, PTv, Q0, Q1, Rent, n] at hme
  refine ⟨?_, ?_, ?_, ?_, ?_, ?_, ?_, ?_⟩
  · simp only [n]; omega
  · simp only [n, H]; omega
  · exact hd1
  · simp only [n, Rent]; omega
  · phase_all hph
  · apply forall_set
    · simp only [PT, PTv]; omega
    · same_view hpt
  · exact u_frame _ _ _ (by intro t; simp) hu
  · refine ex_frame _ _ _ _ hk (by intro t; simp) _ _ _ _ ?_ (Nat.le_refl _) hex
    simp only [H, n]; omega

theorem t_wSpin2 (s : State) (k t rt : Nat) (prog : List Kind) (h : Inv s) (hk : s.th[k]? = some ⟨.wSpin2 t rt, prog⟩) :
    Inv (stepT 0 s k (.wSpin2 t rt) prog) := by
  by_cases hr : s.rout = rt
  · exact t_wSpin2Pass s k t rt prog h hk hr
  · simp only [stepT, hr, if_false]; exact h

theorem t_wAnd (s : State) (k t : Nat) (prog : List Kind) (h : Inv s) (hk : s.th[k]? = some ⟨.wAnd t, prog⟩) :
    Inv (stepT 0 s k (.wAnd t) prog) := by
  have mv := moves s.th k _ ⟨.wLoad t, prog⟩ hk
  mv20 mv
  have hme := h.pt k _ hk
  obtain ⟨hsx, hc, hd1, hd2, hph, hpt, hu, hex⟩ := h
  simp only [stepT, setT]
  simp only [Phase, H, Rent, n] at hsx hc hd1 hd2 hph
  refine ⟨?_, ?_, ?_, ?_, ?_, ?_, ?_, ?_⟩
  · simp only [n]; omega
  · simp only [n, H]; omega
  · exact hd1
  · simp only [n, Rent]; omega
  · phase_all hph
  · apply forall_set
    · simp only [PT, PTv] at hme ⊢; omega
    · same_view hpt
  · exact u_frame _ _ _ (by intro t; simp) hu
  · refine ex_frame _ _ _ _ hk (by intro t; simp) _ _ _ _ ?_ (Nat.le_refl _) hex
    simp only [H, n]; omega

theorem W1at_set_self (l : List Thread) (k : Nat) (y : Thread) (t q : Nat) (hk : k < l.length) (hy : y.pc = .wSpin1 t) :
    W1at (l.set k y) k q ↔ q = t := by
  unfold W1at
  rw [List.getElem?_set]
  simp [hk]
  constructor
  · intro h; rw [hy] at h; cases h; rfl
  · intro h; rw [hy, h]

theorem t_wTick (s : State) (k : Nat) (prog : List Kind) (h : Inv s) (hk : s.th[k]? = some ⟨.wTick, prog⟩) :
    Inv (stepT 0 s k .wTick prog) := by
  have mv := moves s.th k _ ⟨.wSpin1 s.win, prog⟩ hk
  mv20 mv
  obtain ⟨hlen, _⟩ := getElem_of_getElem? hk
  obtain ⟨hsx, hc, hd1, hd2, hph, hpt, hu, hex⟩ := h
  simp only [stepT, setT, Nat.mod_zero]
  have hH : H s = cnt Cls.wAdd s.th + cnt Cls.wS2 s.th + cnt Cls.wF s.th + cnt Cls.wIn s.th + cnt Cls.wWmb s.th +
      cnt Cls.wAnd s.th + cnt Cls.wLoad s.th + cnt Cls.wStore s.th := rfl
  simp only [Phase, H, Rent, n] at hsx hc hd1 hd2 hph
  refine ⟨?_, ?_, ?_, ?_, ?_, ?_, ?_, ?_⟩
  · simp only [n]; omega
  · simp only [n, H]; omega
  · exact hd1
  · simp only [n, Rent]; omega
  · phase_all hph
  · apply forall_set
    · simp only [PT, PTv, H, n]; omega
    · intro i th hne hith
      refine PT_frame _ _ _ (hpt i th hith) rfl (Nat.le_succ _) ?_ ?_ ?_
      · simp only [H, n]; omega
      · intro _; simp only [Q0, Rent, n]; omega
      · intro _; simp only [Q1, Rent, n]; omega
  · -- the new ticket is larger than every ticket in use
    intro i j q hi hj
    have old : ∀ i', i' ≠ k → W1at s.th i' q → q < s.win := by
      intro i' _ ⟨th, hth, hp⟩
      have := hpt i' th hth
      rw [hp] at this
      simp only [PT, PTv] at this
      omega
    by_cases hik : i = k <;> by_cases hjk : j = k
    · omega
    · subst hik
      have h1 := (W1at_set_self s.th i ⟨.wSpin1 s.win, prog⟩ s.win q hlen rfl).1 hi
      have h2 := old j hjk ((W1at_set_ne _ _ _ _ _ hjk).1 hj)
      omega
    · subst hjk
      have h1 := (W1at_set_self s.th j ⟨.wSpin1 s.win, prog⟩ s.win q hlen rfl).1 hj
      have h2 := old i hik ((W1at_set_ne _ _ _ _ _ hik).1 hi)
      omega
    · exact hu i j q ((W1at_set_ne _ _ _ _ _ hik).1 hi) ((W1at_set_ne _ _ _ _ _ hjk).1 hj)
  · intro q h1 h2
    by_cases hq : q = s.win
    · exact ⟨k, (W1at_set_self s.th k ⟨.wSpin1 s.win, prog⟩ s.win q hlen rfl).2 hq⟩
    · have h1' : s.wout + H s ≤ q := by
        simp only [H, n] at h1
        rw [hH]; omega
      have h2' : q < s.win := by
        have : q < s.win + 1 := h2
        omega
      obtain ⟨i, hi⟩ := hex q h1' h2'
      have hik : i ≠ k := by
        rintro rfl
        obtain ⟨th, hth, hp⟩ := hi
        rw [hk] at hth; cases hth; cases hp
      exact ⟨i, (W1at_set_ne _ _ _ _ _ hik).2 hi⟩

theorem t_wSpin1Pass (s : State) (k t : Nat) (prog : List Kind) (h : Inv s) (hk : s.th[k]? = some ⟨.wSpin1 t, prog⟩)
    (hw : s.wout = t) : Inv (stepT 0 s k (.wSpin1 t) prog) := by
  have mv := moves s.th k _ ⟨.wAdd t, prog⟩ hk
  mv20 mv
  have hme := h.pt k _ hk
  obtain ⟨hsx, hc, hd1, hd2, hph, hpt, hu, hex⟩ := h
  simp only [stepT, setT, if_pos hw]
  have hH : H s = cnt Cls.wAdd s.th + cnt Cls.wS2 s.th + cnt Cls.wF s.th + cnt Cls.wIn s.th + cnt Cls.wWmb s.th +
      cnt Cls.wAnd s.th + cnt Cls.wLoad s.th + cnt Cls.wStore s.th := rfl
  simp only [PT, PTv] at hme
  rw [hH] at hme
  simp only [Phase, H, Rent, n] at hsx hc hd1 hd2 hph
  refine ⟨?_, ?_, ?_, ?_, ?_, ?_, ?_, ?_⟩
  · simp only [n]; omega
  · simp only [n, H]; omega
  · exact hd1
  · simp only [n, Rent]; omega
  · phase_all hph
  · apply forall_set
    · simp only [PT, PTv]; omega
    · intro i th hne hith
      by_cases hc1 : cls th.pc = .wS1
      · -- another waiting writer: its ticket differs from the mover's, hence is larger than wout
        have hold := hpt i th hith
        obtain ⟨p, pr⟩ := th
        cases p <;> simp only [cls, reduceCtorEq] at hc1
        · rename_i w; split at hc1 <;> (try split at hc1) <;> simp at hc1
        · rename_i t'
          have hne' : t' ≠ t := by
            intro he
            subst he
            exact hne (hu i k t' ⟨_, hith, rfl⟩ ⟨_, hk, rfl⟩)
          simp only [PT, PTv] at hold ⊢
          omega
      · refine PT_frame_noS1 _ _ _ (hpt i th hith) hc1 rfl ?_ ?_
        · intro _; simp only [Q0, Rent, n]; omega
        · intro _; simp only [Q1, Rent, n]; omega
  · exact u_frame _ _ _ (by intro t; simp) hu
  · intro q h1 h2
    have h1' : s.wout + H s ≤ q := by
      simp only [H, n] at h1
      rw [hH]; omega
    obtain ⟨i, hi⟩ := hex q h1' h2
    have hik : i ≠ k := by
      rintro rfl
      obtain ⟨th, hth, hp⟩ := hi
      rw [hk] at hth; cases hth; cases hp
      simp only [H, n] at h1
      omega
    exact ⟨i, (W1at_set_ne _ _ _ _ _ hik).2 hi⟩

theorem t_wSpin1 (s : State) (k t : Nat) (prog : List Kind) (h : Inv s) (hk : s.th[k]? = some ⟨.wSpin1 t, prog⟩) :
    Inv (stepT 0 s k (.wSpin1 t) prog) := by
  by_cases hw : s.wout = t
  · exact t_wSpin1Pass s k t prog h hk hw
  · simp only [stepT, if_neg hw]; exact h

theorem t_wStore (s : State) (k t v : Nat) (prog : List Kind) (h : Inv s) (hk : s.th[k]? = some ⟨.wStore t v, prog⟩) :
    Inv (stepT 0 s k (.wStore t v) prog) := by
  have mv := moves s.th k _ ⟨.idle, prog⟩ hk
  mv20 mv
  have hme := h.pt k _ hk
  obtain ⟨hsx, hc, hd1, hd2, hph, hpt, hu, hex⟩ := h
  simp only [stepT, setT, Nat.mod_zero]
  have hH : H s = cnt Cls.wAdd s.th + cnt Cls.wS2 s.th + cnt Cls.wF s.th + cnt Cls.wIn s.th + cnt Cls.wWmb s.th +
      cnt Cls.wAnd s.th + cnt Cls.wLoad s.th + cnt Cls.wStore s.th := rfl
  simp only [PT, PTv] at hme
  obtain ⟨rfl, rfl⟩ := hme
  simp only [Phase, H, Rent, n] at hsx hc hd1 hd2 hph
  refine ⟨?_, ?_, ?_, ?_, ?_, ?_, ?_, ?_⟩
  · simp only [n]; omega
  · simp only [n, H]; omega
  · exact hd1
  · simp only [n, Rent]; omega
  · phase_all hph
  · apply forall_set
    · trivial
    · intro i th hne hith
      have hold := hpt i th hith
      have hpos := cnt_pos_other s.th k i ⟨.idle, prog⟩ th hne hith
      obtain ⟨p, pr⟩ := th
      simp only [PT] at hold ⊢
      rw [hH] at hold
      cases p <;> simp only [PTv, cls] at hold hpos ⊢ <;>
        first
        | trivial
        | exact hold
        | (simp only [H, n] at hold ⊢; rcases hph with hA | hB | hC | hD <;> omega)
        | (rcases hph with hA | hB | hC | hD <;> omega)
  · exact u_frame _ _ _ (by intro t; simp) hu
  · refine ex_frame _ _ _ _ hk (by intro t; simp) _ _ _ _ ?_ (Nat.le_refl _) hex
    simp only [H, n]; omega

/-! ## The invariant holds in every reachable state of the machine over the naturals -/

theorem inv_step (s : State) (k : Nat) (h : Inv s) : Inv (step 0 s k) := by
  unfold step
  cases hk : s.th[k]? with
  | none => exact h
  | some th =>
    obtain ⟨pc, prog⟩ := th
    show Inv (stepT 0 s k pc prog)
    cases pc with
    | idle =>
      cases prog with
      | nil => exact t_idle_nil s k h hk
      | cons a p => cases a with
        | rd => exact t_idle_rd s k p h hk
        | wr => exact t_idle_wr s k p h hk
    | done => exact h
    | rAdd => exact t_rAdd s k prog h hk
    | rSpin w => exact t_rSpin s k prog w h hk
    | rFence => exact t_rFence s k prog h hk
    | rIn => exact t_rIn s k prog h hk
    | rWmb => exact t_rWmb s k prog h hk
    | rOut => exact t_rOut s k prog h hk
    | wTick => exact t_wTick s k prog h hk
    | wSpin1 t => exact t_wSpin1 s k t prog h hk
    | wAdd t => exact t_wAdd s k t prog h hk
    | wSpin2 t rt => exact t_wSpin2 s k t rt prog h hk
    | wFence t => exact t_wFence s k t prog h hk
    | wIn t => exact t_wIn s k t prog h hk
    | wWmb t => exact t_wWmb s k t prog h hk
    | wAnd t => exact t_wAnd s k t prog h hk
    | wLoad t => exact t_wLoad s k t prog h hk
    | wStore t v => exact t_wStore s k t v prog h hk

theorem cnt_init (c : Cls) (progs : List (List Kind)) :
    cnt c (progs.map fun p => (⟨.idle, p⟩ : Thread)) = if c = .idle then progs.length else 0 := by
  unfold cnt
  have : ((progs.map fun p => (⟨.idle, p⟩ : Thread)).map fun t => cls t.pc) = List.replicate progs.length Cls.idle := by
    induction progs with
    | nil => rfl
    | cons p ps ih => simp only [List.map_cons, List.length_cons, List.replicate_succ, ih]; rfl
  rw [this, List.count_replicate]
  by_cases hc : c = .idle
  · subst hc; simp
  · have h2 : ¬ (Cls.idle = c) := fun h => hc h.symm
    simp [hc, h2]

theorem inv_init (a b : Nat) (progs : List (List Kind)) : Inv (init a b progs) := by
  have hc := fun c => cnt_init c progs
  have hidle : ∀ (i : Nat) (th : Thread), (init a b progs).th[i]? = some th → th.pc = .idle := by
    intro i th h
    simp only [init, List.getElem?_map] at h
    cases hp : progs[i]? with
    | none => rw [hp] at h; cases h
    | some p => rw [hp] at h; cases h; rfl
  refine ⟨?_, ?_, ?_, ?_, ?_, ?_, ?_, ?_⟩
  · simp [n, init, hc]
  · simp [n, H, init, hc]
  · simp only [init]; omega
  · simp only [n, Rent, init, hc]; simp
  · refine Or.inl ?_
    simp only [n, init, hc]; simp
  · intro i th h
    rw [hidle i th h]; trivial
  · intro i j t ⟨th, h, hp⟩
    rw [hidle i th h] at hp; cases hp
  · intro k h1 h2
    simp only [init] at h1 h2
    omega

theorem inv_run (s : State) (sched : List Nat) (h : Inv s) : Inv (run 0 s sched) := by
  unfold run
  induction sched generalizing s with
  | nil => exact h
  | cons t ts ih => exact ih _ (inv_step s t h)

theorem inv_reach (a b : Nat) (progs : List (List Kind)) (sched : List Nat) :
    Inv (run 0 (init a b progs) sched) := inv_run _ _ (inv_init a b progs)

end ParsecVerif.RwLock
