import ParsecVerif.Model.Reshape
import ParsecVerif.Props.C19
import ParsecVerif.Proofs.FutureDC
/-!
  Lemmas for C18: pack / unpack, the element lists of the real datatypes (through C19), the heap machine.
-/
namespace ParsecVerif.Reshape
open ParsecVerif.MatrixTypes ParsecVerif.Future

/-! ## unpack -/

theorem unpack_length : ∀ (offs : List Nat) (vals : List Int) (m : Mem), (unpack offs vals m).length = m.length
  | [], _, _ => by simp [unpack]
  | _ :: _, [], _ => by simp [unpack]
  | o :: os, v :: vs, m => by
    simp only [unpack]
    rw [unpack_length os vs (m.set o v)]; simp

theorem rd_set_self (m : Mem) (o : Nat) (v : Int) (h : o < m.length) : rd (m.set o v) o = v := by
  simp [rd, List.getElem?_set_self h]

theorem rd_set_ne (m : Mem) (o x : Nat) (v : Int) (h : o ≠ x) : rd (m.set o v) x = rd m x := by
  simp [rd, List.getElem?_set_ne h]

/-- cells outside the first `|vals|` elements of the type are untouched -/
theorem rd_unpack_not_mem : ∀ (offs : List Nat) (vals : List Int) (m : Mem) (x : Nat),
    x ∉ offs.take vals.length → rd (unpack offs vals m) x = rd m x
  | [], _, _, _, _ => by simp [unpack]
  | _ :: _, [], _, _, _ => by simp [unpack]
  | o :: os, v :: vs, m, x, h => by
    simp only [unpack]
    simp only [List.length_cons, List.take_succ_cons, List.mem_cons, not_or] at h
    rw [rd_unpack_not_mem os vs (m.set o v) x h.2]
    exact rd_set_ne m o x v (fun e => h.1 e.symm)

/-- the k-th element of the type receives the k-th value of the stream -/
theorem rd_unpack_get : ∀ (offs : List Nat) (vals : List Int) (m : Mem), offs.Nodup → (∀ o ∈ offs, o < m.length) →
    ∀ (k : Nat) (hk : k < offs.length) (hv : k < vals.length), rd (unpack offs vals m) offs[k] = vals[k]
  | [], _, _, _, _, k, hk, _ => by simp at hk
  | _ :: _, [], _, _, _, k, _, hv => by simp at hv
  | o :: os, v :: vs, m, hnd, hb, k, hk, hv => by
    simp only [unpack]
    have hnd' := List.nodup_cons.1 hnd
    cases k with
    | zero =>
      simp only [List.getElem_cons_zero]
      rw [rd_unpack_not_mem os vs (m.set o v) o (fun h => hnd'.1 (List.mem_of_mem_take h))]
      exact rd_set_self m o v (hb o (List.mem_cons_self))
    | succ k =>
      simp only [List.getElem_cons_succ]
      exact rd_unpack_get os vs (m.set o v) hnd'.2
        (by intro o' ho'; rw [List.length_set]; exact hb o' (List.mem_cons_of_mem _ ho')) k
        (by simpa using hk) (by simpa using hv)

theorem pack_length (offs : List Nat) (m : Mem) : (pack offs m).length = offs.length := by simp [pack]

theorem pack_get (offs : List Nat) (m : Mem) (k : Nat) (hk : k < offs.length) :
    (pack offs m)[k]'(by rw [pack_length]; exact hk) = rd m offs[k] := by simp [pack]

/-! ## the element lists of the real datatypes -/

theorem typeOffs_eq (s : Shape) (m n ld : Nat) :
    typeOffs s m n ld = regionOffsets s.uplo (C19.withDiag s.diag) m n ld := by
  obtain ⟨t, h1, h2, _⟩ := C19.exact s.uplo s.diag m n ld (-1)
  unfold typeOffs; rw [h1]; exact h2

theorem mem_region (uplo : Nat) (wd : Bool) (m n ld x : Nat) :
    x ∈ regionOffsets uplo wd m n ld ↔ ∃ i j, i < m ∧ j < n ∧ inRegion uplo wd i j = true ∧ x = j * ld + i := by
  simp only [regionOffsets, List.mem_flatMap, List.mem_map, List.mem_filter, List.mem_range]
  constructor
  · rintro ⟨j, hj, i, ⟨hi, hr⟩, rfl⟩; exact ⟨i, j, hi, hj, hr, rfl⟩
  · rintro ⟨i, j, hi, hj, hr, rfl⟩; exact ⟨j, hj, i, ⟨hi, hr⟩, rfl⟩

/-- every selected element lies inside the footprint of the tile -/
theorem region_lt_footprint (uplo : Nat) (wd : Bool) (m n ld x : Nat) (h : x ∈ regionOffsets uplo wd m n ld) :
    x < footprint m n ld := by
  obtain ⟨i, j, hi, hj, _, rfl⟩ := (mem_region uplo wd m n ld x).1 h
  have : j * ld ≤ (n - 1) * ld := Nat.mul_le_mul_right _ (by omega)
  unfold footprint; omega

theorem region_nodup (uplo : Nat) (wd : Bool) (m n ld : Nat) (hld : m ≤ ld) : (regionOffsets uplo wd m n ld).Nodup :=
  (C19.region_increasing uplo wd m n ld hld).imp (fun h => Nat.ne_of_lt h)

/-! ## the heap machine -/

theorem addIfNew_prefix (env : Env) (heap : List (Nat × Mem)) (fu : Fut) : heap <+: addIfNew env heap fu := by
  unfold addIfNew; split
  · exact List.prefix_append _ _
  · exact List.prefix_refl _

theorem foldl_addIfNew_prefix (env : Env) : ∀ (futs : List Fut) (heap : List (Nat × Mem)), heap <+: futs.foldl (addIfNew env) heap
  | [], _ => List.prefix_refl _
  | fu :: fs, heap => (addIfNew_prefix env heap fu).trans (foldl_addIfNew_prefix env fs _)

theorem hstep_prefix (cfg : Cfg) (env : Env) (s : HState) (t : Nat) : s.heap <+: (hstep cfg env s t).heap :=
  foldl_addIfNew_prefix env _ _

theorem hrun_append (cfg : Cfg) (env : Env) (b : Nat) (pre : Bool) (progs : List (List DOp)) (sched more : List Nat) :
    hrun cfg env b pre progs (sched ++ more) = more.foldl (hstep cfg env) (hrun cfg env b pre progs sched) := by
  simp [hrun, List.foldl_append]

theorem foldl_hstep_prefix (cfg : Cfg) (env : Env) : ∀ (more : List Nat) (s : HState), s.heap <+: (more.foldl (hstep cfg env) s).heap
  | [], _ => List.prefix_refl _
  | t :: ts, s => (hstep_prefix cfg env s t).trans (foldl_hstep_prefix cfg env ts _)

/-- the `d` component of the heap machine is C29's machine -/
theorem hrun_d (cfg : Cfg) (env : Env) (b : Nat) (pre : Bool) (progs : List (List DOp)) (sched : List Nat) :
    (hrun cfg env b pre progs sched).d = drun cfg b pre progs sched := by
  unfold hrun drun
  have : ∀ (l : List Nat) (s : HState), (l.foldl (hstep cfg env) s).d = l.foldl (dstep cfg) s.d := by
    intro l; induction l with
    | nil => intro s; rfl
    | cons t ts ih => intro s; simp only [List.foldl_cons]; rw [ih]; rfl
  rw [this]; rfl

/-- every copy of the heap except the producer's tile is the reshape for the request its handle names -/
def TailOk (env : Env) (heap : List (Nat × Mem)) : Prop := ∀ e ∈ heap.tail, ∃ sh : Nat, e = (valOf 1 sh, copyFor env sh)

def Keys (heap : List (Nat × Mem)) : List Nat := heap.map (·.1)

theorem tail_append_of_ne {α} (l : List α) (a : α) (h : l ≠ []) : (l ++ [a]).tail = l.tail ++ [a] := by
  cases l with
  | nil => exact absurd rfl h
  | cons x xs => rfl

theorem not_mem_keys_of_hasKey_false (heap : List (Nat × Mem)) (v : Nat) (h : hasKey heap v = false) : v ∉ Keys heap := by
  intro hm
  obtain ⟨e, he, hv⟩ := List.mem_map.1 hm
  have : hasKey heap v = true := List.any_eq_true.2 ⟨e, he, by simpa using hv⟩
  rw [h] at this; cases this

theorem addIfNew_inv (env : Env) (heap : List (Nat × Mem)) (fu : Fut) (hfu : fu.compl = true → fu.data = valOf 1 fu.shape)
    (hne : heap ≠ []) (h : TailOk env heap) (hk : (Keys heap).Nodup) :
    TailOk env (addIfNew env heap fu) ∧ addIfNew env heap fu ≠ [] ∧ (Keys (addIfNew env heap fu)).Nodup := by
  unfold addIfNew; split
  · rename_i hc
    refine ⟨?_, by simp, ?_⟩
    · intro e he
      rw [tail_append_of_ne _ _ hne] at he
      rcases List.mem_append.1 he with he | he
      · exact h e he
      · refine ⟨fu.shape, ?_⟩
        rw [← hfu hc.1]; simpa using he
    · unfold Keys
      rw [List.map_append, List.nodup_append]
      refine ⟨hk, by simp, ?_⟩
      intro a ha b hb
      simp only [List.map_cons, List.map_nil, List.mem_singleton] at hb
      subst hb
      intro hab; subst hab
      exact not_mem_keys_of_hasKey_false heap _ hc.2 ha
  · exact ⟨h, hne, hk⟩

theorem foldl_addIfNew_inv (env : Env) : ∀ (futs : List Fut) (heap : List (Nat × Mem)),
    (∀ fu ∈ futs, fu.compl = true → fu.data = valOf 1 fu.shape) → heap ≠ [] → TailOk env heap → (Keys heap).Nodup →
    TailOk env (futs.foldl (addIfNew env) heap) ∧ futs.foldl (addIfNew env) heap ≠ [] ∧ (Keys (futs.foldl (addIfNew env) heap)).Nodup
  | [], _, _, hne, h, hk => ⟨h, hne, hk⟩
  | fu :: fs, heap, hf, hne, h, hk => by
    have := addIfNew_inv env heap fu (hf fu List.mem_cons_self) hne h hk
    exact foldl_addIfNew_inv env fs _ (fun x hx => hf x (List.mem_cons_of_mem _ hx)) this.2.1 this.1 this.2.2

/-- invariant of the heap machine -/
structure HInv (cfg : Cfg) (env : Env) (s : HState) : Prop where
  d : FutureDC.DInv cfg s.d
  ne : s.heap ≠ []
  tail : TailOk env s.heap
  keys : (Keys s.heap).Nodup
  compl : ∀ fu ∈ s.d.futs, fu.compl = true → hasKey s.heap fu.data = true

/-- after a step every completed future's handle names a copy of the heap -/
theorem hasKey_append (heap : List (Nat × Mem)) (e : Nat × Mem) (v : Nat) :
    hasKey (heap ++ [e]) v = (hasKey heap v || decide (e.1 = v)) := by
  simp [hasKey, List.any_append]

theorem hasKey_of_prefix {h1 h2 : List (Nat × Mem)} (hp : h1 <+: h2) (v : Nat) (h : hasKey h1 v = true) : hasKey h2 v = true := by
  obtain ⟨l, rfl⟩ := hp
  simp only [hasKey, List.any_append, Bool.or_eq_true] at *
  exact Or.inl h

theorem foldl_addIfNew_keys (env : Env) : ∀ (futs : List Fut) (heap : List (Nat × Mem)),
    ∀ fu ∈ futs, fu.compl = true → hasKey (futs.foldl (addIfNew env) heap) fu.data = true
  | [], _, fu, hfu, _ => by simp at hfu
  | f :: fs, heap, fu, hfu, hc => by
    simp only [List.foldl_cons]
    rcases List.mem_cons.1 hfu with rfl | hfu
    · apply hasKey_of_prefix (foldl_addIfNew_prefix env fs _)
      unfold addIfNew
      by_cases hk : hasKey heap fu.data = true
      · rw [if_neg (by simp [hk])]; exact hk
      · rw [if_pos ⟨hc, by simpa using hk⟩, hasKey_append]; simp
    · exact foldl_addIfNew_keys env fs _ fu hfu hc

/-- first entry with a given key -/
theorem lookup_of_hasKey (heap : List (Nat × Mem)) (v : Nat) (h : hasKey heap v = true) :
    ∃ e ∈ heap, e.1 = v ∧ lookup heap v = some e.2 := by
  unfold hasKey at h
  unfold lookup
  cases hf : heap.find? (fun e => decide (e.1 = v)) with
  | none =>
    rw [List.find?_eq_none] at hf
    obtain ⟨e, he, hv⟩ := List.any_eq_true.1 h
    exact absurd hv (hf e he)
  | some e =>
    refine ⟨e, List.mem_of_find?_eq_some hf, ?_, rfl⟩
    simpa using List.find?_some hf

end ParsecVerif.Reshape

namespace ParsecVerif.Reshape
open ParsecVerif.MatrixTypes ParsecVerif.Future

theorem hinv_step (cfg : Cfg) (env : Env) (s : HState) (t : Nat) (h : HInv cfg env s) : HInv cfg env (hstep cfg env s t) := by
  have hd := FutureDC.dinv_step cfg s.d t h.d
  have hf : ∀ fu ∈ (dstep cfg s.d t).futs, fu.compl = true → fu.data = valOf 1 fu.shape := fun fu hfu => (hd.futs fu hfu).2
  have := foldl_addIfNew_inv env (dstep cfg s.d t).futs s.heap hf h.ne h.tail h.keys
  exact ⟨hd, this.2.1, this.1, this.2.2, fun fu hfu hc => foldl_addIfNew_keys env _ _ fu hfu hc⟩

theorem hinv_init (cfg : Cfg) (env : Env) (b : Nat) (pre : Bool) (progs : List (List DOp)) : HInv cfg env (hinit env b pre progs) := by
  refine ⟨FutureDC.dinv_init cfg b pre progs, by simp [hinit], by intro e he; simp [hinit] at he, by simp [hinit, Keys], ?_⟩
  intro fu hfu hc
  simp only [hinit, dinit, List.mem_singleton] at hfu
  cases pre with
  | true => subst hfu; simp [hinit, hasKey]
  | false => subst hfu; simp [newFut] at hc

theorem hinv_run (cfg : Cfg) (env : Env) (b : Nat) (pre : Bool) (progs : List (List DOp)) (sched : List Nat) :
    HInv cfg env (hrun cfg env b pre progs sched) := by
  unfold hrun
  have : ∀ (l : List Nat) (s : HState), HInv cfg env s → HInv cfg env (l.foldl (hstep cfg env) s) := by
    intro l; induction l with
    | nil => intro s h; exact h
    | cons t ts ih => intro s h; exact ih _ (hinv_step cfg env s t h)
  exact this _ _ (hinv_init cfg env b pre progs)

theorem valOf_inj (a b : Nat) (h : valOf 1 a = valOf 1 b) : a = b := by unfold valOf at h; omega

end ParsecVerif.Reshape
