import ParsecVerif.Proofs.TermdetLocal
/-! Preservation of the invariant by one thread step (program points of set_nb_tasks / set_runtime_actions). -/
namespace ParsecVerif.TermdetLocal

set_option maxHeartbeats 4000000 in
theorem local_sCas (sh : Shared) (th : Thread) (S S' : Sums) (v ov : Int) (hpc : th.pc = .sCas v ov)
    (hI : Inv' sh S) (hF : Facts S (W th)) (hen : enabled sh th)
    (hM : Moves S S' (W th) (W (tstep sh th).2)) : Inv' (tstep sh th).1 S' := by
  prelude
  unf
  by_cases h0 : nt = ov
  · subst h0
    by_cases hc : nt = 0 ∧ v > 0
    · smp [hc]
      finish
    · by_cases hd : nt > 0 ∧ v = 0
      · smp [hc, hd]
        finish
      · smp [hc, hd]
        finish
  · smp [h0]
    finish

set_option maxHeartbeats 4000000 in
theorem local_aCas (sh : Shared) (th : Thread) (S S' : Sums) (v ov : Int) (hpc : th.pc = .aCas v ov)
    (hI : Inv' sh S) (hF : Facts S (W th)) (hen : enabled sh th)
    (hM : Moves S S' (W th) (W (tstep sh th).2)) : Inv' (tstep sh th).1 S' := by
  prelude
  unf
  by_cases h0 : npa = ov
  · subst h0
    by_cases hc : mon = 2 ∧ v = 0
    · smp [hc]
      finish
    · smp [hc]
      finish
  · smp [h0]
    finish

end ParsecVerif.TermdetLocal
