import ParsecVerif.Proofs.ZoneTable
/-! Helper lemmas for C28: the simulation between the code-level model and the list of runs. -/
namespace ParsecVerif.Zone

/-! ### membership in `starts` around a distinguished run -/

theorem mem_starts_mid (A B : List Run) (r : Run) (x : Nat × Nat × Nat) :
    x ∈ starts (A ++ r :: B) 0 ↔ x ∈ starts A 0 ∨ x = (usum A, r.1, r.2) ∨ x ∈ starts B (usum A + r.2) := by
  rw [starts_append]; simp [starts]

theorem mem_starts_mid2 (A B : List Run) (r r' : Run) (x : Nat × Nat × Nat) :
    x ∈ starts (A ++ r :: r' :: B) 0 ↔
      x ∈ starts A 0 ∨ x = (usum A, r.1, r.2) ∨ x = (usum A + r.2, r'.1, r'.2) ∨ x ∈ starts B (usum A + r.2 + r'.2) := by
  rw [starts_append]; simp [starts]

theorem starts_A_lt (A : List Run) (hp : Pos A) (t st u : Nat) (h : (t, st, u) ∈ starts A 0) : t < usum A := by
  have := mem_starts_bounds A 0 t st u h
  have := mem_starts_pos A hp 0 t st u h
  omega

theorem starts_B_ge (B : List Run) (off t st u : Nat) (h : (t, st, u) ∈ starts B off) : off ≤ t :=
  (mem_starts_bounds B off t st u h).1

/-- the free lists hold the EMPTY runs of L, except the one starting at c -/
def FLm (D : FL) (L : List Run) (c : Nat) : Prop :=
  ∀ k t, t ∈ bucket D k ↔ ((t, 1, k) ∈ starts L 0 ∧ t ≠ c)

theorem flm_final (D : FL) (hD : FLOk D) (L : List Run) (hp : Pos L) (c m : Nat) (h : FLm D L c)
    (hc : (c, 1, m) ∈ starts L 0) :
    FLOk (flFindOrInsertPush D m c) ∧ ∀ k t, t ∈ bucket (flFindOrInsertPush D m c) k ↔ (t, 1, k) ∈ starts L 0 := by
  refine ⟨flok_flAdd hD m c (fun hin => ((h m c).1 hin).2 rfl), ?_⟩
  intro k t
  rw [mem_bucket_flAdd, h]
  constructor
  · rintro (⟨rfl, rfl⟩ | ⟨h1, _⟩)
    · exact hc
    · exact h1
  · intro h1
    by_cases htc : t = c
    · subst htc
      have := starts_tid_unique L hp 0 t 1 k 1 m h1 hc
      exact Or.inl ⟨this.2, rfl⟩
    · exact Or.inr ⟨h1, htc⟩

theorem flm_merge_prev (D : FL) (hD : FLOk D) (A B : List Run) (a b : Nat)
    (hp : Pos (A ++ (1, a) :: (1, b) :: B)) (h : FLm D (A ++ (1, a) :: (1, b) :: B) (usum A + a)) :
    FLm (flDel D a (usum A)) (A ++ (1, a + b) :: B) (usum A) := by
  have hpA : Pos A := ((pos_append _ _).1 hp).1
  have ha : 0 < a := hp (1, a) (by simp)
  have hb : 0 < b := hp (1, b) (by simp)
  intro k t
  rw [mem_bucket_flDel hD, h, mem_starts_mid2, mem_starts_mid]
  simp only [Prod.mk.injEq]
  constructor
  · rintro ⟨⟨h1 | h1 | h1 | h1, h2⟩, h3⟩
    · exact ⟨Or.inl h1, by have := starts_A_lt A hpA _ _ _ h1; omega⟩
    · exact absurd ⟨h1.2.2, h1.1⟩ h3
    · exact absurd h1.1 h2
    · have := starts_B_ge _ _ _ _ _ h1
      exact ⟨Or.inr (Or.inr (by rw [show usum A + (a + b) = usum A + a + b by omega]; exact h1)), by omega⟩
  · rintro ⟨h1 | h1 | h1, h2⟩
    · have := starts_A_lt A hpA _ _ _ h1
      exact ⟨⟨Or.inl h1, by omega⟩, by omega⟩
    · exact absurd h1.1 h2
    · rw [show usum A + (a + b) = usum A + a + b by omega] at h1
      have := starts_B_ge _ _ _ _ _ h1
      exact ⟨⟨Or.inr (Or.inr (Or.inr h1)), by omega⟩, by omega⟩

theorem flm_merge_next (D : FL) (hD : FLOk D) (A B : List Run) (a b : Nat)
    (hp : Pos (A ++ (1, a) :: (1, b) :: B)) (h : FLm D (A ++ (1, a) :: (1, b) :: B) (usum A)) :
    FLm (flDel D b (usum A + a)) (A ++ (1, a + b) :: B) (usum A) := by
  have hpA : Pos A := ((pos_append _ _).1 hp).1
  have ha : 0 < a := hp (1, a) (by simp)
  have hb : 0 < b := hp (1, b) (by simp)
  intro k t
  rw [mem_bucket_flDel hD, h, mem_starts_mid2, mem_starts_mid]
  simp only [Prod.mk.injEq]
  constructor
  · rintro ⟨⟨h1 | h1 | h1 | h1, h2⟩, h3⟩
    · exact ⟨Or.inl h1, h2⟩
    · exact absurd h1.1 h2
    · exact absurd ⟨h1.2.2, h1.1⟩ h3
    · exact ⟨Or.inr (Or.inr (by rw [show usum A + (a + b) = usum A + a + b by omega]; exact h1)), h2⟩
  · rintro ⟨h1 | h1 | h1, h2⟩
    · have := starts_A_lt A hpA _ _ _ h1
      exact ⟨⟨Or.inl h1, h2⟩, by omega⟩
    · exact absurd h1.1 h2
    · rw [show usum A + (a + b) = usum A + a + b by omega] at h1
      have := starts_B_ge _ _ _ _ _ h1
      exact ⟨⟨Or.inr (Or.inr (Or.inr h1)), h2⟩, by omega⟩

/-- merging two EMPTY runs does not change the FULL runs -/
theorem full_merge (A B : List Run) (a b t u : Nat) :
    (t, 2, u) ∈ starts (A ++ (1, a) :: (1, b) :: B) 0 ↔ (t, 2, u) ∈ starts (A ++ (1, a + b) :: B) 0 := by
  rw [mem_starts_mid2, mem_starts_mid]
  simp only [Prod.mk.injEq]
  rw [show usum A + (a + b) = usum A + a + b by omega]
  constructor
  · rintro (h | h | h | h)
    · exact Or.inl h
    · exact absurd h.2.1 (by decide)
    · exact absurd h.2.1 (by decide)
    · exact Or.inr (Or.inr h)
  · rintro (h | h | h)
    · exact Or.inl h
    · exact absurd h.2.1 (by decide)
    · exact Or.inr (Or.inr (Or.inr h))

/-! ### no two adjacent EMPTY runs -/

def lastSt : List Run → Nat
  | [] => 0
  | [r] => r.1
  | _ :: r :: l => lastSt (r :: l)

def headSt : List Run → Nat
  | [] => 0
  | r :: _ => r.1

theorem lastSt_concat (A : List Run) (r : Run) : lastSt (A ++ [r]) = r.1 := by
  induction A with
  | nil => rfl
  | cons a A ih =>
    cases A with
    | nil => rfl
    | cons a' A' => simpa [lastSt] using ih

theorem noadj_iff (A B : List Run) (r : Run) :
    NoAdjE (A ++ r :: B) ↔ NoAdjE A ∧ NoAdjE B ∧ ¬(lastSt A = 1 ∧ r.1 = 1) ∧ ¬(r.1 = 1 ∧ headSt B = 1) := by
  induction A with
  | nil =>
    cases B with
    | nil => simp [NoAdjE, lastSt, headSt]
    | cons b B => simp [NoAdjE, lastSt, headSt]; exact And.comm
  | cons a A ih =>
    cases A with
    | nil =>
      have := ih
      simp only [List.nil_append, List.cons_append, NoAdjE, lastSt] at this ⊢
      rw [this]; simp [NoAdjE]
      constructor
      · rintro ⟨h1, h2, h3⟩; exact ⟨h2, h1, h3⟩
      · rintro ⟨h2, h1, h3⟩; exact ⟨h1, h2, h3⟩
    | cons a' A' =>
      simp only [List.cons_append, NoAdjE, lastSt] at ih ⊢
      rw [ih]
      constructor
      · rintro ⟨h0, h1, h2, h3, h4⟩; exact ⟨⟨h0, h1⟩, h2, h3, h4⟩
      · rintro ⟨⟨h0, h1⟩, h2, h3, h4⟩; exact ⟨h0, h1, h2, h3, h4⟩

theorem eq_nil_or_concat' (l : List Run) : l = [] ∨ ∃ l' a, l = l' ++ [a] := by
  induction l with
  | nil => exact Or.inl rfl
  | cons x l ih =>
    rcases ih with rfl | ⟨l', a, rfl⟩
    · exact Or.inr ⟨[], x, rfl⟩
    · exact Or.inr ⟨x :: l', a, rfl⟩


/-! ### the abstraction relation; zone_malloc -/

/-- the abstraction relation: the code-level state (table + free lists) and the client's ledger
    against a list of runs tiling the zone -/
structure Abs (z : St) (live : List (Nat × Nat)) (L : List Run) : Prop where
  chain : Chain z.segs 0 1 L
  total : usum L = z.segs.length
  noadj : NoAdjE L
  flok : FLOk z.fl
  flmem : ∀ k t, t ∈ bucket z.fl k ↔ (t, 1, k) ∈ starts L 0
  livemem : ∀ t u, (t, u) ∈ live ↔ (t, 2, u) ∈ starts L 0
  livenodup : live.Nodup

theorem abs_init (n unit : Nat) (hn : 0 < n) : Abs (init n unit) [] [(1, n)] := by
  refine ⟨?_, ?_, trivial, ⟨?_, ?_⟩, ?_, ?_, List.nodup_nil⟩
  · simp [init, Chain, hn]
  · simp [init, usum]; omega
  · simp [init, Sorted]
  · intro k b hb
    simp only [init, flFind] at hb
    split at hb
    · injection hb with hb; subst hb; simp
    · exact absurd hb (by simp)
  · intro k t
    simp only [init, bucket, flFind, starts, List.mem_singleton, Prod.mk.injEq]
    split
    · next h => subst h; simp
    · next h => simp; intro _ h'; exact absurd h'.symm h
  · intro t u; simp [starts]

theorem length_splitSegs (segs : List Seg) (t nb cu p : Nat) : (splitSegs segs t nb cu p).length = segs.length := by
  unfold splitSegs fixNextPrev
  split <;> simp

theorem flm_malloc_split (fl : FL) (hfl : FLOk fl) (A B : List Run) (k nb : Nat) (h0 : 0 < nb) (hk : nb < k)
    (hp : Pos (A ++ (1, k) :: B))
    (h : ∀ x t, t ∈ bucket fl x ↔ (t, 1, x) ∈ starts (A ++ (1, k) :: B) 0) :
    FLm (flDel fl k (usum A)) (A ++ (2, nb) :: (1, k - nb) :: B) (usum A + nb) := by
  have hpA : Pos A := ((pos_append _ _).1 hp).1
  intro x t
  rw [mem_bucket_flDel hfl, h, mem_starts_mid2, mem_starts_mid]
  simp only [Prod.mk.injEq]
  rw [show usum A + nb + (k - nb) = usum A + k by omega]
  constructor
  · rintro ⟨h1 | h1 | h1, h3⟩
    · exact ⟨Or.inl h1, by have := starts_A_lt A hpA _ _ _ h1; omega⟩
    · exact absurd ⟨h1.2.2, h1.1⟩ h3
    · have := starts_B_ge _ _ _ _ _ h1
      exact ⟨Or.inr (Or.inr (Or.inr h1)), by omega⟩
  · rintro ⟨h1 | h1 | h1 | h1, h2⟩
    · have := starts_A_lt A hpA _ _ _ h1
      exact ⟨Or.inl h1, by omega⟩
    · exact absurd h1.2.1 (by decide)
    · exact absurd h1.1 h2
    · have := starts_B_ge _ _ _ _ _ h1
      exact ⟨Or.inr (Or.inr h1), by omega⟩

theorem flmem_malloc_nosplit (fl : FL) (hfl : FLOk fl) (A B : List Run) (k : Nat)
    (hp : Pos (A ++ (1, k) :: B))
    (h : ∀ x t, t ∈ bucket fl x ↔ (t, 1, x) ∈ starts (A ++ (1, k) :: B) 0) :
    ∀ x t, t ∈ bucket (flDel fl k (usum A)) x ↔ (t, 1, x) ∈ starts (A ++ (2, k) :: B) 0 := by
  have hpA : Pos A := ((pos_append _ _).1 hp).1
  have hk : 0 < k := hp (1, k) (by simp)
  intro x t
  rw [mem_bucket_flDel hfl, h, mem_starts_mid, mem_starts_mid]
  simp only [Prod.mk.injEq]
  constructor
  · rintro ⟨h1 | h1 | h1, h3⟩
    · exact Or.inl h1
    · exact absurd ⟨h1.2.2, h1.1⟩ h3
    · exact Or.inr (Or.inr h1)
  · rintro (h1 | h1 | h1)
    · have := starts_A_lt A hpA _ _ _ h1
      exact ⟨Or.inl h1, by omega⟩
    · exact absurd h1.2.1 (by decide)
    · have := starts_B_ge _ _ _ _ _ h1
      exact ⟨Or.inr (Or.inr h1), by omega⟩

theorem live_malloc_split (live : List (Nat × Nat)) (A B : List Run) (k nb : Nat) (hk : nb < k)
    (h : ∀ t u, (t, u) ∈ live ↔ (t, 2, u) ∈ starts (A ++ (1, k) :: B) 0) :
    ∀ t u, (t, u) ∈ (usum A, nb) :: live ↔ (t, 2, u) ∈ starts (A ++ (2, nb) :: (1, k - nb) :: B) 0 := by
  intro t u
  rw [List.mem_cons, h, mem_starts_mid2, mem_starts_mid]
  simp only [Prod.mk.injEq]
  rw [show usum A + nb + (k - nb) = usum A + k by omega]
  constructor
  · rintro (h1 | h1 | h1 | h1)
    · exact Or.inr (Or.inl ⟨h1.1, trivial, h1.2⟩)
    · exact Or.inl h1
    · exact absurd h1.2.1 (by decide)
    · exact Or.inr (Or.inr (Or.inr h1))
  · rintro (h1 | h1 | h1 | h1)
    · exact Or.inr (Or.inl h1)
    · exact Or.inl ⟨h1.1, h1.2.2⟩
    · exact absurd h1.2.1 (by decide)
    · exact Or.inr (Or.inr (Or.inr h1))

theorem live_malloc_nosplit (live : List (Nat × Nat)) (A B : List Run) (k : Nat)
    (h : ∀ t u, (t, u) ∈ live ↔ (t, 2, u) ∈ starts (A ++ (1, k) :: B) 0) :
    ∀ t u, (t, u) ∈ (usum A, k) :: live ↔ (t, 2, u) ∈ starts (A ++ (2, k) :: B) 0 := by
  intro t u
  rw [List.mem_cons, h, mem_starts_mid, mem_starts_mid]
  simp only [Prod.mk.injEq]
  constructor
  · rintro (h1 | h1 | h1 | h1)
    · exact Or.inr (Or.inl ⟨h1.1, trivial, h1.2⟩)
    · exact Or.inl h1
    · exact absurd h1.2.1 (by decide)
    · exact Or.inr (Or.inr h1)
  · rintro (h1 | h1 | h1)
    · exact Or.inr (Or.inl h1)
    · exact Or.inl ⟨h1.1, h1.2.2⟩
    · exact Or.inr (Or.inr (Or.inr h1))


theorem bucket_of_find {fl : FL} {k : Nat} {b : List Nat} (h : flFind fl k = some b) : bucket fl k = b := by
  unfold bucket; rw [h]; rfl

theorem find_of_mem_bucket {fl : FL} {k t : Nat} (h : t ∈ bucket fl k) : ∃ b, flFind fl k = some b := by
  unfold bucket at h
  cases hf : flFind fl k with
  | none => rw [hf] at h; simp at h
  | some b => exact ⟨b, rfl⟩

/-- shape of the run list after a successful zone_malloc of nb units out of the EMPTY run (1,k) -/
def afterMalloc (A B : List Run) (k nb : Nat) : List Run :=
  if nb < k then A ++ (2, nb) :: (1, k - nb) :: B else A ++ (2, nb) :: B

theorem abs_malloc (z : St) (live : List (Nat × Nat)) (L : List Run) (h : Abs z live L) (nb : Nat) (h0 : 0 < nb)
    (z' : St) (t : Nat) (hm : mallocUnits z nb = some (z', t)) :
    ∃ A k B, L = A ++ (1, k) :: B ∧ t = usum A ∧ nb ≤ k ∧
      (∀ t' k', (t', 1, k') ∈ starts L 0 → nb ≤ k' → k ≤ k') ∧
      z'.unit = z.unit ∧ Abs z' ((t, nb) :: live) (afterMalloc A B k nb) := by
  unfold mallocUnits at hm
  cases hfl : flFindOrLarger z.fl nb with
  | none => rw [hfl] at hm; exact absurd hm (by simp)
  | some kb =>
    obtain ⟨k, b⟩ := kb
    obtain ⟨hfind, hle, hmin⟩ := findOrLarger_some z.fl h.flok.sorted nb k b hfl
    rw [hfl] at hm
    cases b with
    | nil => exact absurd (h.flok.good k [] hfind).1 (by simp)
    | cons t0 rest =>
      simp only at hm
      have hbk : bucket z.fl k = t0 :: rest := bucket_of_find hfind
      have hin : (t0, 1, k) ∈ starts L 0 := (h.flmem k t0).1 (by rw [hbk]; simp)
      obtain ⟨A, B, hL, ht0⟩ := mem_starts_split L 0 t0 1 k hin
      rw [Nat.zero_add] at ht0
      subst hL
      have hpos : Pos (A ++ (1, k) :: B) := chain_pos _ _ _ _ h.chain
      have hch := (chain_append _ _ _ _ _).1 h.chain
      simp only [Chain, Nat.zero_add] at hch
      have hseg : z.segs[t0]? = some ⟨1, k, lastU 1 A⟩ := by rw [ht0]; exact hch.2.1
      rw [hseg] at hm
      simp only [Option.some.injEq, Prod.mk.injEq] at hm
      obtain ⟨hz, ht⟩ := hm
      subst ht
      refine ⟨A, k, B, rfl, ht0, hle, ?_, ?_, ?_⟩
      · intro t' k' hs hk'
        obtain ⟨b', hb'⟩ := find_of_mem_bucket ((h.flmem k' t').2 hs)
        exact hmin k' b' hb' hk'
      · rw [← hz]; unfold mallocAt; split <;> rfl
      · have hflD : (if rest = [] then flRemoveKey (flSet z.fl k rest) k else flSet z.fl k rest) = flDel z.fl k t0 :=
          malloc_pop z.fl k t0 rest hfind
        have hna := (noadj_iff A B (1, k)).1 h.noadj
        unfold afterMalloc
        by_cases hk : nb < k
        · rw [if_pos hk]
          have hfl' : z'.fl = flFindOrInsertPush (flDel z.fl k t0) (k - nb) (t0 + nb) := by
            rw [← hz]; unfold mallocAt; simp only [if_pos (show k > nb from hk)]
            by_cases hr : rest = []
            · subst hr
              rw [if_pos rfl, split_emptied z.fl h.flok.sorted k (k - nb) (t0 + nb) (by omega)]
              rw [if_pos rfl, remove_set] at hflD
              rw [hflD]
            · rw [if_neg hr]; rw [if_neg hr] at hflD; rw [hflD]
          have hsegs' : z'.segs = splitSegs z.segs t0 nb k (lastU 1 A) := by
            rw [← hz]; unfold mallocAt; simp only [if_pos (show k > nb from hk)]
          have hchain' := chain_split z.segs A B k nb h0 hk h.chain h.total
          have hpos' : Pos (A ++ (2, nb) :: (1, k - nb) :: B) := chain_pos _ _ _ _ hchain'
          have hflm := flm_malloc_split z.fl h.flok A B k nb h0 hk hpos h.flmem
          have hfin := flm_final (flDel z.fl k (usum A)) (flok_flDel h.flok k (usum A)) _ hpos' (usum A + nb) (k - nb) hflm
            ((mem_starts_mid2 A B (2, nb) (1, k - nb) _).2 (Or.inr (Or.inr (Or.inl rfl))))
          refine ⟨?_, ?_, ?_, ?_, ?_, ?_, ?_⟩
          · rw [hsegs', ht0]; exact hchain'
          · rw [hsegs', length_splitSegs, ← h.total]; simp only [usum_append, usum]; omega
          · rw [noadj_iff A _ (2, nb)]
            refine ⟨hna.1, ?_, by simp, by simp⟩
            have := (noadj_iff [] B (1, k - nb)).2 ⟨trivial, hna.2.1, by simp [lastSt], by simpa using hna.2.2.2⟩
            simpa using this
          · rw [hfl', ht0]; exact hfin.1
          · rw [hfl', ht0]; exact hfin.2
          · rw [ht0]; exact live_malloc_split live A B k nb hk h.livemem
          · refine List.nodup_cons.2 ⟨?_, h.livenodup⟩
            intro hc
            have := starts_tid_unique _ hpos 0 t0 2 nb 1 k ((h.livemem t0 nb).1 hc) hin
            exact absurd this.1 (by decide)
        · rw [if_neg hk]
          have hkn : k = nb := by omega
          subst hkn
          have hfl' : z'.fl = flDel z.fl k t0 := by
            rw [← hz]; unfold mallocAt; simp only [if_neg (show ¬ k > k by omega)]; exact hflD
          have hsegs' : z'.segs = z.segs.set t0 ⟨2, k, lastU 1 A⟩ := by
            rw [← hz]; unfold mallocAt; simp only [if_neg (show ¬ k > k by omega)]
          refine ⟨?_, ?_, ?_, ?_, ?_, ?_, ?_⟩
          · rw [hsegs', ht0]; exact chain_restatus z.segs A B 1 2 k (Or.inr rfl) h.chain
          · rw [hsegs', List.length_set, ← h.total]; simp only [usum_append, usum]
          · rw [noadj_iff A B (2, k)]
            exact ⟨hna.1, hna.2.1, by simp, by simp⟩
          · rw [hfl']; exact flok_flDel h.flok k t0
          · rw [hfl', ht0]; exact flmem_malloc_nosplit z.fl h.flok A B k hpos h.flmem
          · rw [ht0]; exact live_malloc_nosplit live A B k h.livemem
          · refine List.nodup_cons.2 ⟨?_, h.livenodup⟩
            intro hc
            have := starts_tid_unique _ hpos 0 t0 2 k 1 k ((h.livemem t0 k).1 hc) hin
            exact absurd this.1 (by decide)

theorem abs_malloc_none (z : St) (live : List (Nat × Nat)) (L : List Run) (h : Abs z live L) (nb : Nat)
    (hm : mallocUnits z nb = none) : ∀ t' k', (t', 1, k') ∈ starts L 0 → k' < nb := by
  unfold mallocUnits at hm
  cases hfl : flFindOrLarger z.fl nb with
  | none =>
    intro t' k' hs
    obtain ⟨b', hb'⟩ := find_of_mem_bucket ((h.flmem k' t').2 hs)
    exact findOrLarger_none z.fl nb hfl k' b' hb'
  | some kb =>
    exfalso
    obtain ⟨k, b⟩ := kb
    obtain ⟨hfind, hle, hmin⟩ := findOrLarger_some z.fl h.flok.sorted nb k b hfl
    rw [hfl] at hm
    cases b with
    | nil => exact absurd (h.flok.good k [] hfind).1 (by simp)
    | cons t0 rest =>
      simp only at hm
      have hbk : bucket z.fl k = t0 :: rest := bucket_of_find hfind
      have hin : (t0, 1, k) ∈ starts L 0 := (h.flmem k t0).1 (by rw [hbk]; simp)
      obtain ⟨A, B, hL, ht0⟩ := mem_starts_split L 0 t0 1 k hin
      rw [Nat.zero_add] at ht0
      subst hL
      have hch := (chain_append _ _ _ _ _).1 h.chain
      simp only [Chain, Nat.zero_add] at hch
      have hseg : z.segs[t0]? = some ⟨1, k, lastU 1 A⟩ := by rw [ht0]; exact hch.2.1
      rw [hseg] at hm
      exact absurd hm (by simp)

/-! ### zone_free -/

/-- what holds of the locals of zone_free between its blocks: the current (already EMPTY-marked, not
    yet listed) run is (1,cu) at usum A; D is the free-list map without the chunk list possibly kept
    for reuse -/
structure Stage (c : FCtx) (m : Nat) (live' : List (Nat × Nat)) (A : List Run) (cu : Nat) (B : List Run) (D : FL) : Prop where
  ctid : c.ctid = usum A
  chain : Chain c.segs 0 1 (A ++ (1, cu) :: B)
  total : usum (A ++ (1, cu) :: B) = c.segs.length
  fl : c.fl = Mid D m c.reuse
  reuse : c.reuse = true → flFind D m = none
  dok : FLOk D
  flm : FLm D (A ++ (1, cu) :: B) (usum A)
  live : ∀ t u, (t, u) ∈ live' ↔ (t, 2, u) ∈ starts (A ++ (1, cu) :: B) 0

theorem length_addPrev (s : List Seg) (i d : Nat) : (addPrev s i d).length = s.length := by
  unfold addPrev; split <;> simp
theorem length_addUnits (s : List Seg) (i d : Nat) : (addUnits s i d).length = s.length := by
  unfold addUnits; split <;> simp
theorem length_setPrev (s : List Seg) (i d : Nat) : (setPrev s i d).length = s.length := by
  unfold setPrev; split <;> simp

theorem stage_prev (c : FCtx) (m : Nat) (live' : List (Nat × Nat)) (A' : List Run) (pu cu : Nat) (B : List Run) (D : FL)
    (h : Stage c m live' (A' ++ [(1, pu)]) cu B D) (hr : c.reuse = false) (hm : pu ≠ m) :
    Stage (freePrev c (usum A') pu (usum A' + pu + cu) cu m) m live' A' (pu + cu) B (flDel D pu (usum A')) := by
  have hl : (A' ++ [(1, pu)]) ++ (1, cu) :: B = A' ++ (1, pu) :: (1, cu) :: B := by simp
  have hu : usum (A' ++ [(1, pu)]) = usum A' + pu := by simp [usum_append, usum]
  have hch := h.chain; have htot := h.total; have hflm := h.flm; have hlive := h.live
  rw [hl] at hch htot hflm hlive
  rw [hu] at hflm
  have hfl : c.fl = D := by rw [h.fl, hr]; rfl
  obtain ⟨r', hr1, hr2⟩ := afterRemove_spec D h.dok.sorted m pu (usum A') false (by simp) hm
  have hr1 : flAfterRemove D false pu (usum A') m = (Mid (flDel D pu (usum A')) m r', r') := hr1
  have hpos : Pos (A' ++ (1, pu) :: (1, cu) :: B) := chain_pos _ _ _ _ hch
  refine ⟨rfl, ?_, ?_, ?_, ?_, flok_flDel h.dok _ _, ?_, ?_⟩
  · exact chain_merge_prev c.segs A' B pu cu hch htot
  · show _ = (addUnits (addPrev c.segs _ _) _ _).length
    rw [length_addUnits, length_addPrev, ← htot]; simp only [usum_append, usum]; omega
  · show (flAfterRemove c.fl false pu (usum A') m).1 = Mid _ m (flAfterRemove c.fl false pu (usum A') m).2
    rw [hfl, hr1]
  · show (flAfterRemove c.fl false pu (usum A') m).2 = true → _
    rw [hfl, hr1]; exact hr2
  · exact flm_merge_prev D h.dok A' B pu cu hpos hflm
  · intro t u; rw [hlive, full_merge]

theorem stage_next (c : FCtx) (m : Nat) (live' : List (Nat × Nat)) (A : List Run) (cu nu : Nat) (B' : List Run) (D : FL)
    (h : Stage c m live' A cu ((1, nu) :: B') D) (hm : nu ≠ m) :
    Stage (freeNext c (usum A + cu) nu m) m live' A (cu + nu) B' (flDel D nu (usum A + cu)) := by
  have hch := h.chain; have htot := h.total; have hflm := h.flm; have hlive := h.live
  obtain ⟨r', hr1, hr2⟩ := afterRemove_spec D h.dok.sorted m nu (usum A + cu) c.reuse h.reuse hm
  have hpos : Pos (A ++ (1, cu) :: (1, nu) :: B') := chain_pos _ _ _ _ hch
  refine ⟨h.ctid, ?_, ?_, ?_, ?_, flok_flDel h.dok _ _, ?_, ?_⟩
  · show Chain (setPrev (addUnits c.segs c.ctid nu) (usum A + cu + nu) (unitsOf (addUnits c.segs c.ctid nu)[c.ctid]?)) 0 1 _
    rw [h.ctid]
    exact chain_merge_next c.segs A B' cu nu hch htot
  · show _ = (setPrev (addUnits c.segs _ _) _ _).length
    rw [length_setPrev, length_addUnits, ← htot]; simp only [usum_append, usum]; omega
  · show (flAfterRemove c.fl c.reuse nu (usum A + cu) m).1 = Mid _ m (flAfterRemove c.fl c.reuse nu (usum A + cu) m).2
    rw [h.fl, hr1]
  · show (flAfterRemove c.fl c.reuse nu (usum A + cu) m).2 = true → _
    rw [h.fl, hr1]; exact hr2
  · exact flm_merge_next D h.dok A B' cu nu hpos hflm
  · intro t u; rw [hlive, full_merge]

theorem stage_final (unit : Nat) (c : FCtx) (m : Nat) (live' : List (Nat × Nat)) (A : List Run) (B : List Run) (D : FL)
    (h : Stage c m live' A m B D) (hnd : live'.Nodup)
    (hA : NoAdjE A) (hB : NoAdjE B) (hlA : lastSt A ≠ 1) (hhB : headSt B ≠ 1) :
    Abs ⟨unit, c.segs, freeFinal c m⟩ live' (A ++ (1, m) :: B) := by
  have hpos : Pos (A ++ (1, m) :: B) := chain_pos _ _ _ _ h.chain
  have hch := (chain_append _ _ _ _ _).1 h.chain
  simp only [Chain, Nat.zero_add] at hch
  have hu : unitsOf c.segs[c.ctid]? = m := by rw [h.ctid, hch.2.1]; rfl
  have hff : freeFinal c m = flFindOrInsertPush D m c.ctid := by
    have := freeFinal_spec c.segs D m c.ctid c.reuse h.reuse hu
    rw [← h.fl] at this; exact this
  have hfin := flm_final D h.dok _ hpos (usum A) m h.flm ((mem_starts_mid A B (1, m) _).2 (Or.inr (Or.inl rfl)))
  refine ⟨h.chain, h.total, ?_, ?_, ?_, h.live, hnd⟩
  · rw [noadj_iff]; exact ⟨hA, hB, fun hc => hlA hc.1, fun hc => hhB hc.2⟩
  · show FLOk (freeFinal c m); rw [hff, h.ctid]; exact hfin.1
  · show ∀ k t, t ∈ bucket (freeFinal c m) k ↔ _; rw [hff, h.ctid]; exact hfin.2


theorem flm_free0 (fl : FL) (A B : List Run) (u : Nat) (hp : Pos (A ++ (2, u) :: B))
    (h : ∀ x t, t ∈ bucket fl x ↔ (t, 1, x) ∈ starts (A ++ (2, u) :: B) 0) :
    FLm fl (A ++ (1, u) :: B) (usum A) := by
  have hpA : Pos A := ((pos_append _ _).1 hp).1
  have hu : 0 < u := hp (2, u) (by simp)
  intro x t
  rw [h, mem_starts_mid, mem_starts_mid]
  simp only [Prod.mk.injEq]
  constructor
  · rintro (h1 | h1 | h1)
    · have := starts_A_lt A hpA _ _ _ h1
      exact ⟨Or.inl h1, by omega⟩
    · exact absurd h1.2.1 (by decide)
    · have := starts_B_ge _ _ _ _ _ h1
      exact ⟨Or.inr (Or.inr h1), by omega⟩
  · rintro ⟨h1 | h1 | h1, h2⟩
    · exact Or.inl h1
    · exact absurd h1.1 h2
    · exact Or.inr (Or.inr h1)

theorem live_free0 (live : List (Nat × Nat)) (A B : List Run) (u : Nat) (hp : Pos (A ++ (2, u) :: B))
    (h : ∀ t' u', (t', u') ∈ live ↔ (t', 2, u') ∈ starts (A ++ (2, u) :: B) 0) :
    ∀ t' u', (t', u') ∈ dropLive live (usum A) ↔ (t', 2, u') ∈ starts (A ++ (1, u) :: B) 0 := by
  have hpA : Pos A := ((pos_append _ _).1 hp).1
  have hu : 0 < u := hp (2, u) (by simp)
  intro t' u'
  unfold dropLive
  rw [List.mem_filter, h, mem_starts_mid, mem_starts_mid]
  simp only [Prod.mk.injEq, bne_iff_ne, ne_eq]
  constructor
  · rintro ⟨h1 | h1 | h1, h2⟩
    · exact Or.inl h1
    · exact absurd h1.1 h2
    · exact Or.inr (Or.inr h1)
  · rintro (h1 | h1 | h1)
    · have := starts_A_lt A hpA _ _ _ h1
      exact ⟨Or.inl h1, by omega⟩
    · exact absurd h1.2.1 (by decide)
    · have := starts_B_ge _ _ _ _ _ h1
      exact ⟨Or.inr (Or.inr h1), by omega⟩

/-- what zone_free sees before the current segment -/
theorem prev_lookup (S : List Seg) (A B : List Run) (u : Nat) (hch : Chain S 0 1 (A ++ (1, u) :: B)) :
    (isEmptySeg (prevSegOf S (usum A) (lastU 1 A)) = true →
      ∃ A' pu, A = A' ++ [(1, pu)] ∧ unitsOf (prevSegOf S (usum A) (lastU 1 A)) = pu ∧
        usum A - lastU 1 A = usum A' ∧ usum A = usum A' + pu) ∧
    (isEmptySeg (prevSegOf S (usum A) (lastU 1 A)) = false → lastSt A ≠ 1) := by
  rcases eq_nil_or_concat' A with rfl | ⟨A', a, rfl⟩
  · simp [prevSegOf, usum, lastU, isEmptySeg, lastSt]
  · obtain ⟨st, pu⟩ := a
    have hA := ((chain_append _ _ _ _ _).1 hch).1
    have hA' := (chain_append _ _ _ _ _).1 hA
    simp only [Chain, Nat.zero_add] at hA'
    obtain ⟨_, g1, g2, g3, _⟩ := hA'
    have hl : lastU 1 (A' ++ [(st, pu)]) = pu := by rw [lastU_append_cons]; rfl
    have hu : usum (A' ++ [(st, pu)]) = usum A' + pu := by simp [usum_append, usum]
    rw [hl, hu, lastSt_concat]
    have hps : prevSegOf S (usum A' + pu) pu = some ⟨st, pu, lastU 1 A'⟩ := by
      unfold prevSegOf; rw [if_pos (by omega), show usum A' + pu - pu = usum A' by omega]; exact g1
    rw [hps]
    simp only [isEmptySeg, unitsOf, beq_iff_eq]
    constructor
    · intro hst; subst hst
      exact ⟨A', pu, rfl, rfl, by omega, rfl⟩
    · intro hst; simpa using hst

/-- what zone_free sees after the current segment -/
theorem next_lookup (S : List Seg) (A B : List Run) (u : Nat) (hch : Chain S 0 1 (A ++ (1, u) :: B))
    (htot : usum (A ++ (1, u) :: B) = S.length) :
    (isEmptySeg S[usum A + u]? = true → ∃ nu B', B = (1, nu) :: B' ∧ unitsOf S[usum A + u]? = nu) ∧
    (isEmptySeg S[usum A + u]? = false → headSt B ≠ 1) := by
  have hB := ((chain_append _ _ _ _ _).1 hch).2
  simp only [Chain, Nat.zero_add] at hB
  cases B with
  | nil =>
    simp only [usum_append, usum] at htot
    have : S[usum A + u]? = none := by rw [List.getElem?_eq_none_iff]; omega
    rw [this]; simp [isEmptySeg, headSt]
  | cons b B' =>
    obtain ⟨st, nu⟩ := b
    simp only [Chain] at hB
    rw [hB.2.2.2.1]
    simp only [isEmptySeg, unitsOf, headSt, beq_iff_eq]
    constructor
    · intro hst; subst hst; exact ⟨nu, B', rfl, rfl⟩
    · intro hst; simpa using hst

theorem free_stages (unit : Nat) (S1 : List Seg) (fl : FL) (live0 : List (Nat × Nat)) (A B : List Run) (u M : Nat)
    (h0 : Stage ⟨S1, fl, false, usum A⟩ M live0 A u B fl)
    (hnoA : NoAdjE A) (hnoB : NoAdjE B) (hnd : live0.Nodup)
    (hM : M = mergedUnits u (prevSegOf S1 (usum A) (lastU 1 A)) S1[usum A + u]?) :
    ∃ L', Abs ⟨unit,
        (if isEmptySeg S1[usum A + u]? then
          freeNext (if isEmptySeg (prevSegOf S1 (usum A) (lastU 1 A)) then
              freePrev ⟨S1, fl, false, usum A⟩ (usum A - lastU 1 A) (unitsOf (prevSegOf S1 (usum A) (lastU 1 A))) (usum A + u) u M
            else ⟨S1, fl, false, usum A⟩) (usum A + u) (unitsOf S1[usum A + u]?) M
         else (if isEmptySeg (prevSegOf S1 (usum A) (lastU 1 A)) then
              freePrev ⟨S1, fl, false, usum A⟩ (usum A - lastU 1 A) (unitsOf (prevSegOf S1 (usum A) (lastU 1 A))) (usum A + u) u M
            else ⟨S1, fl, false, usum A⟩)).segs,
        freeFinal (if isEmptySeg S1[usum A + u]? then
          freeNext (if isEmptySeg (prevSegOf S1 (usum A) (lastU 1 A)) then
              freePrev ⟨S1, fl, false, usum A⟩ (usum A - lastU 1 A) (unitsOf (prevSegOf S1 (usum A) (lastU 1 A))) (usum A + u) u M
            else ⟨S1, fl, false, usum A⟩) (usum A + u) (unitsOf S1[usum A + u]?) M
         else (if isEmptySeg (prevSegOf S1 (usum A) (lastU 1 A)) then
              freePrev ⟨S1, fl, false, usum A⟩ (usum A - lastU 1 A) (unitsOf (prevSegOf S1 (usum A) (lastU 1 A))) (usum A + u) u M
            else ⟨S1, fl, false, usum A⟩)) M⟩ live0 L' := by
  obtain ⟨hp1, hp2⟩ := prev_lookup S1 A B u h0.chain
  obtain ⟨hn1, hn2⟩ := next_lookup S1 A B u h0.chain h0.total
  have hu : 0 < u := (chain_pos _ _ _ _ h0.chain) (1, u) (by simp)
  unfold mergedUnits at hM
  generalize hps : prevSegOf S1 (usum A) (lastU 1 A) = ps at *
  generalize hns : S1[usum A + u]? = ns at *
  -- stage 1
  have st1 : ∃ A1 cu1 D1, Stage (if isEmptySeg ps then
              freePrev ⟨S1, fl, false, usum A⟩ (usum A - lastU 1 A) (unitsOf ps) (usum A + u) u M
            else ⟨S1, fl, false, usum A⟩) M live0 A1 cu1 B D1 ∧ NoAdjE A1 ∧ lastSt A1 ≠ 1 ∧
            usum A1 + cu1 = usum A + u ∧ cu1 = u + (if isEmptySeg ps then unitsOf ps else 0) := by
    by_cases hpe : isEmptySeg ps = true
    · obtain ⟨A', pu, hA, hpu, hsub, hsum⟩ := hp1 hpe
      rw [if_pos hpe, if_pos hpe, hsub, hpu, hsum]
      subst hA
      have hna := (noadj_iff A' [] (1, pu)).1 hnoA
      refine ⟨A', pu + u, flDel fl pu (usum A'), ?_, hna.1, fun hc => hna.2.2.1 ⟨hc, rfl⟩, by omega, by omega⟩
      have := stage_prev ⟨S1, fl, false, usum (A' ++ [(1, pu)])⟩ M live0 A' pu u B fl h0 rfl
        (by rw [if_pos hpe, hpu] at hM; omega)
      rw [hsum] at this
      exact this
    · have hpe' : isEmptySeg ps = false := by simpa using hpe
      rw [if_neg hpe, if_neg hpe]
      exact ⟨A, u, fl, h0, hnoA, hp2 hpe', rfl, by omega⟩
  obtain ⟨A1, cu1, D1, hs1, hnoA1, hlA1, hsum1, hcu1⟩ := st1
  generalize hc1 : (if isEmptySeg ps then
              freePrev ⟨S1, fl, false, usum A⟩ (usum A - lastU 1 A) (unitsOf ps) (usum A + u) u M
            else (⟨S1, fl, false, usum A⟩ : FCtx)) = c1 at *
  -- stage 2
  by_cases hne : isEmptySeg ns = true
  · obtain ⟨nu, B', hB, hnu⟩ := hn1 hne
    rw [if_pos hne, hnu]
    subst hB
    have hnb := (noadj_iff [] B' (1, nu)).1 hnoB
    have hs2 := stage_next c1 M live0 A1 cu1 nu B' D1 hs1 (by rw [if_pos hne, hnu] at hM; omega)
    rw [hsum1] at hs2
    have hcu2 : cu1 + nu = M := by rw [if_pos hne, hnu] at hM; omega
    rw [hcu2] at hs2
    exact ⟨_, stage_final unit _ M live0 A1 B' _ hs2 hnd hnoA1 hnb.2.1 hlA1 (fun hc => hnb.2.2.2 ⟨rfl, hc⟩)⟩
  · have hne' : isEmptySeg ns = false := by simpa using hne
    rw [if_neg hne]
    have hcu2 : cu1 = M := by rw [if_neg hne] at hM; omega
    rw [hcu2] at hs1
    exact ⟨_, stage_final unit c1 M live0 A1 B D1 hs1 hnd hnoA1 hnoB hlA1 (hn2 hne')⟩

theorem abs_free (z : St) (live : List (Nat × Nat)) (L : List Run) (h : Abs z live L) (t u : Nat)
    (hl : (t, u) ∈ live) :
    ∃ z' L', free z t = some z' ∧ z'.unit = z.unit ∧ Abs z' (dropLive live t) L' := by
  have hin := (h.livemem t u).1 hl
  obtain ⟨A, B, hL, ht⟩ := mem_starts_split L 0 t 2 u hin
  rw [Nat.zero_add] at ht
  subst hL
  have hpos : Pos (A ++ (2, u) :: B) := chain_pos _ _ _ _ h.chain
  have hch := (chain_append _ _ _ _ _).1 h.chain
  simp only [Chain, Nat.zero_add] at hch
  have hseg : z.segs[t]? = some ⟨2, u, lastU 1 A⟩ := by rw [ht]; exact hch.2.1
  have hfree : free z t = some (freeAt z t ⟨2, u, lastU 1 A⟩) := by
    unfold free; rw [hseg]; simp
  have hna := (noadj_iff A B (2, u)).1 h.noadj
  have hlt : usum A < z.segs.length := (List.getElem?_eq_some_iff.1 hch.2.1).1
  have h0 : Stage ⟨z.segs.set (usum A) ⟨1, u, lastU 1 A⟩, z.fl, false, usum A⟩
      (mergedUnits u (prevSegOf (z.segs.set (usum A) ⟨1, u, lastU 1 A⟩) (usum A) (lastU 1 A))
        (z.segs.set (usum A) ⟨1, u, lastU 1 A⟩)[usum A + u]?)
      (dropLive live (usum A)) A u B z.fl := by
    refine ⟨rfl, chain_restatus z.segs A B 2 1 u (Or.inl rfl) h.chain, ?_, rfl, by simp, h.flok,
      flm_free0 z.fl A B u hpos h.flmem, live_free0 live A B u hpos h.livemem⟩
    show _ = (z.segs.set _ _).length
    rw [List.length_set, ← h.total]; simp only [usum_append, usum]
  obtain ⟨L', hL'⟩ := free_stages z.unit _ z.fl _ A B u _ h0 hna.1 hna.2.1 (h.livenodup.filter _) rfl
  subst ht
  exact ⟨_, L', hfree, rfl, hL'⟩

/-! ### the walk of zone_in_use / zone_debug reads exactly the runs -/

def runsWithPrev : List Run → Nat → Nat → List (Nat × Seg)
  | [], _, _ => []
  | r :: l, t, p => (t, ⟨r.1, r.2, p⟩) :: runsWithPrev l (t + r.2) r.2

def fullSum : List Run → Nat
  | [] => 0
  | r :: l => (if r.1 = 2 then r.2 else 0) + fullSum l

theorem walk_chain (segs : List Seg) (L : List Run) (t p f : Nat) (h : Chain segs t p L)
    (htot : t + usum L = segs.length) (hf : L.length ≤ f) : walk segs f t = runsWithPrev L t p := by
  induction L generalizing t p f with
  | nil =>
    simp only [usum] at htot
    cases f with
    | zero => rfl
    | succ f =>
      have : segs[t]? = none := by rw [List.getElem?_eq_none_iff]; omega
      simp [walk, this, runsWithPrev]
  | cons r l ih =>
    simp only [Chain, usum, List.length_cons] at h htot hf
    obtain ⟨h1, h2, _, h4⟩ := h
    cases f with
    | zero => omega
    | succ f =>
      simp only [walk, h1, runsWithPrev]
      rw [if_neg (by omega), ih _ _ f h4 (by omega) (by omega)]

theorem fullUnits_runs (L : List Run) (t p : Nat) : fullUnits (runsWithPrev L t p) = fullSum L := by
  induction L generalizing t p with
  | nil => rfl
  | cons r l ih => simp only [runsWithPrev, fullUnits, fullSum, ih]

theorem length_le_usum (L : List Run) (hp : Pos L) : L.length ≤ usum L := by
  induction L with
  | nil => simp [usum]
  | cons r l ih =>
    have := hp r List.mem_cons_self
    have := ih (fun x hx => hp x (List.mem_cons_of_mem _ hx))
    simp only [List.length_cons, usum]; omega

/-! ### the ledger is a permutation of the FULL runs -/

def fulls : List Run → Nat → List (Nat × Nat)
  | [], _ => []
  | r :: l, t => if r.1 = 2 then (t, r.2) :: fulls l (t + r.2) else fulls l (t + r.2)

theorem mem_fulls (L : List Run) (off t u : Nat) : (t, u) ∈ fulls L off ↔ (t, 2, u) ∈ starts L off := by
  induction L generalizing off with
  | nil => simp [fulls, starts]
  | cons r l ih =>
    simp only [fulls, starts, List.mem_cons]
    by_cases h : r.1 = 2
    · rw [if_pos h, List.mem_cons, ih]; simp [h]
    · rw [if_neg h, ih]; simp only [Prod.mk.injEq]
      constructor
      · intro h'; exact Or.inr h'
      · rintro (h' | h')
        · exact absurd h'.2.1.symm h
        · exact h'

theorem nodup_fulls (L : List Run) (hp : Pos L) (off : Nat) : (fulls L off).Nodup := by
  induction L generalizing off with
  | nil => simp [fulls]
  | cons r l ih =>
    have hr := hp r List.mem_cons_self
    have ih' := ih (fun x hx => hp x (List.mem_cons_of_mem _ hx)) (off + r.2)
    simp only [fulls]
    split
    · refine List.nodup_cons.2 ⟨?_, ih'⟩
      intro hc
      have := (mem_starts_bounds l _ _ _ _ ((mem_fulls l _ _ _).1 hc)).1
      omega
    · exact ih'

theorem sum_fulls (L : List Run) (off : Nat) : ((fulls L off).map (·.2)).sum = fullSum L := by
  induction L generalizing off with
  | nil => rfl
  | cons r l ih =>
    simp only [fulls, fullSum]
    split
    · simp [ih]
    · simp [ih]

def liveUnits (live : List (Nat × Nat)) : Nat := (live.map (·.2)).sum

theorem abs_in_use (z : St) (live : List (Nat × Nat)) (L : List Run) (h : Abs z live L) :
    zoneInUse z = z.unit * liveUnits live := by
  have hpos : Pos L := chain_pos _ _ _ _ h.chain
  unfold zoneInUse
  rw [walk_chain z.segs L 0 1 _ h.chain (by rw [Nat.zero_add]; exact h.total)
    (by have := length_le_usum L hpos; have := h.total; omega), fullUnits_runs]
  have hperm : live.Perm (fulls L 0) := by
    rw [List.perm_ext_iff_of_nodup h.livenodup (nodup_fulls L hpos 0)]
    intro a; obtain ⟨t, u⟩ := a
    rw [h.livemem, mem_fulls]
  unfold liveUnits
  rw [(hperm.map (·.2)).sum_nat, sum_fulls]

theorem abs_walk (z : St) (live : List (Nat × Nat)) (L : List Run) (h : Abs z live L) :
    walk z.segs (z.segs.length + 1) 0 = runsWithPrev L 0 1 := by
  have hpos : Pos L := chain_pos _ _ _ _ h.chain
  exact walk_chain z.segs L 0 1 _ h.chain (by rw [Nat.zero_add]; exact h.total)
    (by have := length_le_usum L hpos; have := h.total; omega)

/-! ### windows free of FULL runs lie inside one EMPTY run (uses the coalescing invariant) -/

theorem window_in_empty (L : List Run) (off : Nat) (hp : Pos L) (hst : ∀ r ∈ L, r.1 = 1 ∨ r.1 = 2)
    (hna : NoAdjE L) (a nb : Nat) (h0 : 0 < nb) (ha : off ≤ a) (hb : a + nb ≤ off + usum L)
    (hfree : ∀ t u, (t, 2, u) ∈ starts L off → a + nb ≤ t ∨ t + u ≤ a) :
    ∃ t k, (t, 1, k) ∈ starts L off ∧ t ≤ a ∧ a + nb ≤ t + k := by
  induction L generalizing off with
  | nil => simp only [usum] at hb; omega
  | cons r l ih =>
    have hr : 0 < r.2 := hp r List.mem_cons_self
    have hpl : Pos l := fun x hx => hp x (List.mem_cons_of_mem _ hx)
    have hstl : ∀ x ∈ l, x.1 = 1 ∨ x.1 = 2 := fun x hx => hst x (List.mem_cons_of_mem _ hx)
    have hnal : NoAdjE l := by
      cases l with
      | nil => trivial
      | cons r' l' => exact hna.2
    simp only [usum] at hb
    by_cases hcase : off + r.2 ≤ a
    · obtain ⟨t, k, h1, h2, h3⟩ := ih (off + r.2) hpl hstl hnal hcase (by omega)
        (fun t u hm => hfree t u (by simp only [starts, List.mem_cons]; exact Or.inr hm))
      exact ⟨t, k, by simp only [starts, List.mem_cons]; exact Or.inr h1, h2, h3⟩
    · rcases hst r List.mem_cons_self with h1 | h2
      · by_cases hfit : a + nb ≤ off + r.2
        · exact ⟨off, r.2, by simp only [starts, List.mem_cons]; exact Or.inl (by rw [h1]), ha, hfit⟩
        · exfalso
          cases l with
          | nil => simp only [usum] at hb; omega
          | cons r' l' =>
            have hr' : 0 < r'.2 := hpl r' List.mem_cons_self
            have h2' : r'.1 = 2 := by
              rcases hstl r' List.mem_cons_self with h | h
              · exact absurd ⟨h1, h⟩ hna.1
              · exact h
            have := hfree (off + r.2) r'.2 (by simp [starts, h2'])
            omega
      · exfalso
        have := hfree off r.2 (by simp [starts, h2])
        omega

/-- distinct runs cover disjoint index ranges -/
theorem starts_disjoint (L : List Run) (hp : Pos L) (off : Nat) (x x' : Nat × Nat × Nat)
    (h : x ∈ starts L off) (h' : x' ∈ starts L off) (hne : x ≠ x') :
    x.1 + x.2.2 ≤ x'.1 ∨ x'.1 + x'.2.2 ≤ x.1 := by
  induction L generalizing off with
  | nil => simp [starts] at h
  | cons r l ih =>
    have hpl : Pos l := fun y hy => hp y (List.mem_cons_of_mem _ hy)
    simp only [starts, List.mem_cons] at h h'
    rcases h with h | h <;> rcases h' with h' | h'
    · exact absurd (h.trans h'.symm) hne
    · obtain ⟨t', st', u'⟩ := x'
      have := (mem_starts_bounds l _ _ _ _ h').1
      subst h; left; simpa using this
    · obtain ⟨t, st, u⟩ := x
      have := (mem_starts_bounds l _ _ _ _ h).1
      subst h'; right; simpa using this
    · exact ih hpl _ h h'


theorem length_freeAt (z : St) (t : Nat) (cur : Seg) : (freeAt z t cur).segs.length = z.segs.length := by
  unfold freeAt freeStage2 freeStage1
  simp only
  split <;> split <;> simp [freeNext, freePrev, length_setPrev, length_addUnits, length_addPrev]

theorem free_length (z z' : St) (t : Nat) (h : free z t = some z') : z'.segs.length = z.segs.length := by
  unfold free at h
  split at h
  · exact absurd h (by simp)
  · split at h
    · exact absurd h (by simp)
    · injection h with h; rw [← h]; exact length_freeAt z t _
end ParsecVerif.Zone
