import ParsecVerif.Model.Profile
/-
  C42 — helper lemmas for the binary profile model: byte-level round trips, record round trips,
  greedy packing, chain following, canonical placement.
-/
namespace ParsecVerif.Profile

/-! ### bytes -/

@[simp] theorem le_length (k n : Nat) : (le k n).length = k := by
  induction k generalizing n with
  | zero => rfl
  | succ k ih => simp [le, ih]

theorem unle_le (k n : Nat) (h : n < 256 ^ k) : unle (le k n) = n := by
  induction k generalizing n with
  | zero =>
    have : n = 0 := by simpa using h
    subst this; rfl
  | succ k ih =>
    simp only [le, unle]
    have h2 : n / 256 < 256 ^ k := by
      rw [Nat.pow_succ] at h
      exact Nat.div_lt_of_lt_mul (by rw [Nat.mul_comm]; exact h)
    rw [ih _ h2]
    omega

theorem le_lt (k n : Nat) : ∀ b ∈ le k n, b < 256 := by
  induction k generalizing n with
  | zero => simp [le]
  | succ k ih =>
    intro b hb
    simp only [le, List.mem_cons] at hb
    rcases hb with h | h
    · omega
    · exact ih _ b h

theorem unle_le2 (n : Nat) (h : n < 65536) : unle (le 2 n) = n := unle_le 2 n (by simpa using h)
theorem unle_le4 (n : Nat) (h : n < 4294967296) : unle (le 4 n) = n := unle_le 4 n (by simpa using h)
theorem unle_le8 (n : Nat) (h : n < 18446744073709551616) : unle (le 8 n) = n :=
  unle_le 8 n (by simpa using h)

@[simp] theorem i64_length (i : Int) : (i64 i).length = 8 := by simp [i64]

theorem toI64_i64 (i : Int) (h1 : -9223372036854775808 ≤ i) (h2 : i < 9223372036854775808) :
    toI64 (unle (i64 i)) = i := by
  unfold i64
  rw [unle_le8 _ (by omega)]
  unfold toI64
  split <;> omega

@[simp] theorem zeros_length (n : Nat) : (zeros n).length = n := by simp [zeros]

theorem split_append (n : Nat) (x r : Bytes) (h : x.length = n) : split n (x ++ r) = some (x, r) := by
  subst h
  simp [split]

@[simp] theorem split_le (k n : Nat) (r : Bytes) : split k (le k n ++ r) = some (le k n, r) :=
  split_append _ _ _ (le_length k n)

@[simp] theorem split_i64 (i : Int) (r : Bytes) : split 8 (i64 i ++ r) = some (i64 i, r) :=
  split_append _ _ _ (i64_length i)

@[simp] theorem split_zeros (n : Nat) (r : Bytes) : split n (zeros n ++ r) = some (zeros n, r) :=
  split_append _ _ _ (zeros_length n)

theorem split_self_append (x r : Bytes) : split x.length (x ++ r) = some (x, r) :=
  split_append _ _ _ rfl

theorem pad_length (n : Nat) (s : Bytes) (h : s.length ≤ n) : (pad n s).length = n := by
  simp [pad]; omega

theorem fixstr_length (n : Nat) (s : Bytes) (hn : 0 < n) : (fixstr n s).length = n := by
  unfold fixstr
  apply pad_length
  simp; omega

theorem cstr_append_zero (s r : Bytes) (h : noZero s) : cstr (s ++ 0 :: r) = s := by
  induction s with
  | nil => simp [cstr]
  | cons a s ih =>
    have ha : a ≠ 0 := h a (by simp)
    have hs : noZero s := fun b hb => h b (by simp [hb])
    simp [cstr, ha, ih hs]

theorem cstr_fixstr (n : Nat) (s : Bytes) (h : noZero s) (hl : s.length + 1 ≤ n) :
    cstr (fixstr n s) = s := by
  unfold fixstr pad zeros
  have ht : s.take (n - 1) = s := List.take_of_length_le (by omega)
  rw [ht]
  have : n - s.length = (n - s.length - 1) + 1 := by omega
  rw [this, List.replicate_succ]
  exact cstr_append_zero s _ h

@[simp] theorem split_fixstr (n : Nat) (s r : Bytes) (hn : 0 < n) :
    split n (fixstr n s ++ r) = some (fixstr n s, r) :=
  split_append _ _ _ (fixstr_length n s hn)

/-! ### records -/

theorem decEvent_encEvent (B : Nat) (dict : List KeyDef) (e : Event) (r : Bytes)
    (h : WFEvent B dict e) : decEvent dict (encEvent e ++ r) = some (e, r) := by
  obtain ⟨hk, hf, ht, hi, hs, _, hinfo⟩ := h
  unfold decEvent encEvent
  simp only [List.append_assoc, split_le, unle_le2 _ hk, unle_le2 _ hf, unle_le4 _ ht, unle_le8 _ hi,
    unle_le8 _ hs]
  by_cases hb : e.flags % 2 = 1
  · simp only [hb, if_true] at hinfo ⊢
    cases hd : dict[e.key / 2]? with
    | none => simp [hd] at hinfo
    | some kd =>
      simp only [hd, Option.map_some, Option.some.injEq] at hinfo
      simp only [hinfo, split_self_append]
  · simp only [hb, if_false] at hinfo ⊢
    cases e
    simp_all

theorem encEvent_length (e : Event) : (encEvent e).length = evLen e := by
  simp [encEvent, evLen, evBase]; omega

theorem decKey_encKey (B : Nat) (k : KeyDef) (r : Bytes) (h : WFKey B k) :
    decKey (encKey k ++ r) = some (k, r) := by
  obtain ⟨hn, hnl, ha, hal, hc, hi, _⟩ := h
  unfold decKey encKey
  simp only [List.append_assoc, split_fixstr _ _ _ (by decide : 0 < 64),
    split_fixstr _ _ _ (by decide : 0 < 128), split_le, unle_le4 _ (by omega : k.conv.length < 4294967296),
    unle_le4 _ (by omega : k.infoLen < 4294967296),
    split_self_append, split_zeros, cstr_fixstr 64 _ hn (by omega), cstr_fixstr 128 _ ha (by omega)]

theorem encKey_length (k : KeyDef) : (encKey k).length = keyStride k := by
  simp [encKey, keyStride, keyTail, fixstr_length]; omega

theorem decInfo_encInfo (i : Info) (r : Bytes) (h : WFInfo i) :
    decInfo (encInfo i ++ r) = some (i, r) := by
  obtain ⟨hk, hv⟩ := h
  unfold decInfo encInfo
  simp only [List.append_assoc, split_le, unle_le4 _ (by omega : i.key.length < 4294967296),
    unle_le4 _ (by omega : i.value.length < 4294967296), split_self_append, split_zeros]

theorem encInfo_length (i : Info) : (encInfo i).length = infoStride i := by
  simp [encInfo, infoStride, infoTail]; omega

theorem parseN_flatten {α : Type} (p : Bytes → Option (α × Bytes)) (enc : α → Bytes) (l : List α)
    (r : Bytes) (h : ∀ a ∈ l, ∀ r, p (enc a ++ r) = some (a, r)) :
    parseN p l.length ((l.map enc).flatten ++ r) = some (l, r) := by
  induction l with
  | nil => simp [parseN]
  | cons a l ih =>
    have ha := h a (by simp)
    have hl : ∀ b ∈ l, ∀ r, p (enc b ++ r) = some (b, r) := fun b hb => h b (by simp [hb])
    simp only [List.map_cons, List.flatten_cons, List.length_cons, parseN, List.append_assoc, ha,
      ih hl]

theorem flatten_map_length {α : Type} (enc : α → Bytes) (len : α → Nat) (l : List α)
    (h : ∀ a, (enc a).length = len a) : ((l.map enc).flatten).length = (l.map len).sum := by
  induction l with
  | nil => rfl
  | cons a l ih => simp [h, ih]

theorem decThr_encThr (t : ThreadRec) (r : Bytes)
    (hn : t.nbEvents < 18446744073709551616) (hz : noZero t.hrid) (hl : t.hrid.length ≤ 127)
    (ho1 : -9223372036854775808 ≤ t.firstOff) (ho2 : t.firstOff < 9223372036854775808)
    (hi : ∀ i ∈ t.infos, WFInfo i) (hil : t.infos.length < 2147483648) :
    decThr (encThr t ++ r) = some (t, r) := by
  unfold decThr encThr
  have hp := parseN_flatten decInfo encInfo t.infos r (fun a ha r => decInfo_encInfo a r (hi a ha))
  simp only [List.append_assoc, split_le, split_i64, split_fixstr _ _ _ (by decide : 0 < 128),
    unle_le8 _ hn, unle_le4 _ (by omega : t.infos.length < 4294967296), hp,
    cstr_fixstr 128 _ hz (by omega), toI64_i64 _ ho1 ho2]

theorem encThr_length (t : ThreadRec) : (encThr t).length = thrStride t := by
  simp only [encThr, thrStride, thrFixed, List.length_append, le_length, i64_length,
    fixstr_length 128 _ (by decide), flatten_map_length encInfo infoStride _ encInfo_length]
  omega

/-! ### greedy packing -/

def used {α : Type} (len : α → Nat) (c : List α) : Nat := (c.map len).sum

theorem flatten_consHead {α : Type} (a : α) (l : List (List α)) :
    (consHead a l).flatten = a :: l.flatten := by
  cases l <;> simp [consHead]

theorem pack_flatten {α : Type} (cap : Nat) (len : α → Nat) (l : List α) (pos : Nat) :
    (pack cap len l pos).flatten = l := by
  induction l generalizing pos with
  | nil => simp [pack]
  | cons a as ih =>
    unfold pack
    split <;> simp [flatten_consHead, ih]

/-- the current buffer never overflows, later buffers are non-empty and fit, and the current
    buffer receives the first record when that record fits. -/
theorem pack_ok {α : Type} (cap : Nat) (len : α → Nat) (l : List α) (pos : Nat)
    (hl : ∀ a ∈ l, len a ≤ cap) (hp : pos ≤ cap) :
    ∃ c cs, pack cap len l pos = c :: cs ∧ pos + used len c ≤ cap ∧
      (∀ c' ∈ cs, c' ≠ [] ∧ used len c' ≤ cap) ∧
      (∀ a, l.head? = some a → pos + len a ≤ cap → c ≠ []) := by
  induction l generalizing pos with
  | nil => exact ⟨[], [], by simp [pack], by simp [used]; exact hp, by simp, by simp⟩
  | cons a as ih =>
    have ha : len a ≤ cap := hl a (by simp)
    have has : ∀ b ∈ as, len b ≤ cap := fun b hb => hl b (by simp [hb])
    unfold pack
    split
    · rename_i hgt
      obtain ⟨c, cs, he, hfit, hcs, _⟩ := ih (len a) has ha
      refine ⟨[], (a :: c) :: cs, by simp [he, consHead], by simp [used]; exact hp, ?_, ?_⟩
      · intro c' hc'
        simp only [List.mem_cons] at hc'
        rcases hc' with h | h
        · subst h; simp [used] at hfit ⊢; omega
        · exact hcs c' h
      · intro b hb hle
        simp at hb; subst hb; omega
    · rename_i hle
      obtain ⟨c, cs, he, hfit, hcs, _⟩ := ih (pos + len a) has (by omega)
      refine ⟨a :: c, cs, by simp [he, consHead], ?_, hcs, by simp⟩
      simp [used] at hfit ⊢; omega

/-- packing from an empty buffer: every buffer is non-empty and fits. -/
theorem pack_zero_ok {α : Type} (cap : Nat) (len : α → Nat) (l : List α)
    (hl : ∀ a ∈ l, len a ≤ cap) (hne : l ≠ []) :
    ∀ c ∈ pack cap len l 0, c ≠ [] ∧ used len c ≤ cap := by
  obtain ⟨c, cs, he, hfit, hcs, hhd⟩ := pack_ok cap len l 0 hl (Nat.zero_le _)
  intro c' hc'
  rw [he] at hc'
  simp only [List.mem_cons] at hc'
  rcases hc' with h | h
  · subst h
    cases l with
    | nil => exact absurd rfl hne
    | cons a as =>
      exact ⟨hhd a rfl (by have := hl a (by simp); omega), by omega⟩
  · exact hcs c' h

theorem pack_ne_nil {α : Type} (cap : Nat) (len : α → Nat) (l : List α) (pos : Nat) :
    pack cap len l pos ≠ [] := by
  cases l with
  | nil => simp [pack]
  | cons a as =>
    unfold pack
    split
    · simp
    · cases pack cap len as (pos + len a) <;> simp [consHead]

/-! ### buffers -/

theorem mkBuf_length (B : Nat) (this next : Int) (count typ : Nat) (content : Bytes)
    (hB : bufHdrSize ≤ B) (hc : content.length ≤ avail B) :
    (mkBuf B this next count typ content).length = B := by
  have hp := pad_length _ _ hc
  simp only [mkBuf, List.length_append, List.length_cons, i64_length, le_length, hp]
  simp only [avail, bufHdrSize] at *
  omega

theorem readBuf_mkBuf (B : Nat) (f : Bytes) (off : Int) (this next : Int) (count typ : Nat)
    (content rest : Bytes) (ho : 0 ≤ off)
    (hd : f.drop off.toNat = mkBuf B this next count typ content ++ rest)
    (hB : bufHdrSize ≤ B) (hc : content.length ≤ avail B)
    (hn1 : -9223372036854775808 ≤ next) (hn2 : next < 9223372036854775808)
    (hcnt : count < 18446744073709551616) :
    readBuf B f off = some ⟨next, count, typ, pad (avail B) content⟩ := by
  unfold readBuf
  rw [if_neg (by omega), hd, split_append _ _ _ (mkBuf_length B this next count typ content hB hc)]
  simp only [mkBuf, split_i64, split_le, toI64_i64 _ hn1 hn2, unle_le8 _ hcnt]
  simp [split, unle]

/-! ### following chains of placed buffers -/

theorem parseN_pad {α : Type} (p : Bytes → Option (α × Bytes)) (enc : α → Bytes) (c : List α) (n : Nat)
    (h : ∀ a ∈ c, ∀ r, p (enc a ++ r) = some (a, r)) :
    parseN p c.length (pad n (c.map enc).flatten) = some (c, zeros (n - ((c.map enc).flatten).length)) := by
  unfold pad
  exact parseN_flatten p enc c _ h

theorem readCounted_chunks {α : Type} (p : Bytes → Option (α × Bytes)) (enc : α → Bytes)
    (typ B : Nat) (f : Bytes) (chunks : List (List α)) (offs : List Int) (fuel : Nat)
    (hp : ∀ c ∈ chunks, ∀ a ∈ c, ∀ r, p (enc a ++ r) = some (a, r))
    (hne : ∀ c ∈ chunks, c ≠ [])
    (hat : ChunksAt B f typ offs (chunks.map (chunkOf enc)))
    (hcn : chunks ≠ []) (hfuel : offs.length ≤ fuel) :
    readCounted p typ B f fuel (offs.headD (-1)) chunks.flatten.length = some chunks.flatten := by
  induction chunks generalizing offs fuel with
  | nil => exact absurd rfl hcn
  | cons c cs ih =>
    have hc : c ≠ [] := hne c (by simp)
    have hcl : c.length ≠ 0 := by simpa using hc
    have hpc := parseN_pad p enc c (avail B) (hp c (by simp))
    cases cs with
    | nil =>
      match offs, hat with
      | [o], hat =>
        simp only [List.map_cons, List.map_nil, ChunksAt, chunkOf] at hat
        obtain ⟨nx, _, hrb⟩ := hat
        cases fuel with
        | zero => simp at hfuel
        | succ fuel =>
          simp only [List.headD_cons, List.flatten_cons, List.flatten_nil, List.append_nil]
          unfold readCounted
          simp [hrb, hcl, hpc]
      | [], hat => simp [ChunksAt] at hat
      | _ :: _ :: _, hat => simp [ChunksAt] at hat
    | cons c' cs' =>
      match offs, hat with
      | o :: o' :: os, hat =>
        simp only [List.map_cons, ChunksAt, chunkOf] at hat
        obtain ⟨hrb, hrest⟩ := hat
        have hc' : c' ≠ [] := hne c' (by simp)
        have hc'l : c'.length ≠ 0 := by simpa using hc'
        cases fuel with
        | zero => simp at hfuel
        | succ fuel =>
          have hih := ih (o' :: os) fuel (fun d hd => hp d (by simp [hd])) (fun d hd => hne d (by simp [hd]))
            (by simpa [chunkOf] using hrest) (by simp) (by simp at hfuel ⊢; omega)
          simp only [List.headD_cons] at hih ⊢
          unfold readCounted
          have hlen : (c :: c' :: cs').flatten.length = c.length + (c' :: cs').flatten.length := by
            rw [List.flatten_cons, List.length_append]
          have hL : c'.length ≤ (c' :: cs').flatten.length := by
            rw [List.flatten_cons, List.length_append]; omega
          have hmin : min c.length (c :: c' :: cs').flatten.length = c.length := by omega
          have hrem : (c :: c' :: cs').flatten.length - c.length = (c' :: cs').flatten.length := by
            omega
          have hnz : (c :: c' :: cs').flatten.length ≠ 0 := by omega
          have hnz2 : (c' :: cs').flatten.length ≠ 0 := by omega
          have hflat : (c :: c' :: cs').flatten = c ++ (c' :: cs').flatten := List.flatten_cons
          generalize (c :: c' :: cs').flatten.length = T at hlen hmin hrem hnz ⊢
          generalize (c' :: cs').flatten.length = L at hlen hrem hnz2 hih hL ⊢
          simp only [hrb, hmin, hrem, hpc, hih, hnz, hnz2, hcl, ne_eq, not_true_eq_false, ↓reduceIte,
            hflat]
      | [], hat => simp [ChunksAt] at hat
      | [_], hat => simp [ChunksAt] at hat

theorem readCounted_empty {α : Type} (p : Bytes → Option (α × Bytes)) (typ B : Nat) (f : Bytes)
    (o : Int) (fuel : Nat) (hat : ChunksAt B f typ [o] [(0, [])]) :
    readCounted p typ B f (fuel + 1) o 0 = some [] := by
  simp only [ChunksAt] at hat
  obtain ⟨nx, _, hrb⟩ := hat
  unfold readCounted
  simp [hrb]

theorem readLinked_chunks {α : Type} (p : Bytes → Option (α × Bytes)) (enc : α → Bytes)
    (typ B : Nat) (f : Bytes) (chunks : List (List α)) (offs : List Int) (fuel : Nat)
    (hp : ∀ c ∈ chunks, ∀ a ∈ c, ∀ r, p (enc a ++ r) = some (a, r))
    (hne : ∀ c ∈ chunks, c ≠ [])
    (hat : ChunksAt B f typ offs (chunks.map (chunkOf enc)))
    (hcn : chunks ≠ []) (hfuel : offs.length + 1 ≤ fuel) :
    readLinked p typ B f fuel (offs.headD (-1)) = some chunks.flatten := by
  induction chunks generalizing offs fuel with
  | nil => exact absurd rfl hcn
  | cons c cs ih =>
    have hc : c ≠ [] := hne c (by simp)
    have hcl : c.length ≠ 0 := by simpa using hc
    have hpc := parseN_pad p enc c (avail B) (hp c (by simp))
    cases cs with
    | nil =>
      match offs, hat with
      | [o], hat =>
        simp only [List.map_cons, List.map_nil, ChunksAt, chunkOf] at hat
        obtain ⟨nx, hnx, hrb⟩ := hat
        have ho : ¬ o < 0 := by
          intro hlt
          simp [readBuf, hlt] at hrb
        match fuel, hfuel with
        | fuel + 2, _ =>
          simp only [List.headD_cons, List.flatten_cons, List.flatten_nil, List.append_nil]
          unfold readLinked
          simp only [if_neg ho, hrb, hpc]
          unfold readLinked
          simp [hcl, hnx]
      | [], hat => simp [ChunksAt] at hat
      | _ :: _ :: _, hat => simp [ChunksAt] at hat
    | cons c' cs' =>
      match offs, hat with
      | o :: o' :: os, hat =>
        simp only [List.map_cons, ChunksAt, chunkOf] at hat
        obtain ⟨hrb, hrest⟩ := hat
        have ho : ¬ o < 0 := by
          intro hlt
          simp [readBuf, hlt] at hrb
        cases fuel with
        | zero => simp at hfuel
        | succ fuel =>
          have hih := ih (o' :: os) fuel (fun d hd => hp d (by simp [hd])) (fun d hd => hne d (by simp [hd]))
            (by simpa [chunkOf] using hrest) (by simp) (by simp at hfuel ⊢; omega)
          simp only [List.headD_cons] at hih ⊢
          unfold readLinked
          simp only [if_neg ho, hrb, hpc, hih]
          simp [hcl]
      | [], hat => simp [ChunksAt] at hat
      | [_], hat => simp [ChunksAt] at hat

/-! ### file header -/

def I64 (i : Int) : Prop := -9223372036854775808 ≤ i ∧ i < 9223372036854775808

theorem decHeader_encHeader (h : Header) (r : Bytes)
    (hb : h.bufSize < 4294967296) (hz : noZero h.hrid) (hl : h.hrid.length ≤ 127)
    (hds : h.dictSize < 4294967296) (hdo : I64 h.dictOff) (his : h.infoSize < 4294967296)
    (hio : I64 h.infoOff) (hr : h.rank < 4294967296) (hnt : h.nbThreads < 4294967296)
    (hto : I64 h.thrOff) : decHeader (encHeader h ++ r) = some h := by
  have hm : split 32 (pad 32 magick ++ (le 8 byteOrder ++ (le 4 h.bufSize ++ (fixstr 128 h.hrid ++
      (le 4 h.dictSize ++ (i64 h.dictOff ++ (le 4 h.infoSize ++ (zeros 4 ++ (i64 h.infoOff ++
      (le 4 h.rank ++ (le 4 h.nbThreads ++ (i64 h.thrOff ++ r))))))))))))
      = some (pad 32 magick, _) := split_append _ _ _ (by decide)
  have hmg : (pad 32 magick).take 24 = magick := by decide
  have hbo : unle (le 8 byteOrder) = byteOrder := unle_le8 _ (by decide)
  unfold decHeader encHeader
  simp only [List.append_assoc, split_le, hm, split_fixstr _ _ _ (by decide : 0 < 128), split_i64,
    split_zeros, hmg, hbo, and_self, if_true, unle_le4 _ hb, unle_le4 _ hds, unle_le4 _ his,
    unle_le4 _ hr, unle_le4 _ hnt, toI64_i64 _ hdo.1 hdo.2, toI64_i64 _ hio.1 hio.2,
    toI64_i64 _ hto.1 hto.2, cstr_fixstr 128 _ hz (by omega)]

/-! ### the reader on a placed file -/

theorem chunksAt_head_nonneg (B : Nat) (f : Bytes) (typ : Nat) (o : Int) (os : List Int)
    (cs : List (Nat × Bytes)) (h : ChunksAt B f typ (o :: os) cs) :
    0 ≤ o ∧ o < f.length := by
  have key : ∀ b, readBuf B f o = some b → 0 ≤ o ∧ o < f.length := by
    intro b hb
    unfold readBuf at hb
    by_cases hlt : o < 0
    · simp [hlt] at hb
    · simp only [hlt, if_false] at hb
      refine ⟨by omega, ?_⟩
      by_cases hlen : f.length ≤ o.toNat
      · rw [List.drop_eq_nil_of_le hlen] at hb
        cases B with
        | zero => simp [split] at hb
        | succ B => simp [split] at hb
      · omega
  match os, cs, h with
  | [], [c], h => obtain ⟨nx, _, hrb⟩ := h; exact key _ hrb
  | o' :: os, c :: c' :: cs, h => exact key _ h.1

theorem readStreams_layout (B : Nat) (dict : List KeyDef) (f : Bytes) 
    (oss : List (List Int)) (ss : List Stream)
    (hat : EvChunksAt B f oss ss) (hwf : ∀ s ∈ ss, WFStream B dict s) :
    readStreams B dict f (thrRecs ss (firstOffs oss)) = some ss := by
  induction ss generalizing oss with
  | nil =>
    cases oss with
    | nil => simp [firstOffs, thrRecs, readStreams]
    | cons _ _ => simp [EvChunksAt] at hat
  | cons s ss ih =>
    cases oss with
    | nil => simp [EvChunksAt] at hat
    | cons os oss =>
      simp only [EvChunksAt] at hat
      obtain ⟨hlen, hch, hrest⟩ := hat
      have hs := hwf s (by simp)
      obtain ⟨_, _, hne, _, hev, _, _, _⟩ := hs
      have hcap : ∀ e ∈ s.events, evLen e ≤ avail B := fun e he => Nat.le_of_lt (hev e he).2.2.2.2.2.1
      have hnz := pack_zero_ok (avail B) evLen s.events hcap hne
      have hrl := readLinked_chunks (decEvent dict) encEvent tyEvents B f (pack (avail B) evLen s.events 0) os
        (f.length + 1)
        (fun c hc a ha r => decEvent_encEvent B dict a r (hev a (by
          rw [← pack_flatten (avail B) evLen s.events 0]
          exact List.mem_flatten.mpr ⟨c, hc, ha⟩)))
        (fun c hc => (hnz c hc).1) hch (pack_ne_nil _ _ _ _) (by omega)
      rw [pack_flatten] at hrl
      have ih' := ih oss hrest (fun s' hs' => hwf s' (by simp [hs']))
      simp only [firstOffs, List.map_cons, thrRecs, readStreams] at ih' ⊢
      simp only [hrl, ne_eq, not_true_eq_false, if_false, ih']

theorem thrRecs_length (ss : List Stream) (os : List Int) (h : os.length = ss.length) :
    (thrRecs ss os).length = ss.length := by
  induction ss generalizing os with
  | nil => cases os <;> simp [thrRecs]
  | cons s ss ih =>
    cases os with
    | nil => simp at h
    | cons o os => simp [thrRecs, ih os (by simpa using h)]

theorem evChunksAt_length (B : Nat) (f : Bytes) (oss : List (List Int)) (ss : List Stream)
    (h : EvChunksAt B f oss ss) : oss.length = ss.length := by
  induction ss generalizing oss with
  | nil => cases oss with
    | nil => rfl
    | cons _ _ => simp [EvChunksAt] at h
  | cons s ss ih =>
    cases oss with
    | nil => simp [EvChunksAt] at h
    | cons os oss => simp [EvChunksAt] at h; simp [ih oss h.2.2]

/-- every thread record built from a placed file can be decoded. -/
theorem thrRecs_wf (B : Nat) (dict : List KeyDef) (f : Bytes) (hf : f.length < 9223372036854775808)
    (oss : List (List Int)) (ss : List Stream)
    (hat : EvChunksAt B f oss ss) (hwf : ∀ s ∈ ss, WFStream B dict s) :
    ∀ t ∈ thrRecs ss (firstOffs oss), (∀ r, decThr (encThr t ++ r) = some (t, r)) ∧ thrStride t < avail B := by
  induction ss generalizing oss with
  | nil => cases oss <;> simp [firstOffs, thrRecs]
  | cons s ss ih =>
    cases oss with
    | nil => simp [EvChunksAt] at hat
    | cons os oss =>
      simp only [EvChunksAt] at hat
      obtain ⟨_, hch, hrest⟩ := hat
      obtain ⟨hz, hl, hne, hn, hev, hin, hil, hstr⟩ := hwf s (by simp)
      intro t ht
      simp only [firstOffs, List.map_cons, thrRecs, List.mem_cons] at ht
      rcases ht with h | h
      · subst h
        have hoff : I64 (os.headD (-1)) := by
          cases os with
          | nil => simp [I64]
          | cons o os =>
            have := chunksAt_head_nonneg B f tyEvents o os _ hch
            simp only [List.headD_cons, I64]; omega
        exact ⟨fun r => decThr_encThr _ r hn hz hl hoff.1 hoff.2 hin hil, hstr⟩
      · exact ih oss hrest (fun s' hs' => hwf s' (by simp [hs'])) t h

/-- **The reader inverts every placement of the model writer's buffers.** -/
theorem decode_of_layout (f : Bytes) (t : Trace) (p : Place) (hwf : WellFormed t)
    (hf : f.length < 9223372036854775808) (hl : LayoutAt f t p) : decode f = some t := by
  obtain ⟨_, _, _, _, _, hdne, _, hkeys, _, hstreams⟩ := hwf
  obtain ⟨⟨h, hdec, hB, hhr, hrk, hds, hnt, hdo, hto⟩, hdl, htl, hdict, hthr, hev⟩ := hl
  -- dictionary
  have hkcap : ∀ k ∈ t.dict, keyStride k ≤ avail t.bufSize - 1 := fun k hk => by
    have := (hkeys k hk).2.2.2.2.2.2; omega
  have hdnz := pack_zero_ok (avail t.bufSize - 1) keyStride t.dict hkcap hdne
  have hrd := readCounted_chunks decKey encKey tyDict t.bufSize f (pack (avail t.bufSize - 1) keyStride t.dict 0)
    p.dictOffs (f.length + 1)
    (fun c hc a ha r => decKey_encKey t.bufSize a r (hkeys a (by
      rw [← pack_flatten (avail t.bufSize - 1) keyStride t.dict 0]
      exact List.mem_flatten.mpr ⟨c, hc, ha⟩)))
    (fun c hc => (hdnz c hc).1) hdict (pack_ne_nil _ _ _ _) (by omega)
  rw [pack_flatten] at hrd
  have hdoff : p.dictOffs.headD (-1) = h.dictOff := by
    cases hp : p.dictOffs with
    | nil => simp [hp] at hdo
    | cons o os => simp [hp] at hdo; simp [hdo]
  -- threads
  have hoss := evChunksAt_length _ _ _ _ hev
  have hrecs := thrRecs_wf t.bufSize t.dict f hf p.evOffs t.streams hev hstreams
  have hrt : readCounted decThr tyThread t.bufSize f (f.length + 1) h.thrOff t.streams.length
      = some (thrRecs t.streams (firstOffs p.evOffs)) := by
    have hlenr := thrRecs_length t.streams (firstOffs p.evOffs) (by simp [firstOffs, hoss])
    cases hss : t.streams with
    | nil =>
      rw [hss] at hthr hoss
      have : p.evOffs = [] := by cases hq : p.evOffs <;> simp_all
      rw [this] at hthr
      simp only [firstOffs, List.map_nil, thrRecs, thrChunks, pack, List.map_cons, chunkOf, List.length_nil] at hthr
      match hq : p.thrOffs, hthr with
      | [o], hthr =>
        rw [hq] at hto; simp at hto; rw [hto]
        simpa [thrRecs] using readCounted_empty decThr tyThread t.bufSize f o f.length hthr
      | [], hthr => simp [ChunksAt] at hthr
      | _ :: _ :: _, hthr => simp [ChunksAt] at hthr
    | cons s0 ss0 =>
      have hne : thrRecs t.streams (firstOffs p.evOffs) ≠ [] := by
        intro hnil; rw [hnil, hss] at hlenr; simp at hlenr
      have htcap : ∀ r ∈ thrRecs t.streams (firstOffs p.evOffs), thrStride r ≤ avail t.bufSize - 1 :=
        fun r hr => by have := (hrecs r hr).2; omega
      have htnz := pack_zero_ok (avail t.bufSize - 1) thrStride _ htcap hne
      have hr := readCounted_chunks decThr encThr tyThread t.bufSize f
        (pack (avail t.bufSize - 1) thrStride (thrRecs t.streams (firstOffs p.evOffs)) 0)
        p.thrOffs (f.length + 1)
        (fun c hc a ha r => (hrecs a (by
          rw [← pack_flatten (avail t.bufSize - 1) thrStride (thrRecs t.streams (firstOffs p.evOffs)) 0]
          exact List.mem_flatten.mpr ⟨c, hc, ha⟩)).1 r)
        (fun c hc => (htnz c hc).1) hthr (pack_ne_nil _ _ _ _) (by omega)
      rw [pack_flatten, hlenr, hss] at hr
      have htoff : p.thrOffs.headD (-1) = h.thrOff := by
        cases hp : p.thrOffs with
        | nil => simp [hp] at hto
        | cons o os => simp [hp] at hto; simp [hto]
      rw [htoff] at hr
      rw [← hss] at hr ⊢
      simpa [hss] using hr
  have hrs := readStreams_layout t.bufSize t.dict f p.evOffs t.streams hev hstreams
  unfold decode
  rw [hdoff] at hrd
  simp only [hdec, hB, hds, hnt, hrd, hrt, hrs, hhr, hrk]

/-! ### the canonical placement -/

theorem flatten_length_all (B : Nat) (bufs : List Bytes) (h : ∀ b ∈ bufs, b.length = B) :
    bufs.flatten.length = bufs.length * B := by
  induction bufs with
  | nil => simp
  | cons b bs ih =>
    have hb := h b (by simp)
    have := ih (fun x hx => h x (by simp [hx]))
    simp only [List.flatten_cons, List.length_append, List.length_cons, hb, this, Nat.succ_mul]
    omega

theorem drop_flatten (B : Nat) (pre : List Bytes) (b : Bytes) (post : List Bytes)
    (h : ∀ x ∈ pre, x.length = B) :
    (pre ++ b :: post).flatten.drop (pre.length * B) = b ++ post.flatten := by
  rw [List.flatten_append, ← flatten_length_all B pre h, List.drop_left]
  simp

def ChunkFits (B : Nat) (c : Nat × Bytes) : Prop := c.2.length ≤ avail B ∧ c.1 < 18446744073709551616

theorem mkChain_length (B typ : Nat) (start : Nat) (chunks : List (Nat × Bytes)) :
    (mkChain B typ start chunks).length = chunks.length := by
  induction chunks generalizing start with
  | nil => simp [mkChain]
  | cons c cs ih =>
    cases cs with
    | nil => simp [mkChain]
    | cons c' cs' => simp [mkChain, ih (start + 1)]

theorem mkChain_all_length (B typ : Nat) (start : Nat) (chunks : List (Nat × Bytes))
    (hB : bufHdrSize ≤ B) (hfit : ∀ c ∈ chunks, ChunkFits B c) :
    ∀ b ∈ mkChain B typ start chunks, b.length = B := by
  induction chunks generalizing start with
  | nil => simp [mkChain]
  | cons c cs ih =>
    have hc := (hfit c (by simp)).1
    cases cs with
    | nil =>
      intro b hb
      simp only [mkChain, List.mem_singleton] at hb
      subst hb; exact mkBuf_length _ _ _ _ _ _ hB hc
    | cons c' cs' =>
      intro b hb
      simp only [mkChain, List.mem_cons] at hb
      rcases hb with h | h
      · subst h; exact mkBuf_length _ _ _ _ _ _ hB hc
      · exact ih (start + 1) (fun x hx => hfit x (by simp [hx])) b (by simpa [mkChain] using h)

theorem chunksAt_canon (B typ : Nat) (f : Bytes) (pre : List Bytes) (chunks : List (Nat × Bytes))
    (post : List Bytes)
    (hf : f = (pre ++ mkChain B typ pre.length chunks ++ post).flatten)
    (hB : bufHdrSize ≤ B) (hpre : ∀ x ∈ pre, x.length = B) (hne : chunks ≠ [])
    (hfit : ∀ c ∈ chunks, ChunkFits B c)
    (hsz : (pre.length + chunks.length) * B < 9223372036854775808) :
    ChunksAt B f typ (seqOffs B pre.length chunks.length) chunks := by
  induction chunks generalizing pre with
  | nil => exact absurd rfl hne
  | cons c cs ih =>
    obtain ⟨hc, hcnt⟩ := hfit c (by simp)
    have hoff : (pre.length * B : Nat) < 9223372036854775808 := by
      have : pre.length * B ≤ (pre.length + (c :: cs).length) * B :=
        Nat.mul_le_mul_right _ (by omega)
      omega
    cases cs with
    | nil =>
      simp only [List.length_cons, List.length_nil, seqOffs, ChunksAt]
      refine ⟨-1, by omega, ?_⟩
      apply readBuf_mkBuf B f _ (Int.ofNat (pre.length * B)) (-1) c.1 typ c.2 post.flatten
        (by simp only [Int.ofNat_eq_natCast]; omega) _ hB hc (by omega) (by omega) hcnt
      rw [hf]
      simp only [mkChain, Int.ofNat_eq_natCast, Int.toNat_natCast, List.append_assoc, List.singleton_append]
      exact drop_flatten B pre _ post hpre
    | cons c' cs' =>
      have hoff2 : ((pre.length + 1) * B : Nat) < 9223372036854775808 := by
        have : (pre.length + 1) * B ≤ (pre.length + (c :: c' :: cs').length) * B :=
          Nat.mul_le_mul_right _ (by simp)
        omega
      simp only [List.length_cons, seqOffs, ChunksAt]
      constructor
      · apply readBuf_mkBuf B f _ (Int.ofNat (pre.length * B)) (Int.ofNat ((pre.length + 1) * B)) c.1 typ c.2
          ((mkChain B typ (pre.length + 1) (c' :: cs') ++ post).flatten)
          (by simp only [Int.ofNat_eq_natCast]; omega) _ hB hc (by simp only [Int.ofNat_eq_natCast]; omega)
          (by simp only [Int.ofNat_eq_natCast]; omega) hcnt
        rw [hf]
        simp only [mkChain, Int.ofNat_eq_natCast, Int.toNat_natCast, List.append_assoc, List.cons_append]
        exact drop_flatten B pre _ _ hpre
      · have hb0 : (mkBuf B (Int.ofNat (pre.length * B)) (Int.ofNat ((pre.length + 1) * B)) c.1 typ c.2).length = B :=
          mkBuf_length _ _ _ _ _ _ hB hc
        have := ih (pre ++ [mkBuf B (Int.ofNat (pre.length * B)) (Int.ofNat ((pre.length + 1) * B)) c.1 typ c.2])
          (by rw [hf]; simp [mkChain])
          (by intro x hx; simp only [List.mem_append, List.mem_singleton] at hx
              rcases hx with h | h
              · exact hpre x h
              · subst h; exact hb0)
          (by simp) (fun x hx => hfit x (by simp [hx]))
          (by simp only [List.length_append, List.length_cons, List.length_nil] at hsz ⊢
              have : pre.length + 1 + (cs'.length + 1) = pre.length + (cs'.length + 1 + 1) := by omega
              rw [this]; exact hsz)
        simpa [seqOffs] using this

theorem length_le_used {α : Type} (len : α → Nat) (h1 : ∀ a, 1 ≤ len a) (c : List α) :
    c.length ≤ used len c := by
  induction c with
  | nil => simp [used]
  | cons a c ih => have := h1 a; simp [used] at ih ⊢; omega

theorem pack_fits_all {α : Type} (cap : Nat) (len : α → Nat) (l : List α)
    (hl : ∀ a ∈ l, len a ≤ cap) : ∀ c ∈ pack cap len l 0, used len c ≤ cap := by
  obtain ⟨c, cs, he, hfit, hcs, _⟩ := pack_ok cap len l 0 hl (Nat.zero_le _)
  intro c' hc'
  rw [he] at hc'
  simp only [List.mem_cons] at hc'
  rcases hc' with h | h
  · subst h; omega
  · exact (hcs c' h).2

theorem chunks_fit {α : Type} (B cap : Nat) (enc : α → Bytes) (len : α → Nat) (l : List α)
    (henc : ∀ a, (enc a).length = len a) (h1 : ∀ a, 1 ≤ len a)
    (hl : ∀ a ∈ l, len a ≤ cap) (hcap : cap ≤ avail B) (hB : B < 2147483648) :
    ∀ c ∈ (pack cap len l 0).map (chunkOf enc), ChunkFits B c := by
  intro c hc
  simp only [List.mem_map] at hc
  obtain ⟨x, hx, rfl⟩ := hc
  have hu := pack_fits_all cap len l hl x hx
  have hlen := length_le_used len h1 x
  have hfl := flatten_map_length enc len x henc
  simp only [used] at hu hlen
  simp only [ChunkFits, chunkOf, hfl, avail] at *
  omega

theorem seqOffs_length (B start n : Nat) : (seqOffs B start n).length = n := by
  induction n generalizing start with
  | zero => rfl
  | succ n ih => simp [seqOffs, ih]

theorem evBufs_length (B start : Nat) (ss : List Stream) : (evBufs B start ss).length = evCount B ss := by
  induction ss generalizing start with
  | nil => rfl
  | cons s ss ih => simp [evBufs, evCount, mkChain_length, ih]

theorem evBufs_all_length (B start : Nat) (ss : List Stream) (hB : bufHdrSize ≤ B)
    (hfit : ∀ s ∈ ss, ∀ c ∈ evChunks B s, ChunkFits B c) :
    ∀ b ∈ evBufs B start ss, b.length = B := by
  induction ss generalizing start with
  | nil => simp [evBufs]
  | cons s ss ih =>
    intro b hb
    simp only [evBufs, List.mem_append] at hb
    rcases hb with h | h
    · exact mkChain_all_length B tyEvents start _ hB (hfit s (by simp)) b h
    · exact ih _ (fun s' hs' => hfit s' (by simp [hs'])) b h

theorem evChunks_ne_nil (B : Nat) (s : Stream) : evChunks B s ≠ [] := by
  simp [evChunks, pack_ne_nil]

theorem evChunksAt_canon (B : Nat) (f : Bytes) (pre : List Bytes) (ss : List Stream) (post : List Bytes)
    (hf : f = (pre ++ evBufs B pre.length ss ++ post).flatten)
    (hB : bufHdrSize ≤ B) (hpre : ∀ x ∈ pre, x.length = B)
    (hfit : ∀ s ∈ ss, ∀ c ∈ evChunks B s, ChunkFits B c)
    (hsz : (pre.length + evCount B ss) * B < 9223372036854775808)
    (hfl : pre.length + evCount B ss ≤ f.length) :
    EvChunksAt B f (evPlaces B pre.length ss) ss := by
  induction ss generalizing pre with
  | nil => simp [evPlaces, EvChunksAt]
  | cons s ss ih =>
    simp only [evPlaces, EvChunksAt, seqOffs_length]
    simp only [evCount] at hsz hfl
    refine ⟨by omega, ?_, ?_⟩
    · apply chunksAt_canon B tyEvents f pre (evChunks B s) (evBufs B (pre.length + (evChunks B s).length) ss ++ post)
        (by rw [hf]; simp [evBufs]) hB hpre (evChunks_ne_nil B s) (hfit s (by simp))
      have : (pre.length + (evChunks B s).length) * B ≤ (pre.length + ((evChunks B s).length + evCount B ss)) * B :=
        Nat.mul_le_mul_right _ (by omega)
      omega
    · have hl : (pre ++ mkChain B tyEvents pre.length (evChunks B s)).length = pre.length + (evChunks B s).length := by
        simp [mkChain_length]
      have := ih (pre ++ mkChain B tyEvents pre.length (evChunks B s))
        (by rw [hf, hl]; simp [evBufs])
        (by intro x hx; simp only [List.mem_append] at hx
            rcases hx with h | h
            · exact hpre x h
            · exact mkChain_all_length B tyEvents _ _ hB (hfit s (by simp)) x h)
        (fun s' hs' => hfit s' (by simp [hs']))
        (by rw [hl]; simpa [Nat.add_assoc] using hsz)
        (by rw [hl]; omega)
      rw [hl] at this
      exact this

theorem encHeader_length (h : Header) : (encHeader h).length = fileHdrSize := by
  simp [encHeader, fixstr_length, fileHdrSize, pad, magick]

theorem head?_headD {α : Type} (l : List α) (d : α) (h : l ≠ []) : some (l.headD d) = l.head? := by
  cases l with
  | nil => exact absurd rfl h
  | cons a l => rfl

theorem seqOffs_headD (B start n : Nat) (hn : n ≠ 0) : (seqOffs B start n).headD (-1) = Int.ofNat (start * B) := by
  cases n with
  | zero => exact absurd rfl hn
  | succ n => rfl

theorem dictChunks_ne_nil (t : Trace) : dictChunks t ≠ [] := by simp [dictChunks, pack_ne_nil]
theorem thrChunks_ne_nil (B : Nat) (r : List ThreadRec) : thrChunks B r ≠ [] := by simp [thrChunks, pack_ne_nil]

/-- the thread records of the canonical file can be packed (their sizes only depend on the infos). -/
theorem thrRecs_stride (B : Nat) (dict : List KeyDef) (ss : List Stream) (os : List Int)
    (hwf : ∀ s ∈ ss, WFStream B dict s) : ∀ r ∈ thrRecs ss os, thrStride r ≤ avail B - 1 := by
  induction ss generalizing os with
  | nil => cases os <;> simp [thrRecs]
  | cons s ss ih =>
    cases os with
    | nil => simp [thrRecs]
    | cons o os =>
      intro r hr
      simp only [thrRecs, List.mem_cons] at hr
      rcases hr with h | h
      · subst h
        have := (hwf s (by simp)).2.2.2.2.2.2.2
        simp only [thrStride]; omega
      · exact ih os (fun s' hs' => hwf s' (by simp [hs'])) r h

/-- **The model writer's file is a placement of its own buffers.** -/
theorem layout_encode (t : Trace) (hwf : WellFormed t) (hsz : (encode t).length < 9223372036854775808) :
    LayoutAt (encode t) t (canonPlace t) := by
  obtain ⟨hB1, hB2, hhz, hhl, hrk, hdne, hdl, hkeys, hsl, hstreams⟩ := hwf
  have hB : bufHdrSize ≤ t.bufSize := by simp only [fileHdrSize, bufHdrSize] at *; omega
  -- the four groups of buffers
  have hdfit : ∀ c ∈ dictChunks t, ChunkFits t.bufSize c :=
    chunks_fit t.bufSize (avail t.bufSize - 1) encKey keyStride t.dict encKey_length
      (fun a => by simp [keyStride, keyTail]; omega)
      (fun k hk => by have := (hkeys k hk).2.2.2.2.2.2; omega) (by omega) hB2
  have hefit : ∀ s ∈ t.streams, ∀ c ∈ evChunks t.bufSize s, ChunkFits t.bufSize c := fun s hs =>
    chunks_fit t.bufSize (avail t.bufSize) encEvent evLen s.events encEvent_length
      (fun a => by simp [evLen, evBase]; omega)
      (fun e he => Nat.le_of_lt ((hstreams s hs).2.2.2.2.1 e he).2.2.2.2.2.1) (Nat.le_refl _) hB2
  have htfit : ∀ os, ∀ c ∈ thrChunks t.bufSize (thrRecs t.streams os), ChunkFits t.bufSize c := fun os =>
    chunks_fit t.bufSize (avail t.bufSize - 1) encThr thrStride _ encThr_length
      (fun a => by simp [thrStride, thrFixed]; omega)
      (thrRecs_stride t.bufSize t.dict t.streams os hstreams) (by omega) hB2
  -- abbreviations
  generalize hD : mkChain t.bufSize tyDict 1 (dictChunks t) = D at *
  generalize hH : headerBuf t (canonPlace t) = H at *
  have hHl : H.length = t.bufSize := by
    rw [← hH]; unfold headerBuf
    exact pad_length _ _ (by rw [encHeader_length]; exact hB1)
  have hDl : D.length = (dictChunks t).length := by rw [← hD, mkChain_length]
  have hDa : ∀ b ∈ D, b.length = t.bufSize := by
    rw [← hD]; exact mkChain_all_length _ _ _ _ hB hdfit
  have hEl := evBufs_length t.bufSize (1 + (dictChunks t).length) t.streams
  have hEa := evBufs_all_length t.bufSize (1 + (dictChunks t).length) t.streams hB hefit
  have hTa := mkChain_all_length t.bufSize tyThread (1 + (dictChunks t).length + evCount t.bufSize t.streams) _ hB
    (htfit (firstOffs (canonPlace t).evOffs))
  have hall : ∀ b ∈ encodeBufs t, b.length = t.bufSize := by
    intro b hb
    simp only [encodeBufs, hH, hD, List.mem_cons, List.mem_append] at hb
    rcases hb with h | h | h | h
    · subst h; exact hHl
    · exact hDa b h
    · exact hEa b h
    · exact hTa b h
  have hflen : (encode t).length = (encodeBufs t).length * t.bufSize := flatten_length_all _ _ hall
  have hnb : (encodeBufs t).length = 1 + (dictChunks t).length + evCount t.bufSize t.streams +
      (thrChunks t.bufSize (thrRecs t.streams (firstOffs (canonPlace t).evOffs))).length := by
    simp only [encodeBufs, hH, hD, List.length_cons, List.length_append, hDl, hEl, mkChain_length]
    omega
  have hBpos : 1 ≤ t.bufSize := by simp only [bufHdrSize] at hB; omega
  have hnble : (encodeBufs t).length ≤ (encode t).length := by
    rw [hflen]; exact Nat.le_mul_of_pos_right _ hBpos
  have hdn0 : (dictChunks t).length ≠ 0 := by
    have := dictChunks_ne_nil t; intro h; exact this (List.length_eq_zero_iff.mp h)
  have htn0 : (thrChunks t.bufSize (thrRecs t.streams (firstOffs (canonPlace t).evOffs))).length ≠ 0 := by
    have := thrChunks_ne_nil t.bufSize (thrRecs t.streams (firstOffs (canonPlace t).evOffs))
    intro h; exact this (List.length_eq_zero_iff.mp h)
  have hmul : ∀ k, k ≤ (encodeBufs t).length → k * t.bufSize < 9223372036854775808 := fun k hk => by
    have : k * t.bufSize ≤ (encodeBufs t).length * t.bufSize := Nat.mul_le_mul_right _ hk
    omega
  refine ⟨⟨headerOf t (canonPlace t), ?_, rfl, rfl, rfl, rfl, rfl, ?_, ?_⟩, ?_, ?_, ?_, ?_, ?_⟩
  · -- header
    have h1 := hmul 1 (by omega)
    have h2 := hmul (1 + (dictChunks t).length + evCount t.bufSize t.streams) (by omega)
    have : encode t = encHeader (headerOf t (canonPlace t)) ++
        (zeros (t.bufSize - (encHeader (headerOf t (canonPlace t))).length) ++ (encodeBufs t).tail.flatten) := by
      simp only [encode, encodeBufs, headerBuf, pad, List.flatten_cons, List.tail_cons, List.append_assoc]
    rw [this]
    apply decHeader_encHeader
    · simp only [headerOf]; omega
    · exact hhz
    · exact hhl
    · simp only [headerOf]; omega
    · simp only [headerOf, canonPlace, seqOffs_headD _ _ _ hdn0, I64, Int.ofNat_eq_natCast]; omega
    · simp [headerOf]
    · simp [headerOf, I64]
    · simp only [headerOf]; omega
    · simp only [headerOf]; omega
    · have htn0' := htn0
      simp only [canonPlace] at htn0'
      simp only [headerOf, canonPlace, seqOffs_headD _ _ _ htn0', I64, Int.ofNat_eq_natCast]
      omega
  · exact head?_headD _ _ (by
      intro h; have := congrArg List.length h
      simp only [canonPlace, seqOffs_length, List.length_nil] at this; exact hdn0 this)
  · exact head?_headD _ _ (by
      intro h; have := congrArg List.length h
      simp only [canonPlace, seqOffs_length, List.length_nil] at this; exact htn0 this)
  · simp only [canonPlace, seqOffs_length]; omega
  · simp only [canonPlace, seqOffs_length]; simp only [canonPlace] at hnb; omega
  · -- dictionary chain
    have := chunksAt_canon t.bufSize tyDict (encode t) [H] (dictChunks t)
      (evBufs t.bufSize (1 + (dictChunks t).length) t.streams ++
        mkChain t.bufSize tyThread (1 + (dictChunks t).length + evCount t.bufSize t.streams)
          (thrChunks t.bufSize (thrRecs t.streams (firstOffs (canonPlace t).evOffs))))
      (by simp [encode, encodeBufs, hH, hD]) hB (by simpa using hHl) (dictChunks_ne_nil t) hdfit
      (by apply hmul; simp only [List.length_singleton]; omega)
    simpa [canonPlace] using this
  · -- thread chain
    have hpl : (H :: (D ++ evBufs t.bufSize (1 + (dictChunks t).length) t.streams)).length =
        1 + (dictChunks t).length + evCount t.bufSize t.streams := by
      simp [hDl, hEl]; omega
    have := chunksAt_canon t.bufSize tyThread (encode t)
      (H :: (D ++ evBufs t.bufSize (1 + (dictChunks t).length) t.streams))
      (thrChunks t.bufSize (thrRecs t.streams (firstOffs (canonPlace t).evOffs))) []
      (by rw [hpl]; simp [encode, encodeBufs, hH, hD]) hB
      (by intro x hx; simp only [List.mem_cons, List.mem_append] at hx
          rcases hx with h | h | h
          · subst h; exact hHl
          · exact hDa x h
          · exact hEa x h)
      (thrChunks_ne_nil _ _) (htfit _)
      (by apply hmul; rw [hpl]; omega)
    rw [hpl] at this
    simpa [canonPlace] using this
  · -- event chains
    have hpl : (H :: D).length = 1 + (dictChunks t).length := by simp [hDl]; omega
    have := evChunksAt_canon t.bufSize (encode t) (H :: D) t.streams
      (mkChain t.bufSize tyThread (1 + (dictChunks t).length + evCount t.bufSize t.streams)
          (thrChunks t.bufSize (thrRecs t.streams (firstOffs (canonPlace t).evOffs))))
      (by rw [hpl]; simp [encode, encodeBufs, hH, hD]) hB
      (by intro x hx; simp only [List.mem_cons] at hx
          rcases hx with h | h
          · subst h; exact hHl
          · exact hDa x h)
      hefit (by apply hmul; rw [hpl]; omega) (by rw [hpl]; omega)
    rw [hpl] at this
    simpa [canonPlace] using this

end ParsecVerif.Profile
