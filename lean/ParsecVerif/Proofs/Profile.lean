import ParsecVerif.Model.Profile
/-
  C42 — helper lemmas for the binary profile model: byte-level round trips, record round trips,
  greedy packing, chain following, canonical placement.
-/
namespace ParsecVerif.Profile

/-! ### bytes -/

@[simp] theorem le_length (k n : Nat) : (le k n).length = k := by
  induction k generalizing n with
  | zero => rfl
  | succ k ih => simp [le, ih]

theorem unle_le (k n : Nat) (h : n < 256 ^ k) : unle (le k n) = n := by
  induction k generalizing n with
  | zero =>
    have : n = 0 := by simpa using h
    subst this; rfl
  | succ k ih =>
    simp only [le, unle]
    have h2 : n / 256 < 256 ^ k := by
      rw [Nat.pow_succ] at h
      exact Nat.div_lt_of_lt_mul (by rw [Nat.mul_comm]; exact h)
    rw [ih _ h2]
    omega

theorem le_lt (k n : Nat) : ∀ b ∈ le k n, b < 256 := by
  induction k generalizing n with
  | zero => simp [le]
  | succ k ih =>
    intro b hb
    simp only [le, List.mem_cons] at hb
    rcases hb with h | h
    · omega
    · exact ih _ b h

theorem unle_le2 (n : Nat) (h : n < 65536) : unle (le 2 n) = n := unle_le 2 n (by simpa using h)
theorem unle_le4 (n : Nat) (h : n < 4294967296) : unle (le 4 n) = n := unle_le 4 n (by simpa using h)
theorem unle_le8 (n : Nat) (h : n < 18446744073709551616) : unle (le 8 n) = n :=
  unle_le 8 n (by simpa using h)

@[simp] theorem i64_length (i : Int) : (i64 i).length = 8 := by simp [i64]

theorem toI64_i64 (i : Int) (h1 : -9223372036854775808 ≤ i) (h2 : i < 9223372036854775808) :
    toI64 (unle (i64 i)) = i := by
  unfold i64
  rw [unle_le8 _ (by omega)]
  unfold toI64
  split <;> omega

@[simp] theorem zeros_length (n : Nat) : (zeros n).length = n := by simp [zeros]

theorem split_append (n : Nat) (x r : Bytes) (h : x.length = n) : split n (x ++ r) = some (x, r) := by
  subst h
  simp [split]

@[simp] theorem split_le (k n : Nat) (r : Bytes) : split k (le k n ++ r) = some (le k n, r) :=
  split_append _ _ _ (le_length k n)

@[simp] theorem split_i64 (i : Int) (r : Bytes) : split 8 (i64 i ++ r) = some (i64 i, r) :=
  split_append _ _ _ (i64_length i)

@[simp] theorem split_zeros (n : Nat) (r : Bytes) : split n (zeros n ++ r) = some (zeros n, r) :=
  split_append _ _ _ (zeros_length n)

theorem split_self_append (x r : Bytes) : split x.length (x ++ r) = some (x, r) :=
  split_append _ _ _ rfl

theorem pad_length (n : Nat) (s : Bytes) (h : s.length ≤ n) : (pad n s).length = n := by
  simp [pad]; omega

theorem fixstr_length (n : Nat) (s : Bytes) (hn : 0 < n) : (fixstr n s).length = n := by
  unfold fixstr
  apply pad_length
  simp; omega

theorem cstr_append_zero (s r : Bytes) (h : noZero s) : cstr (s ++ 0 :: r) = s := by
  induction s with
  | nil => simp [cstr]
  | cons a s ih =>
    have ha : a ≠ 0 := h a (by simp)
    have hs : noZero s := fun b hb => h b (by simp [hb])
    simp [cstr, ha, ih hs]

theorem cstr_fixstr (n : Nat) (s : Bytes) (h : noZero s) (hl : s.length + 1 ≤ n) :
    cstr (fixstr n s) = s := by
  unfold fixstr pad zeros
  have ht : s.take (n - 1) = s := List.take_of_length_le (by omega)
  rw [ht]
  have : n - s.length = (n - s.length - 1) + 1 := by omega
  rw [this, List.replicate_succ]
  exact cstr_append_zero s _ h

@[simp] theorem split_fixstr (n : Nat) (s r : Bytes) (hn : 0 < n) :
    split n (fixstr n s ++ r) = some (fixstr n s, r) :=
  split_append _ _ _ (fixstr_length n s hn)

/-! ### records -/

theorem decEvent_encEvent (B : Nat) (dict : List KeyDef) (e : Event) (r : Bytes)
    (h : WFEvent B dict e) : decEvent dict (encEvent e ++ r) = some (e, r) := by
  obtain ⟨hk, hf, ht, hi, hs, _, hinfo⟩ := h
  unfold decEvent encEvent
  simp only [List.append_assoc, split_le, unle_le2 _ hk, unle_le2 _ hf, unle_le4 _ ht, unle_le8 _ hi,
    unle_le8 _ hs]
  by_cases hb : e.flags % 2 = 1
  · simp only [hb, if_true] at hinfo ⊢
    cases hd : dict[e.key / 2]? with
    | none => simp [hd] at hinfo
    | some kd =>
      simp only [hd, Option.map_some, Option.some.injEq] at hinfo
      simp only [hinfo, split_self_append]
  · simp only [hb, if_false] at hinfo ⊢
    cases e
    simp_all

theorem encEvent_length (e : Event) : (encEvent e).length = evLen e := by
  simp [encEvent, evLen, evBase]; omega

theorem decKey_encKey (B : Nat) (k : KeyDef) (r : Bytes) (h : WFKey B k) :
    decKey (encKey k ++ r) = some (k, r) := by
  obtain ⟨hn, hnl, ha, hal, hc, hi, _⟩ := h
  unfold decKey encKey
  simp only [List.append_assoc, split_fixstr _ _ _ (by decide : 0 < 64),
    split_fixstr _ _ _ (by decide : 0 < 128), split_le, unle_le4 _ (by omega : k.conv.length < 4294967296),
    unle_le4 _ (by omega : k.infoLen < 4294967296),
    split_self_append, split_zeros, cstr_fixstr 64 _ hn (by omega), cstr_fixstr 128 _ ha (by omega)]

theorem encKey_length (k : KeyDef) : (encKey k).length = keyStride k := by
  simp [encKey, keyStride, keyTail, fixstr_length]; omega

theorem decInfo_encInfo (i : Info) (r : Bytes) (h : WFInfo i) :
    decInfo (encInfo i ++ r) = some (i, r) := by
  obtain ⟨hk, hv⟩ := h
  unfold decInfo encInfo
  simp only [List.append_assoc, split_le, unle_le4 _ (by omega : i.key.length < 4294967296),
    unle_le4 _ (by omega : i.value.length < 4294967296), split_self_append, split_zeros]

theorem encInfo_length (i : Info) : (encInfo i).length = infoStride i := by
  simp [encInfo, infoStride, infoTail]; omega

theorem parseN_flatten {α : Type} (p : Bytes → Option (α × Bytes)) (enc : α → Bytes) (l : List α)
    (r : Bytes) (h : ∀ a ∈ l, ∀ r, p (enc a ++ r) = some (a, r)) :
    parseN p l.length ((l.map enc).flatten ++ r) = some (l, r) := by
  induction l with
  | nil => simp [parseN]
  | cons a l ih =>
    have ha := h a (by simp)
    have hl : ∀ b ∈ l, ∀ r, p (enc b ++ r) = some (b, r) := fun b hb => h b (by simp [hb])
    simp only [List.map_cons, List.flatten_cons, List.length_cons, parseN, List.append_assoc, ha,
      ih hl]

theorem flatten_map_length {α : Type} (enc : α → Bytes) (len : α → Nat) (l : List α)
    (h : ∀ a, (enc a).length = len a) : ((l.map enc).flatten).length = (l.map len).sum := by
  induction l with
  | nil => rfl
  | cons a l ih => simp [h, ih]

theorem decThr_encThr (t : ThreadRec) (r : Bytes)
    (hn : t.nbEvents < 18446744073709551616) (hz : noZero t.hrid) (hl : t.hrid.length ≤ 127)
    (ho1 : -9223372036854775808 ≤ t.firstOff) (ho2 : t.firstOff < 9223372036854775808)
    (hi : ∀ i ∈ t.infos, WFInfo i) (hil : t.infos.length < 2147483648) :
    decThr (encThr t ++ r) = some (t, r) := by
  unfold decThr encThr
  have hp := parseN_flatten decInfo encInfo t.infos r (fun a ha r => decInfo_encInfo a r (hi a ha))
  simp only [List.append_assoc, split_le, split_i64, split_fixstr _ _ _ (by decide : 0 < 128),
    unle_le8 _ hn, unle_le4 _ (by omega : t.infos.length < 4294967296), hp,
    cstr_fixstr 128 _ hz (by omega), toI64_i64 _ ho1 ho2]

theorem encThr_length (t : ThreadRec) : (encThr t).length = thrStride t := by
  simp only [encThr, thrStride, thrFixed, List.length_append, le_length, i64_length,
    fixstr_length 128 _ (by decide), flatten_map_length encInfo infoStride _ encInfo_length]
  omega

/-! ### greedy packing -/

def used {α : Type} (len : α → Nat) (c : List α) : Nat := (c.map len).sum

theorem flatten_consHead {α : Type} (a : α) (l : List (List α)) :
    (consHead a l).flatten = a :: l.flatten := by
  cases l <;> simp [consHead]

theorem pack_flatten {α : Type} (cap : Nat) (len : α → Nat) (l : List α) (pos : Nat) :
    (pack cap len l pos).flatten = l := by
  induction l generalizing pos with
  | nil => simp [pack]
  | cons a as ih =>
    unfold pack
    split <;> simp [flatten_consHead, ih]

/-- the current buffer never overflows, later buffers are non-empty and fit, and the current
    buffer receives the first record when that record fits. -/
theorem pack_ok {α : Type} (cap : Nat) (len : α → Nat) (l : List α) (pos : Nat)
    (hl : ∀ a ∈ l, len a ≤ cap) (hp : pos ≤ cap) :
    ∃ c cs, pack cap len l pos = c :: cs ∧ pos + used len c ≤ cap ∧
      (∀ c' ∈ cs, c' ≠ [] ∧ used len c' ≤ cap) ∧
      (∀ a, l.head? = some a → pos + len a ≤ cap → c ≠ []) := by
  induction l generalizing pos with
  | nil => exact ⟨[], [], by simp [pack], by simp [used]; exact hp, by simp, by simp⟩
  | cons a as ih =>
    have ha : len a ≤ cap := hl a (by simp)
    have has : ∀ b ∈ as, len b ≤ cap := fun b hb => hl b (by simp [hb])
    unfold pack
    split
    · rename_i hgt
      obtain ⟨c, cs, he, hfit, hcs, _⟩ := ih (len a) has ha
      refine ⟨[], (a :: c) :: cs, by simp [he, consHead], by simp [used]; exact hp, ?_, ?_⟩
      · intro c' hc'
        simp only [List.mem_cons] at hc'
        rcases hc' with h | h
        · subst h; simp [used] at hfit ⊢; omega
        · exact hcs c' h
      · intro b hb hle
        simp at hb; subst hb; omega
    · rename_i hle
      obtain ⟨c, cs, he, hfit, hcs, _⟩ := ih (pos + len a) has (by omega)
      refine ⟨a :: c, cs, by simp [he, consHead], ?_, hcs, by simp⟩
      simp [used] at hfit ⊢; omega

/-- packing from an empty buffer: every buffer is non-empty and fits. -/
theorem pack_zero_ok {α : Type} (cap : Nat) (len : α → Nat) (l : List α)
    (hl : ∀ a ∈ l, len a ≤ cap) (hne : l ≠ []) :
    ∀ c ∈ pack cap len l 0, c ≠ [] ∧ used len c ≤ cap := by
  obtain ⟨c, cs, he, hfit, hcs, hhd⟩ := pack_ok cap len l 0 hl (Nat.zero_le _)
  intro c' hc'
  rw [he] at hc'
  simp only [List.mem_cons] at hc'
  rcases hc' with h | h
  · subst h
    cases l with
    | nil => exact absurd rfl hne
    | cons a as =>
      exact ⟨hhd a rfl (by have := hl a (by simp); omega), by omega⟩
  · exact hcs c' h

theorem pack_ne_nil {α : Type} (cap : Nat) (len : α → Nat) (l : List α) (pos : Nat) :
    pack cap len l pos ≠ [] := by
  cases l with
  | nil => simp [pack]
  | cons a as =>
    unfold pack
    split
    · simp
    · cases pack cap len as (pos + len a) <;> simp [consHead]

/-! ### buffers -/

theorem mkBuf_length (B : Nat) (this next : Int) (count typ : Nat) (content : Bytes)
    (hB : bufHdrSize ≤ B) (hc : content.length ≤ avail B) :
    (mkBuf B this next count typ content).length = B := by
  have hp := pad_length _ _ hc
  simp only [mkBuf, List.length_append, List.length_cons, i64_length, le_length, hp]
  simp only [avail, bufHdrSize] at *
  omega

theorem readBuf_mkBuf (B : Nat) (f : Bytes) (off : Int) (this next : Int) (count typ : Nat)
    (content rest : Bytes) (ho : 0 ≤ off)
    (hd : f.drop off.toNat = mkBuf B this next count typ content ++ rest)
    (hB : bufHdrSize ≤ B) (hc : content.length ≤ avail B)
    (hn1 : -9223372036854775808 ≤ next) (hn2 : next < 9223372036854775808)
    (hcnt : count < 18446744073709551616) :
    readBuf B f off = some ⟨next, count, typ, pad (avail B) content⟩ := by
  unfold readBuf
  rw [if_neg (by omega), hd, split_append _ _ _ (mkBuf_length B this next count typ content hB hc)]
  simp only [mkBuf, split_i64, split_le, toI64_i64 _ hn1 hn2, unle_le8 _ hcnt]
  simp [split, unle]

/-! ### following chains of placed buffers -/

theorem parseN_pad {α : Type} (p : Bytes → Option (α × Bytes)) (enc : α → Bytes) (c : List α) (n : Nat)
    (h : ∀ a ∈ c, ∀ r, p (enc a ++ r) = some (a, r)) :
    parseN p c.length (pad n (c.map enc).flatten) = some (c, zeros (n - ((c.map enc).flatten).length)) := by
  unfold pad
  exact parseN_flatten p enc c _ h

theorem readCounted_chunks {α : Type} (p : Bytes → Option (α × Bytes)) (enc : α → Bytes)
    (typ B : Nat) (f : Bytes) (chunks : List (List α)) (offs : List Int) (fuel : Nat)
    (hp : ∀ c ∈ chunks, ∀ a ∈ c, ∀ r, p (enc a ++ r) = some (a, r))
    (hne : ∀ c ∈ chunks, c ≠ [])
    (hat : ChunksAt B f typ offs (chunks.map (chunkOf enc)))
    (hcn : chunks ≠ []) (hfuel : offs.length ≤ fuel) :
    readCounted p typ B f fuel (offs.headD (-1)) chunks.flatten.length = some chunks.flatten := by
  induction chunks generalizing offs fuel with
  | nil => exact absurd rfl hcn
  | cons c cs ih =>
    have hc : c ≠ [] := hne c (by simp)
    have hcl : c.length ≠ 0 := by simpa using hc
    have hpc := parseN_pad p enc c (avail B) (hp c (by simp))
    cases cs with
    | nil =>
      match offs, hat with
      | [o], hat =>
        simp only [List.map_cons, List.map_nil, ChunksAt, chunkOf] at hat
        obtain ⟨nx, _, hrb⟩ := hat
        cases fuel with
        | zero => simp at hfuel
        | succ fuel =>
          simp only [List.headD_cons, List.flatten_cons, List.flatten_nil, List.append_nil]
          unfold readCounted
          simp [hrb, hcl, hpc]
      | [], hat => simp [ChunksAt] at hat
      | _ :: _ :: _, hat => simp [ChunksAt] at hat
    | cons c' cs' =>
      match offs, hat with
      | o :: o' :: os, hat =>
        simp only [List.map_cons, ChunksAt, chunkOf] at hat
        obtain ⟨hrb, hrest⟩ := hat
        have hc' : c' ≠ [] := hne c' (by simp)
        have hc'l : c'.length ≠ 0 := by simpa using hc'
        cases fuel with
        | zero => simp at hfuel
        | succ fuel =>
          have hih := ih (o' :: os) fuel (fun d hd => hp d (by simp [hd])) (fun d hd => hne d (by simp [hd]))
            (by simpa [chunkOf] using hrest) (by simp) (by simp at hfuel ⊢; omega)
          simp only [List.headD_cons] at hih ⊢
          unfold readCounted
          have hlen : (c :: c' :: cs').flatten.length = c.length + (c' :: cs').flatten.length := by
            rw [List.flatten_cons, List.length_append]
          have hL : c'.length ≤ (c' :: cs').flatten.length := by
            rw [List.flatten_cons, List.length_append]; omega
          have hmin : min c.length (c :: c' :: cs').flatten.length = c.length := by omega
          have hrem : (c :: c' :: cs').flatten.length - c.length = (c' :: cs').flatten.length := by
            omega
          have hnz : (c :: c' :: cs').flatten.length ≠ 0 := by omega
          have hnz2 : (c' :: cs').flatten.length ≠ 0 := by omega
          have hflat : (c :: c' :: cs').flatten = c ++ (c' :: cs').flatten := List.flatten_cons
          generalize (c :: c' :: cs').flatten.length = T at hlen hmin hrem hnz ⊢
          generalize (c' :: cs').flatten.length = L at hlen hrem hnz2 hih hL ⊢
          simp only [hrb, hmin, hrem, hpc, hih, hnz, hnz2, hcl, ne_eq, not_true_eq_false, ↓reduceIte,
            hflat]
      | [], hat => simp [ChunksAt] at hat
      | [_], hat => simp [ChunksAt] at hat

theorem readCounted_empty {α : Type} (p : Bytes → Option (α × Bytes)) (typ B : Nat) (f : Bytes)
    (o : Int) (fuel : Nat) (hat : ChunksAt B f typ [o] [(0, [])]) :
    readCounted p typ B f (fuel + 1) o 0 = some [] := by
  simp only [ChunksAt] at hat
  obtain ⟨nx, _, hrb⟩ := hat
  unfold readCounted
  simp [hrb]

theorem readLinked_chunks {α : Type} (p : Bytes → Option (α × Bytes)) (enc : α → Bytes)
    (typ B : Nat) (f : Bytes) (chunks : List (List α)) (offs : List Int) (fuel : Nat)
    (hp : ∀ c ∈ chunks, ∀ a ∈ c, ∀ r, p (enc a ++ r) = some (a, r))
    (hne : ∀ c ∈ chunks, c ≠ [])
    (hat : ChunksAt B f typ offs (chunks.map (chunkOf enc)))
    (hcn : chunks ≠ []) (hfuel : offs.length + 1 ≤ fuel) :
    readLinked p typ B f fuel (offs.headD (-1)) = some chunks.flatten := by
  induction chunks generalizing offs fuel with
  | nil => exact absurd rfl hcn
  | cons c cs ih =>
    have hc : c ≠ [] := hne c (by simp)
    have hcl : c.length ≠ 0 := by simpa using hc
    have hpc := parseN_pad p enc c (avail B) (hp c (by simp))
    cases cs with
    | nil =>
      match offs, hat with
      | [o], hat =>
        simp only [List.map_cons, List.map_nil, ChunksAt, chunkOf] at hat
        obtain ⟨nx, hnx, hrb⟩ := hat
        have ho : ¬ o < 0 := by
          intro hlt
          simp [readBuf, hlt] at hrb
        match fuel, hfuel with
        | fuel + 2, _ =>
          simp only [List.headD_cons, List.flatten_cons, List.flatten_nil, List.append_nil]
          unfold readLinked
          simp only [if_neg ho, hrb, hpc]
          unfold readLinked
          simp [hcl, hnx]
      | [], hat => simp [ChunksAt] at hat
      | _ :: _ :: _, hat => simp [ChunksAt] at hat
    | cons c' cs' =>
      match offs, hat with
      | o :: o' :: os, hat =>
        simp only [List.map_cons, ChunksAt, chunkOf] at hat
        obtain ⟨hrb, hrest⟩ := hat
        have ho : ¬ o < 0 := by
          intro hlt
          simp [readBuf, hlt] at hrb
        cases fuel with
        | zero => simp at hfuel
        | succ fuel =>
          have hih := ih (o' :: os) fuel (fun d hd => hp d (by simp [hd])) (fun d hd => hne d (by simp [hd]))
            (by simpa [chunkOf] using hrest) (by simp) (by simp at hfuel ⊢; omega)
          simp only [List.headD_cons] at hih ⊢
          unfold readLinked
          simp only [if_neg ho, hrb, hpc, hih]
          simp [hcl]
      | [], hat => simp [ChunksAt] at hat
      | [_], hat => simp [ChunksAt] at hat

end ParsecVerif.Profile
