import ParsecVerif.Proofs.ContextInv2
import ParsecVerif.Proofs.ContextInv3
/-! The invariant is preserved by every transition, hence holds in every reachable state. -/
namespace ParsecVerif.Context

theorem inv_step {s s' : St} {tr : Tr} (h : Inv s) (hs : step? s tr = some s') : Inv s' := by
  cases tr with
  | startBarrier =>
    simp only [step?] at hs; split at hs
    · cases hs; exact inv_startBarrier h ‹_›
    · cases hs
  | startToken =>
    simp only [step?] at hs; split at hs
    · cases hs; exact inv_startToken h ‹_›
    · cases hs
  | waitBegin =>
    simp only [step?] at hs; split at hs
    · cases hs; exact inv_waitBegin h ‹_›
    · cases hs
  | sawZero =>
    simp only [step?] at hs; split at hs
    · cases hs; exact inv_sawZero h ‹_›
    · cases hs
  | leave w =>
    simp only [step?] at hs; split at hs
    · cases hs; exact inv_leave h ‹_›
    · cases hs
  | barrier =>
    simp only [step?] at hs; split at hs
    · cases hs; exact inv_barrier h ‹_›
    · cases hs
  | waitReturn =>
    simp only [step?] at hs; split at hs
    · cases hs; exact inv_waitReturn h ‹_›
    · cases hs
  | tpWaitBegin p =>
    simp only [step?] at hs; split at hs
    · split at hs
      · rename_i hg; cases hs; exact inv_tpWaitBegin h ⟨hg.1, hg.2.1, hg.2.2.1⟩
      · cases hs
    · cases hs
  | tpWaitReturn =>
    simp only [step?] at hs; split at hs
    · split at hs
      · split at hs
        · cases hs; exact inv_tpWaitReturn h ‹_›
        · cases hs
      · cases hs
    · cases hs
  | taskBegin t p =>
    simp only [step?] at hs; split at hs
    · split at hs
      · cases hs; exact inv_taskBegin h ‹_› ‹_›
      · cases hs
    · cases hs
  | taskEnd t =>
    simp only [step?] at hs; split at hs
    · split at hs
      · cases hs; exact inv_taskEnd h ‹_› ‹_› ‹_›
      · cases hs
    · cases hs
  | detect t p =>
    simp only [step?] at hs; split at hs
    · split at hs
      · rename_i tp htp hg; cases hs; exact inv_detect h htp ⟨hg.1, hg.2.1, hg.2.2.1, hg.2.2.2.1, hg.2.2.2.2.1⟩
      · cases hs
    · cases hs
  | dec t =>
    simp only [step?] at hs; split at hs
    · split at hs
      · split at hs
        · cases hs; exact inv_dec h ‹_› ‹_› ‹_› ‹_›
        · cases hs
      · cases hs
    · cases hs
  | addCall t q =>
    simp only [step?] at hs; split at hs
    · split at hs
      · cases hs; exact inv_addCall h ‹_› ‹_›
      · cases hs
    · cases hs
  | startupAdd t q =>
    simp only [step?] at hs; split at hs
    · split at hs
      · cases hs; exact inv_startupAdd h ‹_› ‹_› ‹_›
      · cases hs
    · cases hs
  | earlyCb t =>
    simp only [step?] at hs; split at hs
    · split at hs
      · split at hs
        · rename_i hsu _ tp htp hg
          cases hs
          exact inv_addMove (a := s.active) h hsu htp (Or.inr (Or.inl rfl)) rfl ⟨rfl, rfl, rfl⟩ (by simp [hg.1, contrib])
        · cases hs
      · cases hs
    · cases hs
  | earlyDec t =>
    simp only [step?] at hs; split at hs
    · split at hs
      · split at hs
        · rename_i hsu _ tp htp hg
          cases hs
          exact inv_addMove h hsu htp (Or.inr (Or.inr rfl)) rfl ⟨rfl, rfl, rfl⟩ (by simp [hg, contrib]; omega)
        · cases hs
      · cases hs
    · cases hs
  | addInc t =>
    simp only [step?] at hs; split at hs
    · split at hs
      · split at hs
        · rename_i hsu _ tp htp hg
          cases hs
          exact inv_addInc h hsu htp (Or.inl rfl) ⟨rfl, rfl, rfl⟩ (by simp [hg.1, contrib])
        · split at hs
          · rename_i hsu _ tp htp _ hg
            cases hs
            exact inv_addInc h hsu htp (Or.inr rfl) ⟨rfl, rfl, rfl⟩ (by simp [hg, contrib])
          · cases hs
      · cases hs
    · cases hs
  | addReturn t =>
    simp only [step?] at hs; split at hs
    · cases hs; exact inv_addReturn h ‹_›
    · cases hs
  | arm p =>
    simp only [step?] at hs; split at hs
    · split at hs
      · rename_i _ tp htp _; cases hs; exact inv_tpUpdate (tp := tp) h htp rfl rfl ⟨rfl, fun e => e⟩
      · cases hs
    · cases hs
  | insert t p =>
    simp only [step?] at hs; split at hs
    · split at hs
      · rename_i _ tp htp _; cases hs; exact inv_tpUpdate (tp := tp) h htp rfl rfl ⟨rfl, fun e => Nat.le_succ_of_le e⟩
      · cases hs
    · cases hs
  | startupReady t n =>
    simp only [step?] at hs; split at hs
    · split at hs
      · split at hs
        · rename_i q _ _ tp htp hg; cases hs
          exact inv_tpUpdate (tp := tp) h htp rfl rfl ⟨rfl, fun e => e⟩
        · cases hs
      · cases hs
    · cases hs
  | actionDone t q =>
    simp only [step?] at hs; split at hs
    · split at hs
      · rename_i m _ _ tp hbt hsu htp hg
        split at hs
        · rename_i hf; cases hs; exact inv_nestEnter h hbt htp ⟨hg.1, hf.2.2.1, hf.2.2.2⟩
        · cases hs
          exact inv_tpUpdate (tp := tp) h htp rfl rfl ⟨rfl, fun e => e⟩
      · cases hs
    · cases hs
  | nestDec t =>
    simp only [step?] at hs; split at hs
    · split at hs
      · cases hs; exact inv_nestDec h ‹_› ‹_›
      · cases hs
    · cases hs

theorem inv_step' {s : St} (tr : Tr) (h : Inv s) : Inv (step s tr) := by
  unfold step
  cases hs : step? s tr with
  | none => exact h
  | some s' => exact inv_step h hs

theorem inv_foldl {s : St} (trs : List Tr) (h : Inv s) : Inv (trs.foldl step s) := by
  induction trs generalizing s with
  | nil => exact h
  | cons tr trs ih => exact ih (inv_step' tr h)

theorem inv_run (k : Nat) (tps : List Tp) (hf : ∀ tp ∈ tps, tp.fresh) (trs : List Tr) : Inv (run k tps trs) :=
  inv_foldl trs (inv_init k tps hf)

end ParsecVerif.Context
