/-
  C14 — the whole engine: invariant between passes (`Inv`), invariant inside a pass (`Mid`), and their
  preservation by creation of requests, by `MPI_Testsome` reports, by the service of each reported index (with the
  requests created by its callback) and by refill / removal / feed.
-/
import ParsecVerif.Proofs.CommPool
import ParsecVerif.Proofs.CommDyn

namespace ParsecVerif.CommEngine

def Ref.dynOf : Ref → Option Dyn
  | .dyn x => some x
  | _ => none

/-- The dynamic requests whose callback has been run. -/
def servedDyn (s : St) : List Dyn := s.served.filterMap Ref.dynOf

/-- What never changes after `enable`. -/
def Pool.shape (p : Pool) : Nat × Nat × Nat × Nat := (p.id, p.n, p.t, p.base)

structure Static (s s' : St) : Prop where
  shapes : s'.pools.map Pool.shape = s.pools.map Pool.shape
  base : s'.dyn.base = s.dyn.base
  cap : s'.dyn.cap = s.dyn.cap
  quota : s'.dyn.quota = s.dyn.quota

theorem Static.refl (s : St) : Static s s := ⟨rfl, rfl, rfl, rfl⟩
theorem Static.trans {a b c : St} (h1 : Static a b) (h2 : Static b c) : Static a c :=
  ⟨h2.shapes.trans h1.shapes, h2.base.trans h1.base, h2.cap.trans h1.cap, h2.quota.trans h1.quota⟩

theorem map_shape_set (ps : List Pool) (k : Nat) (p q : Pool) (hk : ps[k]? = some p) (hs : q.shape = p.shape) :
    (ps.set k q).map Pool.shape = ps.map Pool.shape := by
  rw [List.map_set]
  apply List.ext_getElem?
  intro i
  rw [List.getElem?_set]
  by_cases hki : k = i
  · subst hki
    have hkl := getElem?_lt hk
    have hp : ps[k] = p := by rw [List.getElem?_eq_getElem hkl] at hk; exact Option.some.inj hk
    simp [hkl, List.getElem?_map, hp, hs]
  · simp [hki]

theorem getElem?_set_cases {α} (l : List α) (k k' : Nat) (q a : α) (h : (l.set k q)[k']? = some a) :
    (k' = k ∧ a = q ∧ k < l.length) ∨ (k' ≠ k ∧ l[k']? = some a) := by
  rw [List.getElem?_set] at h
  by_cases hk : k = k'
  · subst hk
    by_cases hl : k < l.length
    · simp [hl] at h; exact Or.inl ⟨rfl, h.symm, hl⟩
    · simp [hl] at h
  · simp [hk] at h; exact Or.inr ⟨fun e => hk e.symm, h⟩

/-- Invariant between two passes of the progress loop. -/
structure Inv (s : St) : Prop where
  pools : ∀ (k : Nat) p, s.pools[k]? = some p → PQuiet p
  dyn : DInv s.dyn
  ok : s.bad = false
  ledger : (s.dyn.refs ++ servedDyn s).Perm s.issued
  nodup : s.issued.Nodup

/-- Invariant inside a pass: `todo` = reported indices whose callback has not run yet, `all` = all reported ones. -/
structure Mid (s : St) (todo all : List Loc) : Prop where
  pools : ∀ (k : Nat) p, s.pools[k]? = some p → PInv p
  dyn : DMid s.dyn
  ok : s.bad = false
  ledger : (s.dyn.refs ++ servedDyn s).Perm s.issued
  nodup : s.issued.Nodup
  u1 : ∀ (k : Nat) p r, s.pools[k]? = some p → r < p.n → p.act.getD r true = false →
         ∃ j, p.win[j]? = some (amSlot p.id r (p.base + j)) ∧ Loc.win k j ∈ todo
  u2 : ∀ (j : Nat) sl, s.dyn.slots[j]? = some sl → sl.fin = true → Loc.dyn j ∈ todo ∧ sl.req = none
  u3 : ∀ (j : Nat) sl, s.dyn.slots[j]? = some sl → sl.req = none → Loc.dyn j ∈ all
  u4 : ∀ j, Loc.dyn j ∈ all → j < s.dyn.slots.length
  t1 : ∀ k j, Loc.win k j ∈ todo → ∃ p r, s.pools[k]? = some p ∧ r < p.n ∧
         p.win[j]? = some (amSlot p.id r (p.base + j)) ∧ p.act.getD r true = false
  t2 : ∀ j, Loc.dyn j ∈ todo → ∃ sl, s.dyn.slots[j]? = some sl ∧ sl.fin = true
  t3 : Loc.out ∉ todo

/-- A location `MPI_Testsome` may report: an occupied slot whose request is active. -/
def LiveNow (s : St) : Loc → Prop
  | .win k j => ∃ p r, s.pools[k]? = some p ∧ r < p.n ∧ p.win[j]? = some (amSlot p.id r (p.base + j)) ∧
                  p.act.getD r true = true
  | .dyn j => ∃ sl, s.dyn.slots[j]? = some sl ∧ sl.req ≠ none
  | .out => False

theorem Inv.toMid {s : St} (h : Inv s) (all : List Loc) (hall : ∀ j, Loc.dyn j ∈ all → j < s.dyn.slots.length) :
    Mid s [] all := by
  refine ⟨fun k p hk => (h.pools k p hk).inv, h.dyn.mid, h.ok, h.ledger, h.nodup, ?_, ?_, ?_, hall, ?_, ?_, by simp⟩
  · intro k p r hk hr ha
    have := (h.pools k p hk).active r hr
    rw [ha] at this; cases this
  · intro j sl hj hf
    obtain ⟨x, hx⟩ := h.dyn.slot_eq hj
    rw [hx] at hf; simp [dynSlot] at hf
  · intro j sl hj hr
    exact absurd hr (h.dyn.live sl (List.mem_of_getElem? hj))
  · intro k j hm; simp at hm
  · intro j hm; simp at hm

/-- Distinct occupied window slots hold distinct receives. -/
theorem win_inj {p : Pool} (h : PCore p) {j j' r : Nat} {a a' : Nat}
    (h1 : p.win[j]? = some (amSlot p.id r a)) (h2 : p.win[j']? = some (amSlot p.id r a')) : j = j' := by
  apply Classical.byContradiction
  intro hne
  -- split the window at the two positions: `r` would occur twice in `winReqs`
  have key : ∀ (w : List Slot) (i i' : Nat), i < i' → (∃ b, w[i]? = some (amSlot p.id r b)) →
      (∃ b, w[i']? = some (amSlot p.id r b)) → ¬ (winReqs w).Nodup := by
    intro w
    induction w with
    | nil => intro i i' _ h; obtain ⟨b, hb⟩ := h; simp at hb
    | cons s rest ih =>
      intro i i' hlt hi hi' hnd
      obtain ⟨b0, hi⟩ := hi
      cases i with
      | zero =>
        simp at hi
        obtain ⟨b, hb⟩ := hi'
        cases i' with
        | zero => omega
        | succ i'' =>
          simp at hb
          have hm : r ∈ winReqs rest := by
            simp only [winReqs, List.mem_filterMap]
            exact ⟨_, List.mem_of_getElem? hb, rfl⟩
          subst hi
          simp only [winReqs, List.filterMap_cons, amR_amSlot] at hnd
          exact (List.nodup_cons.mp hnd).1 hm
      | succ i0 =>
        cases i' with
        | zero => omega
        | succ i'' =>
          simp at hi
          obtain ⟨b, hb⟩ := hi'
          simp at hb
          have hnd' : (winReqs rest).Nodup := by
            simp only [winReqs, List.filterMap_cons] at hnd
            cases hs : s.amR with
            | none => simpa [winReqs, hs] using hnd
            | some v => rw [hs] at hnd; exact (List.nodup_cons.mp hnd).2
          exact ih i0 i'' (by omega) ⟨b0, hi⟩ ⟨b, hb⟩ hnd'
  rcases Nat.lt_or_gt_of_ne hne with hlt | hlt
  · exact key p.win j j' hlt ⟨a, h1⟩ ⟨a', h2⟩ h.nodup
  · exact key p.win j' j hlt ⟨a', h2⟩ ⟨a, h1⟩ h.nodup

theorem modPool_some (ps : List Pool) (k : Nat) (f : Pool → Pool) (p : Pool) (h : ps[k]? = some p) :
    modPool ps k f = ps.set k (f p) := by
  unfold modPool; rw [h]

theorem complete_slots {d : DynR} {j : Nat} {sl : Slot} (h : d.slots[j]? = some sl) :
    (d.complete j).slots = d.slots.set j sl.finish ∧ (d.complete j).sendq = d.sendq ∧ (d.complete j).recvq = d.recvq ∧
    (d.complete j).nrecv = d.nrecv := by
  unfold DynR.complete; rw [h]; exact ⟨rfl, rfl, rfl, rfl⟩

/-! ### `MPI_Testsome` reports one more index -/

theorem Mid_complete_win {s : St} {todo all : List Loc} (h : Mid s todo all) (k j : Nat)
    (hlive : LiveNow s (.win k j)) :
    Mid (s.completeL (.win k j)) (.win k j :: todo) all ∧ Static s (s.completeL (.win k j)) ∧
    (∀ l', l' ≠ .win k j → LiveNow s l' → LiveNow (s.completeL (.win k j)) l') := by
  obtain ⟨p, r, hk, hr, hw, ha⟩ := hlive
  have hpi := h.pools k p hk
  have hq : p.complete j = { p with act := p.act.set r false } :=
    complete_act j r p.id _ hw (by simp [amSlot])
  have hs' : s.completeL (.win k j) = { s with pools := s.pools.set k (p.complete j) } := by
    show ({ s with pools := modPool s.pools k (fun p => p.complete j) } : St) = _
    rw [modPool_some _ _ _ _ hk]
  rw [hs']
  generalize hqq : p.complete j = q at hs' hq
  have e_act : q.act = p.act.set r false := by rw [hq]
  have e_win : q.win = p.win := by rw [hq]
  have e_n : q.n = p.n := by rw [hq]
  have e_id : q.id = p.id := by rw [hq]
  have e_b : q.base = p.base := by rw [hq]
  have e_sh : q.shape = p.shape := by rw [hq]; rfl
  have hqi : PInv q := by rw [← hqq]; exact PInv_complete hpi j
  have hkl := getElem?_lt hk
  refine ⟨⟨?_, h.dyn, h.ok, h.ledger, h.nodup, ?_, ?_, h.u3, h.u4, ?_, ?_, ?_⟩, ⟨map_shape_set _ _ _ _ hk e_sh, rfl, rfl, rfl⟩, ?_⟩
  · intro k' p' hk'
    rcases getElem?_set_cases _ _ _ _ _ hk' with ⟨_, e, _⟩ | ⟨_, e⟩
    · rw [e]; exact hqi
    · exact h.pools k' p' e
  · intro k' p' r' hk' hr' ha'
    rcases getElem?_set_cases _ _ _ _ _ hk' with ⟨ek, e, _⟩ | ⟨_, e⟩
    · subst e; subst ek
      rw [e_n] at hr'
      rw [e_act, getD_set_bool] at ha'
      rw [e_win, e_id, e_b]
      by_cases hrr : r = r'
      · subst hrr; exact ⟨j, hw, List.mem_cons_self⟩
      · simp only [hrr, false_and, if_false] at ha'
        obtain ⟨j', hj', hm⟩ := h.u1 k' p r' hk hr' ha'
        exact ⟨j', hj', List.mem_cons_of_mem _ hm⟩
    · obtain ⟨j', hj', hm⟩ := h.u1 k' p' r' e hr' ha'
      exact ⟨j', hj', List.mem_cons_of_mem _ hm⟩
  · intro j' sl hj' hf
    obtain ⟨hm, hreq⟩ := h.u2 j' sl hj' hf
    exact ⟨List.mem_cons_of_mem _ hm, hreq⟩
  · intro k' j' hm
    rcases List.mem_cons.mp hm with e | hm'
    · injection e with e1 e2
      subst e1; subst e2
      refine ⟨q, r, by simp [hkl], by rw [e_n]; exact hr, by rw [e_win, e_id, e_b]; exact hw, ?_⟩
      rw [e_act, getD_set_bool]; simp [hpi.core.act_len, hr]
    · obtain ⟨p0, r0, h1, h2, h3, h4⟩ := h.t1 k' j' hm'
      by_cases hkk : k' = k
      · subst hkk
        rw [hk] at h1; injection h1 with h1; subst h1
        refine ⟨q, r0, by simp [hkl], by rw [e_n]; exact h2, by rw [e_win, e_id, e_b]; exact h3, ?_⟩
        rw [e_act, getD_set_bool]
        by_cases hrr : r = r0
        · simp [hrr, hpi.core.act_len, h2]
        · simp only [hrr, false_and, if_false]; exact h4
      · exact ⟨p0, r0, by rw [List.getElem?_set]; simp [Ne.symm hkk, h1], h2, h3, h4⟩
  · intro j' hm
    rcases List.mem_cons.mp hm with e | hm'
    · cases e
    · exact h.t2 j' hm'
  · intro hm
    rcases List.mem_cons.mp hm with e | hm'
    · cases e
    · exact h.t3 hm'
  · intro l' hne hl'
    cases l' with
    | win k' j' =>
      obtain ⟨p1, r1, h1, h2, h3, h4⟩ := hl'
      by_cases hkk : k' = k
      · subst hkk
        rw [hk] at h1; injection h1 with h1; subst h1
        refine ⟨q, r1, by simp [hkl], by rw [e_n]; exact h2, by rw [e_win, e_id, e_b]; exact h3, ?_⟩
        rw [e_act, getD_set_bool]
        by_cases hrr : r = r1
        · subst hrr
          have := win_inj hpi.core hw h3
          subst this; exact absurd rfl hne
        · simp only [hrr, false_and, if_false]; exact h4
      · exact ⟨p1, r1, by rw [List.getElem?_set]; simp [Ne.symm hkk, h1], h2, h3, h4⟩
    | dyn j' => exact hl'
    | out => exact hl'

theorem Mid_complete_dyn {s : St} {todo all : List Loc} (h : Mid s todo all) (j : Nat) (hall : Loc.dyn j ∈ all)
    (hlive : LiveNow s (.dyn j)) :
    Mid (s.completeL (.dyn j)) (.dyn j :: todo) all ∧ Static s (s.completeL (.dyn j)) ∧
    (∀ l', l' ≠ .dyn j → LiveNow s l' → LiveNow (s.completeL (.dyn j)) l') := by
  obtain ⟨sl, hj, hreq⟩ := hlive
  obtain ⟨g1, g2, g3, g4, g5, g6, g7, g8⟩ := DMid_complete h.dyn j (fun sl' hsl' => by rw [hj] at hsl'; injection hsl' with e; rw [← e]; exact hreq)
  obtain ⟨c1, c2, c3, c4⟩ := complete_slots hj
  have hjl := getElem?_lt hj
  have hfin : sl.finish.fin = true ∧ sl.finish.req = none := ⟨rfl, rfl⟩
  refine ⟨⟨h.pools, g1, h.ok, ?_, h.nodup, ?_, ?_, ?_, fun j' hm => by show j' < (s.dyn.complete j).slots.length; rw [g3]; exact h.u4 j' hm, ?_, ?_, ?_⟩, ⟨rfl, g4, g5, g6⟩, ?_⟩
  · show ((s.dyn.complete j).refs ++ servedDyn s).Perm s.issued
    rw [g2]; exact h.ledger
  · intro k p r hk hr ha
    obtain ⟨j', hj', hm⟩ := h.u1 k p r hk hr ha
    exact ⟨j', hj', List.mem_cons_of_mem _ hm⟩
  · intro j' sl' hj' hf
    have hj'' : (s.dyn.slots.set j sl.finish)[j']? = some sl' := by rw [← c1]; exact hj'
    rcases getElem?_set_cases _ _ _ _ _ hj'' with ⟨e1, e2, _⟩ | ⟨_, e⟩
    · subst e1; subst e2; exact ⟨List.mem_cons_self, rfl⟩
    · obtain ⟨hm, hr⟩ := h.u2 j' sl' e hf
      exact ⟨List.mem_cons_of_mem _ hm, hr⟩
  · intro j' sl' hj' hr
    have hj'' : (s.dyn.slots.set j sl.finish)[j']? = some sl' := by rw [← c1]; exact hj'
    rcases getElem?_set_cases _ _ _ _ _ hj'' with ⟨e1, _, _⟩ | ⟨_, e⟩
    · subst e1; exact hall
    · exact h.u3 j' sl' e hr
  · intro k' j' hm
    rcases List.mem_cons.mp hm with e | hm'
    · cases e
    · exact h.t1 k' j' hm'
  · intro j' hm
    by_cases hjj : j' = j
    · subst hjj
      refine ⟨sl.finish, ?_, rfl⟩
      show (s.dyn.complete j').slots[j']? = _
      rw [c1]; simp [hjl]
    · rcases List.mem_cons.mp hm with e | hm'
      · injection e with e; exact absurd e hjj
      · obtain ⟨sl0, h1, h2⟩ := h.t2 j' hm'
        refine ⟨sl0, ?_, h2⟩
        show (s.dyn.complete j).slots[j']? = _
        rw [c1, List.getElem?_set]; simp [Ne.symm hjj, h1]
  · intro hm
    rcases List.mem_cons.mp hm with e | hm'
    · cases e
    · exact h.t3 hm'
  · intro l' hne hl'
    cases l' with
    | win k' j' => exact hl'
    | dyn j' =>
      obtain ⟨sl1, h1, h2⟩ := hl'
      have hjj : j' ≠ j := fun e => hne (by rw [e])
      refine ⟨sl1, ?_, h2⟩
      show (s.dyn.complete j).slots[j']? = _
      rw [c1, List.getElem?_set]; simp [Ne.symm hjj, h1]
    | out => exact hl'

theorem Mid.congr {s : St} {t1 t2 all : List Loc} (h : Mid s t1 all) (he : ∀ l, l ∈ t1 ↔ l ∈ t2) : Mid s t2 all :=
  ⟨h.pools, h.dyn, h.ok, h.ledger, h.nodup,
   fun k p r hk hr ha => by obtain ⟨j, hj, hm⟩ := h.u1 k p r hk hr ha; exact ⟨j, hj, (he _).mp hm⟩,
   fun j sl hj hf => by obtain ⟨hm, hr⟩ := h.u2 j sl hj hf; exact ⟨(he _).mp hm, hr⟩,
   h.u3, h.u4,
   fun k j hm => h.t1 k j ((he _).mpr hm),
   fun j hm => h.t2 j ((he _).mpr hm),
   fun hm => h.t3 ((he _).mpr hm)⟩

theorem Mid_complete {s : St} {todo all : List Loc} (h : Mid s todo all) (l : Loc) (hall : l ∈ all)
    (hlive : LiveNow s l) :
    Mid (s.completeL l) (l :: todo) all ∧ Static s (s.completeL l) ∧
    (∀ l', l' ≠ l → LiveNow s l' → LiveNow (s.completeL l) l') := by
  cases l with
  | win k j => exact Mid_complete_win h k j hlive
  | dyn j => exact Mid_complete_dyn h j hall hlive
  | out => exact absurd hlive (by simp [LiveNow])

/-- All reports of one `MPI_Testsome` call. -/
theorem Mid_test : ∀ (ls : List Loc) (s : St) (todo all : List Loc), Mid s todo all → (∀ l, l ∈ ls → l ∈ all) →
    ls.Nodup → (∀ l, l ∈ ls → LiveNow s l) →
    Mid (ls.foldl St.completeL s) (ls ++ todo) all ∧ Static s (ls.foldl St.completeL s) := by
  intro ls
  induction ls with
  | nil => intro s todo all h _ _ _; exact ⟨h, Static.refl s⟩
  | cons l rest ih =>
    intro s todo all h hall hnd hlive
    rw [List.nodup_cons] at hnd
    obtain ⟨g1, g2, g3⟩ := Mid_complete h l (hall l (by simp)) (hlive l (by simp))
    have hlive' : ∀ l', l' ∈ rest → LiveNow (s.completeL l) l' := by
      intro l' hl'
      exact g3 l' (fun e => hnd.1 (e ▸ hl')) (hlive l' (by simp [hl']))
    obtain ⟨k1, k2⟩ := ih (s.completeL l) (l :: todo) all g1 (fun l' hl' => hall l' (by simp [hl'])) hnd.2 hlive'
    refine ⟨k1.congr ?_, g2.trans k2⟩
    intro x
    simp only [List.mem_append, List.mem_cons]
    constructor
    · rintro (h1 | h1 | h1)
      · exact Or.inl (Or.inr h1)
      · exact Or.inl (Or.inl h1)
      · exact Or.inr h1
    · rintro ((h1 | h1) | h1)
      · exact Or.inr (Or.inl h1)
      · exact Or.inl h1
      · exact Or.inr (Or.inr h1)

/-! ### creation of a request (API call, or inside a callback) -/

theorem servedDyn_install (s : St) (x : Dyn) : servedDyn (s.install x) = servedDyn s := rfl

theorem Mid_install {s : St} {todo all : List Loc} (h : Mid s todo all) (x : Dyn) (hx : x ∉ s.issued) :
    Mid (s.install x) todo all ∧ Static s (s.install x) ∧ (s.install x).issued = s.issued ++ [x] ∧
    (s.install x).served = s.served := by
  obtain ⟨g1, g2⟩ := DMid_install h.dyn x
  obtain ⟨f1, f2, f3⟩ := install_frame s.dyn x
  -- the slots that existed keep their index and content
  have hold : ∀ (j : Nat) (sl : Slot), s.dyn.slots[j]? = some sl → (s.dyn.install x).slots[j]? = some sl := by
    intro j sl hj
    unfold DynR.install DynR.installRecv DynR.installSend DynR.append
    split <;> split
    all_goals first
      | exact hj
      | (show (s.dyn.slots ++ _)[j]? = some sl
         rw [List.getElem?_append, if_pos (getElem?_lt hj)]; exact hj)
  have hnew : ∀ (j : Nat) (sl : Slot), (s.dyn.install x).slots[j]? = some sl → s.dyn.slots[j]? = some sl ∨ (sl.req ≠ none ∧ sl.fin = false) := by
    intro j sl hj
    unfold DynR.install DynR.installRecv DynR.installSend DynR.append at hj
    split at hj <;> split at hj
    all_goals first
      | exact Or.inl hj
      | (have hj' : (s.dyn.slots ++ [dynSlot x _ _])[j]? = some sl := hj
         rw [List.getElem?_append] at hj'
         by_cases hjl : j < s.dyn.slots.length
         · simp only [hjl, if_true] at hj'; exact Or.inl hj'
         · simp only [hjl, if_false] at hj'
           have hj0 : j - s.dyn.slots.length = 0 := by
             rcases Nat.eq_zero_or_pos (j - s.dyn.slots.length) with h0 | h0
             · exact h0
             · rw [List.getElem?_eq_none (by simp; omega)] at hj'; cases hj'
           rw [hj0] at hj'
           simp at hj'
           right; rw [← hj']; simp [dynSlot])
  refine ⟨⟨h.pools, g1, h.ok, ?_, ?_, h.u1, ?_, ?_, ?_, h.t1, ?_, h.t3⟩, ⟨rfl, f1, f2, f3⟩, rfl, rfl⟩
  · show ((s.dyn.install x).refs ++ servedDyn s).Perm (s.issued ++ [x])
    have := (List.Perm.append_right (servedDyn s) g2)
    refine this.trans ?_
    have e : s.dyn.refs ++ [x] ++ servedDyn s = s.dyn.refs ++ ([x] ++ servedDyn s) := by simp
    rw [e]
    refine (List.Perm.append_left _ List.perm_append_comm).trans ?_
    rw [← List.append_assoc]
    exact List.Perm.append_right _ h.ledger
  · show (s.issued ++ [x]).Nodup
    rw [List.nodup_append]
    refine ⟨h.nodup, by simp, ?_⟩
    intro a ha b hb
    simp at hb; subst hb
    intro e; subst e; exact hx ha
  · intro j sl hj hf
    rcases hnew j sl hj with e | ⟨_, e⟩
    · exact h.u2 j sl e hf
    · rw [e] at hf; cases hf
  · intro j sl hj hr
    rcases hnew j sl hj with e | ⟨e, _⟩
    · exact h.u3 j sl e hr
    · exact absurd hr e
  · intro j hm
    have hjl := h.u4 j hm
    exact getElem?_lt (hold j _ (List.getElem?_eq_getElem hjl))
  · intro j hm
    obtain ⟨sl, h1, h2⟩ := h.t2 j hm
    exact ⟨sl, hold j sl h1, h2⟩

theorem Mid_installs : ∀ (ins : List Dyn) (s : St) (todo all : List Loc), Mid s todo all →
    (∀ x, x ∈ ins → x ∉ s.issued) → ins.Nodup →
    Mid (ins.foldl St.install s) todo all ∧ Static s (ins.foldl St.install s) ∧
    (ins.foldl St.install s).issued = s.issued ++ ins ∧ (ins.foldl St.install s).served = s.served := by
  intro ins
  induction ins with
  | nil => intro s todo all h _ _; exact ⟨h, Static.refl s, by simp, rfl⟩
  | cons x rest ih =>
    intro s todo all h hf hnd
    rw [List.nodup_cons] at hnd
    obtain ⟨g1, g2, g3, g4⟩ := Mid_install h x (hf x (by simp))
    have hf' : ∀ y, y ∈ rest → y ∉ (s.install x).issued := by
      intro y hy
      rw [g3, List.mem_append, List.mem_singleton]
      rintro (h1 | h1)
      · exact hf y (by simp [hy]) h1
      · subst h1; exact hnd.1 hy
    obtain ⟨k1, k2, k3, k4⟩ := ih (s.install x) todo all g1 hf' hnd.2
    show Mid (rest.foldl St.install (s.install x)) todo all ∧ Static s (rest.foldl St.install (s.install x)) ∧
      (rest.foldl St.install (s.install x)).issued = s.issued ++ x :: rest ∧ (rest.foldl St.install (s.install x)).served = s.served
    exact ⟨k1, g2.trans k2, by rw [k3, g3]; simp, by rw [k4, g4]⟩

/-! ### the service of one reported index -/

theorem installs_pools (ins : List Dyn) (s : St) : (ins.foldl St.install s).pools = s.pools ∧ (ins.foldl St.install s).bad = s.bad := by
  induction ins generalizing s with
  | nil => exact ⟨rfl, rfl⟩
  | cons x rest ih => exact ih (s.install x)

theorem done_eq {p : Pool} {j r : Nat} (hr : r < p.n) (hsl : p.win[j]? = some (amSlot p.id r (p.base + j)))
    (hact : p.act.getD r true = false) : p.done j = (p.restart j r (amSlot p.id r (p.base + j)), true) := by
  unfold Pool.done
  rw [hsl]
  have hact' : p.act[r]?.getD true = false := by rw [← List.getD_eq_getElem?_getD]; exact hact
  simp only [amSlot]
  simp [hr, hact']

theorem serve_slots {d : DynR} {j : Nat} {sl : Slot} (h : d.slots[j]? = some sl) :
    (d.serve j).slots = d.slots.set j sl.unfin := by
  unfold DynR.serve; rw [h]

theorem Mid_serveOne_win {s : St} {rest all : List Loc} {k j : Nat} (h : Mid s (.win k j :: rest) all)
    (hl : Loc.win k j ∉ rest) (ins : List Dyn) (hf : ∀ x, x ∈ ins → x ∉ s.issued) (hnd : ins.Nodup) :
    Mid (s.serveOneL (.win k j, ins)) rest all ∧ Static s (s.serveOneL (.win k j, ins)) ∧
    (s.serveOneL (.win k j, ins)).issued = s.issued ++ ins ∧
    ∃ p r, s.pools[k]? = some p ∧ (s.serveOneL (.win k j, ins)).served = s.served ++ [.am p.id r] := by
  obtain ⟨p, r, hk, hr, hw, ha⟩ := h.t1 k j List.mem_cons_self
  have hpi := h.pools k p hk
  have hkl := getElem?_lt hk
  -- head of the callback loop: only the log changes
  have hslot : s.slotL (.win k j) = some (amSlot p.id r (p.base + j)) := by simp [St.slotL, hk, hw]
  have hs1 : s.serveL (.win k j) = { s with served := s.served ++ [.am p.id r] } := by
    unfold St.serveL; rw [hslot]; simp [amSlot]
  have hm1 : Mid (s.serveL (.win k j)) (.win k j :: rest) all := by
    rw [hs1]
    refine ⟨h.pools, h.dyn, h.ok, ?_, h.nodup, h.u1, h.u2, h.u3, h.u4, h.t1, h.t2, h.t3⟩
    show (s.dyn.refs ++ servedDyn { s with served := s.served ++ [.am p.id r] }).Perm s.issued
    have : servedDyn { s with served := s.served ++ [.am p.id r] } = servedDyn s := by
      simp [servedDyn, List.filterMap_append, Ref.dynOf]
    rw [this]; exact h.ledger
  have hiss1 : (s.serveL (.win k j)).issued = s.issued := by rw [hs1]
  have hpools1 : (s.serveL (.win k j)).pools = s.pools := by rw [hs1]
  have hbad1 : (s.serveL (.win k j)).bad = s.bad := by rw [hs1]
  have hsv1 : (s.serveL (.win k j)).served = s.served ++ [.am p.id r] := by rw [hs1]
  have hdyn1 : (s.serveL (.win k j)).dyn = s.dyn := by rw [hs1]
  -- the callback creates requests
  obtain ⟨m2, st2, iss2, sv2⟩ := Mid_installs ins (s.serveL (.win k j)) _ all hm1 (by rw [hiss1]; exact hf) hnd
  obtain ⟨pl2, bad2⟩ := installs_pools ins (s.serveL (.win k j))
  generalize hs2 : ins.foldl St.install (s.serveL (.win k j)) = s2 at m2 st2 iss2 sv2 pl2 bad2
  have hk2 : s2.pools[k]? = some p := by rw [pl2, hpools1]; exact hk
  -- restart, leave the window
  have hd := done_eq hr hw ha
  obtain ⟨_, d2, d3, d4, d5, d6, d7, d8, d9, d10, d11⟩ := PInv_done hpi hr hw ha
  have hs3 : s.serveOneL (.win k j, ins) = { s2 with pools := s2.pools.set k (p.done j).1, bad := s2.bad || !(p.done j).2 } := by
    show (ins.foldl St.install (s.serveL (.win k j))).doneL (.win k j) = _
    rw [hs2]; simp only [St.doneL, hk2]
  rw [hs3]
  generalize hq : (p.done j).1 = q at d2 d3 d5 d6 d7 d8 d9 d10 d11
  have hq2 : (p.done j).2 = true := by rw [hd]
  have e_win : q.win = p.win.set j (amSlot p.id r (p.base + j)).clear := by rw [← hq, hd]; rfl
  have e_sh : q.shape = p.shape := by simp [Pool.shape, d8, d9, d10, d11]
  have hst : Static s { s2 with pools := s2.pools.set k q, bad := s2.bad || !(p.done j).2 } :=
    ⟨by show (s2.pools.set k q).map Pool.shape = _
        rw [map_shape_set _ _ _ _ hk2 e_sh, pl2, hpools1], st2.base.trans (by rw [hdyn1]), st2.cap.trans (by rw [hdyn1]),
      st2.quota.trans (by rw [hdyn1])⟩
  refine ⟨⟨?_, m2.dyn, ?_, m2.ledger, m2.nodup, ?_, ?_, m2.u3, m2.u4, ?_, ?_, ?_⟩, hst, iss2.trans (by rw [hiss1]),
    ⟨p, r, hk, sv2.trans hsv1⟩⟩
  · intro k' p' hk'
    rcases getElem?_set_cases _ _ _ _ _ hk' with ⟨_, e, _⟩ | ⟨_, e⟩
    · rw [e]; exact d2
    · exact m2.pools k' p' e
  · show (s2.bad || !(p.done j).2) = false
    rw [hq2, bad2, hbad1, h.ok]; rfl
  · intro k' p' r' hk' hr' ha'
    rcases getElem?_set_cases _ _ _ _ _ hk' with ⟨ek, e, _⟩ | ⟨_, e⟩
    · subst e; subst ek
      rw [d8] at hr'
      rw [d6, getD_set_bool] at ha'
      by_cases hrr : r = r'
      · subst hrr; simp [hpi.core.act_len, hr] at ha'
      · simp only [hrr, false_and, if_false] at ha'
        obtain ⟨j', hj', hm⟩ := m2.u1 k' p r' hk2 hr' ha'
        have hjj : j' ≠ j := by
          intro e; subst e
          rw [hw] at hj'; injection hj' with hj'
          simp [amSlot] at hj'; exact hrr hj'
        refine ⟨j', ?_, ?_⟩
        · rw [e_win, d11, d10, List.getElem?_set]; simp [Ne.symm hjj, hj']
        · rcases List.mem_cons.mp hm with e | e
          · injection e with _ e2; exact absurd e2 hjj
          · exact e
    · obtain ⟨j', hj', hm⟩ := m2.u1 k' p' r' e hr' ha'
      refine ⟨j', hj', ?_⟩
      rcases List.mem_cons.mp hm with e2 | e2
      · injection e2 with e3 _; rename_i hne _; exact absurd e3 hne
      · exact e2
  · intro j' sl hj' hfin
    obtain ⟨hm, hreq⟩ := m2.u2 j' sl hj' hfin
    refine ⟨?_, hreq⟩
    rcases List.mem_cons.mp hm with e | e
    · cases e
    · exact e
  · intro k' j' hm
    obtain ⟨p0, r0, h1, h2, h3, h4⟩ := m2.t1 k' j' (List.mem_cons_of_mem _ hm)
    by_cases hkk : k' = k
    · subst hkk
      rw [hk2] at h1; injection h1 with h1; subst h1
      have hjj : j' ≠ j := fun e => hl (e ▸ hm)
      have hrr : r ≠ r0 := by
        intro e; subst e
        exact hjj (win_inj hpi.core h3 hw)
      refine ⟨q, r0, by simp [getElem?_lt hk2], by rw [d8]; exact h2, ?_, ?_⟩
      · rw [e_win, d11, d10, List.getElem?_set]; simp [Ne.symm hjj, h3]
      · rw [d6, getD_set_bool]; simp only [hrr, false_and, if_false]; exact h4
    · exact ⟨p0, r0, by show (s2.pools.set k q)[k']? = _; rw [List.getElem?_set]; simp [Ne.symm hkk, h1], h2, h3, h4⟩
  · intro j' hm
    exact m2.t2 j' (List.mem_cons_of_mem _ hm)
  · intro hm
    exact m2.t3 (List.mem_cons_of_mem _ hm)

theorem Mid_serveOne_dyn {s : St} {rest all : List Loc} {j : Nat} (h : Mid s (.dyn j :: rest) all)
    (hl : Loc.dyn j ∉ rest) (ins : List Dyn) (hf : ∀ x, x ∈ ins → x ∉ s.issued) (hnd : ins.Nodup) :
    Mid (s.serveOneL (.dyn j, ins)) rest all ∧ Static s (s.serveOneL (.dyn j, ins)) ∧
    (s.serveOneL (.dyn j, ins)).issued = s.issued ++ ins ∧
    ∃ x, (s.serveOneL (.dyn j, ins)).served = s.served ++ [.dyn x] := by
  obtain ⟨sl, hj, hfin⟩ := h.t2 j List.mem_cons_self
  obtain ⟨_, hreq⟩ := h.u2 j sl hj hfin
  obtain ⟨x, hcb, _, _, _⟩ := h.dyn.slots j sl hj
  obtain ⟨g1, g2, g3, g4, g5, g6, g7, g8⟩ := DMid_serve h.dyn j sl x hj hcb hfin hreq
  have hsl := serve_slots hj
  have hs1 : s.serveL (.dyn j) = { s with dyn := s.dyn.serve j, served := s.served ++ [.dyn x] } := by
    unfold St.serveL
    have : s.slotL (.dyn j) = some sl := hj
    rw [this]; simp only [hcb]
  have hm1 : Mid (s.serveL (.dyn j)) rest all := by
    rw [hs1]
    refine ⟨h.pools, g1, h.ok, ?_, h.nodup, ?_, ?_, ?_, fun j' hm => by show j' < (s.dyn.serve j).slots.length; rw [g3]; exact h.u4 j' hm, ?_, ?_, ?_⟩
    · show ((s.dyn.serve j).refs ++ servedDyn { s with dyn := s.dyn.serve j, served := s.served ++ [.dyn x] }).Perm s.issued
      have e : servedDyn { s with dyn := s.dyn.serve j, served := s.served ++ [.dyn x] } = servedDyn s ++ [x] := by
        simp [servedDyn, List.filterMap_append, Ref.dynOf]
      rw [e, ← List.append_assoc]
      refine (List.perm_append_singleton x _).trans ?_
      rw [← List.cons_append]
      exact (List.Perm.append_right _ g2).trans h.ledger
    · intro k p r hk hr ha
      obtain ⟨j', hj', hm⟩ := h.u1 k p r hk hr ha
      refine ⟨j', hj', ?_⟩
      rcases List.mem_cons.mp hm with e | e
      · cases e
      · exact e
    · intro j' sl' hj' hf'
      have hj'' : (s.dyn.slots.set j sl.unfin)[j']? = some sl' := by rw [← hsl]; exact hj'
      rcases getElem?_set_cases _ _ _ _ _ hj'' with ⟨_, e2, _⟩ | ⟨hne, e⟩
      · rw [e2] at hf'; simp [Slot.unfin] at hf'
      · obtain ⟨hm, hr⟩ := h.u2 j' sl' e hf'
        refine ⟨?_, hr⟩
        rcases List.mem_cons.mp hm with e3 | e3
        · injection e3 with e3; exact absurd e3 hne
        · exact e3
    · intro j' sl' hj' hr
      have hj'' : (s.dyn.slots.set j sl.unfin)[j']? = some sl' := by rw [← hsl]; exact hj'
      rcases getElem?_set_cases _ _ _ _ _ hj'' with ⟨e1, _, _⟩ | ⟨_, e⟩
      · subst e1; exact h.u3 j' sl hj hreq
      · exact h.u3 j' sl' e hr
    · intro k' j' hm
      exact h.t1 k' j' (List.mem_cons_of_mem _ hm)
    · intro j' hm
      have hjj : j' ≠ j := fun e => hl (e ▸ hm)
      obtain ⟨sl0, h1, h2⟩ := h.t2 j' (List.mem_cons_of_mem _ hm)
      refine ⟨sl0, ?_, h2⟩
      show (s.dyn.serve j).slots[j']? = _
      rw [hsl, List.getElem?_set]; simp [Ne.symm hjj, h1]
    · intro hm
      exact h.t3 (List.mem_cons_of_mem _ hm)
  have hiss1 : (s.serveL (.dyn j)).issued = s.issued := by rw [hs1]
  have hsv1 : (s.serveL (.dyn j)).served = s.served ++ [.dyn x] := by rw [hs1]
  have hst1 : Static s (s.serveL (.dyn j)) := by rw [hs1]; exact ⟨rfl, g4, g5, g6⟩
  obtain ⟨m2, st2, iss2, sv2⟩ := Mid_installs ins (s.serveL (.dyn j)) _ all hm1 (by rw [hiss1]; exact hf) hnd
  have hs3 : s.serveOneL (.dyn j, ins) = ins.foldl St.install (s.serveL (.dyn j)) := by
    show (ins.foldl St.install (s.serveL (.dyn j))).doneL (.dyn j) = _
    rfl
  rw [hs3]
  exact ⟨m2, hst1.trans st2, iss2.trans (by rw [hiss1]), ⟨x, sv2.trans hsv1⟩⟩

/-- One reported index is served: log the record, run the callback (which may create requests), and for an
    active message restart the receive outside the window. -/
theorem Mid_serveOne {s : St} {l : Loc} {rest all : List Loc} (h : Mid s (l :: rest) all)
    (hl : l ∉ rest) (ins : List Dyn) (hf : ∀ x, x ∈ ins → x ∉ s.issued) (hnd : ins.Nodup) :
    Mid (s.serveOneL (l, ins)) rest all ∧ Static s (s.serveOneL (l, ins)) ∧
    (s.serveOneL (l, ins)).issued = s.issued ++ ins ∧
    ∃ rf, (s.serveOneL (l, ins)).served = s.served ++ [rf] := by
  cases l with
  | win k j =>
    obtain ⟨a, b, c, p, r, _, d⟩ := Mid_serveOne_win h hl ins hf hnd
    exact ⟨a, b, c, _, d⟩
  | dyn j =>
    obtain ⟨a, b, c, x, d⟩ := Mid_serveOne_dyn h hl ins hf hnd
    exact ⟨a, b, c, _, d⟩
  | out => exact absurd List.mem_cons_self h.t3

/-- The callback loop over all reported indices. -/
theorem Mid_serveAll : ∀ (c : List (Loc × List Dyn)) (s : St) (all : List Loc), Mid s (c.map (·.1)) all →
    (c.map (·.1)).Nodup → (c.flatMap (·.2)).Nodup → (∀ x, x ∈ c.flatMap (·.2) → x ∉ s.issued) →
    Mid (c.foldl St.serveOneL s) [] all ∧ Static s (c.foldl St.serveOneL s) ∧
    (c.foldl St.serveOneL s).issued = s.issued ++ c.flatMap (·.2) ∧
    ∃ rs, rs.length = c.length ∧ (c.foldl St.serveOneL s).served = s.served ++ rs := by
  intro c
  induction c with
  | nil => intro s all h _ _ _; exact ⟨h, Static.refl s, by simp, [], rfl, by simp⟩
  | cons e rest ih =>
    intro s all h hnd hfn hf
    simp only [List.map_cons, List.nodup_cons] at hnd
    simp only [List.flatMap_cons, List.nodup_append] at hfn
    obtain ⟨g1, g2, g3, rf, g4⟩ := Mid_serveOne (l := e.1) h hnd.1 e.2
      (fun x hx => hf x (by simp [List.flatMap_cons, hx])) hfn.1
    have hf' : ∀ x, x ∈ rest.flatMap (·.2) → x ∉ (s.serveOneL (e.1, e.2)).issued := by
      intro x hx
      rw [g3, List.mem_append]
      rintro (h1 | h1)
      · exact hf x (by simp only [List.flatMap_cons, List.mem_append]; exact Or.inr hx) h1
      · exact hfn.2.2 x h1 x hx rfl
    obtain ⟨k1, k2, k3, rs, k4, k5⟩ := ih (s.serveOneL (e.1, e.2)) all g1 hnd.2 hfn.2.1 hf'
    refine ⟨k1, g2.trans k2, ?_, rf :: rs, by simp [k4], ?_⟩
    · show (rest.foldl St.serveOneL (s.serveOneL e)).issued = _
      rw [show e = (e.1, e.2) from rfl, k3, g3]; simp [List.flatMap_cons]
    · show (rest.foldl St.serveOneL (s.serveOneL e)).served = _
      rw [show e = (e.1, e.2) from rfl, k5, g4]; simp

/-! ### refill, removal, feed -/

theorem fill1_shape (p : Pool) : p.fill1.shape = p.shape := rfl

theorem fillN_shape : ∀ (m : Nat) (p : Pool), (Pool.fillN m p).shape = p.shape := by
  intro m
  induction m with
  | zero => intro p; rfl
  | succ m ih => intro p; show (Pool.fillN m p.fill1).shape = _; rw [ih]; rfl

theorem refill_shape (p : Pool) : p.refill.shape = p.shape := by
  unfold Pool.refill
  simp only
  rw [fillN_shape]; rfl

theorem mem_dynOffs (ls : List Loc) (j : Nat) : j ∈ dynOffs ls ↔ Loc.dyn j ∈ ls := by
  induction ls with
  | nil => simp [dynOffs]
  | cons l rest ih =>
    cases l with
    | win k i => simp [dynOffs, ih]
    | dyn i => simp [dynOffs, ih]
    | out => simp [dynOffs, ih]

theorem Mid.toInv {s : St} {all : List Loc} (h : Mid s [] all) (hq : ∀ (k : Nat) p, s.pools[k]? = some p → PQuiet p)
    (hno : ∀ sl, sl ∈ s.dyn.slots → sl.req ≠ none) : Inv s :=
  ⟨hq, ⟨h.dyn, hno⟩, h.ok, h.ledger, h.nodup⟩

/-- End of a pass: every window is refilled, every hole of the dynamic region is closed, and the FIFOs are served
    as far as slots and the receive quota allow. -/
theorem Mid_finish {s : St} {all : List Loc} (h : Mid s [] all) (hasc : (dynOffs all).Pairwise (fun a b => a < b)) :
    Inv (s.finishL all) ∧ Static s (s.finishL all) ∧ (s.finishL all).issued = s.issued ∧
    (s.finishL all).served = s.served ∧ ¬ (s.finishL all).dyn.starved ∧
    (∃ a b, s.dyn.sendq = a ++ (s.finishL all).dyn.sendq ∧ s.dyn.recvq = b ++ (s.finishL all).dyn.recvq) := by
  have hfin : ∀ sl, sl ∈ s.dyn.slots → sl.fin = false := by
    intro sl hsl
    obtain ⟨j, hj⟩ := List.getElem?_of_mem hsl
    cases hf : sl.fin with
    | false => rfl
    | true => exact absurd (h.u2 j sl hj hf).1 (by simp)
  have hholes : ∀ (i : Nat) sl, s.dyn.slots[i]? = some sl → sl.req = none → i ∈ (dynOffs all).reverse := by
    intro i sl hi hr
    rw [List.mem_reverse, mem_dynOffs]
    exact h.u3 i sl hi hr
  have hpw : (dynOffs all).reverse.Pairwise (fun a b => a > b) := by
    rw [List.pairwise_reverse]; exact hasc
  have hlen : ∀ j, j ∈ (dynOffs all).reverse → j < s.dyn.slots.length := by
    intro j hj
    rw [List.mem_reverse, mem_dynOffs] at hj
    exact h.u4 j hj
  obtain ⟨r1, r2, r3, r4, r5, r6, r7⟩ := DInv_removeAll _ s.dyn h.dyn hfin hpw hholes hlen
  obtain ⟨f1, f2, f3, f4, f5, ⟨a, b, f6, f7⟩, f8⟩ := DInv_feed s.dyn.cap _ r1
  refine ⟨⟨?_, f1, h.ok, ?_, h.nodup⟩, ⟨?_, f3.trans r3, f4.trans r4, f5.trans r5⟩, rfl, rfl, ?_, ⟨a, b, ?_, ?_⟩⟩
  · intro k p' hk
    have hk' : (s.pools.map Pool.refill)[k]? = some p' := hk
    rw [List.getElem?_map] at hk'
    cases hp : s.pools[k]? with
    | none => rw [hp] at hk'; cases hk'
    | some p =>
      rw [hp] at hk'; simp at hk'
      rw [← hk']
      refine (PQuiet_refill (h.pools k p hp) ?_).1
      intro r hr
      cases ha : p.act.getD r true with
      | true => rfl
      | false =>
        obtain ⟨_, _, hm⟩ := h.u1 k p r hp hr ha
        simp at hm
  · show (((s.dyn.removeAll (dynOffs all).reverse).feed s.dyn.cap).refs ++ servedDyn s).Perm s.issued
    exact (List.Perm.append_right _ (f2.trans r2)).trans h.ledger
  · show (s.pools.map Pool.refill).map Pool.shape = s.pools.map Pool.shape
    rw [List.map_map]
    congr 1
    funext p
    exact refill_shape p
  · apply f8
    rw [r4]; omega
  · rw [← r6]; exact f6
  · rw [← r7]; exact f7

/-! ### the three kinds of moves -/

/-- Simple description of what `MPI_Testsome` may report in a state between passes. -/
def Reportable (s : St) : Loc → Prop
  | .win k j => ∃ p, s.pools[k]? = some p ∧ j < p.t
  | .dyn j => j < s.dyn.slots.length
  | .out => False

theorem reportableB_sound {s : St} {l : Loc} (h : reportableB s l = true) : Reportable s l := by
  cases l with
  | win k j =>
    simp only [reportableB] at h
    cases hp : s.pools[k]? with
    | none => rw [hp] at h; cases h
    | some p => rw [hp] at h; exact ⟨p, hp, by simpa using h⟩
  | dyn j => simpa [reportableB, Reportable] using h
  | out => cases h

theorem passOkB_sound {s : St} {ls : List Loc} (h : passOkB s ls = true) :
    ls.Nodup ∧ (∀ l, l ∈ ls → Reportable s l) ∧ (dynOffs ls).Pairwise (fun a b => a < b) := by
  simp only [passOkB, Bool.and_eq_true, decide_eq_true_eq, List.all_eq_true] at h
  exact ⟨h.1.1, fun l hl => reportableB_sound (h.1.2 l hl), h.2⟩

theorem Inv.live {s : St} (h : Inv s) {l : Loc} (hl : Reportable s l) : LiveNow s l := by
  cases l with
  | win k j =>
    obtain ⟨p, hk, hj⟩ := hl
    have hq := h.pools k p hk
    have hjl : j < p.win.length := by rw [hq.inv.win_len]; exact hj
    have hsl := List.getElem?_eq_getElem hjl
    rcases hq.inv.core.slots j _ hsl with h0 | ⟨r, hr, he⟩
    · exact absurd h0 (hq.full _ (List.getElem_mem hjl))
    · exact ⟨p, r, hk, hr, by rw [hsl, he], hq.active r hr⟩
  | dyn j =>
    have hsl := List.getElem?_eq_getElem hl
    exact ⟨_, hsl, h.dyn.live _ (List.getElem_mem hl)⟩
  | out => exact hl

theorem completes_frame (ls : List Loc) (s : St) :
    (ls.foldl St.completeL s).issued = s.issued ∧ (ls.foldl St.completeL s).served = s.served := by
  induction ls generalizing s with
  | nil => exact ⟨rfl, rfl⟩
  | cons l rest ih =>
    show (rest.foldl St.completeL (s.completeL l)).issued = _ ∧ (rest.foldl St.completeL (s.completeL l)).served = _
    obtain ⟨a, b⟩ := ih (s.completeL l)
    rw [a, b]; cases l <;> exact ⟨rfl, rfl⟩

/-- One pass of the progress loop keeps the invariant. -/
theorem Inv_iterL {s : St} (h : Inv s) (c : List (Loc × List Dyn))
    (hnd : (c.map (·.1)).Nodup) (hrep : ∀ l, l ∈ c.map (·.1) → Reportable s l)
    (hasc : (dynOffs (c.map (·.1))).Pairwise (fun a b => a < b))
    (hfn : (c.flatMap (·.2)).Nodup) (hf : ∀ x, x ∈ c.flatMap (·.2) → x ∉ s.issued) :
    Inv (s.iterL c) ∧ Static s (s.iterL c) ∧ (s.iterL c).issued = s.issued ++ c.flatMap (·.2) ∧
    (∃ rs, rs.length = c.length ∧ (s.iterL c).served = s.served ++ rs) ∧ ¬ (s.iterL c).dyn.starved := by
  obtain ⟨t1, t2⟩ := Mid_test (c.map (·.1)) s [] (c.map (·.1)) (h.toMid _ (fun j hj => (hrep (Loc.dyn j) hj : Reportable s (Loc.dyn j)))) (fun l hl => hl) hnd
    (fun l hl => h.live (hrep l hl))
  rw [List.append_nil] at t1
  obtain ⟨hiss1, hsv1⟩ := completes_frame (c.map (·.1)) s
  obtain ⟨a1, a2, a3, rs, a4, a5⟩ := Mid_serveAll c _ _ t1 hnd hfn (by rw [hiss1]; exact hf)
  obtain ⟨b1, b2, b3, b4, b5, _⟩ := Mid_finish a1 hasc
  refine ⟨b1, (t2.trans a2).trans b2, ?_, ⟨rs, a4, ?_⟩, b5⟩
  · show (St.finishL _ _).issued = _
    rw [b3, a3, hiss1]
  · show (St.finishL _ _).served = _
    rw [b4, a5, hsv1]

/-- Creation of a request between passes (put / get from the upper layer). -/
theorem Inv_install {s : St} (h : Inv s) (x : Dyn) (hx : x ∉ s.issued) :
    Inv (s.install x) ∧ Static s (s.install x) ∧ (s.install x).issued = s.issued ++ [x] ∧ (s.install x).served = s.served := by
  obtain ⟨g1, g2, g3, g4⟩ := Mid_install (h.toMid [] (by simp)) x hx
  refine ⟨g1.toInv h.pools ?_, g2, g3, g4⟩
  intro sl hsl hr
  obtain ⟨j, hj⟩ := List.getElem?_of_mem hsl
  exact absurd (g1.u3 j sl hj hr) (by simp)

/-! ### the initial state and the layout of the array -/

/-- The windows tile `[b, e)` in tag order: `start_idx` of a tag = end of the previous window. -/
def Contig : Nat → List Pool → Nat → Prop
  | b, [], e => b = e
  | b, p :: rest, e => p.base = b ∧ Contig (b + p.t) rest e

theorem contig_mkPools : ∀ (cfg : List (Nat × Nat × Nat)) (b : Nat), Contig b (mkPools b cfg) (b + nstatic cfg) := by
  intro cfg
  induction cfg with
  | nil => intro b; simp [mkPools, nstatic, Contig]
  | cons e rest ih =>
    intro b
    obtain ⟨id, n, t⟩ := e
    refine ⟨rfl, ?_⟩
    have := ih (b + t)
    show Contig (b + t) (mkPools (b + t) rest) (b + (t + nstatic rest))
    rw [← Nat.add_assoc]; exact this

theorem contig_congr : ∀ (ps qs : List Pool) (b e : Nat), qs.map Pool.shape = ps.map Pool.shape → Contig b ps e → Contig b qs e := by
  intro ps
  induction ps with
  | nil =>
    intro qs b e h hc
    cases qs with
    | nil => exact hc
    | cons _ _ => simp at h
  | cons p rest ih =>
    intro qs b e h hc
    cases qs with
    | nil => simp at h
    | cons q qrest =>
      simp only [List.map_cons, List.cons.injEq] at h
      obtain ⟨h1, h2⟩ := h
      simp only [Pool.shape, Prod.mk.injEq] at h1
      obtain ⟨_, _, ht, hb⟩ := h1
      exact ⟨hb.trans hc.1, by rw [ht]; exact ih qrest _ e h2 hc.2⟩

theorem mkPools_get : ∀ (cfg : List (Nat × Nat × Nat)) (b k : Nat) (p : Pool), (mkPools b cfg)[k]? = some p →
    ∃ id n t b', (id, n, t) ∈ cfg ∧ p = Pool.init id n t b' := by
  intro cfg
  induction cfg with
  | nil => intro b k p h; simp [mkPools] at h
  | cons e rest ih =>
    intro b k p h
    obtain ⟨id, n, t⟩ := e
    cases k with
    | zero =>
      simp [mkPools] at h
      exact ⟨id, n, t, b, by simp, h.symm⟩
    | succ k' =>
      simp [mkPools] at h
      obtain ⟨id', n', t', b', hm, hp⟩ := ih (b + t) k' p h
      exact ⟨id', n', t', b', by simp [hm], hp⟩

theorem Inv_init (cap quota : Nat) (cfg : List (Nat × Nat × Nat))
    (hcfg : ∀ id n t, (id, n, t) ∈ cfg → 1 ≤ t ∧ t ≤ n) : Inv (init cap quota cfg) := by
  refine ⟨?_, ⟨⟨by simp [init], ?_, rfl, by simp [init], by simp [init], by simp [init]⟩, by simp [init]⟩, rfl, ?_, by simp [init]⟩
  · intro k p hk
    obtain ⟨id, n, t, b', hm, hp⟩ := mkPools_get cfg 0 k p hk
    obtain ⟨h1, h2⟩ := hcfg id n t hm
    rw [hp]; exact PQuiet_init id n t b' h1 h2
  · intro j sl hj; simp [init] at hj
  · simp [init, DynR.refs, heldOf, servedDyn]

end ParsecVerif.CommEngine
