import ParsecVerif.Proofs.RwLockW
/-!
  Progress of the ticket read-write lock: a stuttering-free step always exists while some thread has
  not finished (no deadlock), every state-changing step decreases a natural-number measure, hence
  every fair schedule runs all threads to completion.
-/
namespace ParsecVerif.RwLock
open ParsecVerif.Interleave

/-- the next step of a thread at `pc` changes the state (it is not finished and, if it waits in a
    spin loop, its spin condition is false) -/
def canMove (s : State) : Pc → Bool
  | .done => false
  | .rSpin w => w ≠ s.rin % 4
  | .wSpin1 t => s.wout = t
  | .wSpin2 _ rt => s.rout = rt
  | _ => true

theorem canMove_eq (s : State) (pc : Pc) : canMove s pc = (pc ≠ .done && !blocked s pc) := by
  cases pc <;> simp [canMove, blocked]

def cost : Kind → Nat
  | .rd => 8
  | .wr => 13

def rank : Pc → Nat
  | .done => 0 | .idle => 1
  | .rAdd => 7 | .rSpin _ => 6 | .rFence => 5 | .rIn => 4 | .rWmb => 3 | .rOut => 2
  | .wTick => 12 | .wSpin1 _ => 11 | .wAdd _ => 10 | .wSpin2 _ _ => 9 | .wFence _ => 8 | .wIn _ => 7
  | .wWmb _ => 6 | .wAnd _ => 5 | .wLoad _ => 4 | .wStore _ _ => 3

/-- number of state-changing steps thread `th` can still take (upper bound) -/
def muT (th : Thread) : Nat := rank th.pc + (th.prog.map cost).sum
def mu (s : State) : Nat := (s.th.map muT).sum

/-- a thread that cannot move stutters: its step leaves the whole state unchanged -/
theorem stutter (M : Nat) (s : State) (i : Nat) (th : Thread) (h : s.th[i]? = some th)
    (hc : canMove s th.pc = false) : step M s i = s := by
  unfold step
  rw [h]
  obtain ⟨pc, prog⟩ := th
  cases pc <;> simp only [canMove] at hc <;> simp only [stepT] <;> first | rfl | cases hc | skip
  · rename_i w; simp at hc; rw [if_pos hc]
  · rename_i t; simp at hc; rw [if_neg hc]
  · rename_i t rt; simp at hc; rw [if_neg hc]

/-- a thread that can move changes only its own entry of the thread list and gets closer to its end -/
theorem moves_down (M : Nat) (s : State) (i : Nat) (th : Thread) (h : s.th[i]? = some th)
    (hc : canMove s th.pc = true) : ∃ y, (step M s i).th = s.th.set i y ∧ muT y < muT th := by
  unfold step
  rw [h]
  obtain ⟨pc, prog⟩ := th
  cases pc <;> simp only [canMove] at hc <;> simp only [stepT, setT]
  · cases prog with
    | nil => exact ⟨_, rfl, by simp [muT, rank]⟩
    | cons a p => cases a <;> exact ⟨_, rfl, by simp [muT, rank, cost]; omega⟩
  · cases hc
  · refine ⟨_, rfl, ?_⟩
    by_cases h4 : s.rin % 4 = 0 <;> simp [muT, rank, h4]
  · rename_i w; simp at hc; rw [if_neg hc]; exact ⟨_, rfl, by simp [muT, rank]⟩
  · exact ⟨_, rfl, by simp [muT, rank]⟩
  · exact ⟨_, rfl, by simp [muT, rank]⟩
  · exact ⟨_, rfl, by simp [muT, rank]⟩
  · exact ⟨_, rfl, by simp [muT, rank]⟩
  · exact ⟨_, rfl, by simp [muT, rank]⟩
  · rename_i t; simp at hc; rw [if_pos hc]; exact ⟨_, rfl, by simp [muT, rank]⟩
  · exact ⟨_, rfl, by simp [muT, rank]⟩
  · rename_i t rt; simp at hc; rw [if_pos hc]; exact ⟨_, rfl, by simp [muT, rank]⟩
  · exact ⟨_, rfl, by simp [muT, rank]⟩
  · exact ⟨_, rfl, by simp [muT, rank]⟩
  · exact ⟨_, rfl, by simp [muT, rank]⟩
  · exact ⟨_, rfl, by simp [muT, rank]⟩
  · exact ⟨_, rfl, by simp [muT, rank]⟩
  · exact ⟨_, rfl, by simp [muT, rank]⟩

theorem mu_step_lt (M : Nat) (s : State) (i : Nat) (th : Thread) (h : s.th[i]? = some th)
    (hc : canMove s th.pc = true) : mu (step M s i) < mu s := by
  obtain ⟨y, hy, hlt⟩ := moves_down M s i th h hc
  obtain ⟨hi, hx⟩ := getElem_of_getElem? h
  unfold mu
  rw [hy, List.map_set]
  have := sum_set (s.th.map muT) i (muT y) (by simpa using hi)
  simp only [List.getElem_map, hx] at this
  omega

theorem mu_step_le (M : Nat) (s : State) (i : Nat) : mu (step M s i) ≤ mu s := by
  cases h : s.th[i]? with
  | none => unfold step; rw [h]; exact Nat.le_refl _
  | some th =>
    cases hc : canMove s th.pc with
    | false => rw [stutter M s i th h hc]; exact Nat.le_refl _
    | true => exact Nat.le_of_lt (mu_step_lt M s i th h hc)

theorem mu_run_le (M : Nat) (s : State) (l : List Nat) : mu (run M s l) ≤ mu s := by
  unfold run
  induction l generalizing s with
  | nil => exact Nat.le_refl _
  | cons t ts ih => exact Nat.le_trans (ih _) (mu_step_le M s t)

theorem length_step (M : Nat) (s : State) (i : Nat) : (step M s i).th.length = s.th.length := by
  cases h : s.th[i]? with
  | none => unfold step; rw [h]
  | some th =>
    cases hc : canMove s th.pc with
    | false => rw [stutter M s i th h hc]
    | true =>
      obtain ⟨y, hy, _⟩ := moves_down M s i th h hc
      rw [hy, List.length_set]

theorem length_run (M : Nat) (s : State) (l : List Nat) : (run M s l).th.length = s.th.length := by
  unfold run
  induction l generalizing s with
  | nil => rfl
  | cons t ts ih => rw [List.foldl_cons, ih, length_step]

theorem exists_of_cnt_pos (c : Cls) (l : List Thread) (h : 1 ≤ cnt c l) :
    ∃ (i : Nat) (th : Thread), l[i]? = some th ∧ cls th.pc = c := by
  unfold cnt at h
  have hm := List.count_pos_iff.1 h
  obtain ⟨th, hth, hc⟩ := List.mem_map.1 hm
  obtain ⟨i, hi, hx⟩ := List.getElem_of_mem hth
  exact ⟨i, th, by rw [List.getElem?_eq_getElem hi, hx], hc⟩

theorem canMove_of_cls (s : State) (pc : Pc) (h1 : cls pc ≠ .done) (h2 : cls pc ≠ .rs2) (h3 : cls pc ≠ .rs3)
    (h4 : cls pc ≠ .rsX) (h5 : cls pc ≠ .wS1) (h6 : cls pc ≠ .wS2) : canMove s pc = true := by
  cases pc <;> simp only [cls, canMove] at * <;> first | rfl | (exfalso; first | exact h1 rfl | exact h5 rfl | exact h6 rfl) | skip
  rename_i w
  by_cases a : w = 2
  · simp [a] at h2
  · by_cases b : w = 3
    · simp [b] at h3
    · simp [a, b] at h4

/-- **No deadlock.**  In a state satisfying the invariant, if some thread has not finished then some
    thread can take a state-changing step. -/
theorem exists_canMove (s : State) (h : Inv s) (th0 : Thread) (i0 : Nat) (h0 : s.th[i0]? = some th0)
    (hnd : th0.pc ≠ .done) : ∃ (i : Nat) (th : Thread), s.th[i]? = some th ∧ canMove s th.pc = true := by
  -- a thread at a program point that is neither a spin loop nor the end can always move
  have easy : ∀ c, c ≠ .done → c ≠ .rs2 → c ≠ .rs3 → c ≠ .rsX → c ≠ .wS1 → c ≠ .wS2 → 1 ≤ cnt c s.th →
      ∃ (i : Nat) (th : Thread), s.th[i]? = some th ∧ canMove s th.pc = true := by
    intro c h1 h2 h3 h4 h5 h6 hp
    obtain ⟨i, th, hi, hc⟩ := exists_of_cnt_pos c s.th hp
    exact ⟨i, th, hi, canMove_of_cls s th.pc (hc ▸ h1) (hc ▸ h2) (hc ▸ h3) (hc ▸ h4) (hc ▸ h5) (hc ▸ h6)⟩
  by_cases c1 : 1 ≤ cnt .idle s.th; · exact easy _ (by simp) (by simp) (by simp) (by simp) (by simp) (by simp) c1
  by_cases c2 : 1 ≤ cnt .rAdd s.th; · exact easy _ (by simp) (by simp) (by simp) (by simp) (by simp) (by simp) c2
  by_cases c3 : 1 ≤ cnt .rF s.th; · exact easy _ (by simp) (by simp) (by simp) (by simp) (by simp) (by simp) c3
  by_cases c4 : 1 ≤ cnt .rIn s.th; · exact easy _ (by simp) (by simp) (by simp) (by simp) (by simp) (by simp) c4
  by_cases c5 : 1 ≤ cnt .rWmb s.th; · exact easy _ (by simp) (by simp) (by simp) (by simp) (by simp) (by simp) c5
  by_cases c6 : 1 ≤ cnt .rOut s.th; · exact easy _ (by simp) (by simp) (by simp) (by simp) (by simp) (by simp) c6
  by_cases c7 : 1 ≤ cnt .wTick s.th; · exact easy _ (by simp) (by simp) (by simp) (by simp) (by simp) (by simp) c7
  by_cases c8 : 1 ≤ cnt .wAdd s.th; · exact easy _ (by simp) (by simp) (by simp) (by simp) (by simp) (by simp) c8
  by_cases c9 : 1 ≤ cnt .wF s.th; · exact easy _ (by simp) (by simp) (by simp) (by simp) (by simp) (by simp) c9
  by_cases c10 : 1 ≤ cnt .wIn s.th; · exact easy _ (by simp) (by simp) (by simp) (by simp) (by simp) (by simp) c10
  by_cases c11 : 1 ≤ cnt .wWmb s.th; · exact easy _ (by simp) (by simp) (by simp) (by simp) (by simp) (by simp) c11
  by_cases c12 : 1 ≤ cnt .wAnd s.th; · exact easy _ (by simp) (by simp) (by simp) (by simp) (by simp) (by simp) c12
  by_cases c13 : 1 ≤ cnt .wLoad s.th; · exact easy _ (by simp) (by simp) (by simp) (by simp) (by simp) (by simp) c13
  by_cases c14 : 1 ≤ cnt .wStore s.th; · exact easy _ (by simp) (by simp) (by simp) (by simp) (by simp) (by simp) c14
  -- every unfinished thread waits in a spin loop
  obtain ⟨hsx, hc, hd1, hd2, hph, hpt, hu, hex⟩ := h
  have hH : H s = cnt Cls.wAdd s.th + cnt Cls.wS2 s.th + cnt Cls.wF s.th + cnt Cls.wIn s.th + cnt Cls.wWmb s.th +
      cnt Cls.wAnd s.th + cnt Cls.wLoad s.th + cnt Cls.wStore s.th := rfl
  simp only [Phase, H, Rent, n] at hsx hc hd1 hd2 hph
  by_cases cW2 : 1 ≤ cnt .wS2 s.th
  · -- the holder drains the readers that arrived before it
    obtain ⟨i, th, hi, hcl⟩ := exists_of_cnt_pos _ _ cW2
    have hme := hpt i th hi
    obtain ⟨pc, prog⟩ := th
    cases pc <;> simp only [cls, reduceCtorEq] at hcl
    · rename_i w; split at hcl <;> (try split at hcl) <;> simp at hcl
    rename_i t rt
    simp only [PT, PTv, Q0, Q1, Rent, n] at hme
    by_cases hr : s.rout = rt
    · exact ⟨i, _, hi, by simp [canMove, hr]⟩
    · -- some reader of the previous phase is still spinning, and its condition is false
      rcases Nat.mod_two_eq_zero_or_one s.wout with hp | hp
      · have : 1 ≤ cnt .rs3 s.th := by omega
        obtain ⟨j, thj, hj, hcj⟩ := exists_of_cnt_pos _ _ this
        refine ⟨j, thj, hj, ?_⟩
        obtain ⟨pcj, pj⟩ := thj
        cases pcj <;> simp only [cls, reduceCtorEq] at hcj
        rename_i w
        have hw : w = 3 := by
          by_cases a : w = 2
          · simp [a] at hcj
          · by_cases b : w = 3
            · exact b
            · simp [a, b] at hcj
        subst hw
        have : s.rin % 4 = 2 := by rcases hph with hA | hB | hC | hD <;> omega
        simp [canMove, this]
      · have : 1 ≤ cnt .rs2 s.th := by omega
        obtain ⟨j, thj, hj, hcj⟩ := exists_of_cnt_pos _ _ this
        refine ⟨j, thj, hj, ?_⟩
        obtain ⟨pcj, pj⟩ := thj
        cases pcj <;> simp only [cls, reduceCtorEq] at hcj
        rename_i w
        have hw : w = 2 := by
          by_cases a : w = 2
          · exact a
          · by_cases b : w = 3
            · simp [b] at hcj
            · simp [a, b] at hcj
        subst hw
        have : s.rin % 4 = 3 := by rcases hph with hA | hB | hC | hD <;> omega
        simp [canMove, this]
  · have h4 : s.rin % 4 = 0 := by rcases hph with hA | hB | hC | hD <;> omega
    have spin : ∀ c, (c = .rs2 ∨ c = .rs3) → 1 ≤ cnt c s.th →
        ∃ (i : Nat) (th : Thread), s.th[i]? = some th ∧ canMove s th.pc = true := by
      intro c hc23 hp
      obtain ⟨j, thj, hj, hcj⟩ := exists_of_cnt_pos _ _ hp
      refine ⟨j, thj, hj, ?_⟩
      have hme := hpt j thj hj
      obtain ⟨pcj, pj⟩ := thj
      cases pcj <;> simp only [cls] at hcj <;> first | (rcases hc23 with rfl | rfl <;> cases hcj) | skip
      rename_i w
      simp only [PT, PTv] at hme
      simp only [canMove, h4]
      rcases hme with rfl | rfl <;> simp
    by_cases cs2 : 1 ≤ cnt .rs2 s.th; · exact spin _ (Or.inl rfl) cs2
    by_cases cs3 : 1 ≤ cnt .rs3 s.th; · exact spin _ (Or.inr rfl) cs3
    -- only writers waiting for their turn are left: the one holding ticket `wout` can go
    have hp0 := cnt_pos s.th i0 th0 h0
    have hcls : cls th0.pc = .wS1 := by
      generalize hcc : cls th0.pc = c at hp0
      cases c <;> first | rfl | omega | skip
      · exfalso
        obtain ⟨pc0, p0⟩ := th0
        cases pc0 <;> simp only [cls, reduceCtorEq] at hcc
        · exact hnd rfl
        · rename_i w; split at hcc <;> (try split at hcc) <;> simp at hcc
    rw [hcls] at hp0
    obtain ⟨i, hi⟩ := hex s.wout (by rw [hH]; omega) (by omega)
    obtain ⟨th, hth, hpc⟩ := hi
    exact ⟨i, th, hth, by rw [hpc]; simp [canMove]⟩

/-! ## Fair schedules terminate -/

def allDone (s : State) : Prop := ∀ th ∈ s.th, th.pc = .done

theorem allDone_step (M : Nat) (s : State) (i : Nat) (h : allDone s) : step M s i = s := by
  cases hi : s.th[i]? with
  | none => unfold step; rw [hi]
  | some th =>
    apply stutter M s i th hi
    obtain ⟨hlt, hx⟩ := getElem_of_getElem? hi
    rw [h th (hx ▸ List.getElem_mem hlt)]
    rfl

theorem allDone_run (M : Nat) (s : State) (l : List Nat) (h : allDone s) : run M s l = s := by
  unfold run
  induction l with
  | nil => rfl
  | cons t ts ih => rw [List.foldl_cons, allDone_step M s t h]; exact ih

theorem sum_eq_zero (l : List Nat) (h : l.sum = 0) : ∀ x ∈ l, x = 0 := by
  induction l with
  | nil => intro x hx; cases hx
  | cons a t ih =>
    simp only [List.sum_cons] at h
    intro x hx
    rcases List.mem_cons.1 hx with rfl | hx
    · omega
    · exact ih (by omega) x hx

theorem allDone_of_mu_zero (s : State) (h : mu s = 0) : allDone s := by
  intro th hth
  have := sum_eq_zero _ h (muT th) (List.mem_map.2 ⟨th, hth, rfl⟩)
  unfold muT at this
  have hr : rank th.pc = 0 := by omega
  cases hp : th.pc <;> rw [hp] at hr <;> simp [rank] at hr

/-- one fair round (every thread is scheduled at least once) makes progress unless all are finished -/
theorem round_progress (s : State) (h : Inv s) (r : List Nat) (hr : ∀ i, i < s.th.length → i ∈ r)
    (hnd : ¬ allDone s) : mu (run 0 s r) < mu s := by
  have hex : ∃ (i0 : Nat) (th0 : Thread), s.th[i0]? = some th0 ∧ th0.pc ≠ .done := by
    apply Classical.byContradiction
    intro hno
    apply hnd
    intro th hth
    obtain ⟨i, hi, hx⟩ := List.getElem_of_mem hth
    apply Classical.byContradiction
    intro hp
    exact hno ⟨i, th, by rw [List.getElem?_eq_getElem hi, hx], hp⟩
  obtain ⟨i0, th0, h0, hnd0⟩ := hex
  obtain ⟨i, th, hi, hc⟩ := exists_canMove s h th0 i0 h0 hnd0
  have him : i ∈ r := hr i (getElem_of_getElem? hi).1
  clear hr hnd h0 hnd0 h
  -- until thread i is reached either the state is unchanged or the measure has already dropped
  induction r with
  | nil => cases him
  | cons j js ih =>
    show mu (run 0 (step 0 s j) js) < mu s
    by_cases hji : j = i
    · subst hji
      exact Nat.lt_of_le_of_lt (mu_run_le 0 _ js) (mu_step_lt 0 s j th hi hc)
    · have him' : i ∈ js := by
        rcases List.mem_cons.1 him with rfl | hm
        · exact absurd rfl hji
        · exact hm
      cases hj : s.th[j]? with
      | none =>
        have : step 0 s j = s := by unfold step; rw [hj]
        rw [this]; exact ih him'
      | some thj =>
        cases hcj : canMove s thj.pc with
        | false => rw [stutter 0 s j thj hj hcj]; exact ih him'
        | true => exact Nat.lt_of_le_of_lt (mu_run_le 0 _ js) (mu_step_lt 0 s j thj hj hcj)

theorem run_append (M : Nat) (s : State) (l1 l2 : List Nat) : run M s (l1 ++ l2) = run M (run M s l1) l2 := by
  unfold run; rw [List.foldl_append]

/-- **Liveness under fairness.**  From any state satisfying the invariant, a schedule made of at
    least `mu s` fair rounds (in each of which every thread is scheduled at least once, in any order
    and any number of times) ends with every thread finished. -/
theorem fair_rounds_terminate (s : State) (h : Inv s) (rounds : List (List Nat))
    (hfair : ∀ r ∈ rounds, ∀ i, i < s.th.length → i ∈ r) (hlen : mu s ≤ rounds.length) :
    allDone (run 0 s rounds.flatten) := by
  induction rounds generalizing s with
  | nil =>
    simp only [List.length_nil] at hlen
    exact allDone_of_mu_zero s (by omega)
  | cons r rs ih =>
    rw [List.flatten_cons, run_append]
    by_cases hd : allDone s
    · rw [allDone_run 0 s r hd, allDone_run 0 s _ hd]; exact hd
    · have hlt := round_progress s h r (hfair r (List.mem_cons_self ..)) hd
      apply ih (run 0 s r) (inv_run s r h)
      · intro r' hr' i hi
        rw [length_run] at hi
        exact hfair r' (List.mem_cons_of_mem _ hr') i hi
      · simp only [List.length_cons] at hlen
        omega

end ParsecVerif.RwLock
