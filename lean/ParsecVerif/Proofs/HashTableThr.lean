/-
  How replacing the record of one thread acts on the parts of the invariant that speak about the
  thread list: the read-write lock exclusion, the pending `used_buckets` decrements, the items in
  flight, the caller bookkeeping.
-/
import ParsecVerif.Proofs.HashTableStore

namespace ParsecVerif.HashTable

theorem lt_of_get {thr : List Thread} {u : Nat} {th : Thread} (h : thr[u]? = some th) : u < thr.length := by
  rcases Nat.lt_or_ge u thr.length with hlt | hge
  · exact hlt
  · rw [List.getElem?_eq_none hge] at h; cases h

theorem get_set_ne {thr : List Thread} {u t : Nat} (x : Thread) (h : t ≠ u) : (thr.set u x)[t]? = thr[t]? := by
  rw [List.getElem?_set]; simp [Ne.symm h]

theorem get_set_self {thr : List Thread} {u : Nat} {th : Thread} (x : Thread) (h : thr[u]? = some th) :
    (thr.set u x)[u]? = some x := by
  rw [List.getElem?_set]; simp [lt_of_get h]

theorem mem_of_get {thr : List Thread} {u : Nat} {th : Thread} (h : thr[u]? = some th) : th ∈ thr :=
  List.mem_of_getElem? h

/-- case analysis on an entry of the updated list -/
theorem get_set_cases {thr : List Thread} {u t : Nat} {th a : Thread} (x : Thread) (hu : thr[u]? = some th)
    (h : (thr.set u x)[t]? = some a) : (t = u ∧ a = x) ∨ (t ≠ u ∧ thr[t]? = some a) := by
  by_cases htu : t = u
  · subst htu; rw [get_set_self x hu] at h; cases h; exact Or.inl ⟨rfl, rfl⟩
  · rw [get_set_ne x htu] at h; exact Or.inr ⟨htu, h⟩

/-! ## pending decrements -/

theorem countP_set {α : Type} (p : α → Bool) (l : List α) (i : Nat) (y : α) (h : i < l.length) :
    (l.set i y).countP p + (if p l[i] = true then 1 else 0) = l.countP p + (if p y = true then 1 else 0) := by
  induction l generalizing i with
  | nil => simp at h
  | cons a t ih =>
    cases i with
    | zero =>
      simp only [List.set_cons_zero, List.countP_cons, List.getElem_cons_zero]
      omega
    | succ k =>
      simp only [List.length_cons, Nat.add_lt_add_iff_right] at h
      have := ih k h
      simp only [List.set_cons_succ, List.countP_cons, List.getElem_cons_succ]
      omega

theorem pendingDec_set {thr : List Thread} {u : Nat} {th : Thread} (hu : thr[u]? = some th) (x : Thread) (T : Nat) :
    pendingDec (thr.set u x) T + (if th.pc.isDu T = true then 1 else 0) =
      pendingDec thr T + (if x.pc.isDu T = true then 1 else 0) := by
  unfold pendingDec
  have hlt := lt_of_get hu
  have := countP_set (fun th => th.pc.isDu T) thr u x hlt
  have hget : thr[u] = th := by
    rw [List.getElem?_eq_getElem hlt] at hu
    exact Option.some.inj hu
  rw [hget] at this
  exact this

theorem pendingDec_pos {thr : List Thread} {u : Nat} {th : Thread} (hu : thr[u]? = some th) {T : Nat}
    (h : th.pc.isDu T = true) : 0 < pendingDec thr T := by
  unfold pendingDec
  exact List.countP_pos_iff.2 ⟨th, mem_of_get hu, h⟩

theorem pendingDec_zero_of_no_reader {thr : List Thread} (h : ∀ y, y ∈ thr → y.pc.isReader = false) (T : Nat) :
    pendingDec thr T = 0 := by
  unfold pendingDec
  apply List.countP_eq_zero.2
  intro y hy
  have := h y hy
  cases hpc : y.pc <;> rw [hpc] at this <;> simp [Pc.isDu, Pc.isReader] at this ⊢

/-! ## read-write lock exclusion -/

theorem Excl.set {thr : List Thread} (h : Excl thr) {u : Nat} {th : Thread} (hu : thr[u]? = some th) (x : Thread)
    (hr : x.pc.isReader = true → th.pc.isReader = true ∨ ∀ y, y ∈ thr → y.pc.isWriter = false)
    (hw : x.pc.isWriter = true → th.pc.isWriter = true ∨ ∀ y, y ∈ thr → y.pc.isReader = false ∧ y.pc.isWriter = false) :
    Excl (thr.set u x) := by
  intro t t' a a' ha ha' hwa hra
  rcases get_set_cases x hu ha with ⟨h1, h2⟩ | ⟨h1, h2⟩
  · rcases get_set_cases x hu ha' with ⟨h3, _⟩ | ⟨h3, h4⟩
    · rw [h1, h3]
    · subst h2
      rcases hw hwa with hw | hw
      · rw [h1]; exact h u t' th a' hu h4 hw hra
      · have := hw a' (mem_of_get h4)
        rcases hra with hra | hra
        · rw [this.1] at hra; cases hra
        · rw [this.2] at hra; cases hra
  · rcases get_set_cases x hu ha' with ⟨h3, h4⟩ | ⟨h3, h4⟩
    · subst h4
      rw [h3]
      rcases hra with hra | hra
      · rcases hr hra with hr | hr
        · exact h t u a th h2 hu hwa (Or.inl hr)
        · have := hr a (mem_of_get h2); rw [this] at hwa; cases hwa
      · rcases hw hra with hw | hw
        · exact h t u a th h2 hu hwa (Or.inr hw)
        · have := (hw a (mem_of_get h2)).2; rw [this] at hwa; cases hwa
    · exact h t t' a a' h2 h4 hwa hra

/-- a thread between rdlock and rdunlock excludes writers -/
theorem Excl.no_writer {thr : List Thread} (h : Excl thr) {u : Nat} {th : Thread} (hu : thr[u]? = some th)
    (hr : th.pc.isReader = true) {t : Nat} {a : Thread} (ha : thr[t]? = some a) : a.pc.isWriter = false := by
  cases hw : a.pc.isWriter with
  | false => rfl
  | true =>
    have := h t u a th ha hu hw (Or.inl hr)
    subst this
    rw [hu] at ha; cases ha
    cases hpc : th.pc <;> rw [hpc] at hr hw <;> simp [Pc.isReader, Pc.isWriter] at hr hw

/-! ## items in flight -/

theorem InFlight.set_keep {thr : List Thread} {it : Item} (h : InFlight thr it) {u : Nat} {th : Thread}
    (hu : thr[u]? = some th) (x : Thread)
    (hk : th.op.mv = true → th.pc.inHand = some it → x.op.mv = true ∧ x.pc.inHand = some it) :
    InFlight (thr.set u x) it := by
  obtain ⟨t, a, ha, hm, hh⟩ := h
  by_cases htu : t = u
  · subst htu
    rw [hu] at ha; cases ha
    exact ⟨t, x, get_set_self x hu, (hk hm hh).1, (hk hm hh).2⟩
  · exact ⟨t, a, by rw [get_set_ne x htu]; exact ha, hm, hh⟩

theorem InFlight.set_drop {thr : List Thread} {it : Item} (h : InFlight thr it) {u : Nat} {th : Thread}
    (hu : thr[u]? = some th) (x : Thread) :
    InFlight (thr.set u x) it ∨ (th.op.mv = true ∧ th.pc.inHand = some it) := by
  obtain ⟨t, a, ha, hm, hh⟩ := h
  by_cases htu : t = u
  · subst htu
    rw [hu] at ha; cases ha
    exact Or.inr ⟨hm, hh⟩
  · exact Or.inl ⟨t, a, by rw [get_set_ne x htu]; exact ha, hm, hh⟩

theorem InFlight.set_new {thr : List Thread} {u : Nat} {th : Thread} (hu : thr[u]? = some th) (x : Thread) {it : Item}
    (hm : x.op.mv = true) (hh : x.pc.inHand = some it) : InFlight (thr.set u x) it :=
  ⟨u, x, get_set_self x hu, hm, hh⟩

/-! ## caller bookkeeping -/

/-- the new record of the stepping thread has the same outstanding-`ins` / holding-`rem` status -/
structure SameStatus (th x : Thread) : Prop where
  pend : ∀ k, PendIns x k ↔ PendIns th k
  rm : ∀ k, RmHold x k ↔ RmHold th k

theorem UserInv.set_same {s : Store} {thr : List Thread} (h : UserInv s thr) {u : Nat} {th : Thread}
    (hu : thr[u]? = some th) {x : Thread} (hs : SameStatus th x) : UserInv s (thr.set u x) := by
  refine ⟨h.uPlain, h.uAbs, ?_, ?_⟩
  · intro t a k ha hp
    have key : ∀ (t0 : Nat) (a0 : Thread), thr[t0]? = some a0 → PendIns a0 k →
        k ∈ s.kheld ∧ (∀ it, it ∈ s.abs → it.key ≠ k) ∧
        ∀ (t' : Nat) (a' : Thread), (thr.set u x)[t']? = some a' → t' ≠ t0 → ¬ PendIns a' k ∧ ¬ RmHold a' k := by
      intro t0 a0 ha0 hp0
      obtain ⟨g1, g2, g3⟩ := h.uIns t0 a0 k ha0 hp0
      refine ⟨g1, g2, fun t' a' ha' hne => ?_⟩
      rcases get_set_cases x hu ha' with ⟨e1, e2⟩ | ⟨e1, e2⟩
      · subst e2; rw [e1] at hne
        have := g3 u th hu hne
        exact ⟨fun hh => this.1 ((hs.pend k).1 hh), fun hh => this.2 ((hs.rm k).1 hh)⟩
      · exact g3 t' a' e2 hne
    rcases get_set_cases x hu ha with ⟨e1, e2⟩ | ⟨e1, e2⟩
    · subst e2; rw [e1]; exact key u th hu ((hs.pend k).1 hp)
    · exact key t a e2 hp
  · intro t a k ha hp
    have key : ∀ (t0 : Nat) (a0 : Thread), thr[t0]? = some a0 → RmHold a0 k →
        k ∈ s.kheld ∧ (∀ it, it ∈ s.abs → it.key ≠ k) ∧
        ∀ (t' : Nat) (a' : Thread), (thr.set u x)[t']? = some a' → t' ≠ t0 → ¬ RmHold a' k := by
      intro t0 a0 ha0 hp0
      obtain ⟨g1, g2, g3⟩ := h.uRm t0 a0 k ha0 hp0
      refine ⟨g1, g2, fun t' a' ha' hne => ?_⟩
      rcases get_set_cases x hu ha' with ⟨e1, e2⟩ | ⟨e1, e2⟩
      · subst e2; rw [e1] at hne
        exact fun hh => g3 u th hu hne ((hs.rm k).1 hh)
      · exact g3 t' a' e2 hne
    rcases get_set_cases x hu ha with ⟨e1, e2⟩ | ⟨e1, e2⟩
    · subst e2; rw [e1]; exact key u th hu ((hs.rm k).1 hp)
    · exact key t a e2 hp

theorem UserInv.congr {s s' : Store} {thr : List Thread} (h : UserInv s thr) (ha : s'.abs = s.abs) (hk : s'.kheld = s.kheld) :
    UserInv s' thr := by
  refine ⟨by rw [hk]; exact h.uPlain, ?_, ?_, ?_⟩
  · intro it hit hp; rw [hk]; rw [ha] at hit; exact h.uAbs it hit hp
  · intro t a k hta hp; rw [hk, ha]; exact h.uIns t a k hta hp
  · intro t a k hta hp; rw [hk, ha]; exact h.uRm t a k hta hp

/-- status of a thread that is neither waiting with an `ins` nor holding a removed item -/
theorem sameStatus_of_none {th x : Thread} (h1 : ∀ k, ¬ PendIns th k) (h2 : ∀ k, ¬ RmHold th k)
    (h3 : ∀ k, ¬ PendIns x k) (h4 : ∀ k, ¬ RmHold x k) : SameStatus th x :=
  ⟨fun k => ⟨fun h => absurd h (h3 k), fun h => absurd h (h1 k)⟩, fun k => ⟨fun h => absurd h (h4 k), fun h => absurd h (h2 k)⟩⟩

end ParsecVerif.HashTable
