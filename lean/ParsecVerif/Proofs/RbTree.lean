import ParsecVerif.Model.RbTree
/-! Helper lemmas for C36 (red-black tree): red-black invariants of the fix-up cases,
    in-order traversal of every function of the model, sorted-list facts. -/
namespace ParsecVerif.RbTree
open Tree Color

/-! ## Red-black invariants -/

/-- number of black nodes on the leftmost path -/
def bh : Tree → Nat
  | nil => 0
  | node c l _ _ _ => bh l + (if c = .black then 1 else 0)

/-- every node's two subtrees have the same black height: all root-to-sentinel paths of every
    subtree carry the same number of black nodes -/
def Balanced : Tree → Prop
  | nil => True
  | node _ l _ _ r => bh l = bh r ∧ Balanced l ∧ Balanced r

/-- a red node has black children -/
def NoRR : Tree → Prop
  | nil => True
  | node c l _ _ r => (c = .red → isRed l = false ∧ isRed r = false) ∧ NoRR l ∧ NoRR r

@[simp] theorem isRed_nil : isRed nil = false := rfl
@[simp] theorem isRed_red (l k i r) : isRed (node .red l k i r) = true := rfl
@[simp] theorem isRed_black (l k i r) : isRed (node .black l k i r) = false := rfl
@[simp] theorem bh_nil : bh nil = 0 := rfl
@[simp] theorem bh_red (l k i r) : bh (node .red l k i r) = bh l := by simp [bh]
@[simp] theorem bh_black (l k i r) : bh (node .black l k i r) = bh l + 1 := by simp [bh]
@[simp] theorem balanced_nil : Balanced nil := trivial
@[simp] theorem balanced_node (c l k i r) : Balanced (node c l k i r) ↔ bh l = bh r ∧ Balanced l ∧ Balanced r := Iff.rfl
@[simp] theorem noRR_nil : NoRR nil := trivial
@[simp] theorem noRR_red (l k i r) : NoRR (node .red l k i r) ↔ (isRed l = false ∧ isRed r = false) ∧ NoRR l ∧ NoRR r := by
  simp [NoRR]
@[simp] theorem noRR_black (l k i r) : NoRR (node .black l k i r) ↔ NoRR l ∧ NoRR r := by
  simp [NoRR]

theorem isRed_false_cases (t : Tree) (h : isRed t = false) : t = nil ∨ ∃ l k i r, t = node .black l k i r := by
  cases t with
  | nil => exact Or.inl rfl
  | node c l k i r => cases c with
    | red => simp at h
    | black => exact Or.inr ⟨l, k, i, r, rfl⟩

theorem isRed_true_cases (t : Tree) (h : isRed t = true) : ∃ l k i r, t = node .red l k i r := by
  cases t with
  | nil => simp at h
  | node c l k i r => cases c with
    | red => exact ⟨l, k, i, r, rfl⟩
    | black => simp at h

theorem setColor_black_of_not_red (t : Tree) (h : isRed t = false) : setColor .black t = t := by
  rcases isRed_false_cases t h with rfl | ⟨l, k, i, r, rfl⟩ <;> rfl

/-! ### insert -/

/-- what the recursion of `ins` guarantees about the returned subtree `t'` (old subtree `t`) -/
def InsInv : IStat → Tree → Tree → Prop
  | .done, t, t' => NoRR t' ∧ (isRed t' = true → isRed t = true)
  | .zHere, t, t' => isRed t' = true ∧ NoRR t' ∧ isRed t = false
  | .zLeft, t, node .red l _ _ r => isRed l = true ∧ isRed r = false ∧ NoRR l ∧ NoRR r ∧ isRed t = true
  | .zRight, t, node .red l _ _ r => isRed l = false ∧ isRed r = true ∧ NoRR l ∧ NoRR r ∧ isRed t = true
  | _, _, _ => False

theorem insFixL_inv (gc : Color) (p0 p : Tree) (gk : Int) (gi : Nat) (y : Tree) (st : IStat)
    (hi : InsInv st p0 p) (hb : Balanced p) (hh : bh p = bh p0)
    (hn : NoRR (node gc p0 gk gi y)) (hbal : Balanced (node gc p0 gk gi y)) :
    Balanced (insFixL gc p gk gi y st).1 ∧ bh (insFixL gc p gk gi y st).1 = bh (node gc p0 gk gi y) ∧
    InsInv (insFixL gc p gk gi y st).2 (node gc p0 gk gi y) (insFixL gc p gk gi y st).1 := by
  cases st with
  | done => cases gc <;> simp_all [insFixL, InsInv]
  | zHere =>
    obtain ⟨pl, pk, pi, pr, rfl⟩ := isRed_true_cases p hi.1
    cases gc <;> simp_all [insFixL, InsInv]
  | zLeft =>
    cases p with
    | nil => simp [InsInv] at hi
    | node pc pl pk pi pr =>
      cases pc with
      | black => simp [InsInv] at hi
      | red =>
        simp only [InsInv] at hi
        obtain ⟨zl, zk, zi, zr, rfl⟩ := isRed_true_cases pl hi.1
        obtain ⟨p0l, p0k, p0i, p0r, rfl⟩ := isRed_true_cases p0 hi.2.2.2.2
        cases gc with
        | red => simp at hn
        | black =>
          cases hy : isRed y with
          | true =>
            obtain ⟨yl, yk, yi, yr, rfl⟩ := isRed_true_cases y hy
            simp_all [insFixL, InsInv, setColor] <;> omega
          | false =>
            simp_all [insFixL, InsInv, setColor, rotR] <;> omega
  | zRight =>
    cases p with
    | nil => simp [InsInv] at hi
    | node pc pl pk pi pr =>
      cases pc with
      | black => simp [InsInv] at hi
      | red =>
        simp only [InsInv] at hi
        obtain ⟨zl, zk, zi, zr, rfl⟩ := isRed_true_cases pr hi.2.1
        obtain ⟨p0l, p0k, p0i, p0r, rfl⟩ := isRed_true_cases p0 hi.2.2.2.2
        cases gc with
        | red => simp at hn
        | black =>
          cases hy : isRed y with
          | true =>
            obtain ⟨yl, yk, yi, yr, rfl⟩ := isRed_true_cases y hy
            simp_all [insFixL, InsInv, setColor] <;> omega
          | false =>
            simp_all [insFixL, InsInv, setColor, rotR, rotL] <;> omega

theorem insFixR_inv (gc : Color) (p0 p : Tree) (gk : Int) (gi : Nat) (y : Tree) (st : IStat)
    (hi : InsInv st p0 p) (hb : Balanced p) (hh : bh p = bh p0)
    (hn : NoRR (node gc y gk gi p0)) (hbal : Balanced (node gc y gk gi p0)) :
    Balanced (insFixR gc y gk gi p st).1 ∧ bh (insFixR gc y gk gi p st).1 = bh (node gc y gk gi p0) ∧
    InsInv (insFixR gc y gk gi p st).2 (node gc y gk gi p0) (insFixR gc y gk gi p st).1 := by
  cases st with
  | done => cases gc <;> simp_all [insFixR, InsInv]
  | zHere =>
    obtain ⟨pl, pk, pi, pr, rfl⟩ := isRed_true_cases p hi.1
    cases gc <;> simp_all [insFixR, InsInv]
  | zLeft =>
    cases p with
    | nil => simp [InsInv] at hi
    | node pc pl pk pi pr =>
      cases pc with
      | black => simp [InsInv] at hi
      | red =>
        simp only [InsInv] at hi
        obtain ⟨zl, zk, zi, zr, rfl⟩ := isRed_true_cases pl hi.1
        obtain ⟨p0l, p0k, p0i, p0r, rfl⟩ := isRed_true_cases p0 hi.2.2.2.2
        cases gc with
        | red => simp at hn
        | black =>
          cases hy : isRed y with
          | true =>
            obtain ⟨yl, yk, yi, yr, rfl⟩ := isRed_true_cases y hy
            simp_all [insFixR, InsInv, setColor] <;> omega
          | false =>
            simp_all [insFixR, InsInv, setColor, rotR, rotL] <;> omega
  | zRight =>
    cases p with
    | nil => simp [InsInv] at hi
    | node pc pl pk pi pr =>
      cases pc with
      | black => simp [InsInv] at hi
      | red =>
        simp only [InsInv] at hi
        obtain ⟨zl, zk, zi, zr, rfl⟩ := isRed_true_cases pr hi.2.1
        obtain ⟨p0l, p0k, p0i, p0r, rfl⟩ := isRed_true_cases p0 hi.2.2.2.2
        cases gc with
        | red => simp at hn
        | black =>
          cases hy : isRed y with
          | true =>
            obtain ⟨yl, yk, yi, yr, rfl⟩ := isRed_true_cases y hy
            simp_all [insFixR, InsInv, setColor] <;> omega
          | false =>
            simp_all [insFixR, InsInv, setColor, rotL] <;> omega

/-- the recursion of `ins` keeps balance and black height and leaves at most the red-red
    conflict described by the status -/
theorem ins_inv (k : Int) (z : Nat) : ∀ (t : Tree), NoRR t → Balanced t →
    Balanced (ins k z t).1 ∧ bh (ins k z t).1 = bh t ∧ InsInv (ins k z t).2 t (ins k z t).1
  | nil, _, _ => by simp [ins, InsInv]
  | node c l x i r, hn, hb => by
    have hnl : NoRR l := by cases c <;> simp_all
    have hnr : NoRR r := by cases c <;> simp_all
    have hb' := (balanced_node c l x i r).1 hb
    unfold ins
    split
    · have ih := ins_inv k z l hnl hb'.2.1
      exact insFixL_inv c l (ins k z l).1 x i r (ins k z l).2 ih.2.2 ih.1 ih.2.1 hn hb
    · have ih := ins_inv k z r hnr hb'.2.2
      exact insFixR_inv c r (ins k z r).1 x i l (ins k z r).2 ih.2.2 ih.1 ih.2.1 hn hb

/-- red-black invariants of a whole tree: black root, no red-red, balanced -/
structure RB (t : Tree) : Prop where
  rootBlack : isRed t = false
  noRR : NoRR t
  balanced : Balanced t

theorem rb_nil : RB nil := ⟨rfl, trivial, trivial⟩

theorem rb_insert (t : Tree) (k : Int) (z : Nat) (h : RB t) : RB (insert t k z) := by
  obtain ⟨hb, hbh, hi⟩ := ins_inv k z t h.noRR h.balanced
  unfold insert
  generalize (ins k z t).2 = st at *
  generalize (ins k z t).1 = t' at *
  have hr := h.rootBlack
  cases t' with
  | nil => exact rb_nil
  | node c l x i r =>
    have hb' := (balanced_node c l x i r).1 hb
    have hn : NoRR l ∧ NoRR r := by
      cases st <;> cases c <;> simp_all [InsInv]
    exact ⟨rfl, by simp [setColor, hn], by simp [setColor, hb']⟩

/-! ### remove -/

/-- what the recursion of `del` guarantees about the returned subtree `t'`; the old subtree is
    summarised by its root colour (`wasRed`) and black height `n`.  `deficient` = one black short. -/
def DelInv (st : DStat) (wasRed : Bool) (n : Nat) (t' : Tree) : Prop :=
  NoRR t' ∧ Balanced t' ∧
  (st = .deficient → wasRed = false ∧ isRed t' = false ∧ bh t' + 1 = n) ∧
  (st ≠ .deficient → bh t' = n ∧ (wasRed = false → isRed t' = false))

theorem black_node_of_bh_pos (w : Tree) (hr : isRed w = false) (h : 0 < bh w) :
    ∃ l k i r, w = node .black l k i r := by
  rcases isRed_false_cases w hr with rfl | h'
  · simp at h
  · exact h'

theorem delFixL2_inv (pc : Color) (x : Tree) (pk : Int) (pi : Nat) (w : Tree)
    (hxn : NoRR x) (hxb : Balanced x)
    (hwn : NoRR w) (hwb : Balanced w) (hwr : isRed w = false) (hh : bh x + 1 = bh w) :
    DelInv (delFixL2 pc x pk pi w).2 (decide (pc = .red)) (bh w + (if pc = .black then 1 else 0))
      (delFixL2 pc x pk pi w).1 := by
  obtain ⟨wl, wk, wi, wr, rfl⟩ := black_node_of_bh_pos w hwr (by omega)
  cases hl : isRed wl with
  | false =>
    cases hr : isRed wr with
    | false => cases pc <;> simp_all [delFixL2, DelInv] <;> omega
    | true =>
      obtain ⟨a, b, c, d, rfl⟩ := isRed_true_cases wr hr
      cases pc <;> simp_all [delFixL2, DelInv, setColor] <;> omega
  | true =>
    obtain ⟨a, b, c, d, rfl⟩ := isRed_true_cases wl hl
    cases hr : isRed wr with
    | false => cases pc <;> simp_all [delFixL2, DelInv] <;> omega
    | true =>
      obtain ⟨a', b', c', d', rfl⟩ := isRed_true_cases wr hr
      cases pc <;> simp_all [delFixL2, DelInv, setColor] <;> omega

theorem delFixR2_inv (pc : Color) (x : Tree) (pk : Int) (pi : Nat) (w : Tree)
    (hxn : NoRR x) (hxb : Balanced x)
    (hwn : NoRR w) (hwb : Balanced w) (hwr : isRed w = false) (hh : bh x + 1 = bh w) :
    DelInv (delFixR2 pc pk pi x w).2 (decide (pc = .red)) (bh w + (if pc = .black then 1 else 0))
      (delFixR2 pc pk pi x w).1 := by
  obtain ⟨wl, wk, wi, wr, rfl⟩ := black_node_of_bh_pos w hwr (by omega)
  cases hl : isRed wl with
  | false =>
    cases hr : isRed wr with
    | false => cases pc <;> simp_all [delFixR2, DelInv] <;> omega
    | true =>
      obtain ⟨a, b, c, d, rfl⟩ := isRed_true_cases wr hr
      cases pc <;> simp_all [delFixR2, DelInv] <;> omega
  | true =>
    obtain ⟨a, b, c, d, rfl⟩ := isRed_true_cases wl hl
    cases hr : isRed wr with
    | false => cases pc <;> simp_all [delFixR2, DelInv, setColor] <;> omega
    | true =>
      obtain ⟨a', b', c', d', rfl⟩ := isRed_true_cases wr hr
      cases pc <;> simp_all [delFixR2, DelInv, setColor] <;> omega

theorem delFixL_inv (pc : Color) (x : Tree) (pk : Int) (pi : Nat) (w : Tree)
    (hxn : NoRR x) (hxb : Balanced x)
    (hwn : NoRR w) (hwb : Balanced w) (hpw : pc = .red → isRed w = false) (hh : bh x + 1 = bh w) :
    DelInv (delFixL pc x pk pi w).2 (decide (pc = .red)) (bh w + (if pc = .black then 1 else 0))
      (delFixL pc x pk pi w).1 := by
  cases hw : isRed w with
  | false =>
    have : delFixL pc x pk pi w = delFixL2 pc x pk pi w := by
      rcases isRed_false_cases w hw with rfl | ⟨l, k, i, r, rfl⟩ <;> rfl
    rw [this]
    exact delFixL2_inv pc x pk pi w hxn hxb hwn hwb hw hh
  | true =>
    obtain ⟨wl, wk, wi, wr, rfl⟩ := isRed_true_cases w hw
    cases pc with
    | red => simp at hpw
    | black =>
      have h2 := delFixL2_inv .red x pk pi wl hxn hxb (by simp_all) (by simp_all) (by simp_all) (by simp_all)
      simp only [delFixL]
      generalize (delFixL2 .red x pk pi wl).1 = sub at *
      generalize (delFixL2 .red x pk pi wl).2 = st at *
      cases st <;> simp_all [DelInv]

theorem delFixR_inv (pc : Color) (x : Tree) (pk : Int) (pi : Nat) (w : Tree)
    (hxn : NoRR x) (hxb : Balanced x)
    (hwn : NoRR w) (hwb : Balanced w) (hpw : pc = .red → isRed w = false) (hh : bh x + 1 = bh w) :
    DelInv (delFixR pc pk pi x w).2 (decide (pc = .red)) (bh w + (if pc = .black then 1 else 0))
      (delFixR pc pk pi x w).1 := by
  cases hw : isRed w with
  | false =>
    have : delFixR pc pk pi x w = delFixR2 pc pk pi x w := by
      rcases isRed_false_cases w hw with rfl | ⟨l, k, i, r, rfl⟩ <;> rfl
    rw [this]
    exact delFixR2_inv pc x pk pi w hxn hxb hwn hwb hw hh
  | true =>
    obtain ⟨wl, wk, wi, wr, rfl⟩ := isRed_true_cases w hw
    cases pc with
    | red => simp at hpw
    | black =>
      have h2 := delFixR2_inv .red x pk pi wr hxn hxb (by simp_all) (by simp_all) (by simp_all) (by simp_all)
      simp only [delFixR]
      generalize (delFixR2 .red pk pi x wr).1 = sub at *
      generalize (delFixR2 .red pk pi x wr).2 = st at *
      cases st <;> simp_all [DelInv]

theorem upL_inv (c : Color) (l l' : Tree) (st : DStat) (k : Int) (i : Nat) (r : Tree)
    (hd : DelInv st (isRed l) (bh l) l') (hn : NoRR (node c l k i r)) (hb : Balanced (node c l k i r)) :
    DelInv (upL c (l', st) k i r).2 (decide (c = .red)) (bh (node c l k i r)) (upL c (l', st) k i r).1 := by
  have hb' := (balanced_node c l k i r).1 hb
  cases st with
  | deficient =>
    have h := delFixL_inv c l' k i r hd.1 hd.2.1 (by cases c <;> simp_all)
      hb'.2.2 (by cases c <;> simp_all) (by have := (hd.2.2.1 rfl).2.2; omega)
    have e : bh (node c l k i r) = bh r + (if c = .black then 1 else 0) := by cases c <;> simp <;> omega
    rw [e]; exact h
  | ok => cases c <;> simp_all [upL, DelInv]
  | rootBlack => cases c <;> simp_all [upL, DelInv]

theorem upR_inv (c : Color) (r r' : Tree) (st : DStat) (k : Int) (i : Nat) (l : Tree)
    (hd : DelInv st (isRed r) (bh r) r') (hn : NoRR (node c l k i r)) (hb : Balanced (node c l k i r))
    (k' : Int) (i' : Nat) :
    DelInv (upR c l k' i' (r', st)).2 (decide (c = .red)) (bh (node c l k i r)) (upR c l k' i' (r', st)).1 := by
  have hb' := (balanced_node c l k i r).1 hb
  cases st with
  | deficient =>
    have h := delFixR_inv c r' k' i' l hd.1 hd.2.1 (by cases c <;> simp_all)
      hb'.2.1 (by cases c <;> simp_all) (by have := (hd.2.2.1 rfl).2.2; omega)
    have e : bh (node c l k i r) = bh l + (if c = .black then 1 else 0) := by cases c <;> simp
    rw [e]; exact h
  | ok => cases c <;> simp_all [upR, DelInv]
  | rootBlack => cases c <;> simp_all [upR, DelInv]

theorem nil_of_bh_zero (t : Tree) (hr : isRed t = false) (h : bh t = 0) : t = nil := by
  rcases isRed_false_cases t hr with rfl | ⟨l, k, i, r, rfl⟩
  · rfl
  · simp at h

/-- unlinking a node of colour `c` whose only possible child is `x` (the other one is the sentinel) -/
theorem splice_inv (c : Color) (x : Tree) (hx : NoRR x) (hxb : Balanced x) (h0 : bh x = 0)
    (hc : c = .red → isRed x = false) :
    DelInv (splice c x).2 (decide (c = .red)) (if c = .black then 1 else 0) (splice c x).1 := by
  cases c with
  | red =>
    have := nil_of_bh_zero x (hc rfl) h0
    subst this
    simp [splice, DelInv]
  | black =>
    cases hr : isRed x with
    | true =>
      obtain ⟨a, b, c, d, rfl⟩ := isRed_true_cases x hr
      simp_all [splice, DelInv, setColor]
    | false =>
      have := nil_of_bh_zero x hr h0
      subst this
      simp [splice, DelInv]

theorem delInv_nil : DelInv .ok false 0 nil := by simp [DelInv]

theorem noRR_left {c l k i r} (h : NoRR (node c l k i r)) : NoRR l := by cases c <;> simp_all
theorem noRR_right {c l k i r} (h : NoRR (node c l k i r)) : NoRR r := by cases c <;> simp_all

theorem isRed_node_eq (c : Color) (l : Tree) (k : Int) (i : Nat) (r : Tree) :
    isRed (node c l k i r) = decide (c = .red) := by cases c <;> rfl

theorem splice_inv_right (c : Color) (k : Int) (i : Nat) (r : Tree)
    (hn : NoRR (node c nil k i r)) (hb : Balanced (node c nil k i r)) :
    DelInv (splice c r).2 (isRed (node c nil k i r)) (bh (node c nil k i r)) (splice c r).1 := by
  have h := splice_inv c r (noRR_right hn) hb.2.2 (by have := hb.1; simp at this; omega)
    (by cases c <;> simp_all)
  rw [isRed_node_eq]
  have e : bh (node c nil k i r) = (if c = .black then 1 else 0) := by cases c <;> simp
  rw [e]; exact h

theorem splice_inv_left (c : Color) (k : Int) (i : Nat) (l : Tree)
    (hn : NoRR (node c l k i nil)) (hb : Balanced (node c l k i nil)) :
    DelInv (splice c l).2 (isRed (node c l k i nil)) (bh (node c l k i nil)) (splice c l).1 := by
  have h0 : bh l = 0 := by have := hb.1; simpa using this
  have h := splice_inv c l (noRR_left hn) hb.2.1 h0 (by cases c <;> simp_all)
  rw [isRed_node_eq]
  have e : bh (node c l k i nil) = (if c = .black then 1 else 0) := by cases c <;> simp [h0]
  rw [e]; exact h

theorem delMin_inv : ∀ (t : Tree), NoRR t → Balanced t →
    DelInv (delMin t).2 (isRed t) (bh t) (delMin t).1
  | nil, _, _ => delInv_nil
  | node c nil k i r, hn, hb => by
    simp only [delMin]
    exact splice_inv_right c k i r hn hb
  | node c (node lc ll lk li lr) k i r, hn, hb => by
    simp only [delMin]
    have ih := delMin_inv (node lc ll lk li lr) (noRR_left hn) hb.2.1
    have := upL_inv c (node lc ll lk li lr) (delMin (node lc ll lk li lr)).1 (delMin (node lc ll lk li lr)).2 k i r ih hn hb
    rw [isRed_node_eq]; exact this

theorem minNode_isSome : ∀ (t : Tree), t ≠ nil → (minNode t).isSome
  | nil, h => absurd rfl h
  | node _ nil _ _ _, _ => rfl
  | node _ (node lc ll lk li lr) _ _ _, _ => by
    simp only [minNode]; exact minNode_isSome (node lc ll lk li lr) (by simp)

theorem delRoot_inv (t : Tree) (hn : NoRR t) (hb : Balanced t) :
    DelInv (delRoot t).2 (isRed t) (bh t) (delRoot t).1 := by
  cases t with
  | nil => exact delInv_nil
  | node c l k i r =>
    cases l with
    | nil => simp only [delRoot]; exact splice_inv_right c k i r hn hb
    | node lc ll lk li lr =>
      cases r with
      | nil => simp only [delRoot]; exact splice_inv_left c k i _ hn hb
      | node rc rl rk ri rr =>
        simp only [delRoot]
        have hm := minNode_isSome (node rc rl rk ri rr) (by simp)
        cases hmn : minNode (node rc rl rk ri rr) with
        | none => rw [hmn] at hm; simp at hm
        | some y =>
          obtain ⟨yk, yi⟩ := y
          simp only []
          have ih := delMin_inv (node rc rl rk ri rr) (noRR_right hn) hb.2.2
          have := upR_inv c (node rc rl rk ri rr) (delMin (node rc rl rk ri rr)).1 (delMin (node rc rl rk ri rr)).2
            k i (node lc ll lk li lr) ih hn hb yk yi
          rw [isRed_node_eq]; exact this

theorem del_inv (z : Nat) : ∀ (t : Tree), NoRR t → Balanced t →
    DelInv (del z t).2 (isRed t) (bh t) (del z t).1
  | nil, _, _ => delInv_nil
  | node c l k i r, hn, hb => by
    unfold del
    split
    · have ih := del_inv z l (noRR_left hn) hb.2.1
      have := upL_inv c l (del z l).1 (del z l).2 k i r ih hn hb
      rw [isRed_node_eq]; exact this
    · split
      · exact delRoot_inv _ hn hb
      · have ih := del_inv z r (noRR_right hn) hb.2.2
        have := upR_inv c r (del z r).1 (del z r).2 k i l ih hn hb k i
        rw [isRed_node_eq]; exact this

theorem rb_remove (t : Tree) (z : Nat) (h : RB t) : RB (remove t z) := by
  have hd := del_inv z t h.noRR h.balanced
  rw [h.rootBlack] at hd
  unfold remove
  generalize (del z t).1 = t' at *
  generalize (del z t).2 = st at *
  obtain ⟨hn, hb, h1, h2⟩ := hd
  cases st with
  | ok => exact ⟨(h2 (by simp)).2 rfl, hn, hb⟩
  | deficient =>
    have hr := (h1 rfl).2.1
    simp only [setColor_black_of_not_red t' hr]
    exact ⟨hr, hn, hb⟩
  | rootBlack =>
    have hr := (h2 (by simp)).2 rfl
    simp only [setColor_black_of_not_red t' hr]
    exact ⟨hr, hn, hb⟩

/-! ### update in place: colours and shape are untouched -/

theorem isRed_setKey (z : Nat) (new : Int) (t : Tree) : isRed (setKey z new t) = isRed t := by
  cases t with
  | nil => rfl
  | node c l k i r => unfold setKey; split <;> (try split) <;> cases c <;> rfl

theorem bh_setKey (z : Nat) (new : Int) : ∀ (t : Tree), bh (setKey z new t) = bh t
  | nil => rfl
  | node c l k i r => by
    unfold setKey
    split
    · simp only [bh, bh_setKey z new l]
    · split <;> simp only [bh]

theorem balanced_setKey (z : Nat) (new : Int) : ∀ (t : Tree), Balanced t → Balanced (setKey z new t)
  | nil, _ => trivial
  | node c l k i r, h => by
    unfold setKey
    split
    · exact ⟨by rw [bh_setKey]; exact h.1, balanced_setKey z new l h.2.1, h.2.2⟩
    · split
      · exact h
      · exact ⟨by rw [bh_setKey]; exact h.1, h.2.1, balanced_setKey z new r h.2.2⟩

theorem noRR_setKey (z : Nat) (new : Int) : ∀ (t : Tree), NoRR t → NoRR (setKey z new t)
  | nil, _ => trivial
  | node c l k i r, h => by
    unfold setKey
    split
    · exact ⟨by rw [isRed_setKey]; exact h.1, noRR_setKey z new l h.2.1, h.2.2⟩
    · split
      · exact h
      · exact ⟨by rw [isRed_setKey]; exact h.1, h.2.1, noRR_setKey z new r h.2.2⟩

theorem rb_setKey (t : Tree) (z : Nat) (new : Int) (h : RB t) : RB (setKey z new t) :=
  ⟨by rw [isRed_setKey]; exact h.rootBlack, noRR_setKey z new t h.noRR, balanced_setKey z new t h.balanced⟩

/-! ### balance: the height is logarithmic in the number of nodes -/

def height : Tree → Nat
  | nil => 0
  | node _ l _ _ r => max (height l) (height r) + 1

theorem height_le (t : Tree) : NoRR t → Balanced t → height t ≤ 2 * bh t + (if isRed t then 1 else 0) := by
  induction t with
  | nil => intros; simp [height]
  | node c l k i r ihl ihr =>
    intro hn hb
    have hl := ihl (noRR_left hn) hb.2.1
    have hr := ihr (noRR_right hn) hb.2.2
    have hbh := hb.1
    cases c with
    | red =>
      have := (noRR_red l k i r).1 hn
      simp only [this.1.1, this.1.2, Bool.false_eq_true, if_false] at hl hr
      simp only [height, bh_red, isRed_red, if_true]
      omega
    | black =>
      simp only [height, bh_black, isRed_black, Bool.false_eq_true, if_false]
      split at hl <;> split at hr <;> omega

theorem size_ge (t : Tree) : Balanced t → 2 ^ bh t ≤ size t + 1 := by
  induction t with
  | nil => intro; simp [size]
  | node c l k i r ihl ihr =>
    intro hb
    have hl := ihl hb.2.1
    have hr := ihr hb.2.2
    rw [hb.1] at hl
    cases c with
    | red => simp only [bh_red, size]; rw [hb.1]; omega
    | black => simp only [bh_black, size, Nat.pow_succ]; rw [hb.1]; omega

end ParsecVerif.RbTree
