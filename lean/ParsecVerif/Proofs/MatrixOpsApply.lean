import ParsecVerif.Model.MatrixOps
/-!
  Helper lemmas for C22, part 1: JDF ranges and the three task spaces of apply.jdf.
-/
namespace ParsecVerif.MatrixOps

theorem mem_irangeAux (lo : Int) (k : Nat) (x : Int) : x ∈ irangeAux lo k ↔ lo ≤ x ∧ x < lo + k := by
  induction k generalizing lo with
  | zero =>
    simp only [irangeAux, List.not_mem_nil, false_iff]
    omega
  | succ k ih =>
    simp only [irangeAux, List.mem_cons, ih]
    omega

theorem mem_irange (lo hi x : Int) : x ∈ irange lo hi ↔ lo ≤ x ∧ x ≤ hi := by
  unfold irange
  rw [mem_irangeAux]
  omega

theorem pairwise_irangeAux (lo : Int) (k : Nat) : (irangeAux lo k).Pairwise (· < ·) := by
  induction k generalizing lo with
  | zero => simp [irangeAux]
  | succ k ih =>
    simp only [irangeAux, List.pairwise_cons]
    refine ⟨?_, ih (lo + 1)⟩
    intro a ha
    rw [mem_irangeAux] at ha
    omega

theorem pairwise_irange (lo hi : Int) : (irange lo hi).Pairwise (· < ·) := pairwise_irangeAux _ _

/-- pairs `(m, n)` with `m` from a strictly increasing list and `n` from strictly increasing lists
    are pairwise distinct -/
theorem nodup_pairs (l : List Int) (g : Int → List Int) (hl : l.Pairwise (· < ·))
    (hg : ∀ m, (g m).Pairwise (· < ·)) :
    (l.flatMap fun m => (g m).map fun n => (m, n)).Nodup := by
  unfold List.Nodup
  rw [List.pairwise_flatMap]
  constructor
  · intro m _
    rw [List.pairwise_map]
    exact (hg m).imp (fun {a b} h heq => absurd (Prod.mk.inj heq).2 (Int.ne_of_lt h))
  · refine hl.imp ?_
    intro a b h x hx y hy heq
    simp only [List.mem_map] at hx hy
    obtain ⟨x', _, rfl⟩ := hx
    obtain ⟨y', _, rfl⟩ := hy
    exact absurd (Prod.mk.inj heq).1 (Int.ne_of_lt h)

theorem mem_pairs (l : List Int) (g : Int → List Int) (m n : Int) :
    (m, n) ∈ (l.flatMap fun a => (g a).map fun b => (a, b)) ↔ m ∈ l ∧ n ∈ g m := by
  simp only [List.mem_flatMap, List.mem_map, Prod.mk.injEq]
  constructor
  · rintro ⟨a, ha, b, hb, rfl, rfl⟩
    exact ⟨ha, hb⟩
  · rintro ⟨h1, h2⟩
    exact ⟨m, h1, n, h2, rfl, rfl⟩

theorem mem_applyL (mt nt uplo m n : Int) :
    (m, n) ∈ applyL mt nt uplo ↔ uplo ≠ UPPER ∧ 1 ≤ m ∧ m < mt ∧ 0 ≤ n ∧ n < m ∧ n < nt := by
  unfold applyL
  rw [mem_pairs _ (fun m => irange 0 (if m < nt then m - 1 else nt - 1))]
  simp only [mem_irange]
  by_cases hu : uplo = UPPER
  · rw [if_pos hu]; by_cases hm : m < nt
    · rw [if_pos hm]; omega
    · rw [if_neg hm]; omega
  · rw [if_neg hu]; by_cases hm : m < nt
    · rw [if_pos hm]; omega
    · rw [if_neg hm]; omega

theorem mem_applyU (mt nt uplo m n : Int) :
    (m, n) ∈ applyU mt nt uplo ↔ uplo ≠ LOWER ∧ 0 ≤ m ∧ m < mt ∧ m < n ∧ n < nt := by
  unfold applyU
  rw [mem_pairs _ (fun m => irange (m + 1) (if uplo = LOWER then 0 else nt - 1))]
  simp only [mem_irange]
  by_cases hu : uplo = LOWER
  · rw [if_pos hu]; omega
  · rw [if_neg hu]; omega

theorem mem_applyDiag (mt nt m n : Int) :
    (m, n) ∈ applyDiag mt nt ↔ m = n ∧ 0 ≤ m ∧ m < mt ∧ m < nt := by
  unfold applyDiag
  simp only [List.mem_map, mem_irange, Prod.mk.injEq]
  constructor
  · rintro ⟨k, hk, rfl, rfl⟩
    by_cases h : mt < nt
    · rw [if_pos h] at hk; omega
    · rw [if_neg h] at hk; omega
  · rintro ⟨rfl, h0, h1, h2⟩
    refine ⟨m, ?_, rfl, rfl⟩
    by_cases h : mt < nt
    · rw [if_pos h]; omega
    · rw [if_neg h]; omega

theorem nodup_applyL (mt nt uplo : Int) : (applyL mt nt uplo).Nodup :=
  nodup_pairs _ _ (pairwise_irange _ _) (fun _ => pairwise_irange _ _)

theorem nodup_applyU (mt nt uplo : Int) : (applyU mt nt uplo).Nodup :=
  nodup_pairs _ _ (pairwise_irange _ _) (fun _ => pairwise_irange _ _)

theorem nodup_applyDiag (mt nt : Int) : (applyDiag mt nt).Nodup := by
  unfold applyDiag List.Nodup
  rw [List.pairwise_map]
  exact (pairwise_irange _ _).imp (fun {a b} h heq => absurd (Prod.mk.inj heq).1 (Int.ne_of_lt h))

theorem upper_ne_lower : UPPER ≠ LOWER := by decide

theorem mem_applyTiles (mt nt uplo m n : Int) :
    (m, n) ∈ applyTiles mt nt uplo ↔ inRegion mt nt uplo m n := by
  unfold applyTiles inRegion
  simp only [List.mem_append, mem_applyL, mem_applyU, mem_applyDiag]
  have := upper_ne_lower
  omega

theorem nodup_applyTiles (mt nt uplo : Int) : (applyTiles mt nt uplo).Nodup := by
  unfold applyTiles
  rw [List.nodup_append]
  refine ⟨?_, nodup_applyDiag mt nt, ?_⟩
  · rw [List.nodup_append]
    refine ⟨nodup_applyL mt nt uplo, nodup_applyU mt nt uplo, ?_⟩
    rintro ⟨m, n⟩ ha ⟨m', n'⟩ hb heq
    rw [mem_applyL] at ha
    rw [mem_applyU] at hb
    have h1 := (Prod.mk.inj heq).1
    have h2 := (Prod.mk.inj heq).2
    omega
  · rintro ⟨m, n⟩ ha ⟨m', n'⟩ hb heq
    rw [List.mem_append, mem_applyL, mem_applyU] at ha
    rw [mem_applyDiag] at hb
    have h1 := (Prod.mk.inj heq).1
    have h2 := (Prod.mk.inj heq).2
    omega

theorem applyCalls_tiles (mt nt uplo : Int) :
    (applyCalls mt nt uplo).map (fun c => (c.1, c.2.1)) = applyTiles mt nt uplo := by
  unfold applyCalls applyTiles
  simp only [List.map_append, List.map_map]
  have e : ∀ (u : Int) (l : List (Int × Int)),
      List.map ((fun c : Int × Int × Int => (c.1, c.2.1)) ∘ fun t : Int × Int => (t.1, t.2, u)) l = l := by
    intro u l
    induction l with
    | nil => rfl
    | cons a t ih => simp only [List.map_cons, ih, Function.comp]
  rw [e, e, e]

end ParsecVerif.MatrixOps
