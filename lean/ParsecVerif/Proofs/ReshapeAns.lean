import ParsecVerif.Proofs.Reshape
import ParsecVerif.Proofs.FutureDCMutex
/-!
  C18: a non-NULL answer of `get_or_trigger` is the tracked value of a COMPLETED future (so the copy it names exists).
  Invariant of C29's machine stated against a growing set of "backed" values (the heap keys of the C18 heap machine).
-/
namespace ParsecVerif.Reshape
open ParsecVerif.Future ParsecVerif.FutureDC

/-- `v` is NULL or the tracked value of a completed future of `futs` -/
def Bk (futs : List Fut) (v : Nat) : Prop := v = 0 ∨ ∃ fu ∈ futs, fu.compl = true ∧ fu.data = v

/-- every value thread `th'` carries (an answer in `res`, or the value it is about to return from the scan) was already
    carried by `th`, or is backed by `futs` -/
def NewOk (futs : List Fut) (th th' : DThread) : Prop :=
  (∀ r v, (DOp.trig r, v) ∈ th'.res → (DOp.trig r, v) ∈ th.res ∨ (∃ r0, th.pc = .punlockRet v r0) ∨ Bk futs v) ∧
  (∀ v r, th'.pc = .punlockRet v r → Bk futs v)

theorem newOk_pc (futs : List Fut) (th : DThread) (pc' : DPc) (h : ∀ v r, pc' = .punlockRet v r → Bk futs v) :
    NewOk futs th { th with pc := pc' } :=
  ⟨fun _ _ hm => Or.inl hm, h⟩

theorem newOk_fin (futs : List Fut) (th : DThread) (op : DOp) (v : Nat)
    (hv : ∀ r, op = .trig r → (∃ r0, th.pc = .punlockRet v r0) ∨ Bk futs v) : NewOk futs th (dfin th op v) := by
  refine ⟨?_, ?_⟩
  · intro r w hm
    simp only [dfin, List.mem_append, List.mem_singleton, Prod.mk.injEq] at hm
    rcases hm with hm | ⟨ho, hw⟩
    · exact Or.inl hm
    · subst hw
      rcases hv r ho.symm with h | h
      · exact Or.inr (Or.inl h)
      · exact Or.inr (Or.inr h)
  · intro w r hp
    rcases FutureDC.dfin_pc th op v with h | h <;> rw [h] at hp <;> cases hp

theorem bk_readFut (s : DState) (f : Nat) : Bk s.futs (readFut s f) := by
  unfold readFut
  cases hf : s.futs[f]? with
  | none => exact Or.inl rfl
  | some fu =>
    simp only []
    by_cases hc : fu.compl = true
    · rw [if_pos hc]; exact Or.inr ⟨fu, List.mem_of_getElem? hf, hc, rfl⟩
    · rw [if_neg hc]; exact Or.inl rfl

theorem scanList_ret (cls : Nat → Nat) (r : Nat) : ∀ (l : List Fut) (i : Nat) (v : Nat), scanList cls r l i = .ret v →
    v = 0 ∨ ∃ fu ∈ l, fu.compl = true ∧ fu.data = v
  | [], _, _, h => by simp [scanList] at h
  | fu :: rest, i, v, h => by
    unfold scanList at h
    by_cases hc : fu.compl = false
    · rw [if_pos hc] at h; cases h
    · rw [if_neg hc] at h
      have hc' : fu.compl = true := by cases hh : fu.compl <;> simp_all
      by_cases hm : fu.data = 0 ∨ cls fu.shape = cls r
      · rw [if_pos hm] at h
        injection h with h
        exact Or.inr ⟨fu, List.mem_cons_self, hc', h⟩
      · rw [if_neg hm] at h
        rcases scanList_ret cls r rest (i + 1) v h with h0 | ⟨fu', hfu', h1, h2⟩
        · exact Or.inl h0
        · exact Or.inr ⟨fu', List.mem_cons_of_mem _ hfu', h1, h2⟩


theorem bk_append (futs l : List Fut) (v : Nat) (h : Bk futs v) : Bk (futs ++ l) v := by
  rcases h with h | ⟨fu, hfu, h1, h2⟩
  · exact Or.inl h
  · exact Or.inr ⟨fu, List.mem_append_left _ hfu, h1, h2⟩

theorem newOk_futs_append (futs l : List Fut) (th th' : DThread) (h : NewOk futs th th') : NewOk (futs ++ l) th th' :=
  ⟨fun r v hm => by
    rcases h.1 r v hm with h1 | h1 | h1
    · exact Or.inl h1
    · exact Or.inr (Or.inl h1)
    · exact Or.inr (Or.inr (bk_append _ _ _ h1)),
   fun v r hp => bk_append _ _ _ (h.2 v r hp)⟩

theorem readFut_modFut (s : DState) (f f' : Nat) (g : Fut → Fut) (hg : ∀ fu, (g fu).compl = fu.compl ∧ (g fu).data = fu.data) :
    readFut (modFut s f g) f' = readFut s f' := by
  unfold modFut
  cases hf : s.futs[f]? with
  | none => rfl
  | some fu =>
    simp only [readFut]
    by_cases he : f = f'
    · subst he
      have hlt : f < s.futs.length := (List.getElem?_eq_some_iff.1 hf).1
      rw [List.getElem?_set_self hlt, hf]
      simp only [(hg fu).1, (hg fu).2]
    · rw [List.getElem?_set_ne he]

/-- threads after replacing thread `t` of a state that has the same threads as `s` -/
theorem threads_setThr {s s0 : DState} (t : Nat) (th th' : DThread) (hthr : s0.thr = s.thr) (hm : th ∈ s.thr)
    (hn : NewOk s0.futs th th') :
    ∀ x ∈ (setThr s0 t th').thr, x ∈ s.thr ∨ ∃ th0 ∈ s.thr, NewOk (setThr s0 t th').futs th0 x := by
  intro x hx
  have hx' : x ∈ s0.thr.set t th' := hx
  rw [hthr] at hx'
  rcases List.mem_or_eq_of_mem_set hx' with h | h
  · exact Or.inl h
  · subst h; exact Or.inr ⟨th, hm, hn⟩

theorem threads_applyScan (cfg : Cfg) {s s0 : DState} (t : Nat) (th : DThread) (r i : Nat) (hthr : s0.thr = s.thr) (hm : th ∈ s.thr) :
    ∀ x ∈ (applyScan cfg s0 t th r i).thr, x ∈ s.thr ∨ ∃ th0 ∈ s.thr, NewOk (applyScan cfg s0 t th r i).futs th0 x := by
  unfold applyScan
  split
  · exact threads_setThr t th _ hthr hm (newOk_pc _ _ _ (fun v r hp => by cases hp))
  · next v hscan =>
    refine threads_setThr t th _ hthr hm (newOk_pc _ _ _ ?_)
    intro w r' hp
    injection hp with hw _
    subst hw
    rcases scanList_ret cfg.cls r _ _ _ hscan with h0 | ⟨fu, hfu, h1, h2⟩
    · exact Or.inl h0
    · exact Or.inr ⟨fu, List.mem_of_mem_drop hfu, h1, h2⟩
  · intro x hx
    have hx' : x ∈ s0.thr.set t { th with pc := .punlockNew s0.futs.length r } := hx
    rw [hthr] at hx'
    rcases List.mem_or_eq_of_mem_set hx' with h | h
    · exact Or.inl h
    · subst h
      exact Or.inr ⟨th, hm, newOk_pc _ _ _ (fun v r hp => by cases hp)⟩

theorem threads_enterTop {s s0 : DState} (t : Nat) (th : DThread) (f r : Nat) (hthr : s0.thr = s.thr) (hm : th ∈ s.thr) :
    ∀ x ∈ (enterTop s0 t th f r).thr, x ∈ s.thr ∨ ∃ th0 ∈ s.thr, NewOk (enterTop s0 t th f r).futs th0 x := by
  unfold enterTop
  split
  · exact threads_setThr t th _ hthr hm (newOk_fin _ _ _ _ (fun _ _ => Or.inr (bk_readFut s0 f)))
  · exact threads_setThr t th _ hthr hm (newOk_pc _ _ _ (fun v r hp => by cases hp))

theorem unlockF_keeps (fu : Fut) : (unlockF fu).compl = fu.compl ∧ (unlockF fu).data = fu.data := ⟨rfl, rfl⟩

/-- **every value carried by a thread after a step was carried before, or is NULL, or is the tracked value of a
    future that is COMPLETED after the step** -/
theorem dstep_threads (cfg : Cfg) (s : DState) (t : Nat) :
    ∀ x ∈ (dstep cfg s t).thr, x ∈ s.thr ∨ ∃ th ∈ s.thr, NewOk (dstep cfg s t).futs th x := by
  unfold dstep
  cases hpc : s.thr[t]? with
  | none => exact fun x hx => Or.inl hx
  | some th =>
    have hm : th ∈ s.thr := List.mem_of_getElem? hpc
    simp only []
    cases hp : th.pc with
    | idle =>
      simp only []
      unfold didle
      split
      · exact threads_setThr t th _ rfl hm (newOk_pc _ _ _ (fun v r hp => by cases hp))
      · next r rest htd =>
        split
        · exact threads_enterTop t th 0 r rfl hm
        · exact threads_setThr t th _ rfl hm (newOk_pc _ _ _ (fun v r hp => by cases hp))
      · next rest htd =>
        split
        · exact threads_setThr t th _ rfl hm (newOk_fin _ _ _ _ (fun r ho => by cases ho))
        · exact threads_setThr t th _ (by rw [modFut_thr]) hm (newOk_fin _ _ _ _ (fun r ho => by cases ho))
    | lockTop f r =>
      simp only []
      split
      · exact fun x hx => Or.inl hx
      · exact threads_setThr t th _ (trigger_thr cfg s f) hm (newOk_pc _ _ _ (fun v r hp => by cases hp))
    | unlockTop f r =>
      simp only []
      refine threads_setThr t th _ (modFut_thr s f unlockF) hm (newOk_fin _ _ _ _ (fun _ _ => Or.inr ?_))
      rw [← readFut_modFut s f f unlockF unlockF_keeps]
      exact bk_readFut _ f
    | plock r =>
      simp only []
      split
      · exact fun x hx => Or.inl hx
      · exact threads_applyScan cfg t th r 0 (modFut_thr s 0 lockF) hm
    | lockScan i r =>
      simp only []
      split
      · exact fun x hx => Or.inl hx
      · exact threads_setThr t th _ (trigger_thr cfg s (i + 1)) hm (newOk_pc _ _ _ (fun v r hp => by cases hp))
    | unlockScan i r =>
      simp only []
      split
      · exact fun x hx => Or.inl hx
      · split
        · refine threads_setThr t th _ (modFut_thr s (i + 1) unlockF) hm (newOk_pc _ _ _ ?_)
          intro v r' hp
          injection hp with hv _
          rw [← hv, ← readFut_modFut s (i + 1) (i + 1) unlockF unlockF_keeps]
          exact bk_readFut _ (i + 1)
        · exact threads_applyScan cfg t th r (i + 1) (modFut_thr s (i + 1) unlockF) hm
    | punlockRet v r =>
      simp only []
      exact threads_setThr t th _ (modFut_thr s 0 unlockF) hm (newOk_fin _ _ _ _ (fun _ _ => Or.inl ⟨r, hp⟩))
    | punlockNew j r =>
      simp only []
      exact threads_enterTop t th j r (modFut_thr s 0 unlockF) hm
    | done => exact fun x hx => Or.inl hx


/-- every value a thread carries names a copy of the heap -/
def AnsInv (s : HState) : Prop :=
  ∀ th ∈ s.d.thr, (∀ r v, (DOp.trig r, v) ∈ th.res → v = 0 ∨ hasKey s.heap v = true) ∧
    (∀ v r, th.pc = .punlockRet v r → v = 0 ∨ hasKey s.heap v = true)

theorem ansInv_step (cfg : Cfg) (env : Env) (s : HState) (t : Nat) (hI : HInv cfg env s) (h : AnsInv s) :
    AnsInv (hstep cfg env s t) := by
  have hI' := hinv_step cfg env s t hI
  have hpre := hstep_prefix cfg env s t
  have hbk : ∀ v, Bk (hstep cfg env s t).d.futs v → v = 0 ∨ hasKey (hstep cfg env s t).heap v = true := by
    intro v hv
    rcases hv with h0 | ⟨fu, hfu, hc, hd⟩
    · exact Or.inl h0
    · exact Or.inr (hd ▸ hI'.compl fu hfu hc)
  have hold : ∀ v, (v = 0 ∨ hasKey s.heap v = true) → v = 0 ∨ hasKey (hstep cfg env s t).heap v = true := by
    intro v hv
    rcases hv with h0 | hk
    · exact Or.inl h0
    · exact Or.inr (hasKey_of_prefix hpre v hk)
  intro th' hth'
  rcases dstep_threads cfg s.d t th' hth' with hm | ⟨th, hm, hn⟩
  · exact ⟨fun r v hr => hold v ((h th' hm).1 r v hr), fun v r hp => hold v ((h th' hm).2 v r hp)⟩
  · refine ⟨?_, fun v r hp => hbk v (hn.2 v r hp)⟩
    intro r v hr
    rcases hn.1 r v hr with h1 | ⟨r0, h1⟩ | h1
    · exact hold v ((h th hm).1 r v h1)
    · exact hold v ((h th hm).2 v r0 h1)
    · exact hbk v h1

theorem ansInv_run (cfg : Cfg) (env : Env) (b : Nat) (pre : Bool) (progs : List (List DOp)) (sched : List Nat) :
    AnsInv (hrun cfg env b pre progs sched) := by
  unfold hrun
  have : ∀ (l : List Nat) (s : HState), HInv cfg env s → AnsInv s → AnsInv (l.foldl (hstep cfg env) s) := by
    intro l; induction l with
    | nil => intro s _ h; exact h
    | cons t ts ih => intro s hI h; exact ih _ (hinv_step cfg env s t hI) (ansInv_step cfg env s t hI h)
  refine this _ _ (hinv_init cfg env b pre progs) ?_
  intro th hth
  simp only [hinit, dinit, List.mem_map] at hth
  obtain ⟨p, _, rfl⟩ := hth
  exact ⟨fun r v hr => by simp at hr, fun v r hp => by cases hp⟩

end ParsecVerif.Reshape
