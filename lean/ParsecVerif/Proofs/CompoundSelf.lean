import ParsecVerif.Proofs.CompoundChg
/-! What a transition of the context machine can do to the descriptor of a compound object (a taskpool
    without tasks whose pending count is only touched by its startup hook and its members' callbacks). -/
namespace ParsecVerif.Compound
open ParsecVerif.Context

def SelfSt (st : TpSt) : Prop := st = .notAdded ∨ st = .adding ∨ st = .added ∨ st = .inCbN ∨ st = .done

def SelfRel (ts ts' : Tp) : Prop :=
  ts'.total = 0 ∧ ts'.early = false ∧ ts'.pend = ts.pend ∧ ts'.cbAt = ts.cbAt ∧ ts'.cbs = ts.cbs ∧ SelfSt ts'.st ∧
  (ts'.addAt = ts.addAt ∨ (ts.st = .adding ∧ ts'.st = .added)) ∧
  ((ts'.st = ts.st ∧ (ts'.ready = ts.ready ∨ ts'.ready = true)) ∨ (ts.st = .notAdded ∧ ts'.st = .adding) ∨
   (ts.st = .adding ∧ ts'.st = .added) ∨ (ts.st = .inCbN ∧ ts'.st = .done))

theorem selfRel_refl {ts : Tp} (h0 : ts.total = 0) (he : ts.early = false) (hst : SelfSt ts.st) : SelfRel ts ts :=
  ⟨h0, he, rfl, rfl, rfl, hst, Or.inl rfl, Or.inl ⟨rfl, Or.inl rfl⟩⟩

theorem step?_self {s s' : St} {tr : Tr} {q : Nat} {ts : Tp} (hI : Inv s) (hs : step? s tr = some s')
    (hts : s.tps[q]? = some ts) (h0 : ts.total = 0) (he : ts.early = false) (hst : SelfSt ts.st)
    (hd : ∀ t, tr ≠ .detect t q) (hi : ∀ t, tr ≠ .insert t q)
    (hr : ∀ t n, tr = .startupReady t n → s.subs[t]? ≠ some (.startup q))
    (ha : ∀ t, tr ≠ .actionDone t q) :
    ∃ ts' : Tp, s'.tps[q]? = some ts' ∧ SelfRel ts ts' := by
  have hrefl := selfRel_refl h0 he hst
  have other : ∀ (p : Nat) (x : Tp), p ≠ q → ∃ ts' : Tp, (s.tps.set p x)[q]? = some ts' ∧ SelfRel ts ts' := by
    intro p x hne
    exact ⟨ts, by rw [List.getElem?_set_ne hne]; exact hts, hrefl⟩
  have hql : q < s.tps.length := (List.getElem?_eq_some_iff.1 hts).1
  cases tr with
  | startBarrier => simp only [step?] at hs; split at hs <;> cases hs; exact ⟨ts, hts, hrefl⟩
  | startToken => simp only [step?] at hs; split at hs <;> cases hs; exact ⟨ts, hts, hrefl⟩
  | waitBegin => simp only [step?] at hs; split at hs <;> cases hs; exact ⟨ts, hts, hrefl⟩
  | sawZero => simp only [step?] at hs; split at hs <;> cases hs; exact ⟨ts, hts, hrefl⟩
  | leave w => simp only [step?] at hs; split at hs <;> cases hs; exact ⟨ts, hts, hrefl⟩
  | barrier => simp only [step?] at hs; split at hs <;> cases hs; exact ⟨ts, hts, hrefl⟩
  | waitReturn => simp only [step?] at hs; split at hs <;> cases hs; exact ⟨ts, hts, hrefl⟩
  | tpWaitBegin p =>
    simp only [step?] at hs; split at hs
    · split at hs <;> cases hs; exact ⟨ts, hts, hrefl⟩
    · cases hs
  | tpWaitReturn =>
    simp only [step?] at hs; split at hs
    · split at hs
      · split at hs <;> cases hs; exact ⟨ts, hts, hrefl⟩
      · cases hs
    · cases hs
  | addReturn t => simp only [step?] at hs; split at hs <;> cases hs; exact ⟨ts, hts, hrefl⟩
  | taskBegin t p =>
    simp only [step?] at hs; split at hs
    · split at hs
      · rename_i tp htp hg; cases hs
        by_cases hpq : p = q
        · subst hpq; rw [hts] at htp; cases htp; omega
        · exact other p _ hpq
      · cases hs
    · cases hs
  | taskEnd t =>
    simp only [step?] at hs; split at hs
    · split at hs
      · rename_i p hbt _ _ tp htp; cases hs
        by_cases hpq : p = q
        · subst hpq; rw [hts] at htp; cases htp
          have := hI.taskCnt p ts hts
          have := count_pos_of_get hbt
          omega
        · exact other p _ hpq
      · cases hs
    · cases hs
  | detect t p =>
    simp only [step?] at hs; split at hs
    · split at hs
      · rename_i tp htp hg; cases hs
        by_cases hpq : p = q
        · subst hpq; exact absurd rfl (hd t)
        · exact other p _ hpq
      · cases hs
    · cases hs
  | dec t =>
    simp only [step?] at hs; split at hs
    · split at hs
      · rename_i p hbt _ _ tp htp
        split at hs
        case isFalse => cases hs
        cases hs
        by_cases hpq : p = q
        · subst hpq; rw [hts] at htp; cases htp
          obtain ⟨x, hx, hxs, _⟩ := hI.cbFwd t p hbt
          rw [hts] at hx; cases hx
          rcases hst with e | e | e | e | e <;> rw [hxs] at e <;> cases e
        · exact other p _ hpq
      · cases hs
    · cases hs
  | addCall t p =>
    simp only [step?] at hs; split at hs
    · split at hs
      · rename_i tp htp hg; cases hs
        by_cases hpq : p = q
        · subst hpq; rw [hts] at htp; cases htp
          exact ⟨_, List.getElem?_set_self hql, h0, he, rfl, rfl, rfl, Or.inr (Or.inl rfl), Or.inl rfl, Or.inr (Or.inl ⟨hg.2, rfl⟩)⟩
        · exact other p _ hpq
      · cases hs
    · cases hs
  | startupAdd t p =>
    simp only [step?] at hs; split at hs
    · split at hs
      · rename_i _ _ _ tp _ htp hg; cases hs
        by_cases hpq : p = q
        · subst hpq; rw [hts] at htp; cases htp
          exact ⟨_, List.getElem?_set_self hql, h0, he, rfl, rfl, rfl, Or.inr (Or.inl rfl), Or.inl rfl, Or.inr (Or.inl ⟨hg, rfl⟩)⟩
        · exact other p _ hpq
      · cases hs
    · cases hs
  | earlyCb t =>
    simp only [step?] at hs; split at hs
    · split at hs
      · split at hs
        · rename_i p _ _ tp htp hg; cases hs
          by_cases hpq : p = q
          · subst hpq; rw [hts] at htp; cases htp; rw [he] at hg; cases hg.2
          · exact other p _ hpq
        · cases hs
      · cases hs
    · cases hs
  | earlyDec t =>
    simp only [step?] at hs; split at hs
    · split at hs
      · split at hs
        · rename_i p _ _ tp htp hg; cases hs
          by_cases hpq : p = q
          · subst hpq; rw [hts] at htp; cases htp
            rcases hst with e | e | e | e | e <;> rw [hg] at e <;> cases e
          · exact other p _ hpq
        · cases hs
      · cases hs
    · cases hs
  | addInc t =>
    simp only [step?] at hs; split at hs
    · split at hs
      · split at hs
        · rename_i p _ _ tp htp hg; cases hs
          by_cases hpq : p = q
          · subst hpq; rw [hts] at htp; cases htp
            exact ⟨_, List.getElem?_set_self hql, h0, he, rfl, rfl, rfl, Or.inr (Or.inr (Or.inl rfl)), Or.inr ⟨hg.1, rfl⟩, Or.inr (Or.inr (Or.inl ⟨hg.1, rfl⟩))⟩
          · exact other p _ hpq
        · split at hs
          · rename_i p _ _ tp htp _ hg; cases hs
            by_cases hpq : p = q
            · subst hpq; rw [hts] at htp; cases htp
              rcases hst with e | e | e | e | e <;> rw [hg] at e <;> cases e
            · exact other p _ hpq
          · cases hs
      · cases hs
    · cases hs
  | arm p =>
    simp only [step?] at hs; split at hs
    · split at hs
      · rename_i tp htp hg; cases hs
        by_cases hpq : p = q
        · subst hpq; rw [hts] at htp; cases htp
          exact ⟨_, List.getElem?_set_self hql, h0, he, rfl, rfl, rfl, hst, Or.inl rfl, Or.inl ⟨rfl, Or.inr rfl⟩⟩
        · exact other p _ hpq
      · cases hs
    · cases hs
  | insert t p =>
    simp only [step?] at hs; split at hs
    · split at hs
      · rename_i tp htp hg; cases hs
        by_cases hpq : p = q
        · subst hpq; exact absurd rfl (hi t)
        · exact other p _ hpq
      · cases hs
    · cases hs
  | startupReady t n =>
    simp only [step?] at hs; split at hs
    · split at hs
      · split at hs
        · rename_i p hsu _ tp htp hg; cases hs
          by_cases hpq : p = q
          · subst hpq; exact absurd hsu (hr t n rfl)
          · exact other p _ hpq
        · cases hs
      · cases hs
    · cases hs
  | actionDone t p =>
    by_cases hpq : p = q
    · subst hpq; exact absurd rfl (ha t)
    · simp only [step?] at hs; split at hs
      · split at hs
        · split at hs
          · cases hs; exact other p _ hpq
          · cases hs; exact other p _ hpq
        · cases hs
      · cases hs
  | nestDec t =>
    simp only [step?] at hs; split at hs
    · split at hs
      · rename_i p rest _ hsu _ tp htp; cases hs
        by_cases hpq : p = q
        · subst hpq; rw [hts] at htp; cases htp
          obtain ⟨x, hx, hxs, _⟩ := hI.nFwd t _ p hsu List.mem_cons_self
          rw [hts] at hx; cases hx
          exact ⟨_, List.getElem?_set_self hql, h0, he, rfl, rfl, rfl, Or.inr (Or.inr (Or.inr (Or.inr rfl))), Or.inl rfl, Or.inr (Or.inr (Or.inr ⟨hxs, rfl⟩))⟩
        · exact other p _ hpq
      · cases hs
    · cases hs

end ParsecVerif.Compound
