/-
  Interference invariant of the LIFO model: whenever the (counter, item) a popper has saved differs
  from the head, the operation of ANOTHER thread took effect on the stack after the popper's
  invocation.  Hence a try_pop that gives up, and every retry of pop/push, is caused by a concurrent
  successful operation (the retry loops are lock-free: somebody made progress).
-/
import ParsecVerif.Proofs.LifoLin

namespace ParsecVerif.Lifo

/-- a linearization record that changed the stack: a successful push/chain or a successful pop -/
def Effective (l : LinRec) : Prop :=
  match l.op, l.res with
  | .push _ _, .unit => True
  | .pop _, .item x => x ≠ 0
  | _, _ => False

/-- another thread's operation took effect on the stack after time `since` -/
def Interfered (lins : List LinRec) (t since : Nat) : Prop :=
  ∃ l ∈ lins, l.tid ≠ t ∧ since < l.tLin ∧ Effective l

theorem Interfered.mono {lins : List LinRec} {t since : Nat} (h : Interfered lins t since) (more : List LinRec) :
    Interfered (lins ++ more) t since := by
  obtain ⟨l, hl, h1⟩ := h
  exact ⟨l, List.mem_append_left _ hl, h1⟩

/-- if a popper's saved (counter, item) no longer matches the head, somebody else's operation took
    effect since the popper's invocation (at time `ti`) -/
def TryInvPc (m : Mem) (lins : List LinRec) (t ti : Nat) : Pc → Prop
  | .popFence _ c => c ≠ m.ctr → Interfered lins t ti
  | .popRdI _ c => c ≠ m.ctr → Interfered lins t ti
  | .popRdN _ c it => (c ≠ m.ctr ∨ it ≠ m.top) → Interfered lins t ti
  | .popCas _ c it _ => (c ≠ m.ctr ∨ it ≠ m.top) → Interfered lins t ti
  | _ => True

def TryInv (m : Mem) (lins : List LinRec) (t : Nat) (th : Thread) : Prop := TryInvPc m lins t th.tInv th.pc

theorem invoke_try (m : Mem) (n t now : Nat) (th : Thread) (hpc : th.pc = .idle) (m' : Mem) (lins' : List LinRec) (x : Nat) :
    TryInvPc m' lins' t x (invoke m n t now th).th.pc := by
  unfold invoke
  cases th.todo with
  | nil => simp only [hpc]; trivial
  | cons op rest =>
    cases op with
    | push pre tl => by_cases h : PushPre m t pre tl <;> simp [h, Thread.finish, TryInvPc]
    | pop tr => simp [TryInvPc]
    | setNext a v => by_cases h : m.who a = t + 1 ∧ v ≤ n <;> simp [h, Thread.finish, TryInvPc]

/-- a step that changes the head emits an effective linearization record -/
theorem stepPc_head (m : Mem) (n t now : Nat) (th : Thread) (pc : Pc) (hpc : th.pc = pc) (hT : TInv m t pc)
    (hch : (stepPc m n t now th pc).mem.ctr ≠ m.ctr ∨ (stepPc m n t now th pc).mem.top ≠ m.top) :
    ∃ l, (stepPc m n t now th pc).lin = some l ∧ Effective l := by
  cases pc with
  | idle =>
    have h := invoke_inv m n t now th hpc
    simp only [stepPc] at hch
    rw [h.1] at hch
    rcases hch with h | h <;> exact absurd rfl h
  | pushCas pre tl nxt =>
    simp only [stepPc] at hch ⊢
    split
    · exact ⟨_, rfl, trivial⟩
    · rename_i hne; simp only [hne, ite_false] at hch; rcases hch with h | h <;> exact absurd rfl h
  | popCas tr c it nx =>
    simp only [stepPc] at hch ⊢
    split
    · exact ⟨_, rfl, hT.2.1⟩
    · rename_i hne
      simp only [hne, ite_false] at hch
      split at hch <;> (rcases hch with h | h <;> exact absurd rfl h)
  | popRdI tr c =>
    simp only [stepPc] at hch
    split at hch <;> (rcases hch with h | h <;> exact absurd rfl h)
  | pushRd pre tl => rcases hch with h | h <;> exact absurd rfl h
  | pushWr pre tl nxt => rcases hch with h | h <;> exact absurd rfl h
  | pushFence pre tl nxt => rcases hch with h | h <;> exact absurd rfl h
  | popRdC tr => rcases hch with h | h <;> exact absurd rfl h
  | popFence tr c => rcases hch with h | h <;> exact absurd rfl h
  | popRdN tr c it => rcases hch with h | h <;> exact absurd rfl h
  | popWmb tr it => rcases hch with h | h <;> exact absurd rfl h
  | popClr tr it => rcases hch with h | h <;> exact absurd rfl h
  | setNx x v => rcases hch with h | h <;> exact absurd rfl h

/-- the stepping thread establishes / keeps its own `TryInv` -/
theorem stepPc_try_self (m : Mem) (n t now : Nat) (th : Thread) (pc : Pc) (hpc : th.pc = pc) (lins : List LinRec)
    (h : TryInv m lins t th) :
    TryInv (stepPc m n t now th pc).mem (lins ++ (stepPc m n t now th pc).lin.toList) t (stepPc m n t now th pc).th := by
  unfold TryInv at h ⊢
  rw [hpc] at h
  cases pc with
  | idle => simp only [stepPc]; exact invoke_try m n t now th hpc _ _ _
  | popRdC tr => simp [stepPc, Thread.goto, TryInvPc]
  | popFence tr c => simpa [stepPc, Thread.goto, TryInvPc] using h
  | popRdI tr c =>
    simp only [stepPc]
    split
    · simp [Thread.finish, TryInvPc]
    · simp only [Thread.goto, Option.toList_none, List.append_nil, TryInvPc] at h ⊢
      intro hne
      rcases hne with hne | hne
      · exact h hne
      · exact absurd rfl hne
  | popRdN tr c it => simpa [stepPc, Thread.goto, TryInvPc] using h
  | popCas tr c it nx =>
    simp only [stepPc]
    split
    · simp [TryInvPc]
    · split <;> simp [Thread.finish, Thread.goto, TryInvPc]
  | pushRd pre tl => simp [stepPc, Thread.goto, TryInvPc]
  | pushWr pre tl nxt => simp [stepPc, Thread.goto, TryInvPc]
  | pushFence pre tl nxt => simp [stepPc, Thread.goto, TryInvPc]
  | pushCas pre tl nxt => simp only [stepPc]; split <;> simp [Thread.finish, Thread.goto, TryInvPc]
  | popWmb tr it => simp [stepPc, Thread.goto, TryInvPc]
  | popClr tr it => simp [stepPc, Thread.finish, TryInvPc]
  | setNx x v => simp [stepPc, Thread.finish, TryInvPc]


theorem TryInvPc.congr {m m' : Mem} {lins : List LinRec} {u ti : Nat} {pc : Pc} (h : TryInvPc m lins u ti pc)
    (hc : m'.ctr = m.ctr) (ht : m'.top = m.top) (more : List LinRec) : TryInvPc m' (lins ++ more) u ti pc := by
  cases pc <;> simp only [TryInvPc, hc, ht] at h ⊢ <;> first | trivial | exact fun hne => (h hne).mono more

theorem TryInvPc.of_interfered {m : Mem} {lins : List LinRec} {u ti : Nat} (h : Interfered lins u ti) (pc : Pc) :
    TryInvPc m lins u ti pc := by
  cases pc <;> simp only [TryInvPc] <;> first | trivial | exact fun _ => h

/-- `Inv` plus the interference invariant -/
structure Inv2 (c : Config) (s : State) : Prop where
  inv : Inv c s
  tryi : ∀ t th, s.thr[t]? = some th → TryInv s.mem s.lins t th

theorem Inv2.init (c : Config) (hc : c.WF) : Inv2 c (init c) := by
  refine ⟨Inv.init c hc, fun t th hth => ?_⟩
  simp only [Lifo.init, List.getElem?_map] at hth
  cases hp : c.progs[t]? with
  | none => rw [hp] at hth; cases hth
  | some p => rw [hp] at hth; cases hth; trivial

theorem Inv2.step {c : Config} {s : State} (h : Inv2 c s) (t : Nat) : Inv2 c (step s t) := by
  refine ⟨h.inv.step t, ?_⟩
  unfold Lifo.step
  cases hth : s.thr[t]? with
  | none => exact h.tryi
  | some th =>
    simp only
    have ht := h.inv.th t th hth
    have hself := stepPc_try_self s.mem s.n t s.time th th.pc rfl s.lins (h.tryi t th hth)
    have hhead := stepPc_head s.mem s.n t s.time th th.pc rfl ht.tinv
    have hspec := (stepPc_spec s.mem s.n t s.time th th.pc rfl h.inv.g ht.tinv).1
    have htlt : t < s.thr.length := by
      rcases Nat.lt_or_ge t s.thr.length with hlt | hge
      · exact hlt
      · rw [List.getElem?_eq_none hge] at hth; cases hth
    intro u thu hu
    rw [List.getElem?_set] at hu
    by_cases hut : t = u
    · subst hut
      simp only [htlt, ite_true] at hu
      cases hu
      exact hself
    · simp only [hut, ite_false] at hu
      have hprev := h.tryi u thu hu
      unfold TryInv at hprev ⊢
      unfold stepTh
      by_cases hch : (stepPc s.mem s.n t s.time th th.pc).mem.ctr = s.mem.ctr ∧ (stepPc s.mem s.n t s.time th th.pc).mem.top = s.mem.top
      · exact hprev.congr hch.1 hch.2 _
      · by_cases hidle : thu.pc = .idle
        · rw [hidle]; trivial
        · obtain ⟨l, hl, heff⟩ := hhead (by
            by_cases h1 : (stepPc s.mem s.n t s.time th th.pc).mem.ctr = s.mem.ctr
            · exact Or.inr (fun h2 => hch ⟨h1, h2⟩)
            · exact Or.inl h1)
          have hl2 := hspec l hl
          have htime := (h.inv.th u thu hu).time.run hidle
          refine TryInvPc.of_interfered ⟨l, ?_, ?_, ?_, heff⟩ _
          · rw [hl]; simp
          · rw [hl2.2.1]; exact fun h => hut h
          · rw [hl2.2.2]; exact htime

theorem Inv2.run (c : Config) (hc : c.WF) (sched : List Nat) : Inv2 c (run c sched) := by
  unfold Lifo.run
  suffices ∀ s, Inv2 c s → Inv2 c (sched.foldl Lifo.step s) from this _ (Inv2.init c hc)
  induction sched with
  | nil => intro s h; exact h
  | cons t r ih => intro s h; exact ih _ (h.step t)

end ParsecVerif.Lifo
