/-
  How the primitive mutations of the store act on the structural invariant, on `Stored` and on the
  count of used buckets.
-/
import ParsecVerif.Proofs.HashTableInv

namespace ParsecVerif.HashTable

/-! ## congruence: the invariant only looks at these observables -/

structure SameStore (s s' : Store) : Prop where
  items : ∀ T b, (s'.bk T b).items = (s.bk T b).items
  len : ∀ T b, (s'.bk T b).len = (s.bk T b).len
  next : ∀ T, (s'.tab T).next = (s.tab T).next
  top : s'.top = s.top
  nb0 : s'.nb0 = s.nb0
  hf : s'.hf = s.hf

theorem SameStore.tin {s s' : Store} (e : SameStore s s') (T : Nat) : Tin s' T ↔ Tin s T := by
  unfold Tin; rw [e.top, e.nb0]

theorem SameStore.emptyT {s s' : Store} (e : SameStore s s') (T : Nat) : EmptyT s' T ↔ EmptyT s T := by
  unfold EmptyT; simp only [e.items]

theorem SameStore.stored {s s' : Store} (e : SameStore s s') (it : Item) : Stored s' it ↔ Stored s it := by
  unfold Stored; simp only [e.items, e.tin]

theorem SameStore.keyIn {s s' : Store} (e : SameStore s s') (k T : Nat) : KeyIn s' k T ↔ KeyIn s k T := by
  unfold KeyIn; simp only [e.items, e.hf]

theorem SameStore.usedCount {s s' : Store} (e : SameStore s s') (T : Nat) : s'.usedCount T = s.usedCount T := by
  unfold Store.usedCount; simp only [e.items]

theorem StructInv.congr {s s' : Store} (e : SameStore s s') (h : StructInv s) : StructInv s' := by
  refine ⟨by rw [e.nb0]; exact h.nb0, by rw [e.nb0, e.top]; exact h.top, by rw [e.hf]; exact h.hfr, ?_, ?_, ?_, ?_, ?_, ?_⟩
  · intro T hT; rw [e.next, e.nb0]; exact h.nxt T ((e.tin T).1 hT)
  · intro T b hT; rw [e.len, e.items]; exact h.len T b ((e.tin T).1 hT)
  · intro T b it hT hit; rw [e.hf]; rw [e.items] at hit; exact h.place T b it ((e.tin T).1 hT) hit
  · intro T T' hT h1 h2 h3
    rw [e.next] at h1; rw [e.nb0] at h3
    exact (e.emptyT T').2 (h.skip T T' ((e.tin T).1 hT) h1 h2 h3)
  · intro T b hT; rw [e.items]; exact h.nodup T b ((e.tin T).1 hT)
  · intro T T' b b' it hT hT' h1 h2
    rw [e.items] at h1 h2
    exact h.once T T' b b' it ((e.tin T).1 hT) ((e.tin T').1 hT') h1 h2

theorem sameStore_setLock (s : Store) (T b v : Nat) : SameStore s (s.setLock T b v) :=
  ⟨fun T' b' => items_setLock s T b T' b' v, fun T' b' => len_setLock s T b T' b' v, fun T' => next_setLock s T b T' v, rfl, rfl, rfl⟩

theorem sameStore_decUsed (s : Store) (T : Nat) : SameStore s (s.decUsed T) :=
  ⟨fun T' b' => by rw [bk_decUsed], fun T' b' => by rw [bk_decUsed], fun T' => next_decUsed s T T', rfl, rfl, rfl⟩

theorem SameStore.refl (s : Store) : SameStore s s := ⟨fun _ _ => rfl, fun _ _ => rfl, fun _ => rfl, rfl, rfl, rfl⟩

theorem SameStore.trans {a b c : Store} (e1 : SameStore a b) (e2 : SameStore b c) : SameStore a c :=
  ⟨fun T b => by rw [e2.items, e1.items], fun T b => by rw [e2.len, e1.len], fun T => by rw [e2.next, e1.next],
   by rw [e2.top, e1.top], by rw [e2.nb0, e1.nb0], by rw [e2.hf, e1.hf]⟩

/-! ## `pushFront` into the top-level table -/

theorem stored_pushFront {s : Store} (hst : s.nb0 ≤ s.top) (b : Nat) (it x : Item) :
    Stored (s.pushFront s.top b it) x ↔ x = it ∨ Stored s x := by
  constructor
  · rintro ⟨T, b', hT, hx⟩
    rw [items_pushFront] at hx
    split at hx
    · rcases List.mem_cons.1 hx with h | h
      · exact Or.inl h
      · exact Or.inr ⟨s.top, b, ⟨hst, Nat.le_refl _⟩, h⟩
    · exact Or.inr ⟨T, b', hT, hx⟩
  · rintro (h | ⟨T, b', hT, hx⟩)
    · subst h
      refine ⟨s.top, b, ⟨hst, Nat.le_refl _⟩, ?_⟩
      rw [items_pushFront]; simp
    · refine ⟨T, b', hT, ?_⟩
      rw [items_pushFront]
      split
      · rename_i h; rw [h.1, h.2] at hx; exact List.mem_cons_of_mem _ hx
      · exact hx

theorem StructInv.pushTop {s : Store} (h : StructInv s) {b : Nat} {it : Item} (hb : b = s.hf it.key s.top)
    (hn : ¬ Stored s it) : StructInv (s.pushFront s.top b it) := by
  have htop : Tin s s.top := ⟨h.top, Nat.le_refl _⟩
  refine ⟨h.nb0, h.top, h.hfr, ?_, ?_, ?_, ?_, ?_, ?_⟩
  · intro T hT; rw [next_pushFront]; exact h.nxt T hT
  · intro T b' hT
    rw [len_pushFront, items_pushFront]
    split
    · rw [h.len s.top b htop]; simp
    · exact h.len T b' hT
  · intro T b' x hT hx
    rw [items_pushFront] at hx
    split at hx
    · rename_i hc
      rcases List.mem_cons.1 hx with hx | hx
      · subst hx; rw [hc.1, hc.2]; exact hb
      · rw [hc.1, hc.2]; exact h.place s.top b x htop hx
    · exact h.place T b' x hT hx
  · intro T T' hT h1 h2 h3 b'
    rw [next_pushFront] at h1
    rw [items_pushFront]
    split
    · rename_i hc
      have : T' < s.top := Nat.lt_of_lt_of_le h2 hT.2
      omega
    · exact h.skip T T' hT h1 h2 h3 b'
  · intro T b' hT
    rw [items_pushFront]
    split
    · rw [List.nodup_cons]
      exact ⟨fun hm => hn ⟨s.top, b, htop, hm⟩, h.nodup s.top b htop⟩
    · exact h.nodup T b' hT
  · intro T T' b1 b2 x hT hT' h1 h2
    have hs1 : Stored (s.pushFront s.top b it) x := ⟨T, b1, hT, h1⟩
    rw [items_pushFront] at h1 h2
    split at h1
    · rename_i hc1
      split at h2
      · rename_i hc2; rw [hc1.1, hc2.1]
      · rcases List.mem_cons.1 h1 with h1 | h1
        · subst h1; exact absurd ⟨T', b2, hT', h2⟩ hn
        · rw [hc1.1]; exact h.once s.top T' b b2 x htop hT' h1 h2
    · split at h2
      · rename_i hc2
        rcases List.mem_cons.1 h2 with h2 | h2
        · subst h2; exact absurd ⟨T, b1, hT, h1⟩ hn
        · rw [hc2.1]; exact h.once T s.top b1 b x hT htop h1 h2
      · exact h.once T T' b1 b2 x hT hT' h1 h2

/-! ## `eraseIt` -/

theorem stored_erase {s : Store} (h : StructInv s) {T b : Nat} {it : Item} (hT : Tin s T) (hit : it ∈ (s.bk T b).items) (x : Item) :
    Stored (s.eraseIt T b it) x ↔ Stored s x ∧ x ≠ it := by
  constructor
  · rintro ⟨T', b', hT', hx⟩
    rw [items_eraseIt] at hx
    split at hx
    · have := (List.Nodup.mem_erase_iff (h.nodup T b hT)).1 hx
      exact ⟨⟨T, b, hT, this.2⟩, this.1⟩
    · rename_i hc
      refine ⟨⟨T', b', hT', hx⟩, fun he => ?_⟩
      subst he
      have hTT : T' = T := h.once T' T b' b x hT' hT hx hit
      subst hTT
      have : b' = b := by rw [h.place T' b' x hT' hx, h.place T' b x hT hit]
      exact hc ⟨rfl, this⟩
  · rintro ⟨⟨T', b', hT', hx⟩, hne⟩
    refine ⟨T', b', hT', ?_⟩
    rw [items_eraseIt]
    split
    · rename_i hc
      rw [hc.1, hc.2] at hx
      exact (List.Nodup.mem_erase_iff (h.nodup T b hT)).2 ⟨hne, hx⟩
    · exact hx

theorem StructInv.erase {s : Store} (h : StructInv s) {T b : Nat} {it : Item} (hT : Tin s T) (hit : it ∈ (s.bk T b).items) :
    StructInv (s.eraseIt T b it) := by
  refine ⟨h.nb0, h.top, h.hfr, ?_, ?_, ?_, ?_, ?_, ?_⟩
  · intro T' hT'; rw [next_eraseIt]; exact h.nxt T' hT'
  · intro T' b' hT'
    rw [len_eraseIt, items_eraseIt]
    split
    · rw [h.len T b hT, List.length_erase_of_mem hit]
      have : 0 < (s.bk T b).items.length := List.length_pos_of_mem hit
      omega
    · exact h.len T' b' hT'
  · intro T' b' x hT' hx
    rw [items_eraseIt] at hx
    split at hx
    · rename_i hc; rw [hc.1, hc.2]; exact h.place T b x hT (List.mem_of_mem_erase hx)
    · exact h.place T' b' x hT' hx
  · intro T1 T' hT1 h1 h2 h3 b'
    rw [next_eraseIt] at h1
    rw [items_eraseIt]
    split
    · rename_i hc
      have := h.skip T1 T' hT1 h1 h2 h3 b
      rw [hc.1] at this
      rw [this] at hit; cases hit
    · exact h.skip T1 T' hT1 h1 h2 h3 b'
  · intro T' b' hT'
    rw [items_eraseIt]
    split
    · exact (h.nodup T b hT).erase it
    · exact h.nodup T' b' hT'
  · intro T1 T2 b1 b2 x hT1 hT2 h1 h2
    rw [items_eraseIt] at h1 h2
    have g1 : x ∈ (s.bk T1 b1).items := by
      split at h1
      · rename_i hc; rw [hc.1, hc.2]; exact List.mem_of_mem_erase h1
      · exact h1
    have g2 : x ∈ (s.bk T2 b2).items := by
      split at h2
      · rename_i hc; rw [hc.1, hc.2]; exact List.mem_of_mem_erase h2
      · exact h2
    exact h.once T1 T2 b1 b2 x hT1 hT2 g1 g2

/-! ## `setNext` (the CAS that unlinks an emptied table) -/

theorem sameItems_setNext (s : Store) (T v : Nat) : ∀ T' b', ((s.setNext T v).bk T' b') = s.bk T' b' :=
  fun T' b' => bk_setNext s T T' b' v

theorem StructInv.setNext {s : Store} (h : StructInv s) {pv nv : Nat} (h1 : nv < pv) (h2 : nv = 0 ∨ s.nb0 ≤ nv)
    (h3 : ∀ T', nv < T' → T' < pv → s.nb0 ≤ T' → EmptyT s T') : StructInv (s.setNext pv nv) := by
  refine ⟨h.nb0, h.top, h.hfr, ?_, ?_, ?_, ?_, ?_, ?_⟩
  · intro T hT
    rw [next_setNext]
    split
    · rename_i hc; subst hc; exact ⟨h1, h2⟩
    · exact h.nxt T hT
  · intro T b hT; rw [bk_setNext]; exact h.len T b hT
  · intro T b it hT hit; rw [bk_setNext] at hit; exact h.place T b it hT hit
  · intro T T' hT a b c b'
    rw [bk_setNext]
    rw [next_setNext] at a
    split at a
    · rename_i hc; subst hc; exact h3 T' a b c b'
    · exact h.skip T T' hT a b c b'
  · intro T b hT; rw [bk_setNext]; exact h.nodup T b hT
  · intro T T' b b' it hT hT' a c
    rw [bk_setNext] at a c
    exact h.once T T' b b' it hT hT' a c

/-! ## `resize` -/

theorem StructInv.resize {s : Store} (h : StructInv s) : StructInv s.resize := by
  have tin : ∀ T, Tin s.resize T → T = s.top + 1 ∨ Tin s T := by
    intro T hT
    have h2 : T ≤ s.top + 1 := hT.2
    rcases Nat.lt_or_ge T (s.top + 1) with hlt | hge
    · exact Or.inr ⟨hT.1, Nat.le_of_lt_succ hlt⟩
    · exact Or.inl (Nat.le_antisymm h2 hge)
  refine ⟨h.nb0, Nat.le_succ_of_le h.top, h.hfr, ?_, ?_, ?_, ?_, ?_, ?_⟩
  · intro T hT
    rw [next_resize]
    rcases tin T hT with hc | hc
    · rw [if_pos hc]; subst hc
      exact ⟨Nat.lt_succ_self _, Or.inr h.top⟩
    · have : T ≠ s.top + 1 := by have := hc.2; omega
      rw [if_neg this]; exact h.nxt T hc
  · intro T b hT
    rw [bk_resize]
    rcases tin T hT with hc | hc
    · rw [if_pos hc]; rfl
    · have : T ≠ s.top + 1 := by have := hc.2; omega
      rw [if_neg this]; exact h.len T b hc
  · intro T b it hT hit
    rw [bk_resize] at hit
    rcases tin T hT with hc | hc
    · rw [if_pos hc] at hit; cases hit
    · have : T ≠ s.top + 1 := by have := hc.2; omega
      rw [if_neg this] at hit; exact h.place T b it hc hit
  · intro T T' hT a b c b'
    rw [bk_resize]
    rw [next_resize] at a
    rcases tin T hT with hc | hc
    · rw [if_pos hc] at a; subst hc; omega
    · have hne : T ≠ s.top + 1 := by have := hc.2; omega
      rw [if_neg hne] at a
      have : T' ≠ s.top + 1 := by have := hc.2; omega
      rw [if_neg this]; exact h.skip T T' hc a b c b'
  · intro T b hT
    rw [bk_resize]
    rcases tin T hT with hc | hc
    · rw [if_pos hc]; exact List.nodup_nil
    · have : T ≠ s.top + 1 := by have := hc.2; omega
      rw [if_neg this]; exact h.nodup T b hc
  · intro T T' b b' it hT hT' a c
    rw [bk_resize] at a c
    rcases tin T hT with hc | hc
    · rw [if_pos hc] at a; cases a
    · have h1 : T ≠ s.top + 1 := by have := hc.2; omega
      rw [if_neg h1] at a
      rcases tin T' hT' with hc' | hc'
      · rw [if_pos hc'] at c; cases c
      · have h2 : T' ≠ s.top + 1 := by have := hc'.2; omega
        rw [if_neg h2] at c
        exact h.once T T' b b' it hc hc' a c

theorem stored_resize {s : Store} (x : Item) : Stored s.resize x ↔ Stored s x := by
  constructor
  · rintro ⟨T, b, hT, hx⟩
    rw [bk_resize] at hx
    split at hx
    · cases hx
    · rename_i hc
      have h2 : T ≤ s.top + 1 := hT.2
      exact ⟨T, b, ⟨hT.1, by omega⟩, hx⟩
  · rintro ⟨T, b, hT, hx⟩
    refine ⟨T, b, ⟨hT.1, Nat.le_succ_of_le hT.2⟩, ?_⟩
    rw [bk_resize]
    have : T ≠ s.top + 1 := by have := hT.2; omega
    rw [if_neg this]; exact hx

/-! ## used buckets -/

theorem usedCount_same {s s' : Store} {T : Nat} (h : ∀ b, (s'.bk T b).items = (s.bk T b).items) :
    s'.usedCount T = s.usedCount T := by
  unfold Store.usedCount; simp only [h]

/-- a bucket of `T` goes from non-empty to empty: one used bucket less -/
theorem usedCount_emptied {s s' : Store} {T b0 : Nat} (hb : b0 < 2 ^ T) (h1 : (s.bk T b0).items ≠ [])
    (h2 : (s'.bk T b0).items = []) (h3 : ∀ b, b ≠ b0 → (s'.bk T b).items = (s.bk T b).items) :
    s'.usedCount T + 1 = s.usedCount T := by
  unfold Store.usedCount
  apply countP_range_off _ _ _ b0 hb
  · simpa using h1
  · simp [h2]
  · intro b hne; simp only [h3 b hne]

theorem emptyT_of_usedCount {s : Store} (h : StructInv s) {T : Nat} (hT : Tin s T) (h0 : s.usedCount T = 0) : EmptyT s T := by
  intro b
  apply List.eq_nil_iff_forall_not_mem.2
  intro it hit
  have hb := h.place T b it hT hit
  have hlt : b < 2 ^ T := by rw [hb]; exact h.hfr _ _
  have := countP_range_zero _ _ h0 b hlt
  simp only [Bool.not_eq_false', List.isEmpty_iff] at this
  rw [this] at hit; cases hit

end ParsecVerif.HashTable
