/-
  `parsec_hash_table_for_all` on a quiescent table visits every stored item exactly once; a step of
  the cooperative scheduler is a run of micro steps of one thread.
-/
import ParsecVerif.Proofs.HashTableMain

namespace ParsecVerif.HashTable

/-! ## the chain of tables reached from the top-level table -/

theorem chain_zero (s : Store) (fuel : Nat) : chain s fuel 0 = [] := by cases fuel <;> rfl

theorem chain_succ (s : Store) (fuel T : Nat) : chain s (fuel + 1) (T + 1) = (T + 1) :: chain s fuel (s.tab (T + 1)).next := rfl

theorem chain_sub {s : Store} (h : StructInv s) : ∀ fuel T, Tin s T → ∀ T', T' ∈ chain s fuel T → Tin s T' ∧ T' ≤ T := by
  intro fuel
  induction fuel with
  | zero => intro T _ T' hm; cases hm
  | succ f ih =>
    intro T hT T' hm
    cases T with
    | zero => rw [chain_zero] at hm; cases hm
    | succ T0 =>
      rw [chain_succ] at hm
      rcases List.mem_cons.1 hm with e | e
      · rw [e]; exact ⟨hT, Nat.le_refl _⟩
      · have hn := h.nxt (T0 + 1) hT
        rcases hn.2 with hz | hnb
        · rw [hz, chain_zero] at e; cases e
        · have hTn : Tin s (s.tab (T0 + 1)).next := ⟨hnb, Nat.le_trans (Nat.le_of_lt hn.1) hT.2⟩
          have := ih _ hTn T' e
          exact ⟨this.1, Nat.le_trans this.2 (Nat.le_of_lt hn.1)⟩

theorem chain_desc {s : Store} (h : StructInv s) : ∀ fuel T, Tin s T → (chain s fuel T).Pairwise (fun a b => b < a) := by
  intro fuel
  induction fuel with
  | zero => intro T _; exact List.Pairwise.nil
  | succ f ih =>
    intro T hT
    cases T with
    | zero => rw [chain_zero]; exact List.Pairwise.nil
    | succ T0 =>
      rw [chain_succ, List.pairwise_cons]
      have hn := h.nxt (T0 + 1) hT
      rcases hn.2 with hz | hnb
      · rw [hz, chain_zero]; exact ⟨fun _ hm => (by cases hm), List.Pairwise.nil⟩
      · have hTn : Tin s (s.tab (T0 + 1)).next := ⟨hnb, Nat.le_trans (Nat.le_of_lt hn.1) hT.2⟩
        refine ⟨fun T' hm => ?_, ih _ hTn⟩
        have := (chain_sub h f _ hTn T' hm).2
        omega

/-- every non-empty table at or below `T` is reached from `T` -/
theorem chain_covers {s : Store} (h : StructInv s) : ∀ fuel T, Tin s T → T - s.nb0 < fuel →
    ∀ T', Tin s T' → T' ≤ T → ¬ EmptyT s T' → T' ∈ chain s fuel T := by
  intro fuel
  induction fuel with
  | zero => intro T _ hf; omega
  | succ f ih =>
    intro T hT hf T' hT' hle hne
    have hnb := h.nb0
    cases T with
    | zero => have := hT.1; omega
    | succ T0 =>
      rw [chain_succ]
      rcases Nat.lt_or_ge T' (T0 + 1) with hlt | hge
      · apply List.mem_cons_of_mem
        have hn := h.nxt (T0 + 1) hT
        rcases Nat.lt_or_ge (s.tab (T0 + 1)).next T' with hsk | hle'
        · exact absurd (h.skip (T0 + 1) T' hT hsk hlt hT'.1) hne
        · have hnv : s.nb0 ≤ (s.tab (T0 + 1)).next := Nat.le_trans hT'.1 hle'
          have hTn : Tin s (s.tab (T0 + 1)).next := ⟨hnv, Nat.le_trans (Nat.le_of_lt hn.1) hT.2⟩
          exact ih _ hTn (by omega) T' hT' hle' hne
      · have : T' = T0 + 1 := Nat.le_antisymm hle hge
        rw [this]; exact List.mem_cons_self

/-! ## no duplicates in a flattened list -/

theorem nodup_flatMap {α β : Type} (f : α → List β) : ∀ (l : List α), (∀ x, x ∈ l → (f x).Nodup) →
    l.Pairwise (fun a b => ∀ y, y ∈ f a → y ∉ f b) → (l.flatMap f).Nodup := by
  intro l
  induction l with
  | nil => intro _ _; exact List.nodup_nil
  | cons a t ih =>
    intro h1 h2
    rw [List.pairwise_cons] at h2
    rw [List.flatMap_cons, List.nodup_append]
    refine ⟨h1 a List.mem_cons_self, ih (fun x hx => h1 x (List.mem_cons_of_mem _ hx)) h2.2, ?_⟩
    intro y hy z hz hyz
    obtain ⟨b, hb, hzb⟩ := List.mem_flatMap.1 hz
    exact h2.1 b hb y hy (hyz ▸ hzb)

theorem mem_tableItems {s : Store} {T : Nat} {it : Item} : it ∈ tableItems s T ↔ ∃ b, b < 2 ^ T ∧ it ∈ (s.bk T b).items := by
  unfold tableItems
  rw [List.mem_flatMap]
  constructor
  · rintro ⟨b, hb, hi⟩; exact ⟨b, List.mem_range.1 hb, hi⟩
  · rintro ⟨b, hb, hi⟩; exact ⟨b, List.mem_range.2 hb, hi⟩

theorem nodup_tableItems {s : Store} (h : StructInv s) {T : Nat} (hT : Tin s T) : (tableItems s T).Nodup := by
  unfold tableItems
  apply nodup_flatMap
  · intro b _; exact h.nodup T b hT
  · refine List.Pairwise.imp ?_ (List.nodup_range (n := 2 ^ T))
    intro a b hab y hya hyb
    exact hab ((h.place T a y hT hya).trans (h.place T b y hT hyb).symm)

theorem mem_forAll {s : Store} (h : StructInv s) (it : Item) : it ∈ forAll s ↔ Stored s it := by
  have htop : Tin s s.top := ⟨h.top, Nat.le_refl _⟩
  unfold forAll
  rw [List.mem_flatMap]
  constructor
  · rintro ⟨T, hT, hi⟩
    obtain ⟨b, _, hb⟩ := mem_tableItems.1 hi
    exact ⟨T, b, (chain_sub h _ _ htop T hT).1, hb⟩
  · rintro ⟨T, b, hT, hi⟩
    refine ⟨T, ?_, mem_tableItems.2 ⟨b, ?_, hi⟩⟩
    · apply chain_covers h _ _ htop (by omega) T hT hT.2
      intro he; rw [he b] at hi; cases hi
    · rw [h.place T b it hT hi]; exact h.hfr _ _

theorem nodup_forAll {s : Store} (h : StructInv s) : (forAll s).Nodup := by
  have htop : Tin s s.top := ⟨h.top, Nat.le_refl _⟩
  unfold forAll
  apply nodup_flatMap
  · intro T hT; exact nodup_tableItems h (chain_sub h _ _ htop T hT).1
  · refine List.Pairwise.imp_of_mem ?_ (chain_desc h (s.top + 1) s.top htop)
    intro a b ha hb hab y hya hyb
    obtain ⟨b1, _, h1⟩ := mem_tableItems.1 hya
    obtain ⟨b2, _, h2⟩ := mem_tableItems.1 hyb
    have := h.once a b b1 b2 y (chain_sub h _ _ htop a ha).1 (chain_sub h _ _ htop b hb).1 h1 h2
    omega

/-- quiescent: `for_all` passes exactly the items of the map to the callback, each once -/
theorem forAll_perm {s : Store} {thr : List Thread} (hS : SInv s thr) (hq : ∀ th, th ∈ thr → th.pc = .idle) :
    (forAll s).Perm s.abs ∧ (forAll s).Nodup := by
  refine ⟨?_, nodup_forAll hS.st⟩
  rw [List.perm_ext_iff_of_nodup (nodup_forAll hS.st) (nodup_of_keys hS.ab.absKeys)]
  intro it
  rw [mem_forAll hS.st]
  constructor
  · exact hS.ab.absIn it
  · intro hit
    rcases hS.ab.absOut it hit with h | ⟨t, a, ha, _, hh⟩
    · exact h
    · rw [hq a (mem_of_get ha)] at hh; cases hh

/-! ## macro steps -/

theorem runToPark_micro (blk : Bool) (fuel : Nat) (s : State) (t : Nat) :
    ∃ n, runToPark blk fuel s t = (List.replicate n t).foldl step s := by
  induction fuel generalizing s with
  | zero => exact ⟨0, rfl⟩
  | succ f ih =>
    unfold runToPark
    split
    · exact ⟨0, rfl⟩
    · obtain ⟨n, hn⟩ := ih (step s t)
      exact ⟨n + 1, by rw [hn, List.replicate_succ, List.foldl_cons]⟩

theorem macroStep_micro (s : State) (t : Nat) (blk : Bool) : ∃ n, macroStep s t blk = (List.replicate n t).foldl step s := by
  unfold macroStep
  split
  · exact ⟨0, rfl⟩
  · obtain ⟨n, hn⟩ := runToPark_micro blk 16 (step s t) t
    exact ⟨n + 1, by rw [hn, List.replicate_succ, List.foldl_cons]⟩

end ParsecVerif.HashTable
