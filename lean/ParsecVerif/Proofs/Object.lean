import ParsecVerif.Model.Object
import ParsecVerif.Base.Interleave
/-!
  Helper lemmas for C34.

  Part 1: loop invariant of the second loop of `parsec_class_initialize` and the array walk.
-/
namespace ParsecVerif.Object

/-! ## Part 1: the arrays built by `parsec_class_initialize` -/

/-- Invariant of the filling loop.  `rc` / `rd`: constructors / destructors still to come;
    `C`: constructors stored so far, as they will be read (the last one stored is read first);
    `D`: destructors stored so far, in reading order. -/
structure FInv (cc dc rc rd : Nat) (C D : List Nat) (f : Fill) : Prop where
  len : f.mem.length = cc + dc + 2
  hc : f.cp + C.length = cc
  hrc : C.length + rc = cc
  hd : f.dp = cc + 1 + D.length
  hrd : D.length + rd = dc
  cC : ∀ k, k < C.length → f.mem[f.cp + k]? = (C[k]?).map Cell.fn
  cN : f.mem[cc]? = some Cell.null
  cD : ∀ k, k < D.length → f.mem[cc + 1 + k]? = (D[k]?).map Cell.fn

theorem finv_fill0 (cc dc : Nat) : FInv cc dc cc dc [] [] (fill0 cc dc) := by
  refine ⟨by simp [fill0], by simp [fill0], by simp, by simp [fill0], by simp, ?_, ?_, ?_⟩
  · intro k hk; simp at hk
  · simp only [fill0]
    rw [List.getElem?_set_self (by simp; omega)]
  · intro k hk; simp at hk

theorem finv_ctor (cc dc rc rd : Nat) (C D : List Nat) (f : Fill) (c : Nat)
    (h : FInv cc dc (rc + 1) rd C D f) :
    FInv cc dc rc rd (c :: C) D { f with cp := f.cp - 1, mem := f.mem.set (f.cp - 1) (.fn c) } := by
  have h1 := h.hc; have h2 := h.hrc; have h3 := h.len; have h4 := h.hd
  refine ⟨by simp [h3], by simp only [List.length_cons]; omega, by simp only [List.length_cons]; omega,
          by simp only []; omega, h.hrd, ?_, ?_, ?_⟩
  · intro k hk
    simp only []
    cases k with
    | zero =>
      simp only [Nat.add_zero, List.getElem?_cons_zero, Option.map_some]
      rw [List.getElem?_set_self (by omega)]
    | succ j =>
      simp only [List.length_cons] at hk
      rw [List.getElem?_set_ne (by omega)]
      have := h.cC j (by omega)
      have e : f.cp - 1 + (j + 1) = f.cp + j := by omega
      rw [e, this]
      simp
  · simp only []
    rw [List.getElem?_set_ne (by omega)]
    exact h.cN
  · intro k hk
    simp only []
    rw [List.getElem?_set_ne (by omega)]
    exact h.cD k hk

theorem finv_dtor (cc dc rc rd : Nat) (C D : List Nat) (f : Fill) (d : Nat)
    (h : FInv cc dc rc (rd + 1) C D f) :
    FInv cc dc rc rd C (D ++ [d]) { f with mem := f.mem.set f.dp (.fn d), dp := f.dp + 1 } := by
  have h1 := h.hc; have h2 := h.hrc; have h3 := h.len; have h4 := h.hd; have h5 := h.hrd
  refine ⟨by simp [h3], h1, h2, by simp only [List.length_append, List.length_cons, List.length_nil]; omega,
          by simp only [List.length_append, List.length_cons, List.length_nil]; omega, ?_, ?_, ?_⟩
  · intro k hk
    simp only []
    rw [List.getElem?_set_ne (by omega)]
    exact h.cC k hk
  · simp only []
    rw [List.getElem?_set_ne (by omega)]
    exact h.cN
  · intro k hk
    simp only [List.length_append, List.length_cons, List.length_nil] at hk
    simp only []
    by_cases hk' : k < D.length
    · rw [List.getElem?_set_ne (by omega), List.getElem?_append_left hk']
      exact h.cD k hk'
    · have e : k = D.length := by omega
      subst e
      rw [show cc + 1 + D.length = f.dp by omega, List.getElem?_set_self (by omega)]
      simp

theorem nCtor_cons (l : Level) (r : List Level) :
    nCtor (l :: r) = nCtor r + (if l.ctor.isSome then 1 else 0) := by
  simp [nCtor, List.countP_cons]

theorem nDtor_cons (l : Level) (r : List Level) :
    nDtor (l :: r) = nDtor r + (if l.dtor.isSome then 1 else 0) := by
  simp [nDtor, List.countP_cons]

theorem ctorOrder_snoc (done : List Level) (l : Level) :
    ctorOrder (done ++ [l]) = (match l.ctor with | some c => c :: ctorOrder done | none => ctorOrder done) := by
  simp only [ctorOrder, List.reverse_append, List.reverse_cons, List.reverse_nil, List.nil_append,
    List.singleton_append, List.filterMap_cons]
  cases l.ctor <;> rfl

theorem dtorOrder_snoc (done : List Level) (l : Level) :
    dtorOrder (done ++ [l]) = (match l.dtor with | some d => dtorOrder done ++ [d] | none => dtorOrder done) := by
  simp only [dtorOrder, List.filterMap_append, List.filterMap_cons, List.filterMap_nil]
  cases l.dtor <;> simp

theorem finv_step (cc dc : Nat) (done rem : List Level) (l : Level) (f : Fill)
    (h : FInv cc dc (nCtor (l :: rem)) (nDtor (l :: rem)) (ctorOrder done) (dtorOrder done) f) :
    FInv cc dc (nCtor rem) (nDtor rem) (ctorOrder (done ++ [l])) (dtorOrder (done ++ [l])) (fillStep f l) := by
  rw [nCtor_cons, nDtor_cons] at h
  rw [ctorOrder_snoc, dtorOrder_snoc]
  unfold fillStep ctorPart dtorPart
  cases hc : l.ctor with
  | none =>
    cases hd : l.dtor with
    | none => simpa [hc, hd] using h
    | some d =>
      simp only [hc, hd, Option.isSome_none, Option.isSome_some, if_true, Bool.false_eq_true, if_false, Nat.add_zero] at h ⊢
      exact finv_dtor _ _ _ _ _ _ _ d h
  | some c =>
    cases hd : l.dtor with
    | none =>
      simp only [hc, hd, Option.isSome_none, Option.isSome_some, if_true, Bool.false_eq_true, if_false, Nat.add_zero] at h ⊢
      exact finv_ctor _ _ _ _ _ _ _ c h
    | some d =>
      simp only [hc, hd, Option.isSome_some, if_true] at h ⊢
      exact finv_dtor _ _ _ _ _ _ _ d (finv_ctor _ _ _ _ _ _ _ c h)

theorem finv_loop (cc dc : Nat) (rem : List Level) : ∀ (done : List Level) (f : Fill),
    FInv cc dc (nCtor rem) (nDtor rem) (ctorOrder done) (dtorOrder done) f →
    FInv cc dc 0 0 (ctorOrder (done ++ rem)) (dtorOrder (done ++ rem)) (rem.foldl fillStep f) := by
  induction rem with
  | nil => intro done f h; simpa [nCtor, nDtor] using h
  | cons l rem ih =>
    intro done f h
    have := ih (done ++ [l]) (fillStep f l) (finv_step cc dc done rem l f h)
    simpa [List.append_assoc] using this

theorem finv_fillLoop (ch : List Level) :
    FInv (nCtor ch) (nDtor ch) 0 0 (ctorOrder ch) (dtorOrder ch) (fillLoop ch) := by
  have := finv_loop (nCtor ch) (nDtor ch) ch [] (fill0 (nCtor ch) (nDtor ch))
    (by simpa [ctorOrder, dtorOrder] using finv_fill0 (nCtor ch) (nDtor ch))
  simpa [fillLoop] using this

/-- walking a stored, NULL-terminated array returns exactly the stored functions -/
theorem readArr_spec (mem : List Cell) : ∀ (L : List Nat) (a fuel : Nat),
    (∀ k, k < L.length → mem[a + k]? = (L[k]?).map Cell.fn) →
    mem[a + L.length]? = some Cell.null → L.length < fuel → readArr mem a fuel = some L := by
  intro L
  induction L with
  | nil =>
    intro a fuel _ hn hf
    cases fuel with
    | zero => simp at hf
    | succ n =>
      simp only [List.length_nil, Nat.add_zero] at hn
      simp [readArr, hn]
  | cons x L ih =>
    intro a fuel hc hn hf
    cases fuel with
    | zero => simp at hf
    | succ n =>
      have h0 := hc 0 (by simp)
      simp only [Nat.add_zero, List.getElem?_cons_zero, Option.map_some] at h0
      have hrec := ih (a + 1) n
        (by
          intro k hk
          have := hc (k + 1) (by simp only [List.length_cons]; omega)
          rw [show a + 1 + k = a + (k + 1) by omega, this]
          simp)
        (by
          rw [show a + 1 + L.length = a + (x :: L).length by simp only [List.length_cons]; omega]
          exact hn)
        (by simp only [List.length_cons] at hf; omega)
      simp [readArr, h0, hrec]

/-! ## Part 3: the concurrent machine -/

def heldSum (thr : List Thread) : Nat := (thr.map (·.held)).sum

/-- an operation made while the object is alive and leaving it alive -/
def liveEv : Ev → Prop
  | .retain _ v => 1 ≤ v
  | .release _ v => 1 ≤ v
  | _ => False

/-- no thread is inside `obj_release` -/
abbrev NoD (thr : List Thread) : Prop := ∀ (u : Nat) (th : Thread), thr[u]? = some th → ∀ r, th.pc ≠ .dtor r
/-- thread `t`, and only it, is inside `obj_release`, with the destructors `rest` still to call -/
abbrev OnlyD (t : Nat) (rest : List Nat) (thr : List Thread) : Prop :=
  (∃ th : Thread, thr[t]? = some th ∧ th.pc = .dtor rest) ∧ ∀ (u : Nat) (th : Thread), u ≠ t → thr[u]? = some th → ∀ r, th.pc ≠ .dtor r

theorem heldSum_set (thr : List Thread) (t : Nat) (th th' : Thread) (h : thr[t]? = some th) :
    heldSum (thr.set t th') + th.held = heldSum thr + th'.held := by
  obtain ⟨hi, hx⟩ := getElem_of_getElem? h
  unfold heldSum
  rw [List.map_set]
  have := Interleave.sum_set (thr.map (·.held)) t th'.held (by simpa using hi)
  simp only [List.getElem_map, hx] at this
  exact this

theorem heldSum_ge (thr : List Thread) (t : Nat) (th : Thread) (h : thr[t]? = some th) :
    th.held ≤ heldSum thr := by
  have := heldSum_set thr t th { th with held := 0 } h
  simp only [] at this
  omega

theorem heldSum_bump_le (thr : List Thread) (u : Nat) : heldSum (bump thr u) ≤ heldSum thr + 1 := by
  unfold bump
  cases h : thr[u]? with
  | none => simp
  | some r =>
    have := heldSum_set thr u r { r with held := r.held + 1 } h
    simp only [] at this ⊢
    omega

theorem getElem?_set_cases {α} (l : List α) (i j : Nat) (a b : α) (h : (l.set i a)[j]? = some b) :
    (i = j ∧ b = a) ∨ (i ≠ j ∧ l[j]? = some b) := by
  by_cases e : i = j
  · subst e
    by_cases hi : i < l.length
    · rw [List.getElem?_set_self hi] at h
      exact Or.inl ⟨rfl, (Option.some.inj h).symm⟩
    · rw [List.getElem?_eq_none (by simp; omega)] at h
      cases h
  · rw [List.getElem?_set_ne e] at h
    exact Or.inr ⟨e, h⟩

theorem NoD_set (thr : List Thread) (t : Nat) (th' : Thread) (h : NoD thr) (hp : ∀ r, th'.pc ≠ .dtor r) :
    NoD (thr.set t th') := by
  intro u th hu
  rcases getElem?_set_cases thr t u th' th hu with ⟨_, e⟩ | ⟨_, e⟩
  · subst e; exact hp
  · exact h u th e

theorem NoD_bump (thr : List Thread) (u : Nat) (h : NoD thr) : NoD (bump thr u) := by
  unfold bump
  cases hu : thr[u]? with
  | none => exact h
  | some r =>
    simp only []
    exact NoD_set thr u _ h (h u r hu)

theorem OnlyD_set_other (thr : List Thread) (t u : Nat) (rest : List Nat) (th' : Thread)
    (h : OnlyD t rest thr) (hne : u ≠ t) (hp : ∀ r, th'.pc ≠ .dtor r) : OnlyD t rest (thr.set u th') := by
  obtain ⟨⟨th, h1, h2⟩, h3⟩ := h
  refine ⟨⟨th, ?_, h2⟩, ?_⟩
  · rw [List.getElem?_set_ne hne]; exact h1
  · intro v tv hv hg
    rcases getElem?_set_cases thr u v th' tv hg with ⟨_, e⟩ | ⟨_, e⟩
    · subst e; exact hp
    · exact h3 v tv hv e

theorem OnlyD_enter (thr : List Thread) (t : Nat) (th th' : Thread) (rest : List Nat) (h : NoD thr)
    (ht : thr[t]? = some th) (hp : th'.pc = .dtor rest) : OnlyD t rest (thr.set t th') := by
  obtain ⟨hi, _⟩ := getElem_of_getElem? ht
  refine ⟨⟨th', List.getElem?_set_self hi, hp⟩, ?_⟩
  intro v tv hv hg
  rw [List.getElem?_set_ne (Ne.symm hv)] at hg
  exact h v tv hg

theorem OnlyD_next (thr : List Thread) (t : Nat) (th' : Thread) (rest rest' : List Nat) (h : OnlyD t rest thr)
    (hp : th'.pc = .dtor rest') : OnlyD t rest' (thr.set t th') := by
  obtain ⟨⟨th, h1, _⟩, h3⟩ := h
  obtain ⟨hi, _⟩ := getElem_of_getElem? h1
  refine ⟨⟨th', List.getElem?_set_self hi, hp⟩, ?_⟩
  intro v tv hv hg
  rw [List.getElem?_set_ne (Ne.symm hv)] at hg
  exact h3 v tv hv hg

theorem OnlyD_leave (thr : List Thread) (t : Nat) (th' : Thread) (rest : List Nat) (h : OnlyD t rest thr)
    (hp : ∀ r, th'.pc ≠ .dtor r) : NoD (thr.set t th') := by
  obtain ⟨_, h3⟩ := h
  intro v tv hg
  rcases getElem?_set_cases thr t v th' tv hg with ⟨_, e⟩ | ⟨hne, e⟩
  · subst e; exact hp
  · exact h3 v tv (Ne.symm hne) e

theorem settle_pc (th : Thread) : ∀ r, (settle th).pc ≠ .dtor r := by
  intro r
  unfold settle
  simp only []
  split <;> simp

theorem settle_held (th : Thread) : (settle th).held = th.held := rfl
theorem settle_prog (th : Thread) : (settle th).prog = th.prog := rfl

/-- The shape of every protocol-respecting execution. -/
inductive Shape (cfg : Cfg) (s : State) : Prop
  | live (hl : ∀ e ∈ s.trace, liveEv e) (hc : 1 ≤ s.cnt) (hs : (heldSum s.thr : Int) ≤ s.cnt) (hn : NoD s.thr)
  | dying (t : Nat) (pre : List Ev) (done rest : List Nat)
      (ht : s.trace = pre ++ Ev.release t 0 :: done.map (Ev.dtor t)) (hl : ∀ e ∈ pre, liveEv e)
      (hc : s.cnt = 0) (hs : heldSum s.thr = 0) (hd : done ++ rest = cfg.dtors) (hr : rest ≠ [])
      (ho : OnlyD t rest s.thr)
  | dead (t : Nat) (pre : List Ev)
      (ht : s.trace = pre ++ Ev.release t 0 :: (cfg.dtors.map (Ev.dtor t) ++ freeEv cfg t)) (hl : ∀ e ∈ pre, liveEv e)
      (hc : s.cnt = 0) (hs : heldSum s.thr = 0) (hn : NoD s.thr)

theorem viol_step_mono (cfg : Cfg) (s : State) (t : Nat) (h : s.viol = true) : (step cfg s t).viol = true := by
  unfold step
  split
  · exact h
  · rename_i th _
    split
    · exact h
    · exact h
    · split
      · exact h
      · rename_i op rest _
        unfold execOp
        cases op with
        | retain => simp [h]
        | release =>
          simp only []
          split
          · unfold enterRelease
            split <;> simp [h]
          · simp [h]
        | give u => simp [h]
    · exact h
    · split <;> exact h

theorem viol_run_mono (cfg : Cfg) (sched : List Nat) : ∀ s : State, s.viol = true → (run cfg s sched).viol = true := by
  induction sched with
  | nil => intro s h; exact h
  | cons t ts ih => intro s h; exact ih _ (viol_step_mono cfg s t h)

theorem or_false_iff' (a b : Bool) (h : (a || b) = false) : a = false ∧ b = false := by
  cases a <;> cases b <;> simp_all

/-- a thread holding a reference can only operate on a live object -/
theorem shape_live_of_held (cfg : Cfg) (s : State) (t : Nat) (th : Thread) (h : Shape cfg s)
    (ht : s.thr[t]? = some th) (hh : 1 ≤ th.held) :
    (∀ e ∈ s.trace, liveEv e) ∧ 1 ≤ s.cnt ∧ (heldSum s.thr : Int) ≤ s.cnt ∧ NoD s.thr := by
  have := heldSum_ge s.thr t th ht
  cases h with
  | live hl hc hs hn => exact ⟨hl, hc, hs, hn⟩
  | dying _ _ _ _ _ _ _ hs => omega
  | dead _ _ _ _ _ hs => omega

theorem live_append (tr : List Ev) (e : Ev) (h : ∀ x ∈ tr, liveEv x) (he : liveEv e) : ∀ x ∈ tr ++ [e], liveEv x := by
  intro x hx
  rcases List.mem_append.1 hx with hx | hx
  · exact h x hx
  · simp only [List.mem_singleton] at hx
    subst hx; exact he

theorem shape_step (cfg : Cfg) (s : State) (t : Nat) (hv : (step cfg s t).viol = false)
    (h : Shape cfg s) : Shape cfg (step cfg s t) := by
  unfold step at hv ⊢
  cases hth : s.thr[t]? with
  | none => simpa [hth] using h
  | some th =>
    simp only [hth] at hv ⊢
    cases hpc : th.pc with
    | start =>
      simp only [hpc, setThr] at hv ⊢
      have hsum := heldSum_set s.thr t th (settle th) hth
      rw [settle_held] at hsum
      cases h with
      | live hl hc hs hn =>
        exact .live hl hc (by simp only []; omega) (NoD_set _ _ _ hn (settle_pc th))
      | dying t' pre done rest ht hl hc hs hd hr ho =>
        have hne : t ≠ t' := by
          intro e; subst e
          obtain ⟨⟨th2, h1, h2⟩, _⟩ := ho
          rw [hth] at h1; cases h1; rw [hpc] at h2; cases h2
        exact .dying t' pre done rest ht hl hc (by simp only []; omega) hd hr (OnlyD_set_other _ _ _ _ _ ho hne (settle_pc th))
      | dead t' pre ht hl hc hs hn =>
        exact .dead t' pre ht hl hc (by simp only []; omega) (NoD_set _ _ _ hn (settle_pc th))
    | done => simpa [hpc] using h
    | ready =>
      simp only [hpc] at hv ⊢
      cases hprog : th.prog with
      | nil => simpa [hprog] using h
      | cons op rest =>
        simp only [hprog] at hv ⊢
        unfold execOp at hv ⊢
        cases op with
        | retain =>
          simp only [] at hv ⊢
          obtain ⟨_, hh⟩ := or_false_iff' _ _ hv
          have hheld : 1 ≤ th.held := by
            have : th.held ≠ 0 := by simpa using hh
            omega
          obtain ⟨hl, hc, hs, hn⟩ := shape_live_of_held cfg s t th h hth hheld
          have hsum := heldSum_set s.thr t th (settle { th with prog := rest, held := th.held + 1 }) hth
          rw [settle_held] at hsum
          simp only [] at hsum
          exact .live (live_append _ _ hl (by simp only [liveEv]; omega)) (by simp only []; omega)
            (by simp only []; omega) (NoD_set _ _ _ hn (settle_pc _))
        | release =>
          simp only [] at hv ⊢
          by_cases hz : s.cnt - 1 = 0
          · rw [if_pos hz] at hv ⊢
            unfold enterRelease at hv ⊢
            cases hdt : cfg.dtors with
            | nil =>
              simp only [hdt] at hv ⊢
              obtain ⟨_, hh⟩ := or_false_iff' _ _ hv
              have hheld : 1 ≤ th.held := by
                have : th.held ≠ 0 := by simpa using hh
                omega
              obtain ⟨hl, hc, hs, hn⟩ := shape_live_of_held cfg s t th h hth hheld
              have hsum := heldSum_set s.thr t th (settle { th with prog := rest, held := th.held - 1 }) hth
              rw [settle_held] at hsum
              simp only [] at hsum
              refine .dead t s.trace ?_ hl (by simp only []; omega) (by simp only []; omega) (NoD_set _ _ _ hn (settle_pc _))
              simp only [hz, hdt, List.map_nil, List.nil_append, List.append_assoc, List.singleton_append]
            | cons d ds =>
              simp only [hdt] at hv ⊢
              obtain ⟨_, hh⟩ := or_false_iff' _ _ hv
              have hheld : 1 ≤ th.held := by
                have : th.held ≠ 0 := by simpa using hh
                omega
              obtain ⟨hl, hc, hs, hn⟩ := shape_live_of_held cfg s t th h hth hheld
              have hsum := heldSum_set s.thr t th { th with prog := rest, held := th.held - 1, pc := .dtor (d :: ds) } hth
              simp only [] at hsum
              refine .dying t s.trace [] (d :: ds) ?_ hl (by simp only []; omega) (by simp only []; omega)
                (by simp [hdt]) (by simp) (OnlyD_enter _ _ th _ _ hn hth rfl)
              simp only [hz, List.map_nil]
          · rw [if_neg hz] at hv ⊢
            simp only [] at hv ⊢
            obtain ⟨_, hh⟩ := or_false_iff' _ _ hv
            have hheld : 1 ≤ th.held := by
              have : th.held ≠ 0 := by simpa using hh
              omega
            obtain ⟨hl, hc, hs, hn⟩ := shape_live_of_held cfg s t th h hth hheld
            have hsum := heldSum_set s.thr t th (settle { th with prog := rest, held := th.held - 1 }) hth
            rw [settle_held] at hsum
            simp only [] at hsum
            exact .live (live_append _ _ hl (by simp only [liveEv]; omega)) (by simp only []; omega)
              (by simp only []; omega) (NoD_set _ _ _ hn (settle_pc _))
        | give u =>
          simp only [] at hv ⊢
          obtain ⟨_, hh⟩ := or_false_iff' _ _ hv
          have hheld : 1 ≤ th.held := by
            have : th.held ≠ 0 := by simpa using hh
            omega
          obtain ⟨hl, hc, hs, hn⟩ := shape_live_of_held cfg s t th h hth hheld
          have hsum := heldSum_set s.thr t th (settle { th with prog := rest, held := th.held - 1 }) hth
          rw [settle_held] at hsum
          simp only [] at hsum
          have hb := heldSum_bump_le (s.thr.set t (settle { th with prog := rest, held := th.held - 1 })) u
          exact .live hl hc (by simp only []; omega) (NoD_bump _ _ (NoD_set _ _ _ hn (settle_pc _)))
    | dtor r =>
      simp only [hpc] at hv ⊢
      cases r with
      | nil => simpa using h
      | cons d ds =>
        simp only [] at hv ⊢
        cases h with
        | live _ _ _ hn => exact absurd hpc (hn t th hth _)
        | dead _ _ _ _ _ _ hn => exact absurd hpc (hn t th hth _)
        | dying t' pre done rest ht hl hc hs hd hr ho =>
          have hte : t = t' := by
            apply Classical.byContradiction
            intro hne
            exact ho.2 t th hne hth _ hpc
          subst hte
          have hrest : rest = d :: ds := by
            obtain ⟨⟨th2, h1, h2⟩, _⟩ := ho
            rw [hth] at h1; cases h1; rw [hpc] at h2; cases h2; rfl
          subst hrest
          cases ds with
          | nil =>
            simp only [] at hv ⊢
            have hsum := heldSum_set s.thr t th (settle th) hth
            rw [settle_held] at hsum
            refine .dead t pre ?_ hl hc (by simp only []; omega) (OnlyD_leave _ _ _ _ ho (settle_pc th))
            simp only [ht, ← hd, List.map_append, List.map_cons, List.map_nil, List.append_assoc, List.cons_append,
              List.nil_append]
          | cons d2 ds2 =>
            simp only [] at hv ⊢
            have hsum := heldSum_set s.thr t th { th with pc := .dtor (d2 :: ds2) } hth
            simp only [] at hsum
            refine .dying t pre (done ++ [d]) (d2 :: ds2) ?_ hl hc (by simp only []; omega)
              (by rw [← hd]; simp) (by simp) (OnlyD_next _ _ _ _ _ ho rfl)
            simp only [ht, List.map_append, List.map_cons, List.map_nil, List.append_assoc, List.cons_append]

theorem shape_run (cfg : Cfg) (sched : List Nat) : ∀ s : State, (s.viol = false → Shape cfg s) →
    (run cfg s sched).viol = false → Shape cfg (run cfg s sched) := by
  induction sched with
  | nil => intro s h hv; exact h hv
  | cons t ts ih =>
    intro s h hv
    refine ih (step cfg s t) ?_ hv
    intro hv1
    have hv0 : s.viol = false := by
      cases hs : s.viol with
      | false => rfl
      | true => rw [viol_step_mono cfg s t hs] at hv1; cases hv1
    exact shape_step cfg s t hv1 (h hv0)

theorem heldSum_init (spec : List (Nat × List Op)) :
    heldSum (spec.map (fun p => (⟨.start, p.2, p.1⟩ : Thread))) = (spec.map (·.1)).sum := by
  unfold heldSum
  rw [List.map_map]
  rfl

theorem shape_init (cfg : Cfg) (c0 : Int) (spec : List (Nat × List Op)) (h1 : 1 ≤ c0)
    (h2 : (((spec.map (·.1)).sum : Nat) : Int) ≤ c0) : Shape cfg (init c0 spec) := by
  refine .live (by simp [init]) h1 (by simp only [init]; rw [heldSum_init]; exact h2) ?_
  intro u th hu r
  simp only [init, List.getElem?_map] at hu
  cases hs : spec[u]? with
  | none => simp [hs] at hu
  | some p =>
    simp only [hs, Option.map_some, Option.some.injEq] at hu
    subst hu
    simp

/-! ### locally safe programs respect the protocol under every schedule -/

theorem safeFrom_mono (p : List Op) : ∀ h, safeFrom h p = true → safeFrom (h + 1) p = true := by
  induction p with
  | nil => intro h _; rfl
  | cons op r ih =>
    intro h hs
    cases op with
    | retain =>
      simp only [safeFrom, Bool.and_eq_true, decide_eq_true_eq] at hs ⊢
      exact ⟨by omega, ih _ hs.2⟩
    | release =>
      simp only [safeFrom, Bool.and_eq_true, decide_eq_true_eq] at hs ⊢
      refine ⟨by omega, ?_⟩
      have := ih _ hs.2
      rwa [show h - 1 + 1 = h + 1 - 1 by omega] at this
    | give u =>
      simp only [safeFrom, Bool.and_eq_true, decide_eq_true_eq] at hs ⊢
      refine ⟨by omega, ?_⟩
      have := ih _ hs.2
      rwa [show h - 1 + 1 = h + 1 - 1 by omega] at this

abbrev AllSafe (thr : List Thread) : Prop := ∀ (u : Nat) (th : Thread), thr[u]? = some th → safeFrom th.held th.prog = true

theorem AllSafe_set (thr : List Thread) (t : Nat) (th' : Thread) (h : AllSafe thr)
    (hp : safeFrom th'.held th'.prog = true) : AllSafe (thr.set t th') := by
  intro u th hu
  rcases getElem?_set_cases thr t u th' th hu with ⟨_, e⟩ | ⟨_, e⟩
  · subst e; exact hp
  · exact h u th e

theorem AllSafe_bump (thr : List Thread) (u : Nat) (h : AllSafe thr) : AllSafe (bump thr u) := by
  unfold bump
  cases hu : thr[u]? with
  | none => exact h
  | some r =>
    simp only []
    exact AllSafe_set thr u _ h (safeFrom_mono _ _ (h u r hu))

theorem safe_step (cfg : Cfg) (s : State) (t : Nat) (hv : s.viol = false) (h : AllSafe s.thr) :
    (step cfg s t).viol = false ∧ AllSafe (step cfg s t).thr := by
  unfold step
  cases hth : s.thr[t]? with
  | none => exact ⟨hv, h⟩
  | some th =>
    simp only []
    have hsafe := h t th hth
    cases hpc : th.pc with
    | start => exact ⟨hv, AllSafe_set _ _ _ h hsafe⟩
    | done => exact ⟨hv, h⟩
    | ready =>
      simp only []
      cases hprog : th.prog with
      | nil => exact ⟨hv, h⟩
      | cons op rest =>
        simp only []
        rw [hprog] at hsafe
        unfold execOp
        cases op with
        | retain =>
          simp only [safeFrom, Bool.and_eq_true, decide_eq_true_eq] at hsafe
          refine ⟨?_, AllSafe_set _ _ _ h hsafe.2⟩
          simp only [hv, Bool.false_or, beq_eq_false_iff_ne, ne_eq]
          omega
        | release =>
          simp only [safeFrom, Bool.and_eq_true, decide_eq_true_eq] at hsafe
          have hne : (th.held == 0) = false := by simp only [beq_eq_false_iff_ne, ne_eq]; omega
          simp only []
          split
          · unfold enterRelease
            split
            · exact ⟨by simp [hv, hne], AllSafe_set _ _ _ h hsafe.2⟩
            · exact ⟨by simp [hv, hne], AllSafe_set _ _ _ h hsafe.2⟩
          · exact ⟨by simp [hv, hne], AllSafe_set _ _ _ h hsafe.2⟩
        | give u =>
          simp only [safeFrom, Bool.and_eq_true, decide_eq_true_eq] at hsafe
          have hne : (th.held == 0) = false := by simp only [beq_eq_false_iff_ne, ne_eq]; omega
          exact ⟨by simp [hv, hne], AllSafe_bump _ _ (AllSafe_set _ _ _ h hsafe.2)⟩
    | dtor r =>
      cases r with
      | nil => exact ⟨hv, h⟩
      | cons d ds =>
        cases ds with
        | nil => exact ⟨hv, AllSafe_set _ _ _ h hsafe⟩
        | cons d2 ds2 => exact ⟨hv, AllSafe_set _ _ _ h hsafe⟩

theorem safe_run (cfg : Cfg) (sched : List Nat) : ∀ s : State, s.viol = false → AllSafe s.thr →
    (run cfg s sched).viol = false := by
  induction sched with
  | nil => intro s hv _; exact hv
  | cons t ts ih =>
    intro s hv h
    obtain ⟨h1, h2⟩ := safe_step cfg s t hv h
    exact ih _ h1 h2

theorem allSafe_of_locallySafe (thr : List Thread) (h : locallySafe thr = true) : AllSafe thr := by
  intro u th hu
  unfold locallySafe at h
  rw [List.all_eq_true] at h
  obtain ⟨hi, hx⟩ := getElem_of_getElem? hu
  exact h th (hx ▸ List.getElem_mem hi)

end ParsecVerif.Object
