import ParsecVerif.Model.VpMap
/-!
  Helper lemmas for the C40 theorems (flat map arithmetic, hwloc map, parser loops).  Core only.
-/
namespace ParsecVerif.VpMap
open CpuSet

theorem flatThr_cpuset (step id : Nat) (hs : 1 ≤ step) :
    (flatThr step id).cpuset = some ⟨List.range' (id * step) step, none⟩ := by
  unfold flatThr
  simp only [Option.some.injEq]
  unfold CpuSet.setRange
  have h1 : (id + 1) * step = id * step + step := Nat.succ_mul id step
  have e1 : ¬ ((((id + 1) * step : Nat) : Int) - 1 = -1) := by omega
  have e2 : ¬ ((((id + 1) * step : Nat) : Int) - 1 < ((id * step : Nat) : Int)) := by omega
  rw [if_neg e1, if_neg e2]
  have e3 : ((((id + 1) * step : Nat) : Int) - 1).toNat + 1 - id * step = step := by omega
  rw [e3]

theorem flatThr_zero (id : Nat) : (flatThr 0 id).cpuset = some ⟨[], some 0⟩ := by
  unfold flatThr
  simp [CpuSet.setRange]

theorem flatVp_length (R : Nat) (sing n : Int) : (flatVp R sing n).length = flatN R n := by
  simp [flatVp]

theorem flatN_pos (R : Nat) (n : Int) (hn : 1 ≤ n) : flatN R n = n.toNat := by
  unfold flatN; rw [if_neg (by omega)]

/-- the step is at least 1 and `n * step ≤ R` when the map is not oversubscribed -/
theorem flatStep_bounds (R : Nat) (sing n : Int) (h1 : 1 ≤ n) (h2 : n ≤ R) :
    1 ≤ flatStep R sing n ∧ n.toNat * flatStep R sing n ≤ R := by
  unfold flatStep
  rw [flatN_pos R n h1]
  by_cases hs : sing = -1
  · rw [if_pos hs]; omega
  · rw [if_neg hs]
    have hpos : 0 < n.toNat := by omega
    have hle : n.toNat ≤ R := by omega
    constructor
    · exact (Nat.le_div_iff_mul_le hpos).2 (by omega)
    · rw [Nat.mul_comm]; exact Nat.div_mul_le_self R n.toNat

theorem mem_flatVp (R : Nat) (sing n : Int) (t : Thr) :
    t ∈ flatVp R sing n ↔ ∃ id, id < flatN R n ∧ t = flatThr (flatStep R sing n) id := by
  unfold flatVp
  simp only [List.mem_map, List.mem_range]
  constructor
  · rintro ⟨id, h, rfl⟩; exact ⟨id, h, rfl⟩
  · rintro ⟨id, h, rfl⟩; exact ⟨id, h, rfl⟩

theorem mem_range' (a lo len : Nat) : a ∈ List.range' lo len ↔ lo ≤ a ∧ a < lo + len := by
  simp [List.mem_range']
  constructor
  · rintro ⟨i, hi, rfl⟩; omega
  · rintro ⟨h1, h2⟩; exact ⟨a - lo, by omega, by omega⟩

/-- two flat threads with different ids have disjoint candidate sets -/
theorem flatThr_disjoint (step i j : Nat) (hs : 1 ≤ step) (hij : i < j) (ci cj : CpuSet)
    (hi : (flatThr step i).cpuset = some ci) (hj : (flatThr step j).cpuset = some cj) : Disjoint ci cj := by
  rw [flatThr_cpuset step i hs] at hi
  rw [flatThr_cpuset step j hs] at hj
  cases hi; cases hj
  intro n ⟨h1, h2⟩
  have hm : (i + 1) * step ≤ j * step := Nat.mul_le_mul_right step hij
  have h3 : (i + 1) * step = i * step + step := Nat.succ_mul i step
  rcases h1 with h1 | ⟨k, hk, _⟩
  · rcases h2 with h2 | ⟨k, hk, _⟩
    · simp only at h1 h2
      rw [mem_range'] at h1 h2
      omega
    · simp at hk
  · simp at hk

theorem flatVp_pairwise (R : Nat) (sing n : Int) (hs : 1 ≤ flatStep R sing n) :
    (flatVp R sing n).Pairwise (fun a b => ∀ ca cb, a.cpuset = some ca → b.cpuset = some cb → Disjoint ca cb) := by
  unfold flatVp
  rw [List.pairwise_map]
  exact List.Pairwise.imp (fun {i j} hij ca cb ha hb => flatThr_disjoint _ i j hs hij ca cb ha hb) (List.pairwise_lt_range)

/-! ### hwloc map -/

def hwCount (socks : List Nat) (rem : Int) : Nat :=
  if 1 ≤ rem ∧ rem ≤ (socks.sum : Nat) then rem.toNat else socks.sum

theorem hwCount_cons (cnt : Nat) (rest : List Nat) (rem : Int) (h : ¬ (1 ≤ rem ∧ rem ≤ (cnt : Int))) :
    hwCount (cnt :: rest) rem = cnt + hwCount rest (rem - cnt) := by
  unfold hwCount
  rw [List.sum_cons]
  split <;> split <;> omega

theorem hwCount_first (cnt : Nat) (rest : List Nat) (rem : Int) (h : 1 ≤ rem ∧ rem ≤ (cnt : Int)) :
    hwCount (cnt :: rest) rem = rem.toNat := by
  unfold hwCount
  rw [List.sum_cons]
  split <;> omega

theorem hwVp_cpusets (core cnt : Nat) :
    (hwVp core cnt).map (·.cpuset) = (List.range cnt).map (fun k => some (CpuSet.single (core + k))) := by
  simp [hwVp, hwThr, Function.comp_def]

/-- thread number k (over all VPs, in order) is bound to core `core + k`, and there are `hwCount` threads -/
theorem hwGoVps_cpusets (socks : List Nat) : ∀ (core : Nat) (rem : Int),
    (hwGoVps socks core rem).flatten.map (·.cpuset)
      = (List.range (hwCount socks rem)).map (fun k => some (CpuSet.single (core + k))) := by
  induction socks with
  | nil =>
    intro core rem
    have : hwCount [] rem = 0 := by unfold hwCount; split <;> simp_all <;> omega
    simp [hwGoVps, this]
  | cons cnt rest ih =>
    intro core rem
    unfold hwGoVps
    by_cases h : 1 ≤ rem ∧ rem ≤ (cnt : Int)
    · rw [if_pos h]
      rw [hwCount_first cnt rest rem h]
      simp only [List.flatten_cons, List.flatten_nil, List.append_nil]
      exact hwVp_cpusets core rem.toNat
    · rw [if_neg h]
      simp only [List.flatten_cons, List.map_append]
      rw [ih (core + cnt) (rem - cnt), hwVp_cpusets]
      have hc := hwCount_cons cnt rest rem h
      rw [hc, List.range_add, List.map_append, List.map_map]
      congr 1
      apply List.map_congr_left
      intro a _
      simp only [Function.comp]
      rw [Nat.add_assoc]

theorem hwGoVps_length_le (socks : List Nat) : ∀ (core : Nat) (rem : Int),
    (hwGoVps socks core rem).length ≤ socks.length := by
  induction socks with
  | nil => intro core rem; simp [hwGoVps]
  | cons cnt rest ih =>
    intro core rem
    unfold hwGoVps
    split
    · simp
    · simp only [List.length_cons]; have := ih (core + cnt) (rem - cnt); omega


/-! ### parse_binding_parameter -/

theorem maskThreads_length (R mask : Nat) : ∀ (k : Nat) (prev : Int), (maskThreads R mask k prev).length = k := by
  intro k
  induction k with
  | zero => intro prev; rfl
  | succ k ih => intro prev; simp [maskThreads, ih]

theorem rangeThreads_length (R : Nat) (start en step : Int) :
    ∀ (k t : Nat) (w skip : Int), (rangeThreads R start en step k t w skip).length = k := by
  intro k
  induction k with
  | zero => intro t w skip; rfl
  | succ k ih =>
    intro t w skip
    unfold rangeThreads
    split
    · split
      · simp
      · split
        · cases k <;> simp
        · simp [ih]
    · simp [ih]

theorem single_within (R : Nat) (w : Int) (h0 : 0 ≤ w) (h1 : w < R) : (CpuSet.single w.toNat).Within R := by
  constructor
  · rfl
  · intro b hb
    simp [CpuSet.single] at hb
    omega

theorem empty_within (R : Nat) : CpuSet.empty.Within R := by
  constructor
  · rfl
  · intro b hb; simp [CpuSet.empty] at hb

theorem mem_replicate_cpuset {n : Nat} {z th : Thr} (h : th ∈ List.replicate n z) : th = z :=
  (List.mem_replicate.1 h).2

/-- every core chosen by the range loop stays in `[start, en]` -/
theorem rangeThreads_within (R : Nat) (start en step : Int) (h0 : 0 ≤ start) (h2 : en < R) (h3 : 0 ≤ step) :
    ∀ (k t : Nat) (w skip : Int), start ≤ w → w ≤ en → 1 ≤ skip →
      ∀ th ∈ rangeThreads R start en step k t w skip, ∀ c, th.cpuset = some c → c.Within R := by
  intro k
  induction k with
  | zero => intro t w skip _ _ _ th hth; simp [rangeThreads] at hth
  | succ k ih =>
    intro t w skip hw1 hw2 hs th hth c hc
    have hcur : ∀ th : Thr, th = ⟨1, some (CpuSet.single w.toNat), -1⟩ → th.cpuset = some c → c.Within R := by
      intro th e h; subst e; simp at h; subst h; exact single_within R w (by omega) (by omega)
    unfold rangeThreads at hth
    split at hth
    · split at hth
      · rcases List.mem_cons.1 hth with e | hm
        · exact hcur th e hc
        · have := mem_replicate_cpuset hm; subst this; simp [Thr.zero] at hc
      · split at hth
        · rcases List.mem_cons.1 hth with e | hm
          · exact hcur th e hc
          · cases k with
            | zero => simp at hm
            | succ k' =>
              rcases List.mem_cons.1 hm with e | hm'
              · subst e; simp at hc; subst hc; exact empty_within R
              · have := mem_replicate_cpuset hm'; subst this; simp at hc
        · rcases List.mem_cons.1 hth with e | hm
          · exact hcur th e hc
          · exact ih (t + 1) (start + skip) (skip + 1) (by omega) (by omega) (by omega) th hm c hc
    · rcases List.mem_cons.1 hth with e | hm
      · exact hcur th e hc
      · exact ih (t + 1) (w + step) skip (by omega) (by omega) hs th hm c hc


theorem inRange_iff (R : Nat) (a : Int) : inRange R a = true ↔ 0 ≤ a ∧ a < R := by
  unfold inRange
  simp only [Bool.and_eq_true, decide_eq_true_eq]
  omega

theorem rgStart_bounds (R : Nat) (hR : 1 ≤ R) (s : Str) : 0 ≤ rgStart R s ∧ rgStart R s < R := by
  unfold rgStart
  split
  · omega
  · split
    · rename_i h; exact (inRange_iff R _).1 h
    · omega

theorem rgEnd_bounds (R : Nat) (hR : 1 ≤ R) (p1 : Str) : 0 ≤ rgEnd R p1 ∧ rgEnd R p1 < R := by
  unfold rgEnd
  split
  · omega
  · split
    · rename_i h; exact (inRange_iff R _).1 h
    · omega

theorem rgStep_nonneg (R : Nat) (p1 : Str) : 0 ≤ rgStep R p1 := by
  unfold rgStep
  split
  · omega
  · omega
  · split
    · rename_i h; exact ((inRange_iff R _).1 h).1
    · omega

theorem rangeMode_within (R nbth : Nat) (hR : 1 ≤ R) (s : Str) (ts : List Thr)
    (h : rangeMode R nbth s = .ok ts) : ∀ th ∈ ts, ∀ c, th.cpuset = some c → c.Within R := by
  unfold rangeMode at h
  split at h
  · cases h
  · cases h
  · rename_i p1 _ _
    simp only [BindOut.ok.injEq] at h
    subst h
    have hs := rgStart_bounds R hR s
    have he := rgEnd_bounds R hR p1
    apply rangeThreads_within R _ _ _ hs.1 _ (rgStep_nonneg R p1) nbth 0 _ 1 (Int.le_refl _) _ (Int.le_refl _)
    · split <;> omega
    · split <;> omega

theorem rangeMode_length (R nbth : Nat) (s : Str) (ts : List Thr)
    (h : rangeMode R nbth s = .ok ts) : ts.length = nbth := by
  unfold rangeMode at h
  split at h
  · cases h
  · cases h
  · simp only [BindOut.ok.injEq] at h
    subst h
    exact rangeThreads_length _ _ _ _ _ _ _ _

/-! #### core list -/

def TabOk (R : Nat) (tab : List Int) : Prop := ∀ x ∈ tab, 0 ≤ x ∧ x < (R : Int)

theorem tabOk_nil (R : Nat) : TabOk R [] := by intro x hx; cases hx

theorem tabOk_snoc {R : Nat} {tab : List Int} (h : TabOk R tab) (a : Int) (ha : 0 ≤ a ∧ a < (R : Int)) :
    TabOk R (tab ++ [a]) := by
  intro x hx
  rcases List.mem_append.1 hx with h1 | h1
  · exact h x h1
  · simp at h1; subst h1; exact ha

theorem tabOk_push {R : Nat} {tab : List Int} (h : TabOk R tab) (a : Int) :
    TabOk R (if inRange R a then tab ++ [a] else tab) := by
  split
  · rename_i hr; exact tabOk_snoc h a ((inRange_iff R a).1 hr)
  · exact h

theorem rangeCands_ok (R : Nat) (lo hi : Int) : ∀ x ∈ rangeCands R lo hi, 0 ≤ x ∧ x < (R : Int) := by
  intro x hx
  unfold rangeCands at hx
  simp only [List.mem_map, List.mem_filter, List.mem_range] at hx
  rcases hx with ⟨t, ⟨ht, _⟩, rfl⟩
  omega

theorem fillRange_ok (R nbth : Nat) : ∀ (cands tab tab' : List Int),
    (∀ x ∈ cands, 0 ≤ x ∧ x < (R : Int)) → TabOk R tab → fillRange nbth cands tab = some tab' → TabOk R tab' := by
  intro cands
  induction cands with
  | nil => intro tab tab' _ ht h; simp [fillRange] at h; subst h; exact ht
  | cons t ts ih =>
    intro tab tab' hc ht h
    unfold fillRange at h
    have ht' : TabOk R (tab ++ [t]) := tabOk_snoc ht t (hc t (List.mem_cons_self ..))
    split at h
    · cases h
    · split at h
      · simp at h; subst h; exact ht'
      · exact ih (tab ++ [t]) tab' (fun x hx => hc x (List.mem_cons_of_mem _ hx)) ht' h

theorem listLoop_ok (R nbth : Nat) : ∀ (f : Nat) (opt : Str) (tab tab' : List Int),
    TabOk R tab → listLoop R nbth f opt tab = some tab' → TabOk R tab' := by
  intro f
  induction f with
  | zero => intro opt tab tab' ht h; simp [listLoop] at h; subst h; exact ht
  | succ f ih =>
    intro opt tab tab' ht h
    unfold listLoop at h
    split at h
    · simp at h; subst h; exact ht
    · split at h
      · split at h
        · cases h
        · split at h
          · cases h
          · rename_i tab2 hfill
            have h2 : TabOk R tab2 := fillRange_ok R nbth _ _ _ (rangeCands_ok R _ _) (tabOk_push ht _) hfill
            split at h
            · simp at h; subst h; exact h2
            · exact ih _ _ _ h2 h
      · split at h
        · simp at h; subst h; exact tabOk_push ht _
        · exact ih _ _ _ (tabOk_push ht _) h

theorem getD_mem_or {l : List Int} {t : Nat} {d : Int} : l.getD t d = d ∨ l.getD t d ∈ l := by
  rw [List.getD_eq_getElem?_getD]
  cases h : l[t]? with
  | none => left; rfl
  | some v => right; simp; exact List.mem_of_getElem? h

/-- list mode: every thread gets exactly one core, valid or the bit set by `HWLOC_SET(cpuset, -1)` -/
theorem listMode_spec (R nbth : Nat) (s : Str) (ts : List Thr) (h : listMode R nbth s = .ok ts) :
    ts.length = nbth ∧ ∀ th ∈ ts, ∃ c : Nat, th.cpuset = some (CpuSet.single c) ∧ (c < R ∨ c = UNBOUND_BIT) := by
  unfold listMode at h
  split at h
  · cases h
  · rename_i tab hl
    have hok := listLoop_ok R nbth _ _ _ _ (tabOk_nil R) hl
    simp only [BindOut.ok.injEq] at h
    subst h
    constructor
    · simp
    · intro th hth
      simp only [List.mem_map, List.mem_range] at hth
      rcases hth with ⟨t, _, rfl⟩
      rcases @getD_mem_or tab t (-1) with e | e
      · refine ⟨UNBOUND_BIT, ?_, Or.inr rfl⟩
        unfold listThr
        rw [e, if_pos (by omega)]
      · have := hok _ e
        refine ⟨(tab.getD t (-1)).toNat, ?_, Or.inl (by omega)⟩
        unfold listThr
        rw [if_neg (by omega)]

theorem maskPick_spec (R mask : Nat) (prev : Int) :
    maskPick R mask prev ≤ R ∨ maskPick R mask prev = nextBit mask (-1) := by
  unfold maskPick
  split
  · right; rfl
  · left; omega

theorem maskThreads_spec (R mask : Nat) : ∀ (k : Nat) (prev : Int), ∀ th ∈ maskThreads R mask k prev,
    ∃ c : Int, th.cpuset = some (CpuSet.single c.toNat) ∧ (c ≤ R ∨ c = nextBit mask (-1)) := by
  intro k
  induction k with
  | zero => intro prev th h; simp [maskThreads] at h
  | succ k ih =>
    intro prev th h
    unfold maskThreads at h
    rcases List.mem_cons.1 h with e | hm
    · subst e; exact ⟨maskPick R mask prev, rfl, maskPick_spec R mask prev⟩
    · exact ih _ th hm

/-! ### bind_map -/

/-- a placement is "unbound" or one of the allowed cores -/
def PlaceOk (allowed : List Nat) (b : Int) : Prop := b = -1 ∨ (0 ≤ b ∧ b.toNat ∈ allowed)

def BMInv (allowed : List Nat) (n : Nat) (st : BM) : Prop :=
  st.binds.length = n ∧ ∀ b ∈ st.binds, PlaceOk allowed b

theorem findCore_ok (allowed : List Nat) (w : Int) (hw : 0 ≤ w) : PlaceOk allowed (findCore allowed w) := by
  unfold findCore
  rw [if_neg (by omega)]
  cases h : allowed[w.toNat]? with
  | none => left; rfl
  | some p =>
    right
    simp only
    constructor
    · omega
    · simp; exact List.mem_of_getElem? h

theorem setLoc_inv {allowed : List Nat} {n : Nat} {st st' : BM} {w : Int} (hi : BMInv allowed n st) (hw : 0 ≤ w)
    (h : setLoc allowed st w = some st') : BMInv allowed n st' := by
  unfold setLoc at h
  split at h
  · cases h
  · simp only [Option.some.injEq] at h
    subst h
    constructor
    · simp [hi.1]
    · intro b hb
      simp only at hb
      rcases List.mem_or_eq_of_mem_set hb with h1 | h1
      · exact hi.2 b h1
      · subst h1; exact findCore_ok allowed w hw

theorem nibbleBits_inv {allowed : List Nat} {n : Nat} (m : Nat) : ∀ (k : Nat) (w : Int) (st st' : BM),
    BMInv allowed n st → 0 ≤ w → nibbleBits allowed m k w st = some st' → BMInv allowed n st' := by
  intro k
  induction k with
  | zero => intro w st st' hi _ h; simp [nibbleBits] at h; subst h; exact hi
  | succ k ih =>
    intro w st st' hi hw h
    unfold nibbleBits at h
    split at h
    · split at h
      · cases h
      · rename_i st1 hs
        exact ih (w + 1) st1 st' (setLoc_inv hi hw hs) (by omega) h
    · exact ih (w + 1) st st' hi (by omega) h

theorem maskScan_inv {allowed : List Nat} {n : Nat} : ∀ (l : Str) (w : Int) (st st' : BM),
    BMInv allowed n st → 0 ≤ w → maskScan allowed l w st = some st' → BMInv allowed n st' := by
  intro l
  induction l with
  | nil => intro w st st' hi _ h; simp [maskScan] at h; subst h; exact hi
  | cons c t ih =>
    intro w st st' hi hw h
    unfold maskScan at h
    split at h
    · simp at h; subst h; exact hi
    · split at h
      · cases h
      · rename_i st1 hs
        exact ih (w + 4) st1 st' (nibbleBits_inv _ 4 w st st1 hi hw hs) (by omega) h

theorem bmRangeLoop_inv {allowed : List Nat} {n : Nat} (en step : Int) (hen : 0 ≤ en) : ∀ (f : Nat) (w : Int) (st st' : BM),
    BMInv allowed n st → (0 < step → 0 ≤ w) → bmRangeLoop allowed en step f w st = some st' → BMInv allowed n st' := by
  intro f
  induction f with
  | zero => intro w st st' hi _ h; simp [bmRangeLoop] at h; subst h; exact hi
  | succ f ih =>
    intro w st st' hi hw h
    unfold bmRangeLoop at h
    split at h
    · rename_i hc
      have hw0 : 0 ≤ w := by
        rcases hc with ⟨h1, _⟩ | ⟨_, h2⟩
        · exact hw h1
        · omega
      split at h
      · cases h
      · rename_i st1 hs
        split at h
        · cases h
        · exact ih (w + step) st1 st' (setLoc_inv hi hw0 hs) (by intro h1; omega) h
    · simp at h; subst h; exact hi

theorem bmStart_nonneg (R : Nat) (opt : Str) : 0 ≤ bmStart R opt := by
  unfold bmStart
  split
  · omega
  · split <;> omega

theorem bmEnd_nonneg (R : Nat) (p1 : Str) : 0 ≤ bmEnd R p1 := by
  unfold bmEnd
  split
  · omega
  · split <;> omega

theorem bmLoop_inv {allowed : List Nat} {n : Nat} (R : Nat) : ∀ (f : Nat) (opt : Str) (st st' : BM),
    BMInv allowed n st → bmLoop R allowed f opt st = some st' → BMInv allowed n st' := by
  intro f
  induction f with
  | zero => intro opt st st' hi h; simp [bmLoop] at h; subst h; exact hi
  | succ f ih =>
    intro opt st st' hi h
    unfold bmLoop at h
    split at h
    · -- hex mask
      split at h
      · cases h
      · rename_i st1 hs
        have h1 := maskScan_inv _ 0 st st1 hi (by omega) hs
        split at h
        · simp at h; subst h; exact h1
        · exact ih _ _ _ h1 h
    · split at h
      · cases h
      · -- range
        split at h
        · cases h
        · rename_i st1 hs
          have h1 := bmRangeLoop_inv _ _ (bmEnd_nonneg R _) _ _ st st1 hi
            (fun _ => bmStart_nonneg R opt) hs
          split at h
          · simp at h; subst h; exact h1
          · exact ih _ _ _ h1 h
      · -- single number
        split at h
        · rename_i hr
          split at h
          · cases h
          · rename_i st1 hs
            have h1 := setLoc_inv hi ((inRange_iff R _).1 hr).1 hs
            split at h
            · simp at h; subst h; exact h1
            · exact ih _ _ _ h1 h
        · split at h
          · simp at h; subst h; exact hi
          · exact ih _ _ _ hi h

/-! ### default placement -/

theorem selectGo_ok (allowed used : List Nat) : ∀ (cands : List Nat) (first : Int),
    PlaceOk allowed first → PlaceOk allowed (selectGo allowed used cands first) := by
  intro cands
  induction cands with
  | nil => intro first h; exact h
  | cons w ws ih =>
    intro first h
    unfold selectGo
    have hf := findCore_ok allowed (w : Int) (by omega)
    split
    · exact ih first h
    · split
      · apply ih
        split
        · exact hf
        · exact h
      · exact hf

theorem selectCore_ok (allowed used : List Nat) (cs : Option CpuSet) (c : Int)
    (h : selectCore allowed used cs = .core c) : PlaceOk allowed c := by
  unfold selectCore at h
  split at h
  · simp at h; subst h; left; rfl
  · split at h
    · simp at h; subst h; exact selectGo_ok _ _ _ _ (Or.inl rfl)
    · simp only at h
      split at h
      · simp at h; subst h; exact selectGo_ok _ _ _ _ (Or.inl rfl)
      · cases h

theorem applyGo_ok (allowed : List Nat) : ∀ (ts : List Thr) (acc : List Int) (used : List Nat) (binds : List Int) (used' : List Nat),
    (∀ b ∈ acc, PlaceOk allowed b) → applyGo allowed ts acc used = .ok binds used' →
    binds.length = acc.length + ts.length ∧ ∀ b ∈ binds, PlaceOk allowed b := by
  intro ts
  induction ts with
  | nil =>
    intro acc used binds used' hacc h
    simp [applyGo] at h
    rcases h with ⟨rfl, _⟩
    constructor
    · simp
    · intro b hb; exact hacc b (List.mem_reverse.1 hb)
  | cons t ts ih =>
    intro acc used binds used' hacc h
    unfold applyGo at h
    split at h
    · cases h
    · rename_i c hc
      have hok := selectCore_ok allowed used t.cpuset c hc
      have := ih (c :: acc) _ binds used' (by
        intro b hb
        rcases List.mem_cons.1 hb with e | e
        · subst e; exact hok
        · exact hacc b e) h
      constructor
      · rw [this.1]; simp; omega
      · exact this.2

end ParsecVerif.VpMap
